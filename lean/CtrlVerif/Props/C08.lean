/-
C08 — I/O-system simulation, linearisation and operating points obey their definitions.

The model (`Model/IOSys.lean`, `Model/IOSysDyn.lean`) follows control/nlsys.py; `K` is an arbitrary
field (ordered where `ufun` searches the time grid), index types are arbitrary finite types for
the interconnection theorems and `Fin n` where the code enumerates coordinates.
-/
import CtrlVerif.Model.IOSysDyn
import CtrlVerif.Lemmas.IOSys
import CtrlVerif.Lemmas.IOSysHist
import CtrlVerif.Lemmas.IOSysStore
import CtrlVerif.Lemmas.SS

namespace CtrlVerif.C08

open CtrlVerif Matrix IOSys

variable {K : Type*} [Field K]
variable {σ σ₁ σ₂ ι ι₁ ι₂ o o₁ o₂ : Type*}

/-! ## the discrete-time loop of `input_output_response` -/

/-- the trajectory has one sample per evaluation time. -/
theorem simulate_length (G : IOSys σ ι o K) (uf : K → Except Err (ι → K)) :
    ∀ (ts : List K) (x0 : σ → K) (tr : List ((σ → K) × (ι → K) × (o → K))),
      simulate G uf ts x0 = .ok tr → tr.length = ts.length := by
  intro ts
  induction ts with
  | nil => intro x0 tr h; simp [simulate] at h; simp [← h]
  | cons t ts ih =>
    intro x0 tr h
    obtain ⟨u, y, x', rest, _, _, _, hrest, rfl⟩ := (simulate_cons G uf t ts x0 tr).mp h
    simp [ih _ _ hrest]

/-- the first returned state is the (processed) initial state. -/
theorem simulate_init (G : IOSys σ ι o K) (uf : K → Except Err (ι → K)) (ts : List K)
    (x0 : σ → K) (tr : List ((σ → K) × (ι → K) × (o → K))) (h : simulate G uf ts x0 = .ok tr)
    (h0 : 0 < tr.length) : tr[0].1 = x0 := by
  cases ts with
  | nil => simp [simulate] at h; subst h; simp at h0
  | cons t ts =>
    obtain ⟨u, y, x', rest, _, _, _, _, rfl⟩ := (simulate_cons G uf t ts x0 tr).mp h
    rfl

/-- **discrete_recursion**: at every returned time `t_k` the returned input is `ufun(t_k)`, the
returned output is `h(t_k, x[k], u[k])` and the next returned state is `f(t_k, x[k], u[k])` —
identically, for every system, input function and time list. -/
theorem discrete_recursion (G : IOSys σ ι o K) (uf : K → Except Err (ι → K)) :
    ∀ (ts : List K) (x0 : σ → K) (tr : List ((σ → K) × (ι → K) × (o → K))),
      simulate G uf ts x0 = .ok tr →
      ∀ (k : Nat) (hk : k < ts.length) (hk' : k < tr.length),
        uf ts[k] = .ok tr[k].2.1 ∧ G.h ts[k] tr[k].1 tr[k].2.1 = .ok tr[k].2.2 ∧
        ∀ (h1 : k + 1 < tr.length), G.f ts[k] tr[k].1 tr[k].2.1 = .ok tr[k + 1].1 := by
  intro ts
  induction ts with
  | nil => intro x0 tr _ k hk; simp at hk
  | cons t ts ih =>
    intro x0 tr h k hk hk'
    obtain ⟨u, y, x', rest, hu, hy, hx', hrest, rfl⟩ := (simulate_cons G uf t ts x0 tr).mp h
    cases k with
    | zero =>
      refine ⟨by simpa using hu, by simpa using hy, fun h1 => ?_⟩
      have h1' : 0 < rest.length := by simpa using h1
      have := simulate_init G uf ts x' rest hrest h1'
      simpa [this] using hx'
    | succ k =>
      have hk2 : k < ts.length := by simpa using hk
      have hk3 : k < rest.length := by simpa using hk'
      obtain ⟨a, b, c⟩ := ih x' rest hrest k hk2 hk3
      refine ⟨by simpa using a, by simpa using b, fun h1 => ?_⟩
      have h1' : k + 1 < rest.length := by simpa using h1
      simpa using c h1'

/-- the loop raises exactly when one of its evaluations raises: if every evaluation succeeds the
trajectory exists (so an error is never invented). -/
theorem simulate_total (G : IOSys σ ι o K) (uf : K → Except Err (ι → K))
    (hu : ∀ t, ∃ u, uf t = .ok u) (hf : ∀ t x u, ∃ x', G.f t x u = .ok x')
    (hh : ∀ t x u, ∃ y, G.h t x u = .ok y) :
    ∀ (ts : List K) (x0 : σ → K), ∃ tr, simulate G uf ts x0 = .ok tr := by
  intro ts
  induction ts with
  | nil => intro x0; exact ⟨[], rfl⟩
  | cons t ts ih =>
    intro x0
    obtain ⟨u, hu'⟩ := hu t
    obtain ⟨y, hy⟩ := hh t x0 u
    obtain ⟨x', hx'⟩ := hf t x0 u
    obtain ⟨rest, hrest⟩ := ih x'
    exact ⟨(x0, u, y) :: rest, (simulate_cons G uf t ts x0 _).mpr ⟨u, y, x', rest, hu', hy, hx', hrest, rfl⟩⟩

/-- non-vacuity: a scalar accumulator `x⁺ = x + u`, `y = 2x` over three steps. -/
example :
    (simulate (⟨fun _ x u => .ok (x + u), fun _ x _ => .ok (2 • x)⟩ : IOSys (Fin 1) (Fin 1) (Fin 1) ℚ)
      (fun t => .ok (fun _ => t)) [0, 1, 2] (fun _ => 5)).map
        (List.map fun s => (s.1 0, s.2.1 0, s.2.2 0))
      = .ok [(5, 0, 10), (5, 1, 10), (6, 2, 12)] := by decide +kernel

/-! ## signal level: homogeneous systems commute with a scaling of all signals -/

/-- **simulate_smul**: for a system whose maps are homogeneous of degree 1, scaling the input
function and the initial state by `c ≠ 0` scales the whole discrete-time response (states, inputs,
outputs) by `c`, and an error stays the same error: the response carries no absolute scale. -/
theorem simulate_smul (G : IOSys σ ι o K) (hG : Homog G) (c : K) (hc : c ≠ 0)
    (uf uf' : K → Except Err (ι → K)) (huf : ∀ t, uf' t = (uf t).map (c • ·)) :
    ∀ (ts : List K) (x0 : σ → K),
      simulate G uf' ts (c • x0) =
        (simulate G uf ts x0).map (List.map fun s => (c • s.1, c • s.2.1, c • s.2.2)) := by
  intro ts
  induction ts with
  | nil => intro x0; rfl
  | cons t ts ih =>
    intro x0
    simp only [simulate, huf t]
    cases hu : uf t with
    | error e => rfl
    | ok u =>
      simp only [Except.map]
      rw [(hG c hc t x0 u).2, (hG c hc t x0 u).1]
      cases hy : G.h t x0 u with
      | error e => rfl
      | ok y =>
        cases hx : G.f t x0 u with
        | error e => rfl
        | ok x' =>
          simp only [Except.map]
          rw [ih x']
          cases hr : simulate G uf ts x' with
          | error e => rfl
          | ok rest => rfl

section UfunScale
variable [LinearOrder K]

/-- the interpolated input of scaled samples is the scaled interpolated input. -/
theorem ufun_smul (T : List K) (U : List (ι → K)) (c t : K) :
    ufun T (U.map (c • ·)) t = (ufun T U t).map (c • ·) := by
  unfold ufun
  simp only [List.getElem?_map]
  generalize clipIdx (searchLeft T t) 1 (T.length - 1) = idx
  cases T[idx - 1]? <;> cases T[idx]? <;> cases U[idx - 1]? <;> cases U[idx]? <;>
    simp only [Option.map, Except.map]
  rename_i t0 t1 u0 u1
  split
  · rfl
  · simp only [Except.ok.injEq]
    funext i
    simp only [Pi.smul_apply, smul_eq_mul]
    ring

/-- **response_smul**: input samples and initial state times `c` give the response times `c`. -/
theorem response_smul (G : IOSys σ ι o K) (hG : Homog G) (c : K) (hc : c ≠ 0) (T : List K)
    (U : List (ι → K)) (ts : List K) (x0 : σ → K) :
    simulate G (ufun T (U.map (c • ·))) ts (c • x0) =
      (simulate G (ufun T U) ts x0).map (List.map fun s => (c • s.1, c • s.2.1, c • s.2.2)) :=
  simulate_smul G hG c hc _ _ (fun t => ufun_smul T U c t) ts x0

end UfunScale

/-- a linear system is homogeneous. -/
theorem ofSS_homog [Fintype σ] [Fintype ι] (G : SS σ ι o K) : Homog (ofSS G) := by
  intro c _ t x u
  simp [ofSS, Except.map, Matrix.mulVec_smul, smul_add]

/-- non-vacuity: the accumulator `x⁺ = x + u`, `y = 2x` at the level `2⁻⁴⁰`: the response is the
response at level 1 times `2⁻⁴⁰`. -/
example :
    (simulate (ofSS (⟨!![1], !![1], !![2], !![0]⟩ : SS (Fin 1) (Fin 1) (Fin 1) ℚ))
      (ufun [0, 1, 2] ([fun _ => 1, fun _ => 3, fun _ => -1].map ((1 / 2 ^ 40 : ℚ) • ·))) [0, 1, 2]
      ((1 / 2 ^ 40 : ℚ) • fun _ => 5)).map (List.map fun s => (s.1 0, s.2.1 0, s.2.2 0))
      = .ok [(5 / 2 ^ 40, 1 / 2 ^ 40, 10 / 2 ^ 40), (6 / 2 ^ 40, 3 / 2 ^ 40, 12 / 2 ^ 40),
             (9 / 2 ^ 40, -1 / 2 ^ 40, 18 / 2 ^ 40)] := by
  rw [response_smul _ (ofSS_homog _) _ (by norm_num)]
  decide +kernel

/-! ## `ufun`: interpolation of the input samples -/

section Ufun
variable [LinearOrder K]

/-- the segment `[T[j], T[j+1]]` selected by the clipped index `j + 1`. -/
theorem ufun_segment (T : List K) (U : List (ι → K)) (t : K) (j : Nat)
    (hj : j + 1 < T.length) (hU : U.length = T.length)
    (hidx : clipIdx (searchLeft T t) 1 (T.length - 1) = j + 1)
    (hne : T[j + 1] - T[j] ≠ 0) :
    ufun T U t = .ok (fun i =>
      (U[j]'(by omega)) i * (1 - (t - T[j]) / (T[j + 1] - T[j]))
        + (U[j + 1]'(by omega)) i * ((t - T[j]) / (T[j + 1] - T[j]))) := by
  have h1 : T[j + 1 - 1]? = some T[j] := by simp [List.getElem?_eq_getElem (show j < T.length by omega)]
  have h2 : T[j + 1]? = some T[j + 1] := List.getElem?_eq_getElem hj
  have h3 : U[j + 1 - 1]? = some (U[j]'(by omega)) := by
    simp [List.getElem?_eq_getElem (show j < U.length by omega)]
  have h4 : U[j + 1]? = some (U[j + 1]'(by omega)) := List.getElem?_eq_getElem (by omega)
  simp only [ufun, hidx, h1, h2, h3, h4, hne, if_false]

/-- `searchLeft` at a grid point of a strictly increasing grid is its position. -/
theorem searchLeft_grid (T : List K) (hT : T.Pairwise (· < ·)) (k : Nat) (hk : k < T.length) :
    searchLeft T T[k] = k := by
  refine searchLeft_eq T hT T[k] k (le_of_lt hk) (fun j hj hjk => pairwise_lt_get hT hj hk hjk)
    (fun j hj hkj => ?_)
  rcases Nat.eq_or_lt_of_le hkj with rfl | hlt
  · exact lt_irrefl _
  · exact not_lt.mpr (le_of_lt (pairwise_lt_get hT hk hj hlt))

/-- **ufun_grid**: on a strictly increasing grid with at least two points `ufun(T[k]) = U[k]`. -/
theorem ufun_grid (T : List K) (U : List (ι → K)) (hT : T.Pairwise (· < ·)) (h2 : 2 ≤ T.length)
    (hU : U.length = T.length) (k : Nat) (hk : k < T.length) :
    ufun T U T[k] = .ok (U[k]'(by omega)) := by
  have hs := searchLeft_grid T hT k hk
  cases k with
  | zero =>
    have hidx : clipIdx (searchLeft T T[0]) 1 (T.length - 1) = 0 + 1 := by
      rw [hs]; simp [clipIdx]; omega
    have hlt : T[0] < T[1] := pairwise_lt_get hT (by omega) (by omega) (by omega)
    have hne : T[0 + 1] - T[0] ≠ 0 := sub_ne_zero.mpr (ne_of_gt hlt)
    rw [ufun_segment T U T[0] 0 (by omega) hU hidx hne]
    congr 1
    funext i
    simp
  | succ k =>
    have hidx : clipIdx (searchLeft T T[k + 1]) 1 (T.length - 1) = k + 1 := by
      rw [hs]; simp [clipIdx]; omega
    have hlt : T[k] < T[k + 1] := pairwise_lt_get hT (by omega) hk (by omega)
    have hne : T[k + 1] - T[k] ≠ 0 := sub_ne_zero.mpr (ne_of_gt hlt)
    rw [ufun_segment T U T[k + 1] k hk hU hidx hne]
    congr 1
    funext i
    rw [div_self hne]
    ring

/-- **ufun_between**: for `T[k] < t ≤ T[k+1]` the value is the linear interpolation of `U[k]` and
`U[k+1]` with weight `λ = (t - T[k]) / (T[k+1] - T[k])`. -/
theorem ufun_between (T : List K) (U : List (ι → K)) (hT : T.Pairwise (· < ·))
    (hU : U.length = T.length) (k : Nat) (hk : k + 1 < T.length) (t : K)
    (hlo : T[k] < t) (hhi : t ≤ T[k + 1]) :
    ufun T U t = .ok (fun i =>
      (U[k]'(by omega)) i * (1 - (t - T[k]) / (T[k + 1] - T[k]))
        + (U[k + 1]'(by omega)) i * ((t - T[k]) / (T[k + 1] - T[k]))) := by
  have hs : searchLeft T t = k + 1 := by
    refine searchLeft_eq T hT t (k + 1) (le_of_lt hk) (fun j hj hjk => ?_) (fun j hj hkj => ?_)
    · rcases Nat.eq_or_lt_of_le (Nat.lt_succ_iff.mp hjk) with rfl | hlt
      · exact hlo
      · exact lt_trans (pairwise_lt_get hT hj (by omega) hlt) hlo
    · rcases Nat.eq_or_lt_of_le hkj with rfl | hlt
      · exact not_lt.mpr hhi
      · exact not_lt.mpr (le_trans hhi (le_of_lt (pairwise_lt_get hT hk hj hlt)))
  have hidx : clipIdx (searchLeft T t) 1 (T.length - 1) = k + 1 := by
    rw [hs]; simp [clipIdx]; omega
  have hlt : T[k] < T[k + 1] := pairwise_lt_get hT (by omega) hk (by omega)
  exact ufun_segment T U t k hk hU hidx (sub_ne_zero.mpr (ne_of_gt hlt))

/-- before the first time point the first segment is extrapolated (`np.clip(·, 1, ·)`). -/
theorem ufun_before (T : List K) (U : List (ι → K)) (hT : T.Pairwise (· < ·)) (h2 : 2 ≤ T.length)
    (hU : U.length = T.length) (t : K) (ht : t ≤ T[0]) :
    ufun T U t = .ok (fun i =>
      (U[0]'(by omega)) i * ((1 : K) - (t - T[0]) / (T[1] - T[0]))
        + (U[1]'(by omega)) i * ((t - T[0]) / (T[1] - T[0]))) := by
  have hs : searchLeft T t = 0 := by
    refine searchLeft_eq T hT t 0 (Nat.zero_le _) (fun j hj hjk => absurd hjk (Nat.not_lt_zero j))
      (fun j hj _ => ?_)
    rcases Nat.eq_zero_or_pos j with rfl | hpos
    · exact not_lt.mpr ht
    · exact not_lt.mpr (le_trans ht (le_of_lt (pairwise_lt_get hT (by omega) hj hpos)))
  have hidx : clipIdx (searchLeft T t) 1 (T.length - 1) = 0 + 1 := by
    rw [hs]; simp [clipIdx]; omega
  have hlt : T[0] < T[1] := pairwise_lt_get hT (by omega) (by omega) (by omega)
  have := ufun_segment T U t 0 (by omega) hU hidx (sub_ne_zero.mpr (ne_of_gt hlt))
  simpa using this

/-- non-vacuity: `T = [0, 2, 4]`, scalar samples `1, 5, -3`; half way between the first two
points the value is `3`, at the second point it is `5`. -/
example : (ufun [(0 : ℚ), 2, 4] [fun _ : Fin 1 => (1 : ℚ), fun _ => 5, fun _ => -3] 1).map (· 0)
    = .ok 3 := by decide +kernel
example : (ufun [(0 : ℚ), 2, 4] [fun _ : Fin 1 => (1 : ℚ), fun _ => 5, fun _ => -3] 2).map (· 0)
    = .ok 5 := by decide +kernel

end Ufun

/-! ## linearisation -/

/-- entry `i` of `M (x + eps e_j) - M x` is `eps M i j`. -/
theorem mulVec_add_single {n : Nat} {ρ : Type*} (M : Matrix ρ (Fin n) K) (x : Fin n → K) (j : Fin n)
    (eps : K) (i : ρ) : (M.mulVec (x + Pi.single j eps)) i = (M.mulVec x) i + M i j * eps := by
  rw [Matrix.mulVec_add, Matrix.mulVec_single]
  simp [Matrix.col, mul_comm]

/-- **linearize_affine**: if at time `t` the update and output maps are affine,
`f = A x + B u + c_f`, `h = C x + D u + c_h`, the forward differences equal the Jacobians for every
step `eps ≠ 0` and every nominal point: `linearize` returns exactly `(A, B, C, D)`.  In particular
a linear system used as an I/O system returns its own matrices (`linearize_ofSS`). -/
theorem linearize_affine {n m : Nat} (G : IOSys (Fin n) (Fin m) o K) (S : SS (Fin n) (Fin m) o K)
    (cf : Fin n → K) (ch : o → K) (t : K)
    (hf : ∀ x u, G.f t x u = .ok (S.A.mulVec x + S.B.mulVec u + cf))
    (hh : ∀ x u, G.h t x u = .ok (S.C.mulVec x + S.D.mulVec u + ch))
    (x0 : Fin n → K) (u0 : Fin m → K) (eps : K) (he : eps ≠ 0) :
    linearize G t x0 u0 eps = .ok S := by
  have e1 := seqFin_ok (fun j => G.f t (x0 + Pi.single j eps) u0)
    (fun j => S.A.mulVec (x0 + Pi.single j eps) + S.B.mulVec u0 + cf)
    (fun j => hf (x0 + Pi.single j eps) u0)
  have e2 := seqFin_ok (fun j => G.h t (x0 + Pi.single j eps) u0)
    (fun j => S.C.mulVec (x0 + Pi.single j eps) + S.D.mulVec u0 + ch)
    (fun j => hh (x0 + Pi.single j eps) u0)
  have e3 := seqFin_ok (fun j => G.f t x0 (u0 + Pi.single j eps))
    (fun j => S.A.mulVec x0 + S.B.mulVec (u0 + Pi.single j eps) + cf)
    (fun j => hf x0 (u0 + Pi.single j eps))
  have e4 := seqFin_ok (fun j => G.h t x0 (u0 + Pi.single j eps))
    (fun j => S.C.mulVec x0 + S.D.mulVec (u0 + Pi.single j eps) + ch)
    (fun j => hh x0 (u0 + Pi.single j eps))
  unfold linearize
  rw [hh x0 u0]; dsimp only
  rw [hf x0 u0]; dsimp only
  rw [e1]; dsimp only
  rw [e2]; dsimp only
  rw [e3]; dsimp only
  rw [e4]; dsimp only
  cases S with
  | mk A B C D =>
    congr 1
    congr 1 <;>
    · funext i j
      simp only [Pi.add_apply, mulVec_add_single]
      field_simp
      ring

/-- a `StateSpace` used as an I/O system linearises to itself. -/
theorem linearize_ofSS {n m : Nat} (S : SS (Fin n) (Fin m) o K) (t : K) (x0 : Fin n → K)
    (u0 : Fin m → K) (eps : K) (he : eps ≠ 0) : linearize (ofSS S) t x0 u0 eps = .ok S :=
  linearize_affine (ofSS S) S 0 0 t (fun x u => by simp [ofSS]) (fun x u => by simp [ofSS]) x0 u0 eps he

/-- with `eps = 0` the quotient is `0/0`: the statement needs `eps ≠ 0` (Lean's `x / 0 = 0` makes
every entry zero). -/
example : linearize (ofSS (⟨!![2], !![3], !![5], !![7]⟩ : SS (Fin 1) (Fin 1) (Fin 1) ℚ)) 0
    (fun _ => 1) (fun _ => 1) 0 ≠ .ok ⟨!![2], !![3], !![5], !![7]⟩ := by
  intro h
  have h2 := congrArg (fun r => r.map (fun S => S.A 0 0)) h
  revert h2
  decide +kernel

/-- non-vacuity: an affine map with offset, at a non-zero point, `eps = 1/1000000`. -/
example : (linearize (affine (⟨!![2, 1; 0, -1], !![3; 1], !![5, 4], !![7]⟩ :
    SS (Fin 2) (Fin 1) (Fin 1) ℚ) (fun _ => 9) (fun _ => -4)) 3 ![1, -2] ![4] (1 / 1000000)).map
      (fun S => (S.A 0 1, S.A 1 1, S.B 0 0, S.C 0 0, S.D 0 0)) = .ok (1, -1, 3, 5, 7) := by
  decide +kernel

/-! ## interconnections: the signal-flow equations -/

section IC
variable [Fintype ι] [Fintype ι₁] [Fintype ι₂] [Fintype o₁] [Fintype o₂]
variable [DecidableEq K] [DecidableEq ι₁] [DecidableEq ι₂]

/-- **static_io_sound**: whenever the loop of `_compute_static_io` exits normally (after any
number of rounds, from any start), the returned subsystem inputs `ul` and outputs `yl` satisfy
the signal-flow equations `y_i = h_i(t, x_i, u_i)`, `ul = connect_map · yl + input_map · u`. -/
theorem static_io_sound (G₁ : IOSys σ₁ ι₁ o₁ K) (G₂ : IOSys σ₂ ι₂ o₂ K)
    (Cm : Matrix (ι₁ ⊕ ι₂) (o₁ ⊕ o₂) K) (Im : Matrix (ι₁ ⊕ ι₂) ι K) (t : K) (x : σ₁ ⊕ σ₂ → K)
    (u : ι → K) (c : Nat) (ul0 ul : ι₁ ⊕ ι₂ → K) (yl : o₁ ⊕ o₂ → K)
    (h : iterate (step2 G₁ G₂ Cm Im t x u) c ul0 = .ok (ul, yl)) :
    ∃ y₁ y₂, G₁.h t (x ∘ Sum.inl) (ul ∘ Sum.inl) = .ok y₁ ∧
      G₂.h t (x ∘ Sum.inr) (ul ∘ Sum.inr) = .ok y₂ ∧ yl = Sum.elim y₁ y₂ ∧
      ul = Cm.mulVec yl + Im.mulVec u := by
  have hs := iterate_sound _ c ul0 (ul, yl) h
  simp only [step2] at hs
  split at hs
  · contradiction
  · rename_i y₁ h1
    split at hs
    · contradiction
    · rename_i y₂ h2
      injection hs with hs
      have ha := (Prod.mk.inj hs).1
      have hb := (Prod.mk.inj hs).2
      exact ⟨y₁, y₂, h1, h2, ha.symm, by rw [← ha]; exact hb.symm⟩

/-- the same for a single subsystem. -/
theorem static_io_sound1 (G : IOSys σ₁ ι₁ o₁ K) (Cm : Matrix ι₁ o₁ K) (Im : Matrix ι₁ ι K) (t : K)
    (x : σ₁ → K) (u : ι → K) (c : Nat) (ul0 ul : ι₁ → K) (yl : o₁ → K)
    (h : iterate (step1 G Cm Im t x u) c ul0 = .ok (ul, yl)) :
    G.h t x ul = .ok yl ∧ ul = Cm.mulVec yl + Im.mulVec u := by
  have hs := iterate_sound _ c ul0 (ul, yl) h
  simp only [step1] at hs
  split at hs
  · contradiction
  · rename_i y h1
    injection hs with hs
    have ha := (Prod.mk.inj hs).1
    have hb := (Prod.mk.inj hs).2
    exact ⟨by rw [← ha]; exact h1, by rw [← ha]; exact hb.symm⟩

/-- `InterconnectedSystem._out`: the output is `output_map · [yl; ul]` for signals satisfying the
flow equations. -/
theorem ic2_out (G₁ : IOSys σ₁ ι₁ o₁ K) (G₂ : IOSys σ₂ ι₂ o₂ K)
    (Cm : Matrix (ι₁ ⊕ ι₂) (o₁ ⊕ o₂) K) (Im : Matrix (ι₁ ⊕ ι₂) ι K)
    (Om : Matrix o ((o₁ ⊕ o₂) ⊕ (ι₁ ⊕ ι₂)) K) (t : K) (x : σ₁ ⊕ σ₂ → K) (u : ι → K) (y : o → K)
    (h : (ic2 G₁ G₂ Cm Im Om).h t x u = .ok y) :
    ∃ ul y₁ y₂, G₁.h t (x ∘ Sum.inl) (ul ∘ Sum.inl) = .ok y₁ ∧
      G₂.h t (x ∘ Sum.inr) (ul ∘ Sum.inr) = .ok y₂ ∧
      ul = Cm.mulVec (Sum.elim y₁ y₂) + Im.mulVec u ∧
      y = Om.mulVec (Sum.elim (Sum.elim y₁ y₂) ul) := by
  simp only [ic2] at h
  split at h
  · contradiction
  · rename_i r hr
    obtain ⟨y₁, y₂, h1, h2, hyl, hul⟩ := static_io_sound G₁ G₂ Cm Im t x u 3 _ r.1 r.2 hr
    injection h with h
    exact ⟨r.1, y₁, y₂, h1, h2, by rw [← hyl]; exact hul, by rw [← hyl]; exact h.symm⟩

/-- `InterconnectedSystem._rhs`: every subsystem is updated with its own state and the input the
flow equations give it. -/
theorem ic2_rhs (G₁ : IOSys σ₁ ι₁ o₁ K) (G₂ : IOSys σ₂ ι₂ o₂ K)
    (Cm : Matrix (ι₁ ⊕ ι₂) (o₁ ⊕ o₂) K) (Im : Matrix (ι₁ ⊕ ι₂) ι K)
    (Om : Matrix o ((o₁ ⊕ o₂) ⊕ (ι₁ ⊕ ι₂)) K) (t : K) (x : σ₁ ⊕ σ₂ → K) (u : ι → K)
    (x' : σ₁ ⊕ σ₂ → K) (h : (ic2 G₁ G₂ Cm Im Om).f t x u = .ok x') :
    ∃ ul y₁ y₂, G₁.h t (x ∘ Sum.inl) (ul ∘ Sum.inl) = .ok y₁ ∧
      G₂.h t (x ∘ Sum.inr) (ul ∘ Sum.inr) = .ok y₂ ∧
      ul = Cm.mulVec (Sum.elim y₁ y₂) + Im.mulVec u ∧
      G₁.f t (x ∘ Sum.inl) (ul ∘ Sum.inl) = .ok (x' ∘ Sum.inl) ∧
      G₂.f t (x ∘ Sum.inr) (ul ∘ Sum.inr) = .ok (x' ∘ Sum.inr) := by
  simp only [ic2] at h
  split at h
  · contradiction
  · rename_i r hr
    obtain ⟨y₁, y₂, h1, h2, hyl, hul⟩ := static_io_sound G₁ G₂ Cm Im t x u 3 _ r.1 r.2 hr
    split at h
    · contradiction
    · rename_i x₁ hx₁
      split at h
      · contradiction
      · rename_i x₂ hx₂
        injection h with h
        subst h
        exact ⟨r.1, y₁, y₂, h1, h2, by rw [← hyl]; exact hul, by simpa using hx₁, by simpa using hx₂⟩

/-- **ic2_homog**: an interconnection of two homogeneous subsystems (any connection, input and
output maps) is homogeneous: the loop of `_compute_static_io` takes the same number of rounds and
raises "algebraic loop detected" in exactly the same cases at every signal level `c ≠ 0`, and
`_rhs` / `_out` of the interconnection scale with the signals. -/
theorem ic2_homog (G₁ : IOSys σ₁ ι₁ o₁ K) (G₂ : IOSys σ₂ ι₂ o₂ K) (h₁ : Homog G₁) (h₂ : Homog G₂)
    (Cm : Matrix (ι₁ ⊕ ι₂) (o₁ ⊕ o₂) K) (Im : Matrix (ι₁ ⊕ ι₂) ι K)
    (Om : Matrix o ((o₁ ⊕ o₂) ⊕ (ι₁ ⊕ ι₂)) K) : Homog (ic2 G₁ G₂ Cm Im Om) := by
  intro c hc t x u
  have hit := iterate_scale (step2 G₁ G₂ Cm Im t x u) (step2 G₁ G₂ Cm Im t (c • x) (c • u))
    (fun v => c • v) (fun v => c • v) (smul_injective_fun c hc)
    (fun ul => step2_smul G₁ G₂ h₁ h₂ Cm Im c hc t x u ul) 3 (Im.mulVec u)
  have hI : Im.mulVec (c • u) = c • Im.mulVec u := Matrix.mulVec_smul _ _ _
  have e1 : (c • x) ∘ Sum.inl = c • (x ∘ Sum.inl) := rfl
  have e2 : (c • x) ∘ Sum.inr = c • (x ∘ Sum.inr) := rfl
  constructor
  · simp only [ic2, hI]
    rw [hit]
    cases iterate (step2 G₁ G₂ Cm Im t x u) 3 (Im.mulVec u) with
    | error e => rfl
    | ok r =>
      have e3 : (c • r.1) ∘ Sum.inl = c • (r.1 ∘ Sum.inl) := rfl
      have e4 : (c • r.1) ∘ Sum.inr = c • (r.1 ∘ Sum.inr) := rfl
      simp only [Except.map, Prod.map, e1, e2, e3, e4, (h₁ c hc t _ _).1, (h₂ c hc t _ _).1]
      cases G₁.f t (x ∘ Sum.inl) (r.1 ∘ Sum.inl) with
      | error e => rfl
      | ok x₁ =>
        cases G₂.f t (x ∘ Sum.inr) (r.1 ∘ Sum.inr) with
        | error e => rfl
        | ok x₂ =>
          simp only [Except.map, Except.ok.injEq]
          funext i; cases i <;> rfl
  · simp only [ic2, hI]
    rw [hit]
    cases iterate (step2 G₁ G₂ Cm Im t x u) 3 (Im.mulVec u) with
    | error e => rfl
    | ok r =>
      simp only [Except.map, Prod.map, Except.ok.injEq]
      have : Sum.elim (c • r.2) (c • r.1) = c • Sum.elim r.2 r.1 := by
        funext i; cases i <;> rfl
      rw [this, Matrix.mulVec_smul]

/-- the same for an interconnection with one subsystem. -/
theorem ic1_homog (G : IOSys σ₁ ι₁ o₁ K) (hG : Homog G) (Cm : Matrix ι₁ o₁ K) (Im : Matrix ι₁ ι K)
    (Om : Matrix o (o₁ ⊕ ι₁) K) : Homog (ic1 G Cm Im Om) := by
  intro c hc t x u
  have hit := iterate_scale (step1 G Cm Im t x u) (step1 G Cm Im t (c • x) (c • u))
    (fun v => c • v) (fun v => c • v) (smul_injective_fun c hc)
    (fun ul => step1_smul G hG Cm Im c hc t x u ul) 2 (Im.mulVec u)
  have hI : Im.mulVec (c • u) = c • Im.mulVec u := Matrix.mulVec_smul _ _ _
  constructor
  · simp only [ic1, hI]
    rw [hit]
    cases iterate (step1 G Cm Im t x u) 2 (Im.mulVec u) with
    | error e => rfl
    | ok r => simp only [Except.map, Prod.map, (hG c hc t _ _).1]
  · simp only [ic1, hI]
    rw [hit]
    cases iterate (step1 G Cm Im t x u) 2 (Im.mulVec u) with
    | error e => rfl
    | ok r =>
      simp only [Except.map, Prod.map, Except.ok.injEq]
      have : Sum.elim (c • r.2) (c • r.1) = c • Sum.elim r.2 r.1 := by
        funext i; cases i <;> rfl
      rw [this, Matrix.mulVec_smul]

end IC

/-! ## **ops_compose**: the operators compose the maps -/

section Ops
variable [DecidableEq K]

/-- `self * other` is the series connection: the output of `other` (for the external input) is
the input of `self`; states are `(other, self)`. -/
theorem mul_compose [Fintype ι] [DecidableEq ι] [Fintype ι₁] [DecidableEq ι₁] [Fintype o]
    [DecidableEq o] (G₁ : IOSys σ₁ ι₁ o K) (G₂ : IOSys σ₂ ι ι₁ K) (t : K) (x : σ₂ ⊕ σ₁ → K)
    (u : ι → K) :
    (∀ y, (mul G₁ G₂).h t x u = .ok y →
      ∃ v, G₂.h t (x ∘ Sum.inl) u = .ok v ∧ G₁.h t (x ∘ Sum.inr) v = .ok y) ∧
    (∀ x', (mul G₁ G₂).f t x u = .ok x' →
      ∃ v, G₂.h t (x ∘ Sum.inl) u = .ok v ∧ G₂.f t (x ∘ Sum.inl) u = .ok (x' ∘ Sum.inl) ∧
        G₁.f t (x ∘ Sum.inr) v = .ok (x' ∘ Sum.inr)) := by
  have key : ∀ (ul : ι ⊕ ι₁ → K) (y₁ : ι₁ → K) (y₂ : o → K),
      ul = (fromBlocks (0 : Matrix ι ι₁ K) (0 : Matrix ι o K) (1 : Matrix ι₁ ι₁ K) 0).mulVec
        (Sum.elim y₁ y₂) + (fromRows (1 : Matrix ι ι K) (0 : Matrix ι₁ ι K)).mulVec u →
      ul ∘ Sum.inl = u ∧ ul ∘ Sum.inr = y₁ := by
    intro ul y₁ y₂ hul
    subst hul
    constructor <;> (funext i; simp [fromBlocks_mulVec])
  constructor
  · intro y h
    obtain ⟨ul, y₁, y₂, h1, h2, hul, hy⟩ := ic2_out _ _ _ _ _ t x u y h
    obtain ⟨hl, hr⟩ := key ul y₁ y₂ hul
    rw [hl] at h1
    rw [hr] at h2
    refine ⟨y₁, h1, ?_⟩
    rw [h2, hy]
    congr 1
    funext i
    simp
  · intro x' h
    obtain ⟨ul, y₁, y₂, h1, h2, hul, hf1, hf2⟩ := ic2_rhs _ _ _ _ _ t x u x' h
    obtain ⟨hl, hr⟩ := key ul y₁ y₂ hul
    rw [hl] at h1 hf1
    rw [hr] at hf2
    exact ⟨y₁, h1, hf1, hf2⟩

/-- `self + other` / `self - other`: both subsystems see the external input, the outputs are
added / subtracted. -/
theorem add_compose [Fintype ι] [DecidableEq ι] [Fintype o] [DecidableEq o]
    (G₁ : IOSys σ₁ ι o K) (G₂ : IOSys σ₂ ι o K) (t : K) (x : σ₁ ⊕ σ₂ → K) (u : ι → K) :
    (∀ y, (add G₁ G₂).h t x u = .ok y →
      ∃ y₁ y₂, G₁.h t (x ∘ Sum.inl) u = .ok y₁ ∧ G₂.h t (x ∘ Sum.inr) u = .ok y₂ ∧ y = y₁ + y₂) ∧
    (∀ x', (add G₁ G₂).f t x u = .ok x' →
      G₁.f t (x ∘ Sum.inl) u = .ok (x' ∘ Sum.inl) ∧ G₂.f t (x ∘ Sum.inr) u = .ok (x' ∘ Sum.inr)) := by
  have key : ∀ (ul : ι ⊕ ι → K) (y₁ y₂ : o → K),
      ul = (0 : Matrix (ι ⊕ ι) (o ⊕ o) K).mulVec (Sum.elim y₁ y₂)
        + (fromRows (1 : Matrix ι ι K) (1 : Matrix ι ι K)).mulVec u →
      ul ∘ Sum.inl = u ∧ ul ∘ Sum.inr = u := by
    intro ul y₁ y₂ hul
    subst hul
    constructor <;> (funext i; simp)
  constructor
  · intro y h
    obtain ⟨ul, y₁, y₂, h1, h2, hul, hy⟩ := ic2_out _ _ _ _ _ t x u y h
    obtain ⟨hl, hr⟩ := key ul y₁ y₂ hul
    rw [hl] at h1
    rw [hr] at h2
    refine ⟨y₁, y₂, h1, h2, ?_⟩
    rw [hy]
    funext i
    simp
  · intro x' h
    obtain ⟨ul, y₁, y₂, h1, h2, hul, hf1, hf2⟩ := ic2_rhs _ _ _ _ _ t x u x' h
    obtain ⟨hl, hr⟩ := key ul y₁ y₂ hul
    rw [hl] at hf1
    rw [hr] at hf2
    exact ⟨hf1, hf2⟩

theorem sub_compose [Fintype ι] [DecidableEq ι] [Fintype o] [DecidableEq o]
    (G₁ : IOSys σ₁ ι o K) (G₂ : IOSys σ₂ ι o K) (t : K) (x : σ₁ ⊕ σ₂ → K) (u : ι → K) :
    (∀ y, (sub G₁ G₂).h t x u = .ok y →
      ∃ y₁ y₂, G₁.h t (x ∘ Sum.inl) u = .ok y₁ ∧ G₂.h t (x ∘ Sum.inr) u = .ok y₂ ∧ y = y₁ - y₂) ∧
    (∀ x', (sub G₁ G₂).f t x u = .ok x' →
      G₁.f t (x ∘ Sum.inl) u = .ok (x' ∘ Sum.inl) ∧ G₂.f t (x ∘ Sum.inr) u = .ok (x' ∘ Sum.inr)) := by
  have key : ∀ (ul : ι ⊕ ι → K) (y₁ y₂ : o → K),
      ul = (0 : Matrix (ι ⊕ ι) (o ⊕ o) K).mulVec (Sum.elim y₁ y₂)
        + (fromRows (1 : Matrix ι ι K) (1 : Matrix ι ι K)).mulVec u →
      ul ∘ Sum.inl = u ∧ ul ∘ Sum.inr = u := by
    intro ul y₁ y₂ hul
    subst hul
    constructor <;> (funext i; simp)
  constructor
  · intro y h
    obtain ⟨ul, y₁, y₂, h1, h2, hul, hy⟩ := ic2_out _ _ _ _ _ t x u y h
    obtain ⟨hl, hr⟩ := key ul y₁ y₂ hul
    rw [hl] at h1
    rw [hr] at h2
    refine ⟨y₁, y₂, h1, h2, ?_⟩
    rw [hy]
    funext i
    simp [Matrix.neg_mulVec, sub_eq_add_neg]
  · intro x' h
    obtain ⟨ul, y₁, y₂, h1, h2, hul, hf1, hf2⟩ := ic2_rhs _ _ _ _ _ t x u x' h
    obtain ⟨hl, hr⟩ := key ul y₁ y₂ hul
    rw [hl] at hf1
    rw [hr] at hf2
    exact ⟨hf1, hf2⟩

/-- `-self`: same update, negated output. -/
theorem neg_compose [Fintype ι] [DecidableEq ι] [Fintype o] [DecidableEq o]
    (G : IOSys σ ι o K) (t : K) (x : σ → K) (u : ι → K) :
    (∀ y, (neg G).h t x u = .ok y → ∃ y₁, G.h t x u = .ok y₁ ∧ y = -y₁) ∧
    (∀ x', (neg G).f t x u = .ok x' → G.f t x u = .ok x') := by
  have key : ∀ (ul : ι → K) (yl : o → K),
      ul = (0 : Matrix ι o K).mulVec yl + (1 : Matrix ι ι K).mulVec u → ul = u := by
    intro ul yl hul
    subst hul
    funext i
    simp
  constructor
  · intro y h
    simp only [IOSys.neg, ic1] at h
    split at h
    · contradiction
    · rename_i r hr
      obtain ⟨h1, hul⟩ := static_io_sound1 G _ _ t x u 2 _ r.1 r.2 hr
      rw [key _ _ hul] at h1
      injection h with h
      refine ⟨r.2, h1, ?_⟩
      rw [← h]
      funext i
      simp [Matrix.neg_mulVec]
  · intro x' h
    simp only [IOSys.neg, ic1] at h
    split at h
    · contradiction
    · rename_i r hr
      obtain ⟨h1, hul⟩ := static_io_sound1 G _ _ t x u 2 _ r.1 r.2 hr
      rw [key _ _ hul] at h
      exact h

/-- `self.feedback(other, sign)`: the returned output solves the loop equations
`y = h₁(x₁, u + sign·v)`, `v = h₂(x₂, y)`, and both subsystems are updated with these signals. -/
theorem feedback_compose [Fintype ι] [DecidableEq ι] [Fintype o] [DecidableEq o]
    (G₁ : IOSys σ₁ ι o K) (G₂ : IOSys σ₂ o ι K) (sign : K) (t : K) (x : σ₁ ⊕ σ₂ → K) (u : ι → K) :
    (∀ y, (feedback G₁ G₂ sign).h t x u = .ok y →
      ∃ v, G₁.h t (x ∘ Sum.inl) (u + sign • v) = .ok y ∧ G₂.h t (x ∘ Sum.inr) y = .ok v) ∧
    (∀ x', (feedback G₁ G₂ sign).f t x u = .ok x' →
      ∃ y v, G₁.h t (x ∘ Sum.inl) (u + sign • v) = .ok y ∧ G₂.h t (x ∘ Sum.inr) y = .ok v ∧
        G₁.f t (x ∘ Sum.inl) (u + sign • v) = .ok (x' ∘ Sum.inl) ∧
        G₂.f t (x ∘ Sum.inr) y = .ok (x' ∘ Sum.inr)) := by
  have key : ∀ (ul : ι ⊕ o → K) (y₁ : o → K) (y₂ : ι → K),
      ul = (fromBlocks (0 : Matrix ι o K) (sign • (1 : Matrix ι ι K)) (1 : Matrix o o K) 0).mulVec
        (Sum.elim y₁ y₂) + (fromRows (1 : Matrix ι ι K) (0 : Matrix o ι K)).mulVec u →
      ul ∘ Sum.inl = u + sign • y₂ ∧ ul ∘ Sum.inr = y₁ := by
    intro ul y₁ y₂ hul
    subst hul
    constructor
    · funext i
      simp [fromBlocks_mulVec, Matrix.smul_mulVec, add_comm]
    · funext i
      simp [fromBlocks_mulVec]
  constructor
  · intro y h
    obtain ⟨ul, y₁, y₂, h1, h2, hul, hy⟩ := ic2_out _ _ _ _ _ t x u y h
    obtain ⟨hl, hr⟩ := key ul y₁ y₂ hul
    rw [hl] at h1
    rw [hr] at h2
    have hy1 : y = y₁ := by
      rw [hy]
      funext i
      simp
    rw [hy1]
    exact ⟨y₂, h1, h2⟩
  · intro x' h
    obtain ⟨ul, y₁, y₂, h1, h2, hul, hf1, hf2⟩ := ic2_rhs _ _ _ _ _ t x u x' h
    obtain ⟨hl, hr⟩ := key ul y₁ y₂ hul
    rw [hl] at h1 hf1
    rw [hr] at h2 hf2
    exact ⟨y₁, y₂, h1, h2, hf1, hf2⟩

/-! ### linear operands: the operators agree with C02's state-space constructions -/

section Linear
variable [Fintype σ₁] [Fintype σ₂]

/-- for `StateSpace` operands the parallel connection built by `NonlinearIOSystem.__add__` *is*
(as update and output maps, for all `t, x, u`) the block system of `StateSpace.__add__`, whose
transfer matrix is `Y₁ + Y₂` by `C02.add_resp`. -/
theorem add_linear [Fintype ι] [DecidableEq ι] [Fintype o] [DecidableEq o]
    (G₁ : SS σ₁ ι o K) (G₂ : SS σ₂ ι o K) :
    IOSys.add (ofSS G₁) (ofSS G₂) = ofSS (SS.add G₁ G₂) := by
  have hfix : ∀ (t : K) (x : σ₁ ⊕ σ₂ → K) (u : ι → K),
      iterate (step2 (ofSS G₁) (ofSS G₂) (0 : Matrix (ι ⊕ ι) (o ⊕ o) K)
        (fromRows (1 : Matrix ι ι K) (1 : Matrix ι ι K)) t x u) 3
        ((fromRows (1 : Matrix ι ι K) (1 : Matrix ι ι K)).mulVec u)
      = .ok ((fromRows (1 : Matrix ι ι K) (1 : Matrix ι ι K)).mulVec u,
          Sum.elim (G₁.C.mulVec (x ∘ Sum.inl) + G₁.D.mulVec u)
            (G₂.C.mulVec (x ∘ Sum.inr) + G₂.D.mulVec u)) := by
    intro t x u
    apply iterate_fix
    simp only [step2, ofSS]
    congr 1
    refine Prod.ext ?_ ?_
    · funext i; cases i <;> simp [Function.comp_def]
    · simp
  simp only [IOSys.add, ic2, hfix]
  simp only [ofSS, SS.add]
  congr 1
  · funext t x u
    congr 1
    funext i
    cases i <;> simp [fromBlocks_mulVec, Function.comp_def]
  · funext t x u
    congr 1
    funext i
    simp [Matrix.add_mulVec, Function.comp_def]
    ring

/-- for `StateSpace` operands the series connection built by `NonlinearIOSystem.__mul__` /
`__rmul__` is the block system of `StateSpace.__mul__` (states of `other` first), whose transfer
matrix is `Y₁ * Y₂` by `C02.mul_resp`.  The loop needs two rounds here. -/
theorem mul_linear [Fintype ι] [DecidableEq ι] [Fintype ι₁] [DecidableEq ι₁] [Fintype o]
    [DecidableEq o] (G₁ : SS σ₁ ι₁ o K) (G₂ : SS σ₂ ι ι₁ K) :
    IOSys.mul (ofSS G₁) (ofSS G₂) = ofSS (SS.mul G₁ G₂) := by
  have hconv : ∀ (t : K) (x : σ₂ ⊕ σ₁ → K) (u : ι → K),
      iterate (step2 (ofSS G₂) (ofSS G₁)
        (fromBlocks (0 : Matrix ι ι₁ K) (0 : Matrix ι o K) (1 : Matrix ι₁ ι₁ K) 0)
        (fromRows (1 : Matrix ι ι K) (0 : Matrix ι₁ ι K)) t x u) 3
        ((fromRows (1 : Matrix ι ι K) (0 : Matrix ι₁ ι K)).mulVec u)
      = .ok (Sum.elim u (G₂.C.mulVec (x ∘ Sum.inl) + G₂.D.mulVec u),
          Sum.elim (G₂.C.mulVec (x ∘ Sum.inl) + G₂.D.mulVec u)
            (G₁.C.mulVec (x ∘ Sum.inr)
              + G₁.D.mulVec (G₂.C.mulVec (x ∘ Sum.inl) + G₂.D.mulVec u))) := by
    intro t x u
    refine iterate_conv2 _ 1 _ _ (Sum.elim (G₂.C.mulVec (x ∘ Sum.inl) + G₂.D.mulVec u)
      (G₁.C.mulVec (x ∘ Sum.inr) + G₁.D.mulVec 0)) _ ?_ ?_
    · simp only [step2, ofSS]
      congr 1
      refine Prod.ext ?_ ?_
      · funext i; cases i <;> simp
      · funext i; cases i <;> simp [fromBlocks_mulVec]
    · simp only [step2, ofSS]
      congr 1
      refine Prod.ext ?_ ?_
      · funext i; cases i <;> simp
      · funext i; cases i <;> simp [fromBlocks_mulVec]
  simp only [IOSys.mul, ic2, hconv]
  simp only [ofSS, SS.mul]
  congr 1
  · funext t x u
    congr 1
    funext i
    cases i <;>
      simp [fromBlocks_mulVec, Matrix.mulVec_add, Matrix.mulVec_mulVec]
    abel
  · funext t x u
    congr 1
    funext i
    simp [Matrix.mulVec_add, Matrix.mulVec_mulVec]
    abel

end Linear

/-- **ops_homog**: `+`, `-`, negation and feedback of homogeneous systems are homogeneous. -/
theorem ops_homog [Fintype ι] [DecidableEq ι] [Fintype o] [DecidableEq o]
    (G₁ : IOSys σ₁ ι o K) (G₂ : IOSys σ₂ ι o K) (G₃ : IOSys σ o ι K) (sign : K)
    (h₁ : Homog G₁) (h₂ : Homog G₂) (h₃ : Homog G₃) :
    Homog (add G₁ G₂) ∧ Homog (sub G₁ G₂) ∧ Homog (neg G₁) ∧ Homog (feedback G₁ G₃ sign) :=
  ⟨ic2_homog _ _ h₁ h₂ _ _ _, ic2_homog _ _ h₁ h₂ _ _ _, ic1_homog _ h₁ _ _ _, ic2_homog _ _ h₁ h₃ _ _ _⟩

/-- `*` (series connection) of homogeneous systems is homogeneous. -/
theorem mul_homog [Fintype ι] [DecidableEq ι] [Fintype ι₁] [DecidableEq ι₁] [Fintype o] [DecidableEq o]
    (G₁ : IOSys σ₁ ι₁ o K) (G₂ : IOSys σ₂ ι ι₁ K) (h₁ : Homog G₁) (h₂ : Homog G₂) :
    Homog (mul G₁ G₂) := ic2_homog _ _ h₂ h₁ _ _ _

/-- non-vacuity: a loop of two linear systems built by the operators is homogeneous, so its
response at any signal level is the scaled response (`response_smul`). -/
example (S₁ S₂ : SS (Fin 2) (Fin 1) (Fin 1) ℚ) :
    Homog (feedback (mul (ofSS S₁) (ofSS S₂)) (ofSS S₂) (-1)) :=
  (ops_homog _ (ofSS S₁) _ _ (mul_homog _ _ (ofSS_homog _) (ofSS_homog _)) (ofSS_homog _)
    (ofSS_homog _)).2.2.2


end Ops

/-! ## `_process_vector_argument` -/

/-- whatever form the argument has, a returned value has exactly `size` entries. -/
theorem processVector_length (arg : VArg) (size : Nat) (v : List Q)
    (h : processVector arg size = .ok (some v)) : v.length = size := by
  have pad : ∀ val : List Q,
      (if val.length < size then
        if val.isEmpty then (Except.error Err.indexRange : Except Err (Option (List Q)))
        else .ok (some (val ++ List.replicate (size - val.length) 0))
      else if val.length = size then .ok (some val) else .error .shape) = .ok (some v) →
      v.length = size := by
    intro val hv
    split at hv
    · split at hv
      · contradiction
      · injection hv with hv; injection hv with hv; subst hv; simp; omega
    · split at hv
      · injection hv with hv; injection hv with hv; subst hv; assumption
      · contradiction
  cases arg with
  | none => simp [processVector] at h
  | scalar c => exact pad (List.replicate size c) h
  | list parts => exact pad parts.flatten h
  | array a => exact pad a h

/-- a short non-empty list is padded with zeros *at the end*. -/
theorem processVector_short (parts : List (List Q)) (size : Nat)
    (hlt : parts.flatten.length < size) (hne : parts.flatten ≠ []) :
    processVector (.list parts) size
      = .ok (some (parts.flatten ++ List.replicate (size - parts.flatten.length) 0)) := by
  have he : parts.flatten.isEmpty = false := by
    cases hp : parts.flatten with
    | nil => exact absurd hp hne
    | cons a l => rfl
  show (if parts.flatten.length < size then
      if parts.flatten.isEmpty then (Except.error Err.indexRange : Except Err (Option (List Q)))
      else .ok (some (parts.flatten ++ List.replicate (size - parts.flatten.length) 0))
    else if parts.flatten.length = size then .ok (some parts.flatten) else .error .shape) = _
  rw [if_pos hlt, he]
  rfl

example : processVector (.list [[3], [1, 2]]) 5 = .ok (some [3, 1, 2, 0, 0]) := by decide +kernel
example : processVector (.list []) 2 = .error .indexRange := by decide +kernel
example : processVector (.scalar 7) 3 = .ok (some [7, 7, 7]) := by decide +kernel

/-! ## operating points -/

section OpPoint

theorem mem_complementOf {n : Nat} (fixed : List (Fin n)) (i : Fin n) :
    i ∈ complementOf fixed ↔ i ∉ fixed := by
  simp [complementOf]

/-- `x[vars] = z` leaves the other components alone. -/
theorem scatter_of_not_mem {n : Nat} (base : Fin n → Q) (vars : List (Fin n)) (z : List Q)
    (i : Fin n) (hi : i ∉ vars) : scatter base vars z i = base i := by
  have hl : ∀ (vars : List (Fin n)) (z : List Q), i ∉ vars → (vars.zip z).lookup i = none := by
    intro vars
    induction vars with
    | nil => intro z _; simp
    | cons v vs ih =>
      intro z hv
      cases z with
      | nil => simp
      | cons a as =>
        have hne : i ≠ v := fun h => hv (by simp [h])
        have hvs : i ∉ vs := fun h => hv (by simp [h])
        simp only [List.zip_cons_cons, List.lookup_cons]
        have : (i == v) = false := by simpa using hne
        rw [this]
        exact ih as hvs
  simp [scatter, hl vars z hi]

/-- **opPoint_sound**: if the root finder returns `z` with `rootfun(z) = 0`, the operating point
`(x, u, y)` assembled from `z` attains exactly the requested update values (`dx0`, plus `x` itself
in discrete time) at the constrained indices, the requested outputs at the constrained output
indices, `y` is the output at `(x, u)`, and the states / inputs that were declared fixed keep
their given values. -/
theorem opPoint_sound {n m p : Nat} (S : OpSpec n m p) (G : IOSys (Fin n) (Fin m) (Fin p) Q)
    (z r : List Q) (x : Fin n → Q) (u : Fin m → Q) (y : Fin p → Q)
    (hr : S.rootfun G z = .ok r) (h0 : ∀ e ∈ r, e = 0) (hres : S.result G z = .ok (x, u, y)) :
    G.h S.t x u = .ok y ∧
    (∃ fx, G.f S.t x u = .ok fx ∧ ∀ i ∈ S.idx.derivVars, fx i = S.target x i) ∧
    (∀ y0, S.y0 = some y0 → ∀ j ∈ S.idx.outputVars, y j = y0 j) ∧
    (∀ i, i ∉ S.idx.stateVars → x i = S.x0 i) ∧ (∀ i, i ∉ S.idx.inputVars → u i = S.u0 i) := by
  unfold OpSpec.result at hres
  cases hh : G.h S.t (S.xOf z) (S.uOf z) with
  | error e => simp [hh, bind, Except.bind] at hres
  | ok yv =>
    simp only [hh, bind, Except.bind, pure, Except.pure, Except.ok.injEq, Prod.mk.injEq] at hres
    obtain ⟨hx, hu, hy⟩ := hres
    subst hx hu hy
    unfold OpSpec.rootfun at hr
    cases hf : G.f S.t (S.xOf z) (S.uOf z) with
    | error e => simp [hf, bind, Except.bind] at hr
    | ok fx =>
      simp only [hf, bind, Except.bind] at hr
      refine ⟨hh, ⟨fx, rfl, ?_⟩, ?_, ?_, ?_⟩
      · intro i hi
        cases hy0 : S.y0 with
        | none =>
          simp only [hy0, pure, Except.pure, Except.ok.injEq] at hr
          have := h0 (fx i - S.target (S.xOf z) i) (by rw [← hr]; exact List.mem_map_of_mem hi)
          exact sub_eq_zero.mp this
        | some y0 =>
          simp only [hy0, hh, pure, Except.pure, Except.ok.injEq] at hr
          have := h0 (fx i - S.target (S.xOf z) i)
            (by rw [← hr]; exact List.mem_append_left _ (List.mem_map_of_mem hi))
          exact sub_eq_zero.mp this
      · intro y0 hy0 j hj
        simp only [hy0, hh, pure, Except.pure, Except.ok.injEq] at hr
        have := h0 (yv j - y0 j)
          (by rw [← hr]; exact List.mem_append_right _ (List.mem_map_of_mem (f := fun j => yv j - y0 j) hj))
        exact sub_eq_zero.mp this
      · intro i hi
        exact scatter_of_not_mem _ _ _ i hi
      · intro i hi
        exact scatter_of_not_mem _ _ _ i hi

/-- which equilibrium condition `find_operating_point` imposes is decided by the timebase alone
(`sys.isdtime(strict=True)`): the fixed-point condition `f(x,u) = x + dx0` exactly for `dt = True`
and `dt > 0`; a system whose timebase is unspecified (`dt = None`, simulated as continuous time) or
`0` gets `f(x,u) = dx0`. -/
theorem opProblem_discrete (G : DIO) (t : Q) (X0 U0 Y0 : VArg) (dx0 : Option (List Q))
    (iu iy ix idx : Option (List Int)) (S : OpSpec G.n G.m G.p)
    (h : opProblem G t X0 U0 Y0 dx0 iu iy ix idx = .ok S) :
    S.discrete = (match G.dt with
      | .dtrue => true
      | .disc _ => true
      | _ => false) := by
  unfold opProblem at h
  simp only [bind, Except.bind, pure, Except.pure] at h
  repeat' split at h
  all_goals first
    | contradiction
    | (injection h with h; subst h; first | rfl | (split <;> simp_all))

/-- **opPoint_unspecified_timebase**: for a system with `dt = None` (or `dt = 0`) a root of
`rootfun` is a point where the constrained updates equal the requested derivatives `dx0`
(default 0) — never the discrete-time fixed-point condition. -/
theorem opPoint_unspecified_timebase (G : DIO) (t : Q) (X0 U0 Y0 : VArg) (dx0 : Option (List Q))
    (iu iy ix idx : Option (List Int)) (S : OpSpec G.n G.m G.p) (env : ParamEnv)
    (hdt : G.dt = .none ∨ G.dt = .cont)
    (h : opProblem G t X0 U0 Y0 dx0 iu iy ix idx = .ok S)
    (z r : List Q) (x : Fin G.n → Q) (u : Fin G.m → Q) (y : Fin G.p → Q)
    (hr : S.rootfun (G.build env) z = .ok r) (h0 : ∀ e ∈ r, e = 0)
    (hres : S.result (G.build env) z = .ok (x, u, y)) :
    ∃ fx, (G.build env).f S.t x u = .ok fx ∧
      ∀ i ∈ S.idx.derivVars, fx i = (S.dx0.map (· i)).getD 0 := by
  have hd : S.discrete = false := by
    rw [opProblem_discrete G t X0 U0 Y0 dx0 iu iy ix idx S h]
    rcases hdt with hdt | hdt <;> simp [hdt]
  obtain ⟨_, ⟨fx, hfx, hall⟩, _⟩ := opPoint_sound S (G.build env) z r x u y hr h0 hres
  refine ⟨fx, hfx, fun i hi => ?_⟩
  have := hall i hi
  rw [this]
  cases hdx : S.dx0 <;> simp [OpSpec.target, hd, hdx]

/-- non-vacuity: `ẋ = -2x + u` with unspecified timebase, `u = 1` fixed: the problem is posed with
the continuous-time condition and `x = 1/2` (where `f = 0`) is its root; the fixed point of the map
(`x = 1/3`) is not. -/
example :
    let G : DIO := ⟨1, 1, 1, .none, [], fun _ => ⟨fun _ x u => .ok (fun i => -2 * x i + u i),
      fun _ x _ => .ok x⟩, none, true⟩
    (opProblem G 0 (.scalar 0) (.scalar 1) .none none none none none none).map
      (fun S => (S.discrete, S.rootfun (G.build []) [1 / 2], S.rootfun (G.build []) [1 / 3]))
      = .ok (false, .ok [0], .ok [1 / 3]) := by
  decide +kernel

/-- without index lists and without `y0`: all states vary, the inputs are fixed, every update
is constrained. -/
theorem opIndexing_inputs_fixed (n m p : Nat) :
    opIndexing n m p none none none none false
      = .ok ⟨List.finRange n, [], List.finRange n, []⟩ := rfl

/-- without index lists and with `y0`: states and inputs vary, all updates and outputs are
constrained. -/
theorem opIndexing_outputs_fixed (n m p : Nat) :
    opIndexing n m p none none none none true
      = .ok ⟨List.finRange n, List.finRange m, List.finRange n, List.finRange p⟩ := rfl

/-- non-vacuity: `x⁺ = x/2 + u`, `y = x`, discrete time, `u = 1` fixed: the root `z = [2]` gives
the equilibrium `x = 2`. -/
example :
    let S : OpSpec 1 1 1 := ⟨0, fun _ => 0, fun _ => 1, none, none, true,
      ⟨[0], [], [0], []⟩⟩
    let G : IOSys (Fin 1) (Fin 1) (Fin 1) Q := ⟨fun _ x u => .ok (fun i => x i / 2 + u i),
      fun _ x _ => .ok x⟩
    S.rootfun G [2] = .ok [0] ∧ (S.result G [2]).map (fun r => (r.1 0, r.2.1 0, r.2.2 0))
      = .ok (2, 1, 2) := by
  decide +kernel

end OpPoint

/-! ## the point at which `linearize` linearises (argument forms) -/

section LinPoint

/-- **linearize_operating_point**: `sys.linearize(op)` / `linearize(sys, op)` with the input omitted
(or `None`) linearises at `(op.states, op.inputs)`. -/
theorem linearize_operating_point (G : DIO) (env : ParamEnv) (t : Q) (xs us : VArg) (eps : Q) :
    linearizeP G env t (.op xs us) .none eps = linearizeD G env t xs us eps := rfl

/-- an input given beside an `OperatingPoint` replaces the operating point's input. -/
theorem linearize_operating_point_input (G : DIO) (env : ParamEnv) (t : Q) (xs us U : VArg) (eps : Q)
    (hU : U ≠ .none) : linearizeP G env t (.op xs us) U eps = linearizeD G env t xs U eps := by
  cases U <;> first | rfl | exact absurd rfl hU

/-- a state without an input: the input defaults to 0. -/
theorem linearize_default_input (G : DIO) (env : ParamEnv) (t : Q) (x : VArg) (eps : Q) :
    linearizeP G env t (.vec x) .none eps = linearizeD G env t x (.scalar 0) eps := rfl

/-- a state and an input. -/
theorem linearize_explicit_input (G : DIO) (env : ParamEnv) (t : Q) (x U : VArg) (eps : Q)
    (hU : U ≠ .none) : linearizeP G env t (.vec x) U eps = linearizeD G env t x U eps := by
  cases U <;> first | rfl | exact absurd rfl hU

/-- non-vacuity: `f = x·u`, `h = x·u`; at the operating point `x = 1, u = 2` (step 1) the forward
difference in `x` is `2`; with the input taken as `0` it would be `0`, and an input given beside the
operating point (`3`) is used instead of the point's. -/
example :
    let G := DIO.ofPoly 1 1 1 .cont [] [[⟨1, [(.x 0, 1), (.u 0, 1)]⟩]] (some [[⟨1, [(.x 0, 1), (.u 0, 1)]⟩]])
    let a := fun (r : Except Err (SS (Fin 1) (Fin 1) (Fin 1) Q)) => r.map fun S => S.A 0 0
    (a (linearizeP G [] 0 (.op (.array [1]) (.array [2])) .none 1),
     a (linearizeP G [] 0 (.vec (.array [1])) .none 1),
     a (linearizeP G [] 0 (.op (.array [1]) (.array [2])) (.scalar 3) 1))
      = (.ok 2, .ok 0, .ok 3) := by
  decide +kernel

end LinPoint

/-! ## call histories: the parameter values of a call do not depend on earlier calls -/

section History

open PObj ParamEnv

/-- **update_params_history**: whatever calls were made before — on the interconnection or on any
of the objects inside it, with whatever `params` — `_update_params(env)` leaves every object of the
tree in the state it would have on a tree never used before. -/
theorem update_params_history (o : PObj) (h : List (List Nat × ParamEnv)) (env : ParamEnv) :
    (o.runHist h).update env = o.update env :=
  update_congr _ _ env (forget_runHist o h)

/-- … in particular the dictionaries the update / output callables of the leaves work with. -/
theorem seen_history (o : PObj) (h : List (List Nat × ParamEnv)) (env : ParamEnv) :
    ((o.runHist h).update env).seen = (o.update env).seen := by
  rw [update_params_history]

/-- **call_history**: the same for a call on any object inside the tree (a subsystem that is also
part of interconnections, an inner interconnection): after the call that object is in the state the
same call produces on a tree never used before. -/
theorem call_history (o : PObj) (h : List (List Nat × ParamEnv)) (path : List Nat) (env : ParamEnv) :
    ((o.runHist h).callAt path env).sub path = (o.callAt path env).sub path := by
  rw [sub_callAt, sub_callAt]
  have hf : ((o.runHist h).sub path).map forget = (o.sub path).map forget := by
    rw [← sub_forget, ← sub_forget, forget_runHist]
  cases h₁ : (o.runHist h).sub path <;> cases h₂ : o.sub path <;> simp only [h₁, h₂, Option.map] at hf ⊢
  · cases hf
  · cases hf
  · rename_i s s'
    rw [update_congr s s' env (Option.some.inj hf)]

/-- **update_params_functional**: after `_update_params(env)` the callables work with dictionaries
that have the entries of the functional description executed by the driver (`DIO.build`: the call's
`params` over the interconnections' over the subsystem's own, `params.get` defaults last). -/
theorem update_params_functional (o : PObj) (env : ParamEnv) :
    SameAll (o.update env).seen (o.chain env) := by
  cases o with
  | leaf ps d c => simp [update, seen, chain, SameAll, Same.refl]
  | node ps subs =>
    simp only [update, seen, chain]
    exact seenSubs_updateSubs subs _ _ (Same.refl _)

/-- both together: a call after any history evaluates the maps `DIO.build env` describes. -/
theorem history_functional (o : PObj) (h : List (List Nat × ParamEnv)) (env : ParamEnv) :
    SameAll ((o.runHist h).update env).seen (o.chain env) := by
  rw [update_params_history]
  exact update_params_functional o env

/-- a polynomial system sees its dictionary only through the entries: dictionaries with the same
entries give the same maps (so `SameAll` above is equality of the subsystems' maps). -/
theorem polySys_same {e e' : ParamEnv} (h : Same e e') (n m p : Nat) (fs : List PPoly)
    (hs : Option (List PPoly)) : polySys n m p fs hs e = polySys n m p fs hs e' :=
  polySys_congr h n m p fs hs

/-- a leaf of the driver is the leaf of the functional description. -/
theorem ofPolyD_build (n m p : Nat) (dt : Dt) (ps d cur : ParamEnv) (fs : List PPoly)
    (hs : Option (List PPoly)) (env : ParamEnv) :
    (PObj.leaf ps d cur).chain env = [env ++ ps ++ d] ∧
    (DIO.ofPolyD n m p dt ps d fs hs).build env = polySys n m p fs hs (env ++ ps ++ d) :=
  ⟨rfl, rfl⟩

/-- without `params.get` defaults it is the plain polynomial system. -/
theorem ofPolyD_nil (n m p : Nat) (dt : Dt) (ps : ParamEnv) (fs : List PPoly)
    (hs : Option (List PPoly)) : DIO.ofPolyD n m p dt ps [] fs hs = DIO.ofPoly n m p dt ps fs hs := by
  simp [DIO.ofPolyD, DIO.ofPoly]

/-- non-vacuity: a feedback loop of a plant whose callable reads `params.get('a', 1/2)` and a
controller; after `plant.dynamics(…, params={'a': 9/10})` the plant object holds the override, and
the next call on the loop without `params` resets it: the plant works with `a = 1/2` again. -/
example :
    let plant := PObj.leaf [] [("a", 1 / 2)] []
    let loop := PObj.node [] (.cons plant (.cons (.leaf [] [] []) .nil))
    let used := loop.runHist [([], []), ([0], [("a", 9 / 10)])]
    (used.seen.map fun e => e.lookup "a", (used.update []).seen.map fun e => e.lookup "a")
      = ([some (9 / 10), none], [some (1 / 2), none]) := by
  decide +kernel

end History

/-! ## caller-owned arrays and the arrays of earlier results (`find_operating_point`) -/

section Arrays

open Store OpCall

variable {α : Type}

/-- **A call leaves every array that existed before it as it was**: the caller's initial guesses
and targets, and the arrays of every `OperatingPoint` returned earlier — whatever points the root
finder evaluates `rootfun` at. -/
theorem op_call_frame (s : Store α) (c : OpCall α) : Store.Extends s (run s c).1 := by
  cases c with
  | inputsFixed x0 u0 root h =>
    simp only [run]
    exact ((((OpArg.process_extends s x0).trans (OpArg.process_extends _ u0)).trans
      (extends_alloc _ _)).trans (extends_alloc _ _))
  | outputsFixed x0 u0 n root h =>
    simp only [run]
    exact (((((OpArg.process_extends s x0).trans (OpArg.process_extends _ u0)).trans
      (extends_alloc _ _)).trans (extends_alloc _ _)).trans (extends_alloc _ _))
  | general x0 u0 sv iv probes root h =>
    simp only [run]
    have h2 : Store.Extends s ((u0.process (x0.process s).1).1) :=
      (OpArg.process_extends s x0).trans (OpArg.process_extends _ u0)
    generalize (u0.process (x0.process s).1).1 = s2 at h2 ⊢
    generalize (u0.process (x0.process s).1).2 = ru0
    generalize (x0.process s).2 = rx0
    have h3 : Store.Extends s (s2.alloc (s2.read rx0)).1 := h2.trans (extends_alloc _ _)
    have h4 : Store.Extends s ((s2.alloc (s2.read rx0)).1.alloc ((s2.alloc (s2.read rx0)).1.read ru0)).1 :=
      h3.trans (extends_alloc _ _)
    refine (iterate_extends ?_ ?_ sv iv _ _ h4).trans (extends_alloc _ _)
    · simpa using h2.1
    · simpa using Nat.le_succ_of_le h2.1

/-- the arrays of the returned `OperatingPoint` exist after the call. -/
theorem op_refs_valid (s : Store α) (c : OpCall α) (hv : c.Valid s) :
    (run s c).2.states < (run s c).1.length ∧ (run s c).2.inputs < (run s c).1.length ∧
      (run s c).2.outputs < (run s c).1.length := by
  cases c with
  | inputsFixed x0 u0 root h =>
    have hu := OpArg.process_ref_lt (x0.process s).1 u0 (hv.2.mono (OpArg.process_extends s x0).1)
    simp only [run, alloc_length, alloc_ref]
    omega
  | outputsFixed x0 u0 n root h =>
    simp only [run, alloc_length, alloc_ref]
    omega
  | general x0 u0 sv iv probes root h =>
    simp only [run, alloc_length, alloc_ref, iterate_length]
    omega

/-- the same for a whole history of calls (a later call may name arrays returned by an earlier one). -/
theorem op_history_frame (cs : List (OpCall α)) : ∀ s : Store α, Store.Extends s (runAll s cs).1 := by
  induction cs with
  | nil => intro s; exact Store.Extends.refl s
  | cons c cs ih => intro s; simp only [runAll]; exact (op_call_frame s c).trans (ih _)

/-- **The caller's arrays hold after any history of calls what they held before it.** -/
theorem op_caller_arrays_unchanged (s : Store α) (cs : List (OpCall α)) (r : Nat) (hr : r < s.length) :
    (runAll s cs).1.read r = s.read r :=
  (op_history_frame cs s).2 r hr

/-- **An `OperatingPoint` reads after any later calls as it read when its call returned.** -/
theorem op_results_stable (s : Store α) (c : OpCall α) (cs : List (OpCall α)) (hv : c.Valid s) :
    (runAll (run s c).1 cs).1.read (run s c).2.states = (run s c).1.read (run s c).2.states ∧
    (runAll (run s c).1 cs).1.read (run s c).2.inputs = (run s c).1.read (run s c).2.inputs ∧
    (runAll (run s c).1 cs).1.read (run s c).2.outputs = (run s c).1.read (run s c).2.outputs := by
  obtain ⟨h1, h2, h3⟩ := op_refs_valid s c hv
  have hf := op_history_frame cs (run s c).1
  exact ⟨hf.2 _ h1, hf.2 _ h2, hf.2 _ h3⟩

/-- … also in the middle of a history: the result of the call after `pre`, read after `post`. -/
theorem op_results_stable_mid (s : Store α) (pre : List (OpCall α)) (c : OpCall α) (post : List (OpCall α))
    (hv : c.Valid (runAll s pre).1) :
    let s1 := (runAll s pre).1
    (runAll (run s1 c).1 post).1.read (run s1 c).2.states = (run s1 c).1.read (run s1 c).2.states ∧
    (runAll (run s1 c).1 post).1.read (run s1 c).2.inputs = (run s1 c).1.read (run s1 c).2.inputs :=
  ⟨(op_results_stable _ c post hv).1, (op_results_stable _ c post hv).2.1⟩

/-- **Contents of the result of the index-list branch**: the returned `states` / `inputs` hold the
contents of the processed guesses with the writes `x[state_vars] = z[:k]`, `u[input_vars] = z[k:]`
of every `rootfun` evaluation and of `result.x` applied in order, and `outputs` is the output map
there. -/
theorem op_general_contents (s : Store α) (x0 u0 : OpArg α) (sv iv : List Nat) (probes : List (List α))
    (root : List α) (h : List α → List α → List α) (hx0 : x0.Valid s) (hu0 : u0.Valid s) :
    let s2 := (u0.process (x0.process s).1).1
    let w := assignAll (s2.read (x0.process s).2) (s2.read (u0.process (x0.process s).1).2) sv iv
      (probes ++ [root])
    let r := run s (.general x0 u0 sv iv probes root h)
    r.1.read r.2.states = w.1 ∧ r.1.read r.2.inputs = w.2 ∧ r.1.read r.2.outputs = h w.1 w.2 := by
  have hrx0 : (x0.process s).2 < (u0.process (x0.process s).1).1.length :=
    Nat.lt_of_lt_of_le (OpArg.process_ref_lt s x0 hx0) (OpArg.process_extends _ u0).1
  have hru0 := OpArg.process_ref_lt (x0.process s).1 u0 (hu0.mono (OpArg.process_extends s x0).1)
  simp only [run]
  generalize (u0.process (x0.process s).1).1 = s2 at hrx0 hru0 ⊢
  generalize (u0.process (x0.process s).1).2 = ru0 at hru0 ⊢
  generalize (x0.process s).2 = rx0 at hrx0 ⊢
  have e1 : ((s2.alloc (s2.read rx0)).1.alloc ((s2.alloc (s2.read rx0)).1.read ru0)).1.read s2.length
      = s2.read rx0 := by
    rw [read_alloc_old _ _ (by simp), read_alloc_new]
  have e2 : ((s2.alloc (s2.read rx0)).1.alloc ((s2.alloc (s2.read rx0)).1.read ru0)).1.read (s2.length + 1)
      = s2.read ru0 := by
    have := read_alloc_new (s2.alloc (s2.read rx0)).1 ((s2.alloc (s2.read rx0)).1.read ru0)
    rw [alloc_length] at this
    rw [this, read_alloc_old _ _ hru0]
  obtain ⟨i1, i2⟩ := iterate_read (rx := s2.length) (ru := s2.length + 1) (by omega) sv iv (probes ++ [root])
    ((s2.alloc (s2.read rx0)).1.alloc ((s2.alloc (s2.read rx0)).1.read ru0)).1
    (by rw [alloc_length, alloc_length]; omega) (by rw [alloc_length, alloc_length]; omega)
  rw [e1, e2] at i1 i2
  simp only [alloc_ref, alloc_length]
  refine ⟨?_, ?_, ?_⟩
  · rw [read_alloc_old _ _ (by rw [iterate_length, alloc_length, alloc_length]; omega), i1]
  · rw [read_alloc_old _ _ (by rw [iterate_length, alloc_length, alloc_length]; omega), i2]
  · rw [read_alloc_new, i1, i2]

/-- non-vacuity and separation: a scheduling loop of two calls of the index-list branch with the
same two float arrays (addresses 0 and 1, contents `[5]`, `[5]`) as initial guesses.  With the
code's `np.array` copies the caller's arrays still hold 5 and the first result still reads 1
after the second call; with `np.asarray` (no copy) the first call already changes the caller's
arrays, and the second call rewrites what the first one returned. -/
example :
    let s : Store Int := [[5], [5]]
    let c1 := OpCall.general (.view 0) (.view 1) [0] [0] [[7, 7]] [1, 10] (fun x u => x ++ u)
    let c2 := OpCall.general (.view 0) (.view 1) [0] [0] [] [2, 20] (fun x u => x ++ u)
    let r1 := run s c1
    let s2 := (run r1.1 c2).1
    (s2.read 0, s2.read 1, r1.1.read r1.2.states, s2.read r1.2.states, s2.read r1.2.inputs)
      = ([5], [5], [1], [1], [10]) ∧
    (let a1 := runGeneralAliased s (.view 0) (.view 1) [0] [0] [[7, 7]] [1, 10] (fun x u => x ++ u)
     let a2 := runGeneralAliased a1.1 (.view 0) (.view 1) [0] [0] [] [2, 20] (fun x u => x ++ u)
     (a1.1.read 0, a1.1.read a1.2.states, a2.1.read a1.2.states, a2.1.read a1.2.inputs)
       = ([1], [1], [2], [20])) := by
  decide

end Arrays

end CtrlVerif.C08
