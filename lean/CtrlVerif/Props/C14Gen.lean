/-
Source-text tie for `pade` (C14; DESIGN §2.5, notes/NOTES-py2lean-arith.md):
`Generated/Pade.lean` is rewritten on every run from the text of `pade` in control/delay.py of the
tree under check by `harness/core/py2lean_arith.py` (loops become `List.foldlM` over
`PyArith.range`, item assignment / indexing / division are the partial operations of
`Model/PyArith.lean`); the hand-written model `pade` (the one `pade_order`, `pade_monic`,
`pade_args_raise`, … of `Props/C14.lean` are about) is proved EQUAL to it for every delay `T` of
every linearly ordered field, every integer `n` and every `numdeg` (None or any integer).
A semantic edit of the source breaks `generated_pade_eq`.
-/
import CtrlVerif.Generated.Pade
import CtrlVerif.Lemmas.PadeLoop
import CtrlVerif.Props.C14

namespace CtrlVerif.C14Gen
open CtrlVerif

section
variable {K : Type} [Field K] [LinearOrder K] [IsStrictOrderedRing K]

/-- the branch `T > 0`, `0 ≤ numdeg ≤ n` of the source text: both loops run without an index or
division error and produce the two normalised coefficient lists. -/
theorem main_case (T : K) (hT : 0 < T) (p q : Nat) (hp : p ≤ q) :
    Generated.pade T (q : Int) (some (p : Int)) =
      .ok ((padeList (-T) p q).map (· / padeCoef T q p q), (padeList T q p).map (· / padeCoef T q p q)) := by
  unfold Generated.pade
  have h1 : ¬ ((p : Int) < 0) := by omega
  have h2 : (0 : K) ≤ T := hT.le
  have h3 : (0 : Int) ≤ q := by omega
  have h4 : (0 : Int) ≤ p ∧ (p : Int) ≤ q := by omega
  have h5 : T ≠ 0 := hT.ne'
  simp only [h1, h2, h3, h5, if_false, not_true_eq_false, PyArith.pure_bind]
  have z1 : ((p : Int) + 1 - 0).toNat = p + 1 := by omega
  have z2 : ((q : Int) + 1 - 0).toNat = q + 1 := by omega
  have d0 : padeCoef T q p q ≠ 0 := C14.padeCoef_ne_zero T h5 q p q le_rfl
  rw [PyArith.map_const_range, PyArith.map_const_range, z1, z2,
    PyArith.setItem_neg_one _ (by simp), PyArith.ok_bind, List.length_replicate, Nat.add_sub_cancel,
    coef_loop (-T) p q _ (fun j hj l hl => step_num p q (-T) p (p + q) rfl rfl j hj l hl _),
    PyArith.ok_bind,
    PyArith.setItem_neg_one _ (by simp), PyArith.ok_bind, List.length_replicate, Nat.add_sub_cancel,
    coef_loop T q p _ (fun j hj l hl => step_num q p T q (p + q) rfl (by ring) j hj l hl _),
    PyArith.ok_bind]
  have g0 : PyArith.getItem (padeList T q p) 0 = .ok (padeCoef T q p q) := by
    rw [PyArith.getItem_zero _ (by simp [padeList])]
    simp [padeList, List.range_succ]
  have hm : ∀ l : List K, List.mapM (fun coeff => (do
        let t10 ← PyArith.getItem (padeCoef T q p q, padeList T q p).2 0
        PyArith.div coeff t10 : Except Err K)) l = .ok (l.map (· / padeCoef T q p q)) := by
    intro l
    apply PyArith.mapM_congr_ok
    intro x _
    dsimp only
    rw [g0, PyArith.ok_bind, PyArith.div_ok _ d0]
  rw [hm, PyArith.ok_bind, hm, PyArith.ok_bind, if_neg (not_not.2 h4)]
  rfl

theorem zero_case (p q : Nat) (hp : p ≤ q) :
    Generated.pade (0 : K) (q : Int) (some (p : Int)) = .ok ([1], [1]) := by
  unfold Generated.pade
  have h1 : ¬ ((p : Int) < 0) := by omega
  have h3 : (0 : Int) ≤ q := by omega
  have h4 : (0 : Int) ≤ p ∧ (p : Int) ≤ q := by omega
  simp only [h1, h3, if_false, not_true_eq_false, PyArith.pure_bind, le_refl, if_true,
    if_neg (not_not.2 h4)]
  simp [PyArith.pure_eq_ok]

/-- the numerator degree the source text computes. -/
def numdegOf (n : Int) : Option Int → Int
  | none => n
  | some d => if d < 0 then d + n else d

theorem gen_reduce (T : K) (n : Int) (numdeg : Option Int) :
    Generated.pade T n numdeg =
      if ¬ 0 ≤ T then .error .badArg
      else if ¬ 0 ≤ n then .error .badArg
      else if ¬ (0 ≤ numdegOf n numdeg ∧ numdegOf n numdeg ≤ n) then .error .badArg
      else Generated.pade T n (some (numdegOf n numdeg)) := by
  unfold Generated.pade
  rcases numdeg with _ | d
  · simp only [numdegOf, PyArith.pure_bind]
    by_cases g1 : 0 ≤ T <;> by_cases g2 : 0 ≤ n <;> by_cases g3 : 0 ≤ n <;> by_cases g5 : n ≤ n <;>
      simp only [g1, g2, g3, g5, true_and, and_true, and_false, false_and, and_self, not_true_eq_false, not_false_eq_true, if_true, if_false]
    all_goals first
      | (exfalso; omega)
      | (have g4 : ¬ n < 0 := by omega
         simp only [g4, if_false, PyArith.pure_bind, g3, g5, and_self, not_true_eq_false])
  · by_cases hd : d < 0
    · simp only [numdegOf, hd, if_true, PyArith.pure_bind]
      by_cases g1 : 0 ≤ T <;> by_cases g2 : 0 ≤ n <;> by_cases g3 : 0 ≤ d + n <;> by_cases g5 : d + n ≤ n <;>
        simp only [g1, g2, g3, g5, true_and, and_true, and_false, false_and, and_self, not_true_eq_false, not_false_eq_true, if_true, if_false]
      all_goals first
        | (exfalso; omega)
        | (have g4 : ¬ d + n < 0 := by omega
           simp only [g4, if_false, PyArith.pure_bind, g3, g5, and_self, not_true_eq_false])
    · simp only [numdegOf, hd, if_false, PyArith.pure_bind]
      by_cases g1 : 0 ≤ T <;> by_cases g2 : 0 ≤ n <;> by_cases g3 : 0 ≤ d <;> by_cases g5 : d ≤ n <;>
        simp only [g1, g2, g3, g5, true_and, and_true, and_false, false_and, and_self, not_true_eq_false, not_false_eq_true, if_true, if_false]

theorem model_reduce (T : K) (n : Int) (numdeg : Option Int) :
    pade T n numdeg =
      if ¬ 0 ≤ T then .error .badArg
      else if ¬ 0 ≤ n then .error .badArg
      else if ¬ (0 ≤ numdegOf n numdeg ∧ numdegOf n numdeg ≤ n) then .error .badArg
      else pade T n (some (numdegOf n numdeg)) := by
  unfold pade
  rcases numdeg with _ | d
  · simp only [numdegOf]
    by_cases g1 : 0 ≤ T <;> by_cases g2 : 0 ≤ n <;> by_cases g3 : 0 ≤ n <;> by_cases g5 : n ≤ n <;>
      simp only [g1, g2, g3, g5, true_and, and_true, and_false, false_and, and_self, not_true_eq_false, not_false_eq_true, if_true, if_false]
    all_goals first
      | (exfalso; omega)
      | (have g4 : ¬ n < 0 := by omega
         simp only [g4, if_false, g3, g5, and_self, not_true_eq_false])
  · by_cases hd : d < 0
    · simp only [numdegOf, hd, if_true]
      by_cases g1 : 0 ≤ T <;> by_cases g2 : 0 ≤ n <;> by_cases g3 : 0 ≤ d + n <;> by_cases g5 : d + n ≤ n <;>
        simp only [g1, g2, g3, g5, true_and, and_true, and_false, false_and, and_self, not_true_eq_false, not_false_eq_true, if_true, if_false]
      all_goals first
        | (exfalso; omega)
        | (have g4 : ¬ d + n < 0 := by omega
           simp only [g4, if_false, g3, g5, and_self, not_true_eq_false])
    · simp only [numdegOf, hd, if_false]
      by_cases g1 : 0 ≤ T <;> by_cases g2 : 0 ≤ n <;> by_cases g3 : 0 ≤ d <;> by_cases g5 : d ≤ n <;>
        simp only [g1, g2, g3, g5, true_and, and_true, and_false, false_and, and_self, not_true_eq_false, not_false_eq_true, if_true, if_false]

theorem generated_pade_eq (T : K) (n : Int) (numdeg : Option Int) :
    Generated.pade T n numdeg = pade T n numdeg := by
  rw [gen_reduce, model_reduce]
  by_cases g1 : 0 ≤ T
  · by_cases g2 : 0 ≤ n
    · by_cases g3 : 0 ≤ numdegOf n numdeg ∧ numdegOf n numdeg ≤ n
      · simp only [g1, g2, g3, and_self, not_true_eq_false, if_false]
        obtain ⟨q, rfl⟩ := Int.eq_ofNat_of_zero_le g2
        obtain ⟨p, hp⟩ := Int.eq_ofNat_of_zero_le g3.1
        have hpq : p ≤ q := by have := g3.2; omega
        rw [hp]
        rcases g1.eq_or_lt with h0 | hT
        · subst h0
          rw [zero_case p q hpq,
            C14.pade_T0 (q : Int) (some (p : Int)) (by omega) (by simp only [C14.padeNumdeg]; omega)]
        · rw [main_case T hT p q hpq, C14.pade_eq T hT q p hpq]
      · simp only [g1, g2, g3, not_true_eq_false, not_false_eq_true, if_true, if_false]
    · simp only [g1, g2, not_true_eq_false, not_false_eq_true, if_true, if_false]
  · simp only [g1, not_false_eq_true, if_true]

/-- **the order theorem holds of the function the source text defines**: whatever
`Generated.pade` returns for `T > 0`, `0 ≤ numdeg ≤ n` satisfies the Padé order condition
(`C14.pade_order`, transported along `generated_pade_eq`). -/
theorem generated_pade_order (T : K) (hT : 0 < T) (q p : Nat) (hp : p ≤ q)
    (num den : List K) (h : Generated.pade T (q : Int) (some (p : Int)) = .ok (num, den))
    (m : Nat) (hm : m ≤ q + p) :
    ∑ k ∈ Finset.range (m + 1), coeffAt den k * ((-T) ^ (m - k) / ((m - k).factorial : K))
      = coeffAt num m :=
  C14.pade_order T hT q p hp num den (by rw [← generated_pade_eq]; exact h) m hm

/-- the function of the source text never fails with an index or division error: its only error is
the argument check. -/
theorem generated_pade_errors (T : K) (n : Int) (numdeg : Option Int) (e : Err)
    (h : Generated.pade T n numdeg = .error e) : e = .badArg := by
  rw [generated_pade_eq] at h
  unfold pade at h
  dsimp only at h
  split_ifs at h <;> first | exact (Except.error.inj h).symm | cases h

end

/-! non-vacuity: the generated function computes (docstring examples of `pade`) and rejects. -/
example : Generated.pade (1 : ℚ) 3 (some (-2)) = .ok ([-6, 24], [1, 6, 18, 24]) := by decide +kernel
example : Generated.pade (1 : ℚ) 3 none = .ok ([-1, 12, -60, 120], [1, 12, 60, 120]) := by decide +kernel
example : Generated.pade (0 : ℚ) 2 none = .ok ([1], [1]) := by decide +kernel
example : Generated.pade (-1 : ℚ) 2 none = .error .badArg := by decide +kernel
example : Generated.pade (1 : ℚ) 2 (some 3) = .error .badArg := by decide +kernel
example : ∃ num den, Generated.pade (2 : ℚ) (2 : ℕ) (some ((1 : ℕ) : Int)) = .ok (num, den) :=
  ⟨_, _, main_case (2 : ℚ) (by norm_num) 1 2 (by norm_num)⟩

end CtrlVerif.C14Gen
