/-
Source-text tie of C11, part 4: `lqe(*args, **kwargs)` and `dlqe(*args, **kwargs)` (control/stochsys.py).
`Generated/SfbLqe.lean` is rewritten from the source text on every run (harness/core/py2lean_sfb.py).
For both call forms and every timebase the generated functions are the model's plumbing: `route`
(dispatch of a strictly discrete-time system to `dlqe`, refusal of a continuous one by `dlqe`), the
"cross-covariance not implemented" branch, `_check_shape(QN, g, g)`, and the dual call
`care(Aᵀ, Cᵀ, G QN Gᵀ, RN)` with `L = LTᵀ` of the typed model `lqe`.
-/
import CtrlVerif.Generated.SfbLqe
import CtrlVerif.Props.C11GenSpec

namespace CtrlVerif.C11Gen
open Matrix CtrlVerif CtrlVerif.StateFbk
variable {K : Type} [Field K] [DecidableEq K] {ε : Type}

/-- **`dlqe(sys, QN, RN)`** -/
theorem generated_dlqe_sys (care dare : PySfb.RicFn K ε) (S : DSS K) (QN RN : PMat K)
    (extra : List (PySfb.Arg K)) (kw : PySfb.Kw K) :
    Generated.sfDlqe care dare (sysArgsE S QN RN extra) kw
      = (route .dlqe (some S.dt)).bind fun rt =>
          lqeSpec care dare rt S.sys.A S.sys.B S.sys.C QN RN (!extra.isEmpty) kw := by
  unfold Generated.sfDlqe sysArgsE lqeSpec
  simp only [List.length_cons, argAt_zero, argAt_succ, toArray_arr, bind, Except.ok_bind', route_dlqe]
  by_cases hr : PySfb.Kw.rest kw true false = true
  · rw [if_pos hr]
    split_ifs <;> simp [Except.bind, hr] <;> rfl
  rw [if_neg hr, if_neg (by omega)]
  by_cases hd : DtPred.isctime true S.dt = true
  · rw [if_pos hd, if_pos hd]; rfl
  rw [if_neg hd, if_neg hd, Except.ok_bind', if_neg hr]
  cases extra with
  | nil =>
    simp only [List.length_nil, List.isEmpty_nil, Bool.not_true, Bool.false_eq_true, if_false]
    rw [if_neg (by omega)]
    exact lqe_tail care dare .dare S.sys.A S.sys.B S.sys.C QN RN
  | cons x xs =>
    simp only [List.length_cons, List.isEmpty_cons, Bool.not_false, if_true]
    rw [if_pos (by omega)]
    rfl

/-- **`dlqe(A, G, C, QN, RN)`** -/
theorem generated_dlqe_mat (care dare : PySfb.RicFn K ε) {n g o : Nat} (A : Matrix (Fin n) (Fin n) K)
    (G : Matrix (Fin n) (Fin g) K) (C : Matrix (Fin o) (Fin n) K) (QN RN : PMat K)
    (extra : List (PySfb.Arg K)) (kw : PySfb.Kw K) :
    Generated.sfDlqe care dare (matArgsE A G C QN RN extra) kw
      = (route .dlqe none).bind fun rt => lqeSpec care dare rt A G C QN RN (!extra.isEmpty) kw := by
  unfold Generated.sfDlqe matArgsE lqeSpec
  simp only [List.length_cons, argAt_zero, argAt_succ, toArray_arr, bind, Except.ok_bind', route]
  by_cases hr : PySfb.Kw.rest kw true false = true
  · rw [if_pos hr, if_pos hr]; rfl
  rw [if_neg hr, if_neg (by omega), if_neg hr]
  cases extra with
  | nil =>
    simp only [List.length_nil, List.isEmpty_nil, Bool.not_true, Bool.false_eq_true, if_false]
    rw [if_neg (by omega)]
    exact lqe_tail care dare .dare A G C QN RN
  | cons x xs =>
    simp only [List.length_cons, List.isEmpty_cons, Bool.not_false, if_true]
    rw [if_pos (by omega)]
    rfl

/-- **`lqe(sys, QN, RN)`**: a strictly discrete-time system is handed to the generated `dlqe`. -/
theorem generated_lqe_sys (care dare : PySfb.RicFn K ε) (S : DSS K) (QN RN : PMat K)
    (extra : List (PySfb.Arg K)) (kw : PySfb.Kw K) :
    Generated.sfLqe care dare (sysArgsE S QN RN extra) kw
      = (route .lqe (some S.dt)).bind fun rt =>
          lqeSpec care dare rt S.sys.A S.sys.B S.sys.C QN RN (!extra.isEmpty) kw := by
  rw [route_lqe]
  by_cases hd : DtPred.isdtime true S.dt = true
  · have h1 : Generated.sfLqe care dare (sysArgsE S QN RN extra) kw
        = Generated.sfDlqe care dare (sysArgsE S QN RN extra) kw := by
      unfold Generated.sfLqe sysArgsE
      simp only []
      rw [if_pos hd]
    rw [h1, generated_dlqe_sys, route_dlqe, if_neg (isctime_of_isdtime _ hd), if_pos hd]
  · rw [if_neg hd]
    unfold Generated.sfLqe sysArgsE lqeSpec
    simp only [List.length_cons, argAt_zero, argAt_succ, toArray_arr, bind, Except.ok_bind']
    rw [if_neg hd]
    by_cases hr : PySfb.Kw.rest kw true false = true
    · rw [if_pos hr, if_pos hr]; rfl
    rw [if_neg hr, if_neg (by omega), if_neg hr]
    cases extra with
    | nil =>
      simp only [List.length_nil, List.isEmpty_nil, Bool.not_true, Bool.false_eq_true, if_false]
      rw [if_neg (by omega)]
      exact lqe_tail care dare .care S.sys.A S.sys.B S.sys.C QN RN
    | cons x xs =>
      simp only [List.length_cons, List.isEmpty_cons, Bool.not_false, if_true]
      rw [if_pos (by omega)]
      rfl

/-- **`lqe(A, G, C, QN, RN)`** -/
theorem generated_lqe_mat (care dare : PySfb.RicFn K ε) {n g o : Nat} (A : Matrix (Fin n) (Fin n) K)
    (G : Matrix (Fin n) (Fin g) K) (C : Matrix (Fin o) (Fin n) K) (QN RN : PMat K)
    (extra : List (PySfb.Arg K)) (kw : PySfb.Kw K) :
    Generated.sfLqe care dare (matArgsE A G C QN RN extra) kw
      = (route .lqe none).bind fun rt => lqeSpec care dare rt A G C QN RN (!extra.isEmpty) kw := by
  unfold Generated.sfLqe matArgsE lqeSpec
  simp only [List.length_cons, argAt_zero, argAt_succ, toArray_arr, bind, Except.ok_bind', route]
  by_cases hr : PySfb.Kw.rest kw true false = true
  · rw [if_pos hr, if_pos hr]; rfl
  rw [if_neg hr, if_neg (by omega), if_neg hr]
  cases extra with
  | nil =>
    simp only [List.length_nil, List.isEmpty_nil, Bool.not_true, Bool.false_eq_true, if_false]
    rw [if_neg (by omega)]
    exact lqe_tail care dare .care A G C QN RN
  | cons x xs =>
    simp only [List.length_cons, List.isEmpty_cons, Bool.not_false, if_true]
    rw [if_pos (by omega)]
    rfl

/-! ### against the run-time model `lqeDyn` -/

/-- **`lqe` / `dlqe`, both call forms, against the run-time model `lqeDyn`.** -/
theorem generated_lqe_reaches_mat (care dare : PySfb.RicFn K ε) (n g o : Nat)
    (A : Matrix (Fin n) (Fin n) K) (G : Matrix (Fin n) (Fin g) K) (C : Matrix (Fin o) (Fin n) K)
    (QN RN : DM K) (hm : Bool) (res : Routine × RicArgs (Fin n) (Fin o) K)
    (h : lqeDyn .lqe none n g o A G C QN RN false = .ok res) :
    Generated.sfLqe care dare (matArgsE A G C (dmP QN) (dmP RN) []) (kwE hm)
      = finishE (ricOf care dare res.1 ⟨n, n, res.2.A⟩ ⟨n, o, res.2.B⟩ ⟨n, n, res.2.Q⟩ ⟨o, o, res.2.R⟩ none) := by
  rw [generated_lqe_mat]
  exact lqeDyn_reaches care dare _ _ n g o A G C QN RN hm res h

theorem generated_lqe_reaches_sys (care dare : PySfb.RicFn K ε) (S : DSS K) (QN RN : DM K) (hm : Bool)
    (res : Routine × RicArgs (Fin S.n) (Fin S.p) K)
    (h : lqeDyn .lqe (some S.dt) S.n S.m S.p S.sys.A S.sys.B S.sys.C QN RN false = .ok res) :
    Generated.sfLqe care dare (sysArgsE S (dmP QN) (dmP RN) []) (kwE hm)
      = finishE (ricOf care dare res.1 ⟨S.n, S.n, res.2.A⟩ ⟨S.n, S.p, res.2.B⟩ ⟨S.n, S.n, res.2.Q⟩
          ⟨S.p, S.p, res.2.R⟩ none) := by
  rw [generated_lqe_sys]
  exact lqeDyn_reaches care dare _ _ S.n S.m S.p S.sys.A S.sys.B S.sys.C QN RN hm res h

theorem generated_dlqe_reaches_mat (care dare : PySfb.RicFn K ε) (n g o : Nat)
    (A : Matrix (Fin n) (Fin n) K) (G : Matrix (Fin n) (Fin g) K) (C : Matrix (Fin o) (Fin n) K)
    (QN RN : DM K) (hm : Bool) (res : Routine × RicArgs (Fin n) (Fin o) K)
    (h : lqeDyn .dlqe none n g o A G C QN RN false = .ok res) :
    Generated.sfDlqe care dare (matArgsE A G C (dmP QN) (dmP RN) []) (kwE hm)
      = finishE (ricOf care dare res.1 ⟨n, n, res.2.A⟩ ⟨n, o, res.2.B⟩ ⟨n, n, res.2.Q⟩ ⟨o, o, res.2.R⟩ none) := by
  rw [generated_dlqe_mat]
  exact lqeDyn_reaches care dare _ _ n g o A G C QN RN hm res h

theorem generated_dlqe_reaches_sys (care dare : PySfb.RicFn K ε) (S : DSS K) (QN RN : DM K) (hm : Bool)
    (res : Routine × RicArgs (Fin S.n) (Fin S.p) K)
    (h : lqeDyn .dlqe (some S.dt) S.n S.m S.p S.sys.A S.sys.B S.sys.C QN RN false = .ok res) :
    Generated.sfDlqe care dare (sysArgsE S (dmP QN) (dmP RN) []) (kwE hm)
      = finishE (ricOf care dare res.1 ⟨S.n, S.n, res.2.A⟩ ⟨S.n, S.p, res.2.B⟩ ⟨S.n, S.n, res.2.Q⟩
          ⟨S.p, S.p, res.2.R⟩ none) := by
  rw [generated_dlqe_sys]
  exact lqeDyn_reaches care dare _ _ S.n S.m S.p S.sys.A S.sys.B S.sys.C QN RN hm res h

/-- the cross covariance (any argument after `RN`) is refused with `ControlNotImplemented`, in both
functions and both call forms, once the keywords and the timebase are accepted. -/
theorem generated_lqe_cross_covariance (care dare : PySfb.RicFn K ε) {n g o : Nat}
    (A : Matrix (Fin n) (Fin n) K) (G : Matrix (Fin n) (Fin g) K) (C : Matrix (Fin o) (Fin n) K)
    (QN RN : PMat K) (x : PySfb.Arg K) (xs : List (PySfb.Arg K)) (hm : Bool) :
    Generated.sfLqe care dare (matArgsE A G C QN RN (x :: xs)) (kwE hm) = .error .notImplemented ∧
      Generated.sfDlqe care dare (matArgsE A G C QN RN (x :: xs)) (kwE hm) = .error .notImplemented := by
  rw [generated_lqe_mat, generated_dlqe_mat]
  simp [route, lqeSpec, kwE, PySfb.Kw.rest, Except.bind]

/-! ### against the typed model: the filter Riccati equation, for the function of the source text -/

/-- **`lqe(A, G, C, QN, RN)` against the typed model** `StateFbk.lqe` (dual data, `L = LTᵀ`). -/
theorem generated_lqe_typed {n g o : Nat} (ric : Riccati (Fin n) (Fin o) ε K) (dare : PySfb.RicFn K ε)
    (A : Matrix (Fin n) (Fin n) K) (G : Matrix (Fin n) (Fin g) K) (C : Matrix (Fin o) (Fin n) K)
    (QN : Matrix (Fin g) (Fin g) K) (RN : Matrix (Fin o) (Fin o) K) (hm : Bool) :
    Generated.sfLqe (liftRic ric) dare (matArgsE A G C ⟨g, g, QN⟩ ⟨o, o, RN⟩ []) (kwE hm)
      = (StateFbk.lqe ric A G C QN RN).map fun r => (⟨n, o, r.1⟩, ⟨n, n, r.2.1⟩, r.2.2) := by
  rw [generated_lqe_mat]
  have hl := liftRic_mk ric Aᵀ Cᵀ (G * QN * Gᵀ) RN none
  simp only [Option.map] at hl
  simp only [route, Except.ok_bind', lqeSpec, kwE, PySfb.Kw.rest, Bool.not_true, ricOf, finishE, StateFbk.lqe,
    List.isEmpty_nil, Bool.not_true]
  simp only [Bool.or_self, Bool.and_self, Bool.and_false, Bool.false_eq_true, if_false, and_self, dite_true,
    PMat.retype_rfl, hl]
  cases ric Aᵀ Cᵀ (G * QN * Gᵀ) RN none <;> rfl

/-- **`lqe_riccati` transported**: under `CareSpec` the returned `(L, P)` satisfy the filter Riccati
equation `A P + P Aᵀ − P Cᵀ Lᵀ + G QN Gᵀ = 0` and `RN Lᵀ = C P`. -/
theorem generated_lqe_riccati {n g o : Nat} (ric : Riccati (Fin n) (Fin o) ε K) (hc : C11.CareSpec ric)
    (dare : PySfb.RicFn K ε) (A : Matrix (Fin n) (Fin n) K) (G : Matrix (Fin n) (Fin g) K)
    (C : Matrix (Fin o) (Fin n) K) (QN : Matrix (Fin g) (Fin g) K) (RN : Matrix (Fin o) (Fin o) K)
    (hm : Bool) (Lp Pp : PMat K) (E : ε)
    (h : Generated.sfLqe (liftRic ric) dare (matArgsE A G C ⟨g, g, QN⟩ ⟨o, o, RN⟩ []) (kwE hm) = .ok (Lp, Pp, E)) :
    ∃ (L : Matrix (Fin n) (Fin o) K) (P : Matrix (Fin n) (Fin n) K), Lp = ⟨n, o, L⟩ ∧ Pp = ⟨n, n, P⟩ ∧
      A * P + P * Aᵀ - P * Cᵀ * Lᵀ + G * QN * Gᵀ = 0 ∧ RN * Lᵀ = C * P := by
  rw [generated_lqe_typed] at h
  cases hl : StateFbk.lqe ric A G C QN RN with
  | error e => rw [hl] at h; cases h
  | ok r =>
    obtain ⟨L, P, E'⟩ := r
    rw [hl] at h
    simp only [Except.map, Except.ok.injEq, Prod.mk.injEq] at h
    obtain ⟨rfl, rfl, rfl⟩ := h
    exact ⟨L, P, rfl, rfl, C11.lqe_riccati ric hc A G C QN RN L P _ hl⟩


/-! ### non-vacuity -/

section examples

/-- … the estimator forms return `(LTᵀ, P, E)`, a `QN` of the wrong shape raises. -/
example : Generated.sfLqe okRic badRic (matArgsE (!![0] : Matrix (Fin 1) (Fin 1) ℚ) !![1] !![1] ⟨1, 1, !![1]⟩ ⟨1, 1, !![1]⟩ [])
    (kwE false) = .ok (⟨1, 1, !![3]ᵀ⟩, ⟨1, 1, !![7]⟩, ()) := by
  rw [generated_lqe_mat]; rfl
example : Generated.sfDlqe badRic okRic (matArgsE (!![0] : Matrix (Fin 1) (Fin 1) ℚ) !![1] !![1] ⟨2, 1, 0⟩ ⟨1, 1, !![1]⟩ [])
    (kwE false) = .error .shape := by
  rw [generated_dlqe_mat]; rfl

end examples

end CtrlVerif.C11Gen
