/-
Source-text tie of C01 (DESIGN §10.3, notes/NOTES-py2lean-tf.md), part 3: `TransferFunction.__mul__`
and `__rmul__`.

`Generated/TFMul.lean`, `TFRmul.lean` are rewritten on every run from the text of the two methods in
control/xferfcn.py of the tree under check by `harness/core/py2lean_tf.py`: the `isinstance`
dispatch (a scalar becomes `np.eye(n) * c` — `n = self.ninputs` in `__mul__`, `self.noutputs` in
`__rmul__`), the SISO promotion `bdalg.append(*([g] * n))` (with its four different sizes), the shape
check, `common_timebase(self.dt, other.dt)`, the arrays made by `_create_poly_array(shape, [0] / [1])`,
the scratch lists `num_summand / den_summand`, and the three nested counted loops that accumulate
`num[i, j], den[i, j] = _add_siso(num[i, j], den[i, j], polymul(..), polymul(..))`, then the
constructor.  The run-time operators `DTF.mul / rmul` of the model are proved EQUAL to them for
every operand kind, all shapes (also empty and incompatible ones), all coefficient lists, every pair
of timebases, over any field.  The loop proofs are by invariants (`PyTF.foldlM_range_inv_bind_*`):
after `k` rounds of the innermost loop the entry under construction holds `mulAcc … k`, the fold of
`addSiso` over the first `k` summands; the scratch lists only have to keep their length.
-/
import CtrlVerif.Generated.TFMul
import CtrlVerif.Generated.TFRmul
import CtrlVerif.Props.C01GenAdd

namespace CtrlVerif.C01Gen
open CtrlVerif

variable {K : Type} [Field K] [DecidableEq K]

/-- `self * other` for a `TransferFunction` operand: the body of `__mul__` after the conversion is
the model's `mulCore`. -/
theorem generated_mul_tf (G H : DTF K) : Generated.TF.mul G (.tf H) = DTF.mulCore G H := by
  unfold Generated.TF.mul
  rw [mulCore_eq]
  simp only [PyArith.pure_bind]
  refine PyTF.bind_congr' ?_ ?_
  · simp only [mulPromote, PyTF.appendCopies, PyTF.noutputs, PyTF.ninputs, Int.toNat_natCast,
      PyArith.ok_bind]
  · rintro ⟨G', H'⟩
    dsimp only [PyTF.ninputs, PyTF.noutputs]
    unfold mulShaped
    by_cases h : G'.m = H'.p
    · simp only [ne_eq, Nat.cast_inj, eq_true h, not_true_eq_false, if_false, ↓reduceDIte,
        PyTF.createPolyArray_nat, PyArith.ok_bind]
      refine PyTF.bind_congr' rfl ?_
      intro dt
      let fn : Nat → Nat → List K := fun r c => (mulAcc G' H' r c G'.m).num
      let fd : Nat → Nat → List K := fun r c => (mulAcc G' H' r c G'.m).den
      let bN : PyTF.PolyArr K := PyTF.newArr G'.p H'.m (some [(0 : K)])
      let bD : PyTF.PolyArr K := PyTF.newArr G'.p H'.m (some [(1 : K)])
      refine PyTF.foldlM_range_inv_bind_eq G'.p _
        (fun i s => s.1.length = G'.m ∧ s.2.1.length = G'.m ∧ s.2.2.1 = PyTF.fillTo bN fn i 0 ∧
          s.2.2.2 = PyTF.fillTo bD fd i 0) _ _ _ ?h0 ?hstep ?hk
      case h0 =>
        refine ⟨?_, ?_, (PyTF.fillTo_zero _ _).symm, (PyTF.fillTo_zero _ _).symm⟩ <;>
          simp [PyArith.range_length]
      case hk =>
        intro s hs
        obtain ⟨ns, ds, num, den⟩ := s
        dsimp only at hs ⊢
        obtain ⟨_, _, rfl, rfl⟩ := hs
        rw [PyTF.mkTF_of_get (PyTF.fillTo bN fn G'.p 0) (PyTF.fillTo bD fd G'.p 0) dt
          (fun i j => mulEntry (fun k => G'.sys.e i k) (fun k => (TFM.cast h.symm rfl H'.sys).e k j))
          rfl rfl]
        · rfl
        · intro (i : Fin G'.p) (j : Fin H'.m)
          rw [PyTF.fillTo_get_done _ _ _ _ _ _ i.isLt i.isLt j.isLt]
          simp only [fn, mulAcc_full G' H' h i j]
        · intro (i : Fin G'.p) (j : Fin H'.m)
          rw [PyTF.fillTo_get_done _ _ _ _ _ _ i.isLt i.isLt j.isLt]
          simp only [fd, mulAcc_full G' H' h i j]
      case hstep =>
        intro i hi s hs
        obtain ⟨ns, ds, num, den⟩ := s
        dsimp only at hs ⊢
        obtain ⟨hl1, hl2, rfl, rfl⟩ := hs
        refine PyTF.foldlM_range_inv_bind_ex H'.m _
          (fun j s => s.1.length = G'.m ∧ s.2.1.length = G'.m ∧ s.2.2.1 = PyTF.fillTo bN fn i j ∧
            s.2.2.2 = PyTF.fillTo bD fd i j) _ _ _ ⟨hl1, hl2, rfl, rfl⟩ ?cstep ?ck
        case ck =>
          intro s hs
          obtain ⟨ns', ds', num, den⟩ := s
          dsimp only at hs ⊢
          obtain ⟨hl1', hl2', rfl, rfl⟩ := hs
          exact ⟨_, rfl, hl1', hl2', PyTF.fillTo_row_end bN fn i, PyTF.fillTo_row_end bD fd i⟩
        case cstep =>
          intro j hj s hs
          obtain ⟨ns', ds', num, den⟩ := s
          dsimp only at hs ⊢
          obtain ⟨hl1', hl2', rfl, rfl⟩ := hs
          refine PyTF.foldlM_range_inv_bind_ex G'.m _
            (fun k s => s.1.length = G'.m ∧ s.2.1.length = G'.m ∧
              s.2.2.1 = (PyTF.fillTo bN fn i j).set i j (mulAcc G' H' i j k).num ∧
              s.2.2.2 = (PyTF.fillTo bD fd i j).set i j (mulAcc G' H' i j k).den) _ _ _ ?k0 ?kstep ?kk
          case k0 =>
            refine ⟨hl1', hl2', ?_, ?_⟩
            · refine (PyTF.PolyArr.set_same _ _ _ _ ?_).symm
              rw [PyTF.fillTo_get_here]
              exact PyTF.newArr_get _ _ _ hi hj
            · refine (PyTF.PolyArr.set_same _ _ _ _ ?_).symm
              rw [PyTF.fillTo_get_here]
              exact PyTF.newArr_get _ _ _ hi hj
          case kk =>
            intro s hs
            obtain ⟨ns'', ds'', num, den⟩ := s
            dsimp only at hs ⊢
            obtain ⟨hl1'', hl2'', rfl, rfl⟩ := hs
            exact ⟨_, rfl, hl1'', hl2'', PyTF.fillTo_set bN fn hi hj, PyTF.fillTo_set bD fd hi hj⟩
          case kstep =>
            intro k hk s hs
            obtain ⟨ns'', ds'', num, den⟩ := s
            dsimp only at hs ⊢
            obtain ⟨hl1'', hl2'', rfl, rfl⟩ := hs
            have hk' : k < H'.p := h ▸ hk
            have hn : k < ns''.length := by rw [hl1'']; exact hk
            have hd : k < ds''.length := by rw [hl2'']; exact hk
            simp only [PyTF.numArray_getItem G' hi hk, PyTF.numArray_getItem H' hk' hj,
              PyTF.denArray_getItem G' hi hk, PyTF.denArray_getItem H' hk' hj,
              fun v => PyArith.setItem_nat ns'' hn v, fun v => PyArith.setItem_nat ds'' hd v,
              fun v => PyTF.PolyArr.getItem_set_self (PyTF.fillTo bN fn i j) hi hj v,
              fun v => PyTF.PolyArr.getItem_set_self (PyTF.fillTo bD fd i j) hi hj v,
              fun v => PyTF.getItem_set_self ns'' hn v, fun v => PyTF.getItem_set_self ds'' hd v,
              fun v w => PyTF.PolyArr.setItem_set (PyTF.fillTo bN fn i j) hi hj v w,
              fun v w => PyTF.PolyArr.setItem_set (PyTF.fillTo bD fd i j) hi hj v w,
              generated_addSiso_eq, PyArith.ok_bind]
            refine ⟨_, rfl, by simp [hl1''], by simp [hl2''], ?_, ?_⟩
            · dsimp only
              rw [mulAcc_succ, entryD_lt G' hi hk, entryD_lt H' hk' hj]
              rfl
            · dsimp only
              rw [mulAcc_succ, entryD_lt G' hi hk, entryD_lt H' hk' hj]
              rfl
    · simp only [ne_eq, Nat.cast_inj, eq_false h, not_false_eq_true, if_true, ↓reduceDIte]

/-- `other * self` for a `TransferFunction` operand: the body of `__rmul__` after the conversion
is the model's `rmulCore`. -/
theorem generated_rmul_tf (G H : DTF K) : Generated.TF.rmul G (.tf H) = DTF.rmulCore G H := by
  unfold Generated.TF.rmul
  rw [rmulCore_eq]
  simp only [PyTF.convert, PyArith.pure_bind, PyArith.ok_bind]
  refine PyTF.bind_congr' ?_ ?_
  · simp only [rmulPromote, PyTF.appendCopies, PyTF.noutputs, PyTF.ninputs, Int.toNat_natCast,
      PyArith.ok_bind]
  · rintro ⟨S', O'⟩
    dsimp only [PyTF.ninputs, PyTF.noutputs]
    unfold rmulShaped
    by_cases h : O'.m = S'.p
    · simp only [ne_eq, Nat.cast_inj, eq_true h, not_true_eq_false, if_false, ↓reduceDIte,
        PyTF.createPolyArray_nat, PyArith.ok_bind]
      refine PyTF.bind_congr' rfl ?_
      intro dt
      let fn : Nat → Nat → List K := fun r c => (mulAcc O' S' r c O'.m).num
      let fd : Nat → Nat → List K := fun r c => (mulAcc O' S' r c O'.m).den
      let bN : PyTF.PolyArr K := PyTF.newArr O'.p S'.m (some [(0 : K)])
      let bD : PyTF.PolyArr K := PyTF.newArr O'.p S'.m (some [(1 : K)])
      refine PyTF.foldlM_range_inv_bind_eq O'.p _
        (fun i s => s.1.length = O'.m ∧ s.2.1.length = O'.m ∧ s.2.2.1 = PyTF.fillTo bN fn i 0 ∧
          s.2.2.2 = PyTF.fillTo bD fd i 0) _ _ _ ?h0 ?hstep ?hk
      case h0 =>
        refine ⟨?_, ?_, (PyTF.fillTo_zero _ _).symm, (PyTF.fillTo_zero _ _).symm⟩ <;>
          simp [PyArith.range_length]
      case hk =>
        intro s hs
        obtain ⟨ns, ds, num, den⟩ := s
        dsimp only at hs ⊢
        obtain ⟨_, _, rfl, rfl⟩ := hs
        rw [PyTF.mkTF_of_get (PyTF.fillTo bN fn O'.p 0) (PyTF.fillTo bD fd O'.p 0) dt
          (fun i j => mulEntry (fun k => O'.sys.e i k) (fun k => (TFM.cast h.symm rfl S'.sys).e k j))
          rfl rfl]
        · rfl
        · intro (i : Fin O'.p) (j : Fin S'.m)
          rw [PyTF.fillTo_get_done _ _ _ _ _ _ i.isLt i.isLt j.isLt]
          simp only [fn, mulAcc_full O' S' h i j]
        · intro (i : Fin O'.p) (j : Fin S'.m)
          rw [PyTF.fillTo_get_done _ _ _ _ _ _ i.isLt i.isLt j.isLt]
          simp only [fd, mulAcc_full O' S' h i j]
      case hstep =>
        intro i hi s hs
        obtain ⟨ns, ds, num, den⟩ := s
        dsimp only at hs ⊢
        obtain ⟨hl1, hl2, rfl, rfl⟩ := hs
        refine PyTF.foldlM_range_inv_bind_ex S'.m _
          (fun j s => s.1.length = O'.m ∧ s.2.1.length = O'.m ∧ s.2.2.1 = PyTF.fillTo bN fn i j ∧
            s.2.2.2 = PyTF.fillTo bD fd i j) _ _ _ ⟨hl1, hl2, rfl, rfl⟩ ?cstep ?ck
        case ck =>
          intro s hs
          obtain ⟨ns', ds', num, den⟩ := s
          dsimp only at hs ⊢
          obtain ⟨hl1', hl2', rfl, rfl⟩ := hs
          exact ⟨_, rfl, hl1', hl2', PyTF.fillTo_row_end bN fn i, PyTF.fillTo_row_end bD fd i⟩
        case cstep =>
          intro j hj s hs
          obtain ⟨ns', ds', num, den⟩ := s
          dsimp only at hs ⊢
          obtain ⟨hl1', hl2', rfl, rfl⟩ := hs
          refine PyTF.foldlM_range_inv_bind_ex O'.m _
            (fun k s => s.1.length = O'.m ∧ s.2.1.length = O'.m ∧
              s.2.2.1 = (PyTF.fillTo bN fn i j).set i j (mulAcc O' S' i j k).num ∧
              s.2.2.2 = (PyTF.fillTo bD fd i j).set i j (mulAcc O' S' i j k).den) _ _ _ ?k0 ?kstep ?kk
          case k0 =>
            refine ⟨hl1', hl2', ?_, ?_⟩
            · refine (PyTF.PolyArr.set_same _ _ _ _ ?_).symm
              rw [PyTF.fillTo_get_here]
              exact PyTF.newArr_get _ _ _ hi hj
            · refine (PyTF.PolyArr.set_same _ _ _ _ ?_).symm
              rw [PyTF.fillTo_get_here]
              exact PyTF.newArr_get _ _ _ hi hj
          case kk =>
            intro s hs
            obtain ⟨ns'', ds'', num, den⟩ := s
            dsimp only at hs ⊢
            obtain ⟨hl1'', hl2'', rfl, rfl⟩ := hs
            exact ⟨_, rfl, hl1'', hl2'', PyTF.fillTo_set bN fn hi hj, PyTF.fillTo_set bD fd hi hj⟩
          case kstep =>
            intro k hk s hs
            obtain ⟨ns'', ds'', num, den⟩ := s
            dsimp only at hs ⊢
            obtain ⟨hl1'', hl2'', rfl, rfl⟩ := hs
            have hk' : k < S'.p := h ▸ hk
            have hn : k < ns''.length := by rw [hl1'']; exact hk
            have hd : k < ds''.length := by rw [hl2'']; exact hk
            simp only [PyTF.numArray_getItem O' hi hk, PyTF.numArray_getItem S' hk' hj,
              PyTF.denArray_getItem O' hi hk, PyTF.denArray_getItem S' hk' hj,
              fun v => PyArith.setItem_nat ns'' hn v, fun v => PyArith.setItem_nat ds'' hd v,
              fun v => PyTF.PolyArr.getItem_set_self (PyTF.fillTo bN fn i j) hi hj v,
              fun v => PyTF.PolyArr.getItem_set_self (PyTF.fillTo bD fd i j) hi hj v,
              fun v => PyTF.getItem_set_self ns'' hn v, fun v => PyTF.getItem_set_self ds'' hd v,
              fun v w => PyTF.PolyArr.setItem_set (PyTF.fillTo bN fn i j) hi hj v w,
              fun v w => PyTF.PolyArr.setItem_set (PyTF.fillTo bD fd i j) hi hj v w,
              generated_addSiso_eq, PyArith.ok_bind]
            refine ⟨_, rfl, by simp [hl1''], by simp [hl2''], ?_, ?_⟩
            · dsimp only
              rw [mulAcc_succ, entryD_lt O' hi hk, entryD_lt S' hk' hj]
              rfl
            · dsimp only
              rw [mulAcc_succ, entryD_lt O' hi hk, entryD_lt S' hk' hj]
              rfl
    · simp only [ne_eq, Nat.cast_inj, eq_false h, not_false_eq_true, if_true, ↓reduceDIte]

/-- a scalar factor is `np.eye(self.ninputs) * c`. -/
theorem generated_mul_scalar (G : DTF K) (c : K) :
    Generated.TF.mul G (.scalar c) = Generated.TF.mul G (.tf (DTF.ofScaledEye c G.m)) := by
  simp only [Generated.TF.mul, PyTF.ninputs, convert_scaledEye, PyArith.ok_bind, PyArith.pure_bind]

theorem generated_mul_array (G : DTF K) (p m : Nat) (D : Fin p → Fin m → K) :
    Generated.TF.mul G (.array p m D) = Generated.TF.mul G (.tf (DTF.ofArray p m D)) := by
  simp only [Generated.TF.mul, PyTF.convert, PyArith.ok_bind, PyArith.pure_bind]

/-- **`__mul__` as the source text says it is the model's `DTF.mul`**, for every operand kind of
the model, every shape, coefficient list and timebase. -/
theorem generated_mul_eq (G : DTF K) (x : Operand K) :
    Generated.TF.mul G (PyTF.ofOperand x) = DTF.mul G x := by
  cases x with
  | sys H => exact generated_mul_tf G H
  | scalar c => exact (generated_mul_scalar G c).trans (generated_mul_tf G _)
  | array p m D => exact (generated_mul_array G p m D).trans (generated_mul_tf G _)

theorem generated_mul_ss (G c n : DTF K) : Generated.TF.mul G (.ss c n) = DTF.mulCore G c := by
  rw [← generated_mul_tf]
  simp only [Generated.TF.mul, PyTF.convert, PyArith.ok_bind, PyArith.pure_bind]

theorem generated_mul_foreign (G : DTF K) : Generated.TF.mul G .foreign = .error .notImplemented := by
  simp only [Generated.TF.mul, PyArith.pure_bind]

/-- in `__rmul__` a scalar factor is `np.eye(self.noutputs) * c`. -/
theorem generated_rmul_scalar (G : DTF K) (c : K) :
    Generated.TF.rmul G (.scalar c) = Generated.TF.rmul G (.tf (DTF.ofScaledEye c G.p)) := by
  simp only [Generated.TF.rmul, PyTF.noutputs, convert_scaledEye, convert_tf, PyArith.ok_bind,
    PyArith.pure_bind]

theorem generated_rmul_array (G : DTF K) (p m : Nat) (D : Fin p → Fin m → K) :
    Generated.TF.rmul G (.array p m D) = Generated.TF.rmul G (.tf (DTF.ofArray p m D)) := by
  simp only [Generated.TF.rmul, PyTF.convert, PyArith.ok_bind, PyArith.pure_bind]

/-- **`__rmul__` as the source text says it is the model's `DTF.rmul`.** -/
theorem generated_rmul_eq (G : DTF K) (x : Operand K) :
    Generated.TF.rmul G (PyTF.ofOperand x) = DTF.rmul G x := by
  cases x with
  | sys H => exact generated_rmul_tf G H
  | scalar c => exact (generated_rmul_scalar G c).trans (generated_rmul_tf G _)
  | array p m D => exact (generated_rmul_array G p m D).trans (generated_rmul_tf G _)

theorem generated_rmul_ss (G c n : DTF K) : Generated.TF.rmul G (.ss c n) = DTF.rmulCore G c := by
  rw [← generated_rmul_tf]
  simp only [Generated.TF.rmul, PyTF.convert, PyArith.ok_bind, PyArith.pure_bind]

/-- in `__rmul__` every operand is converted: a foreign one is a `TypeError`. -/
theorem generated_rmul_foreign (G : DTF K) : Generated.TF.rmul G .foreign = .error .notImplemented := by
  simp only [Generated.TF.rmul, PyTF.convert, PyArith.error_bind]

/-- the trusted meaning of the promotion `np.ones((p, m)) * g` in `__add__` (`PyTF.onesTimes`) is
what the generated `__rmul__` computes for the ones array. -/
theorem generated_rmul_ones (g : DTF K) (p m : Nat) :
    Generated.TF.rmul g (.array p m fun _ _ => 1) = PyTF.onesTimes (p : Int) (m : Int) g :=
  generated_rmul_eq g (.array p m fun _ _ => 1)

/-! ### the headline theorem of C01 for `*`, of the function the source text defines -/

/-- `G * H` for systems with matching inner dimension that need no SISO promotion and have
compatible timebases: the generated `__mul__` returns a well-formed system denoting the matrix
product `⟦G⟧ * ⟦H⟧`. -/
theorem generated_mul_sem (G H : DTF K) (h : G.m = H.p) (hs : G.isSiso = H.isSiso) (hG : G.sys.WF)
    (hH : H.sys.WF) (dt : Dt) (hdt : common G.dt H.dt = .ok dt) :
    ∃ s, Generated.TF.mul G (.tf H) = .ok ⟨G.p, H.m, s, dt⟩ ∧ s.WF ∧
      s.sem = G.sys.sem * (TFM.cast h.symm rfl H.sys).sem := by
  have hH' : (TFM.cast h.symm rfl H.sys).WF := fun i j => hH _ _
  obtain ⟨R, h1, h2, h3⟩ := C01.sem_mul G.sys (TFM.cast h.symm rfl H.sys) hG hH'
  refine ⟨R, ?_, h2, h3⟩
  rw [generated_mul_tf, mulCore_eq]
  have hpr : mulPromote G H = .ok (G, H) := by
    unfold mulPromote
    cases h : H.isSiso <;> simp [hs, h, pure, Except.pure]
  rw [hpr, PyArith.ok_bind]
  simp [mulShaped, h, hdt, h1, bind, Except.bind, pure, Except.pure]

/-- the same for `__rmul__` (`H * G` with `self = G`). -/
theorem generated_rmul_sem (G H : DTF K) (h : H.m = G.p) (hs : G.isSiso = H.isSiso) (hG : G.sys.WF)
    (hH : H.sys.WF) (dt : Dt) (hdt : common G.dt H.dt = .ok dt) :
    ∃ s, Generated.TF.rmul G (.tf H) = .ok ⟨H.p, G.m, s, dt⟩ ∧ s.WF ∧
      s.sem = H.sys.sem * (TFM.cast h.symm rfl G.sys).sem := by
  have hG' : (TFM.cast h.symm rfl G.sys).WF := fun i j => hG _ _
  obtain ⟨R, h1, h2, h3⟩ := C01.sem_mul H.sys (TFM.cast h.symm rfl G.sys) hH hG'
  refine ⟨R, ?_, h2, h3⟩
  rw [generated_rmul_tf, rmulCore_eq]
  have hpr : rmulPromote G H = .ok (G, H) := by
    unfold rmulPromote
    cases h : H.isSiso <;> simp [hs, h, pure, Except.pure]
  rw [hpr, PyArith.ok_bind]
  simp [rmulShaped, h, hdt, h1, bind, Except.bind, pure, Except.pure]

/-- an inner-dimension mismatch raises. -/
theorem generated_mul_shape_error (G H : DTF K) (hs : G.isSiso = H.isSiso) (h : G.m ≠ H.p) :
    Generated.TF.mul G (.tf H) = .error .shape := by
  rw [generated_mul_tf, mulCore_eq]
  have hpr : mulPromote G H = .ok (G, H) := by
    unfold mulPromote
    cases h : H.isSiso <;> simp [hs, h, pure, Except.pure]
  rw [hpr, PyArith.ok_bind]
  simp [mulShaped, h]

/-! non-vacuity -/

example : ∃ s, Generated.TF.mul (⟨1, 1, C01.exG1.1, .cont⟩ : DTF ℚ) (.tf ⟨1, 1, C01.exG1.1, .none⟩)
    = .ok ⟨1, 1, s, .cont⟩ ∧ s.WF :=
  let ⟨s, h1, h2, _⟩ := generated_mul_sem (⟨1, 1, C01.exG1.1, .cont⟩ : DTF ℚ) ⟨1, 1, C01.exG1.1, .none⟩
    rfl rfl C01.exG1.2 C01.exG1.2 .cont rfl
  ⟨s, h1, h2⟩

example : Generated.TF.mul (⟨2, 2, TFM.ofConst fun _ _ => (1 : ℚ), .cont⟩ : DTF ℚ)
    (.tf ⟨3, 2, TFM.ofConst fun _ _ => (1 : ℚ), .cont⟩) = .error .shape :=
  generated_mul_shape_error _ _ rfl (by decide)

end CtrlVerif.C01Gen
