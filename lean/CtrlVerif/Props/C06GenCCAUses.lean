/-
The validation primitives the C06 and C20 models use are instances of the function the source
text of `_check_convert_array` defines (`Generated/CheckConvertArray.lean`): what those models
trusted as a primitive is now the translated function.
-/
import CtrlVerif.Props.C06GenCCA
import CtrlVerif.Model.PyP2PHead
import CtrlVerif.Model.TimeResp

namespace CtrlVerif.C06GenCCA

open PyCCA CheckConvert Generated.CCA

variable {K : Type}

/-- what the caller's success / failure looks like when only the elements are observed. -/
def dataOf {β : Type} (r : Except Err (Arr β)) : Option (List β) :=
  match r with
  | .ok a => some a.data
  | .error _ => none

def okOf {β : Type} (r : Except Err β) : Option β :=
  match r with
  | .ok a => some a
  | .error _ => none

/-- a boundary value of `point_to_point` as `np.asarray` sees it. -/
def ofBVal : PyHead.BVal K → Arr K
  | .scalar v => ⟨[], [v], Kind.f⟩
  | .vec xs => ⟨[xs.length], xs, Kind.f⟩

theorem firstConcrete_map (s : List Nat) (rest : List (List Nat)) :
    firstConcrete ((s :: rest).map (·.map Dim.n)) = some (s.map Dim.n) := by
  simp [firstConcrete]

theorem exists_matches_map (legal : List (List Nat)) (a : List Nat) :
    (∃ s ∈ legal.map (·.map Dim.n), Matches s a) ↔ a ∈ legal := by
  constructor
  · rintro ⟨s, hs, hm⟩
    obtain ⟨t, ht, rfl⟩ := List.mem_map.mp hs
    rwa [← (matches_concrete t a).mp hm]
  · intro h
    exact ⟨_, List.mem_map.mpr ⟨a, h, rfl⟩, (matches_concrete a a).mpr rfl⟩

/-- **C20's primitive `PyHead.checkConvertArray` is the generated function** (called with
`squeeze=True`, joker-free legal shapes), observed at the returned elements; both raise together. -/
theorem pyhead_checkConvertArray_generated (x : PyHead.BVal K) (legal : List (List Nat)) :
    dataOf (checkConvertArray (ofBVal x) (legal.map (·.map Dim.n)) true false)
      = okOf (PyHead.checkConvertArray x legal) := by
  rw [generated_cca_eq]
  cases x with
  | scalar v =>
    cases legal with
    | nil => simp [checkConvert, ofBVal, fillScalar, firstConcrete, PyHead.checkConvertArray, dataOf, okOf,
        bind, Except.bind]
    | cons s rest =>
      have hm : ∃ t ∈ (s :: rest).map (·.map Dim.n), Matches t s :=
        (exists_matches_map (s :: rest) s).mpr (by simp)
      obtain ⟨r, hr, -, hd, -⟩ := squeezed_ok (⟨s, List.replicate s.prod v, Kind.f⟩ : Arr K)
      simp only [checkConvert, ofBVal, fillScalar, firstConcrete_map, item, full, concrete_map,
        PyHead.checkConvertArray, okOf, bind, Except.bind, pure, Except.pure]
      have h0 : Matches (s.map Dim.n) s := (matches_concrete s s).mpr rfl
      simp [h0, hr, dataOf, hd]
  | vec xs =>
    have hs : (ofBVal (.vec xs)).shape ≠ [] := by simp [ofBVal]
    by_cases hmem : [xs.length] ∈ legal
    · have hm := (exists_matches_map legal [xs.length]).mpr hmem
      obtain ⟨r, hr, -, hd, -⟩ := squeezed_ok (ofBVal (.vec xs))
      have hc : legal.contains [xs.length] = true := by simpa using hmem
      simp only [checkConvert, fillScalar, PyHead.checkConvertArray, okOf, hc, bind, Except.bind]
      simp [ofBVal] at hm hr hd ⊢
      simp [hm, hr, dataOf, hd]
    · have hm : ¬ ∃ s ∈ legal.map (·.map Dim.n), Matches s [xs.length] :=
        fun h => hmem ((exists_matches_map legal [xs.length]).mp h)
      have hc : legal.contains [xs.length] = false := by simpa using hmem
      simp only [checkConvert, fillScalar, PyHead.checkConvertArray, okOf, hc, bind, Except.bind]
      simp [ofBVal] at hm ⊢
      have hm' : ¬ ∃ a ∈ legal, Matches (List.map Dim.n a) [xs.length] := fun ⟨a, ha, h⟩ => hm a ha h
      rw [if_neg hm']; rfl

end CtrlVerif.C06GenCCA
