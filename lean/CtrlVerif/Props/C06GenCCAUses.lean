/-
The validation primitives the C06, C08 and C20 models use are instances of the function the source
text of `_check_convert_array` defines (`Generated/CheckConvertArray.lean`): what those models
trusted as a primitive is now the translated function.
-/
import CtrlVerif.Props.C06GenCCA
import CtrlVerif.Model.PyP2PHead
import CtrlVerif.Model.TimeResp
import CtrlVerif.Model.IOSysDyn

namespace CtrlVerif.C06GenCCA

open PyCCA CheckConvert Generated.CCA

variable {K : Type}

/-- what the caller's success / failure looks like when only the elements are observed. -/
def dataOf {β : Type} (r : Except Err (Arr β)) : Option (List β) :=
  match r with
  | .ok a => some a.data
  | .error _ => none

def okOf {β : Type} (r : Except Err β) : Option β :=
  match r with
  | .ok a => some a
  | .error _ => none

/-- a boundary value of `point_to_point` as `np.asarray` sees it. -/
def ofBVal : PyHead.BVal K → Arr K
  | .scalar v => ⟨[], [v], Kind.f⟩
  | .vec xs => ⟨[xs.length], xs, Kind.f⟩

theorem firstConcrete_map (s : List Nat) (rest : List (List Nat)) :
    firstConcrete ((s :: rest).map (·.map Dim.n)) = some (s.map Dim.n) := by
  simp [firstConcrete]

theorem exists_matches_map (legal : List (List Nat)) (a : List Nat) :
    (∃ s ∈ legal.map (·.map Dim.n), Matches s a) ↔ a ∈ legal := by
  constructor
  · rintro ⟨s, hs, hm⟩
    obtain ⟨t, ht, rfl⟩ := List.mem_map.mp hs
    rwa [← (matches_concrete t a).mp hm]
  · intro h
    exact ⟨_, List.mem_map.mpr ⟨a, h, rfl⟩, (matches_concrete a a).mpr rfl⟩

/-- **C20's primitive `PyHead.checkConvertArray` is the generated function** (called with
`squeeze=True`, joker-free legal shapes), observed at the returned elements; both raise together. -/
theorem pyhead_checkConvertArray_generated (x : PyHead.BVal K) (legal : List (List Nat)) :
    dataOf (checkConvertArray (ofBVal x) (legal.map (·.map Dim.n)) true false)
      = okOf (PyHead.checkConvertArray x legal) := by
  rw [generated_cca_eq]
  cases x with
  | scalar v =>
    cases legal with
    | nil => simp [checkConvert, ofBVal, fillScalar, firstConcrete, PyHead.checkConvertArray, dataOf, okOf,
        bind, Except.bind]
    | cons s rest =>
      have hm : ∃ t ∈ (s :: rest).map (·.map Dim.n), Matches t s :=
        (exists_matches_map (s :: rest) s).mpr (by simp)
      obtain ⟨r, hr, -, hd, -⟩ := squeezed_ok (⟨s, List.replicate s.prod v, Kind.f⟩ : Arr K)
      simp only [checkConvert, ofBVal, fillScalar, firstConcrete_map, item, full, concrete_map,
        PyHead.checkConvertArray, okOf, bind, Except.bind, pure, Except.pure]
      have h0 : Matches (s.map Dim.n) s := (matches_concrete s s).mpr rfl
      simp [h0, hr, dataOf, hd]
  | vec xs =>
    have hs : (ofBVal (.vec xs)).shape ≠ [] := by simp [ofBVal]
    by_cases hmem : [xs.length] ∈ legal
    · have hm := (exists_matches_map legal [xs.length]).mpr hmem
      obtain ⟨r, hr, -, hd, -⟩ := squeezed_ok (ofBVal (.vec xs))
      have hc : legal.contains [xs.length] = true := by simpa using hmem
      simp only [checkConvert, fillScalar, PyHead.checkConvertArray, okOf, hc, bind, Except.bind]
      simp [ofBVal] at hm hr hd ⊢
      simp [hm, hr, dataOf, hd]
    · have hm : ¬ ∃ s ∈ legal.map (·.map Dim.n), Matches s [xs.length] :=
        fun h => hmem ((exists_matches_map legal [xs.length]).mp h)
      have hc : legal.contains [xs.length] = false := by simpa using hmem
      simp only [checkConvert, fillScalar, PyHead.checkConvertArray, okOf, hc, bind, Except.bind]
      simp [ofBVal] at hm ⊢
      have hm' : ¬ ∃ a ∈ legal, Matches (List.map Dim.n a) [xs.length] := fun ⟨a, ha, h⟩ => hm a ha h
      rw [if_neg hm']; rfl

/-- an `array_like` of the C06 model as `np.asarray` sees it (2-D arrays are stored column by
column in the model, row-major in NumPy). -/
def ofTR : TimeResp.Arr → Arr ℚ
  | .scalar c => ⟨[], [c], Kind.f⟩
  | .d1 v => ⟨[v.length], v, Kind.f⟩
  | .d2 r cols => ⟨[r, cols.length], (List.finRange r).flatMap fun i => cols.map (·.get i), Kind.f⟩

theorem flat_single {r : ℕ} (x : Vector ℚ r) :
    ((List.finRange r).flatMap fun i => [x.get i]) = x.toList := by
  have h : ∀ l : List (Fin r), l.flatMap (fun i => [x.get i]) = l.map (fun i => x.get i) := by
    intro l; induction l <;> simp [*]
  rw [h]
  apply List.ext_getElem <;> simp [Vector.get]

theorem legalX0 (n : ℕ) :
    ([[Dim.n n], [Dim.n n, Dim.n 1]] : List LegalShape) = [[n], [n, 1]].map (·.map Dim.n) := rfl

/-- **C06's primitive `convertX0` is the generated function** called as `forced_response` calls it
(`[(n,), (n, 1)]`, `squeeze=True`), observed at the returned elements; both raise together. -/
theorem convertX0_generated (n : ℕ) (x : TimeResp.Arr) :
    dataOf (checkConvertArray (ofTR x) [[Dim.n n], [Dim.n n, Dim.n 1]] true false)
      = okOf ((TimeResp.convertX0 n x).map Vector.toList) := by
  rw [generated_cca_eq, legalX0]
  cases x with
  | scalar c =>
    have hm : ∃ t ∈ [[n], [n, 1]].map (·.map Dim.n), Matches t [n] :=
      (exists_matches_map [[n], [n, 1]] [n]).mpr (by simp)
    obtain ⟨r, hr, -, hd, -⟩ := squeezed_ok (⟨[n], List.replicate [n].prod c, Kind.f⟩ : Arr ℚ)
    simp only [checkConvert, ofTR, fillScalar, firstConcrete_map, item, full, concrete_map,
      TimeResp.convertX0, okOf, bind, Except.bind, pure, Except.pure, Except.map]
    have h0 : Matches ([n].map Dim.n) [n] := (matches_concrete [n] [n]).mpr rfl
    simp at h0 hr hd ⊢
    simp [h0, hr, dataOf, hd]
  | d1 v =>
    obtain ⟨r, hr, -, hd, -⟩ := squeezed_ok (ofTR (.d1 v))
    by_cases h : v.length = n
    · subst h
      have hm := (exists_matches_map [[v.length], [v.length, 1]] [v.length]).mpr (by simp)
      simp only [checkConvert, fillScalar, TimeResp.convertX0, okOf, bind, Except.bind, Except.map]
      simp [ofTR] at hm hr hd ⊢
      simp [hm, hr, dataOf, hd]
    · have hm : ¬ ∃ s ∈ [[n], [n, 1]].map (·.map Dim.n), Matches s [v.length] :=
        fun hh => by have := (exists_matches_map [[n], [n, 1]] [v.length]).mp hh; simp [h] at this
      simp only [checkConvert, fillScalar, TimeResp.convertX0, okOf, bind, Except.bind, Except.map]
      simp [ofTR] at hm ⊢
      simp [hm, dataOf, h]
  | d2 r cols =>
    obtain ⟨q, hq, -, hd, -⟩ := squeezed_ok (ofTR (.d2 r cols))
    have hiff := exists_matches_map [[n], [n, 1]] [r, cols.length]
    match cols with
    | [] =>
      have hm : ¬ ∃ s ∈ [[n], [n, 1]].map (·.map Dim.n), Matches s [r, 0] :=
        fun hh => by have := hiff.mp hh; simp at this
      simp only [checkConvert, fillScalar, TimeResp.convertX0, okOf, bind, Except.bind, Except.map]
      simp [ofTR] at hm ⊢
      simp [hm, dataOf]
    | [x] =>
      by_cases h : r = n
      · subst h
        have hm := hiff.mpr (by simp)
        simp only [checkConvert, fillScalar, TimeResp.convertX0, okOf, bind, Except.bind, Except.map]
        simp [ofTR, flat_single] at hm hq hd ⊢
        simp [hm, hq, dataOf, hd]
      · have hm : ¬ ∃ s ∈ [[n], [n, 1]].map (·.map Dim.n), Matches s [r, 1] :=
          fun hh => by have := hiff.mp hh; simp [h] at this
        simp only [checkConvert, fillScalar, TimeResp.convertX0, okOf, bind, Except.bind, Except.map]
        simp [ofTR] at hm ⊢
        simp [hm, dataOf, h]
    | x :: y :: rest =>
      have hm : ¬ ∃ s ∈ [[n], [n, 1]].map (·.map Dim.n), Matches s [r, rest.length + 1 + 1] :=
        fun hh => by have := hiff.mp hh; simp at this
      simp only [checkConvert, fillScalar, TimeResp.convertX0, okOf, bind, Except.bind, Except.map]
      simp [ofTR] at hm ⊢
      simp [hm, dataOf]

/-- the legal shapes `input_output_response` passes for the input array. -/
def legalU (N m : ℕ) : List (List ℕ) := if m = 1 then [[N], [1, N]] else [[m, N]]

/-- **C08's primitive `checkU2` is the generated function** called as `input_output_response`
calls it (2-D input array given by its non-empty list of rows of common length `c`), observed at
the returned elements; both raise together. -/
theorem checkU2_generated (N m c : ℕ) (rows : List (List CtrlVerif.Q)) (hne : rows ≠ [])
    (hrect : ∀ r ∈ rows, r.length = c) :
    dataOf (checkConvertArray ⟨[rows.length, c], rows.flatten, Kind.f⟩
        ((legalU N m).map (·.map Dim.n)) false false)
      = (okOf (CtrlVerif.checkU2 N m rows)).map List.flatten := by
  rw [generated_cca_eq]
  have hiff := exists_matches_map (legalU N m) [rows.length, c]
  have hall : (∀ r ∈ rows, r.length = N) ↔ c = N := by
    constructor
    · intro h
      obtain ⟨r, hr⟩ := List.exists_mem_of_ne_nil rows hne
      rw [← hrect r hr, h r hr]
    · rintro rfl; exact hrect
  have hmem : [rows.length, c] ∈ legalU N m ↔ rows.length = m ∧ c = N := by
    unfold legalU; by_cases h1 : m = 1 <;> simp [h1]
  have e1 : (∃ s ∈ (legalU N m).map (·.map Dim.n), Matches s [rows.length, c]) ↔ (rows.length = m ∧ c = N) :=
    hiff.trans hmem
  have e2 : (rows.length = m ∧ ∀ r ∈ rows, r.length = N) ↔ (rows.length = m ∧ c = N) := and_congr_right' hall
  have hs : ([rows.length, c] : List ℕ) ≠ [] := by simp
  unfold checkConvert fillScalar CtrlVerif.checkU2
  simp only [Bool.false_eq_true, if_false, if_neg hs, bind, Except.bind, e1, e2]
  by_cases h : rows.length = m ∧ c = N <;> simp [h, dataOf, okOf]

/-- the elements of an `m × k` array stored column by column, in NumPy's row-major order. -/
def rowMajor {m : ℕ} (cols : List (Vector ℚ m)) : List ℚ :=
  (List.finRange m).flatMap fun i => cols.map (·.get i)

theorem rowMajor_replicate (m k : ℕ) (c : ℚ) :
    rowMajor (List.replicate k (Vector.replicate m c)) = List.replicate (m * k) c := by
  unfold rowMajor
  have hg : ∀ i : Fin m, (List.replicate k (Vector.replicate m c)).map (·.get i) = List.replicate k c := by
    intro i; simp [Vector.get]
  have h : ∀ l : List (Fin m), l.flatMap (fun i => (List.replicate k (Vector.replicate m c)).map (·.get i))
      = List.replicate (l.length * k) c := by
    intro l
    induction l with
    | nil => simp
    | cons a t ih =>
      rw [List.flatMap_cons, ih, hg, ← List.replicate_add, List.length_cons]; congr 1; ring
  simpa using h (List.finRange m)

theorem rowMajor_single (v : List ℚ) :
    rowMajor (v.map fun a => Vector.replicate 1 a) = v := by
  unfold rowMajor
  simp [List.finRange_succ, Vector.get, Function.comp_def]

theorem rowMajor_single_lit (v : List ℚ) : rowMajor (v.map fun a => (#v[a] : Vector ℚ 1)) = v := by
  simpa using rowMajor_single v

theorem rowMajor_replicate_one (k : ℕ) (c : ℚ) :
    rowMajor (List.replicate k (#v[c] : Vector ℚ 1)) = List.replicate k c := by
  simpa using rowMajor_replicate 1 k c

/-- the legal shapes `forced_response` passes for the input array `U` (`m` inputs, `k` time points). -/
def legalUF (m k : ℕ) : List (List ℕ) := if m = 1 then [[k], [1, k]] else [[m, k]]

/-- **C06's primitive `convertU` is the generated function** called as `forced_response` calls it
(`squeeze=False`), observed at the returned elements in row-major order; both raise together. -/
theorem convertU_generated (m k : ℕ) (x : TimeResp.Arr) :
    dataOf (checkConvertArray (ofTR x) ((legalUF m k).map (·.map Dim.n)) false false)
      = (okOf (TimeResp.convertU m k x)).map rowMajor := by
  rw [generated_cca_eq]
  cases x with
  | scalar c =>
    by_cases h1 : m = 1
    · subst h1
      have hf : firstConcrete ((legalUF 1 k).map (·.map Dim.n)) = some ([k].map Dim.n) := by
        simp [legalUF, firstConcrete]
      have hm : ∃ t ∈ (legalUF 1 k).map (·.map Dim.n), Matches t [k] :=
        (exists_matches_map _ _).mpr (by simp [legalUF])
      have hm2 : ∃ a ∈ legalUF 1 k, Matches (List.map Dim.n a) [k] :=
        ⟨[k], by simp [legalUF], (matches_concrete _ _).mpr rfl⟩
      simp only [checkConvert, ofTR, fillScalar, hf, item, full, concrete_map, TimeResp.convertU, okOf,
        bind, Except.bind, pure, Except.pure]
      simp [hm2, dataOf, rowMajor_replicate_one]
    · have hf : firstConcrete ((legalUF m k).map (·.map Dim.n)) = some ([m, k].map Dim.n) := by
        simp [legalUF, h1, firstConcrete]
      have hm : ∃ t ∈ (legalUF m k).map (·.map Dim.n), Matches t [m, k] :=
        (exists_matches_map _ _).mpr (by simp [legalUF, h1])
      have hm2 : ∃ a ∈ legalUF m k, Matches (List.map Dim.n a) [m, k] :=
        ⟨[m, k], by simp [legalUF, h1], (matches_concrete _ _).mpr rfl⟩
      simp only [checkConvert, ofTR, fillScalar, hf, item, full, concrete_map, TimeResp.convertU, okOf,
        bind, Except.bind, pure, Except.pure]
      simp [hm2, dataOf, rowMajor_replicate]
  | d1 v =>
    have hiff := exists_matches_map (legalUF m k) [v.length]
    have hmem : [v.length] ∈ legalUF m k ↔ (m = 1 ∧ v.length = k) := by
      unfold legalUF; by_cases h1 : m = 1 <;> simp [h1]
    have e1 := hiff.trans hmem
    have hs : ([v.length] : List ℕ) ≠ [] := by simp
    unfold checkConvert fillScalar TimeResp.convertU ofTR
    simp only [Bool.false_eq_true, if_false, if_neg hs, bind, Except.bind, e1]
    by_cases h : m = 1 ∧ v.length = k
    · obtain ⟨rfl, rfl⟩ := h
      simp [dataOf, okOf, rowMajor_single_lit]
    · simp [h, dataOf, okOf]
  | d2 r cols =>
    have hiff := exists_matches_map (legalUF m k) [r, cols.length]
    have hmem : [r, cols.length] ∈ legalUF m k ↔ (r = m ∧ cols.length = k) := by
      unfold legalUF; by_cases h1 : m = 1 <;> simp [h1]
    have e1 := hiff.trans hmem
    have hs : ([r, cols.length] : List ℕ) ≠ [] := by simp
    unfold checkConvert fillScalar TimeResp.convertU ofTR
    simp only [Bool.false_eq_true, if_false, if_neg hs, bind, Except.bind, e1]
    by_cases hr : r = m
    · subst hr
      by_cases hk : cols.length = k
      · simp [hk, dataOf, okOf, rowMajor]
      · simp [hk, dataOf, okOf]
    · simp [hr, dataOf, okOf]

end CtrlVerif.C06GenCCA
