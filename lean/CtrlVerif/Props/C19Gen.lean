/-
Source-text tie for the configuration dictionary of C19 (DESIGN §2.5):
`Generated/ConfigDict.lean` is rewritten on every run from the text of
`DefaultDict._check_deprecation / __missing__ / __setitem__`, `set_defaults` and `reset_defaults`
in /repo/control/config.py by `harness/core/py2lean_select.py` (the dictionary is the state of the
monad `CfgM`, `Model/PyDict.lean`).  The step functions of the hand-written configuration machine
`Model/Config.lean` (`checkDep`, `getItem`, `setItem`, `setDefaults`, `resetCode` — the ones the
theorems of `Props/C19.lean` are about) are proved equal to the generated functions: same value
or exception, same dictionary afterwards, for every dictionary, key, value and keyword list.
-/
import CtrlVerif.Generated.ConfigDict
import CtrlVerif.Lemmas.PyDict
import CtrlVerif.Props.C19

namespace CtrlVerif.C19Gen

open CtrlVerif Config PyDict

/-- `_check_deprecation(key)` as written in the source: returns the model's `checkDep`, leaves
the dictionary alone. -/
theorem generated_checkDeprecation_eq (c : Cfg) (k : Key) :
    run (Generated.checkDeprecation k) c = (.ok (checkDep c k), c) := by
  unfold Generated.checkDeprecation checkDep depKey
  simp only [run_bind, run_contains, has]
  cases h : Config.get c ("deprecated." ++ k) <;>
    simp [h, run_ite, run_bind, run_dataGet, run_pure]

/-- `__missing__(key)` as written in the source: the value under the redirected key, KeyError
when that is absent, too. -/
theorem generated_missing_eq (c : Cfg) (k : Key) :
    run (Generated.missing k) c =
      (match Config.get c (checkDep c k) with
        | some v => .ok v
        | none => .error .unknownName, c) := by
  unfold Generated.missing
  simp only [run_bind, generated_checkDeprecation_eq, run_contains, has]
  cases h : Config.get c (checkDep c k) <;>
    simp [h, run_ite, run_bind, run_dataGet, run_pure, run_throw]

/-- `defaults[key]` (`UserDict.__getitem__` + the generated `__missing__`) is the model's `getItem`. -/
theorem generated_getitem_eq (c : Cfg) (k : Key) :
    run (Generated.getitem k) c = (getItem c k, c) := by
  unfold Generated.getitem getitemWith getItem
  simp only [run_bind, run_contains, has]
  cases h : Config.get c k <;>
    simp [h, run_ite, run_dataGet, generated_missing_eq]
  cases Config.get c (checkDep c k) <;> rfl

/-- `defaults[key] = value` (`__setitem__`) as written in the source is the model's `setItem`. -/
theorem generated_setitem_eq (c : Cfg) (k : Key) (v : Val) :
    run (Generated.setitem k v) c = (.ok (), setItem c k v) := by
  unfold Generated.setitem setItem
  simp [run_bind, generated_checkDeprecation_eq, run_dataSet, run_pure]

/-- non-vacuity: a deprecated alias redirects a write and a read. -/
example : run (Generated.setitem "old" "5") [("deprecated.old", "new"), ("new", "1")]
    = (.ok (), [("new", "5"), ("deprecated.old", "new")]) := by decide +kernel
example : run (Generated.getitem "old") [("deprecated.old", "new"), ("new", "1")]
    = (.ok "1", [("deprecated.old", "new"), ("new", "1")]) := by decide +kernel
example : (run (Generated.getitem "nokey") [("new", "1")]).1 = .error .unknownName := by decide +kernel

/-- how the model reports the exception of `set_defaults`. -/
def outcomeOf : Option Err → Except Err Unit
  | none => .ok ()
  | some e => .error e

/-- `set_defaults(module, **keywords)` as written in the source is the model's `setDefaults`:
the same entries are assigned (through `__setitem__`, in order) before an unrecognised keyword
raises TypeError, and the same dictionary is left behind — for every dictionary, module name and
keyword list. -/
theorem generated_setDefaults_eq (c : Cfg) (m : String) (kvs : List (String × Val)) :
    run (Generated.setDefaults m kvs) c
      = (outcomeOf (setDefaults c m kvs).2, (setDefaults c m kvs).1) := by
  induction kvs generalizing c with
  | nil =>
    simp [Generated.setDefaults, run_bind, run_ite, run_pure, run_forIn_nil, setDefaults, outcomeOf]
  | cons kv rest ih =>
    obtain ⟨key, v⟩ := kv
    unfold Generated.setDefaults at ih ⊢
    simp only [run_bind, run_forIn_cons, run_pure, run_ite, run_contains, generated_setitem_eq] at ih ⊢
    simp only [Bool.not_true, Bool.false_eq_true, if_false] at ih ⊢
    cases h1 : has c (m ++ "." ++ key) <;> cases h2 : has c ("deprecated." ++ (m ++ "." ++ key)) <;>
      simp only [h1, h2, Bool.not_false, Bool.not_true, if_true, if_false, Bool.false_eq_true, ↓reduceIte,
        run_throw, setDefaults, depKey, Bool.and_self, Bool.and_false, Bool.false_and, Bool.and_true] <;>
      first | exact ih _ | rfl

example : run (Generated.setDefaults "m" [("a", "1"), ("zz", "2"), ("b", "3")]) [("m.a", "0"), ("m.b", "0")]
    = (.error .badArg, [("m.a", "1"), ("m.b", "0")]) := by decide +kernel

/-- the module tables `reset_defaults` applies, in the order of the source. -/
def resetTables : List String :=
  ["_control_defaults", "_ctrlplot_defaults", "_freqplot_defaults", "_nyquist_defaults",
   "_nichols_defaults", "_pzmap_defaults", "_rlocus_defaults", "_sisotool_defaults",
   "_iosys_defaults", "_xferfcn_defaults", "_statesp_defaults", "_optimal_defaults",
   "_timeplot_defaults", "_phaseplot_defaults"]

/-- `defaults.update(table)` (a loop over `defaults[k] = v`) is the model's `assignAll`. -/
theorem generated_update_eq (c : Cfg) (l : List (Key × Val)) :
    run (forIn l PUnit.unit fun x _ => do
        Generated.setitem x.fst x.snd
        pure (ForInStep.yield PUnit.unit)) c = (.ok PUnit.unit, assignAll c l) := by
  induction l generalizing c with
  | nil => rfl
  | cons e t ih =>
    obtain ⟨k, v⟩ := e
    simp only [run_forIn_cons, run_bind, generated_setitem_eq, run_pure, ih, assignAll]

/-- `reset_defaults()` as written in the source is `resetCode` of the model (the code as it
exists: every table is applied through `__setitem__`) on the concatenation of the module tables in
the order of the source — and therefore, by `C19.resetCode_eq_of_noDep`, the model's `reset` whenever
no import-time key has a `deprecated.` alias. -/
theorem generated_resetDefaults_eq (tbl : String → List (Key × Val)) (c : Cfg) :
    run (Generated.resetDefaults tbl) c = (.ok (), resetCode (resetTables.flatMap tbl) c) := by
  unfold Generated.resetDefaults
  simp only [run_bind, generated_update_eq, run_pure, resetCode, resetTables, List.flatMap_cons,
    List.flatMap_nil, assignAll_append, List.append_nil]

/-- … so the source text of `reset_defaults`, run on a dictionary without `deprecated.` aliases that
holds every import-time key, gives every import-time key the value the module tables assign
(the conclusion of `C19.reset_restores`, now about the function the source defines). -/
theorem generated_reset_restores (tbl : String → List (Key × Val)) (c : Cfg) (hnd : NoDep c)
    (hp : ∀ e ∈ resetTables.flatMap tbl, has c e.1 = true) (k : Key)
    (hk : k ∈ keys (resetTables.flatMap tbl)) :
    (run (Generated.resetDefaults tbl) c).1 = .ok () ∧
    get (run (Generated.resetDefaults tbl) c).2 k = getLast (resetTables.flatMap tbl) k ∧
    getLast (resetTables.flatMap tbl) k ≠ none := by
  rw [generated_resetDefaults_eq]
  refine ⟨rfl, ?_, fun h => (getLast_eq_none_iff _ k).mp h hk⟩
  show get (resetCode _ c) k = _
  rw [C19.resetCode_eq_of_noDep _ _ hnd hp, reset, get_putAll]
  cases h : getLast (resetTables.flatMap tbl) k with
  | some v => rfl
  | none => exact absurd hk ((getLast_eq_none_iff _ k).mp h)

example : run (Generated.resetDefaults fun n => if n = "_control_defaults" then [("control.default_dt", "0")]
      else if n = "_xferfcn_defaults" then [("xferfcn.display_format", "poly")] else [])
      [("control.default_dt", "T"), ("user", "1")]
    = (.ok (), [("xferfcn.display_format", "poly"), ("control.default_dt", "0"), ("user", "1")]) := by
  decide +kernel

end CtrlVerif.C19Gen
