/-
C07, source-text tie: the headline theorems of `Props/C07.lean` transported to the functions that
are regenerated from the source text of control/iosys.py and control/nlsys.py on every run
(`Generated/IC*.lean`, `harness/core/py2lean_ic.py`), through the equalities
`generated_parseSpec_eq` (`Props/C07GenParse.lean`), …  "Whatever the function *defined by the
source text* returns …".
-/
import CtrlVerif.Props.C07
import CtrlVerif.Props.C07GenParse
import CtrlVerif.Props.C07GenInit
import CtrlVerif.Props.C07GenOps
import CtrlVerif.Props.C07GenStatic

namespace CtrlVerif.C07Gen

open CtrlVerif.IC CtrlVerif.PyIC

variable {K : Type} [Field K] [DecidableEq K]

/-! ### part 1: `_parse_spec` -/

/-- whatever the `_parse_spec` of the source text returns names an existing subsystem and existing
signals of it, only (`C07.parseSpec_ok_inrange` transported). -/
theorem generated_parseSpec_ok_inrange (sigs : List SysSig) (v : Val K) (s : Spec K)
    (h : tokenize v = some s) (c : Site) (si : Int) (idxs : List Int) (g : K)
    (hr : Generated.icParseSpec sigs v c.signame c.dictname = .ok (si, idxs, g)) :
    ∃ S, 0 ≤ si ∧ sigs[si.toNat]? = some S ∧
      ∀ i ∈ idxs, 0 ≤ i ∧ i < ((S.labels c.dict).length : Int) := by
  rw [generated_parseSpec_eq sigs v s h c] at hr
  cases hp : parseSpec sigs c.dict s with
  | error e => rw [hp] at hr; cases hr
  | ok r =>
    obtain ⟨k, l, g'⟩ := r
    rw [hp] at hr
    simp only [map_ok, retSpec, Except.ok.injEq, Prod.mk.injEq] at hr
    obtain ⟨rfl, rfl, rfl⟩ := hr
    obtain ⟨S, hS, hl⟩ := C07.parseSpec_ok_inrange sigs c.dict s k l g' hp
    refine ⟨S, by omega, by simpa using hS, ?_⟩
    intro i hi
    simp only [List.mem_map] at hi
    obtain ⟨n, hn, rfl⟩ := hi
    have := hl n hn
    simp only [Int.ofNat_eq_natCast]
    omega

/-- a system index outside `0 … nsys-1` makes the `_parse_spec` of the source text raise, whatever
the rest of the tuple is (`C07.system_index_range_raises` transported; the unrepaired code indexed
`syslist` with it). -/
theorem generated_system_index_range_raises (sigs : List SysSig) (i : Int) (b c : Val K) (s : Spec K)
    (h : tokenize (.tuple [.int i, b, c]) = some s) (site : Site)
    (hi : i < 0 ∨ (sigs.length : Int) ≤ i) :
    ∃ e, Generated.icParseSpec sigs (.tuple [.int i, b, c]) site.signame site.dictname = .error e := by
  rw [generated_parseSpec_eq sigs _ s h site]
  obtain ⟨-, -, h'⟩ := tokTriple_inv (show tokTriple (.int i) b c = some s from h)
  rcases h' with ⟨ha, -⟩ | ⟨sys, sneg, sig, gneg, g, ha, -, -, rfl⟩
  · simp [tokSys] at ha
  · simp only [tokSys, Option.some.injEq, Prod.mk.injEq] at ha
    obtain ⟨rfl, rfl⟩ := ha
    obtain ⟨e, he⟩ := C07.system_index_range_raises (K := K) sigs site.dict i false gneg sig g hi
    exact ⟨e, by rw [he]; rfl⟩

/-- a list of signal indices with an entry outside the signal range — at ANY position — makes the
`_parse_spec` of the source text raise (`C07.signal_index_range_raises` transported; seeded change
C07-m1 checked the two ends only). -/
theorem generated_signal_index_range_raises (sigs : List SysSig) (a c : Val K) (l : List Int)
    (s : Spec K) (h : tokenize (.tuple [a, .list (l.map .int), c]) = some s) (site : Site)
    (hl : ∀ S ∈ sigs, ∃ i ∈ l, i < 0 ∨ ((S.labels site.dict).length : Int) ≤ i) :
    ∃ e, Generated.icParseSpec sigs (.tuple [a, .list (l.map .int), c]) site.signame site.dictname
      = .error e := by
  rw [generated_parseSpec_eq sigs _ s h site]
  obtain ⟨-, -, h'⟩ := tokTriple_inv (show tokTriple a (.list (l.map .int)) c = some s from h)
  rcases h' with ⟨-, rfl⟩ | ⟨sys, sneg, sig, gneg, g, -, hb, -, rfl⟩
  · exact ⟨_, rfl⟩
  · have : sig = .idxs l ∧ gneg = false := by
      rw [tokSig_ints] at hb
      simp only [Option.some.injEq, Prod.mk.injEq] at hb
      exact ⟨hb.1.symm, hb.2.symm⟩
    obtain ⟨rfl, rfl⟩ := this
    obtain ⟨e, he⟩ := C07.signal_index_range_raises (K := K) sigs site.dict sys sneg false l g hl
    exact ⟨e, by rw [he]; rfl⟩

/-- `'-sys.sig'` / `('-sys', sig)` and an explicit gain `-1` are the same specification for the
`_parse_spec` of the source text (`C07.spelling_neg` transported): any two Python values that the
harness tokenises to these two forms. -/
theorem generated_spelling_neg (sigs : List SysSig) (v v' : Val K) (sys : SysRef) (sig : SigRef)
    (h : tokenize v = some (.mk sys true sig false none))
    (h' : tokenize v' = some (.mk sys false sig false (some (-1)))) (c : Site) :
    Generated.icParseSpec sigs v c.signame c.dictname = Generated.icParseSpec sigs v' c.signame c.dictname := by
  rw [generated_parseSpec_eq sigs v _ h c, generated_parseSpec_eq sigs v' _ h' c,
    (C07.spelling_neg sigs c.dict sys sig).1]

/-- an explicitly given gain is the gain the `_parse_spec` of the source text returns, `0` included
(`C07.explicit_gain_kept` transported; seeded change C07-m4 turned an explicit `0` into `1`). -/
theorem generated_explicit_gain_kept (sigs : List SysSig) (v : Val K) (sys : SysRef) (sig : SigRef)
    (g : K) (h : tokenize v = some (.mk sys false sig false (some g))) (c : Site)
    (si : Int) (idxs : List Int) (g' : K)
    (hr : Generated.icParseSpec sigs v c.signame c.dictname = .ok (si, idxs, g')) : g' = g := by
  rw [generated_parseSpec_eq sigs v _ h c] at hr
  cases hp : parseSpec sigs c.dict (.mk sys false sig false (some g)) with
  | error e => rw [hp] at hr; cases hr
  | ok r =>
    obtain ⟨k, l, g''⟩ := r
    rw [hp] at hr
    simp only [map_ok, retSpec, Except.ok.injEq, Prod.mk.injEq] at hr
    obtain ⟨-, -, rfl⟩ := hr
    exact C07.explicit_gain_kept sigs c.dict sys sig g k l _ hp

/-! non-vacuity: the generated function on concrete Python values (ℚ, two subsystems `P` with
inputs `u[0] u[1]`, outputs `y`, and `C` with input `e`, output `u[0] u[1]`). -/

def lab (raw : String) : Label := ⟨raw, none⟩
def labI (b : String) (n : Nat) : Label := ⟨b ++ "[" ++ toString n ++ "]", some (b, n)⟩

def sigsPC : List SysSig :=
  [⟨"P", [labI "u" 0, labI "u" 1], [lab "y"]⟩, ⟨"C", [lab "e"], [labI "u" 0, labI "u" 1]⟩]

/-- `(1, 0, 2.0)` at an output site: subsystem 1, signal 0, gain 2. -/
example : Generated.icParseSpec (K := ℚ) sigsPC (.tuple [.int 1, .int 0, .num 2]) "output" none
    = .ok (1, [0], 2) :=
  (generated_parseSpec_eq (K := ℚ) sigsPC _ _ rfl Site.output).trans (by decide +kernel)

/-- `'-C.u'` (tokens: pieces `-C`, `u` with base name `u`): both outputs of `C`, gain `-1`. -/
example : Generated.icParseSpec (K := ℚ) sigsPC
    (.str ⟨"-C.u", .exact "-C.u", [("-C", .exact "-C"), ("u", .base "u")]⟩) "output" none
    = .ok (1, [0, 1], -1) :=
  (generated_parseSpec_eq (K := ℚ) sigsPC _ _ rfl Site.output).trans (by decide +kernel)

/-- `(0, [0, 2])`: the second index is out of range (subsystem `P` has two inputs). -/
example : Generated.icParseSpec (K := ℚ) sigsPC (.tuple [.int 0, .list [.int 0, .int 2]]) "input" none
    = .error .indexRange :=
  (generated_parseSpec_eq (K := ℚ) sigsPC _ _ rfl Site.input).trans (by decide +kernel)

/-- `('-P', 0, 2)`: the gain is given twice. -/
example : Generated.icParseSpec (K := ℚ) sigsPC
    (.tuple [.str ⟨"-P", .exact "-P", []⟩, .int 0, .int 2]) "input" none = .error .badArg :=
  (generated_parseSpec_eq (K := ℚ) sigsPC _ _ rfl Site.input).trans (by decide +kernel)

/-! ### part 3: the operator forms — the arrays the source-text operators return, read as a wiring of
the stacked operands, are C02's state-space operators (`C07.op*_linear` transported) -/

/-- three NumPy arrays (`connect_map`, `input_map`, `output_map`) as a `Wiring`. -/
def wiringOfArrays (nu ny nin nout : Nat) (Kc : Matrix (Fin nu) (Fin ny) K) (M : Matrix (Fin nu) (Fin nin) K)
    (O : Matrix (Fin nout) (Fin (ny + nu)) K) : Wiring (Fin nu) (Fin ny) (Fin nin) (Fin nout) K where
  Kc := Kc
  M := M
  Oy := fun i j => O i (Fin.castAdd nu j)
  Ou := fun i j => O i (Fin.natAdd ny j)

variable {σ σ₁ σ₂ : Type*} [Fintype σ] [Fintype σ₁] [Fintype σ₂]

/-- incompatible sizes: the source-text `__add__` raises (`C07.opParallel_shape_raises`). -/
theorem generated_add_shape_raises (S₁ S₂ : SysSig) (h : S₁.nin ≠ S₂.nin ∨ S₁.nout ≠ S₂.nout) :
    Generated.icAdd (K := K) S₁ S₂ = .error .shape := by
  rw [generated_add_eq, opAdd, C07.opParallel_shape_raises S₁ S₂ none h]; rfl

theorem generated_mul_shape_raises (S O : SysSig) (h : O.nout ≠ S.nin) :
    Generated.icMul (K := K) S O = .error .shape := by
  rw [generated_mul_eq, C07.opSeries_shape_raises O S h]; rfl

theorem generated_feedback_shape_raises (S₁ S₂ : SysSig) (sign : K)
    (h : S₁.nout ≠ S₂.nin ∨ S₂.nout ≠ S₁.nin) :
    Generated.icFeedback S₁ S₂ sign = .error .shape := by
  rw [generated_feedback_eq, C07.opFeedback_shape_raises S₁ S₂ sign h]; rfl

/-- **the source-text `__add__` on linear operands is `StateSpace.__add__`** for operands of any
sizes `m`, `p` (seeded change C07-m3 sized the output list by `ninputs`). -/
theorem generated_add_linear (S₁ S₂ : SysSig) (m p : Nat) (h1 : S₁.nin = m) (h2 : S₂.nin = m)
    (h3 : S₁.nout = p) (h4 : S₂.nout = p) (G₁ : SS σ₁ (Fin m) (Fin p) K) (G₂ : SS σ₂ (Fin m) (Fin p) K) :
    ∃ Kc M O, Generated.icAdd (K := K) S₁ S₂
        = .ok (⟨m + m, p + p, Kc⟩, ⟨m + m, m, M⟩, ⟨p, p + p + (m + m), O⟩) ∧
      ((wiringOfArrays (m + m) (p + p) m p Kc M O).reindex finSumFinEquiv finSumFinEquiv
          (Equiv.refl _) (Equiv.refl _)).linearIC (G₁.append G₂) 1 = G₁.add G₂ := by
  refine ⟨_, _, _, ?_, C07.opAdd_linear m p G₁ G₂⟩
  rw [generated_add_eq, opAdd, C07.opParallel_maps S₁ S₂ m p h1 h2 h3 h4 none]; rfl

/-- the source-text `__sub__` on linear operands is `sys1 + (-sys2)`. -/
theorem generated_sub_linear (S₁ S₂ : SysSig) (m p : Nat) (h1 : S₁.nin = m) (h2 : S₂.nin = m)
    (h3 : S₁.nout = p) (h4 : S₂.nout = p) (G₁ : SS σ₁ (Fin m) (Fin p) K) (G₂ : SS σ₂ (Fin m) (Fin p) K) :
    ∃ Kc M O, Generated.icSub (K := K) S₁ S₂
        = .ok (⟨m + m, p + p, Kc⟩, ⟨m + m, m, M⟩, ⟨p, p + p + (m + m), O⟩) ∧
      ((wiringOfArrays (m + m) (p + p) m p Kc M O).reindex finSumFinEquiv finSumFinEquiv
          (Equiv.refl _) (Equiv.refl _)).linearIC (G₁.append G₂) 1 = G₁.add G₂.neg := by
  refine ⟨_, _, _, ?_, C07.opSub_linear m p G₁ G₂⟩
  rw [generated_sub_eq, opSub, C07.opParallel_maps S₁ S₂ m p h1 h2 h3 h4 (some (-1))]; rfl

/-- the source-text `__mul__` (`self * other`, `other` first) on linear operands is
`StateSpace.__mul__`. -/
theorem generated_mul_linear (S O : SysSig) (m q p : Nat) (h1 : O.nin = m) (h2 : O.nout = q)
    (h3 : S.nin = q) (h4 : S.nout = p) (G₁ : SS σ₁ (Fin m) (Fin q) K) (G₂ : SS σ₂ (Fin q) (Fin p) K) :
    ∃ Kc M Om, Generated.icMul (K := K) S O
        = .ok (⟨m + q, q + p, Kc⟩, ⟨m + q, m, M⟩, ⟨p, q + p + (m + q), Om⟩) ∧
      ((wiringOfArrays (m + q) (q + p) m p Kc M Om).reindex finSumFinEquiv finSumFinEquiv
          (Equiv.refl _) (Equiv.refl _)).linearIC (G₁.append G₂) (Matrix.fromBlocks 1 0 G₁.D 1)
        = G₂.mul G₁ := by
  refine ⟨_, _, _, ?_, C07.opSeries_linear m q p G₁ G₂⟩
  rw [generated_mul_eq, C07.opSeries_maps O S m q p h1 h2 h3 h4]; rfl

/-- the source-text `__neg__` on a linear operand is `StateSpace.__neg__`. -/
theorem generated_neg_linear (S : SysSig) (m p : Nat) (h1 : S.nin = m) (h3 : S.nout = p)
    (G : SS σ (Fin m) (Fin p) K) :
    ∃ Kc M O, Generated.icNeg (K := K) S = .ok (⟨m, p, Kc⟩, ⟨m, m, M⟩, ⟨p, p + m, O⟩) ∧
      (wiringOfArrays m p m p Kc M O).linearIC G 1 = G.neg := by
  refine ⟨_, _, _, ?_, C07.opNeg_linear m p G⟩
  rw [generated_neg_eq, C07.opNeg_maps S m p h1 h3]; rfl

/-- the source-text `feedback` on linear operands is `StateSpace.feedback` (well-posed loop), any
sign. -/
theorem generated_feedback_linear (S₁ S₂ : SysSig) (m p : Nat) (sign : K) (h1 : S₁.nin = m)
    (h2 : S₁.nout = p) (h3 : S₂.nin = p) (h4 : S₂.nout = m) (G₁ : SS σ₁ (Fin m) (Fin p) K)
    (G₂ : SS σ₂ (Fin p) (Fin m) K) (E : Matrix (Fin m) (Fin m) K)
    (hE : E * (1 - sign • (G₂.D * G₁.D)) = 1) :
    ∃ Kc M O, Generated.icFeedback S₁ S₂ sign
        = .ok (⟨m + p, p + m, Kc⟩, ⟨m + p, m, M⟩, ⟨p, p + m + (m + p), O⟩) ∧
      ((wiringOfArrays (m + p) (p + m) m p Kc M O).reindex finSumFinEquiv finSumFinEquiv
          (Equiv.refl _) (Equiv.refl _)).linearIC (G₁.append G₂) (Wiring.feedbackE G₁.D G₂.D sign E)
        = G₁.feedback G₂ sign E := by
  refine ⟨_, _, _, ?_, C07.opFeedback_linear m p sign G₁ G₂ E hE⟩
  rw [generated_feedback_eq, C07.opFeedback_maps S₁ S₂ m p sign h1 h2 h3 h4]; rfl

/-- non-vacuity: `F + G` for a 1-input 2-output pair returns 2 outputs; a size mismatch raises. -/
example : ∃ r, Generated.icAdd (K := ℚ) ⟨"f", [lab "u"], [lab "y0", lab "y1"]⟩
    ⟨"g", [lab "u"], [lab "y0", lab "y1"]⟩ = .ok r ∧ r.2.2.r = 2 := by
  obtain ⟨Kc, M, O, h, -⟩ := generated_add_linear (K := ℚ) (σ₁ := Fin 0) (σ₂ := Fin 0)
    ⟨"f", [lab "u"], [lab "y0", lab "y1"]⟩ ⟨"g", [lab "u"], [lab "y0", lab "y1"]⟩ 1 2 rfl rfl rfl rfl
    ⟨0, 0, 0, 0⟩ ⟨0, 0, 0, 0⟩
  exact ⟨_, h, rfl⟩

example : Generated.icAdd (K := ℚ) ⟨"f", [lab "u"], [lab "y0", lab "y1"]⟩
    ⟨"g", [lab "u", lab "v"], [lab "y0"]⟩ = .error .shape :=
  generated_add_shape_raises _ _ (.inl (by decide))

/-! ### part 4: `_compute_static_io` — `C07.staticIO_sound` and `C07.staticLoop_raises_iff` transported -/

/-- **whatever the `_compute_static_io` of the source text returns solves the signal-flow equations**
`y = h(u)`, `u = connect_map · y + input_map · w`, whatever the subsystem output functions are (linear
or not); `ylist` is `y` followed by `u`. -/
theorem generated_computeStaticIO_sound (fuel : Nat) (cm im : PMat K) (subs : List (Subsys K)) (t : K)
    (x u : List K) (hcr : cm.r = sumIn subs) (hcc : cm.c = sumOut subs) (hir : im.r = cm.r)
    (hic : im.c = u.length) (hout : ∀ S ∈ subs, ∀ xs us, (S.out t xs us).length = S.noutputs)
    (hfuel : subs.length + 2 ≤ fuel) (ul yl : List K)
    (h : Generated.icComputeStaticIO fuel cm im subs t x u = .ok (ul, yl)) :
    yl = hOut subs t x ul ++ ul ∧
      ul = List.zipWith (· + ·) (matVecT cm (hOut subs t x ul)) (matVecT im u) := by
  rw [generated_computeStaticIO_eq fuel cm im subs t x u hcr hcc hir hic hout hfuel] at h
  cases hs : staticIO subs.length (hOut subs t x) (matVecT cm) (List.zipWith (· + ·)) (matVecT im u) with
  | error e => rw [hs] at h; cases h
  | ok r =>
    obtain ⟨u', y⟩ := r
    rw [hs] at h
    simp only [map_ok, Except.ok.injEq, Prod.mk.injEq] at h
    obtain ⟨rfl, rfl⟩ := h
    obtain ⟨h1, h2⟩ := C07.staticIO_sound subs.length (hOut subs t x) (matVecT cm)
      (List.zipWith (· + ·)) (matVecT im u) u' y hs
    subst h1
    exact ⟨rfl, h2⟩

/-- the `_compute_static_io` of the source text raises "algebraic loop detected" exactly when none of
the first `nsys + 1` iterates of the propagation step is a fixed point (`C07.staticLoop_raises_iff`
transported: the budget of the source text is `nsys + 1` cycles). -/
theorem generated_computeStaticIO_raises_iff (fuel : Nat) (cm im : PMat K) (subs : List (Subsys K))
    (t : K) (x u : List K) (hcr : cm.r = sumIn subs) (hcc : cm.c = sumOut subs) (hir : im.r = cm.r)
    (hic : im.c = u.length) (hout : ∀ S ∈ subs, ∀ xs us, (S.out t xs us).length = S.noutputs)
    (hfuel : subs.length + 2 ≤ fuel) :
    Generated.icComputeStaticIO fuel cm im subs t x u = .error .illPosed ↔
      ∀ k, k < subs.length + 1 →
        stepU cm im subs t x u ((stepU cm im subs t x u)^[k] (matVecT im u))
          ≠ (stepU cm im subs t x u)^[k] (matVecT im u) := by
  rw [generated_computeStaticIO_eq fuel cm im subs t x u hcr hcc hir hic hout hfuel,
    ← C07.staticLoop_raises_iff]
  simp only [staticIO]
  show Except.map _ (Except.map _ (staticLoop (stepU cm im subs t x u) _ _)) = _ ↔ _
  cases staticLoop (stepU cm im subs t x u) (subs.length + 1) (matVecT im u) <;> simp

/-! non-vacuity: a static gain `y = 2u` fed by the external input; a direct feedthrough loop. -/

def gain2 : Subsys ℚ := ⟨0, 1, 1, fun _ _ us => [2 * us.headD 0], fun _ _ _ => []⟩

example : Generated.icComputeStaticIO 3 (PMat.zeros 1 1) ⟨1, 1, 1⟩ [gain2] 0 [] [3] = .ok ([3], [6, 3]) := by
  rw [generated_computeStaticIO_eq 3 (PMat.zeros 1 1) ⟨1, 1, 1⟩ [gain2] 0 [] [3] rfl rfl rfl rfl
    (by intro S hS xs us; simp at hS; subst hS; rfl) (by decide)]
  decide +kernel

/-- `u = y + w`, `y = u`: no fixed point within two cycles, "algebraic loop detected". -/
def wire : Subsys ℚ := ⟨0, 1, 1, fun _ _ us => [us.headD 0], fun _ _ _ => []⟩

example : Generated.icComputeStaticIO 3 ⟨1, 1, 1⟩ ⟨1, 1, 1⟩ [wire] 0 [] [1] = .error .illPosed := by
  rw [generated_computeStaticIO_eq 3 ⟨1, 1, 1⟩ ⟨1, 1, 1⟩ [wire] 0 [] [1] rfl rfl rfl rfl
    (by intro S hS xs us; simp at hS; subst hS; rfl) (by decide)]
  decide +kernel

end CtrlVerif.C07Gen
