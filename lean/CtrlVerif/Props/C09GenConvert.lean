/-
Source-text tie of C09, part 1: the operand conversion `_convert_to_frd` (control/frdata.py).
`Generated/FRDConvert.lean` is rewritten from the source on every run (harness/core/py2lean_frd.py);
the theorems below prove the run-time model's `DFRD.convert` (`Model/FRDDyn.lean`) EQUAL to the
generated function for every kind of operand: an FRD object (same grid up to `_epsw`: returned as it
is; another grid length or a frequency off by `_epsw` or more: `NotImplementedError`), a number
(constant `outputs × inputs` response), a 2-D array (constant response, filled by the double loop
`frdata[i, j, :] = sys[i, j]`), a TransferFunction / StateSpace (evaluated at `jω` / `exp(jω dt)`).

The model deliberately deviates from the code on grids with fewer than two points (the code builds
converted constants / LTI systems with `smooth=True`, which raises) and on non-ascending grids (the
code evaluates an LTI operand on `np.sort(omega)`): known findings `C09-single-frequency-conversion`,
`C09-unsorted-grid-conversion`.  The equalities are therefore stated under `GridOK` (`Lemmas/PyFRD`):
nothing for an FRD operand, `2 ≤ n` for constants, `2 ≤ n` and an ascending grid for LTI operands;
the theorems `generated_convert_*_short_grid` state what the code does on the excluded grids.
-/
import CtrlVerif.Generated.FRDConvert
import CtrlVerif.Lemmas.PyFRD

set_option linter.unusedSimpArgs false

namespace CtrlVerif.C09Gen

open Matrix CtrlVerif

variable {K : Type} [Field K] [DecidableEq K]

/-- an FRD operand: the grids are compared index by index with `_epsw = 1e-8`. -/
theorem generated_convert_frd (E : Env K) {n : Nat} (omega : Fin n → ℚ) (F : PyFRD K) (inputs outputs : Nat) :
    Generated.convertToFrd E (.frd F) ⟨n, omega⟩ inputs outputs
      = (DFRD.convert E omega outputs inputs (.frd F.n F.d)).map fun H => PyFRD.of H F.dt := by
  obtain ⟨n', ⟨p, m, ⟨w, d⟩, sm⟩, dt⟩ := F
  by_cases h : n' = n
  · subst h
    simp [Generated.convertToFrd, DFRD.convert, PyFRD.omega, FRD.gridMatch, bind, Except.bind, pure, Except.pure,
      PyFRD.of]
    by_cases hg : ∀ k, |omega k - w k| < 100000000⁻¹
    · simp [hg, Except.map]
    · simp [hg, Except.map, throw, throwThe, MonadExceptOf.throw]
  · have h' : ¬ n = n' := fun e => h e.symm
    simp [Generated.convertToFrd, DFRD.convert, PyFRD.omega, h, h', bind, Except.bind, pure, Except.pure,
      Except.map, throw, throwThe, MonadExceptOf.throw]

/-- a number: the constant `outputs × inputs` response (`ones((outputs, inputs, n)) * sys`). -/
theorem generated_convert_scalar (E : Env K) {n : Nat} (omega : Fin n → ℚ) (c : K) (inputs outputs : Nat)
    (hn : 2 ≤ n) :
    Generated.convertToFrd E (.scalar c) ⟨n, omega⟩ inputs outputs
      = (DFRD.convert E omega outputs inputs (.scalar c)).map fun H => PyFRD.of H .none := by
  simp only [Generated.convertToFrd, DFRD.convert, PArr3.ones_def, PArr3.mulNum_mk, bind, Except.bind]
  rw [PyFRD.ctor_mk_two _ _ _ _ _ _ _ hn]
  simp only [Except.map, PyFRD.of, DFRD.constD, FRD.const]
  congr 6
  funext k
  ext i j
  simp

/-- a 2-D array: the constant response, every `frdata[i, j, :]` filled by the double loop. -/
theorem generated_convert_array (E : Env K) {n : Nat} (omega : Fin n → ℚ) (r c : Nat)
    (M : Matrix (Fin r) (Fin c) K) (inputs outputs : Nat) (hn : 2 ≤ n) :
    Generated.convertToFrd E (.array r c M) ⟨n, omega⟩ inputs outputs
      = (DFRD.convert E omega outputs inputs (.array r c M)).map fun H => PyFRD.of H .none := by
  simp only [Generated.convertToFrd, DFRD.convert, PArr3.empty_def, bind, pure, Except.pure]
  have loop := PArr3.foldlM_setFiber r c n M
    (fun A i j => (PMat.get ⟨r, c, M⟩ i j).bind fun t => PArr3.setFiber A i j t)
    (by
      intro d i j hi hj
      simp [PMat.get, hi, hj, Except.bind, PArr3.setFiber_mk _ _ _ _ _ _ hi hj])
    (fun _ => 0)
  simp only [Except.bind] at loop ⊢
  rw [loop]
  simp only [PyFRD.ctor_mk_two _ _ _ _ _ _ _ hn]
  rfl

/-- a TransferFunction / StateSpace operand: evaluated on the grid, at `jω` for `isctime()`, at
`exp(jω dt)` otherwise; a pole on the grid is an error. -/
theorem generated_convert_lti (E : Env K) {n : Nat} (omega : Fin n → ℚ) (L : LTI K) (inputs outputs : Nat)
    (hn : 2 ≤ n) (hasc : Monotone omega) :
    Generated.convertToFrd E (.lti L) ⟨n, omega⟩ inputs outputs
      = (DFRD.convert E omega outputs inputs (.lti L)).map fun H => PyFRD.of H L.dt := by
  simp only [Generated.convertToFrd]
  rw [FVec.sort_of_monotone omega hasc]
  rcases L with ⟨p, m, e, dt⟩ | ⟨ns, p, m, G, dt⟩ <;> cases dt <;>
    simp [DFRD.convert, DFRD.ofLTI, bind, PyLTI.isctime, PyLTI.call, FVec.jw, LTI.dt, FVec.expj, freqPoint,
      Except.bind] <;>
    split_ifs with hs <;> simp [hs, Except.map, PyFRD.of, FRD.ofFun, LTI.p, LTI.m] <;>
    exact PyFRD.ctor_mk_two _ _ _ _ _ _ _ hn

/-- **`_convert_to_frd`**: on the grids where the model documents its agreement with the code
(`GridOK`) the function the source text defines is the model's `DFRD.convert`; the converted operand
carries its own timebase (`None` for a constant). -/
theorem generated_convert_eq (E : Env K) {n : Nat} (omega : Fin n → ℚ) (x : PyOpd K) (inputs outputs : Nat)
    (h : GridOK omega x) :
    Generated.convertToFrd E x ⟨n, omega⟩ inputs outputs
      = (DFRD.convert E omega outputs inputs x.erase).map fun H => PyFRD.of H x.dt := by
  cases x with
  | frd F => exact generated_convert_frd E omega F inputs outputs
  | scalar c => exact generated_convert_scalar E omega c inputs outputs h
  | array r c M => exact generated_convert_array E omega r c M inputs outputs h
  | lti L => exact generated_convert_lti E omega L inputs outputs h.1 h.2

/-- whatever `_convert_to_frd` returns carries the operand's timebase (`None` for a constant). -/
theorem generated_convert_dt (E : Env K) (x : PyOpd K) (w : FVec) (inputs outputs : Nat) (H : PyFRD K)
    (h : Generated.convertToFrd E x w inputs outputs = .ok H) : H.dt = x.dt := by
  cases x with
  | frd F =>
    simp only [Generated.convertToFrd, bind, Except.bind, pure, Except.pure] at h
    split at h
    · exact absurd h (by simp)
    · split at h
      · injection h with h; subst h; rfl
      · exact absurd h (by simp [throw, throwThe, MonadExceptOf.throw])
  | scalar c =>
    simp only [Generated.convertToFrd, bind, Except.bind] at h
    exact PyFRD.ctor_ok_dt h
  | array r c M =>
    simp only [Generated.convertToFrd, bind, Except.bind, pure, Except.pure] at h
    split at h
    · rename_i v hv
      injection h with h; subst h
      split at hv
      · exact absurd hv (by simp)
      · exact PyFRD.ctor_ok_dt hv
    · exact absurd h (by simp [throw, throwThe, MonadExceptOf.throw])
  | lti L =>
    simp only [Generated.convertToFrd, bind, Except.bind, pure, Except.pure] at h
    split at h
    · exact absurd h (by simp)
    · exact PyFRD.ctor_ok_dt h

/-- the shape of every dispatching method: convert the operand, then a core on two FRD objects.  If the
generated core is the model's core (with the timebase `d`) on every operand the conversion can
return, the generated method is the model's operator. -/
theorem generated_convert_bind (E : Env K) {n : Nat} (omega : Fin n → ℚ) (x : PyOpd K) (inputs outputs : Nat)
    (h : GridOK omega x) (core : PyFRD K → Except Err (PyFRD K)) (mcore : DFRD K n → Except Err (DFRD K n))
    (d : Dt)
    (hcore : ∀ H, DFRD.convert E omega outputs inputs x.erase = .ok H →
      core (PyFRD.of H x.dt) = (mcore H).map fun R => PyFRD.of R d) :
    (Generated.convertToFrd E x ⟨n, omega⟩ inputs outputs).bind core
      = ((DFRD.convert E omega outputs inputs x.erase).bind mcore).map fun R => PyFRD.of R d := by
  rw [generated_convert_eq E omega x inputs outputs h, Except.bind_map', Except.map_bind']
  cases hc : DFRD.convert E omega outputs inputs x.erase with
  | error e => rfl
  | ok H => exact hcore H hc

/-- the shape of a converted operand. -/
theorem convert_shape (E : Env K) {n : Nat} (omega : Fin n → ℚ) (x : PyOpd K) (p m : Nat) (H : DFRD K n)
    (h : DFRD.convert E omega p m x.erase = .ok H) :
    (H.p, H.m) = match x with
      | .frd F => (F.d.p, F.d.m)
      | .scalar _ => (p, m)
      | .array p' m' _ => (p', m')
      | .lti L => (L.p, L.m) := by
  cases x with
  | frd F =>
    obtain ⟨n', F, dt⟩ := F
    simp only [PyOpd.erase, DFRD.convert] at h
    split at h
    · split at h
      · injection h with h; subst h; rfl
      · exact absurd h (by simp)
    · exact absurd h (by simp)
  | scalar c => simp only [PyOpd.erase, DFRD.convert] at h; injection h with h; subst h; rfl
  | array p' m' D => simp only [PyOpd.erase, DFRD.convert] at h; injection h with h; subst h; rfl
  | lti L =>
    simp only [PyOpd.erase, DFRD.convert, DFRD.ofLTI] at h
    split at h
    · exact absurd h (by simp)
    · injection h with h; subst h; rfl

/-- a converted operand has no empty dimension when the operand has none. -/
theorem convert_pos (E : Env K) {n : Nat} (omega : Fin n → ℚ) (x : PyOpd K) (p m : Nat) (H : DFRD K n)
    (h : DFRD.convert E omega p m x.erase = .ok H) (hx : x.NonEmpty) (hp : 0 < p) (hm : 0 < m) :
    0 < H.p ∧ 0 < H.m := by
  have := convert_shape E omega x p m H h
  cases x <;> simp only [Prod.mk.injEq] at this <;> rw [this.1, this.2]
  · exact hx
  · exact ⟨hp, hm⟩
  · exact hx
  · exact hx

/-- on a grid of fewer than two points the CODE raises for a constant or LTI operand (`smooth=True`,
"can't smooth with only 1 frequency"; for an array the `except Exception: pass` turns it into the
final `TypeError`) where the model converts: finding `C09-single-frequency-conversion`. -/
theorem generated_convert_short_grid (E : Env K) {n : Nat} (omega : Fin n → ℚ) (x : PyOpd K)
    (inputs outputs : Nat) (hx : ∀ F, x ≠ .frd F) (hn : n < 2) :
    ∃ e, Generated.convertToFrd E x ⟨n, omega⟩ inputs outputs = .error e := by
  cases x with
  | frd F => exact absurd rfl (hx F)
  | scalar c =>
    refine ⟨.shape, ?_⟩
    simp [Generated.convertToFrd, PyFRD.ctor_mk, hn, bind, Except.bind]
  | array r c M =>
    refine ⟨.notImplemented, ?_⟩
    simp only [Generated.convertToFrd, bind, pure, Except.pure]
    split
    · rename_i v hv
      simp only [Except.bind] at hv
      split at hv
      · exact absurd hv (by simp)
      · rename_i A hA
        obtain ⟨p', m', n', d'⟩ := A
        simp only [PyFRD.ctor] at hv
        split at hv
        · rename_i hlen
          have hlen' : n = n' := hlen
          subst hlen'
          simp [hn] at hv
        · exact absurd hv (by simp)
    · rfl
  | lti L =>
    have key : ∀ (A : PArr3 K), A.n = n → ∃ e, PyFRD.ctor A (FVec.sort ⟨n, omega⟩) L.dt true = .error e := by
      intro A hA
      obtain ⟨p', m', n', d'⟩ := A
      simp only at hA
      subst hA
      refine ⟨.shape, ?_⟩
      simp [PyFRD.ctor, hn]
    simp only [Generated.convertToFrd, bind, pure, Except.pure, PyLTI.call]
    cases hd : PyLTI.isctime L <;> simp only [Except.bind, if_true, if_false, Bool.false_eq_true]
    · cases he : FVec.expj E (FVec.sort ⟨n, omega⟩) L.dt with
      | error e => exact ⟨e, rfl⟩
      | ok pts =>
        have hp : pts.n = n := by
          cases hdt : L.dt <;> rw [hdt] at he <;> simp [FVec.expj] at he <;> subst he <;> simp
        simp only
        split_ifs
        · exact ⟨_, rfl⟩
        · exact key _ hp
    · split_ifs
      · exact ⟨_, rfl⟩
      · exact key _ (by simp [FVec.jw])

end CtrlVerif.C09Gen
