/-
C15 — State transformations and model reduction keep what they promise.

`G.Resp s Y` : "Y is the value of the transfer matrix of G at s" (Lemmas/SS.lean).  `K` is an
arbitrary field; state / input / output index types are arbitrary finite types (canonical forms:
SISO with states `Fin n`, any `n`).  External routines appear as arguments with their contract as
a hypothesis: the inverses `Ti`, `Wi`, `Wzi`, `A22i` (what `numpy.linalg.solve` applies) with
`T * Ti = 1` etc.; the coefficient function `a` of `numpy.poly(A)` with `a₀ ≠ 0` and
`(a₀ Aⁿ + … + a_n) B = 0`, which Cayley–Hamilton gives for the characteristic polynomial
(`charpoly_contract`).
-/
import CtrlVerif.Lemmas.Canonical
import CtrlVerif.Lemmas.Minreal
import CtrlVerif.Lemmas.CanonicalDyn
import CtrlVerif.Props.C02

namespace CtrlVerif.C15

open CtrlVerif Matrix SS

variable {K : Type*} [Field K]
variable {σ ι o κ ε ι' o' : Type*}
variable [Fintype σ] [DecidableEq σ]

/-! concrete data for the non-vacuity examples -/
private def Gex : SS (Fin 2) (Fin 1) (Fin 1) ℚ := ⟨!![0, 1; -2, -3], !![0; 1], !![1, 0], !![2]⟩
private def aex : Nat → ℚ := fun k => [1, 3, 2].getD k 0
private def Gun : DSS ℚ := ⟨2, 1, 1, ⟨!![-1, 0; 0, -2], !![1; 0], !![1, 1], !![0]⟩, .cont⟩

/-! ### `similarity_transform` -/

/-- pure time rescaling `A/c, B/c`: `G_new(s) = G(c s)`. -/
theorem timescale_resp (G : SS σ ι o K) (c : K) (hc : c ≠ 0) (s : K) (Y : Matrix o ι K) :
    (⟨c⁻¹ • G.A, c⁻¹ • G.B, G.C, G.D⟩ : SS σ ι o K).Resp s Y ↔ G.Resp (c * s) Y := by
  have key : (c * s) • (1 : Matrix σ σ K) - G.A = c • (s • (1 : Matrix σ σ K) - c⁻¹ • G.A) := by
    rw [smul_sub, smul_smul, smul_smul, mul_inv_cancel₀ hc, one_smul]
  constructor
  · rintro ⟨X, hX, rfl⟩
    refine ⟨X, ?_, rfl⟩
    rw [key, Matrix.smul_mul, hX, smul_smul, mul_inv_cancel₀ hc, one_smul]
  · rintro ⟨X, hX, rfl⟩
    refine ⟨X, ?_, rfl⟩
    rw [key, Matrix.smul_mul] at hX
    have := congrArg (fun M => c⁻¹ • M) hX
    simpa [smul_smul, inv_mul_cancel₀ hc] using this

/-- the `z = T x` relations between the matrices `similarity_transform` returns and the original
ones (`inverse=False`). -/
theorem similarity_relations (G : SS σ ι o K) (T Ti : Matrix σ σ K) (c : K) (hT : T * Ti = 1) :
    (G.similarity T Ti c).A * T = c⁻¹ • (T * G.A) ∧ (G.similarity T Ti c).B = c⁻¹ • (T * G.B)
      ∧ (G.similarity T Ti c).C * T = G.C ∧ (G.similarity T Ti c).D = G.D := by
  have hT' : Ti * T = 1 := mul_eq_one_comm.mp hT
  refine ⟨?_, rfl, ?_, rfl⟩
  · simp only [SS.similarity, Matrix.smul_mul, Matrix.mul_assoc, hT', Matrix.mul_one]
  · simp only [SS.similarity, Matrix.mul_assoc, hT', Matrix.mul_one]

/-- `similarity_transform(G, T, timescale=c)` has the transfer function `s ↦ G(c s)`. -/
theorem similarity_resp (G : SS σ ι o K) (T Ti : Matrix σ σ K) (c : K) (hT : T * Ti = 1)
    (hc : c ≠ 0) (s : K) (Y : Matrix o ι K) :
    (G.similarity T Ti c).Resp s Y ↔ G.Resp (c * s) Y := by
  obtain ⟨hA, hB, hC, hD⟩ := similarity_relations G T Ti c hT
  rw [← timescale_resp G c hc s Y]
  refine resp_iff_of_intertwine ⟨c⁻¹ • G.A, c⁻¹ • G.B, G.C, G.D⟩ (G.similarity T Ti c) T Ti hT
    ?_ ?_ hC hD s Y
  · rw [hA, Matrix.mul_smul]
  · rw [hB, Matrix.mul_smul]

/-- non-vacuity: an invertible `T` and a non-zero time scale. -/
example : (!![1, 1; 0, 1] : Matrix (Fin 2) (Fin 2) ℚ) * !![1, -1; 0, 1] = 1 ∧ (2 : ℚ) ≠ 0 := by
  decide +kernel

/-- `inverse=True` is the same transformation with `T⁻¹` (`x = T z`). -/
theorem similarityInv_eq (G : SS σ ι o K) (T Ti : Matrix σ σ K) (c : K) :
    G.similarityInv T Ti c = G.similarity Ti T c := rfl

theorem similarityInv_resp (G : SS σ ι o K) (T Ti : Matrix σ σ K) (c : K) (hT : T * Ti = 1)
    (hc : c ≠ 0) (s : K) (Y : Matrix o ι K) :
    (G.similarityInv T Ti c).Resp s Y ↔ G.Resp (c * s) Y :=
  similarity_resp G Ti T c (mul_eq_one_comm.mp hT) hc s Y

/-- relations for `inverse=True`: `T A' = A T / c`, `T B' = B / c`, `C' = C T`. -/
theorem similarityInv_relations (G : SS σ ι o K) (T Ti : Matrix σ σ K) (c : K) (hT : T * Ti = 1) :
    T * (G.similarityInv T Ti c).A = c⁻¹ • (G.A * T) ∧ T * (G.similarityInv T Ti c).B = c⁻¹ • G.B
      ∧ (G.similarityInv T Ti c).C = G.C * T ∧ (G.similarityInv T Ti c).D = G.D := by
  refine ⟨?_, ?_, rfl, rfl⟩
  · simp only [SS.similarityInv, Matrix.mul_smul, ← Matrix.mul_assoc, hT, Matrix.one_mul]
  · simp only [SS.similarityInv, Matrix.mul_smul, ← Matrix.mul_assoc, hT, Matrix.one_mul]

/-- a singular `T` is rejected and otherwise the inverse used is two-sided (`certInv`). -/
theorem certInv_some {K : Type} [Field K] [DecidableEq K] {n : Nat}
    (F X : Matrix (Fin n) (Fin n) K) (h : certInv F = some X) : F * X = 1 ∧ X * F = 1 :=
  certInv_spec F X h

theorem certInv_none_iff {K : Type} [Field K] [DecidableEq K] {n : Nat}
    (F : Matrix (Fin n) (Fin n) K) : certInv F = none ↔ F.det = 0 :=
  certInv_eq_none_iff F

/-! ### `reachable_form` -/

section canonical

variable {n : Nat}

/-- the contract of `numpy.poly`: for the coefficient list of the characteristic polynomial
(length `n+1`, highest power first) the hypotheses of the theorems below hold
(Cayley–Hamilton). -/
theorem charpoly_contract (A : Matrix (Fin n) (Fin n) K) (ap : List K) (hlen : ap.length = n + 1)
    (hp : toPoly ap = A.charpoly) :
    hornerMat A (fun k => ap.getD k 0) n = 0 ∧ hornerMat Aᵀ (fun k => ap.getD k 0) n = 0
      ∧ ap.getD 0 0 ≠ 0 := by
  obtain ⟨h1, h2⟩ := hornerMat_charpoly A ap hlen hp
  refine ⟨h1, ?_, h2⟩
  exact (hornerMat_charpoly Aᵀ ap hlen (by rw [hp, Matrix.charpoly_transpose])).1

/-- non-vacuity: `[1, 3, 2]` is the characteristic polynomial of `[[0, 1], [-2, -3]]`. -/
example : toPoly ([1, 3, 2] : List ℚ) = (Gex.A).charpoly := by
  simp [toPoly_cons, Matrix.charpoly_fin_two, Matrix.trace_fin_two, Matrix.det_fin_two, Gex]
  ring

/-- the advertised companion structure of `reachable_form`: first row minus the (normalised)
coefficients, ones on the sub-diagonal, zeros elsewhere; `B = e₁`; `D` unchanged. -/
theorem reachable_form_structure (G : SS (Fin n) (Fin 1) (Fin 1) K) (a : Nat → K)
    (Wi Ti : Matrix (Fin n) (Fin n) K) :
    (∀ i j : Fin n, (G.reachableForm a Wi Ti).1.A i j
        = if i.val = 0 then -(a (j.val + 1)) / a 0 else if i.val = j.val + 1 then 1 else 0)
      ∧ (∀ i : Fin n, (G.reachableForm a Wi Ti).1.B i 0 = if i.val = 0 then 1 else 0)
      ∧ (G.reachableForm a Wi Ti).1.D = G.D :=
  ⟨fun _ _ => rfl, fun _ => rfl, rfl⟩

/-- `reachable_form` of a reachable SISO system of any order: the returned `T` relates the
matrices (`T A = A_c T`, `T B = e₁`, `C_c T = C`), and the transfer function is unchanged. -/
theorem reachable_form_correct (G : SS (Fin n) (Fin 1) (Fin 1) K) (a : Nat → K)
    (Wi Ti : Matrix (Fin n) (Fin n) K)
    (ha0 : a 0 ≠ 0) (hM : hornerMat G.A a n * G.B = 0)
    (hW : ctrb1 G.A G.B * Wi = 1) (hT : (G.reachableForm a Wi Ti).2 * Ti = 1) :
    let Z := (G.reachableForm a Wi Ti).1
    let T := (G.reachableForm a Wi Ti).2
    T * G.A = Z.A * T ∧ T * G.B = Z.B ∧ Z.C * T = G.C ∧ Z.D = G.D
      ∧ ∀ s Y, Z.Resp s Y ↔ G.Resp s Y := by
  intro Z T
  obtain ⟨h1, h2⟩ := reachT_intertwine G.A G.B a ha0 hM Wi hW
  have hT' : Ti * T = 1 := mul_eq_one_comm.mp hT
  have hC : Z.C * T = G.C := by
    show G.C * Ti * T = G.C
    rw [Matrix.mul_assoc, hT', Matrix.mul_one]
  exact ⟨h1, h2, hC, rfl, fun s Y => resp_iff_of_intertwine G Z T Ti hT h1 h2 hC rfl s Y⟩

/-- non-vacuity: a reachable second-order system, its coefficients, `Wrx⁻¹` and `T⁻¹`. -/
example : aex 0 ≠ 0 ∧ hornerMat Gex.A aex 2 * Gex.B = 0
    ∧ ctrb1 Gex.A Gex.B * (!![3, 1; 1, 0] : Matrix (Fin 2) (Fin 2) ℚ) = 1
    ∧ (Gex.reachableForm aex !![3, 1; 1, 0] !![0, 1; 1, 0]).2 * !![0, 1; 1, 0] = 1 := by
  decide +kernel

/-- the transformation `reachable_form` returns is invertible whenever the system is reachable
(so the `Transformation matrix singular` branch is dead), with inverse `Q`. -/
theorem reachable_form_T_invertible (G : SS (Fin n) (Fin 1) (Fin 1) K) (a : Nat → K)
    (Wi Ti : Matrix (Fin n) (Fin n) K) (ha0 : a 0 ≠ 0) (hM : hornerMat G.A a n * G.B = 0)
    (hW : ctrb1 G.A G.B * Wi = 1) :
    IsUnit (G.reachableForm a Wi Ti).2.det := by
  obtain ⟨_, h2⟩ := reachT_inv G.A G.B a ha0 hM Wi hW
  exact (Matrix.isUnit_iff_isUnit_det _).mp ⟨⟨_, _, h2, (mul_eq_one_comm.mp h2)⟩, rfl⟩

/-! ### `observable_form` -/

theorem observable_form_structure (G : SS (Fin n) (Fin 1) (Fin 1) K) (a : Nat → K)
    (Wzi : Matrix (Fin n) (Fin n) K) :
    (∀ i j : Fin n, (G.observableForm a Wzi).1.A i j
        = if j.val = 0 then -(a (i.val + 1)) / a 0 else if j.val = i.val + 1 then 1 else 0)
      ∧ (∀ j : Fin n, (G.observableForm a Wzi).1.C 0 j = if j.val = 0 then 1 else 0)
      ∧ (G.observableForm a Wzi).1.D = G.D :=
  ⟨fun _ _ => rfl, fun _ => rfl, rfl⟩

/-- `observable_form`: the relations `T A = A_o T`, `B_o = T B`, `e₁ᵀ T = C` hold for every SISO
system (observable or not), hence every response of the original is a response of the result;
when `T` is invertible (the code raises otherwise) the transfer functions coincide. -/
theorem observable_form_correct (G : SS (Fin n) (Fin 1) (Fin 1) K) (a : Nat → K)
    (Wzi : Matrix (Fin n) (Fin n) K)
    (ha0 : a 0 ≠ 0) (hM : hornerMat G.Aᵀ a n * G.Cᵀ = 0)
    (hW : Wzi * obsv1 (companionO n a) (e1row n) = 1) :
    let Z := (G.observableForm a Wzi).1
    let T := (G.observableForm a Wzi).2
    T * G.A = Z.A * T ∧ T * G.B = Z.B ∧ Z.C * T = G.C ∧ Z.D = G.D
      ∧ (∀ s Y, G.Resp s Y → Z.Resp s Y)
      ∧ (∀ Ti, T * Ti = 1 → ∀ s Y, Z.Resp s Y ↔ G.Resp s Y) := by
  intro Z T
  obtain ⟨h1, h2⟩ := obsT_intertwine G.A G.C a ha0 hM Wzi hW
  exact ⟨h1, rfl, h2, rfl, fun s Y => resp_of_intertwine G Z T h1 rfl h2 rfl s,
    fun Ti hT s Y => resp_iff_of_intertwine G Z T Ti hT h1 rfl h2 rfl s Y⟩

/-- non-vacuity: the hypotheses hold for an observable second-order system. -/
example : aex 0 ≠ 0 ∧ hornerMat Gex.Aᵀ aex 2 * Gex.Cᵀ = 0
    ∧ (!![1, 0; 3, 1] : Matrix (Fin 2) (Fin 2) ℚ) * obsv1 (companionO 2 aex) (e1row 2) = 1 := by
  decide +kernel

/-- the `T` of `observable_form` is singular exactly when the observability matrix is. -/
theorem observable_form_T_singular_iff (G : SS (Fin n) (Fin 1) (Fin 1) K) (a : Nat → K)
    (Wzi : Matrix (Fin n) (Fin n) K) (hW : Wzi * obsv1 (companionO n a) (e1row n) = 1) :
    (G.observableForm a Wzi).2.det = 0 ↔ (obsv1 G.A G.C).det = 0 := by
  show (Wzi * obsv1 G.A G.C).det = 0 ↔ _
  have hd : Wzi.det ≠ 0 := by
    have := congrArg Matrix.det hW
    rw [Matrix.det_mul, Matrix.det_one] at this
    exact left_ne_zero_of_mul_eq_one this
  rw [Matrix.det_mul, mul_eq_zero]
  exact ⟨fun h => h.resolve_left hd, Or.inr⟩

end canonical

/-! ### the branches that raise (run-time layer) -/

section raises

variable {Q : Type} [Field Q] [DecidableEq Q]

/-- an unreachable SISO system given to `reachable_form` raises. -/
theorem unreachable_raises (G : DSS Q) (ap : List Q) (h : G.p = 1 ∧ G.m = 1) (hn : G.n ≠ 0)
    (hlen : ap.length = G.n + 1) (ha0 : ap.getD 0 0 ≠ 0)
    (hdet : (ctrb1 (G.sys.castIO h.1 h.2).A (G.sys.castIO h.1 h.2).B).det = 0) :
    ∃ e, G.reachableForm ap = .error e :=
  DSS.reachableForm_unreachable G ap h hn hlen ha0 hdet

/-- non-vacuity: `A = diag(-1, -2)`, `B = (1, 0)` is unreachable. -/
example : (ctrb1 (Gun.sys.castIO rfl rfl).A (Gun.sys.castIO rfl rfl).B).det = 0 := by
  decide +kernel

/-- an unobservable SISO system given to `observable_form` raises (never returns). -/
theorem unobservable_raises (G : DSS Q) (ap : List Q) (h : G.p = 1 ∧ G.m = 1)
    (hdet : (obsv1 (G.sys.castIO h.1 h.2).A (G.sys.castIO h.1 h.2).C).det = 0) :
    ∃ e, G.observableForm ap = .error e :=
  DSS.observableForm_unobservable G ap h hdet

/-- MIMO systems and unknown forms raise `ControlNotImplemented`. -/
theorem canonical_mimo_raises (G : DSS Q) (ap : List Q) (h : ¬ (G.p = 1 ∧ G.m = 1)) :
    G.reachableForm ap = .error .notImplemented ∧ G.observableForm ap = .error .notImplemented := by
  simp [DSS.reachableForm, DSS.observableForm, h]

theorem canonical_unknown_form_raises (G : DSS Q) (ap : List Q) :
    G.canonicalForm .other ap = .error .notImplemented := rfl

/-- a singular `T` or a zero `timescale` given to `similarity_transform` raises. -/
theorem similarity_singular_raises (G : DSS Q) (T : Matrix (Fin G.n) (Fin G.n) Q) (c : Q)
    (inv : Bool) (hdet : T.det = 0) : G.similarity G.n T c inv = .error .illPosed :=
  DSS.similarity_singular G T c inv hdet

end raises

/-! ### `model_reduction` -/

/-- `truncate` keeps exactly the selected states: the matrices are the selected sub-blocks. -/
theorem truncate_keeps (G : SS σ ι o K) (ks : κ → σ) :
    (∀ i j, (G.truncate ks).A i j = G.A (ks i) (ks j)) ∧ (∀ i j, (G.truncate ks).B i j = G.B (ks i) j)
      ∧ (∀ i j, (G.truncate ks).C i j = G.C i (ks j)) ∧ (G.truncate ks).D = G.D :=
  ⟨fun _ _ => rfl, fun _ _ => rfl, fun _ _ => rfl, rfl⟩

/-- input / output selection keeps exactly the selected channels, in the selected order, and the
response is the corresponding sub-matrix (C02.select_resp). -/
theorem select_keeps (G : SS σ ι o K) (r : o' → o) (c : ι' → ι) (s : K) {Y : Matrix o ι K}
    (h : G.Resp s Y) : (G.select r c).Resp s (Y.submatrix r c) ∧ (G.select r c).D = G.D.submatrix r c :=
  ⟨C02.select_resp G r c s h, rfl⟩

/-- two spellings (offsets, names, slices, any order, repetitions) that denote the same set of
offsets are processed to the same list: the sorted, duplicate-free list of the set. -/
theorem canonIdx_same_set (l₁ l₂ : List Nat) (h : ∀ x, x ∈ l₁ ↔ x ∈ l₂) :
    Reduce.canonIdx l₁ = Reduce.canonIdx l₂ := by
  unfold Reduce.canonIdx
  congr 1
  ext x; simp [h x]

/-- the processed keep / elim lists are ascending, duplicate free and partition `range n`. -/
theorem canonIdx_spec (l : List Nat) :
    (Reduce.canonIdx l).Pairwise (· ≤ ·) ∧ (Reduce.canonIdx l).Nodup
      ∧ ∀ x, x ∈ Reduce.canonIdx l ↔ x ∈ l := by
  refine ⟨Finset.pairwise_sort _ _, Finset.sort_nodup _ _, fun x => ?_⟩
  simp [Reduce.canonIdx]

theorem complIdx_spec (n : Nat) (l : List Nat) (x : Nat) :
    x ∈ Reduce.complIdx n l ↔ x < n ∧ x ∉ l := by
  simp [Reduce.complIdx]

/-- `_process_elim_or_keep`: whatever the spelling, the processed lists are duplicate free, in
range, and partition the offsets `0 … n-1` … -/
theorem keep_elim_partition (labels : List String) (e k : Reduce.Key) (el kp : List Nat)
    (h : Reduce.processElimKeep labels e k = .ok (el, kp)) :
    el.Nodup ∧ kp.Nodup ∧ (∀ x ∈ el, x < labels.length) ∧ (∀ x ∈ kp, x < labels.length)
      ∧ ∀ x, x < labels.length → (x ∈ kp ↔ x ∉ el) :=
  Reduce.processElimKeep_partition labels e k el kp h

/-- … so the index functions the run-time layer hands to `truncate` / `matchdc` satisfy the
bijectivity hypothesis of `matchdc_dcgain`. -/
theorem keep_elim_bijective (labels : List String) (e k : Reduce.Key) (el kp : List Nat)
    (h : Reduce.processElimKeep labels e k = .ok (el, kp))
    (hk : ∀ x ∈ kp, x < labels.length) (hel : ∀ x ∈ el, x < labels.length) :
    Function.Bijective (Sum.elim (Reduce.idxFn labels.length kp hk)
      (Reduce.idxFn labels.length el hel)) := by
  obtain ⟨h1, h2, _, _, h5⟩ := Reduce.processElimKeep_partition labels e k el kp h
  exact Reduce.idxFn_sum_bijective _ kp el hk hel h2 h1 h5

/-- `matchdc` preserves the DC gain: with `A₂₂` invertible, `Y` is the value at `s = 0` of the
reduced system iff it is the value at `s = 0` of the original (states split into kept `ks` and
eliminated `es`, in any order). -/
theorem matchdc_dcgain [Fintype κ] [DecidableEq κ] [Fintype ε] [DecidableEq ε]
    (G : SS σ ι o K) (ks : κ → σ) (es : ε → σ) (hbij : Function.Bijective (Sum.elim ks es))
    (A22i : Matrix ε ε K) (h22 : G.A.submatrix es es * A22i = 1) (Y : Matrix o ι K) :
    (G.matchdc ks es A22i).Resp 0 Y ↔ G.Resp 0 Y := by
  let e : κ ⊕ ε ≃ σ := Equiv.ofBijective _ hbij
  have hG : G.Resp 0 Y ↔ (G.reindex e.symm).Resp 0 Y := by
    constructor
    · exact C02.reindex_resp G e.symm 0
    · intro h
      have := C02.reindex_resp (G.reindex e.symm) e 0 h
      have hid : (G.reindex e.symm).reindex e = G := by
        cases G; simp [SS.reindex]
      rwa [hid] at this
  rw [hG]
  have hR : G.reindex e.symm = ⟨fromBlocks (G.A.submatrix ks ks) (G.A.submatrix ks es)
      (G.A.submatrix es ks) (G.A.submatrix es es), fromRows (G.B.submatrix ks id)
      (G.B.submatrix es id), fromCols (G.C.submatrix id ks) (G.C.submatrix id es), G.D⟩ := by
    simp only [SS.reindex, Equiv.symm_symm]
    congr 1
    · ext (i | i) (j | j) <;> rfl
    · ext (i | i) j <;> rfl
    · ext i (j | j) <;> rfl
  rw [hR]
  exact matchdc_blocks _ _ _ _ A22i _ _ _ _ _ h22 Y

/-- non-vacuity: keep state 0, eliminate state 1 of a second-order system (`A₂₂ = -3`). -/
example : Function.Bijective (Sum.elim (![0] : Fin 1 → Fin 2) (![1] : Fin 1 → Fin 2))
    ∧ Gex.A.submatrix (![1] : Fin 1 → Fin 2) ![1] * !![(-1 / 3 : ℚ)] = 1 := by
  constructor
  · decide
  · decide +kernel

/-- with input / output selection on top: the reduced system's DC gain is the selected sub-matrix
of the original DC gain. -/
theorem matchdc_select_dcgain [Fintype κ] [DecidableEq κ] [Fintype ε] [DecidableEq ε]
    (G : SS σ ι o K) (ks : κ → σ) (es : ε → σ) (hbij : Function.Bijective (Sum.elim ks es))
    (A22i : Matrix ε ε K) (h22 : G.A.submatrix es es * A22i = 1)
    (r : o' → o) (c : ι' → ι) {Y : Matrix o ι K} (h : G.Resp 0 Y) :
    ((G.matchdc ks es A22i).select r c).Resp 0 (Y.submatrix r c) :=
  C02.select_resp _ r c 0 ((matchdc_dcgain G ks es hbij A22i h22 Y).mpr h)

/-! ### `TransferFunction.minreal` -/

/-- `minreal` only cancels common factors: if the root lists are those of numerator and
denominator (contract of `numpy.roots`) and the tolerance test only identifies equal roots
(well-separated roots), the result is well formed and denotes the same rational function. -/
theorem minreal_sem [DecidableEq K] (close : K → K → Bool) (f : Frac K) (zeros poles : List K)
    (n0 d0 : K) (nt dt : List K) (hn : f.num = n0 :: nt) (hd : f.den = d0 :: dt) (hd0 : d0 ≠ 0)
    (hzeros : toPoly f.num = Polynomial.C n0 * prodRoots zeros)
    (hpoles : toPoly f.den = Polynomial.C d0 * prodRoots poles)
    (hclose : ∀ z p, close z p = true → z = p) :
    ∃ g, minrealEntry close f zeros poles = .ok g ∧ g.WF ∧ g.sem = f.sem :=
  minrealEntry_spec close f zeros poles n0 d0 nt dt hn hd hd0 hzeros hpoles hclose

/-- non-vacuity: `(s² + 3s + 2) / (s² + 4s + 3)` with roots `-1, -2` and `-1, -3`, exact
comparison as the tolerance test. -/
example : toPoly ([1, 3, 2] : List ℚ) = Polynomial.C 1 * prodRoots [-1, -2]
    ∧ toPoly ([1, 4, 3] : List ℚ) = Polynomial.C 1 * prodRoots [-1, -3] := by
  constructor
  · simp [toPoly_cons, prodRoots]
    rw [show (Polynomial.C 3 : Polynomial ℚ) = 1 + Polynomial.C 2 by
      rw [← Polynomial.C_1, ← Polynomial.C_add]; norm_num]
    ring
  · simp [toPoly_cons, prodRoots]
    rw [show (Polynomial.C 4 : Polynomial ℚ) = 1 + Polynomial.C 3 by
      rw [← Polynomial.C_1, ← Polynomial.C_add]; norm_num]
    ring

/-- `minreal_sem` with the hypothesis that can actually be met by a tolerance test: it only has to
identify equal roots *among the zeros and poles of this entry*.  (No positive tolerance satisfies
the field-wide hypothesis of `minreal_sem`.)  Roots may be repeated: every zero cancels at most one
pole. -/
theorem minreal_sem_on [DecidableEq K] (close : K → K → Bool) (f : Frac K) (zeros poles : List K)
    (n0 d0 : K) (nt dt : List K) (hn : f.num = n0 :: nt) (hd : f.den = d0 :: dt) (hd0 : d0 ≠ 0)
    (hzeros : toPoly f.num = Polynomial.C n0 * prodRoots zeros)
    (hpoles : toPoly f.den = Polynomial.C d0 * prodRoots poles)
    (hclose : ∀ z ∈ zeros, ∀ p ∈ poles, close z p = true → z = p) :
    ∃ g, minrealEntry close f zeros poles = .ok g ∧ g.WF ∧ g.sem = f.sem :=
  minrealEntry_spec_on close f zeros poles n0 d0 nt dt hn hd hd0 hzeros hpoles hclose

/-- the form the driver certifies on every call: `rootsSeparated` is a computable check. -/
theorem minreal_sem_certified [DecidableEq K] (close : K → K → Bool) (f : Frac K)
    (zeros poles : List K)
    (n0 d0 : K) (nt dt : List K) (hn : f.num = n0 :: nt) (hd : f.den = d0 :: dt) (hd0 : d0 ≠ 0)
    (hzeros : toPoly f.num = Polynomial.C n0 * prodRoots zeros)
    (hpoles : toPoly f.den = Polynomial.C d0 * prodRoots poles)
    (hsep : rootsSeparated close zeros poles = true) :
    ∃ g, minrealEntry close f zeros poles = .ok g ∧ g.WF ∧ g.sem = f.sem :=
  minreal_sem_on close f zeros poles n0 d0 nt dt hn hd hd0 hzeros hpoles
    ((rootsSeparated_iff close zeros poles).mp hsep)

/-- whatever the tolerance test does, the loop invents nothing and removes as many poles as zeros:
the kept zeros are among the zeros, the remaining poles among the poles, and the relative degree
is unchanged. -/
theorem minreal_only_cancels (close : K → K → Bool) (zeros poles : List K) :
    (∀ z ∈ (cancelRoots close zeros poles).1, z ∈ zeros)
    ∧ (∀ p ∈ (cancelRoots close zeros poles).2, p ∈ poles)
    ∧ (cancelRoots close zeros poles).1.length + poles.length
        = (cancelRoots close zeros poles).2.length + zeros.length :=
  ⟨(cancelRoots_mem close zeros poles).1, (cancelRoots_mem close zeros poles).2,
    cancelRoots_length close zeros poles⟩

/-! The code's tolerance test, `abs(z - p) < (tol or 1000 * max(eps, abs(z) * sqrt_eps))`: the
tolerance of a zero is a function of that zero alone, relative to its own magnitude. -/

theorem closeQ_iff (tol : Option ℚ) (z p : ℚ) :
    Minreal.closeQ tol z p = true ↔ |z - p| < Minreal.tolOf tol z := by
  unfold Minreal.closeQ
  exact decide_eq_true_iff

theorem tolOf_default (z : ℚ) :
    Minreal.tolOf none z = 1000 * max Minreal.eps (|z| * Minreal.sqrtEps) := rfl

/-- an explicit non-zero tolerance is used as given, for every zero. -/
theorem tolOf_explicit (t : ℚ) (ht : t ≠ 0) (z : ℚ) : Minreal.tolOf (some t) z = t := by
  simp [Minreal.tolOf, ht]

/-- `tol = 0` is falsy in Python: the default is used. -/
theorem tolOf_zero (z : ℚ) : Minreal.tolOf (some 0) z = Minreal.tolOf none z := by
  simp [Minreal.tolOf]

/-- a zero cancels a pole equal to it, at every magnitude. -/
theorem closeQ_default_self (z : ℚ) : Minreal.closeQ none z z = true := by
  have h : (0 : ℚ) < Minreal.eps := by unfold Minreal.eps; positivity
  rw [closeQ_iff, tolOf_default, sub_self, abs_zero]
  exact mul_pos (by norm_num) (lt_max_of_lt_left h)

/-- a zero is never cancelled against a pole whose distance is at least `2⁻¹⁶` of the zero's own
magnitude (and at least `2⁻⁴²`) — however large the other zeros of the entry are. -/
theorem closeQ_default_separated (z p : ℚ) (h1 : 1 / 2 ^ 42 ≤ |z - p|)
    (h2 : |z| / 2 ^ 16 ≤ |z - p|) : Minreal.closeQ none z p = false := by
  rw [Bool.eq_false_iff, Ne, closeQ_iff, tolOf_default, not_lt]
  have hz : 0 ≤ |z| := abs_nonneg z
  rcases max_cases Minreal.eps (|z| * Minreal.sqrtEps) with ⟨h, _⟩ | ⟨h, _⟩
  · rw [h]; unfold Minreal.eps; norm_num at h1 ⊢; linarith
  · rw [h]; unfold Minreal.sqrtEps; norm_num at h2 ⊢; linarith

theorem closeQI_iff (tol : Option ℚ) (z p : QI) (h : ∀ t, tol = some t → 0 ≤ t) :
    Minreal.closeQI tol z p = true ↔ Minreal.normSqQI (z - p) < Minreal.tolSqOf tol z := by
  unfold Minreal.closeQI
  cases tol with
  | none => exact decide_eq_true_iff
  | some t => simp [not_lt.mpr (h t rfl)]

/-- a negative explicit tolerance cancels nothing (`abs(z - p) < t` is false). -/
theorem closeQI_neg (t : ℚ) (ht : t < 0) (z p : QI) : Minreal.closeQI (some t) z p = false := by
  simp [Minreal.closeQI, ht]

/-- the Gaussian-rational test: a zero cancels a pole equal to it. -/
theorem closeQI_default_self (z : QI) : Minreal.closeQI none z z = true := by
  have h : (0 : ℚ) < Minreal.eps * Minreal.eps := by unfold Minreal.eps; positivity
  rw [closeQI_iff _ _ _ (by simp)]
  have h0 : Minreal.normSqQI (z - z) = 0 := by simp [Minreal.normSqQI]
  rw [h0]
  show 0 < 1000000 * max (Minreal.eps * Minreal.eps) (Minreal.normSqQI z * Minreal.eps)
  exact mul_pos (by norm_num) (lt_max_of_lt_left h)

/-- on real roots the Gaussian-rational test is the rational one (`t > 0` compared on squares). -/
theorem closeQI_real_default (z p : ℚ) :
    Minreal.closeQI none ⟨z, 0⟩ ⟨p, 0⟩ = Minreal.closeQ none z p := by
  rw [Bool.eq_iff_iff, closeQI_iff _ _ _ (by simp), closeQ_iff, tolOf_default]
  have he : (0 : ℚ) < Minreal.eps := by unfold Minreal.eps; positivity
  have hs : Minreal.sqrtEps * Minreal.sqrtEps = Minreal.eps := by
    unfold Minreal.sqrtEps Minreal.eps; norm_num
  have hs0 : (0 : ℚ) < Minreal.sqrtEps := by unfold Minreal.sqrtEps; positivity
  have hn : Minreal.normSqQI ((⟨z, 0⟩ : QI) - ⟨p, 0⟩) = |z - p| * |z - p| := by
    simp [Minreal.normSqQI, abs_mul_abs_self]
  have ht : Minreal.tolSqOf none (⟨z, 0⟩ : QI)
      = (1000 * max Minreal.eps (|z| * Minreal.sqrtEps))
        * (1000 * max Minreal.eps (|z| * Minreal.sqrtEps)) := by
    show 1000000 * max (Minreal.eps * Minreal.eps) (Minreal.normSqQI ⟨z, 0⟩ * Minreal.eps) = _
    have hz : Minreal.normSqQI (⟨z, 0⟩ : QI) = |z| * |z| := by
      simp [Minreal.normSqQI, abs_mul_abs_self]
    rw [hz]
    have hz0 : 0 ≤ |z| := abs_nonneg z
    rcases le_total Minreal.eps (|z| * Minreal.sqrtEps) with h | h
    · have h2 : Minreal.eps * Minreal.eps ≤ |z| * |z| * Minreal.eps := by
        calc Minreal.eps * Minreal.eps ≤ (|z| * Minreal.sqrtEps) * (|z| * Minreal.sqrtEps) :=
              mul_le_mul h h he.le (le_trans he.le h)
          _ = |z| * |z| * Minreal.eps := by rw [← hs]; ring
      rw [max_eq_right h, max_eq_right h2, ← hs]; ring
    · have h2 : |z| * |z| * Minreal.eps ≤ Minreal.eps * Minreal.eps := by
        calc |z| * |z| * Minreal.eps = (|z| * Minreal.sqrtEps) * (|z| * Minreal.sqrtEps) := by
              rw [← hs]; ring
          _ ≤ Minreal.eps * Minreal.eps :=
              mul_le_mul h h (mul_nonneg hz0 hs0.le) he.le
      rw [max_eq_left h, max_eq_left h2]; ring
  rw [hn, ht]
  have hT : 0 < 1000 * max Minreal.eps (|z| * Minreal.sqrtEps) :=
    mul_pos (by norm_num) (lt_max_of_lt_left he)
  exact (mul_self_lt_mul_self_iff (abs_nonneg _) hT.le).symm

/-- rational roots that are pairwise equal or separated relative to the zero's own size: `minreal`
with the default tolerance returns the same rational function. -/
theorem minreal_sem_graded (f : Frac ℚ) (zeros poles : List ℚ)
    (n0 d0 : ℚ) (nt dt : List ℚ) (hn : f.num = n0 :: nt) (hd : f.den = d0 :: dt) (hd0 : d0 ≠ 0)
    (hzeros : toPoly f.num = Polynomial.C n0 * prodRoots zeros)
    (hpoles : toPoly f.den = Polynomial.C d0 * prodRoots poles)
    (hsep : ∀ z ∈ zeros, ∀ p ∈ poles, z ≠ p → 1 / 2 ^ 42 ≤ |z - p| ∧ |z| / 2 ^ 16 ≤ |z - p|) :
    ∃ g, minrealEntry (Minreal.closeQ none) f zeros poles = .ok g ∧ g.WF ∧ g.sem = f.sem := by
  refine minreal_sem_on _ f zeros poles n0 d0 nt dt hn hd hd0 hzeros hpoles ?_
  intro z hz p hp hc
  by_contra hne
  obtain ⟨h1, h2⟩ := hsep z hz p hp hne
  rw [closeQ_default_separated z p h1 h2] at hc
  cases hc

/-- non-vacuity, roots six orders of magnitude apart: zeros `-1, -2²¹`, poles `-1, -3`.  The zero
`-1` is not cancelled against the pole `-3` (an entry-wide tolerance taken from the largest zero,
`1000 · 2²¹ · 2⁻²⁶ ≈ 31`, would cancel it), while at the magnitude `2²¹` a distance of `3` is
inside the tolerance. -/
example : rootsSeparated (Minreal.closeQ none) [-1, -2097152] [-1, -3] = true
    ∧ Minreal.closeQ none (-1) (-3) = false
    ∧ Minreal.closeQ none (-2097152) (-2097155) = true
    ∧ (cancelRoots (Minreal.closeQ none) [-1, -2097152] [-1, -3]) = ([-2097152], [-3]) := by
  decide +kernel

/-- non-vacuity, a repeated pole: the zero `2` cancels one of the two poles `2`. -/
example : rootsSeparated (Minreal.closeQ (some (1 / 100))) [2] [2, 2, 5] = true
    ∧ cancelRoots (Minreal.closeQ (some (1 / 100))) [2] [2, 2, 5] = ([], [2, 5]) := by
  decide +kernel

/-- non-vacuity, Gaussian-rational roots: the pair `-1 ± 2i` is common, the pair `-1 ± i` (same real
part) is not. -/
example : rootsSeparated (Minreal.closeQI none)
      [(⟨-1, 2⟩ : QI), ⟨-1, -2⟩] [(⟨-1, 1⟩ : QI), ⟨-1, -1⟩, ⟨-1, -2⟩, ⟨-1, 2⟩] = true
    ∧ cancelRoots (Minreal.closeQI none)
      [(⟨-1, 2⟩ : QI), ⟨-1, -2⟩] [(⟨-1, 1⟩ : QI), ⟨-1, -1⟩, ⟨-1, -2⟩, ⟨-1, 2⟩]
        = ([], [⟨-1, 1⟩, ⟨-1, -1⟩]) := by
  decide +kernel

end CtrlVerif.C15
