/-
C10 — Lyapunov, Sylvester and Riccati solvers return solutions of their equations.

The theorems are about python-control's own code (control/mateqn.py, `method='scipy'`): which
SciPy solver is called with which negated / defaulted arguments, so that the *documented*
equation holds for the returned matrix whenever SciPy keeps its contract; what `care` / `dare`
compute from that matrix (gain, closed-loop pencil); and the argument validation
(`_check_shape`, `_is_symmetric`).  `K` is an arbitrary field (ordered where `_is_symmetric` is
involved), the index types are arbitrary finite types (all sizes).  The SciPy solvers are
parameters with recorded contracts (`Lemmas/MatEqn.lean`: `CLyapSolver`, `DLyapSolver`,
`SylvSolver`, `CareSolver`, `DareSolver`; each is inhabited, `…ofChoice`); that the solvers
really satisfy them is SciPy's business — **partial** in that sense.
-/
import CtrlVerif.Lemmas.MatEqn
import Mathlib.Algebra.Order.Ring.Abs
import Mathlib.Tactic.NormNum
import Mathlib.Tactic.Linarith
import Mathlib.LinearAlgebra.Matrix.Notation
import Mathlib.Tactic.FinCases

namespace CtrlVerif.C10

open CtrlVerif Matrix MatEqn

variable {K : Type*} [Field K]
variable {n m : Type*} [Fintype n] [Fintype m] [DecidableEq n] [DecidableEq m]

/-! ## Lyapunov and Sylvester equations -/

/-- `lyap(A, Q)` returns `X` with `A X + X Aᵀ + Q = 0` (python-control passes `-Q` to a solver of
`a x + x aᵀ = q`), whenever that equation has exactly one solution. -/
theorem lyap_residual (S : CLyapSolver n K) (A Q : Matrix n n K)
    (h : ∃! X : Matrix n n K, A * X + X * Aᵀ + Q = 0) :
    A * lyap S.solve A Q + lyap S.solve A Q * Aᵀ + Q = 0 := by
  have h' : ∃! x : Matrix n n K, (lyapCall A Q).a * x + x * (lyapCall A Q).aᵀ = (lyapCall A Q).q := by
    simpa [lyapCall, eq_neg_iff_add_eq_zero] using h
  have := S.spec (lyapCall A Q) h'
  simp only [lyapCall] at this
  simp only [lyap, lyapCall]
  rw [this]; simp

/-- … and it is *the* solution. -/
theorem lyap_unique (S : CLyapSolver n K) (A Q : Matrix n n K)
    (h : ∃! X : Matrix n n K, A * X + X * Aᵀ + Q = 0) (X : Matrix n n K)
    (hX : A * X + X * Aᵀ + Q = 0) : lyap S.solve A Q = X :=
  h.unique (lyap_residual S A Q h) hX

/-- `lyap(A, Q, C)` returns `X` with `A X + X Q + C = 0` (Sylvester; `-C` is passed). -/
theorem sylvester_residual (S : SylvSolver n m K) (A : Matrix n n K) (Q : Matrix m m K)
    (C : Matrix n m K) (h : ∃! X : Matrix n m K, A * X + X * Q + C = 0) :
    A * sylv S.solve A Q C + sylv S.solve A Q C * Q + C = 0 := by
  have h' : ∃! x : Matrix n m K,
      (sylvCall A Q C).a * x + x * (sylvCall A Q C).b = (sylvCall A Q C).q := by
    simpa [sylvCall, eq_neg_iff_add_eq_zero] using h
  have := S.spec (sylvCall A Q C) h'
  simp only [sylvCall] at this
  simp only [sylv, sylvCall]
  rw [this]; simp

/-- `dlyap(A, Q)` returns `X` with `A X Aᵀ − X + Q = 0` (`Q` is passed unchanged). -/
theorem dlyap_residual (S : DLyapSolver n K) (A Q : Matrix n n K)
    (h : ∃! X : Matrix n n K, A * X * Aᵀ - X + Q = 0) :
    A * dlyap S.solve A Q * Aᵀ - dlyap S.solve A Q + Q = 0 :=
  S.spec (dlyapCall A Q) h

/-- a sign slip is *not* harmless: passing `Q` instead of `-Q` solves the equation for `-Q`. -/
theorem lyap_wrong_sign (S : CLyapSolver n K) (A Q : Matrix n n K)
    (h : ∃! X : Matrix n n K, A * X + X * Aᵀ = Q) :
    A * S.solve ⟨A, Q⟩ + S.solve ⟨A, Q⟩ * Aᵀ + Q = Q + Q := by
  rw [S.spec ⟨A, Q⟩ h]

/-! ## Riccati equations -/

variable {Stab : Matrix n n K → Matrix n n K → Prop} [DecidableEq K]

/-- `care` returns (does not raise) exactly when `R` is invertible. -/
theorem care_raises_iff (solve : AreCall n m K → Matrix n n K) (A : Matrix n n K)
    (B : Matrix n m K) (Q : Matrix n n K) (R : Matrix m m K) (S : Option (Matrix n m K))
    (E : Option (Matrix n n K)) :
    (care solve A B Q R S E = .error .illPosed ↔ R.det = 0) ∧
    (∀ e, care solve A B Q R S E = .error e → e = .illPosed) := by
  unfold care
  by_cases h : R.det = 0 <;> simp [h]

/-- `X` returned by `care` satisfies the documented equation
`AᵀXE + EᵀXA − (EᵀXB + S) R⁻¹ (BᵀXE + Sᵀ) + Q = 0` (missing `S` = 0, missing `E` = I — in
particular the standard branch is the `S = 0, E = I` instance), `X` is symmetric, and the
closed loop is stable, whenever a symmetric stabilising solution exists (SciPy's contract). -/
theorem care_residual (Sv : CareSolver n m K Stab) (A : Matrix n n K) (B : Matrix n m K)
    (Q : Matrix n n K) (R : Matrix m m K) (S : Option (Matrix n m K)) (E : Option (Matrix n n K))
    (hsol : ∃ X, IsCareSol Stab A B Q R (sOf S) (eOf E) X)
    {r : AreResult n m K} (hr : care Sv.solve A B Q R S E = .ok r) :
    IsCareSol Stab A B Q R (sOf S) (eOf E) r.X := by
  obtain ⟨ha, hb, hq, hr', hs, he⟩ := careCall_reads A B Q R S E
  have hX : r.X = Sv.solve (careCall A B Q R S E) := by
    unfold care at hr
    by_cases h : R.det = 0
    · simp [h] at hr
    · simp only [h, if_false, Except.ok.injEq] at hr
      rw [← hr]; rfl
  have := Sv.spec (careCall A B Q R S E) (by rw [ha, hb, hq, hr', hs, he]; exact hsol)
  rw [ha, hb, hq, hr', hs, he] at this
  rw [hX]; exact this

/-- the standard equation documented for `care(A, B, Q, R)` is the `S = 0`, `E = I` instance of
the generalised one. -/
theorem care_standard_instance (A : Matrix n n K) (B : Matrix n m K) (Q : Matrix n n K)
    (R : Matrix m m K) (X : Matrix n n K) :
    CareEq A B Q R 0 1 X ↔ Aᵀ * X + X * A - X * B * R⁻¹ * Bᵀ * X + Q = 0 := by
  simp [CareEq, Matrix.mul_assoc]

/-- the gain returned by `care` is the documented `R⁻¹ (BᵀXE + Sᵀ)` in the returned `X`
(`R⁻¹ BᵀX` in the standard branch): it solves `R G = BᵀXE + Sᵀ`. -/
theorem care_gain (solve : AreCall n m K → Matrix n n K) (A : Matrix n n K) (B : Matrix n m K)
    (Q : Matrix n n K) (R : Matrix m m K) (S : Option (Matrix n m K)) (E : Option (Matrix n n K))
    {r : AreResult n m K} (hr : care solve A B Q R S E = .ok r) :
    R * r.G = Bᵀ * r.X * eOf E + (sOf S)ᵀ ∧ r.G = careGainDoc B R (sOf S) (eOf E) r.X := by
  unfold care at hr
  by_cases h : R.det = 0
  · simp [h] at hr
  · simp only [h, if_false, Except.ok.injEq] at hr
    subst hr
    simp only [careFinish, careGainRhs_eq, careGainDoc]
    constructor
    · rw [← Matrix.mul_assoc, mul_invQ R h, Matrix.one_mul]
    · rw [invQ_eq_inv R h]

/-- the pencil whose eigenvalues `care` returns is `(A − B G, E)` (`E = I`: a standard
eigenvalue problem), with `G` the returned gain. -/
theorem care_closed_loop_pencil (solve : AreCall n m K → Matrix n n K) (A : Matrix n n K)
    (B : Matrix n m K) (Q : Matrix n n K) (R : Matrix m m K) (S : Option (Matrix n m K))
    (E : Option (Matrix n n K)) {r : AreResult n m K} (hr : care solve A B Q R S E = .ok r) :
    r.Acl = A - B * r.G ∧ eOf r.Ecl = eOf E := by
  unfold care at hr
  by_cases h : R.det = 0
  · simp [h] at hr
  · simp only [h, if_false, Except.ok.injEq] at hr
    subst hr
    exact ⟨rfl, carePencilE_eq S E⟩

/-- hence the closed loop whose eigenvalues are returned is the stable one of SciPy's contract. -/
theorem care_closed_loop_stable (Sv : CareSolver n m K Stab) (A : Matrix n n K) (B : Matrix n m K)
    (Q : Matrix n n K) (R : Matrix m m K) (S : Option (Matrix n m K)) (E : Option (Matrix n n K))
    (hsol : ∃ X, IsCareSol Stab A B Q R (sOf S) (eOf E) X)
    {r : AreResult n m K} (hr : care Sv.solve A B Q R S E = .ok r) :
    Stab r.Acl (eOf r.Ecl) := by
  obtain ⟨h1, h2⟩ := care_closed_loop_pencil Sv.solve A B Q R S E hr
  obtain ⟨_, h4⟩ := care_gain Sv.solve A B Q R S E hr
  rw [h1, h2, h4]
  exact (care_residual Sv A B Q R S E hsol hr).stab

/-- closed-loop Lyapunov form: with the returned `X` (symmetric, solving the equation), the
returned gain `G` and `R` symmetric invertible,
`(A − BG)ᵀXE + EᵀX(A − BG) + (Q + GᵀRG − SG − GᵀSᵀ) = 0`. -/
theorem care_closed_loop_lyapunov (A : Matrix n n K) (B : Matrix n m K) (Q : Matrix n n K)
    (R : Matrix m m K) (S : Matrix n m K) (E X : Matrix n n K) (hR : Rᵀ = R) (hdet : R.det ≠ 0)
    (hX : Xᵀ = X) (hEq : CareEq A B Q R S E X) :
    (A - B * careGainDoc B R S E X)ᵀ * X * E + Eᵀ * X * (A - B * careGainDoc B R S E X)
      + (Q + (careGainDoc B R S E X)ᵀ * R * careGainDoc B R S E X - S * careGainDoc B R S E X
          - (careGainDoc B R S E X)ᵀ * Sᵀ) = 0 := by
  have hu : IsUnit R.det := isUnit_iff_ne_zero.mpr hdet
  have hG : R * careGainDoc B R S E X = Bᵀ * X * E + Sᵀ := by
    unfold careGainDoc
    rw [← Matrix.mul_assoc, Matrix.mul_nonsing_inv R hu, Matrix.one_mul]
  have hRi : (R⁻¹)ᵀ = R⁻¹ := by rw [Matrix.transpose_nonsing_inv, hR]
  have hGt : (careGainDoc B R S E X)ᵀ * R = (Bᵀ * X * E + Sᵀ)ᵀ := by
    unfold careGainDoc
    rw [Matrix.transpose_mul, hRi, Matrix.mul_assoc, Matrix.nonsing_inv_mul R hu, Matrix.mul_one]
  refine closed_loop_algebra A E X Q B S R _ (Bᵀ * X * E + Sᵀ) hX rfl hG hGt ?_
  have hWt : (Bᵀ * X * E + Sᵀ)ᵀ = Eᵀ * X * B + S := by
    simp [Matrix.transpose_mul, hX, Matrix.mul_assoc]
  unfold CareEq at hEq
  rw [hWt]
  unfold careGainDoc
  rw [← Matrix.mul_assoc]
  exact hEq

/-
The plan's `care_stable_partial` (over `ℂ`: `X` positive definite, `E = 1`,
`W := Q + GᵀRG − SG − GᵀSᵀ` positive definite ⟹ every eigenvalue of `A − BG` has negative real
part) is now PROVED, at full strength and beyond (generalised `E`, semidefinite/observable
variant, discrete time), in `Props/C10Stable.lean`: `lyap_eigen_re_neg`,
`lyap_pencil_eigen_re_neg`, `dlyap_eigen_abs_lt_one`, `dare_closed_loop_lyapunov`, and for what
the model's `care` / `dare` return `care_stable` / `dare_stable` (they combine
`care_closed_loop_lyapunov` above with the Lyapunov argument on an eigenvector;
`isCareSol_hurwitz` / `isDareSol_schur` instantiate the abstract `Stab` used here).  Stability
when `X` is only semidefinite remains SciPy's contract (`care_closed_loop_stable`) and is checked
numerically on every generated case.
-/

/-- `dare` returns (does not raise) exactly when `BᵀXB + R` is invertible for the solver's `X`. -/
theorem dare_raises_iff (solve : AreCall n m K → Matrix n n K) (A : Matrix n n K)
    (B : Matrix n m K) (Q : Matrix n n K) (R : Matrix m m K) (S : Option (Matrix n m K))
    (E : Option (Matrix n n K)) :
    (dare solve A B Q R S E = .error .illPosed ↔
      (Bᵀ * solve (dareCall A B Q R S E) * B + R).det = 0) ∧
    (∀ e, dare solve A B Q R S E = .error e → e = .illPosed) := by
  unfold dare dareF
  by_cases h : (Bᵀ * solve (dareCall A B Q R S E) * B + R).det = 0 <;> simp [h]

/-- `X` returned by `dare` satisfies the documented equation
`AᵀXA − EᵀXE − (AᵀXB + S)(BᵀXB + R)⁻¹(BᵀXA + Sᵀ) + Q = 0` (missing `S` = 0, missing `E` = I),
is symmetric and stabilising, whenever such a solution exists (SciPy's contract). -/
theorem dare_residual (Sv : DareSolver n m K Stab) (A : Matrix n n K) (B : Matrix n m K)
    (Q : Matrix n n K) (R : Matrix m m K) (S : Option (Matrix n m K)) (E : Option (Matrix n n K))
    (hsol : ∃ X, IsDareSol Stab A B Q R (sOf S) (eOf E) X)
    {r : AreResult n m K} (hr : dare Sv.solve A B Q R S E = .ok r) :
    IsDareSol Stab A B Q R (sOf S) (eOf E) r.X := by
  have hX : r.X = Sv.solve (dareCall A B Q R S E) := by
    unfold dare at hr
    by_cases h : (dareF B R (Sv.solve (dareCall A B Q R S E))).det = 0
    · simp [h] at hr
    · simp only [h, if_false, Except.ok.injEq] at hr
      rw [← hr]; rfl
  have := Sv.spec (dareCall A B Q R S E) (by simpa [dareCall] using hsol)
  rw [hX]; simpa [dareCall] using this

/-- the standard discrete equation is the `S = 0`, `E = I` instance. -/
theorem dare_standard_instance (A : Matrix n n K) (B : Matrix n m K) (Q : Matrix n n K)
    (R : Matrix m m K) (X : Matrix n n K) :
    DareEq A B Q R 0 1 X ↔
      Aᵀ * X * A - X - Aᵀ * X * B * (Bᵀ * X * B + R)⁻¹ * (Bᵀ * X * A) + Q = 0 := by
  simp [DareEq, Matrix.mul_assoc]

/-- the gain returned by `dare` is the documented `(BᵀXB + R)⁻¹ (BᵀXA + Sᵀ)`. -/
theorem dare_gain (solve : AreCall n m K → Matrix n n K) (A : Matrix n n K) (B : Matrix n m K)
    (Q : Matrix n n K) (R : Matrix m m K) (S : Option (Matrix n m K)) (E : Option (Matrix n n K))
    {r : AreResult n m K} (hr : dare solve A B Q R S E = .ok r) :
    (Bᵀ * r.X * B + R) * r.G = Bᵀ * r.X * A + (sOf S)ᵀ ∧ r.G = dareGainDoc A B R (sOf S) r.X := by
  unfold dare at hr
  by_cases h : (dareF B R (solve (dareCall A B Q R S E))).det = 0
  · simp [h] at hr
  · simp only [h, if_false, Except.ok.injEq] at hr
    subst hr
    simp only [dareFinish, dareGainRhs_eq, dareGainDoc]
    constructor
    · rw [← Matrix.mul_assoc]
      have := mul_invQ _ h
      have e : Bᵀ * solve (dareCall A B Q R S E) * B + R
          = dareF B R (solve (dareCall A B Q R S E)) := rfl
      rw [e, this, Matrix.one_mul]
    · rw [invQ_eq_inv _ h]; rfl

/-- the pencil whose eigenvalues `dare` returns is `(A − B G, E)`. -/
theorem dare_closed_loop_pencil (solve : AreCall n m K → Matrix n n K) (A : Matrix n n K)
    (B : Matrix n m K) (Q : Matrix n n K) (R : Matrix m m K) (S : Option (Matrix n m K))
    (E : Option (Matrix n n K)) {r : AreResult n m K} (hr : dare solve A B Q R S E = .ok r) :
    r.Acl = A - B * r.G ∧ r.Ecl = E := by
  unfold dare at hr
  by_cases h : (dareF B R (solve (dareCall A B Q R S E))).det = 0
  · simp [h] at hr
  · simp only [h, if_false, Except.ok.injEq] at hr
    subst hr
    exact ⟨rfl, rfl⟩

theorem dare_closed_loop_stable (Sv : DareSolver n m K Stab) (A : Matrix n n K) (B : Matrix n m K)
    (Q : Matrix n n K) (R : Matrix m m K) (S : Option (Matrix n m K)) (E : Option (Matrix n n K))
    (hsol : ∃ X, IsDareSol Stab A B Q R (sOf S) (eOf E) X)
    {r : AreResult n m K} (hr : dare Sv.solve A B Q R S E = .ok r) :
    Stab r.Acl (eOf r.Ecl) := by
  obtain ⟨h1, h2⟩ := dare_closed_loop_pencil Sv.solve A B Q R S E hr
  obtain ⟨_, h4⟩ := dare_gain Sv.solve A B Q R S E hr
  rw [h1, h2, h4]
  exact (dare_residual Sv A B Q R S E hsol hr).stab

/-! ## Argument validation: `_is_symmetric`, `_check_shape` and the branches that raise -/

section validation

variable {K : Type} [Field K] [LinearOrder K] [IsStrictOrderedRing K]

/-- the one-sided test `((M - M.T) < eps).all()` of `_is_symmetric` is a two-sided one (the
difference is antisymmetric), i.e. a genuine symmetry test with tolerance `eps`. -/
theorem is_symmetric_twosided {n : Type*} (eps : K) (M : Matrix n n K) :
    IsSym (some eps) M ↔ ∀ i j, |M i j - M j i| < eps := by
  constructor
  · intro h i j
    rw [abs_lt]; constructor
    · have := h j i; linarith
    · exact h i j
  · intro h i j; exact lt_of_le_of_lt (le_abs_self _) (h i j)

/-- exactly symmetric matrices pass the floating-point test … -/
theorem is_symmetric_of_transpose_eq {n : Type*} (eps : K) (h0 : 0 < eps) (M : Matrix n n K)
    (hM : Mᵀ = M) : IsSym (some eps) M := by
  intro i j
  have := congrFun (congrFun hM j) i
  rw [Matrix.transpose_apply] at this
  rw [this, sub_self]; exact h0

/-- … and the integer-dtype test `(M == M.T).all()` is exact symmetry. -/
theorem is_symmetric_int_iff {n : Type*} (M : Matrix n n K) : IsSym none M ↔ Mᵀ = M := by
  constructor
  · intro h; ext i j; exact (h j i)
  · intro h i j
    have := congrFun (congrFun h j) i
    rw [Matrix.transpose_apply] at this
    exact this

/-- `_check_shape(..., square=True)` / `symmetric=True` raises ControlDimension on a non-square
array, whatever its contents. -/
theorem shape_raises_nonsquare (M : DMat K) (n m : Nat) (sq sym : Bool)
    (h : (sq || sym) = true) (hne : M.p ≠ M.q) : checkShape M n m sq sym = .error .shape := by
  simp [checkShape, h, hne, bind, Except.bind, throw, throwThe, MonadExceptOf.throw]

/-- `_check_shape(..., symmetric=True)` raises ControlArgument on a square array that fails
`_is_symmetric` — before the expected-shape test. -/
theorem nonsymmetric_raises (M : DMat K) (n m : Nat) (sq : Bool)
    (hsq : M.p = M.q) (hns : isSymD M = .ok false) : checkShape M n m sq true = .error .badArg := by
  simp [checkShape, hsq, hns, bind, Except.bind, throw, throwThe, MonadExceptOf.throw]

/-- an array whose shape is not the expected one is never accepted. -/
theorem shape_raises (M : DMat K) (n m : Nat) (sq sym : Bool)
    (h : ¬ (M.p = n ∧ M.q = m)) : ∃ e, checkShape M n m sq sym = .error e := by
  unfold checkShape
  simp only [bind, Except.bind, throw, throwThe, MonadExceptOf.throw, pure, Except.pure]
  split
  · exact ⟨_, rfl⟩
  · split
    · split
      · exact ⟨_, rfl⟩
      · split
        · exact ⟨_, rfl⟩
        · simp [h]
    · simp [h]

/-- conversely, what `_check_shape` accepts has the expected shape, is square when asked, and
passes `_is_symmetric` when asked. -/
theorem checkShape_ok (M : DMat K) (n m : Nat) (sq sym : Bool) {M' : Matrix (Fin n) (Fin m) K}
    (h : checkShape M n m sq sym = .ok M') :
    M.p = n ∧ M.q = m ∧ ((sq || sym) = true → M.p = M.q) ∧ (sym = true → isSymD M = .ok true) := by
  by_cases hs : M.p = n ∧ M.q = m
  · refine ⟨hs.1, hs.2, ?_, ?_⟩
    · intro hq
      by_contra hne
      rw [shape_raises_nonsquare M n m sq sym hq hne] at h
      cases h
    · intro hsym
      subst hsym
      by_cases hsq : M.p = M.q
      · cases hq : isSymD M with
        | error e => simp [isSymD, hsq] at hq
        | ok b =>
          cases b
          · rw [nonsymmetric_raises M n m sq hsq hq] at h; cases h
          · rfl
      · rw [shape_raises_nonsquare M n m sq true (by simp) hsq] at h
        cases h
  · obtain ⟨e, he⟩ := shape_raises M n m sq sym hs
    rw [he] at h; cases h

/-- a correctly shaped (typed) array that is symmetric where required is accepted unchanged. -/
theorem checkShape_of {n m : Nat} (M : Matrix (Fin n) (Fin m) K) (tol : Option K) (sq sym : Bool)
    (hsq : (sq || sym) = true → n = m)
    (hsym : sym = true → isSymD (DMat.of M tol) = .ok true) :
    checkShape (DMat.of M tol) n m sq sym = .ok M := by
  have hc : ∀ (h1 : (DMat.of M tol).p = n) (h2 : (DMat.of M tol).q = m),
      (DMat.of M tol).cast h1 h2 = M := by
    intro h1 h2; ext i j; rfl
  have hp : (DMat.of M tol).p = n := rfl
  have hq' : (DMat.of M tol).q = m := rfl
  unfold checkShape
  cases sym
  · cases sq
    · simp [hp, hq', hc, bind, Except.bind, pure, Except.pure]
    · have := hsq rfl
      subst this
      simp [hp, hq', hc, bind, Except.bind, pure, Except.pure]
  · have := hsq (by simp)
    subst this
    simp [hsym rfl, hp, hq', hc, bind, Except.bind, pure, Except.pure]

/-- `lyap(A, Q)` reaches the solver only with square `A`, `Q` of the same size and `Q` passing
the symmetry test: wrongly shaped or non-symmetric weights raise. -/
theorem lyap_validates (A Q : DMat K) {P : LyapPlan K} (h : lyapPlan A Q none none = .ok P) :
    A.q = A.p ∧ Q.p = A.p ∧ Q.q = A.p ∧ isSymD Q = .ok true := by
  unfold lyapPlan at h
  obtain ⟨A', hA, h⟩ := bind_ok h
  obtain ⟨Q', hQ, -⟩ := bind_ok h
  have a := checkShape_ok _ _ _ _ _ hA
  have q := checkShape_ok _ _ _ _ _ hQ
  exact ⟨a.2.1, q.1, q.2.1, q.2.2.2 rfl⟩

/-- the same for `dlyap(A, Q)`. -/
theorem dlyap_validates (A Q : DMat K) {P : DLyapPlan K} (h : dlyapPlan A Q none none = .ok P) :
    A.q = A.p ∧ Q.p = A.p ∧ Q.q = A.p ∧ isSymD Q = .ok true := by
  unfold dlyapPlan at h
  obtain ⟨A', hA, h⟩ := bind_ok h
  obtain ⟨Q', hQ, -⟩ := bind_ok h
  have a := checkShape_ok _ _ _ _ _ hA
  have q := checkShape_ok _ _ _ _ _ hQ
  exact ⟨a.2.1, q.1, q.2.1, q.2.2.2 rfl⟩

/-- through SciPy only the standard discrete equation is available: `dlyap` with `C` or `E`
raises, as does `lyap` with `E`. -/
theorem dlyap_extra_raises (A Q : DMat K) (C E : Option (DMat K)) (h : C ≠ none ∨ E ≠ none) :
    ∃ e, dlyapPlan A Q C E = .error e := by
  unfold dlyapPlan
  cases hA : checkShape A A.p A.p true false with
  | error e => exact ⟨e, by simp only [bind, Except.bind, hA]⟩
  | ok A' =>
    cases C <;> cases E
    · simp at h
    all_goals
      simp only [bind, Except.bind, throw, throwThe, MonadExceptOf.throw, hA]
      repeat' split
      all_goals exact ⟨_, rfl⟩

/-- `care` reaches the solver only with `stabilizing=True`, square `A`, `B` with as many rows,
`Q` of the size of `A` and `R` (or the identity standing in for it) of the size of `B`'s
column count, both passing the symmetry test. -/
theorem care_validates (eps : K) (st : Bool) (A B Q : DMat K) (R S E : Option (DMat K))
    {P : ArePlan K} (h : carePlan eps st A B Q R S E = .ok P) :
    A.q = A.p ∧ B.p = A.p ∧ (Q.p = A.p ∧ Q.q = A.p ∧ isSymD Q = .ok true) ∧
    ((rOf B eps R).p = B.q ∧ (rOf B eps R).q = B.q ∧ isSymD (rOf B eps R) = .ok true) := by
  unfold carePlan at h
  obtain ⟨A', hA, h⟩ := bind_ok h
  obtain ⟨B', hB, h⟩ := bind_ok h
  obtain ⟨Q', hQ, h⟩ := bind_ok h
  obtain ⟨R', hR, -⟩ := bind_ok h
  have a := checkShape_ok _ _ _ _ _ hA
  have b := checkShape_ok _ _ _ _ _ hB
  have q := checkShape_ok _ _ _ _ _ hQ
  have r := checkShape_ok _ _ _ _ _ hR
  exact ⟨a.2.1, b.1, ⟨q.1, q.2.1, q.2.2.2 rfl⟩, ⟨r.1, r.2.1, r.2.2.2 rfl⟩⟩

/-- the same for `dare`. -/
theorem dare_validates (eps : K) (st : Bool) (A B Q : DMat K) (R S E : Option (DMat K))
    {P : ArePlan K} (h : darePlan eps st A B Q R S E = .ok P) :
    A.q = A.p ∧ B.p = A.p ∧ (Q.p = A.p ∧ Q.q = A.p ∧ isSymD Q = .ok true) ∧
    ((rOf B eps R).p = B.q ∧ (rOf B eps R).q = B.q ∧ isSymD (rOf B eps R) = .ok true) := by
  unfold darePlan at h
  obtain ⟨A', hA, h⟩ := bind_ok h
  obtain ⟨B', hB, h⟩ := bind_ok h
  obtain ⟨Q', hQ, h⟩ := bind_ok h
  obtain ⟨R', hR, -⟩ := bind_ok h
  have a := checkShape_ok _ _ _ _ _ hA
  have b := checkShape_ok _ _ _ _ _ hB
  have q := checkShape_ok _ _ _ _ _ hQ
  have r := checkShape_ok _ _ _ _ _ hR
  exact ⟨a.2.1, b.1, ⟨q.1, q.2.1, q.2.2.2 rfl⟩, ⟨r.1, r.2.1, r.2.2.2 rfl⟩⟩

/-- on well-shaped data with symmetric `Q` the run-time layer is the typed `lyap`: the residual
theorem applies to what `lyap(A, Q)` returns. -/
theorem lyapD_typed (Sv : Solvers K) {n : Nat} (A Q : Matrix (Fin n) (Fin n) K) (tA tQ : Option K)
    (hQ : isSymD (DMat.of Q tQ) = .ok true) :
    lyapD Sv (DMat.of A tA) (DMat.of Q tQ) none none
      = .ok (DMat.of (lyap (Sv.clyap n) A Q) none) := by
  have hA' : checkShape (DMat.of A tA) (DMat.of A tA).p (DMat.of A tA).p true false = .ok A :=
    checkShape_of A tA true false (fun _ => rfl) (by simp)
  have hQ' : checkShape (DMat.of Q tQ) (DMat.of A tA).p (DMat.of A tA).p true true = .ok Q :=
    checkShape_of Q tQ true true (fun _ => rfl) (fun _ => hQ)
  simp only [lyapD, lyapPlan, hA', hQ', bind, Except.bind, pure, Except.pure]
  rfl

end validation

/-! ## Non-vacuity: concrete instances meeting the hypotheses -/

section nonvacuity

/-- `lyap_residual` / `lyap_unique`: a 2 × 2 problem with exactly one solution -/
example : ∃! X : Matrix (Fin 2) (Fin 2) ℚ,
    !![-1, 0; 0, -2] * X + X * (!![-1, 0; 0, -2] : Matrix (Fin 2) (Fin 2) ℚ)ᵀ + !![2, 3; 3, 4] = 0 := by
  refine ⟨!![1, 1; 1, 1], ?_, ?_⟩
  · ext i j
    fin_cases i <;> fin_cases j <;>
      simp [Matrix.mul_apply, Fin.sum_univ_two, Matrix.vecMul, dotProduct, Matrix.vecHead,
        Matrix.vecTail] <;> norm_num
  · intro y hy
    ext i j
    have h := congrFun (congrFun hy i) j
    fin_cases i <;> fin_cases j <;>
      simp [Matrix.mul_apply, Fin.sum_univ_two, Matrix.vecMul, dotProduct, Matrix.vecHead,
        Matrix.vecTail] at h ⊢ <;> linarith

/-- the solver contracts are inhabited for every size and field -/
noncomputable example {n : Type*} [Fintype n] {K : Type*} [Field K] : CLyapSolver n K :=
  CLyapSolver.ofChoice
noncomputable example {n m : Type*} [Fintype n] [Fintype m] [DecidableEq n] [DecidableEq m]
    {K : Type*} [Field K] (Stab : Matrix n n K → Matrix n n K → Prop) : CareSolver n m K Stab :=
  CareSolver.ofChoice Stab

/-- `care_residual` / `care_closed_loop_stable`: `A = 0`, `B = Q = R = I` (standard branch) has the
symmetric solution `X = I` with closed loop `-I`; `Stab` = "a negative multiple of `E`" -/
example : IsCareSol (fun Acl E => ∃ c : ℚ, c < 0 ∧ Acl = c • E) (0 : Matrix (Fin 2) (Fin 2) ℚ)
    (1 : Matrix (Fin 2) (Fin 2) ℚ) 1 1 (sOf none) (eOf none) 1 := by
  refine ⟨?_, by simp, ⟨-1, by norm_num, ?_⟩⟩
  · simp [CareEq, sOf, eOf]
  · simp [careGainDoc, sOf, eOf]

/-- … and `care` returns on it, whatever the solver -/
example (solve : AreCall (Fin 2) (Fin 2) ℚ → Matrix (Fin 2) (Fin 2) ℚ) :
    ∃ r, care solve 0 1 1 1 none none = .ok r := by
  simp [care]

/-- `dare_residual`: `A = 0`, `B = Q = R = I` has the solution `X = I` with closed loop `0` -/
example : IsDareSol (fun Acl E => ∃ c : ℚ, |c| < 1 ∧ Acl = c • E) (0 : Matrix (Fin 2) (Fin 2) ℚ)
    (1 : Matrix (Fin 2) (Fin 2) ℚ) 1 1 (sOf none) (eOf none) 1 := by
  refine ⟨?_, by simp, ⟨0, by norm_num, ?_⟩⟩
  · simp [DareEq, sOf, eOf]
  · simp [dareGainDoc, sOf, eOf]

/-- `_is_symmetric` with the binary64 epsilon: a symmetric matrix passes, an asymmetry of either
sign fails (the one-sided comparison sees both) -/
example : IsSym (some (1/4503599627370496 : ℚ)) !![2, 1; 1, 3] := by decide +kernel
example : ¬ IsSym (some (1/4503599627370496 : ℚ)) !![2, 1; -1, 3] := by decide +kernel
example : ¬ IsSym (some (1/4503599627370496 : ℚ)) !![2, -1; 1, 3] := by decide +kernel
/-- `nonsymmetric_raises`: its hypothesis on an integer array -/
example : isSymD (DMat.of (!![2, -1; 1, 3] : Matrix (Fin 2) (Fin 2) ℚ) none) = .ok false := by
  decide +kernel

end nonvacuity

end CtrlVerif.C10
