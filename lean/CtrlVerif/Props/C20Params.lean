/-
C20, parameter class — a trajectory planned by `point_to_point(sys, …, params=arg)` for a user-defined
flat system that declares default parameters is feasible for the dynamics the caller gets from
`sys.dynamics(t, x, u, params=arg)`.

`Model/FlatParams.lean`: dicts (`PDict`, `update`), parameter reads of the user's callables (`PRead`,
`readAll`), the two resolutions (`dynParams` = `_update_params`, `p2pParamsCode` = flatsys.py as it
stands, `p2pParams` = the model), `ParFlatSys`, `p2pPar`, `trajEvalPar`.

* `lookup_update` — `{**d, **o}[k]` is `o[k]` when present, else `d[k]`;
* `dynParams_none`, `dynParams_empty` — `params=None` and `params={}` both give the declared defaults;
* `val_dyn_override`, `val_dyn_default`, `val_dyn_fallback` — what a read sees: the override, else the
  declared default, else the callable's own fallback (`none` = `KeyError`);
* `code_read_eq_iff` — the read under the code's resolution (`params` REPLACES `sys.params`) equals the
  read under the dynamics' resolution IFF the call overrides that key, or the system does not declare
  it, or the declared default equals the callable's fallback, or `params` is `None`;
  `code_readAll_eq` — hence all reads agree when every read is of that kind;
* `wrong_precedence_read` — with `{**arg, **sys.params}` a key that is declared and overridden with a
  different value is read wrongly (the merged dict with the precedence reversed is NOT the model);
* `p2pPar_eq`, `trajEvalPar_eq`, `p2pPar_keyError`, `p2pPar_basis_too_small` — `point_to_point` with
  parameters is `p2pM` on the maps at the values read from `dynParams`;
* `par_endpoints` — both end points for every override;
* `par_feasible` (ℝ) — the state derivative of the trajectory equals the dynamics *at the parameter
  values `sys.dynamics(…, params=arg)` reads*, for every override, at every time.
-/
import CtrlVerif.Model.FlatParams
import CtrlVerif.Props.C20Multi

namespace CtrlVerif.C20Params

open CtrlVerif

variable {K : Type}

/-- `{**d, **o}[k]`: the entry of `o` when there is one, else that of `d`. -/
theorem lookup_update (d o : PDict K) (k : Nat) :
    (PDict.update d o).lookup k = (o.lookup k).or (d.lookup k) := by
  simp [PDict.update, List.lookup_append]

theorem dynParams_none (d : PDict K) : dynParams d none = d := rfl

/-- `params={}` is `if params:`-false: the defaults. -/
theorem dynParams_empty (d : PDict K) : dynParams d (some []) = d := by
  simp [dynParams, PDict.update]

/-- an overridden key is read from the override. -/
theorem val_dyn_override (r : PRead K) (d o : PDict K) {v : K} (h : o.lookup r.key = some v) :
    r.val (dynParams d (some o)) = some v := by
  simp [PRead.val, dynParams, lookup_update, h]

/-- a declared key that the call does not override is read from `sys.params`. -/
theorem val_dyn_default (r : PRead K) (d o : PDict K) {v : K} (ho : o.lookup r.key = none)
    (hd : d.lookup r.key = some v) : r.val (dynParams d (some o)) = some v := by
  simp [PRead.val, dynParams, lookup_update, ho, hd]

/-- a key found nowhere: the callable's own fallback (`none`: `params[key]` raises). -/
theorem val_dyn_fallback (r : PRead K) (d o : PDict K) (ho : o.lookup r.key = none)
    (hd : d.lookup r.key = none) : r.val (dynParams d (some o)) = r.fb := by
  simp [PRead.val, dynParams, lookup_update, ho, hd]

/-- **When does flatsys.py (the argument replaces `sys.params`) read what the dynamics read?**
Exactly when the key is overridden, or not declared, or declared with the callable's fallback. -/
theorem code_read_eq_iff (r : PRead K) (d o : PDict K) :
    r.val (p2pParamsCode d (some o)) = r.val (dynParams d (some o)) ↔
      (o.lookup r.key).isSome ∨ d.lookup r.key = none ∨ d.lookup r.key = r.fb := by
  simp only [PRead.val, p2pParamsCode, Option.getD_some, dynParams, lookup_update]
  cases ho : o.lookup r.key with
  | some v => simp
  | none =>
    cases hd : d.lookup r.key with
    | none => simp
    | some w =>
      cases hf : r.fb with
      | none => simp
      | some f =>
        simp only [Option.none_or, Option.some_or, Option.isSome_none, Bool.false_eq_true,
          reduceCtorEq, false_or]
        exact eq_comm

theorem code_read_none (r : PRead K) (d : PDict K) :
    r.val (p2pParamsCode d none) = r.val (dynParams d none) := rfl

/-- all reads agree when each of them is of the kind of `code_read_eq_iff`. -/
theorem code_readAll_eq {np : Nat} (rs : Fin np → PRead K) (d o : PDict K)
    (h : ∀ a, (o.lookup (rs a).key).isSome ∨ d.lookup (rs a).key = none ∨
      d.lookup (rs a).key = (rs a).fb) :
    readAll rs (p2pParamsCode d (some o)) = readAll rs (dynParams d (some o)) := by
  have hv : ∀ a, (rs a).val (p2pParamsCode d (some o)) = (rs a).val (dynParams d (some o)) :=
    fun a => (code_read_eq_iff (rs a) d o).2 (h a)
  unfold readAll
  simp only [hv]

/-- the merge with the precedence reversed, `{**arg, **sys.params}`: a key that the system declares
(value `w`) and the call overrides (value `v ≠ w`) is read as `w`, not as `v`. -/
theorem wrong_precedence_read (r : PRead K) (d o : PDict K) {v w : K} (ho : o.lookup r.key = some v)
    (hd : d.lookup r.key = some w) (hne : v ≠ w) :
    r.val (PDict.update o d) ≠ r.val (dynParams d (some o)) := by
  simp [PRead.val, dynParams, lookup_update, ho, hd, Ne.symm hne]

/-- `readAll` returns the values of the single reads. -/
theorem readAll_some {np : Nat} {rs : Fin np → PRead K} {d : PDict K} {ρ : Fin np → K}
    (h : readAll rs d = some ρ) (a : Fin np) : (rs a).val d = some (ρ a) := by
  unfold readAll at h
  split at h
  · injection h with h
    subst h
    simp
  · exact absurd h (by simp)

variable [Field K] [DecidableEq K] {n m np : Nat} {len : Fin m → Nat}

/-- `point_to_point(…, params=arg)` is `p2pM` on the maps at the values the dynamics read. -/
theorem p2pPar_eq (S : ParFlatSys n m len np K) (arg : Option (PDict K)) {ρ : Fin np → K}
    (hρ : readAll S.reads (dynParams S.sysP arg) = some ρ) (bs : Basis K) (T0 Tf : K)
    (x0 : Fin n → K) (u0 : Fin m → K) (xf : Fin n → K) (uf : Fin m → K) :
    p2pPar S arg bs T0 Tf x0 u0 xf uf = p2pM (S.maps ρ) bs T0 Tf x0 u0 xf uf := by
  simp [p2pPar, p2pParams, hρ]

omit [DecidableEq K] in
theorem trajEvalPar_eq (S : ParFlatSys n m len np K) (arg : Option (PDict K)) {ρ : Fin np → K}
    (hρ : readAll S.reads (dynParams S.sysP arg) = some ρ) (bs : Basis K)
    (α : Fin (m * bs.N) → K) (t : K) :
    trajEvalPar S arg bs α t = some (trajEvalM (S.maps ρ) bs α t) := by
  simp [trajEvalPar, p2pParams, hρ]

/-- a strict read `params[key]` of a key that is neither declared nor passed: `KeyError`. -/
theorem p2pPar_keyError (S : ParFlatSys n m len np K) (arg : Option (PDict K))
    (hρ : readAll S.reads (dynParams S.sysP arg) = none) (bs : Basis K)
    (hN : ¬ m * bs.N < 2 * (n + m)) (T0 Tf : K)
    (x0 : Fin n → K) (u0 : Fin m → K) (xf : Fin n → K) (uf : Fin m → K) :
    p2pPar S arg bs T0 Tf x0 u0 xf uf = .error (.py .unknownName) := by
  simp [p2pPar, p2pParams, hρ, hN]

/-- the size test does not depend on the parameters. -/
theorem p2pPar_basis_too_small (S : ParFlatSys n m len np K) (arg : Option (PDict K)) (bs : Basis K)
    (hN : m * bs.N < 2 * (n + m)) (T0 Tf : K)
    (x0 : Fin n → K) (u0 : Fin m → K) (xf : Fin n → K) (uf : Fin m → K) :
    p2pPar S arg bs T0 Tf x0 u0 xf uf = .error (.py .badArg) := by
  unfold p2pPar
  split
  · simp [hN]
  · exact C20Multi.p2pM_basis_too_small _ bs T0 Tf x0 u0 xf uf hN

/-- a successful call has read all its parameters. -/
theorem p2pPar_ok_reads {S : ParFlatSys n m len np K} {arg : Option (PDict K)} {bs : Basis K}
    {T0 Tf : K} {x0 : Fin n → K} {u0 : Fin m → K} {xf : Fin n → K} {uf : Fin m → K}
    {r : Option (Fin (m * bs.N) → K)} (h : p2pPar S arg bs T0 Tf x0 u0 xf uf = .ok r) :
    ∃ ρ, readAll S.reads (dynParams S.sysP arg) = some ρ ∧
      p2pM (S.maps ρ) bs T0 Tf x0 u0 xf uf = .ok r := by
  unfold p2pPar p2pParams at h
  split at h
  · split at h <;> exact absurd h (by simp)
  · next ρ hρ => exact ⟨ρ, hρ, h⟩

/-- **End points, for every override**: if the user's maps are mutually inverse for every parameter
value, the trajectory starts at `(x0, u0)` and ends at `(xf, uf)`. -/
theorem par_endpoints {S : ParFlatSys n m len np K}
    (hinv : ∀ ρ x u, (S.maps ρ).reverse ((S.maps ρ).forward x u) = (x, u))
    {arg : Option (PDict K)} {bs : Basis K} {T0 Tf : K} {x0 : Fin n → K} {u0 : Fin m → K}
    {xf : Fin n → K} {uf : Fin m → K} {α : Fin (m * bs.N) → K}
    (h : p2pPar S arg bs T0 Tf x0 u0 xf uf = .ok (some α)) :
    trajEvalPar S arg bs α T0 = some (x0, u0) ∧ trajEvalPar S arg bs α Tf = some (xf, uf) := by
  obtain ⟨ρ, hρ, hp⟩ := p2pPar_ok_reads h
  rw [trajEvalPar_eq S arg hρ, trajEvalPar_eq S arg hρ]
  have := C20Multi.endpoints (hinv ρ) hp
  exact ⟨by rw [this.1], by rw [this.2]⟩

/-- **Feasibility for the requested parameters** (over ℝ): `f ρ` are the dynamics of the system at
the parameter values `ρ`; if for every `ρ` the flag is a flat flag of `ẋ = f ρ (x, u)`, then the
trajectory planned with `params=arg` satisfies, at every time, `ẋ(t) = f ρ (x(t), u(t))` for THE `ρ`
THAT `sys.dynamics(t, x, u, params=arg)` READS (`readAll S.reads (dynParams S.sysP arg)`). -/
theorem par_feasible {S : ParFlatSys n m len np ℝ}
    (hinv : ∀ ρ x u, (S.maps ρ).reverse ((S.maps ρ).forward x u) = (x, u))
    (f : (Fin np → ℝ) → (Fin n → ℝ) → (Fin m → ℝ) → (Fin n → ℝ))
    (D : (Fin np → ℝ) → Flags m len ℝ → (Flags m len ℝ →L[ℝ] (Fin n → ℝ)))
    (hD : ∀ ρ z, HasFDerivAt (fun z => ((S.maps ρ).reverse z).1) (D ρ z) z)
    (hflat : ∀ ρ z w, D ρ z (C20Multi.shiftFlag z w) =
      f ρ ((S.maps ρ).reverse z).1 ((S.maps ρ).reverse z).2)
    {arg : Option (PDict ℝ)} {bs : Basis ℝ} {T0 Tf : ℝ} {x0 : Fin n → ℝ} {u0 : Fin m → ℝ}
    {xf : Fin n → ℝ} {uf : Fin m → ℝ} {α : Fin (m * bs.N) → ℝ}
    (h : p2pPar S arg bs T0 Tf x0 u0 xf uf = .ok (some α)) :
    ∃ ρ, readAll S.reads (dynParams S.sysP arg) = some ρ ∧
      trajEvalPar S arg bs α T0 = some (x0, u0) ∧ trajEvalPar S arg bs α Tf = some (xf, uf) ∧
      ∀ t, trajEvalPar S arg bs α t = some (trajEvalM (S.maps ρ) bs α t) ∧
        HasDerivAt (fun s => (trajEvalM (S.maps ρ) bs α s).1)
          (f ρ (trajEvalM (S.maps ρ) bs α t).1 (trajEvalM (S.maps ρ) bs α t).2) t := by
  obtain ⟨ρ, hρ, hp⟩ := p2pPar_ok_reads h
  have he := par_endpoints hinv h
  have hf := C20Multi.point_to_point_feasible (S.maps ρ) (hinv ρ) (f ρ) (D ρ) (hD ρ) (hflat ρ) hp
  exact ⟨ρ, hρ, he.1, he.2, fun t => ⟨trajEvalPar_eq S arg hρ bs α t, hf.2.2 t⟩⟩

/-! ### non-vacuity: `x' = -p x + u` with `sys.params = {0: 3}` and the call `params={0: 9/2}` -/

section example_

/-- the callables read parameter `0` as `params.get(0, 3)`. -/
def exReads : Fin 1 → PRead ℚ := fun _ => ⟨0, some 3⟩

/-- `forward (x, u) = [[x, u - p x]]`, `reverse z = (z₀, z₁ + p z₀)`. -/
def exSys : ParFlatSys 1 1 (fun _ => 2) 1 ℚ where
  reads := exReads
  sysP := [(0, 3)]
  maps := fun ρ =>
    { forward := fun x u _ k => if k.val = 0 then x 0 else u 0 - ρ 0 * x 0
      reverse := fun z => (fun _ => z 0 ⟨0, by decide⟩,
                           fun _ => z 0 ⟨1, by decide⟩ + ρ 0 * z 0 ⟨0, by decide⟩) }

/-- hypothesis `hinv` holds for the example. -/
example (ρ : Fin 1 → ℚ) (x : Fin 1 → ℚ) (u : Fin 1 → ℚ) :
    (exSys.maps ρ).reverse ((exSys.maps ρ).forward x u) = (x, u) := by
  ext i <;> fin_cases i <;> simp [exSys]

/-- the override is what is read; without an argument the declared default; the code's resolution
agrees here (the key is overridden), the reversed precedence does not. -/
example : (readAll exReads (dynParams [(0, 3)] (some [(0, 9/2)]))).map (· 0) = some (9/2) := by
  decide +kernel
example : (readAll exReads (dynParams [(0, 3)] none)).map (· 0) = some 3 := by decide +kernel
example : (readAll exReads (dynParams [(0, 3)] (some []))).map (· 0) = some 3 := by decide +kernel
example : (readAll exReads (p2pParamsCode [(0, 3)] (some [(0, 9/2)]))).map (· 0) = some (9/2) := by
  decide +kernel
example : (readAll exReads (PDict.update [(0, 9/2)] [(0, 3)])).map (· 0) = some 3 := by
  decide +kernel
/-- partial override of a system that declares a second parameter with a value different from the
callable's fallback: the code's resolution reads the fallback, the dynamics the declared value. -/
example : (⟨1, some (2 : ℚ)⟩ : PRead ℚ).val (p2pParamsCode [(0, 3), (1, 5)] (some [(0, 4)])) = some 2 ∧
    (⟨1, some (2 : ℚ)⟩ : PRead ℚ).val (dynParams [(0, 3), (1, 5)] (some [(0, 4)])) = some 5 := by
  decide +kernel
/-- `point_to_point` succeeds on the example (polynomial basis with 4 coefficients). -/
example : ((p2pPar exSys (some [(0, 9/2)]) (.poly 4 1) 0 1 (fun _ => 1) (fun _ => 0) (fun _ => 0)
    (fun _ => 1)).toOption.bind id).isSome = true := by decide +kernel
/-- a strict read without a value raises. -/
example : readAll (fun _ : Fin 1 => (⟨7, none⟩ : PRead ℚ)) (dynParams [(0, 3)] (some [(1, 2)])) = none := by
  decide +kernel

end example_

end CtrlVerif.C20Params
