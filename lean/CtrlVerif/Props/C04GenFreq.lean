/-
Source-text tie of C04 (DESIGN §10.3, notes/NOTES-py2lean-eval.md), part 5:
`LTI.frequency_response` and the `freqresp` wrappers.

`Generated/EvalFreq.lean` is rewritten on every run from the text of `frequency_response` in
control/lti.py (and `freqresp` in xferfcn.py / statesp.py) of the tree under check: `np.sort` of the
frequencies, `self.isdtime(strict=True)`, the evaluation points `np.exp(1j * omega * self.dt)` or
`1j * omega` (NumPy's `exp` is the parameter `E` of the model), the call `self(s, squeeze=False)`, the
`FrequencyResponseData` object (grid, data, timebase).  The model's `freqResp` (`sortW`,
`freqPoints`, `call`) is proved EQUAL to it for every system on every valid timebase and every list
of frequencies; `C04.freq_sorted`, `freq_perm`, `freq_response_spec`, `freqPoint_cont / _disc` are
transported.
-/
import CtrlVerif.Generated.EvalFreq
import CtrlVerif.Props.C04GenDc

set_option linter.unusedSimpArgs false
set_option linter.unusedSectionVars false

namespace CtrlVerif.C04Gen
open CtrlVerif CtrlVerif.Eval CtrlVerif.PyEval

variable {K : Type} [Field K] [DecidableEq K]

theorem npSort_eq (ws : List ℚ) : npSort ws = sortW ws := rfl

/-- the model's evaluation points in terms of the primitives the code uses, timebase by timebase. -/
theorem freqPoints_none (E : Env K) (ws : List ℚ) : freqPoints E .none ws = jwArr E (npSort ws) := by
  simp [freqPoints, jwArr, npSort_eq, freqPoint]
theorem freqPoints_cont (E : Env K) (ws : List ℚ) : freqPoints E .cont ws = jwArr E (npSort ws) := by
  simp [freqPoints, jwArr, npSort_eq, freqPoint]
theorem freqPoints_dtrue (E : Env K) (ws : List ℚ) : freqPoints E .dtrue ws = expjArr E 1 (npSort ws) := by
  simp [freqPoints, expjArr, npSort_eq, freqPoint]
theorem freqPoints_disc (E : Env K) (h : ℚ) (ws : List ℚ) :
    freqPoints E (.disc h) ws = expjArr E h (npSort ws) := by
  simp [freqPoints, expjArr, npSort_eq, freqPoint]

/-- what `frequency_response` returns according to the model: the sorted grid, the values of the
system at the points of the sorted frequencies, the timebase. -/
def freqModel (P : Parts K) (E : Env K) (L : LTI K) (ws : List ℚ) : FResp K :=
  ⟨sortW ws, ltiTarget P L (freqPoints E L.dt ws), L.dt⟩

theorem jwArr_length (E : Env K) (l : List ℚ) : (jwArr E l).length = l.length := by simp [jwArr]
theorem expjArr_length (E : Env K) (h : ℚ) (l : List ℚ) : (expjArr E h l).length = l.length := by
  simp [expjArr]

theorem ltiTarget_n (P : Parts K) (L : LTI K) (xs : List K) : (ltiTarget P L xs).n = xs.length := rfl

theorem freqPoints_length (E : Env K) (d : Dt) (ws : List ℚ) :
    (freqPoints E d ws).length = (sortW ws).length := by simp [freqPoints]

/-- **`LTI.frequency_response` as the source text computes it is the model's `freqResp`**: the grid
is `np.sort(omega)`, the data are the values of `sys` at `jω` / `exp(jω·dt)` in that order, for
transfer functions and state-space systems of all sizes, every valid timebase, every list of
frequencies (unsorted, repeated), whatever `squeeze`. -/
theorem generated_freqresp_eq (P : Parts K) (E : Env K) (L : LTI K) (hv : L.dt.valid) (ws : List ℚ)
    (sq : Option Bool) :
    Generated.ltiFrequencyResponse P E L ws sq = .ok (freqModel P E L ws) := by
  unfold freqModel
  have hlen : ∀ d, (freqPoints E d ws).length = (npSort ws).length := fun d => freqPoints_length E d ws
  cases L with
  | tf p m e dt =>
    have hv' : dt.valid := hv
    unfold Generated.ltiFrequencyResponse
    cases dt with
    | none =>
      have := hlen .none
      simp only [freqPoints_none] at this
      simp [C05Pred.generated_ioIsdtime_eq, DtPred.isdtime, generated_tfCall_eq, atleast1d_arr, tfTarget_eq_lti,
        mkFRD, ltiTarget_n, freqPoints_none, this, LTI.dt, bind, Except.bind, pure, Except.pure, npSort_eq, jwArr_length,
        expjArr_length]
    | cont =>
      have := hlen .cont
      simp only [freqPoints_cont] at this
      simp [C05Pred.generated_ioIsdtime_eq, DtPred.isdtime, generated_tfCall_eq, atleast1d_arr, tfTarget_eq_lti,
        mkFRD, ltiTarget_n, freqPoints_cont, this, LTI.dt, bind, Except.bind, pure, Except.pure, npSort_eq, jwArr_length,
        expjArr_length]
    | dtrue =>
      have := hlen .dtrue
      simp only [freqPoints_dtrue] at this
      simp [C05Pred.generated_ioIsdtime_eq, DtPred.isdtime, dtNum, generated_tfCall_eq, atleast1d_arr,
        tfTarget_eq_lti, mkFRD, ltiTarget_n, freqPoints_dtrue, this, LTI.dt, bind, Except.bind, pure, Except.pure, npSort_eq, jwArr_length,
        expjArr_length]
    | disc h =>
      have h0 : 0 < h := hv'
      have := hlen (.disc h)
      simp only [freqPoints_disc] at this
      simp [C05Pred.generated_ioIsdtime_eq, DtPred.isdtime, h0, dtNum, generated_tfCall_eq, atleast1d_arr,
        tfTarget_eq_lti, mkFRD, ltiTarget_n, freqPoints_disc, this, LTI.dt, bind, Except.bind, pure, Except.pure, npSort_eq, jwArr_length,
        expjArr_length]
  | ss n p m S dt =>
    have hv' : dt.valid := hv
    unfold Generated.ltiFrequencyResponse
    cases dt with
    | none =>
      have := hlen .none
      simp only [freqPoints_none] at this
      simp [C05Pred.generated_ioIsdtime_eq, DtPred.isdtime, generated_ssCall_eq, atleast1d_arr, ssTarget_eq_lti P,
        mkFRD, ltiTarget_n, freqPoints_none, this, LTI.dt, bind, Except.bind, pure, Except.pure, npSort_eq, jwArr_length,
        expjArr_length]
    | cont =>
      have := hlen .cont
      simp only [freqPoints_cont] at this
      simp [C05Pred.generated_ioIsdtime_eq, DtPred.isdtime, generated_ssCall_eq, atleast1d_arr, ssTarget_eq_lti P,
        mkFRD, ltiTarget_n, freqPoints_cont, this, LTI.dt, bind, Except.bind, pure, Except.pure, npSort_eq, jwArr_length,
        expjArr_length]
    | dtrue =>
      have := hlen .dtrue
      simp only [freqPoints_dtrue] at this
      simp [C05Pred.generated_ioIsdtime_eq, DtPred.isdtime, dtNum, generated_ssCall_eq, atleast1d_arr,
        ssTarget_eq_lti P, mkFRD, ltiTarget_n, freqPoints_dtrue, this, LTI.dt, bind, Except.bind, pure, Except.pure, npSort_eq, jwArr_length,
        expjArr_length]
    | disc h =>
      have h0 : 0 < h := hv'
      have := hlen (.disc h)
      simp only [freqPoints_disc] at this
      simp [C05Pred.generated_ioIsdtime_eq, DtPred.isdtime, h0, dtNum, generated_ssCall_eq, atleast1d_arr,
        ssTarget_eq_lti P, mkFRD, ltiTarget_n, freqPoints_disc, this, LTI.dt, bind, Except.bind, pure, Except.pure, npSort_eq, jwArr_length,
        expjArr_length]

/-- the deprecated `freqresp` methods call `frequency_response`. -/
theorem generated_tfFreqresp_eq (P : Parts K) (E : Env K) (G : DTF K) (hv : G.dt.valid) (ws : List ℚ) :
    Generated.tfFreqresp P E G ws = .ok (freqModel P E (.tf G.p G.m G.sys.e G.dt) ws) := by
  unfold Generated.tfFreqresp
  exact generated_freqresp_eq P E (.tf G.p G.m G.sys.e G.dt) hv ws none

theorem generated_ssFreqresp_eq (P : Parts K) (E : Env K) (G : DSS K) (hv : G.dt.valid) (ws : List ℚ) :
    Generated.ssFreqresp P E G ws = .ok (freqModel P E (.ss G.n G.p G.m G.sys G.dt) ws) := by
  unfold Generated.ssFreqresp
  exact generated_freqresp_eq P E (.ss G.n G.p G.m G.sys G.dt) hv ws none

/-- **`C04.freq_response_spec`, `freq_sorted`, `freq_perm` hold of the function the source text
defines**: the returned grid is the sorted input (a permutation of it: repeats kept), the data have
one slab per frequency, and the `k`-th slab is the system at the point of the `k`-th *sorted*
frequency (`Eval.freqResp`). -/
theorem generated_freqresp_spec (P : Parts K) (E : Env K) (L : LTI K) (hv : L.dt.valid) (ws : List ℚ)
    (sq : Option Bool) :
    ∃ r, Generated.ltiFrequencyResponse P E L ws sq = .ok r ∧
      r.omega = (freqResp E L ws).1 ∧ r.omega.Pairwise (· ≤ ·) ∧ r.omega.Perm ws ∧
      r.data.n = ws.length ∧ r.dt = L.dt ∧
      ∀ (i : Fin L.p) (j : Fin L.m) (k : Nat) (hk : k < (sortW ws).length),
        (r.data.get i j k).map Cx.cls
          = some (call1 L (freqPoint E L.dt ((sortW ws)[k])) i j) ∧
        ((freqResp E L ws).2[k]?).map (fun M => M i j)
          = some (call1 L (freqPoint E L.dt ((sortW ws)[k])) i j) := by
  refine ⟨_, generated_freqresp_eq P E L hv ws sq, rfl, C04.freq_sorted ws, C04.freq_perm ws, ?_, rfl, ?_⟩
  · show (freqPoints E L.dt ws).length = ws.length
    simp [freqPoints, sortW]
  · intro i j k hk
    have hk' : k < (freqPoints E L.dt ws).length := by rw [freqPoints_length]; exact hk
    constructor
    · simp only [freqModel, ltiTarget]
      rw [ofFn_get _ i.isLt j.isLt hk']
      simp [C04.call1Cx_cls, freqPoints]
    · rw [(C04.freq_response_spec E L ws).2]
      simp [List.getElem?_eq_getElem hk]

/-- the evaluation points (`C04.freqPoint_cont`, `freqPoint_disc`): `jω` in continuous time and for
`dt = None`, `exp(jω·dt)` for a sampling time, `dt = True` counted as 1. -/
theorem generated_freqresp_points (P : Parts K) (E : Env K) (L : LTI K) (hv : L.dt.valid) (ws : List ℚ)
    (sq : Option Bool) :
    ∃ r, Generated.ltiFrequencyResponse P E L ws sq = .ok r ∧
      r.data = ltiTarget P L ((sortW ws).map fun w =>
        match L.dt with
        | .cont => E.jw w
        | .none => E.jw w
        | .dtrue => E.expj 1 w
        | .disc h => E.expj h w) := by
  refine ⟨_, generated_freqresp_eq P E L hv ws sq, ?_⟩
  simp only [freqModel, freqPoints]
  congr 2
  funext w
  cases L.dt <;> rfl

/-- non-vacuity over `ℚ` with a stand-in for `exp` (`jω ↦ ω`, `exp(jωh) ↦ 1 + ωh`): `1/(s+1)` on the
unsorted grid `[3, 1, 1]`: grid `[1, 1, 3]`, values `1/2, 1/2, 1/4`; the sampled system `1/(z+1)` with
`dt = 1/2` at `ω = 2`: the point is `1 + 2·(1/2) = 2`, the value `1/3`. -/
example :
    let P : Parts ℚ := ⟨id, fun _ => true, fun z => decide (z = 0), fun _ _ => rfl, fun z => by simp⟩
    let E : Env ℚ := ⟨fun w => w, fun h w => 1 + w * h⟩
    let e : Fin 1 → Fin 1 → Frac ℚ := fun _ _ => ⟨[1], [1, 1]⟩
    (∃ r, Generated.ltiFrequencyResponse P E (.tf 1 1 e .cont) [3, 1, 1] none = .ok r ∧
      r.omega = [1, 1, 3] ∧ r.data.get 0 0 0 = some (.fin (1 / 2)) ∧ r.data.get 0 0 2 = some (.fin (1 / 4))) ∧
    (∃ r, Generated.ltiFrequencyResponse P E (.tf 1 1 e (.disc (1 / 2))) [2] none = .ok r ∧
      r.data.get 0 0 0 = some (.fin (1 / 3))) := by
  intro P E e
  have hs : sortW [3, 1, 1] = [1, 1, 3] :=
    List.Perm.eq_of_pairwise (le := (· ≤ ·)) (fun _ _ _ _ h1 h2 => le_antisymm h1 h2)
      (C04.freq_sorted _) (by decide +kernel) ((C04.freq_perm _).trans (by decide +kernel))
  have hs1 : sortW [2] = [2] := by simp [sortW]
  refine ⟨⟨_, generated_freqresp_eq P E _ (by trivial) _ none, ?_, ?_, ?_⟩,
    ⟨_, generated_freqresp_eq P E _ (by decide +kernel) _ none, ?_⟩⟩
  all_goals (simp only [freqModel, freqPoints, hs, hs1]; first | done | decide +kernel)

end CtrlVerif.C04Gen
