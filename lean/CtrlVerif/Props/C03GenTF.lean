/-
Source-text tie of `_convert_to_transfer_function` (control/xferfcn.py), property C03
(notes/NOTES-py2lean-convert.md).  `Generated/ConvToTF.lean` is rewritten on every run from the
source text of the tree under check by `harness/core/py2lean_conv.py`; the theorems below prove
the hand-written model (`Model/Convert.lean`: `toTF`; `Model/TFDyn.lean`: `DTF.ofScalar / ofArray`)
EQUAL to it for every operand kind, every state-space system with at least one input and one
output (static branch, and the double loop over `scipy.signal.ss2tf(…, input=j)` for systems with
states), both values of `use_prefix_suffix`, with `scipy.signal.ss2tf` read as the model's certified
Faddeev–LeVerrier counterpart (`modelSs2tf`), and transport `ss2tf_correct` (C03FL) and the round
trip ss → tf → ss to the generated functions.
-/
import CtrlVerif.Generated.ConvToTF
import CtrlVerif.Lemmas.PyConv
import CtrlVerif.Props.C03FL
import CtrlVerif.Props.C03GenSS

namespace CtrlVerif.C03GenTF

open CtrlVerif CtrlVerif.Convert CtrlVerif.PyConv

variable {K : Type} [Field K] [DecidableEq K]

/-- the meaning of the parameter `scipy.signal.ss2tf(A, B, C, D, input=j)`: the four arrays must
fit (`PySS.mk`), `j` must be an input; the rows of the numerator array are the model's `cnum`
(`D_ij, (C M₀ B)_ij + c₁ D_ij, …`), the denominator is the model's `cden` (`1, c₁, …, c_n`), with
`(c_k, M_{k-1})` the Faddeev–LeVerrier sequence `flvPropose A` (proved to be the characteristic
polynomial / adjugate coefficients in `Props/C03FL.lean`). -/
def modelSs2tf (A B C D : PMat K) (j : Nat) : Except Err (List (List K) × List K) := do
  let S ← PySS.mk A B C D .none
  if h : j < S.m then
    pure ((List.finRange S.p).map fun i => cnum S.sys (flvPropose S.sys.A) i ⟨j, h⟩,
      cden (flvPropose S.sys.A))
  else .error .indexRange

/-- the names of the result: `_copy_names(sys, prefix_suffix_name='converted')` when
`use_prefix_suffix`, otherwise those of a new system. -/
def namesAfter (μ : Meta) (ups : Bool) (p m : Nat) : Meta :=
  if ups then ⟨μ.name ++ "$converted", μ.inputs, μ.outputs⟩ else Meta.default p m

/-- the static special case (`0 == sys.nstates`): `num = [[[D[i, j]]]]`, `den = [[[1.]]]`. -/
theorem generated_convertToTransferFunction_ss_static (G : DSS K) (μ : Meta) (ups : Bool)
    (inputs outputs : Nat) (hp : 0 < G.p) (hm : 0 < G.m) (hn : G.n = 0) :
    Generated.Conv.convertToTransferFunction modelSs2tf (.ss ⟨G, μ⟩) inputs outputs ups
      = (toTF G).bind fun T => .ok ⟨T, namesAfter μ ups T.p T.m⟩ := by
  unfold Generated.Conv.convertToTransferFunction
  simp only [SSO.nstates, hn, if_true]
  have h1 := mapM_matGet (⟨G.p, G.m, G.sys.D⟩ : PMat K)
  simp only [SSO.noutputs, SSO.ninputs, SSO.D, SSO.dt, PySS.D] at h1 ⊢
  rw [h1]
  have h2 : (List.map (fun i => List.map (fun j => [(1 : K)]) (List.range G.m)) (List.range G.p))
      = tab G.p G.m fun i j => [(1 : K)] := rfl
  simp only [ok_bind, pure_bind, h2]
  rw [mkTF_tab G.p G.m hp hm]
  unfold toTF
  rw [if_pos hn]
  have h3 : (fun (i : Fin G.p) (j : Fin G.m) =>
      (⟨[ent (⟨G.p, G.m, G.sys.D⟩ : PMat K) i.val j.val], [1]⟩ : Frac K))
      = fun i j => ⟨[G.sys.D i j], [1]⟩ := by
    funext i j
    simp [ent, i.isLt, j.isLt]
  rw [h3]
  cases TFM.mk' (o := Fin G.p) (ι := Fin G.m) fun i j => (⟨[G.sys.D i j], [1]⟩ : Frac K) with
  | error e => rfl
  | ok s =>
    cases ups
    · rfl
    · rfl


theorem modelSs2tf_parts (G : DSS K) {j : Nat} (hj : j < G.m) :
    modelSs2tf (PySS.A G) (PySS.B G) (PySS.C G) (PySS.D G) j
      = .ok ((List.finRange G.p).map fun i => cnum G.sys (flvPropose G.sys.A) i ⟨j, hj⟩,
          cden (flvPropose G.sys.A)) := by
  unfold modelSs2tf
  rw [PySS_mk_parts]
  simp only [ok_bind]
  rw [dif_pos hj]
  rfl

/-- a system with states: the loop over the inputs calling SciPy's `ss2tf`, the loop over the
outputs distributing the numerator rows and the common denominator into the nested lists, the
constructor call.  Invariant of the outer loop: after `k` rounds the columns `< k` hold the model's
`cnum` / `cden`, the others are still `[]`; of the inner loop: additionally the first rows of
column `k`. -/
theorem generated_convertToTransferFunction_ss_dynamic (G : DSS K) (μ : Meta) (ups : Bool)
    (inputs outputs : Nat) (hp : 0 < G.p) (hm : 0 < G.m) (hn : G.n ≠ 0) :
    Generated.Conv.convertToTransferFunction modelSs2tf (.ss ⟨G, μ⟩) inputs outputs ups
      = (toTF G).bind fun T => .ok ⟨T, namesAfter μ ups T.p T.m⟩ := by
  unfold Generated.Conv.convertToTransferFunction
  have hn' : ¬ (0 = G.n) := Ne.symm hn
  simp only [SSO.nstates, hn, hn', if_false, SSO.noutputs, SSO.ninputs, SSO.A, SSO.B, SSO.C,
    SSO.D, SSO.dt]
  let cn : Nat → Nat → List K := fun i j =>
    if h : i < G.p ∧ j < G.m then cnum G.sys (flvPropose G.sys.A) ⟨i, h.1⟩ ⟨j, h.2⟩ else []
  let cd : List K := cden (flvPropose G.sys.A)
  let F : Nat → List (List (List K)) × List (List (List K)) := fun jj =>
    (PyConv.tab G.p G.m (fun _ j => if j < jj then cd else []),
      PyConv.tab G.p G.m (fun i j => if j < jj then cn i j else []))
  have hinit : ((List.map (fun _ => List.map (fun _ => ([] : List K)) (List.range G.m)) (List.range G.p),
      List.map (fun _ => List.map (fun _ => ([] : List K)) (List.range G.m)) (List.range G.p))
      : List (List (List K)) × List (List (List K))) = F 0 := by
    simp [F, PyConv.tab]
  have key : ∀ body : List (List (List K)) × List (List (List K)) → Nat →
      Except Err (List (List (List K)) × List (List (List K))),
      (∀ k, k < G.m → body (F k) k = .ok (F (k + 1))) →
      List.foldlM body (F 0) (List.range G.m) = .ok (F G.m) :=
    fun body h => foldlM_range_state G.m body F h
  rw [hinit, key _ ?_]
  · simp only [ok_bind, pure_bind, F]
    have e1 : PyConv.tab G.p G.m (fun i j => if j < G.m then cn i j else []) = PyConv.tab G.p G.m cn :=
      tab_congr _ _ _ _ (fun i j _ hj => by simp [hj])
    have e2 : PyConv.tab G.p G.m (fun _ j => if j < G.m then cd else []) = PyConv.tab G.p G.m (fun _ _ => cd) :=
      tab_congr _ _ _ _ (fun i j _ hj => by simp [hj])
    rw [e1, e2, mkTF_tab G.p G.m hp hm]
    unfold toTF
    rw [if_neg hn]
    have h3 : (fun (i : Fin G.p) (j : Fin G.m) => (⟨cn i.val j.val, cd⟩ : Frac K))
        = fun i j => ss2tfRaw G.sys (flvPropose G.sys.A) i j := by
      funext i j
      simp [cn, cd, ss2tfRaw, i.isLt, j.isLt]
    rw [h3]
    dsimp only
    cases TFM.mk' (o := Fin G.p) (ι := Fin G.m) fun i j => ss2tfRaw G.sys (flvPropose G.sys.A) i j with
    | error e => rfl
    | ok s =>
      cases ups
      · rfl
      · rfl
  · intro k hk
    simp only [modelSs2tf_parts G hk, ok_bind]
    let Fi : Nat → List (List (List K)) × List (List (List K)) := fun ii =>
      (PyConv.tab G.p G.m (fun i j => if j < k ∨ (j = k ∧ i < ii) then cd else []),
        PyConv.tab G.p G.m (fun i j => if j < k ∨ (j = k ∧ i < ii) then cn i j else []))
    have hi0 : ((F k).1, (F k).2) = Fi 0 := by simp [F, Fi]
    have keyi : ∀ body : List (List (List K)) × List (List (List K)) → Nat →
        Except Err (List (List (List K)) × List (List (List K))),
        (∀ a, a < G.p → body (Fi a) a = .ok (Fi (a + 1))) →
        List.foldlM body (Fi 0) (List.range G.p) = .ok (Fi G.p) :=
      fun body h => foldlM_range_state G.p body Fi h
    rw [hi0, keyi _ ?_]
    · simp only [ok_bind, pure_bind, Fi, F]
      congr 2
      · exact tab_congr _ _ _ _ (fun i j hi _ => by
          have : (j < k ∨ j = k ∧ i < G.p) ↔ j < k + 1 := by omega
          simp only [this])
      · exact tab_congr _ _ _ _ (fun i j hi _ => by
          have : (j < k ∨ j = k ∧ i < G.p) ↔ j < k + 1 := by omega
          simp only [this])
    · intro a ha
      simp only [getNat_map_finRange G.p _ ha, ok_bind, Fi, set2_tab G.p G.m _ ha hk, pure_bind]
      congr 2
      · exact tab_congr _ _ _ _ (fun i j _ _ => by
          by_cases h1 : i = a ∧ j = k
          · obtain ⟨rfl, rfl⟩ := h1
            simp [cd]
          · have : (j < k ∨ j = k ∧ i < a + 1) ↔ (j < k ∨ j = k ∧ i < a) := by omega
            simp only [h1, if_false, this])
      · exact tab_congr _ _ _ _ (fun i j hi hj => by
          by_cases h1 : i = a ∧ j = k
          · obtain ⟨rfl, rfl⟩ := h1
            simp [cn, hi, hj]
          · have : (j < k ∨ j = k ∧ i < a + 1) ↔ (j < k ∨ j = k ∧ i < a) := by omega
            simp only [h1, if_false, this])

theorem ctor_const {p m : Nat} (g : Fin p → Fin m → K) :
    TFM.mk' (o := Fin p) (ι := Fin m) (fun i j => (⟨[g i j], [1]⟩ : Frac K)) = .ok (TFM.ofConst g) := by
  unfold TFM.mk'
  rw [if_neg (by simp [isZero])]
  rfl

/-- a `TransferFunction` argument is returned as it is. -/
theorem generated_convertToTransferFunction_tf (x : TFObj K) (inputs outputs : Nat) (ups : Bool)
    (ss2tf : PMat K → PMat K → PMat K → PMat K → Nat → Except Err (List (List K) × List K)) :
    Generated.Conv.convertToTransferFunction ss2tf (.tf x) inputs outputs ups = .ok x := rfl

/-- an FRD argument: `TypeError`. -/
theorem generated_convertToTransferFunction_frd (inputs outputs : Nat) (ups : Bool)
    (ss2tf : PMat K → PMat K → PMat K → PMat K → Nat → Except Err (List (List K) × List K)) :
    Generated.Conv.convertToTransferFunction ss2tf (.frd : Opd K) inputs outputs ups
      = .error .notImplemented := rfl

/-- a number becomes the `outputs × inputs` system with every entry the number, timebase `None`
(the model's `DTF.ofScalar`), a new system with default names. -/
theorem generated_convertToTransferFunction_scalar (c : K) (inputs outputs : Nat) (ups : Bool)
    (hi : 0 < inputs) (ho : 0 < outputs)
    (ss2tf : PMat K → PMat K → PMat K → PMat K → Nat → Except Err (List (List K) × List K)) :
    Generated.Conv.convertToTransferFunction ss2tf (.scalar c) inputs outputs ups
      = .ok ⟨DTF.ofScalar c outputs inputs, Meta.default outputs inputs⟩ := by
  unfold Generated.Conv.convertToTransferFunction
  have h := mkTF_tab_static outputs inputs ho hi (fun _ _ => c) (fun _ _ => (1 : K))
  simp only [PyConv.tab] at h
  simp only [h, ctor_const]
  rfl

example : (0 : Nat) < 3 ∧ (0 : Nat) < 2 := by decide

/-- an array becomes the static system with these gains, timebase `None` (the model's
`DTF.ofArray`; `inputs` / `outputs` are ignored). -/
theorem generated_convertToTransferFunction_array (D : PMat K) (inputs outputs : Nat) (ups : Bool)
    (hr : 0 < D.r) (hc : 0 < D.c)
    (ss2tf : PMat K → PMat K → PMat K → PMat K → Nat → Except Err (List (List K) × List K)) :
    Generated.Conv.convertToTransferFunction ss2tf (.array D) inputs outputs ups
      = .ok ⟨DTF.ofArray D.r D.c D.M, Meta.default D.r D.c⟩ := by
  unfold Generated.Conv.convertToTransferFunction
  have h1 := mapM_matGet D
  have h := mkTF_tab_static D.r D.c hr hc (ent D) (fun _ _ => (1 : K))
  simp only [matShape, h1, ok_bind, pure_bind]
  have h2 : (List.map (fun i => List.map (fun j => [(1 : K)]) (List.range D.c)) (List.range D.r))
      = tab D.r D.c fun i j => [(1 : K)] := rfl
  rw [h2, h]
  have h3 : (fun (i : Fin D.r) (j : Fin D.c) => (⟨[ent D i.val j.val], [1]⟩ : Frac K))
      = fun i j => ⟨[D.M i j], [1]⟩ := by
    funext i j
    simp [ent, i.isLt, j.isLt]
  rw [h3, ctor_const (fun i j => D.M i j)]
  rfl

example : 0 < (⟨1, 2, !![1, (2 : ℚ)]⟩ : PMat ℚ).r ∧ 0 < (⟨1, 2, !![1, (2 : ℚ)]⟩ : PMat ℚ).c := by
  decide

/-- anything else: the array conversion raises, the function raises `TypeError`. -/
theorem generated_convertToTransferFunction_foreign (inputs outputs : Nat) (ups : Bool)
    (ss2tf : PMat K → PMat K → PMat K → PMat K → Nat → Except Err (List (List K) × List K)) :
    Generated.Conv.convertToTransferFunction ss2tf (.foreign : Opd K) inputs outputs ups
      = .error .notImplemented := rfl


/-- **`_convert_to_transfer_function` on a state-space system, as the source text says it, is the
model's `toTF`** followed by the naming — every number of states, every shape with at least one
input and one output, every timebase, both values of `use_prefix_suffix`. -/
theorem generated_convertToTransferFunction_ss (G : DSS K) (μ : Meta) (ups : Bool)
    (inputs outputs : Nat) (hp : 0 < G.p) (hm : 0 < G.m) :
    Generated.Conv.convertToTransferFunction modelSs2tf (.ss ⟨G, μ⟩) inputs outputs ups
      = (toTF G).bind fun T => .ok ⟨T, namesAfter μ ups T.p T.m⟩ := by
  by_cases hn : G.n = 0
  · exact generated_convertToTransferFunction_ss_static G μ ups inputs outputs hp hm hn
  · exact generated_convertToTransferFunction_ss_dynamic G μ ups inputs outputs hp hm hn

example : 0 < (⟨2, 1, 1, ⟨!![-1, 2; 0, -3], !![1; 1], !![1, 0], !![0]⟩, .cont⟩ : DSS ℚ).p ∧
    0 < (⟨2, 1, 1, ⟨!![-1, 2; 0, -3], !![1; 1], !![1, 0], !![0]⟩, .cont⟩ : DSS ℚ).m := by decide

/-- the model of the whole function, per operand kind. -/
def modelConvert (x : Opd K) (inputs outputs : Nat) (ups : Bool) : Except Err (TFObj K) :=
  match x with
  | .tf x => .ok x
  | .ss x => (toTF x.sys).bind fun T => .ok ⟨T, namesAfter x.names ups T.p T.m⟩
  | .frd => .error .notImplemented
  | .scalar c => .ok ⟨DTF.ofScalar c outputs inputs, Meta.default outputs inputs⟩
  | .array D => .ok ⟨DTF.ofArray D.r D.c D.M, Meta.default D.r D.c⟩
  | .foreign => .error .notImplemented

/-- the domain: systems and arrays have at least one row and one column, and so has the requested
shape of a scalar (no `TransferFunction` without inputs or outputs exists: on such data the source
text raises, `generated_convertToTransferFunction_scalar_empty`). -/
def InDomain (x : Opd K) (inputs outputs : Nat) : Prop :=
  match x with
  | .ss x => 0 < x.sys.p ∧ 0 < x.sys.m
  | .scalar _ => 0 < inputs ∧ 0 < outputs
  | .array D => 0 < D.r ∧ 0 < D.c
  | _ => True

/-- **the generated `_convert_to_transfer_function` equals the model for every argument in its
domain.** -/
theorem generated_convertToTransferFunction_eq (x : Opd K) (inputs outputs : Nat) (ups : Bool)
    (hd : InDomain x inputs outputs) :
    Generated.Conv.convertToTransferFunction modelSs2tf x inputs outputs ups
      = modelConvert x inputs outputs ups := by
  cases x with
  | ss y => exact generated_convertToTransferFunction_ss y.sys y.names ups inputs outputs hd.1 hd.2
  | tf y => rfl
  | frd => rfl
  | scalar c => exact generated_convertToTransferFunction_scalar c inputs outputs ups hd.1 hd.2 _
  | array D => exact generated_convertToTransferFunction_array D inputs outputs ups hd.1 hd.2 _
  | foreign => rfl

example : InDomain (.scalar (3 : ℚ)) 3 2 := ⟨by decide, by decide⟩

/-- outside the domain the source text raises: a scalar broadcast to no outputs. -/
theorem generated_convertToTransferFunction_scalar_empty (c : K) (inputs : Nat) (ups : Bool)
    (ss2tf : PMat K → PMat K → PMat K → PMat K → Nat → Except Err (List (List K) × List K)) :
    Generated.Conv.convertToTransferFunction ss2tf (.scalar c) inputs 0 ups = .error .shape := by
  unfold Generated.Conv.convertToTransferFunction
  simp [mkTF]

/-- with `use_prefix_suffix = not sys._generic_name_check()` (what `ss2tf(sys)` / `tf(sys)` pass)
the system name is the model's `extName`. -/
theorem namesAfter_name (μ : Meta) (p m : Nat) (h : μ.isGeneric = false) :
    namesAfter μ (!μ.isGeneric) p m = μ.converted {} "converted" := by
  unfold namesAfter Meta.converted extName
  simp [h, String.append_assoc]

/-! ### the headline theorems of C03, transported -/

/-- **`ss2tf_correct` for the generated function** (characteristic 0): for every state-space
system the function the source text defines returns a transfer function of the same shape and
timebase whose value at every `s` outside the spectrum of `A` is the value of the system —
no certificate hypothesis (`C03FL.toTF_correct`). -/
theorem generated_ss2tf_correct [CharZero K] (G : DSS K) (μ : Meta) (ups : Bool)
    (inputs outputs : Nat) (hp : 0 < G.p) (hm : 0 < G.m) :
    ∃ T, Generated.Conv.convertToTransferFunction modelSs2tf (.ss ⟨G, μ⟩) inputs outputs ups = .ok T ∧
      T.sys.p = G.p ∧ T.sys.m = G.m ∧ T.sys.dt = G.dt ∧
      ∀ s Y, s ∉ spectrum K G.sys.A → SSVal G s Y → TFVal T.sys s Y := by
  obtain ⟨T, hT, h1, h2, h3, h4⟩ := C03.toTF_correct G
  refine ⟨⟨T, namesAfter μ ups T.p T.m⟩, ?_, h1, h2, h3, h4⟩
  rw [generated_convertToTransferFunction_ss G μ ups inputs outputs hp hm, hT]
  rfl

/-- what `toTF` returns satisfies the class invariant of transfer functions. -/
theorem tfInv_of_toTF (G : DSS K) (T : DTF K) (hp : 0 < G.p) (hm : 0 < G.m) (h : toTF G = .ok T) :
    C03GenSS.TFInv T := by
  unfold toTF at h
  split at h
  · cases hs : TFM.mk' (o := Fin G.p) (ι := Fin G.m) fun i j => (⟨[G.sys.D i j], [1]⟩ : Frac K) with
    | error e => rw [hs] at h; cases h
    | ok s =>
      rw [hs] at h
      cases h
      exact C03GenSS.tfInv_of_ctor hp hm _ s G.dt hs
  · dsimp only at h
    cases hs : TFM.mk' (o := Fin G.p) (ι := Fin G.m)
        fun i j => ss2tfRaw G.sys (flvPropose G.sys.A) i j with
    | error e => rw [hs] at h; cases h
    | ok s =>
      rw [hs] at h
      cases h
      exact C03GenSS.tfInv_of_ctor hp hm _ s G.dt hs

/-- **round trip ss → tf → ss through the two generated functions** (characteristic 0): whenever
the second conversion returns, the result has the shape and timebase of the original system and
every value of the original system at an `s` outside the spectrum of its `A` is a value of the
result (`toTF_correct` + `toSS_val`, transported). -/
theorem generated_roundtrip [CharZero K] (G : DSS K) (μ : Meta) (ups ups' : Bool) (hp : 0 < G.p)
    (hm : 0 < G.m) (T : TFObj K) (R : SSObj K)
    (h1 : Generated.Conv.convertToTransferFunction modelSs2tf (.ss ⟨G, μ⟩) 1 1 ups = .ok T)
    (h2 : Generated.Conv.convertToStatespace C03GenSS.modelTf2ss (.tf T) ups' none = .ok R) :
    R.sys.p = G.p ∧ R.sys.m = G.m ∧ R.sys.dt = G.dt ∧
      ∀ s Y, s ∉ spectrum K G.sys.A → SSVal G s Y → SSVal R.sys s Y := by
  obtain ⟨T', hT', e1, e2, e3, hv⟩ := C03.toTF_correct G
  rw [generated_convertToTransferFunction_ss G μ ups 1 1 hp hm, hT'] at h1
  cases h1
  have hinv := tfInv_of_toTF G T' hp hm hT'
  obtain ⟨f1, f2, f3, _, hw⟩ := C03GenSS.generated_convertToStatespace_val T' _ ups' hinv R h2
  exact ⟨f1.trans e1, f2.trans e2, f3.trans e3, fun s Y hs hY => hw s Y (hv s Y hs hY)⟩

end CtrlVerif.C03GenTF
