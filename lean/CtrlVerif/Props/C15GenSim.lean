/-
Source-text tie of C15, part 1: `similarity_transform` (control/canonical.py).
`Generated/CanonSimilarity.lean` is rewritten from the source text of the tree under check on every
run (harness/core/py2lean_canon.py); the theorems below prove the run-time model
`DSS.similarity` (`Model/CanonicalDyn.lean`, built on the typed `SS.similarity / similarityInv`, the
definitions `C15.similarity_resp` is about) EQUAL to the generated function for every system,
every square array `T` of any size, every `timescale` and both values of `inverse`, and that a
non-square `T` raises.  Where the source computes differently from the model the equivalence is
proved here: `rsolve(T, Y) = transpose(solve(transpose(T), transpose(Y)))` is `Y T⁻¹`
(`(Tᵀ)⁻¹ = (T⁻¹)ᵀ`), `solve` (`det⁻¹ • adjugate`) is the model's certified inverse `certInv`, `X / c`
is `c⁻¹ • X`, and the model's up-front test `timescale = 0 ∧ nstates ≠ 0` is the failure of the first
division.  `similarity_resp` is transported to the generated function
(`generated_similarity_resp`).
-/
import CtrlVerif.Generated.CanonSimilarity
import CtrlVerif.Lemmas.PyCanon
import CtrlVerif.Props.C15

namespace CtrlVerif.C15Gen

open Matrix CtrlVerif

variable {K : Type} [Field K] [DecidableEq K]

/-- **`similarity_transform`**: the function the source text defines is the model's
`DSS.similarity`, for a `q × q` array `T`. -/
theorem generated_similarity_transform_eq (G : DSS K) (q : Nat) (T : Matrix (Fin q) (Fin q) K) (c : K)
    (inv : Bool) :
    Generated.similarityTransform G ⟨q, q, T⟩ c inv = DSS.similarity G q T c inv := by
  obtain ⟨n, p, m, ⟨A, B, C, D⟩, dt⟩ := G
  unfold Generated.similarityTransform DSS.similarity
  simp only [PySS.A, PySS.B, PySS.C, PySS.D, PMat.atleast2d_eq]
  by_cases h : q = n
  · subst h
    have hT : T.submatrix (Fin.cast rfl) (Fin.cast rfl) = T := rfl
    simp only [↓reduceDIte, hT, certInv_eq, Mat.ofTab_tab']
    by_cases hd : T.det = 0
    · cases inv <;>
        simp [hd, PMat.matmul_mk, PMat.solve_mk, Matrix.det_transpose, bind, Except.bind]
    · by_cases hc : c = 0 ∧ q ≠ 0
      · obtain ⟨hc0, hq⟩ := hc
        cases inv <;>
          simp [hd, hc0, hq, PMat.matmul_mk, PMat.solve_mk, Matrix.det_transpose, bind, Except.bind,
            PyCanon.divNum_mk]
      · have hc' : ¬ (c = 0 ∧ q ≠ 0 ∧ q ≠ 0) := by tauto
        cases inv
        · by_cases hcm : c = 0 ∧ q ≠ 0 ∧ m ≠ 0
          · exact absurd ⟨hcm.1, hcm.2.1⟩ hc
          · simp [hd, hc, hc', hcm, PMat.matmul_mk, PMat.solve_mk, Matrix.det_transpose, bind, Except.bind,
              PyCanon.divNum_mk, PySS.mk_mk, pure, Except.pure, SS.similarity, PMat.inverse_eq_invQ,
              invQ_transpose, Matrix.transpose_mul, Matrix.mul_assoc]
        · by_cases hcm : c = 0 ∧ q ≠ 0 ∧ m ≠ 0
          · exact absurd ⟨hcm.1, hcm.2.1⟩ hc
          · simp [hd, hc, hc', hcm, PMat.matmul_mk, PMat.solve_mk, bind, Except.bind,
              PyCanon.divNum_mk, PySS.mk_mk, pure, Except.pure, SS.similarityInv, PMat.inverse_eq_invQ,
              Matrix.mul_assoc]
  · have h' : ¬ n = q := fun e => h e.symm
    cases inv <;> simp [h, h', PMat.matmul, PMat.solve, bind, Except.bind]

/-- a non-square array `T` raises (`T @ A` / `solve` reject it: ValueError / LinAlgError "must be
square"), whatever the other arguments. -/
theorem generated_similarity_transform_nonsquare (G : DSS K) (T : PMat K) (c : K) (inv : Bool)
    (h : T.r ≠ T.c) : Generated.similarityTransform G T c inv = .error .shape := by
  obtain ⟨n, p, m, ⟨A, B, C, D⟩, dt⟩ := G
  obtain ⟨r, k, T⟩ := T
  simp only at h
  unfold Generated.similarityTransform
  simp only [PySS.A, PySS.B, PySS.C, PySS.D, PMat.atleast2d_eq]
  cases inv
  · by_cases hk : n = k
    · subst hk
      have h' : ¬ n = r := fun e => h e.symm
      simp [PMat.matmul_mk, PMat.solve, h, h', bind, Except.bind]
    · simp [PMat.matmul, hk, bind, Except.bind]
  · have h' : ¬ k = r := fun e => h e.symm
    simp [PMat.solve, h', bind, Except.bind]

/-- the function the source text defines returns exactly when `T` has the size of the state, is
invertible, and `timescale ≠ 0` (or there are no states). -/
theorem generated_similarity_transform_ok_iff (G : DSS K) (q : Nat) (T : Matrix (Fin q) (Fin q) K) (c : K)
    (inv : Bool) :
    (∃ R, Generated.similarityTransform G ⟨q, q, T⟩ c inv = .ok R)
      ↔ q = G.n ∧ T.det ≠ 0 ∧ (c ≠ 0 ∨ G.n = 0) := by
  rw [generated_similarity_transform_eq]
  unfold DSS.similarity
  by_cases h : q = G.n
  · subst h
    have hT : T.submatrix (Fin.cast rfl) (Fin.cast rfl) = T := rfl
    simp only [↓reduceDIte, hT, certInv_eq, true_and]
    by_cases hd : T.det = 0
    · simp [hd]
    · by_cases hc : c = 0 ∧ G.n ≠ 0
      · simp [hd, hc]
      · simp only [hd, ↓reduceIte, hc, pure, Except.pure, Except.ok.injEq, exists_eq', true_iff]
        refine ⟨hd, ?_⟩
        by_cases hc0 : c = 0
        · right; by_contra hn; exact hc ⟨hc0, hn⟩
        · left; exact hc0
  · simp [h]

/-- **`similarity_resp` of the function the source text defines**: whenever
`similarity_transform(G, T, timescale=c, inverse=…)` returns `R` (and `c ≠ 0`), `R` has the value `Y`
at `s` exactly when `G` has the value `Y` at `c·s` — the transfer function is `s ↦ G(c s)`, in both
directions of the transformation. -/
theorem generated_similarity_resp {G R : DSS K} {q : Nat} {T : Matrix (Fin q) (Fin q) K} {c : K}
    {inv : Bool} (hc : c ≠ 0) (hR : Generated.similarityTransform G ⟨q, q, T⟩ c inv = .ok R)
    (s : K) (p m : Nat) (Y : Matrix (Fin p) (Fin m) K) :
    R.Resp s p m Y ↔ G.Resp (c * s) p m Y := by
  rw [generated_similarity_transform_eq] at hR
  unfold DSS.similarity at hR
  by_cases h : q = G.n
  · subst h
    have hT : T.submatrix (Fin.cast rfl) (Fin.cast rfl) = T := rfl
    simp only [↓reduceDIte, hT, certInv_eq, Mat.ofTab_tab'] at hR
    by_cases hd : T.det = 0
    · simp [hd] at hR
    · have hc' : ¬ (c = 0 ∧ G.n ≠ 0) := fun h => hc h.1
      simp only [hd, ↓reduceIte, hc', pure, Except.pure, Except.ok.injEq] at hR
      subst hR
      obtain ⟨hTi, _⟩ := invQ_two_sided T hd
      unfold DSS.Resp
      simp only
      constructor
      · rintro ⟨hp, hm, h⟩
        subst hp hm
        refine ⟨rfl, rfl, ?_⟩
        simp only [DSS.submatrix_cast_rfl] at h ⊢
        cases inv
        · exact (C15.similarity_resp G.sys T (SS.invQ T) c hTi hc s Y).mp h
        · exact (C15.similarityInv_resp G.sys T (SS.invQ T) c hTi hc s Y).mp h
      · rintro ⟨hp, hm, h⟩
        subst hp hm
        refine ⟨rfl, rfl, ?_⟩
        simp only [DSS.submatrix_cast_rfl] at h ⊢
        cases inv
        · exact (C15.similarity_resp G.sys T (SS.invQ T) c hTi hc s Y).mpr h
        · exact (C15.similarityInv_resp G.sys T (SS.invQ T) c hTi hc s Y).mpr h
  · simp [h] at hR

/-- non-vacuity (ℚ): a 2-state SISO system, `T = [[1, 1], [0, 1]]`, `timescale = 2`: the function the
source text defines returns, in both directions; a singular `T` and a `3 × 3` array `T` raise. -/
example :
    (∃ R, Generated.similarityTransform (K := ℚ) ⟨2, 1, 1, ⟨!![0, 1; -2, -3], !![0; 1], !![1, 0], !![2]⟩, .cont⟩
      ⟨2, 2, !![1, 1; 0, 1]⟩ 2 false = .ok R)
    ∧ (∃ R, Generated.similarityTransform (K := ℚ) ⟨2, 1, 1, ⟨!![0, 1; -2, -3], !![0; 1], !![1, 0], !![2]⟩, .cont⟩
      ⟨2, 2, !![1, 1; 0, 1]⟩ 2 true = .ok R)
    ∧ ¬ (∃ R, Generated.similarityTransform (K := ℚ) ⟨2, 1, 1, ⟨!![0, 1; -2, -3], !![0; 1], !![1, 0], !![2]⟩, .cont⟩
      ⟨2, 2, !![1, 1; 1, 1]⟩ 2 false = .ok R)
    ∧ ¬ (∃ R, Generated.similarityTransform (K := ℚ) ⟨2, 1, 1, ⟨!![0, 1; -2, -3], !![0; 1], !![1, 0], !![2]⟩, .cont⟩
      ⟨3, 3, 1⟩ 2 false = .ok R) := by
  simp [generated_similarity_transform_ok_iff, Matrix.det_fin_two]

end CtrlVerif.C15Gen
