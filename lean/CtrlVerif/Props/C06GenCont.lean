/-
Source-text tie of C06, part 2b: the continuous-time branch of `forced_response` with its zero-input
TEST (`if U is None or np.all(U == 0)`) translated, both paths inline (`Generated/TimeRespCont.lean`,
rewritten from control/timeresp.py on every run by harness/core/py2lean_tr.py).  The branch is the
fast path `frFree` exactly when every input sample is exactly zero and the general algorithm `frFoh`
otherwise - the two functions the other two files tie to `simFree` / `simFOH`; hence the whole
continuous-time branch equals the model's.
-/
import CtrlVerif.Generated.TimeRespCont
import CtrlVerif.Props.C06GenFoh
import CtrlVerif.Props.C06GenFree

namespace CtrlVerif.C06Gen

open Matrix CtrlVerif TimeResp

variable {K : Type} [Field K] [DecidableEq K]

/-- the continuous-time branch takes the fast path iff `np.all(U == 0)` - for ALL arguments (the
specialised translations `frFree` / `frFoh` are what the whole branch does on either side of the
test). -/
theorem generated_cont_branches (expm : SqFun K) (A B C D : PMat K) (dt : K) (k : Nat) (T : List K)
    (X0 : PVec K) (U : PSig K) :
    Generated.frCont expm A B C D dt k T X0 U =
      if PSig.allZero U = true then Generated.frFree expm A B C D dt k T X0 U
      else Generated.frFoh expm A B C D dt k T X0 U := by
  unfold Generated.frCont Generated.frFree Generated.frFoh
  by_cases h : PSig.allZero U = true <;> simp only [h, if_true, if_false] <;> rfl

/-- the test `np.all(U == 0)` of the source is exact: every entry of every column is `0`. -/
theorem generated_allZero_iff (m : Nat) (us : List (Fin m → K)) :
    PSig.allZero ⟨m, us⟩ = true ↔ ∀ u ∈ us, ∀ j, u j = 0 := by
  simp [PSig.allZero]

/-- **the continuous-time branch** as the source text defines it equals the model's: `simFree` with
`expm(dt • A)` when every input sample is zero, `simFOH` with the blocks of `expm(fohMFin A B dt)`
otherwise (the two arms of `TimeResp.forced` for a continuous-time system). -/
theorem generated_cont_eq (expm : SqFun K) (G : DSS K) (dt : K) (T : List K) (x0 : Fin G.n → K)
    (us : List (Fin G.m → K)) (hne : us ≠ []) :
    Generated.frCont expm (PySS.A G) (PySS.B G) (PySS.C G) (PySS.D G) dt us.length T ⟨G.n, x0⟩ ⟨G.m, us⟩
      = .ok (if PSig.allZero ⟨G.m, us⟩ = true then
          (T, ⟨G.p, (simFree G.sys (expm G.n (dt • G.sys.A)) x0 us.length).2⟩,
            ⟨G.n, (simFree G.sys (expm G.n (dt • G.sys.A)) x0 us.length).1⟩, ⟨G.m, us⟩)
        else
          (T, ⟨G.p, (simFOH G.sys (blocksOf expm G dt).1 (blocksOf expm G dt).2.1 (blocksOf expm G dt).2.2
              x0 us).2⟩,
            ⟨G.n, (simFOH G.sys (blocksOf expm G dt).1 (blocksOf expm G dt).2.1 (blocksOf expm G dt).2.2
              x0 us).1⟩, ⟨G.m, us⟩)) := by
  rw [generated_cont_branches]
  split
  · exact generated_free_eq expm G dt T x0 _ us.length (List.length_pos_iff.mpr hne)
  · exact generated_foh_eq expm G dt T x0 us hne

/-- non-vacuity of the test: a zero input takes the fast path, an input of size `10⁻¹²` does not. -/
example : PSig.allZero (K := ℚ) ⟨2, [![0, 0], ![0, 0]]⟩ = true ∧
    PSig.allZero (K := ℚ) ⟨2, [![0, 0], ![0, 1 / 1000000000000]]⟩ = false := by
  constructor <;> decide +kernel

end CtrlVerif.C06Gen
