/-
Source-text tie of C14, discretisation, part 1: `StateSpace.sample` (control/statesp.py).
`Generated/C2dSS.lean` is rewritten from the source text of the tree under check on every run
(harness/core/py2lean_c2d.py); the theorems below prove the hand-written model of
`Model/Discretize.lean` — `DSS.sampleP` (continuous-time test, prewarp decision `twarp`, the call
of `cont2discrete` with the WARPED step, result timebase = the period argument itself) together
with `sampleNames` (name / label handling) — EQUAL to the generated function, for every system,
period (a number or `True`), method STRING, `alpha`, prewarp frequency, name, `copy_names` and label
keywords in the function's domain, and transport the headline theorems of `Props/C14.lean`
(`sampleP_dt`, `sampleP_gbt_resp`, `prewarp_match`, …) to the function the source text defines.

`scipy.signal.cont2discrete` and `numpy.tan` are PARAMETERS of the generated function.  The
equality is proved for every `tan` and for every `cont2discrete` that has the meaning the model
gives it on the matrices of the system at hand (`C2dSSMeaning`: the generalised bilinear formulas /
zero-order hold of `DSS.sampleCore`); `c2dOfModel_meaning` shows the hypothesis is satisfiable, and
`Props/C14GenScipy.lean` proves it for the function regenerated from SciPy's own source text.
-/
import CtrlVerif.Generated.C2dSS
import CtrlVerif.Lemmas.C2dTie

namespace CtrlVerif.C14GenSample

open CtrlVerif Matrix

section ss

variable {K : Type} [Field K] [LinearOrder K] [IsStrictOrderedRing K]

/-- **`StateSpace.sample`**: the function the source text defines is the model — `DSS.sampleP`
for the numbers and the timebase, `sampleNames` for name and labels — for every system, period,
method string, `alpha`, prewarp frequency `≠ 0` (at `0` the code divides `0/0`: known finding,
`generated_sample_prewarp_zero`), name, `copy_names`, label keywords, every `tan` and every
`cont2discrete` with the model's meaning.  (`0 < Ts`: the model rejects other periods, the code
does not check; outside the property.) -/
theorem generated_sample_eq (c2d : PyC2d.C2dSS K) (tan : K → K) (G : DSS K) (src : Names) (P : Period)
    (method : String) (alpha pwf : Option K) (name : Option String) (copy : Bool) (kw : PyC2d.LabelKw)
    (ext : Option (Matrix (Fin G.n ⊕ Fin G.m) (Fin G.n ⊕ Fin G.m) K))
    (hc : C2dSSMeaning c2d G ext method) (hP : 0 < P.val) (hN : NamesFit G src)
    (hw : pwf = some 0 → prewarpApplies (methodOf method) alpha = false) :
    Generated.ssSample c2d tan ⟨G, src⟩ P method alpha pwf name copy kw =
      sampleModel tan G src P method alpha pwf name copy kw ext := by
  unfold Generated.ssSample sampleModel DSS.sampleP DSS.sample
  simp only [isctime_eq, periodNum_eq, periodDt_eq]
  by_cases hct : G.dt.isCt = true
  swap
  · simp [hct, throw, throwThe, MonadExceptOf.throw]
  simp only [hct, not_true_eq_false, if_false, hP]
  -- the step handed to `cont2discrete`
  have key : ∀ h : K, twarp (methodOf method) alpha P.val (prewarpOf tan P pwf) = .ok h →
      (do
        let (Ad, Bd, C, D, _) ← c2d (PySS.A G, PySS.B G, PySS.C G, PySS.D G) h method alpha
        let sysd ← PyC2d.mkSS Ad Bd C D P.dt
        let sysd ← (do
          if (copy = true) then
            let sysd : PyC2d.NamedSS K := (PyC2d.copyNamesSS sysd ⟨G, src⟩)
            pure sysd
          else
            pure sysd
          : Except Err (PyC2d.NamedSS K))
        let sysd ← (do
          match name with
          | some name =>
            let sysd : PyC2d.NamedSS K := (PyC2d.setNameSS sysd name)
            pure sysd
          | none =>
            pure sysd
          : Except Err (PyC2d.NamedSS K))
        PyC2d.copySS sysd kw) =
      (match (match DSS.sampleCore G P.val h (methodOf method) alpha ext with
          | .error e => .error e
          | .ok R => .ok ⟨R.n, R.p, R.m, R.sys, P.dt⟩ : Except Err (DSS K)) with
        | .error e => .error e
        | .ok R =>
          match sampleNames src copy name kw.inputs kw.outputs kw.states with
          | .error e => .error e
          | .ok N => .ok ⟨R, N⟩) := by
    intro h _
    rw [hc h alpha, sampleCore_period G P.val h]
    cases hR : DSS.sampleCore G 0 h (methodOf method) alpha ext with
    | error e => rfl
    | ok R =>
      obtain ⟨-, hn, hp, hm⟩ := C14.sampleCore_dt G 0 h _ alpha ext hR
      simp only [tuple5, bind, Except.bind, mkSS_tuple]
      exact names_steps G ⟨R.n, R.p, R.m, R.sys, P.dt⟩ src hN hn hp hm name copy kw
  cases pwf with
  | none =>
    simp only [prewarpOf, Option.map_none, twarp, bind, Except.bind, pure, Except.pure]
    exact key _ rfl
  | some w =>
    by_cases hp : prewarpApplies (methodOf method) alpha = true
    · have hw0 : w ≠ 0 := by
        intro h0
        subst h0
        rw [hw rfl] at hp
        exact Bool.false_ne_true hp
      have htw : twarp (methodOf method) alpha P.val (prewarpOf tan P (some w))
          = .ok (2 * tan (w * ((P.val : ℚ) : K) / 2) / w) := by
        simp [twarp, prewarpOf, hp, hw0]
      simp only [(prewarp_test_iff method alpha).mpr hp, if_true, PyNum.div, hw0, if_false, bind,
        Except.bind, pure, Except.pure, htw]
      exact key _ htw
    · have hp' : prewarpApplies (methodOf method) alpha = false := by simpa using hp
      have htw : twarp (methodOf method) alpha P.val (prewarpOf tan P (some w)) = .ok ((P.val : ℚ) : K) := by
        simp [twarp, prewarpOf, hp']
      have hno : ¬ (method = "bilinear" ∨ method = "tustin" ∨ (method = "gbt" ∧ alpha = some ((1 : K) / (2 : K)))) :=
        fun h => hp ((prewarp_test_iff method alpha).mp h)
      simp only [hno, if_false, bind, Except.bind, pure, Except.pure, htw]
      exact key _ htw

/-! ### the headline theorems of `Props/C14.lean`, about the function the source text defines -/

/-- what the generated function returns, read through the equality. -/
theorem generated_sample_inv (c2d : PyC2d.C2dSS K) (tan : K → K) (G : DSS K) (src : Names) (P : Period)
    (method : String) (alpha pwf : Option K) (name : Option String) (copy : Bool) (kw : PyC2d.LabelKw)
    (ext : Option (Matrix (Fin G.n ⊕ Fin G.m) (Fin G.n ⊕ Fin G.m) K))
    (hc : C2dSSMeaning c2d G ext method) (hP : 0 < P.val) (hN : NamesFit G src)
    (hw : pwf = some 0 → prewarpApplies (methodOf method) alpha = false) {R : PyC2d.NamedSS K}
    (hR : Generated.ssSample c2d tan ⟨G, src⟩ P method alpha pwf name copy kw = .ok R) :
    G.sampleP P (methodOf method) alpha (prewarpOf tan P pwf) ext = .ok R.sys ∧
      sampleNames src copy name kw.inputs kw.outputs kw.states = .ok R.names := by
  rw [generated_sample_eq c2d tan G src P method alpha pwf name copy kw ext hc hP hN hw] at hR
  unfold sampleModel at hR
  cases h1 : G.sampleP P (methodOf method) alpha (prewarpOf tan P pwf) ext with
  | error e => simp [h1] at hR
  | ok R1 =>
    cases h2 : sampleNames src copy name kw.inputs kw.outputs kw.states with
    | error e => simp [h1, h2] at hR
    | ok N =>
      simp only [h1, h2, Except.ok.injEq] at hR
      subst hR
      exact ⟨rfl, rfl⟩

/-- **Timebase (transport of `sampleP_dt`)**: whatever the function defined by the source text
returns has the timebase `Ts` itself — the number, or `True` — never the warped step, and the
sizes of the continuous system. -/
theorem generated_sample_dt (c2d : PyC2d.C2dSS K) (tan : K → K) (G : DSS K) (src : Names) (P : Period)
    (method : String) (alpha pwf : Option K) (name : Option String) (copy : Bool) (kw : PyC2d.LabelKw)
    (ext : Option (Matrix (Fin G.n ⊕ Fin G.m) (Fin G.n ⊕ Fin G.m) K))
    (hc : C2dSSMeaning c2d G ext method) (hP : 0 < P.val) (hN : NamesFit G src)
    (hw : pwf = some 0 → prewarpApplies (methodOf method) alpha = false) {R : PyC2d.NamedSS K}
    (hR : Generated.ssSample c2d tan ⟨G, src⟩ P method alpha pwf name copy kw = .ok R) :
    R.sys.dt = P.dt ∧ R.sys.n = G.n ∧ R.sys.p = G.p ∧ R.sys.m = G.m :=
  C14.sampleP_dt G P _ alpha _ ext
    (generated_sample_inv c2d tan G src P method alpha pwf name copy kw ext hc hP hN hw hR).1

/-- **Timebase, for ANY `cont2discrete` and `tan`** (no hypothesis on the external routines, the
period, the prewarp frequency or the labels): the timebase of whatever the generated function
returns is the period argument — the constructor is called with `Ts`, and the name / label
statements after it do not touch the system. -/
theorem generated_sample_dt_any (c2d : PyC2d.C2dSS K) (tan : K → K) (S : PyC2d.NamedSS K) (P : Period)
    (method : String) (alpha pwf : Option K) (name : Option String) (copy : Bool) (kw : PyC2d.LabelKw)
    {R : PyC2d.NamedSS K}
    (hR : Generated.ssSample c2d tan S P method alpha pwf name copy kw = .ok R) :
    R.sys.dt = P.dt := by
  unfold Generated.ssSample at hR
  simp only [bind, Except.bind, pure, Except.pure, periodDt_eq] at hR
  split at hR
  · exact absurd hR (by simp [throw, throwThe, MonadExceptOf.throw])
  split at hR
  · exact absurd hR (by simp)
  split at hR
  · exact absurd hR (by simp)
  split at hR
  · exact absurd hR (by simp)
  rename_i _ _ _ _ _ sysd hmk
  have hdt : sysd.sys.dt = P.dt := by
    unfold PyC2d.mkSS at hmk
    split at hmk
    · exact absurd hmk (by simp)
    · rename_i G' hG'
      simp only [Except.ok.injEq] at hmk
      subst hmk
      unfold PySS.mk at hG'
      split at hG'
      · simp only [Except.ok.injEq] at hG'
        subst hG'
        rfl
      · exact absurd hG' (by simp)
  have hcopy : ∀ (a b : PyC2d.NamedSS K), PyC2d.copySS a kw = .ok b → b.sys = a.sys := by
    intro a b hab
    unfold PyC2d.copySS at hab
    simp only [bind, Except.bind, pure, Except.pure] at hab
    split at hab
    · exact absurd hab (by simp)
    split at hab
    · exact absurd hab (by simp)
    split at hab
    · exact absurd hab (by simp)
    simp only [Except.ok.injEq] at hab
    subst hab
    rfl
  cases copy <;> cases name <;> simp only [Bool.false_eq_true, if_false, if_true] at hR <;>
    (rw [hcopy _ _ hR]; exact hdt)

/-- **Defining relation (transport of `sampleP_gbt_resp`)**: for a method of the generalised
bilinear family, whatever the generated function returns has, at every `z` with
`h(αz+1-α) ≠ 0`, the transfer matrix of the continuous system at `(z-1)/(h(αz+1-α))`, with
`α = gbtAlpha method alpha` and `h = twarp …` (`Ts`, or `2 tan(ωTs/2)/ω` when prewarping). -/
theorem generated_sample_gbt_resp (c2d : PyC2d.C2dSS K) (tan : K → K) (G : DSS K) (src : Names)
    (P : Period) (method : String) (alpha pwf : Option K) (name : Option String) (copy : Bool)
    (kw : PyC2d.LabelKw) (ext : Option (Matrix (Fin G.n ⊕ Fin G.m) (Fin G.n ⊕ Fin G.m) K))
    (hc : C2dSSMeaning c2d G ext method) (hP : 0 < P.val) (hN : NamesFit G src)
    (hw : pwf = some 0 → prewarpApplies (methodOf method) alpha = false) {R : PyC2d.NamedSS K}
    (hR : Generated.ssSample c2d tan ⟨G, src⟩ P method alpha pwf name copy kw = .ok R)
    (hm : methodOf method ≠ .zoh) :
    ∃ a h, gbtAlpha (methodOf method) alpha = .ok a ∧
      twarp (methodOf method) alpha P.val (prewarpOf tan P pwf) = .ok h ∧
      ∃ S : SS (Fin G.n) (Fin G.m) (Fin G.p) K, R.sys = ⟨G.n, G.p, G.m, S, P.dt⟩ ∧
        ∀ (z : K) (Y : Matrix (Fin G.p) (Fin G.m) K), h * (a * z + 1 - a) ≠ 0 →
          G.sys.Resp ((z - 1) / (h * (a * z + 1 - a))) Y → S.Resp z Y :=
  C14.sampleP_gbt_resp G P _ alpha _ ext
    (generated_sample_inv c2d tan G src P method alpha pwf name copy kw ext hc hP hN hw hR).1 hm

/-- **Prewarping (the input of `prewarp_match`)**: with `method='bilinear'` and a prewarp frequency
`ω ≠ 0` the generated function returns exactly `SS.gbt ½ (2 tan(ωTs/2)/ω) W` of the continuous
system, `W` a left inverse of `I - ½hA` — the system `C14.prewarp_match` is about (its transfer
matrix at `z = (1+jt)/(1-jt)` is the continuous one at `jω`) — stored with timebase `Ts`. -/
theorem generated_sample_prewarp_gbt (c2d : PyC2d.C2dSS K) (tan : K → K) (G : DSS K) (src : Names)
    (P : Period) (w : K) (hw : w ≠ 0) (name : Option String) (copy : Bool)
    (kw : PyC2d.LabelKw) (ext : Option (Matrix (Fin G.n ⊕ Fin G.m) (Fin G.n ⊕ Fin G.m) K))
    (hc : C2dSSMeaning c2d G ext "bilinear") (hP : 0 < P.val) (hN : NamesFit G src) {R : PyC2d.NamedSS K}
    (hR : Generated.ssSample c2d tan ⟨G, src⟩ P "bilinear" none (some w) name copy kw = .ok R) :
    ∃ W : Matrix (Fin G.n) (Fin G.n) K,
      W * (1 - ((1 / 2 : K) * (2 * tan (w * ((P.val : ℚ) : K) / 2) / w)) • G.sys.A) = 1 ∧
      R.sys = ⟨G.n, G.p, G.m, G.sys.gbt (1 / 2) (2 * tan (w * ((P.val : ℚ) : K) / 2) / w) W, P.dt⟩ := by
  have hw' : (some w : Option K) = some 0 → prewarpApplies (methodOf "bilinear") (none : Option K) = false :=
    fun h => absurd (Option.some.inj h) hw
  obtain ⟨h1, -⟩ := generated_sample_inv c2d tan G src P "bilinear" none (some w) name copy kw ext hc hP hN hw' hR
  obtain ⟨R', h2, h3⟩ := C14.sampleP_inv G P _ _ _ ext h1
  obtain ⟨-, -, h, htw, hcore⟩ := C14.sample_inv G P.val _ _ _ ext h2
  have hb : methodOf "bilinear" = .bilinear := by decide
  rw [hb] at htw hcore
  have hh : h = 2 * tan (w * ((P.val : ℚ) : K) / 2) / w := by
    simp [twarp, prewarpOf, prewarpApplies, hw] at htw
    exact htw.symm
  subst hh
  simp only [DSS.sampleCore] at hcore
  obtain ⟨a, ha, hd, rfl⟩ := C14.gbtCore_ok G P.val _ _ _ hcore
  simp only [gbtAlpha, Except.ok.injEq] at ha
  subst ha
  exact ⟨_, invQ_mul_self _ hd, h3⟩

/-- a discrete-time system (`dt = True` or a sampling time) is rejected by the generated function,
whatever the external routines are. -/
theorem generated_sample_not_continuous_raises (c2d : PyC2d.C2dSS K) (tan : K → K) (S : PyC2d.NamedSS K)
    (P : Period) (method : String) (alpha pwf : Option K) (name : Option String) (copy : Bool)
    (kw : PyC2d.LabelKw) (h : S.sys.dt.isCt = false) :
    Generated.ssSample c2d tan S P method alpha pwf name copy kw = .error .timebase := by
  unfold Generated.ssSample
  simp [isctime_eq, h, throw, throwThe, MonadExceptOf.throw]

/-- **Known finding `C14-prewarp-zero`, as a theorem about the source text**: with a compatible
method and `prewarp_frequency = 0` the code divides `2 tan(0) / 0`; the generated function raises
(`zeroDen`: NumPy yields `nan`, SciPy then rejects the array) where the model returns the limit
`Ts` (`C14.twarp_zero`) — the documented domain is `[0, ∞)`. -/
theorem generated_sample_prewarp_zero (c2d : PyC2d.C2dSS K) (tan : K → K) (S : PyC2d.NamedSS K)
    (P : Period) (method : String) (alpha : Option K) (name : Option String) (copy : Bool)
    (kw : PyC2d.LabelKw) (hct : S.sys.dt.isCt = true)
    (hp : prewarpApplies (methodOf method) alpha = true) :
    Generated.ssSample c2d tan S P method alpha (some 0) name copy kw = .error .zeroDen := by
  unfold Generated.ssSample
  simp only [isctime_eq, hct, not_true_eq_false, if_false, (prewarp_test_iff method alpha).mpr hp,
    if_true, PyNum.div, bind, Except.bind]

/-- an explicit name, else the default. -/
def nameOr (name dflt : Option String) : Option String :=
  match name with
  | some s => some s
  | none => dflt

/-- names and labels of the returned system (transport of `sampleNames_spec`): with `copy_names`
the labels of the continuous system and `<name>$sampled`, without it generic ones; an explicit
`name` wins. -/
theorem generated_sample_names (c2d : PyC2d.C2dSS K) (tan : K → K) (G : DSS K) (src : Names) (P : Period)
    (method : String) (alpha pwf : Option K) (name : Option String) (copy : Bool)
    (ext : Option (Matrix (Fin G.n ⊕ Fin G.m) (Fin G.n ⊕ Fin G.m) K))
    (hc : C2dSSMeaning c2d G ext method) (hP : 0 < P.val) (hN : NamesFit G src)
    (hw : pwf = some 0 → prewarpApplies (methodOf method) alpha = false) {R : PyC2d.NamedSS K}
    (hR : Generated.ssSample c2d tan ⟨G, src⟩ P method alpha pwf name copy .empty = .ok R) :
    R.names = (if copy then
        ⟨nameOr name (src.name.map (· ++ "$sampled")), src.inputs, src.outputs, src.states⟩
      else ⟨name, genericLabels "u" G.m, genericLabels "y" G.p, genericLabels "x" G.n⟩) := by
  obtain ⟨-, h2⟩ := generated_sample_inv c2d tan G src P method alpha pwf name copy .empty ext hc hP hN hw hR
  obtain ⟨s1, s2⟩ := C14.sampleNames_spec src name
  obtain ⟨n1, n2, n3⟩ := hN
  cases copy
  · simp only [PyC2d.LabelKw.empty] at h2
    rw [s2, n1, n2, n3] at h2
    simpa using (Except.ok.inj h2).symm
  · simp only [PyC2d.LabelKw.empty] at h2
    rw [s1] at h2
    cases name <;> simpa [nameOr] using (Except.ok.inj h2).symm

/-! ### non-vacuity -/

section examples

/-- the labels of the 2-state example system of `Props/C14.lean`. -/
def exNames : Names := ⟨some "plant", ["u"], ["y"], ["x1", "x2"]⟩

/-- the generated function RETURNS on a prewarped Tustin discretisation of `C14.exD`
(`Ts = 1/2`, `ω = 2`, stand-in `tan ≡ 3/2`), with the model's `cont2discrete`; the result has
timebase `1/2`, the copied labels and the name `plant$sampled` — every hypothesis of
`generated_sample_eq / _dt / _gbt_resp / _prewarp_gbt / _names` is met. -/
example : ∃ R, Generated.ssSample (c2dOfModel C14.exD none) (fun _ => 3 / 2) ⟨C14.exD, exNames⟩ (.num (1 / 2))
      "bilinear" none (some 2) none true .empty = .ok R ∧ R.sys.dt = .disc (1 / 2) ∧
      R.names = ⟨some "plant$sampled", ["u"], ["y"], ["x1", "x2"]⟩ := by
  have hP : (0 : ℚ) < (Period.num (1 / 2)).val := by decide +kernel
  have hN : NamesFit C14.exD exNames := ⟨rfl, rfl, rfl⟩
  have hw : (some 2 : Option ℚ) = some 0 → prewarpApplies (methodOf "bilinear") (none : Option ℚ) = false := by
    intro h; exact absurd (Option.some.inj h) (by decide)
  rw [generated_sample_eq _ _ _ _ _ _ _ _ _ _ _ none (c2dOfModel_meaning _ _ _) hP hN hw]
  obtain ⟨R, h1, h2⟩ := okAnd_spec
    (r := C14.exD.sampleP (.num (1 / 2)) .bilinear none (some ⟨2, 3 / 2⟩) none)
    (p := fun R => decide (R.dt = .disc (1 / 2))) (by decide +kernel)
  have hm : methodOf "bilinear" = .bilinear := by decide
  refine ⟨⟨R, ⟨some "plant$sampled", ["u"], ["y"], ["x1", "x2"]⟩⟩, ?_, of_decide_eq_true h2, rfl⟩
  unfold sampleModel
  have hpw : prewarpOf (fun _ => (3 / 2 : ℚ)) (.num (1 / 2)) (some 2) = some ⟨2, 3 / 2⟩ := rfl
  rw [hm, hpw, h1]
  rfl

/-- a discrete-time source and a zero prewarp frequency raise (hypotheses of the two error theorems). -/
example : Generated.ssSample (c2dOfModel C14.exD none) (fun _ => (0 : ℚ))
      ⟨{ C14.exD with dt := .dtrue }, exNames⟩ (.num 1) "zoh" none none none true .empty = .error .timebase :=
  generated_sample_not_continuous_raises _ _ _ _ _ _ _ _ _ _ rfl
example : Generated.ssSample (c2dOfModel C14.exD none) (fun _ => (0 : ℚ)) ⟨C14.exD, exNames⟩ (.num 1)
      "tustin" none (some 0) none true .empty = .error .zeroDen :=
  generated_sample_prewarp_zero _ _ _ _ _ _ _ _ _ rfl (by decide)

end examples

end ss

end CtrlVerif.C14GenSample
