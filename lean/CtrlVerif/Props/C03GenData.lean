/-
Source-text tie of `ssdata` (control/statesp.py) and `tfdata` (control/xferfcn.py), property C03:
the generated functions (`Generated/ConvData.lean`, rewritten on every run by
`harness/core/py2lean_conv.py`) are the generated conversions followed by the reading of the
fields, hence — by `C03GenSS` / `C03GenTF` — the model's conversions.
-/
import CtrlVerif.Generated.ConvData
import CtrlVerif.Props.C03GenTF

namespace CtrlVerif.C03GenData

open CtrlVerif CtrlVerif.Convert CtrlVerif.PyConv

variable {K : Type} [Field K] [DecidableEq K]

/-- **`ssdata(sys)`** returns the four matrices of the model's conversion of `sys` to state space
(`use_prefix_suffix=False`, default method). -/
theorem generated_ssdata_eq (x : Opd K) (hinv : ∀ y, x = .tf y → C03GenSS.TFInv y.sys) :
    Generated.Conv.ssdata C03GenSS.modelTf2ss x
      = (C03GenSS.modelConvert x false).bind fun S =>
          .ok (PySS.A S.sys, PySS.B S.sys, PySS.C S.sys, PySS.D S.sys) := by
  unfold Generated.Conv.ssdata
  rw [C03GenSS.generated_convertToStatespace_eq x false hinv]
  cases C03GenSS.modelConvert x false <;> rfl

/-- `ssdata` of a state-space system returns its own matrices. -/
theorem generated_ssdata_ss (G : DSS K) (μ : Meta) :
    Generated.Conv.ssdata C03GenSS.modelTf2ss (.ss ⟨G, μ⟩)
      = .ok (PySS.A G, PySS.B G, PySS.C G, PySS.D G) := rfl

/-- **`tfdata(sys)`** returns the nested coefficient lists of the model's conversion of `sys` to a
transfer function (`inputs=1, outputs=1`, `use_prefix_suffix=False`). -/
theorem generated_tfdata_eq (x : Opd K) (hd : C03GenTF.InDomain x 1 1) :
    Generated.Conv.tfdata C03GenTF.modelSs2tf x
      = (C03GenTF.modelConvert x 1 1 false).bind fun T => .ok (TF.num T, TF.den T) := by
  unfold Generated.Conv.tfdata
  rw [C03GenTF.generated_convertToTransferFunction_eq x 1 1 false hd]
  cases C03GenTF.modelConvert x 1 1 false <;> rfl

example : C03GenTF.InDomain (.scalar (3 : ℚ)) 1 1 := ⟨by decide, by decide⟩

/-- `tfdata` of a transfer function returns its own arrays. -/
theorem generated_tfdata_tf (G : DTF K) (μ : Meta) :
    Generated.Conv.tfdata C03GenTF.modelSs2tf (.tf ⟨G, μ⟩)
      = .ok (TF.num (⟨G, μ⟩ : TFObj K), TF.den (⟨G, μ⟩ : TFObj K)) := rfl

end CtrlVerif.C03GenData
