/-
Property C04 — evaluation, frequency response, DC gain, poles and zeros match the exact model.

Everything is stated over an arbitrary field `K` with decidable equality (the driver runs the
same definitions over `ℚ(i)`), for arbitrary numbers of states, inputs and outputs.
-/
import CtrlVerif.Lemmas.Eval
import CtrlVerif.Lemmas.TF
import CtrlVerif.Model.QI

namespace CtrlVerif.C04

open Matrix Polynomial CtrlVerif.Eval

variable {K : Type} [Field K] [DecidableEq K]

/-! ### transfer functions: `sys(x)` is the rational function evaluated, with the IEEE pole
convention -/

/-- `TransferFunction.horner` off the poles of an entry: the value is `num(x) / den(x)`, the
quotient of the *polynomials* denoted by the coefficient arrays, evaluated at `x`. -/
theorem tf_call_sem {p m : Nat} (e : Fin p → Fin m → Frac K) (x : K) (i : Fin p) (j : Fin m)
    (h : (toPoly (e i j).den).eval x ≠ 0) :
    tfHorner e x i j = .fin ((toPoly (e i j).num).eval x / (toPoly (e i j).den).eval x) := by
  simp only [tfHorner, Matrix.of_apply, ieeeDiv, polyval_eq_eval]
  rw [if_neg h]

/-- … which is the value at `x` of the rational function `⟦num/den⟧ ∈ K(X)` that the C01
semantics assigns to the entry. -/
theorem tf_call_ratfunc {p m : Nat} (e : Fin p → Fin m → Frac K) (x : K) (i : Fin p) (j : Fin m)
    (h : (toPoly (e i j).den).eval x ≠ 0) :
    ∃ N D : K[X], (e i j).sem = ι' N / ι' D ∧ D.eval x ≠ 0 ∧
      tfHorner e x i j = .fin (N.eval x / D.eval x) :=
  ⟨_, _, rfl, h, tf_call_sem e x i j h⟩

/-- the value does not depend on the representative: two coefficient pairs denoting the same
rational function give the same finite value wherever both denominators are non-zero. -/
theorem tf_call_wd (f g : Frac K) (x : K) (hsem : f.sem = g.sem) (hf0 : f.WF) (hg0 : g.WF)
    (hf : (toPoly f.den).eval x ≠ 0) (hg : (toPoly g.den).eval x ≠ 0) :
    (toPoly f.num).eval x / (toPoly f.den).eval x
      = (toPoly g.num).eval x / (toPoly g.den).eval x := by
  unfold Frac.sem at hsem
  rw [div_eq_div_iff (ι'_ne_zero hf0) (ι'_ne_zero hg0), ← ι'_mul, ← ι'_mul] at hsem
  have hpoly : toPoly f.num * toPoly g.den = toPoly g.num * toPoly f.den :=
    IsFractionRing.injective K[X] (RatFunc K) hsem
  rw [div_eq_div_iff hf hg, ← eval_mul, ← eval_mul, hpoly]

/-- pole convention of a transfer-function entry: `den(x) = 0`, `num(x) ≠ 0` gives `inf`. -/
theorem tf_pole_inf {p m : Nat} (e : Fin p → Fin m → Frac K) (x : K) (i : Fin p) (j : Fin m)
    (hd : (toPoly (e i j).den).eval x = 0) (hn : (toPoly (e i j).num).eval x ≠ 0) :
    tfHorner e x i j = .inf := by
  simp only [tfHorner, Matrix.of_apply, ieeeDiv, polyval_eq_eval]
  rw [if_pos hd, if_neg hn]

/-- … and `den(x) = 0 = num(x)` (a zero cancels the pole) gives `nan`. -/
theorem tf_pole_nan {p m : Nat} (e : Fin p → Fin m → Frac K) (x : K) (i : Fin p) (j : Fin m)
    (hd : (toPoly (e i j).den).eval x = 0) (hn : (toPoly (e i j).num).eval x = 0) :
    tfHorner e x i j = .nan := by
  simp only [tfHorner, Matrix.of_apply, ieeeDiv, polyval_eq_eval]
  rw [if_pos hd, if_pos hn]

/-- the value is finite exactly off the roots of the denominator. -/
theorem tf_finite_iff {p m : Nat} (e : Fin p → Fin m → Frac K) (x : K) (i : Fin p) (j : Fin m) :
    (∃ z, tfHorner e x i j = .fin z) ↔ ¬ (toPoly (e i j).den).IsRoot x := by
  simp only [tfHorner, Matrix.of_apply, ieeeDiv, polyval_eq_eval, IsRoot.def]
  by_cases hd : (toPoly (e i j).den).eval x = 0
  · simp only [hd, if_true, not_true_eq_false, iff_false, not_exists]
    intro z; split <;> simp
  · simp [hd]

example : tfHorner (K := ℚ) (fun (_ _ : Fin 1) => ⟨[1, 0], [1, 0, 0]⟩) 0 0 0 = .nan := by
  decide +kernel
example : tfHorner (K := ℚ) (fun (_ _ : Fin 1) => ⟨[1, 1], [1, 0]⟩) 0 0 0 = .inf := by
  decide +kernel
example : tfHorner (K := ℚ) (fun (_ _ : Fin 1) => ⟨[1, 1], [1, 2]⟩) 2 0 0 = .fin (3 / 4) := by
  decide +kernel

/-! ### state space: the non-singular branch returns the unique response -/

/-- the general path (any number of states), off the poles: the returned matrix is finite and is
a response of the system at `x`. -/
theorem ss_gen_resp {n p m : Nat} (G : SS (Fin n) (Fin m) (Fin p) K) (x : K)
    (hu : IsUnit (x • (1 : Matrix (Fin n) (Fin n) K) - G.A)) :
    ∃ Y, G.Resp x Y ∧ ssHornerGen G x = Matrix.of fun i j => .fin (Y i j) := by
  have hd : detFin (resolv G.A x) ≠ 0 := fun h => (detFin_resolv_eq_zero_iff G.A x).mp h hu
  have hdet : (resolv G.A x).det ≠ 0 := by rwa [detFin_eq_det] at hd
  refine ⟨G.C * (SS.invQ (resolv G.A x) * G.B) + G.D, ⟨SS.invQ (resolv G.A x) * G.B, ?_, rfl⟩, ?_⟩
  · show resolv G.A x * (SS.invQ (resolv G.A x) * G.B) = G.B
    rw [← Matrix.mul_assoc, (invQ_spec _ hdet).2, Matrix.one_mul]
  · unfold ssHornerGen; rw [if_neg hd]

/-- the 1-state fast path agrees with the general path off the pole. -/
theorem ss_horner1_eq_gen {p m : Nat} (G : SS (Fin 1) (Fin m) (Fin p) K) (x : K) :
    horner1 G x = ssHornerGen G x := by
  have hdet : detFin (resolv G.A x) = x - G.A 0 0 := by rw [detFin_eq_det, det_resolv_one]
  unfold horner1 ssHornerGen
  rw [hdet]
  by_cases h : x - G.A 0 0 = 0
  · rw [if_pos h, if_pos h]
  · rw [if_neg h, if_neg h]
    ext i j
    simp only [Matrix.of_apply, IVal.fin.injEq, Matrix.add_apply, Matrix.mul_apply,
      Fin.sum_univ_one, Fin.isValue, add_left_inj]
    have hinv : SS.invQ (resolv G.A x) 0 0 = (x - G.A 0 0)⁻¹ := by
      simp [SS.invQ, Matrix.adjugate_fin_one, resolv_one_apply, Matrix.det_fin_one]
    rw [hinv]; field_simp

/-- the 0-state path agrees with the general path. -/
theorem ss_horner0_eq_gen {p m : Nat} (G : SS (Fin 0) (Fin m) (Fin p) K) (x : K) :
    (Matrix.of fun i j => IVal.fin (G.D i j)) = ssHornerGen G x := by
  unfold ssHornerGen
  rw [if_neg (by simp [detFin])]
  ext i j
  simp [Matrix.mul_apply]

/-- **all three paths of `StateSpace.horner` are one function**: `ssHorner` is the general path
for every number of states. -/
theorem ss_horner_eq_gen : ∀ {n p m : Nat} (G : SS (Fin n) (Fin m) (Fin p) K) (x : K),
    ssHorner G x = ssHornerGen G x
  | 0, _, _, G, x => ss_horner0_eq_gen G x
  | 1, _, _, G, x => ss_horner1_eq_gen G x
  | _ + 2, _, _, _, _ => rfl

/-- **`sys(x)` for a state-space system off its poles**: the returned matrix is finite and is *the*
value `Y` of the transfer matrix at `x` (`Resp`, unique by `SS.Resp.unique`), whatever path the
number of states selects. -/
theorem ss_call_resp {n p m : Nat} (G : SS (Fin n) (Fin m) (Fin p) K) (x : K)
    (hu : IsUnit (x • (1 : Matrix (Fin n) (Fin n) K) - G.A)) :
    ∃ Y, G.Resp x Y ∧ (∀ Y', G.Resp x Y' → Y' = Y) ∧
      ssHorner G x = Matrix.of fun i j => .fin (Y i j) := by
  obtain ⟨Y, hY, h⟩ := ss_gen_resp G x hu
  exact ⟨Y, hY, fun Y' hY' => SS.Resp.unique hu hY' hY, by rw [ss_horner_eq_gen, h]⟩

/-- a system without states evaluates to its direct term everywhere. -/
theorem ss_call_static {p m : Nat} (G : SS (Fin 0) (Fin m) (Fin p) K) (x : K) :
    ssHorner G x = Matrix.of fun i j => .fin (G.D i j) := rfl

/-- the certified execution used by the driver returns, whenever it returns, the model value. -/
theorem ss_cert_sound : ∀ {n p m : Nat} (G : SS (Fin n) (Fin m) (Fin p) K) (x : K)
    (X : Matrix (Fin n) (Fin m) K) (M : Matrix (Fin p) (Fin m) (IVal K)),
    ssHornerCert G x X = some M → M = ssHorner G x
  | 0, _, _, G, x, X, M => by intro h; simpa [ssHornerCert, ssHorner] using h.symm
  | 1, _, _, G, x, X, M => by intro h; simpa [ssHornerCert, ssHorner] using h.symm
  | n + 2, _, _, G, x, X, M => by
    intro h
    simp only [ssHornerCert, ssGenCert] at h
    show M = ssHornerGen G x
    unfold ssHornerGen
    by_cases hd : detFin (resolv G.A x) = 0
    · rw [if_pos hd] at h ⊢; exact (Option.some.inj h).symm
    · rw [if_neg hd] at h ⊢
      by_cases hX : resolv G.A x * X = G.B
      · rw [if_pos hX] at h
        have hdet : (resolv G.A x).det ≠ 0 := by rwa [detFin_eq_det] at hd
        have hXeq : X = SS.invQ (resolv G.A x) * G.B := by
          rw [← hX, ← Matrix.mul_assoc, (invQ_spec _ hdet).1, Matrix.one_mul]
        rw [← Option.some.inj h, hXeq]
      · rw [if_neg hX] at h; exact absurd h (by simp)

/-! ### state space: the singular branch -/

/-- at a pole (`xI - A` singular) every entry is `nan` if the system matrix loses rank at `x`
(a zero cancels the pole) and `inf` otherwise, for every number of states ≥ 1. -/
theorem ss_pole_at_point {n p m : Nat} (G : SS (Fin n) (Fin m) (Fin p) K) (x : K)
    (hs : ¬ IsUnit (x • (1 : Matrix (Fin n) (Fin n) K) - G.A)) :
    ssHorner G x = Matrix.of fun _ _ => poleVal (zeroTest G x) := by
  rw [ss_horner_eq_gen]; unfold ssHornerGen
  rw [if_pos ((detFin_resolv_eq_zero_iff G.A x).mpr hs)]

/-- never a finite number at a pole, and always one off the poles. -/
theorem ss_finite_iff {n p m : Nat} (G : SS (Fin n) (Fin m) (Fin p) K) (x : K)
    (i : Fin p) (j : Fin m) :
    (∃ z, ssHorner G x i j = .fin z) ↔ IsUnit (x • (1 : Matrix (Fin n) (Fin n) K) - G.A) := by
  constructor
  · rintro ⟨z, hz⟩
    by_contra hs
    rw [ss_pole_at_point G x hs] at hz
    simp only [Matrix.of_apply, poleVal] at hz
    split at hz <;> exact absurd hz (by simp)
  · intro hu
    obtain ⟨Y, _, _, h⟩ := ss_call_resp G x hu
    exact ⟨Y i j, by rw [h]; rfl⟩

/-- for a square system the zero test of the singular branch is `det (L - xM) = 0`: `x` is a
generalised eigenvalue of the pencil that `StateSpace.zeros()` hands to `scipy.linalg.eigvals`. -/
theorem zeroTest_square {n m : Nat} (G : SS (Fin n) (Fin m) (Fin m) K) (x : K) :
    zeroTest G x = true ↔ (rosenbrock G x).det = 0 := by
  unfold zeroTest
  rw [dif_pos rfl, decide_eq_true_eq, detFin_eq_det, rosenFin, det_submatrix_equiv_self]
  rfl

/-- the literal 1-state fast path of the code agrees with the model off the pole … -/
theorem horner1Code_eq_off_pole {p m : Nat} (G : SS (Fin 1) (Fin m) (Fin p) K) (x : K)
    (h : x ≠ G.A 0 0) : horner1Code G x = horner1 G x := by
  unfold horner1Code horner1
  rw [if_neg (sub_ne_zero.mpr h), if_neg (sub_ne_zero.mpr h)]

/-- … and at the pole exactly when no zero cancels it (or there is nothing to write). -/
theorem horner1Code_eq_at_pole_iff {p m : Nat} (G : SS (Fin 1) (Fin m) (Fin p) K)
    (i : Fin p) (j : Fin m) :
    horner1Code G (G.A 0 0) = horner1 G (G.A 0 0) ↔ zeroTest G (G.A 0 0) = false := by
  unfold horner1Code horner1
  simp only [sub_self, if_true]
  constructor
  · intro h
    have := congrFun (congrFun h i) j
    simp only [Matrix.of_apply, poleVal] at this
    by_contra hz
    rw [Bool.not_eq_false] at hz
    rw [hz] at this
    exact absurd this (by simp)
  · intro h; rw [h]; rfl

/-- off its pole a first-order system has the finite value `c (x - a)⁻¹ b + d`, **however close
`x` is to the pole**: the only point without a finite value is `x = a` itself. -/
theorem ss_1state_off_pole {p m : Nat} (G : SS (Fin 1) (Fin m) (Fin p) K) (x : K)
    (h : x ≠ G.A 0 0) (i : Fin p) (j : Fin m) :
    ssHorner G x i j = .fin (G.C i 0 / (x - G.A 0 0) * G.B 0 j + G.D i j) := by
  show horner1 G x i j = _
  unfold horner1
  rw [if_neg (sub_ne_zero.mpr h)]
  rfl

/-- a pole test that is exact is the model … -/
theorem horner1Near_exact {p m : Nat} (near : K → K → Bool) (hn : ∀ x a, near x a = true ↔ x = a)
    (G : SS (Fin 1) (Fin m) (Fin p) K) (x : K) : horner1Near near G x = horner1 G x := by
  unfold horner1Near horner1
  by_cases h : x = G.A 0 0
  · rw [if_pos ((hn _ _).mpr h), if_pos (sub_eq_zero.mpr h), h]
  · rw [if_neg (fun hh => h ((hn _ _).mp hh)), if_neg (sub_ne_zero.mpr h)]

/-- … and one that is not (`np.isclose(x, a)`: the seeded change C04-m5) changes **every** entry at
**every** point that passes the test without being the pole: the model has a finite value there,
the variant has none. -/
theorem horner1Near_changes {p m : Nat} (near : K → K → Bool)
    (G : SS (Fin 1) (Fin m) (Fin p) K) (x : K) (hnear : near x (G.A 0 0) = true)
    (hx : x ≠ G.A 0 0) (i : Fin p) (j : Fin m) :
    (∃ z, horner1 G x i j = .fin z) ∧ ¬ ∃ z, horner1Near near G x i j = .fin z := by
  constructor
  · exact ⟨_, ss_1state_off_pole G x hx i j⟩
  · rintro ⟨z, hz⟩
    unfold horner1Near at hz
    rw [if_pos hnear] at hz
    simp only [Matrix.of_apply, poleVal] at hz
    split at hz <;> exact absurd hz (by simp)

/-- non-vacuity: `ss([[1]],[[1]],[[1]],[[0]])` at `x = 1 + 1/1024` with "near = within 1/100":
the model answers `1024`, the variant `inf`. -/
example :
    let G : SS (Fin 1) (Fin 1) (Fin 1) ℚ := ⟨!![1], !![1], !![1], !![0]⟩
    let near : ℚ → ℚ → Bool := fun x a => decide (|x - a| ≤ 1 / 100)
    horner1 G (1 + 1 / 1024) 0 0 = .fin 1024 ∧ horner1Near near G (1 + 1 / 1024) 0 0 = .inf := by
  decide +kernel

/-! ### histories: the answers of one object do not depend on what it was asked before -/

/-- an object whose queries are observers holds the same data after every history … -/
theorem hist_state {S Q A : Type} (ans : S → Q → A) (s : S) (qs : List Q) :
    (runHist (observe ans) s qs).1 = s := by
  induction qs with
  | nil => rfl
  | cons q qs ih => simpa [runHist, observe] using ih

/-- … and its answers are the stand-alone answers, query by query: what `sys(x)`,
`frequency_response`, `dcgain`, `poles()`, `zeros()` return never depends on the queries made
before on the same object (the correspondence check runs every step of a generated history against
the stand-alone model answer). -/
theorem hist_answers {S Q A : Type} (ans : S → Q → A) (s : S) (qs : List Q) :
    (runHist (observe ans) s qs).2 = qs.map (ans s) := by
  induction qs with
  | nil => rfl
  | cons q qs ih => simpa [runHist, observe] using ih

/-- the answer to `q` after any prefix and before any suffix of other queries. -/
theorem hist_answer_indep {S Q A : Type} (ans : S → Q → A) (s : S) (pre post : List Q) (q : Q) :
    (runHist (observe ans) s (pre ++ q :: post)).2[pre.length]? = some (ans s q) := by
  rw [hist_answers]
  simp

/-- the value queries of this property on an LTI object: after any history the object is the
system it was built from and the k-th answer is the model's answer to the k-th query. -/
theorem hist_queries (E : Env K) (L : LTI K) (qs : List (Query K)) :
    runHist (observe (answerOf E)) L qs = (L, qs.map (answerOf E L)) :=
  Prod.ext (hist_state _ _ _) (hist_answers _ _ _)

/-- a step that is *not* an observer (the seeded change C04-m4: `poles()` lets LAPACK reduce a
column-major `A` in place): the inspection itself still answers correctly, every later query is
answered for the transformed data `f s`. -/
theorem hist_inplace_changes {S Q A : Type} (f : S → S) (insp : Q → Bool) (ans : S → Q → A)
    (s : S) (q₀ q : Q) (h₀ : insp q₀ = true) (h : insp q = false) :
    (runHist (stepInplace f insp ans) s [q₀, q]).2 = [ans s q₀, ans (f s) q] ∧
    (runHist (stepInplace f insp ans) s [q₀, q]).1 = f s := by
  simp [runHist, stepInplace, h₀, h]

/-- non-vacuity: `1/(s+1)` asked for its value at `0`, `1`, `0` again: `1`, `1/2`, `1`; and
with a step that halves the numerator in place whenever the point `1` is asked for: `1`, `1/2`,
then `1/2` for the value at `0`. -/
example :
    let e : Fin 1 → Fin 1 → Frac ℚ := fun _ _ => ⟨[1], [1, 1]⟩
    let ans : (Fin 1 → Fin 1 → Frac ℚ) → ℚ → IVal ℚ := fun e x => tfHorner e x 0 0
    (runHist (observe ans) e [0, 1, 0]).2 = [.fin 1, .fin (1 / 2), .fin 1] ∧
    (runHist (stepInplace (fun e i j => ⟨[1 / 2], (e i j).den⟩) (fun x => decide (x = 1)) ans) e
      [0, 1, 0]).2 = [.fin 1, .fin (1 / 2), .fin (1 / 2)] := by
  decide +kernel

/-- **finding (code as written)**: `ss([[0]],[[1]],[[0]],[[2]])(0)`: the transfer function is the
constant 2 (the mode is unobservable, a zero cancels the pole); the 1-state fast path answers
`inf` where the general path (and the model) answer `nan`. -/
theorem ss_pole_1state_code_counterexample :
    let G : SS (Fin 1) (Fin 1) (Fin 1) ℚ := ⟨!![0], !![1], !![0], !![2]⟩
    horner1Code G 0 0 0 = .inf ∧ ssHorner G 0 0 0 = .nan ∧ zeroTest G 0 = true := by
  decide +kernel

/-- the 2-state analogue goes through the general path: `nan`. -/
example :
    let G : SS (Fin 2) (Fin 1) (Fin 1) ℚ := ⟨!![0, 0; 0, -1], !![1; 1], !![0, 1], !![2]⟩
    ssHorner G 0 0 0 = .nan := by
  decide +kernel

/-- an integrator: `inf`; a non-square system at a pole: decided by the maximal minors. -/
example :
    let G : SS (Fin 1) (Fin 1) (Fin 1) ℚ := ⟨!![0], !![1], !![1], !![0]⟩
    ssHorner G 0 0 0 = .inf := by
  decide +kernel
example :
    let G : SS (Fin 2) (Fin 2) (Fin 1) ℚ := ⟨!![0, 1; 0, 0], !![0, 1; 1, 0], !![0, 1], !![0, 0]⟩
    ssHorner G 0 0 1 = .inf := by
  decide +kernel
example :
    let G : SS (Fin 2) (Fin 1) (Fin 1) ℚ := ⟨!![0, 1; -2, -3], !![0; 1], !![1, 0], !![0]⟩
    ssHorner G 0 0 0 = .fin (1 / 2) := by
  decide +kernel

/-! ### frequency response -/

/-- the grid of the result is sorted … -/
theorem freq_sorted (ws : List ℚ) : (sortW ws).Pairwise (· ≤ ·) := by
  have := List.pairwise_mergeSort (le := fun a b : ℚ => decide (a ≤ b))
    (fun a b c hab hbc => by simp only [decide_eq_true_eq] at *; exact le_trans hab hbc)
    (fun a b => by simp only [Bool.or_eq_true, decide_eq_true_eq]; exact le_total a b) ws
  simpa [sortW] using this

/-- … and is a permutation of the input (repeated frequencies are kept). -/
theorem freq_perm (ws : List ℚ) : (sortW ws).Perm ws := List.mergeSort_perm ws _

/-- **`frequency_response(omega)`**: the grid is the sorted input and the `k`-th value is the
system evaluated at the point of the `k`-th *sorted* frequency. -/
theorem freq_response_spec (E : Env K) (L : LTI K) (ws : List ℚ) :
    (freqResp E L ws).1 = sortW ws ∧
    (freqResp E L ws).2 = (sortW ws).map fun w => call1 L (freqPoint E L.dt w) := by
  simp [freqResp, call, freqPoints, List.map_map, Function.comp_def]

theorem freq_response_length (E : Env K) (L : LTI K) (ws : List ℚ) :
    (freqResp E L ws).1.length = ws.length ∧ (freqResp E L ws).2.length = ws.length := by
  simp [freqResp, call, freqPoints, sortW]

/-- every (frequency, value) pair of the result is `(w, sys(freqPoint dt w))` for an input `w`. -/
theorem freq_response_mem (E : Env K) (L : LTI K) (ws : List ℚ) (w : ℚ)
    (M : Matrix (Fin L.p) (Fin L.m) (IVal K))
    (h : (w, M) ∈ List.zip (freqResp E L ws).1 (freqResp E L ws).2) :
    w ∈ ws ∧ M = call1 L (freqPoint E L.dt w) := by
  rw [(freq_response_spec E L ws).1, (freq_response_spec E L ws).2, List.zip_map_right] at h
  simp only [List.mem_map, Prod.map_apply, id_eq, Prod.mk.injEq] at h
  obtain ⟨⟨a, b⟩, hab, rfl, rfl⟩ := h
  have hab' := List.of_mem_zip hab
  have : a = b := by
    have hz : List.zip (sortW ws) (sortW ws) = (sortW ws).map fun x => (x, x) := by
      rw [List.zip_eq_zipWith]; exact List.zipWith_self ..
    rw [hz] at hab
    simp only [List.mem_map, Prod.mk.injEq] at hab
    obtain ⟨c, _, rfl, rfl⟩ := hab
    rfl
  subst this
  exact ⟨(freq_perm ws).mem_iff.mp hab'.1, rfl⟩

/-- the evaluation points: `jω` for continuous time and for `dt = None` … -/
theorem freqPoint_cont (E : Env K) (w : ℚ) :
    freqPoint E .cont w = E.jw w ∧ freqPoint E .none w = E.jw w := ⟨rfl, rfl⟩

/-- … `exp(jω·dt)` for a sampling time, with `dt = True` counted as 1. -/
theorem freqPoint_disc (E : Env K) (h w : ℚ) :
    freqPoint E (.disc h) w = E.expj h w ∧ freqPoint E .dtrue w = E.expj 1 w := ⟨rfl, rfl⟩

example : sortW [3, 1, 2, 1] = [1, 1, 2, 3] :=
  List.Perm.eq_of_pairwise (le := (· ≤ ·)) (fun _ _ _ _ h1 h2 => le_antisymm h1 h2)
    (freq_sorted _) (by decide +kernel) ((freq_perm _).trans (by decide +kernel))

/-! ### DC gain -/

/-- **`dcgain()`** is the value at `s = 0` for continuous-time systems (and `dt = None`) … -/
theorem dcgain_cont (L : LTI K) (h : L.dt = .cont ∨ L.dt = .none) : dcgain L = call1 L 0 := by
  unfold dcgain; rcases h with h | h <;> rw [h] <;> rfl

/-- … and at `z = 1` for discrete-time systems (`dt = True` or a sampling time). -/
theorem dcgain_disc (L : LTI K) (h : L.dt = .dtrue ∨ ∃ t, L.dt = .disc t) :
    dcgain L = call1 L 1 := by
  unfold dcgain; rcases h with h | ⟨t, h⟩ <;> rw [h] <;> rfl

/-- an integrator (a pole at the point of the DC gain) never reports a finite DC gain. -/
theorem dcgain_ss_pole {n p m : Nat} (G : SS (Fin n) (Fin m) (Fin p) K) (dt : Dt)
    (hs : ¬ IsUnit (dcPoint (K := K) dt • (1 : Matrix (Fin n) (Fin n) K) - G.A))
    (i : Fin p) (j : Fin m) : ¬ ∃ z, dcgain (.ss n p m G dt) i j = .fin z := by
  intro h
  exact hs ((ss_finite_iff G _ i j).mp h)

/-! ### `_dcgain`: the real-part post-processing keeps every value (complex coefficients) -/

/-- the component pattern refines the outcome class of a complex division. -/
theorem ieeeDivCx_cls (P : Parts K) (n d : K) : (ieeeDivCx P n d).cls = ieeeDiv n d := by
  unfold ieeeDivCx ieeeDiv
  by_cases hd : d = 0
  · simp only [hd, if_true, Cx.cls]
    by_cases hn : n = 0
    · subst hn
      obtain ⟨h1, h2⟩ := (P.zero_iff 0).mp rfl
      simp [h1, h2]
    · rw [if_neg hn]
      have : ¬ (P.reZero n = true ∧ P.isReal n = true) := fun h => hn ((P.zero_iff n).mpr h)
      cases h1 : P.reZero n <;> cases h2 : P.isReal n <;> simp_all
  · simp [hd, Cx.cls]

theorem ssCx_cls (v : IVal K) : (ssCx v).cls = v := by
  cases v <;> simp [ssCx, Cx.cls]

/-- `sys(x)` with component patterns is `sys(x)`. -/
theorem call1Cx_cls (P : Parts K) (L : LTI K) (x : K) (i : Fin L.p) (j : Fin L.m) :
    (call1Cx P L x i j).cls = call1 L x i j := by
  cases L with
  | tf p m e dt =>
    simp only [call1Cx, call1, tfHornerCx, tfHorner, Matrix.of_apply]
    exact ieeeDivCx_cls P _ _
  | ss ns p m G dt =>
    simp only [call1Cx, call1, Matrix.of_apply]
    exact ssCx_cls _

theorem allPass_iff (P : Parts K) {p m : Nat} (M : Matrix (Fin p) (Fin m) (Cx K)) :
    allPass P M = true ↔ ∀ i j, P.passes (M i j) = true := by
  simp [allPass, List.all_eq_true]

/-- an entry that passes the test of `_dcgain` is not changed by `.real`: a real number is its own
real part; `inf + nan j` becomes `inf`, `nan + nan j` becomes `nan`. -/
theorem reCls_of_passes (P : Parts K) (c : Cx K) (h : P.passes c = true) : P.reCls c = c.cls := by
  cases c with
  | fin z => simp only [Parts.reCls, Cx.cls]; rw [P.re_of_real z h]
  | div0 r i =>
    simp only [Parts.passes, Bool.not_eq_true'] at h
    subst h
    cases r <;> simp [Parts.reCls, Cx.cls]

/-- **the post-processing of `_dcgain` never changes a value**: whatever mixture of real, complex,
infinite and NaN entries the zero-frequency response has, every entry of the result has the class
and the value of the corresponding entry of the response. -/
theorem dcPost_value (P : Parts K) {p m : Nat} (M : Matrix (Fin p) (Fin m) (Cx K))
    (i : Fin p) (j : Fin m) : (dcPost P M).2 i j = (M i j).cls := by
  unfold dcPost
  by_cases h : allPass P M = true
  · rw [if_pos h]
    exact reCls_of_passes P _ ((allPass_iff P M).mp h i j)
  · rw [if_neg h]; rfl

/-- the result is a real array exactly when every entry is real or has a NaN imaginary
component. -/
theorem dcPost_real_iff (P : Parts K) {p m : Nat} (M : Matrix (Fin p) (Fin m) (Cx K)) :
    (dcPost P M).1 = true ↔ ∀ i j, P.passes (M i j) = true := by
  unfold dcPost
  by_cases h : allPass P M = true
  · rw [if_pos h]; simpa using (allPass_iff P M).mp h
  · rw [if_neg h]
    simp only [Bool.false_eq_true, false_iff]
    exact fun h' => h ((allPass_iff P M).mpr h')

/-- **`dcgain()` as the code computes it (evaluation, then the real-part post-processing) is the
value of the system at `s = 0` / `z = 1`**, also for complex coefficients. -/
theorem dcgain_code_value (P : Parts K) (L : LTI K) (i : Fin L.p) (j : Fin L.m) :
    (dcgainCode P L).2 i j = dcgain L i j := by
  unfold dcgainCode dcgain
  rw [dcPost_value, call1Cx_cls]

/-- a state-space system (real data, evaluated at a real point: every finite entry real) always
gets a real array: the entries written at a pole have a NaN imaginary component. -/
theorem dcgain_code_real_ss (P : Parts K) {n p m : Nat} (G : SS (Fin n) (Fin m) (Fin p) K)
    (dt : Dt) (hreal : ∀ i j z, dcgain (.ss n p m G dt) i j = .fin z → P.isReal z = true) :
    (dcgainCode P (.ss n p m G dt)).1 = true := by
  unfold dcgainCode
  rw [dcPost_real_iff]
  intro i j
  have hr := hreal i j
  simp only [dcgain, call1] at hr
  show P.passes (ssCx (ssHorner G (dcPoint dt) i j)) = true
  cases h : ssHorner G (dcPoint dt) i j with
  | fin z => exact hr z h
  | inf => rfl
  | nan => rfl

/-- **`np.any` in place of `np.all` breaks the property**: as soon as one entry passes the test
the real part is taken everywhere, and every finite entry that is not its own real part changes. -/
theorem dcPostAny_changes (P : Parts K) {p m : Nat} (M : Matrix (Fin p) (Fin m) (Cx K))
    (i₀ : Fin p) (j₀ : Fin m) (hpass : P.passes (M i₀ j₀) = true)
    (i : Fin p) (j : Fin m) (z : K) (hz : M i j = .fin z) (hre : P.re z ≠ z) :
    (dcPostAny P M).2 i j ≠ (M i j).cls := by
  have hany : anyPass P M = true := by
    simp only [anyPass, List.any_eq_true]
    exact ⟨i₀, List.mem_finRange _, j₀, List.mem_finRange _, hpass⟩
  unfold dcPostAny
  rw [if_pos hany]
  simp only [Matrix.of_apply, hz, Parts.reCls, Cx.cls]
  intro h
  exact hre (IVal.fin.inj h)

/-- `G(s) = [1/(s+1), j/(s+2)]`: `G(0) = [1, j/2]`, a complex array with the values unchanged;
with `np.any` the second entry would become `0`. -/
example :
    let e : Fin 1 → Fin 2 → Frac QI := fun _ j => if j = 0 then ⟨[1], [1, 1]⟩ else ⟨[QI.I], [1, 2]⟩
    let r := dcgainCode partsQI (.tf 1 2 e .cont)
    r.1 = false ∧ r.2 (0 : Fin 1) (0 : Fin 2) = .fin 1 ∧ r.2 (0 : Fin 1) (1 : Fin 2) = .fin ⟨0, 1 / 2⟩ ∧
    (dcPostAny partsQI (tfHornerCx partsQI e 0)).2 0 1 = .fin 0 := by
  decide +kernel

/-- `[1/s, j/s, 0/s, 2]` at `0`: `inf + nan j` and `nan + nan j` pass the test, `nan + inf j` does
not: a complex array with classes `inf, inf, nan, 2`; without the second entry a real array. -/
example :
    let e : Fin 1 → Fin 4 → Frac QI := fun _ j =>
      if j = 0 then ⟨[1], [1, 0]⟩ else if j = 1 then ⟨[QI.I], [1, 0]⟩
      else if j = 2 then ⟨[0], [1, 0]⟩ else ⟨[2], [1]⟩
    let e' : Fin 1 → Fin 3 → Frac QI := fun _ j =>
      if j = 0 then ⟨[1], [1, 0]⟩ else if j = 1 then ⟨[0], [1, 0]⟩ else ⟨[2], [1]⟩
    let r := dcgainCode partsQI (.tf 1 4 e .cont)
    let r' := dcgainCode partsQI (.tf 1 3 e' .cont)
    r.1 = false ∧ r.2 (0 : Fin 1) (0 : Fin 4) = .inf ∧ r.2 (0 : Fin 1) (1 : Fin 4) = .inf ∧
    r.2 (0 : Fin 1) (2 : Fin 4) = .nan ∧ r.2 (0 : Fin 1) (3 : Fin 4) = .fin 2 ∧
    r'.1 = true ∧ r'.2 (0 : Fin 1) (0 : Fin 3) = .inf ∧ r'.2 (0 : Fin 1) (1 : Fin 3) = .nan ∧
    r'.2 (0 : Fin 1) (2 : Fin 3) = .fin 2 := by
  decide +kernel

/-! ### poles and zeros: what is handed to the root finders -/

/-- a certified candidate is the characteristic polynomial: a monic list of length `n + 1` that
agrees with `det(xI - A)` at `n + 1` distinct points denotes `charpoly A`. -/
theorem charpolyCert_sound {n : Nat} (A : Matrix (Fin n) (Fin n) K) (d pts : List K)
    (h : charpolyCert A d pts = true) : toPoly d = A.charpoly := by
  simp only [charpolyCert, Bool.and_eq_true, decide_eq_true_eq, List.all_eq_true] at h
  obtain ⟨⟨⟨⟨hl, hh⟩, hpl⟩, hnd⟩, hev⟩ := h
  obtain ⟨hmon, hdeg⟩ := toPoly_monic_of_head hl hh
  have hcdeg : A.charpoly.natDegree = n := by
    rw [Matrix.charpoly_natDegree_eq_dim]; simp
  have hcmon := Matrix.charpoly_monic A
  refine Polynomial.eq_of_degree_sub_lt_of_eval_finset_eq (s := pts.toFinset) ?_ ?_
  · have hcard : pts.toFinset.card = n + 1 := by rw [List.toFinset_card_of_nodup hnd, hpl]
    rw [hcard]
    by_cases hsub : toPoly d - A.charpoly = 0
    · rw [hsub, degree_zero]; exact WithBot.bot_lt_coe _
    · have hlt : (toPoly d - A.charpoly).degree < (toPoly d).degree := by
        refine degree_sub_lt_left ?_ hmon.ne_zero ?_
        · rw [degree_eq_natDegree hmon.ne_zero, degree_eq_natDegree hcmon.ne_zero, hdeg, hcdeg]
        · rw [hmon.leadingCoeff, hcmon.leadingCoeff]
      refine lt_trans hlt ?_
      rw [degree_eq_natDegree hmon.ne_zero, hdeg]
      exact_mod_cast Nat.lt_succ_self n
  · intro x hx
    have := hev x (List.mem_toFinset.mp hx)
    rw [polyval_eq_eval, detFin_eq_det] at this
    rw [this, Matrix.eval_charpoly]
    congr 1
    simp [resolv, Matrix.smul_one_eq_diagonal]

/-- **`StateSpace.poles()`, partial** (the eigenvalue routine is external): the matrix handed to
`eigvals` is `A`; the polynomial the model reports for it is `charpoly A`; and its roots are
exactly the points at which `sys(x)` takes the singular branch (`inf`/`nan`).
Full statement would add: "`eigvals` returns the roots of `charpoly A` with multiplicity"
(contract of LAPACK, assumed). -/
theorem ss_poles_are_roots_partial {n p m : Nat} (G : SS (Fin n) (Fin m) (Fin p) K)
    (cand d : List K) (h : ssPolesPoly G cand = some d) :
    toPoly d = G.A.charpoly ∧
    (n ≠ 0 → ssPolesArg G = some G.A) ∧
    ∀ x, (toPoly d).IsRoot x ↔ ¬ IsUnit (x • (1 : Matrix (Fin n) (Fin n) K) - G.A) := by
  unfold ssPolesPoly at h
  split at h
  · rename_i hc
    have hd : cand = d := Option.some.inj h
    subst hd
    have hcp := charpolyCert_sound G.A cand _ hc
    refine ⟨hcp, fun hn => by simp [ssPolesArg, hn], fun x => ?_⟩
    have hs : (Matrix.scalar (Fin n)) x - G.A = x • (1 : Matrix (Fin n) (Fin n) K) - G.A := by
      simp [Matrix.smul_one_eq_diagonal]
    rw [hcp, IsRoot.def, Matrix.eval_charpoly, Matrix.isUnit_iff_isUnit_det, isUnit_iff_ne_zero,
      not_not, hs]
  · exact absurd h (by simp)

/-- a system without states has no poles (the code returns the empty array). -/
theorem ss_poles_static {p m : Nat} (G : SS (Fin 0) (Fin m) (Fin p) K) : ssPolesArg G = none := rfl

/-- **`TransferFunction.poles()` / `zeros()` for SISO systems, partial** (`numpy.roots` external):
the polynomials handed over are the denominator and the numerator, and the roots of the
denominator are exactly the points where `sys(x)` is not finite. -/
theorem tf_poles_zeros_siso_partial (e : Fin 1 → Fin 1 → Frac K) :
    tfPolesArgSiso e = (e 0 0).den ∧ tfZerosArg e = .ok (e 0 0).num ∧
    ∀ x, (toPoly (tfPolesArgSiso e)).IsRoot x ↔ ¬ ∃ z, tfHorner e x 0 0 = .fin z := by
  refine ⟨rfl, ?_, fun x => ?_⟩
  · simp [tfZerosArg]
  · rw [tf_finite_iff, not_not]; rfl

/-- `TransferFunction.zeros()` of a MIMO system raises `NotImplementedError`. -/
theorem tf_zeros_mimo_raises {p m : Nat} (e : Fin p → Fin m → Frac K) (h : ¬ (p = 1 ∧ m = 1)) :
    tfZerosArg e = .error .notImplemented := by
  simp [tfZerosArg, h]

/-- `StateSpace.zeros()` (no Slycot): empty without states, `NotImplementedError` for a
non-square system, otherwise the pencil `L = [A B; C D]`, `M = [I 0; 0 0]` is handed to
`scipy.linalg.eigvals`, and `det (L - xM)` is the determinant the zero test of `sys(pole)`
evaluates. -/
theorem ss_zeros_arg {n m : Nat} (G : SS (Fin n) (Fin m) (Fin m) K) (hn : n ≠ 0) :
    ∃ L M, ssZerosArg G = .ok (some (L, M)) ∧ ∀ x : K, L - x • M = rosenbrock G x := by
  refine ⟨fromBlocks G.A G.B (squareOf rfl G).C (squareOf rfl G).D, fromBlocks 1 0 0 0,
    by simp [ssZerosArg, hn], fun x => ?_⟩
  ext i j
  rcases i with i | i <;> rcases j with j | j <;>
    simp [rosenbrock, squareOf, Matrix.sub_apply, Matrix.smul_apply]

theorem ss_zeros_nonsquare_raises {n p m : Nat} (G : SS (Fin n) (Fin m) (Fin p) K)
    (hn : n ≠ 0) (h : p ≠ m) : ssZerosArg G = .error .notImplemented := by
  simp [ssZerosArg, hn, h]

/-- a certified candidate is the zero polynomial of the pencil: a list of length ≤ `n + m + 1`
that agrees with `det(L - xM)` at `n + m + 1` distinct points agrees with it everywhere, so its
roots are exactly the finite generalised eigenvalues `scipy.linalg.eigvals(L, M)` is asked for
(for a regular pencil) and exactly the points at which the zero test of `sys(pole)` succeeds. -/
theorem zeroPolyCert_sound {n m : Nat} (G : SS (Fin n) (Fin m) (Fin m) K) (z pts : List K)
    (h : zeroPolyCert G z pts = true) : ∀ x, polyval z x = (rosenbrock G x).det := by
  simp only [zeroPolyCert, Bool.and_eq_true, decide_eq_true_eq, List.all_eq_true] at h
  obtain ⟨⟨⟨hl, hpl⟩, hnd⟩, hev⟩ := h
  -- the pencil with indices in `Fin (n + m)`
  let e := (finSumFinEquiv (m := n) (n := m)).symm
  let L : Matrix (Fin (n + m)) (Fin (n + m)) K := (fromBlocks G.A G.B G.C G.D).submatrix e e
  let M : Matrix (Fin (n + m)) (Fin (n + m)) K :=
    (fromBlocks (1 : Matrix (Fin n) (Fin n) K) 0 0 0).submatrix e e
  have hros : ∀ x, rosenFin G x = L - x • M := by
    intro x
    ext i j
    simp only [rosenFin, rosenbrock, L, M, Matrix.submatrix_apply, Matrix.sub_apply,
      Matrix.smul_apply]
    rcases e i with a | a <;> rcases e j with b | b <;>
      simp [Matrix.sub_apply, Matrix.smul_apply]
  obtain ⟨P, hdeg, hP⟩ := pencil_det_poly L M
  have hcard : pts.toFinset.card = n + m + 1 := by rw [List.toFinset_card_of_nodup hnd, hpl]
  have hPz : toPoly z = P := by
    refine Polynomial.eq_of_degrees_lt_of_eval_finset_eq (pts.toFinset) ?_ ?_ ?_
    · rw [hcard]
      exact lt_of_lt_of_le (toPoly_degree_lt z) (by exact_mod_cast hl)
    · rw [hcard]
      refine lt_of_le_of_lt degree_le_natDegree ?_
      exact_mod_cast Nat.lt_succ_of_le hdeg
    · intro x hx
      have := hev x (List.mem_toFinset.mp hx)
      rw [polyval_eq_eval, detFin_eq_det, hros] at this
      rw [this, hP]
  intro x
  rw [polyval_eq_eval, hPz, hP, ← hros, rosenFin, det_submatrix_equiv_self]


example :
    zeroPolyCert (K := ℚ) (⟨!![0, 1; -2, -3], !![0; 1], !![1, 1], !![1]⟩ : SS (Fin 2) (Fin 1) (Fin 1) ℚ)
      [1, 4, 3] (samplePts 3) = true := by
  decide +kernel

/-- **`StateSpace.zeros()`, partial** (QZ external): the roots of the certified zero polynomial
are exactly the points at which the zero test of the singular branch of `sys(x)` succeeds, i.e.
"a zero cancels the pole" means the same thing in `zeros()` and in `sys(pole)`. -/
theorem ss_zeros_are_roots_partial {n m : Nat} (G : SS (Fin n) (Fin m) (Fin m) K) (z pts : List K)
    (h : zeroPolyCert G z pts = true) (x : K) :
    (toPoly z).IsRoot x ↔ zeroTest G x = true := by
  rw [zeroTest_square, IsRoot.def, ← polyval_eq_eval, zeroPolyCert_sound G z pts h]

/-- the common-denominator certificate: the accepted list denotes a least common multiple of the
column's denominators (`_common_den` merges the pole lists keeping the largest multiplicity). -/
theorem lcmCert_sound (dens cof bez : List (List K)) (l : List K)
    (h : lcmCert dens cof bez l = true) :
    (∀ d ∈ dens, toPoly d ∣ toPoly l) ∧
    ∀ q : K[X], (∀ d ∈ dens, toPoly d ∣ q) → toPoly l ∣ q := by
  simp only [lcmCert, Bool.and_eq_true, decide_eq_true_eq, List.all_eq_true] at h
  obtain ⟨⟨⟨hl1, hl2⟩, hdiv⟩, hbez⟩ := h
  have hmul : ∀ dc ∈ List.zip dens cof, toPoly dc.1 * toPoly dc.2 = toPoly l := by
    intro dc hdc
    have := congrArg toPoly (hdiv dc hdc)
    rwa [toPoly_trim, toPoly_trim, toPoly_polymul] at this
  constructor
  · intro d hd
    obtain ⟨k, hk, rfl⟩ := List.getElem_of_mem hd
    have hk2 : k < cof.length := hl1 ▸ hk
    have hmem : (dens[k], cof[k]) ∈ List.zip dens cof := by
      have : (List.zip dens cof)[k]'(by simp [List.length_zip, hk, hk2]) = (dens[k], cof[k]) := by
        simp
      rw [← this]; exact List.getElem_mem _
    exact ⟨_, (hmul _ hmem).symm⟩
  · intro q hq
    -- Σ bezᵢ cofᵢ = 1, and l ∣ cofᵢ q for every i
    have hfold : ∀ (zs : List (List K × List K)) (acc : List K),
        toPoly (zs.foldl (fun acc bc => polyadd acc (polymul bc.1 bc.2)) acc)
          = toPoly acc + (zs.map fun bc => toPoly bc.1 * toPoly bc.2).sum := by
      intro zs
      induction zs with
      | nil => intro acc; simp
      | cons z zs ih =>
        intro acc
        simp only [List.foldl_cons, List.map_cons, List.sum_cons]
        rw [ih, toPoly_polyadd, toPoly_polymul]; ring
    have hone : ((List.zip bez cof).map fun bc => toPoly bc.1 * toPoly bc.2).sum = 1 := by
      have := congrArg toPoly hbez
      rw [toPoly_trim, hfold] at this
      simpa [toPoly_cons] using this
    have hdvd : ∀ bc ∈ List.zip bez cof, toPoly l ∣ toPoly bc.1 * toPoly bc.2 * q := by
      intro bc hbc
      obtain ⟨k, hk, hkeq⟩ := List.getElem_of_mem hbc
      have hkb : k < bez.length := by simp [List.length_zip] at hk; exact hk.1
      have hkc : k < cof.length := by simp [List.length_zip] at hk; exact hk.2
      have hkd : k < dens.length := hl1 ▸ hkc
      have hbc2 : bc.2 = cof[k] := by rw [← hkeq]; simp
      have hmem : (dens[k], cof[k]) ∈ List.zip dens cof := by
        have : (List.zip dens cof)[k]'(by simp [List.length_zip, hkd, hkc])
            = (dens[k], cof[k]) := by simp
        rw [← this]; exact List.getElem_mem _
      have hm := hmul _ hmem
      obtain ⟨r, hr⟩ := hq dens[k] (List.getElem_mem _)
      refine ⟨toPoly bc.1 * r, ?_⟩
      rw [hbc2, hr, ← hm]; simp only; ring
    have : toPoly l ∣ ((List.zip bez cof).map fun bc => toPoly bc.1 * toPoly bc.2).sum * q := by
      rw [← List.sum_map_mul_right]
      exact List.dvd_sum (by
        intro a ha
        simp only [List.mem_map] at ha
        obtain ⟨bc, hbc, rfl⟩ := ha
        exact hdvd bc hbc)
    rwa [hone, one_mul] at this

/-- **`TransferFunction.poles()`, partial** (`numpy.roots`/`tf2zpk`/`poly` external): per input
column the reported polynomial is a least common multiple of the column's denominators. -/
theorem tf_poles_are_roots_partial {p m : Nat} (e : Fin p → Fin m → Frac K)
    (cands : Fin m → List K × List (List K) × List (List K)) (ds : List (List K))
    (h : tfPolesPolys e cands = some ds) :
    ds = (List.finRange m).map (fun j => (cands j).1) ∧
    ∀ j : Fin m, (∀ i : Fin p, toPoly (e i j).den ∣ toPoly (cands j).1) ∧
      ∀ q : K[X], (∀ i : Fin p, toPoly (e i j).den ∣ q) → toPoly (cands j).1 ∣ q := by
  unfold tfPolesPolys at h
  split at h
  · rename_i hc
    refine ⟨(Option.some.inj h).symm, fun j => ?_⟩
    rw [List.all_eq_true] at hc
    obtain ⟨h1, h2⟩ := lcmCert_sound _ _ _ _ (hc j (List.mem_finRange j))
    constructor
    · intro i; exact h1 _ (by simp [colDens])
    · intro q hq
      refine h2 q fun d hd => ?_
      simp only [colDens, List.mem_map, List.mem_finRange, true_and] at hd
      obtain ⟨i, rfl⟩ := hd
      exact hq i
  · exact absurd h (by simp)

example :
    lcmCert (K := ℚ) [[1, 3, 2], [1, 4, 3]] [[1, 3], [1, 2]] [[1], [-1]] [1, 6, 11, 6] = true := by
  decide +kernel

example : charpolyCert (K := ℚ) !![0, 1; -2, -3] [1, 3, 2] (samplePts 2) = true := by
  decide +kernel

end CtrlVerif.C04
