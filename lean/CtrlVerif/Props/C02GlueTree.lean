/-
C02 — the run-time tree theorem: the tree theorem of `Props/C02Tree.lean` for what the driver
executes.

`Props/C02Tree.lean` is about typed trees (`Expr K o ι`, shapes by typing, SISO operands already
broadcast, `Fin p ⊕ Fin q` not flattened) evaluated by the typed block constructions.  The driver
(`Driver/SS.lean`) runs postfix programs over run-time operands with the run-time operators of
`Model/SSDyn.lean`.  `Model/C02Dyn.lean` defines those trees (`SSTree`), their evaluation by the
run-time entry points with the driver's operand dispatch (`SSTree.eval`, `DSS.binop`) and the
algebra of transfer matrices with NumPy's broadcasting rules (`DSem`).  Here:

* `truediv_…`, `rtruediv_…`, `feedback_…`, `lft_resp`: the remaining entry points;
* `binop_…`    : the dispatch on operand kinds, per operator and broadcasting rule;
* `dtree_states`: the kind / states / outputs / inputs of the result are those `SSTree.shape`
                 predicts from the leaves (state dimension = sum over the leaves, a broadcast
                 SISO operand once per channel, `** k` counted `|k|` times);
* `dtree_resp` : **whatever the run-time evaluation returns for a tree responds, at every `s`,
                 with every value the algebra assigns to the tree**; `dtree_value`: … which is
                 `C (sI - A)⁻¹ B + D` off the poles; `dtree_kind`, `dtree_shape`;
* `driver_binop`: the dispatch function of `Driver/SS.lean` is `DSS.binop` over `ℚ`.

An evaluation error of a tree is, by the definition of `SSTree.eval`, the error of the first
run-time operator that raises on its evaluated operands; those are characterised per operator by
the `…_error_iff` theorems of `Props/C02Glue.lean` (there is no tree-level error theorem: unlike
the typed trees, run-time trees also fail on shapes, timebases, zero-channel broadcasts, division
by zero, index ranges).

Everything over an arbitrary field with decidable equality (the operators test determinants).
-/
import CtrlVerif.Props.C02Glue
import CtrlVerif.Driver.SS

namespace CtrlVerif.C02.RT

open CtrlVerif Matrix DSS

variable {K : Type} [Field K] [DecidableEq K]

/-! ### `/` -/

theorem pow_neg_one {G : DSS K} (h : G.m = G.p) : G.pow (-1) = G.inv := by
  have := pow_negSucc h 0
  rw [show Int.negSucc 0 = -1 from rfl] at this
  rw [this]
  cases G.inv <;> rfl

theorem truediv_sys (G H : DSS K) :
    G.truediv (.sys H) = (H.pow (-1)).bind fun hi => mulSS G hi := rfl
theorem truediv_scalar (G : DSS K) (c : K) :
    G.truediv (.scalar c) = if c = 0 then .error .zeroDen else .ok (G.mulScalar (1 / c)) := rfl
theorem truediv_array (G : DSS K) (q r : Nat) (D : Matrix (Fin q) (Fin r) K) :
    G.truediv (.array q r D) = .error .notImplemented := rfl
theorem rtruediv_eq (G : DSS K) (x : SOperand K) :
    G.rtruediv x = (G.pow (-1)).bind fun gi => gi.rmul x := rfl

/-- `G ** -1` as used by `/`: responds with the inverse matrix. -/
theorem pow_neg_one_resp {G R : DSS K} {s : K} {k : Nat} {Y Y' : Matrix (Fin k) (Fin k) K}
    (hG : G.Resp s k k Y) (hY : Y * Y' = 1) (hR : G.pow (-1) = .ok R) : R.Resp s k k Y' := by
  rw [pow_neg_one (by rw [hG.dims.1, hG.dims.2])] at hR
  exact inv_resp hG hY hR

/-- a `1 × 1` constant `c` with an inverse matrix `Y'`: `c ≠ 0` and `Y' = 1 / c`. -/
theorem scalar_inverse {c : K} {Y' : Matrix (Fin 1) (Fin 1) K}
    (h : (Matrix.of fun _ _ => c : Matrix (Fin 1) (Fin 1) K) * Y' = 1) :
    c ≠ 0 ∧ Y' 0 0 = 1 / c := by
  have h00 := congrFun (congrFun h 0) 0
  simp [Matrix.mul_apply] at h00
  have hc : c ≠ 0 := by
    rintro rfl; simp at h00
  exact ⟨hc, by field_simp; rw [mul_comm]; exact h00⟩

/-- `G / x`: `x` square with an inverse matrix `Y₂'` at `s`. -/
theorem truediv_resp {G R : DSS K} {x : SOperand K} {s : K} {p k : Nat}
    {Y₁ : Matrix (Fin p) (Fin k) K} {Y₂ Y₂' : Matrix (Fin k) (Fin k) K} (hG : G.Resp s p k Y₁)
    (hx : (toSys x).Resp s k k Y₂) (hY : Y₂ * Y₂' = 1) (hR : G.truediv x = .ok R) :
    R.Resp s p k (Y₁ * Y₂') := by
  cases x with
  | sys H =>
    rw [truediv_sys, Except.bind_eq_ok_iff] at hR
    obtain ⟨hi, hhi, hR⟩ := hR
    exact mulSS_resp hG (pow_neg_one_resp hx hY hhi) hR
  | scalar c =>
    obtain ⟨hp, -, rfl⟩ := scalar_cases hx
    subst hp
    obtain ⟨hc, hY'⟩ := scalar_inverse hY
    rw [truediv_scalar, if_neg hc, Except.ok.injEq] at hR
    subst hR
    rw [mul_one_by_one, hY']
    exact mulScalar_resp hG _
  | array q r D => rw [truediv_array] at hR; cases hR

/-- `G / x` for a SISO `G`. -/
theorem truediv_resp_bcL {G R : DSS K} {x : SOperand K} {s : K} {k : Nat}
    {y : Matrix (Fin 1) (Fin 1) K} {Y₂ Y₂' : Matrix (Fin k) (Fin k) K} (hG : G.Resp s 1 1 y)
    (hx : (toSys x).Resp s k k Y₂) (hY : Y₂ * Y₂' = 1) (hR : G.truediv x = .ok R) :
    R.Resp s k k (y 0 0 • Y₂') := by
  cases x with
  | sys H =>
    rw [truediv_sys, Except.bind_eq_ok_iff] at hR
    obtain ⟨hi, hhi, hR⟩ := hR
    exact mulSS_resp_bcL hG (pow_neg_one_resp hx hY hhi) hR
  | scalar c =>
    obtain ⟨hp, -, rfl⟩ := scalar_cases hx
    subst hp
    have := truediv_resp hG hx hY hR
    rwa [smul_one_by_one] at this
  | array q r D => rw [truediv_array] at hR; cases hR

/-- `G / x` for a broadcast `x` (Python scalar or SISO system) with inverse `y'`. -/
theorem truediv_resp_bcR {G R : DSS K} {x : SOperand K} {s : K} {p m : Nat}
    {Y₁ : Matrix (Fin p) (Fin m) K} {y y' : Matrix (Fin 1) (Fin 1) K} (hG : G.Resp s p m Y₁)
    (hk : x.kind ≠ .array) (hx : (toSys x).Resp s 1 1 y) (hY : y * y' = 1)
    (hR : G.truediv x = .ok R) : R.Resp s p m (y' 0 0 • Y₁) := by
  cases x with
  | sys H =>
    rw [truediv_sys, Except.bind_eq_ok_iff] at hR
    obtain ⟨hi, hhi, hR⟩ := hR
    exact mulSS_resp_bcR hG (pow_neg_one_resp hx hY hhi) hR
  | scalar c =>
    obtain ⟨-, -, rfl⟩ := scalar_cases hx
    obtain ⟨hc, hY'⟩ := scalar_inverse hY
    rw [truediv_scalar, if_neg hc, Except.ok.injEq] at hR
    subst hR
    rw [hY']
    exact mulScalar_resp hG _
  | array q r D => exact absurd rfl hk

/-- `x / G`. -/
theorem rtruediv_resp {G R : DSS K} {x : SOperand K} {s : K} {p k : Nat}
    {Y₁ : Matrix (Fin p) (Fin k) K} {Y₂ Y₂' : Matrix (Fin k) (Fin k) K}
    (hx : (toSys x).Resp s p k Y₁) (hG : G.Resp s k k Y₂) (hY : Y₂ * Y₂' = 1)
    (hR : G.rtruediv x = .ok R) : R.Resp s p k (Y₁ * Y₂') := by
  rw [rtruediv_eq, Except.bind_eq_ok_iff] at hR
  obtain ⟨gi, hgi, hR⟩ := hR
  exact rmul_resp hx (pow_neg_one_resp hG hY hgi) hR

theorem rtruediv_resp_bcL {G R : DSS K} {x : SOperand K} {s : K} {k : Nat}
    {y : Matrix (Fin 1) (Fin 1) K} {Y₂ Y₂' : Matrix (Fin k) (Fin k) K} (hk : x.kind ≠ .array)
    (hx : (toSys x).Resp s 1 1 y) (hG : G.Resp s k k Y₂) (hY : Y₂ * Y₂' = 1)
    (hR : G.rtruediv x = .ok R) : R.Resp s k k (y 0 0 • Y₂') := by
  rw [rtruediv_eq, Except.bind_eq_ok_iff] at hR
  obtain ⟨gi, hgi, hR⟩ := hR
  exact rmul_resp_bcL hk hx (pow_neg_one_resp hG hY hgi) hR

theorem rtruediv_resp_bcR {G R : DSS K} {x : SOperand K} {s : K} {p m : Nat}
    {Y₁ : Matrix (Fin p) (Fin m) K} {y y' : Matrix (Fin 1) (Fin 1) K}
    (hx : (toSys x).Resp s p m Y₁) (hG : G.Resp s 1 1 y) (hY : y * y' = 1)
    (hR : G.rtruediv x = .ok R) : R.Resp s p m (y' 0 0 • Y₁) := by
  rw [rtruediv_eq, Except.bind_eq_ok_iff] at hR
  obtain ⟨gi, hgi, hR⟩ := hR
  exact rmul_resp_bcR hx (pow_neg_one_resp hG hY hgi) hR

/-- `G / x` raises exactly when: `x` is an array (`notImplemented`); `x` is the scalar `0`
(`zeroDen`); `x` is a system for which `x ** -1` raises or `G * x ** -1` raises. -/
theorem truediv_error_iff (G : DSS K) (x : SOperand K) (e : Err) :
    G.truediv x = .error e ↔
      match x with
      | .sys H => H.pow (-1) = .error e ∨ ∃ hi, H.pow (-1) = .ok hi ∧ mulSS G hi = .error e
      | .scalar c => c = 0 ∧ e = .zeroDen
      | .array _ _ _ => e = .notImplemented := by
  cases x with
  | sys H => rw [truediv_sys, Except.bind_eq_error_iff]
  | scalar c =>
    rw [truediv_scalar]
    by_cases hc : c = 0 <;> simp [hc, eq_comm]
  | array q r D => rw [truediv_array]; simp [eq_comm]

theorem truediv_scalar_shape {G R : DSS K} {c : K} (h : G.truediv (.scalar c) = .ok R) :
    c ≠ 0 ∧ R.n = G.n ∧ R.p = G.p ∧ R.m = G.m ∧ R.dt = G.dt := by
  rw [truediv_scalar] at h
  by_cases hc : c = 0
  · rw [if_pos hc] at h; cases h
  · rw [if_neg hc, Except.ok.injEq] at h
    subst h
    exact ⟨hc, rfl, rfl, rfl, rfl⟩

/-! ### `feedback`, `lft` on operands -/

theorem feedback_eq (G : DSS K) (x : SOperand K) (sign : K) :
    G.feedback x sign = feedbackSS G (toSys x) sign := rfl

theorem feedback_resp {G R : DSS K} {x : SOperand K} {sign s : K} {p m : Nat}
    {Y₁ : Matrix (Fin p) (Fin m) K} {Y₂ : Matrix (Fin m) (Fin p) K} (hG : G.Resp s p m Y₁)
    (hx : (toSys x).Resp s m p Y₂) (N : Matrix (Fin m) (Fin m) K)
    (hN : (1 - sign • (Y₂ * Y₁)) * N = 1) (hR : G.feedback x sign = .ok R) :
    R.Resp s p m (Y₁ * N) :=
  feedbackSS_resp hG hx N hN hR

/-- `G.lft(x, nu, ny)` with the `-1` defaults: the lower LFT of the partitioned responses. -/
theorem lft_resp {G R : DSS K} {x : SOperand K} {s : K} {p m p' m' : Nat}
    {Y : Matrix (Fin p) (Fin m) K} {Yb : Matrix (Fin p') (Fin m') K} (hG : G.Resp s p m Y)
    (hx : (toSys x).Resp s p' m' Yb) (nu ny : Int) (nuN nyN : Nat)
    (hnu : lftRes p' m nu = nuN) (hny : lftRes m' p ny = nyN)
    (hu : nuN ≤ m) (hu' : nuN ≤ p') (hy : nyN ≤ p) (hy' : nyN ≤ m')
    (N : Matrix (Fin nyN) (Fin nyN) K)
    (hN : (1 - (splitUpper Y nuN nyN hu hy).toBlocks₂₂
              * (splitLower Yb nuN nyN hu' hy').toBlocks₁₁) * N = 1)
    (hR : G.lft x nu ny = .ok R) :
    R.Resp s ((p - nyN) + (p' - nuN)) ((m - nuN) + (m' - nyN))
      (flatMat (Expr.lftMat (splitUpper Y nuN nyN hu hy) (splitLower Yb nuN nyN hu' hy') N)) := by
  obtain ⟨hGp, hGm⟩ := hG.dims
  obtain ⟨hHp, hHm⟩ := hx.dims
  cases hdt : common G.dt (toSys x).dt with
  | error e => rw [lft_timebase G x nu ny e hdt] at hR; cases hR
  | ok dt =>
    rw [lft_resolved G x nu ny nuN nyN (by rw [hHp, hGm]; exact hnu) (by rw [hHm, hGp]; exact hny)
      dt hdt] at hR
    have hv : nuN ≤ G.m ∧ nuN ≤ (toSys x).p ∧ nyN ≤ G.p ∧ nyN ≤ (toSys x).m := by
      rw [hGp, hGm, hHp, hHm]; exact ⟨hu, hu', hy, hy'⟩
    rw [dif_pos hv] at hR
    exact lftSS_resp hG hx hu hu' hy hy' hv dt N hN hR

/-! ### the dispatch on operand kinds, per operator and broadcasting rule -/

/-- the result of a binary operator is a system. -/
theorem binop_kind {op : SSOp} {a b r : SOperand K} (h : binop op a b = some (.ok r)) :
    r.kind = .sys := by
  rcases binop_cases h with ⟨G, -, hr⟩ | ⟨G, -, -, hr⟩ | ⟨-, -, -, hr⟩ <;>
  · obtain ⟨R, -, rfl⟩ := map_sys_ok hr.symm
    rfl

theorem binop_add_resp {a b r : SOperand K} {s : K} {p m : Nat} {Y₁ Y₂ : Matrix (Fin p) (Fin m) K}
    (ha : (toSys a).Resp s p m Y₁) (hb : (toSys b).Resp s p m Y₂)
    (h : binop .add a b = some (.ok r)) : (toSys r).Resp s p m (Y₁ + Y₂) := by
  rcases binop_cases h with ⟨G, rfl, hr⟩ | ⟨G, -, rfl, hr⟩ | ⟨hop, -⟩
  · obtain ⟨R, hR, rfl⟩ := map_sys_ok hr.symm
    exact add_resp ha hb hR
  · obtain ⟨R, hR, rfl⟩ := map_sys_ok hr.symm
    rw [add_comm]; exact add_resp hb ha hR
  · cases hop

theorem binop_add_resp_bcL {a b r : SOperand K} {s : K} {p m : Nat} {y : Matrix (Fin 1) (Fin 1) K}
    {Y₂ : Matrix (Fin p) (Fin m) K} (hk : a.kind ≠ .array) (ha : (toSys a).Resp s 1 1 y)
    (hb : (toSys b).Resp s p m Y₂) (h : binop .add a b = some (.ok r)) :
    (toSys r).Resp s p m (bc p m y + Y₂) := by
  rcases binop_cases h with ⟨G, rfl, hr⟩ | ⟨G, -, rfl, hr⟩ | ⟨hop, -⟩
  · obtain ⟨R, hR, rfl⟩ := map_sys_ok hr.symm
    exact add_resp_bcL ha hb hR
  · obtain ⟨R, hR, rfl⟩ := map_sys_ok hr.symm
    rw [add_comm]; exact add_resp_bcR hb hk ha hR
  · cases hop

theorem binop_add_resp_bcR {a b r : SOperand K} {s : K} {p m : Nat} {y : Matrix (Fin 1) (Fin 1) K}
    {Y₁ : Matrix (Fin p) (Fin m) K} (hk : b.kind ≠ .array) (ha : (toSys a).Resp s p m Y₁)
    (hb : (toSys b).Resp s 1 1 y) (h : binop .add a b = some (.ok r)) :
    (toSys r).Resp s p m (Y₁ + bc p m y) := by
  rcases binop_cases h with ⟨G, rfl, hr⟩ | ⟨G, -, rfl, hr⟩ | ⟨hop, -⟩
  · obtain ⟨R, hR, rfl⟩ := map_sys_ok hr.symm
    exact add_resp_bcR ha hk hb hR
  · obtain ⟨R, hR, rfl⟩ := map_sys_ok hr.symm
    rw [add_comm]; exact add_resp_bcL hb ha hR
  · cases hop

theorem binop_sub_resp {a b r : SOperand K} {s : K} {p m : Nat} {Y₁ Y₂ : Matrix (Fin p) (Fin m) K}
    (ha : (toSys a).Resp s p m Y₁) (hb : (toSys b).Resp s p m Y₂)
    (h : binop .sub a b = some (.ok r)) : (toSys r).Resp s p m (Y₁ - Y₂) := by
  rcases binop_cases h with ⟨G, rfl, hr⟩ | ⟨G, -, rfl, hr⟩ | ⟨hop, -⟩
  · obtain ⟨R, hR, rfl⟩ := map_sys_ok hr.symm
    exact sub_resp ha hb hR
  · obtain ⟨R, hR, rfl⟩ := map_sys_ok hr.symm
    exact rsub_resp ha hb hR
  · cases hop

theorem binop_sub_resp_bcL {a b r : SOperand K} {s : K} {p m : Nat} {y : Matrix (Fin 1) (Fin 1) K}
    {Y₂ : Matrix (Fin p) (Fin m) K} (hk : a.kind ≠ .array) (ha : (toSys a).Resp s 1 1 y)
    (hb : (toSys b).Resp s p m Y₂) (h : binop .sub a b = some (.ok r)) :
    (toSys r).Resp s p m (bc p m y - Y₂) := by
  rcases binop_cases h with ⟨G, rfl, hr⟩ | ⟨G, -, rfl, hr⟩ | ⟨hop, -⟩
  · obtain ⟨R, hR, rfl⟩ := map_sys_ok hr.symm
    exact sub_resp_bcL ha hb hR
  · obtain ⟨R, hR, rfl⟩ := map_sys_ok hr.symm
    exact rsub_resp_bcL hk ha hb hR
  · cases hop

theorem binop_sub_resp_bcR {a b r : SOperand K} {s : K} {p m : Nat} {y : Matrix (Fin 1) (Fin 1) K}
    {Y₁ : Matrix (Fin p) (Fin m) K} (hk : b.kind ≠ .array) (ha : (toSys a).Resp s p m Y₁)
    (hb : (toSys b).Resp s 1 1 y) (h : binop .sub a b = some (.ok r)) :
    (toSys r).Resp s p m (Y₁ - bc p m y) := by
  rcases binop_cases h with ⟨G, rfl, hr⟩ | ⟨G, -, rfl, hr⟩ | ⟨hop, -⟩
  · obtain ⟨R, hR, rfl⟩ := map_sys_ok hr.symm
    exact sub_resp_bcR ha hk hb hR
  · obtain ⟨R, hR, rfl⟩ := map_sys_ok hr.symm
    exact rsub_resp_bcR ha hb hR
  · cases hop

theorem binop_mul_resp {a b r : SOperand K} {s : K} {p k m : Nat} {Y₁ : Matrix (Fin p) (Fin k) K}
    {Y₂ : Matrix (Fin k) (Fin m) K} (ha : (toSys a).Resp s p k Y₁) (hb : (toSys b).Resp s k m Y₂)
    (h : binop .mul a b = some (.ok r)) : (toSys r).Resp s p m (Y₁ * Y₂) := by
  rcases binop_cases h with ⟨G, rfl, hr⟩ | ⟨G, -, rfl, hr⟩ | ⟨hop, -⟩
  · obtain ⟨R, hR, rfl⟩ := map_sys_ok hr.symm
    exact mul_resp ha hb hR
  · obtain ⟨R, hR, rfl⟩ := map_sys_ok hr.symm
    exact rmul_resp ha hb hR
  · cases hop

theorem binop_mul_resp_bcL {a b r : SOperand K} {s : K} {p m : Nat} {y : Matrix (Fin 1) (Fin 1) K}
    {Y₂ : Matrix (Fin p) (Fin m) K} (hk : a.kind ≠ .array) (ha : (toSys a).Resp s 1 1 y)
    (hb : (toSys b).Resp s p m Y₂) (h : binop .mul a b = some (.ok r)) :
    (toSys r).Resp s p m (y 0 0 • Y₂) := by
  rcases binop_cases h with ⟨G, rfl, hr⟩ | ⟨G, -, rfl, hr⟩ | ⟨hop, -⟩
  · obtain ⟨R, hR, rfl⟩ := map_sys_ok hr.symm
    exact mul_resp_bcL ha hb hR
  · obtain ⟨R, hR, rfl⟩ := map_sys_ok hr.symm
    exact rmul_resp_bcL hk ha hb hR
  · cases hop

theorem binop_mul_resp_bcR {a b r : SOperand K} {s : K} {p m : Nat} {y : Matrix (Fin 1) (Fin 1) K}
    {Y₁ : Matrix (Fin p) (Fin m) K} (hk : b.kind ≠ .array) (ha : (toSys a).Resp s p m Y₁)
    (hb : (toSys b).Resp s 1 1 y) (h : binop .mul a b = some (.ok r)) :
    (toSys r).Resp s p m (y 0 0 • Y₁) := by
  rcases binop_cases h with ⟨G, rfl, hr⟩ | ⟨G, -, rfl, hr⟩ | ⟨hop, -⟩
  · obtain ⟨R, hR, rfl⟩ := map_sys_ok hr.symm
    exact mul_resp_bcR ha hk hb hR
  · obtain ⟨R, hR, rfl⟩ := map_sys_ok hr.symm
    exact rmul_resp_bcR ha hb hR
  · cases hop

theorem binop_div_resp {a b r : SOperand K} {s : K} {p k : Nat} {Y₁ : Matrix (Fin p) (Fin k) K}
    {Y₂ Y₂' : Matrix (Fin k) (Fin k) K} (ha : (toSys a).Resp s p k Y₁)
    (hb : (toSys b).Resp s k k Y₂) (hY : Y₂ * Y₂' = 1) (h : binop .div a b = some (.ok r)) :
    (toSys r).Resp s p k (Y₁ * Y₂') := by
  rcases binop_cases h with ⟨G, rfl, hr⟩ | ⟨G, -, rfl, hr⟩ | ⟨hop, -⟩
  · obtain ⟨R, hR, rfl⟩ := map_sys_ok hr.symm
    exact truediv_resp ha hb hY hR
  · obtain ⟨R, hR, rfl⟩ := map_sys_ok hr.symm
    exact rtruediv_resp ha hb hY hR
  · cases hop

theorem binop_div_resp_bcL {a b r : SOperand K} {s : K} {k : Nat} {y : Matrix (Fin 1) (Fin 1) K}
    {Y₂ Y₂' : Matrix (Fin k) (Fin k) K} (hk : a.kind ≠ .array) (ha : (toSys a).Resp s 1 1 y)
    (hb : (toSys b).Resp s k k Y₂) (hY : Y₂ * Y₂' = 1) (h : binop .div a b = some (.ok r)) :
    (toSys r).Resp s k k (y 0 0 • Y₂') := by
  rcases binop_cases h with ⟨G, rfl, hr⟩ | ⟨G, -, rfl, hr⟩ | ⟨hop, -⟩
  · obtain ⟨R, hR, rfl⟩ := map_sys_ok hr.symm
    exact truediv_resp_bcL ha hb hY hR
  · obtain ⟨R, hR, rfl⟩ := map_sys_ok hr.symm
    exact rtruediv_resp_bcL hk ha hb hY hR
  · cases hop

theorem binop_div_resp_bcR {a b r : SOperand K} {s : K} {p m : Nat}
    {y y' : Matrix (Fin 1) (Fin 1) K} {Y₁ : Matrix (Fin p) (Fin m) K} (hk : b.kind ≠ .array)
    (ha : (toSys a).Resp s p m Y₁) (hb : (toSys b).Resp s 1 1 y) (hY : y * y' = 1)
    (h : binop .div a b = some (.ok r)) : (toSys r).Resp s p m (y' 0 0 • Y₁) := by
  rcases binop_cases h with ⟨G, rfl, hr⟩ | ⟨G, -, rfl, hr⟩ | ⟨hop, -⟩
  · obtain ⟨R, hR, rfl⟩ := map_sys_ok hr.symm
    exact truediv_resp_bcR ha hk hb hY hR
  · obtain ⟨R, hR, rfl⟩ := map_sys_ok hr.symm
    exact rtruediv_resp_bcR ha hb hY hR
  · cases hop

theorem binop_append_resp {a b r : SOperand K} {s : K} {p m p' m' : Nat}
    {Y : Matrix (Fin p) (Fin m) K} {Y' : Matrix (Fin p') (Fin m') K}
    (ha : (toSys a).Resp s p m Y) (hb : (toSys b).Resp s p' m' Y')
    (h : binop .append a b = some (.ok r)) : (toSys r).Resp s (p + p') (m + m') (bdiag Y Y') := by
  rcases binop_cases h with ⟨G, rfl, hr⟩ | ⟨G, -, rfl, hr⟩ | ⟨-, -, -, hr⟩ <;>
  · obtain ⟨R, hR, rfl⟩ := map_sys_ok hr.symm
    exact append_resp ha hb hR

/-! ### the run-time tree theorem -/

open SSTree

theorem eval_bin_ok {op : SSOp} {a b : SSTree K} {x : SOperand K}
    (h : (SSTree.bin op a b).eval = .ok x) :
    ∃ xa xb, a.eval = .ok xa ∧ b.eval = .ok xb ∧ binop op xa xb = some (.ok x) := by
  simp only [eval, Except.bind_eq_ok_iff] at h
  obtain ⟨xa, ha, xb, hb, h⟩ := h
  refine ⟨xa, xb, ha, hb, ?_⟩
  split at h
  · cases h
  · cases h
  · rename_i r hr
    simp only [Except.ok.injEq] at h
    subst h
    exact hr

theorem lift_ok {r : Except Err (DSS K)} {x : SOperand K} (h : lift r = .ok x) :
    ∃ R, r = .ok R ∧ x = .sys R := by
  cases r with
  | error e => cases h
  | ok R => exact ⟨R, rfl, by simpa [lift] using h.symm⟩

/-- the kind of the value of a tree is its syntactic kind (operators return systems). -/
theorem dtree_kind (e : SSTree K) : ∀ x, e.eval = .ok x → x.kind = e.kind := by
  induction e with
  | leaf y => intro x h; simp only [eval, Except.ok.injEq] at h; subst h; rfl
  | neg a ih =>
    intro x h
    simp only [eval, Except.bind_eq_ok_iff, Except.ok.injEq] at h
    obtain ⟨xa, ha, rfl⟩ := h
    rw [operand_neg_kind, SSTree.kind]
    exact ih xa ha
  | bin op a b _ _ =>
    intro x h
    obtain ⟨xa, xb, -, -, h⟩ := eval_bin_ok h
    exact binop_kind h
  | pow a k _ =>
    intro x h
    simp only [eval, Except.bind_eq_ok_iff] at h
    obtain ⟨xa, -, h⟩ := h
    split at h
    · obtain ⟨R, -, rfl⟩ := lift_ok h; rfl
    · cases h
  | fb a b sign _ _ =>
    intro x h
    simp only [eval, Except.bind_eq_ok_iff] at h
    obtain ⟨xa, -, xb, -, h⟩ := h
    split at h
    · obtain ⟨R, -, rfl⟩ := lift_ok h; rfl
    · cases h
  | lft a b nu ny _ _ =>
    intro x h
    simp only [eval, Except.bind_eq_ok_iff] at h
    obtain ⟨xa, -, xb, -, h⟩ := h
    split at h
    · obtain ⟨R, -, rfl⟩ := lift_ok h; rfl
    · cases h
  | sel a rows cols _ =>
    intro x h
    simp only [eval, Except.bind_eq_ok_iff] at h
    obtain ⟨xa, -, h⟩ := h
    split at h
    · obtain ⟨R, -, rfl⟩ := lift_ok h; rfl
    · cases h

/-- **Run-time tree theorem.**  For every run-time expression tree `e` (every nesting of
`neg + - * / append ** feedback lft indexing` over systems, Python scalars and arrays, on either
side, with SISO broadcasting), every point `s` and every `p × m` value `Y` the algebra of transfer
matrices (with NumPy's broadcasting) assigns to `e` at `s`: whatever the run-time operators — the
ones the driver executes — return for `e` has `p` outputs, `m` inputs and responds at `s` with
`Y`. -/
theorem dtree_resp {e : SSTree K} {s : K} {p m : Nat} {Y : Matrix (Fin p) (Fin m) K}
    (hY : DSem e s p m Y) : ∀ x, e.eval = .ok x → (toSys x).Resp s p m Y := by
  induction hY with
  | sys h => intro x hx; simp only [eval, Except.ok.injEq] at hx; subst hx; exact h
  | scalar c s =>
    intro x hx; simp only [eval, Except.ok.injEq] at hx; subst hx
    exact (ofScalar_resp c s _).mpr rfl
  | array p m D s =>
    intro x hx; simp only [eval, Except.ok.injEq] at hx; subst hx
    exact (ofMatrix_resp p m D s _).mpr rfl
  | neg _ ih =>
    intro x hx
    simp only [eval, Except.bind_eq_ok_iff, Except.ok.injEq] at hx
    obtain ⟨xa, ha, rfl⟩ := hx
    exact operand_neg_resp (ih xa ha)
  | add _ _ ih₁ ih₂ =>
    intro x hx
    obtain ⟨xa, xb, ha, hb, h⟩ := eval_bin_ok hx
    exact binop_add_resp (ih₁ xa ha) (ih₂ xb hb) h
  | add_bcL hk _ _ ih₁ ih₂ =>
    intro x hx
    obtain ⟨xa, xb, ha, hb, h⟩ := eval_bin_ok hx
    exact binop_add_resp_bcL (by rwa [dtree_kind _ xa ha]) (ih₁ xa ha) (ih₂ xb hb) h
  | add_bcR hk _ _ ih₁ ih₂ =>
    intro x hx
    obtain ⟨xa, xb, ha, hb, h⟩ := eval_bin_ok hx
    exact binop_add_resp_bcR (by rwa [dtree_kind _ xb hb]) (ih₁ xa ha) (ih₂ xb hb) h
  | sub _ _ ih₁ ih₂ =>
    intro x hx
    obtain ⟨xa, xb, ha, hb, h⟩ := eval_bin_ok hx
    exact binop_sub_resp (ih₁ xa ha) (ih₂ xb hb) h
  | sub_bcL hk _ _ ih₁ ih₂ =>
    intro x hx
    obtain ⟨xa, xb, ha, hb, h⟩ := eval_bin_ok hx
    exact binop_sub_resp_bcL (by rwa [dtree_kind _ xa ha]) (ih₁ xa ha) (ih₂ xb hb) h
  | sub_bcR hk _ _ ih₁ ih₂ =>
    intro x hx
    obtain ⟨xa, xb, ha, hb, h⟩ := eval_bin_ok hx
    exact binop_sub_resp_bcR (by rwa [dtree_kind _ xb hb]) (ih₁ xa ha) (ih₂ xb hb) h
  | mul _ _ ih₁ ih₂ =>
    intro x hx
    obtain ⟨xa, xb, ha, hb, h⟩ := eval_bin_ok hx
    exact binop_mul_resp (ih₁ xa ha) (ih₂ xb hb) h
  | mul_bcL hk _ _ ih₁ ih₂ =>
    intro x hx
    obtain ⟨xa, xb, ha, hb, h⟩ := eval_bin_ok hx
    exact binop_mul_resp_bcL (by rwa [dtree_kind _ xa ha]) (ih₁ xa ha) (ih₂ xb hb) h
  | mul_bcR hk _ _ ih₁ ih₂ =>
    intro x hx
    obtain ⟨xa, xb, ha, hb, h⟩ := eval_bin_ok hx
    exact binop_mul_resp_bcR (by rwa [dtree_kind _ xb hb]) (ih₁ xa ha) (ih₂ xb hb) h
  | div _ _ hY ih₁ ih₂ =>
    intro x hx
    obtain ⟨xa, xb, ha, hb, h⟩ := eval_bin_ok hx
    exact binop_div_resp (ih₁ xa ha) (ih₂ xb hb) hY h
  | div_bcL hk _ _ hY ih₁ ih₂ =>
    intro x hx
    obtain ⟨xa, xb, ha, hb, h⟩ := eval_bin_ok hx
    exact binop_div_resp_bcL (by rwa [dtree_kind _ xa ha]) (ih₁ xa ha) (ih₂ xb hb) hY h
  | div_bcR hk _ _ hY ih₁ ih₂ =>
    intro x hx
    obtain ⟨xa, xb, ha, hb, h⟩ := eval_bin_ok hx
    exact binop_div_resp_bcR (by rwa [dtree_kind _ xb hb]) (ih₁ xa ha) (ih₂ xb hb) hY h
  | append _ _ ih₁ ih₂ =>
    intro x hx
    obtain ⟨xa, xb, ha, hb, h⟩ := eval_bin_ok hx
    exact binop_append_resp (ih₁ xa ha) (ih₂ xb hb) h
  | pow _ k hk ih =>
    intro x hx
    simp only [eval, Except.bind_eq_ok_iff] at hx
    obtain ⟨xa, ha, hx⟩ := hx
    split at hx
    · obtain ⟨R, hR, rfl⟩ := lift_ok hx
      exact pow_resp (ih _ ha) k hk hR
    · cases hx
  | fb _ _ N hN ih₁ ih₂ =>
    intro x hx
    simp only [eval, Except.bind_eq_ok_iff] at hx
    obtain ⟨xa, ha, xb, hb, hx⟩ := hx
    split at hx
    · obtain ⟨R, hR, rfl⟩ := lift_ok hx
      exact feedback_resp (ih₁ _ ha) (ih₂ _ hb) N hN hR
    · cases hx
  | lft _ _ nu ny nuN nyN hnu hny hu hu' hy hy' N hN ih₁ ih₂ =>
    intro x hx
    simp only [eval, Except.bind_eq_ok_iff] at hx
    obtain ⟨xa, ha, xb, hb, hx⟩ := hx
    split at hx
    · obtain ⟨R, hR, rfl⟩ := lift_ok hx
      exact lft_resp (ih₁ _ ha) (ih₂ _ hb) nu ny nuN nyN hnu hny hu hu' hy hy' N hN hR
    · cases hx
  | sel _ rows cols hr hc ih =>
    intro x hx
    simp only [eval, Except.bind_eq_ok_iff] at hx
    obtain ⟨xa, ha, hx⟩ := hx
    split at hx
    · obtain ⟨R, hR, rfl⟩ := lift_ok hx
      exact select_resp (ih _ ha) hr hc hR
    · cases hx


/-- the value the algebra assigns to a run-time tree is, off the poles of the result, *the*
transfer matrix of the result (so it is unique). -/
theorem dtree_value {e : SSTree K} {s : K} {p m : Nat} {Y : Matrix (Fin p) (Fin m) K}
    (hY : DSem e s p m Y) (x : SOperand K) (hx : e.eval = .ok x)
    (hu : IsUnit (s • (1 : Matrix (Fin (toSys x).n) (Fin (toSys x).n) K) - (toSys x).sys.A)) :
    ∃ (hp : (toSys x).p = p) (hm : (toSys x).m = m),
      Y = ((toSys x).sys.C * ((s • (1 : Matrix (Fin (toSys x).n) (Fin (toSys x).n) K)
            - (toSys x).sys.A)⁻¹ * (toSys x).sys.B) + (toSys x).sys.D).submatrix
              (Fin.cast hp.symm) (Fin.cast hm.symm) :=
  Resp_value (dtree_resp hY x hx) hu

/-- the shape of the result is the shape of the value. -/
theorem dtree_shape {e : SSTree K} {s : K} {p m : Nat} {Y : Matrix (Fin p) (Fin m) K}
    (hY : DSem e s p m Y) (x : SOperand K) (hx : e.eval = .ok x) :
    (toSys x).p = p ∧ (toSys x).m = m := (dtree_resp hY x hx).dims

/-- **The driver's dispatch is the model's.**  `Driver.SS.binop` (what the postfix loop of
`Driver/SS.lean` calls for `add sub mul div append`) is `DSS.binop` over `ℚ`; the remaining
instructions of the loop call `SOperand.neg`, `DSS.pow`, `DSS.feedback`, `DSS.lft`, `DSS.select`
directly, as `SSTree.eval` does. -/
theorem driver_binop (op : SSOp) (a b : SOperand ℚ) :
    Driver.SS.binop op.name a b =
      match DSS.binop op a b with
      | some r => .ok r
      | none => .error s!"binop:{op.name}" := by
  cases op <;> cases a <;> cases b <;> rfl

/-! ### the state dimension (and the shape) of every run-time tree -/

theorem shape_sys (G : DSS K) : (SOperand.sys G).shape = ⟨.sys, G.n, G.p, G.m⟩ := rfl

theorem shape_siso (G : DSS K) : (SOperand.sys G).shape.siso = G.isSiso := rfl

theorem operand_neg_shape (x : SOperand K) : (SOperand.neg x).shape = x.shape := by
  cases x <;> rfl

/-- `G + x` has the shape `SSShape.add`. -/
theorem add_entry_shape {G R : DSS K} {x : SOperand K} (h : G.add x = .ok R) :
    (SOperand.sys R).shape = SSShape.add (SOperand.sys G).shape x.shape := by
  cases x with
  | sys H =>
    obtain ⟨h1, h2, h3, -⟩ := addSS_shape h
    simp only [shape_sys, SSShape.add, SSShape.siso, h1, h2, h3]
    rfl
  | scalar c =>
    rw [add_scalar, Except.ok.injEq] at h
    subst h; rfl
  | array q r D =>
    obtain ⟨h1, h2, h3, -⟩ := addArray_shape h
    simp only [shape_sys, h1, h2, h3]
    rfl

/-- `G * x` has the shape `SSShape.mulL`. -/
theorem mul_entry_shape {G R : DSS K} {x : SOperand K} (h : G.mul x = .ok R) :
    (SOperand.sys R).shape = SSShape.mulL (SOperand.sys G).shape x.shape := by
  cases x with
  | sys H =>
    obtain ⟨h1, h2, h3, -⟩ := mulSS_shape h
    simp only [shape_sys, h1, h2, h3]
    rfl
  | scalar c =>
    rw [mul_scalar, Except.ok.injEq] at h
    subst h; rfl
  | array q r D =>
    obtain ⟨h1, h2, h3, -⟩ := mulArray_shape h
    simp only [shape_sys, h1, h2, h3]
    rfl

/-- `x * G` has the shape `SSShape.mulR`. -/
theorem rmul_entry_shape {G R : DSS K} {x : SOperand K} (h : G.rmul x = .ok R) :
    (SOperand.sys R).shape = SSShape.mulR (SOperand.sys G).shape x.shape := by
  cases x with
  | sys H =>
    obtain ⟨h1, h2, h3, -⟩ := rmulSS_shape h
    simp only [shape_sys, h1, h2, h3]
    rfl
  | scalar c =>
    rw [rmul_scalar, Except.ok.injEq] at h
    subst h; rfl
  | array q r D =>
    obtain ⟨h1, h2, h3, -⟩ := rmulArray_shape h
    simp only [shape_sys, h1, h2, h3]
    rfl

/-- `G ** -1` has the shape of `G`. -/
theorem pow_neg_one_shape {G R : DSS K} (h : G.pow (-1) = .ok R) :
    (SOperand.sys R).shape = (SOperand.sys G).shape := by
  obtain ⟨-, h1, h2, h3, -⟩ := pow_shape h
  simp only [shape_sys, h1, h2, h3]
  simp

/-- the shape of the result of a binary operator is `SSShape.binop` of the operands' shapes. -/
theorem binop_shape {op : SSOp} {a b r : SOperand K} (h : binop op a b = some (.ok r)) :
    r.shape = SSShape.binop op a.shape b.shape := by
  rcases binop_cases h with ⟨G, rfl, hr⟩ | ⟨G, hk, rfl, hr⟩ | ⟨rfl, hka, hkb, hr⟩
  · obtain ⟨R, hR, rfl⟩ := map_sys_ok hr.symm
    cases op with
    | add => exact add_entry_shape hR
    | sub =>
      have := add_entry_shape (x := SOperand.neg b) hR
      rwa [operand_neg_shape] at this
    | mul => exact mul_entry_shape hR
    | div =>
      show _ = SSShape.mulL _ _
      cases b with
      | sys H =>
        rw [show entryL .div G (.sys H) = _ from truediv_sys G H, Except.bind_eq_ok_iff] at hR
        obtain ⟨hi, hhi, hR⟩ := hR
        have := mul_entry_shape (x := .sys hi) hR
        rwa [pow_neg_one_shape hhi] at this
      | scalar c =>
        obtain ⟨-, h1, h2, h3, -⟩ := truediv_scalar_shape hR
        simp only [shape_sys, h1, h2, h3]; rfl
      | array q r D => rw [show entryL .div G (.array q r D) = _ from truediv_array G q r D] at hR; cases hR
    | append =>
      obtain ⟨h1, h2, h3, -⟩ := append_shape hR
      simp only [shape_sys, h1, h2, h3]; rfl
  · obtain ⟨R, hR, rfl⟩ := map_sys_ok hr.symm
    have hk' : a.shape.kind ≠ .sys := hk
    cases op with
    | add =>
      have := add_entry_shape hR
      rw [this]
      cases a <;> first | rfl | exact absurd rfl hk
    | sub =>
      have hR' : G.neg.add a = .ok R := by
        cases a with
        | sys H => exact absurd rfl hk
        | scalar c => exact hR
        | array q r D => exact hR
      have := add_entry_shape hR'
      rw [this]
      cases a <;> first | rfl | exact absurd rfl hk
    | mul =>
      have := rmul_entry_shape hR
      rw [this]
      cases a <;> first | rfl | exact absurd rfl hk
    | div =>
      rw [show entryR .div G a = _ from rtruediv_eq G a, Except.bind_eq_ok_iff] at hR
      obtain ⟨gi, hgi, hR⟩ := hR
      have := rmul_entry_shape hR
      rw [this, pow_neg_one_shape hgi]
      cases a <;> first | rfl | exact absurd rfl hk
    | append =>
      obtain ⟨h1, h2, h3, -⟩ := append_shape hR
      simp only [shape_sys, h1, h2, h3]
      cases a <;> first | rfl | exact absurd rfl hk
  · obtain ⟨R, hR, rfl⟩ := map_sys_ok hr.symm
    obtain ⟨h1, h2, h3, -⟩ := append_shape hR
    simp only [shape_sys, h1, h2, h3]
    cases a <;> cases b <;> first | rfl | exact absurd rfl hka | exact absurd rfl hkb

/-- **State dimension of every run-time tree.**  Whatever the run-time evaluation returns for a
tree has the kind, the number of states, outputs and inputs `SSTree.shape` predicts from the leaves
alone: the state dimension is the sum of the leaves' state dimensions (a broadcast SISO operand
counted once per channel, the operand of `** k` counted `|k|` times). -/
theorem dtree_states (e : SSTree K) : ∀ x, e.eval = .ok x → x.shape = e.shape := by
  induction e with
  | leaf y => intro x h; simp only [SSTree.eval, Except.ok.injEq] at h; subst h; rfl
  | neg a ih =>
    intro x h
    simp only [SSTree.eval, Except.bind_eq_ok_iff, Except.ok.injEq] at h
    obtain ⟨xa, ha, rfl⟩ := h
    rw [operand_neg_shape, SSTree.shape]
    exact ih xa ha
  | bin op a b iha ihb =>
    intro x h
    obtain ⟨xa, xb, ha, hb, h⟩ := eval_bin_ok h
    rw [binop_shape h, iha xa ha, ihb xb hb]
    rfl
  | pow a k ih =>
    intro x h
    simp only [SSTree.eval, Except.bind_eq_ok_iff] at h
    obtain ⟨xa, ha, h⟩ := h
    split at h
    · rename_i G
      obtain ⟨R, hR, rfl⟩ := lift_ok h
      obtain ⟨-, h1, h2, h3, -⟩ := pow_shape hR
      have := ih _ ha
      simp only [SSTree.shape, ← this, shape_sys, h1, h2, h3]
    · cases h
  | fb a b sign iha ihb =>
    intro x h
    simp only [SSTree.eval, Except.bind_eq_ok_iff] at h
    obtain ⟨xa, ha, xb, hb, h⟩ := h
    split at h
    · rename_i G
      obtain ⟨R, hR, rfl⟩ := lift_ok h
      obtain ⟨h1, h2, h3, -⟩ := feedbackSS_shape hR
      have e1 := iha _ ha
      have e2 := ihb _ hb
      simp only [SSTree.shape, ← e1, ← e2, shape_sys, h1, h2, h3]
      rfl
    · cases h
  | lft a b nu ny iha ihb =>
    intro x h
    simp only [SSTree.eval, Except.bind_eq_ok_iff] at h
    obtain ⟨xa, ha, xb, hb, h⟩ := h
    split at h
    · rename_i G
      obtain ⟨R, hR, rfl⟩ := lift_ok h
      have e1 := iha _ ha
      have e2 := ihb _ hb
      cases hdt : common G.dt (toSys xb).dt with
      | error e => rw [lft_timebase G xb nu ny e hdt] at hR; cases hR
      | ok dt =>
        by_cases hneg : nu < -1 ∨ ny < -1
        · rw [lft_negative G xb nu ny hneg dt hdt] at hR; cases hR
        · have hnu : lftRes (toSys xb).p G.m nu = ((lftRes (toSys xb).p G.m nu).toNat : Int) := by
            unfold lftRes; split <;> omega
          have hny : lftRes (toSys xb).m G.p ny = ((lftRes (toSys xb).m G.p ny).toNat : Int) := by
            unfold lftRes; split <;> omega
          rw [lft_resolved G xb nu ny _ _ hnu hny dt hdt] at hR
          split at hR
          · obtain ⟨h1, h2, h3, -⟩ := lftSS_shape hR
            simp only [SSTree.shape, ← e1, ← e2, shape_sys, h1, h2, h3]
            rfl
          · cases hR
    · cases h
  | sel a rows cols ih =>
    intro x h
    simp only [SSTree.eval, Except.bind_eq_ok_iff] at h
    obtain ⟨xa, ha, h⟩ := h
    split at h
    · rename_i G
      obtain ⟨R, hR, rfl⟩ := lift_ok h
      obtain ⟨h1, h2, h3, -⟩ := select_shape hR
      have := ih _ ha
      simp only [SSTree.shape, ← this, shape_sys, h1, h2, h3]
    · cases h

open DSS.Ex in
/-- `feedback(2 * G21, np.array([[1, 1]]), -1)` — a Python scalar broadcast against a `2 × 1`
system, an array as feedback path: the algebra assigns `[[2/9], [6/9]]` at `s = 0` and the
run-time evaluation returns; `G21 + K12` is a shape error of the evaluation; `s = 0` is not a
pole of `G21` (`Resp_value`, `dtree_value`). -/
example :
    let e : SSTree ℚ := .fb (.bin .mul (.leaf (.scalar 2)) (.leaf (.sys G21)))
      (.leaf (.array 1 2 !![1, 1])) (-1)
    (∃ x, e.eval = .ok x) ∧ e.shape = ⟨.sys, 1, 2, 1⟩ ∧ (∃ Y, DSem e 0 2 1 Y) ∧
      (SSTree.bin .add (.leaf (.sys G21)) (.leaf (.sys K12))).eval = .error (.err .shape) ∧
      IsUnit ((0 : ℚ) • (1 : Matrix (Fin G21.n) (Fin G21.n) ℚ) - G21.sys.A) := by
  intro e
  refine ⟨?_, rfl, ⟨_, DSem.fb (DSem.mul_bcL (by decide) (DSem.scalar 2 0) (DSem.sys G21_resp))
    (DSem.array 1 2 !![1, 1] 0) !![1/9] ?_⟩, ?_, ?_⟩
  · have h1 : e.eval = lift (feedbackSS (G21.mulScalar 2) (ofMatrix 1 2 !![1, 1]) (-1)) := rfl
    rw [h1]
    obtain ⟨R, hR⟩ : ∃ R, feedbackSS (G21.mulScalar 2) (ofMatrix 1 2 !![1, 1]) (-1) = .ok R := by
      refine exists_ok fun err h => ?_
      rcases (feedbackSS_error_iff _ _ _ err).mp h with ⟨h', -⟩ | ⟨_, h' | ⟨-, h', -⟩⟩
      · exact h' ⟨rfl, rfl⟩
      · simp [G21, mulScalar, ofMatrix, common] at h'
      · have : fbF (G21.mulScalar 2) (ofMatrix 1 2 !![1, 1]) ⟨rfl, rfl⟩ (-1)
            = 1 - (-1 : ℚ) • ((!![1, 1] : Matrix (Fin 1) (Fin 2) ℚ)
              * ((2 : ℚ) • (!![0; 1] : Matrix (Fin 2) (Fin 1) ℚ))) := fbF_mk _ _ _ _ _ _
        rw [this] at h'
        change Matrix.det ((1 : Matrix (Fin 1) (Fin 1) ℚ) - (-1 : ℚ) • ((!![1, 1] : Matrix (Fin 1) (Fin 2) ℚ)
              * ((2 : ℚ) • (!![0; 1] : Matrix (Fin 2) (Fin 1) ℚ)))) = 0 at h'
        simp [Matrix.det_fin_one, Matrix.mul_apply] at h'
        norm_num at h'
    exact ⟨.sys R, by rw [hR]; rfl⟩
  · ext i j; fin_cases i; fin_cases j
    simp [Matrix.mul_apply]
    norm_num
  · have : addSS G21 K12 = .error .shape :=
      (addSS_error_iff _ _ _).mpr (Or.inr (Or.inr (Or.inl ⟨rfl, by simp [G21, K12], rfl⟩)))
    show (match DSS.binop .add (.sys G21) (.sys K12) with
      | none => .error .bad | some (.error e) => .error (.err e) | some (.ok r) => .ok r)
      = (.error (.err .shape) : Except SSEvalErr (SOperand ℚ))
    show (match some ((addSS G21 K12).map SOperand.sys) with
      | none => .error .bad | some (.error e) => .error (.err e) | some (.ok r) => .ok r)
      = (.error (.err .shape) : Except SSEvalErr (SOperand ℚ))
    rw [this]
    rfl
  · have : (0 : ℚ) • (1 : Matrix (Fin 1) (Fin 1) ℚ) - !![-1] = 1 := by
      ext i j; fin_cases i; fin_cases j; simp
    have hu : IsUnit ((0 : ℚ) • (1 : Matrix (Fin 1) (Fin 1) ℚ) - !![-1]) := by
      rw [this]; exact isUnit_one
    exact hu


section examples
open DSS.Ex

/-- `/`: `G21 / 2`, `3 / Q22`, `G21 / S11` return (`S11` has the direct term `1`, value `2` at
`0` with inverse `1/2`); `G21 / 0` is `zeroDen`, `G21 / array` is `notImplemented`, `1 / G21`
(non-square) is `notImplemented`. -/
example :
    (∃ R, G21.truediv (.scalar 2) = .ok R) ∧ (∃ R, Q22.rtruediv (.scalar 3) = .ok R) ∧
    (∃ R, G21.truediv (.sys S11) = .ok R) ∧
    (toSys (.sys S11 : SOperand ℚ)).Resp 0 1 1 !![2] ∧
    (!![2] : Matrix (Fin 1) (Fin 1) ℚ) * !![1/2] = 1 ∧
    G21.truediv (.scalar 0) = .error .zeroDen ∧
    G21.truediv (.array 1 1 !![2]) = .error .notImplemented ∧
    G21.rtruediv (.scalar 1) = .error .notImplemented := by
  have hS : (sqD S11 rfl).det ≠ 0 := by
    have : sqD S11 rfl = !![1] := sqD_mk _ _ _
    rw [this]
    show Matrix.det (!![1] : Matrix (Fin 1) (Fin 1) ℚ) ≠ 0
    simp [Matrix.det_fin_one]
  have hQ : (sqD Q22 rfl).det ≠ 0 := by
    have : sqD Q22 rfl = 1 := sqD_mk _ _ _
    simp [this]
  refine ⟨⟨_, by rw [truediv_scalar, if_neg (by norm_num)]⟩, ?_, ?_, S11_resp, ?_, ?_, rfl, ?_⟩
  · obtain ⟨gi, hgi⟩ : ∃ gi, Q22.pow (-1) = .ok gi := exists_ok fun e h => by
      rcases (pow_error_iff _ _ e).mp h with ⟨h', -⟩ | ⟨-, _, h', -⟩
      · exact h' rfl
      · exact hQ h'
    exact ⟨gi.mulScalar 3, by rw [rtruediv_eq, hgi]; rfl⟩
  · obtain ⟨hi, hhi⟩ : ∃ hi, S11.pow (-1) = .ok hi := exists_ok fun e h => by
      rcases (pow_error_iff _ _ e).mp h with ⟨h', -⟩ | ⟨-, _, h', -⟩
      · exact h' rfl
      · exact hS h'
    obtain ⟨-, -, hp, hm, hdt⟩ := pow_shape hhi
    have hs : hi.isSiso = true := (isSiso_iff hi).mpr ⟨hp, hm⟩
    obtain ⟨R, hR⟩ : ∃ R, mulSS G21 hi = .ok R := exists_ok fun e h => by
      have := (mulSS_error_iff _ _ e).mp h
      rw [hs, hdt] at this
      simp [G21, S11, isSiso, common] at this
    exact ⟨R, by rw [truediv_sys, hhi]; exact hR⟩
  · ext i j; fin_cases i; fin_cases j; simp
  · rw [truediv_scalar, if_pos rfl]
  · rw [rtruediv_eq, (pow_error_iff G21 (-1) .notImplemented).mpr (Or.inl ⟨by simp [G21], rfl⟩)]
    rfl


end examples

end CtrlVerif.C02.RT
