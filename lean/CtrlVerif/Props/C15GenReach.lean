/-
Source-text tie of C15, part 2: `reachable_form` (control/canonical.py).
`Generated/CanonReachable.lean` is rewritten from the source text of the tree under check on every
run (harness/core/py2lean_canon.py; primitives: `Model/PyMat.lean`, `Model/PyCanon.lean`).  The theorems
below prove the run-time model `DSS.reachableForm` (`Model/CanonicalDyn.lean`, built on the typed
`SS.reachableForm`, the definition `C15.reachable_form_correct` is about), fed with the coefficient
list of the characteristic polynomial (`PyCanon.poly` = what `numpy.poly(A)` stands for), EQUAL to the
generated function for every system (any size, any number of inputs / outputs, any timebase).
Where the source computes differently from the model the equivalence is proved here: the loop
`for i in range(0, n): A[0, i] = -Apoly[i+1] / Apoly[0]; if i+1 < n: A[i+1, i] = 1.0` on a zero array
builds `companionR` (`Lemmas/PyCanon: companionR_loop`, stage by stage); `zeros_like` + `B[0, 0] = 1.0`
is `e₁` and raises IndexError without states; `ctrb` on one input is `ctrb1`;
`matrix_rank(W) != n` is `det W = 0` is "the certified inverse fails"; `solve(Wrx.T, Wrz.T).T` is
`Wrz Wrx⁻¹`, `solve(Tzx.T, C.T).T` is `C Tzx⁻¹`.  Corollaries: the function returns exactly on reachable
SISO systems with states (its second rank test never fires), and `reachable_form_correct` holds OF THE
FUNCTION THE SOURCE TEXT DEFINES, with the `numpy.poly` contract discharged by Cayley–Hamilton.
-/
import CtrlVerif.Generated.CanonReachable
import CtrlVerif.Lemmas.PyCanon
import CtrlVerif.Props.C15

namespace CtrlVerif.C15Gen

open Matrix CtrlVerif PyCanon

variable {K : Type} [Field K] [DecidableEq K]

theorem generated_reachable_form_eq (G : DSS K) :
    Generated.reachableForm G = (G.reachableForm (charpolyList G.sys.A)).map canonOut := by
  obtain ⟨n, p, m, ⟨A, B, C, D⟩, dt⟩ := G
  unfold Generated.reachableForm DSS.reachableForm
  simp only [PySS.A, PySS.B, PySS.C, PySS.D]
  by_cases h : p = 1 ∧ m = 1
  · obtain ⟨rfl, rfl⟩ := h
    have hs : PySS.issiso (⟨n, 1, 1, ⟨A, B, C, D⟩, dt⟩ : DSS K) = true := rfl
    simp only [hs, not_true_eq_false, ↓reduceIte, and_self, ↓reduceDIte, zerosLike_mk]
    by_cases hn : n = 0
    · subst hn
      simp [setItem_empty_rows, bind, Except.bind, Except.map]
    · generalize hap : charpolyList A = ap
      have hl : ap.length = n + 1 := by rw [← hap]; simp
      have ha0 : ap.getD 0 0 ≠ 0 := by rw [← hap, charpolyList_head]; exact one_ne_zero
      have hlen : ¬ (ap.length ≠ n + 1) := by simp [hl]
      have hB : setItem (⟨n, 1, 0⟩ : PMat K) 0 0 1 = .ok ⟨n, 1, SS.e1col n⟩ := by
        rw [setItem_nonneg _ _ _ _ _ _ (le_refl _) (le_refl _) (by omega) (by omega)]
        congr 2
        ext i j
        simp [SS.e1col, Fin.val_eq_zero j]
      simp only [Int.cast_one, hB, poly_mk, hn, ne_eq, not_false_eq_true, ↓reduceIte, bind, Except.bind, hap]
      rw [companionR_loop n (fun k => ap.getD k 0)]
      · have hl' : ¬ (¬ ap.length = n + 1) := by simp [hl]
        have hr : ∀ F : Matrix (Fin n) (Fin n) K, (¬ (⟨n, n, F⟩ : PMat K).rank = n) ↔ F.det = 0 :=
          fun F => PMat.rank_mk_ne_iff F
        simp only [ctrb_mk1, PMat.T_mk, hr, PMat.solve_mk, Matrix.det_transpose, SS.castIO_rfl, certInv_eq,
          Mat.ofTab_tab', hl', ha0, ↓reduceIte]
        by_cases hd : (SS.ctrb1 A B).det = 0
        · simp only [hd, ↓reduceIte]
          rfl
        · simp only [hd, ↓reduceIte, PMat.T_mk, hr, PMat.inverse_eq_invQ, invQ_transpose, ← Matrix.transpose_mul,
            Matrix.transpose_transpose]
          generalize SS.ctrb1 (SS.companionR n fun k => ap.getD k 0) (SS.e1col n) * SS.invQ (SS.ctrb1 A B) = Tz
          by_cases hz : Tz.det = 0
          · simp only [hz, ↓reduceIte]
            rfl
          · simp only [hz, ↓reduceIte, PMat.solve_mk, Matrix.det_transpose, PMat.T_mk, PMat.inverse_eq_invQ,
              invQ_transpose, ← Matrix.transpose_mul, Matrix.transpose_transpose, PySS.mk_mk, pure, Except.pure,
              Except.map, canonOut, Mat.ofTab_tab', SS.castIO_rfl]
      · intro k hk
        have ha0' : ¬ ap.getD 0 0 = 0 := ha0
        by_cases hk1 : (k : Int) + 1 < (n : Int)
        · simp (disch := omega) only [getItem_nonneg, setItem_nonneg, PyNum.div, ha0', hk1, ↓reduceIte,
            Int.toNat_zero, Int.toNat_natCast_add_one, Int.toNat_natCast]
          congr 2
          ext i j
          simp only [partialR, SS.companionR, of_apply]
          have hi := i.isLt
          have hj := j.isLt
          split_ifs <;> first | rfl | (exfalso; omega) | simp_all
        · simp (disch := omega) only [getItem_nonneg, setItem_nonneg, PyNum.div, ha0', hk1, ↓reduceIte,
            Int.toNat_zero, Int.toNat_natCast_add_one, Int.toNat_natCast, pure, Except.pure]
          congr 2
          ext i j
          simp only [partialR, SS.companionR, of_apply]
          have hi := i.isLt
          have hj := j.isLt
          split_ifs <;> first | rfl | (exfalso; omega) | simp_all
  · have hs : ¬ (PySS.issiso (⟨n, p, m, ⟨A, B, C, D⟩, dt⟩ : DSS K) = true) := by
      simp only [PySS.issiso, Bool.and_eq_true, beq_iff_eq]
      exact h
    simp only [hs, not_false_eq_true, ↓reduceIte, h, ↓reduceDIte]
    rfl

/-- the model on a SISO system with states, fed with the coefficients of the characteristic
polynomial, in closed form (the certified inverses are the inverses). -/
theorem reachableForm_closed (n : Nat) (dt : Dt) (A : Matrix (Fin n) (Fin n) K) (B : Matrix (Fin n) (Fin 1) K)
    (C : Matrix (Fin 1) (Fin n) K) (D : Matrix (Fin 1) (Fin 1) K) (hn : n ≠ 0) :
    (DSS.reachableForm ⟨n, 1, 1, ⟨A, B, C, D⟩, dt⟩ (charpolyList A)).map canonOut
      = if (SS.ctrb1 A B).det = 0 then .error .illPosed
        else if (SS.reachT (fun k => (charpolyList A).getD k 0) (SS.invQ (SS.ctrb1 A B))).det = 0 then
          .error .illPosed
        else .ok (⟨n, 1, 1, ⟨SS.companionR n (fun k => (charpolyList A).getD k 0), SS.e1col n,
            C * SS.invQ (SS.reachT (fun k => (charpolyList A).getD k 0) (SS.invQ (SS.ctrb1 A B))), D⟩, dt⟩,
            ⟨n, n, SS.reachT (fun k => (charpolyList A).getD k 0) (SS.invQ (SS.ctrb1 A B))⟩) := by
  have hl' : ¬ (¬ (charpolyList A).length = n + 1) := by simp
  have ha0 : ¬ (charpolyList A).getD 0 0 = 0 := by rw [charpolyList_head]; exact one_ne_zero
  unfold DSS.reachableForm
  simp only [and_self, ↓reduceDIte, hn, ↓reduceIte, ne_eq, hl', ha0, SS.castIO_rfl, certInv_eq, Mat.ofTab_tab']
  by_cases hd : (SS.ctrb1 A B).det = 0
  · simp only [hd, ↓reduceIte]
    rfl
  · have hrT : SS.ctrb1 (SS.companionR n fun k => (charpolyList A).getD k 0) (SS.e1col n)
        * SS.invQ (SS.ctrb1 A B)
        = SS.reachT (fun k => (charpolyList A).getD k 0) (SS.invQ (SS.ctrb1 A B)) := rfl
    simp only [hd, ↓reduceIte, hrT]
    by_cases hz : (SS.reachT (fun k => (charpolyList A).getD k 0) (SS.invQ (SS.ctrb1 A B))).det = 0
    · simp only [hz, ↓reduceIte]
      rfl
    · simp only [hz, ↓reduceIte, pure, Except.pure, Except.map, canonOut, Mat.ofTab_tab', SS.castIO_rfl]

/-- the contract of `numpy.poly` holds for the primitive `PyCanon.poly` (Cayley–Hamilton). -/
theorem charpolyList_contract {n : Nat} (A : Matrix (Fin n) (Fin n) K) :
    SS.hornerMat A (fun k => (charpolyList A).getD k 0) n = 0
      ∧ SS.hornerMat Aᵀ (fun k => (charpolyList A).getD k 0) n = 0
      ∧ (charpolyList A).getD 0 0 ≠ 0 :=
  C15.charpoly_contract A (charpolyList A) (charpolyList_length A) (toPoly_charpolyList A)

/-- **the function the source text defines returns exactly on reachable SISO systems with at least
one state** (in particular its second test, "Transformation matrix singular", never fires). -/
theorem generated_reachable_form_ok_iff (G : DSS K) :
    (∃ R, Generated.reachableForm G = .ok R)
      ↔ ∃ h : G.p = 1 ∧ G.m = 1, G.n ≠ 0
          ∧ (SS.ctrb1 (G.sys.castIO h.1 h.2).A (G.sys.castIO h.1 h.2).B).det ≠ 0 := by
  rw [generated_reachable_form_eq]
  obtain ⟨n, p, m, ⟨A, B, C, D⟩, dt⟩ := G
  by_cases h : p = 1 ∧ m = 1
  · obtain ⟨rfl, rfl⟩ := h
    simp only [and_self, SS.castIO_rfl, exists_true_left]
    by_cases hn : n = 0
    · subst hn
      simp [DSS.reachableForm, Except.map]
    · rw [reachableForm_closed n dt A B C D hn]
      by_cases hd : (SS.ctrb1 A B).det = 0
      · simp [hd]
      · obtain ⟨hM, _, ha0⟩ := charpolyList_contract A
        have hM' : SS.hornerMat A (fun k => (charpolyList A).getD k 0) n * B = 0 := by rw [hM, Matrix.zero_mul]
        have hu := C15.reachable_form_T_invertible ⟨A, B, C, D⟩ _ (SS.invQ (SS.ctrb1 A B)) 0 ha0 hM'
          (invQ_two_sided _ hd).1
        have hz : ¬ (SS.reachT (fun k => (charpolyList A).getD k 0) (SS.invQ (SS.ctrb1 A B))).det = 0 :=
          hu.ne_zero
        rw [if_neg hd, if_neg hz]
        exact ⟨fun _ => ⟨hn, hd⟩, fun _ => ⟨_, rfl⟩⟩
  · have : ¬ ∃ h : p = 1 ∧ m = 1, True := fun ⟨h', _⟩ => h h'
    simp [DSS.reachableForm, h, Except.map]

/-- **`reachable_form_correct` of the function the source text defines.**  Whenever
`reachable_form(G)` returns `(Z, T)`: `G` is SISO, `Z` has the companion structure of the
characteristic polynomial (`A_c`: first row `-a_k / a_0`, unit sub-diagonal, zeros; `B_c = e₁`), `T` is
square of the size of the state and invertible, `T A = A_c T`, `T B = e₁`, `C_c T = C`, `D` and the
timebase are unchanged, and `Z` has the same transfer function as `G`. -/
theorem generated_reachable_form_correct {G Z : DSS K} {T : PMat K}
    (hR : Generated.reachableForm G = .ok (Z, T)) :
    ∃ (hp : G.p = 1) (hm : G.m = 1) (Zs : SS (Fin G.n) (Fin 1) (Fin 1) K)
      (Tz : Matrix (Fin G.n) (Fin G.n) K),
      Z = ⟨G.n, 1, 1, Zs, G.dt⟩ ∧ T = ⟨G.n, G.n, Tz⟩
        ∧ Zs.A = SS.companionR G.n (fun k => (charpolyList G.sys.A).getD k 0) ∧ Zs.B = SS.e1col G.n
        ∧ Tz * (G.sys.castIO hp hm).A = Zs.A * Tz ∧ Tz * (G.sys.castIO hp hm).B = Zs.B
        ∧ Zs.C * Tz = (G.sys.castIO hp hm).C ∧ Zs.D = (G.sys.castIO hp hm).D ∧ IsUnit Tz.det
        ∧ ∀ s Y, Zs.Resp s Y ↔ (G.sys.castIO hp hm).Resp s Y := by
  rw [generated_reachable_form_eq] at hR
  obtain ⟨n, p, m, ⟨A, B, C, D⟩, dt⟩ := G
  by_cases h : p = 1 ∧ m = 1
  · obtain ⟨rfl, rfl⟩ := h
    refine ⟨rfl, rfl, ?_⟩
    simp only [SS.castIO_rfl]
    by_cases hn : n = 0
    · subst hn
      simp [DSS.reachableForm, Except.map] at hR
    · rw [reachableForm_closed n dt A B C D hn] at hR
      by_cases hd : (SS.ctrb1 A B).det = 0
      · simp [hd] at hR
      · obtain ⟨hM, _, ha0⟩ := charpolyList_contract A
        have hM' : SS.hornerMat A (fun k => (charpolyList A).getD k 0) n * B = 0 := by rw [hM, Matrix.zero_mul]
        have hW := (invQ_two_sided _ hd).1
        have hu := C15.reachable_form_T_invertible ⟨A, B, C, D⟩ _ (SS.invQ (SS.ctrb1 A B)) 0 ha0 hM' hW
        have hz : ¬ (SS.reachT (fun k => (charpolyList A).getD k 0) (SS.invQ (SS.ctrb1 A B))).det = 0 :=
          hu.ne_zero
        simp only [hd, ↓reduceIte, hz, Except.ok.injEq, Prod.mk.injEq] at hR
        obtain ⟨rfl, rfl⟩ := hR
        have hTi := (invQ_two_sided _ hz).1
        obtain ⟨h1, h2, h3, h4, h5⟩ := C15.reachable_form_correct ⟨A, B, C, D⟩
          (fun k => (charpolyList A).getD k 0) (SS.invQ (SS.ctrb1 A B)) _ ha0 hM' hW hTi
        exact ⟨_, _, rfl, rfl, rfl, rfl, h1, h2, h3, h4, hu, h5⟩
  · simp [DSS.reachableForm, h, Except.map] at hR

/-- … in the run-time form of the response relation: same transfer function. -/
theorem generated_reachable_form_resp {G Z : DSS K} {T : PMat K}
    (hR : Generated.reachableForm G = .ok (Z, T)) (s : K) (p m : Nat) (Y : Matrix (Fin p) (Fin m) K) :
    Z.Resp s p m Y ↔ G.Resp s p m Y := by
  obtain ⟨hp, hm, Zs, Tz, rfl, -, -, -, -, -, -, -, -, hresp⟩ := generated_reachable_form_correct hR
  obtain ⟨n, p', m', S, dt⟩ := G
  simp only at hp hm
  subst hp hm
  simp only [SS.castIO_rfl] at hresp
  unfold DSS.Resp
  simp only
  constructor
  · rintro ⟨h1, h2, h⟩
    exact ⟨h1, h2, (hresp s _).mp h⟩
  · rintro ⟨h1, h2, h⟩
    exact ⟨h1, h2, (hresp s _).mpr h⟩

/-- an unreachable system, a MIMO system and a system without states raise. -/
theorem generated_reachable_form_raises (G : DSS K)
    (h : ¬ (G.p = 1 ∧ G.m = 1) ∨ G.n = 0
      ∨ ∃ h : G.p = 1 ∧ G.m = 1, (SS.ctrb1 (G.sys.castIO h.1 h.2).A (G.sys.castIO h.1 h.2).B).det = 0) :
    ∃ e, Generated.reachableForm G = .error e := by
  cases hg : Generated.reachableForm G with
  | error e => exact ⟨e, rfl⟩
  | ok R =>
    exfalso
    obtain ⟨hs, hn, hd⟩ := (generated_reachable_form_ok_iff G).mp ⟨R, hg⟩
    rcases h with h | h | ⟨_, h⟩
    · exact h hs
    · exact hn h
    · exact hd h

/-- non-vacuity (ℚ): `A = [[0, 1], [-2, -3]]`, `B = (0, 1)` is reachable, the function the source
text defines returns; with `B = 0` it raises. -/
example :
    (∃ R, Generated.reachableForm (K := ℚ) ⟨2, 1, 1, ⟨!![0, 1; -2, -3], !![0; 1], !![1, 0], !![2]⟩, .cont⟩ = .ok R)
    ∧ ¬ (∃ R, Generated.reachableForm (K := ℚ) ⟨2, 1, 1, ⟨!![0, 1; -2, -3], !![0; 0], !![1, 0], !![2]⟩, .cont⟩ = .ok R) := by
  constructor
  · refine (generated_reachable_form_ok_iff _).mpr ⟨⟨rfl, rfl⟩, by decide, ?_⟩
    simp only [SS.castIO_rfl]
    decide +kernel
  · intro h
    obtain ⟨_, _, h⟩ := (generated_reachable_form_ok_iff _).mp h
    simp only [SS.castIO_rfl] at h
    exact h (by decide +kernel)

end CtrlVerif.C15Gen
