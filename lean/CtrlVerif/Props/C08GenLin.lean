/-
Source-text tie of C08, part 2: `NonlinearIOSystem.linearize` (control/nlsys.py) — the resolution of
the operating point / default input and the forward differences with `eps`.
`Generated/NLLinPoint.lean`, `Generated/NLLinCore.lean` are rewritten from the source text on every
run; the model (`linPoint`, `IOSys.linearize`) is proved equal to them.
-/
import CtrlVerif.Generated.NLLinPoint
import CtrlVerif.Generated.NLLinCore
import CtrlVerif.Generated.NLLinArgs
import CtrlVerif.Lemmas.PyNLLin
import CtrlVerif.Props.C08GenVector

namespace CtrlVerif.C08Gen

open CtrlVerif IOSys PyNL

/-! ## the point at which `linearize` linearises -/

/-- the model's first-argument forms. -/
def toXArg : PyNL.XArg Q → CtrlVerif.XArg
  | .vec x => .vec (toVArg x)
  | .op s i => .op (toVArg s) (toVArg i)

/-- **generated_linPoint_eq**: the statements `if isinstance(x0, OperatingPoint): … elif u0 is None:
u0 = 0` of the source text resolve the point exactly as the model's `linPoint`, for every form of
the two arguments. -/
theorem generated_linPoint_eq (x0 : PyNL.XArg Q) (u0 : PyNL.Arg Q) :
    ((Generated.nlLinPoint x0 u0).1 |> toVArg, (Generated.nlLinPoint x0 u0).2 |> toVArg)
      = linPoint (toXArg x0) (toVArg u0) := by
  cases x0 <;> cases u0 <;> simp [Generated.nlLinPoint, linPoint, toXArg, toVArg]

/-- transported `linearize_operating_point`: with the input omitted (`None`) an operating point is
resolved to its own states and inputs by the statements of the source text. -/
theorem generated_linPoint_operating_point {K : Type} [Field K] (xs us : PyNL.Arg K) :
    Generated.nlLinPoint (.op xs us) .none = (xs, us) := rfl

/-- a bare state with the input omitted gets the input `0`. -/
theorem generated_linPoint_default_input {K : Type} [Field K] (x : PyNL.Arg K) :
    Generated.nlLinPoint (.vec x) .none = (x, .scalar 0) := by
  simp [Generated.nlLinPoint]

/-! ## forward differences -/

variable {K : Type} [Field K] [DecidableEq K]

/-- the four matrices as the column-wise arrays of the generated code. -/
def convSS {n m p : Nat} (S : SS (Fin n) (Fin m) (Fin p) K) : CMat K × CMat K × CMat K × CMat K :=
  (colsOf S.A, colsOf S.B, colsOf S.C, colsOf S.D)

/-- the block of the source text on typed data. -/
abbrev genLin {n m p : Nat} (G : IOSys (Fin n) (Fin m) (Fin p) K) (t : K) (x0 : Fin n → K)
    (u0 : Fin m → K) (eps : K) :=
  Generated.nlLinCore (listFun G.f) (listFun G.h) (p : Int) t eps (List.ofFn x0) (n : Int)
    (List.ofFn u0) (m : Int)

/-- **generated_linearize_ok**: whenever the model's `linearize` returns `(A, B, C, D)`, the
statements of the source text (nominal values, the four `np.zeros`, the two perturbation loops
`dx = zeros; dx[i] = eps; A[:, i] = (f(x0 + dx) - F0) / eps; …`) return the same four matrices —
for every system, every point, every `eps ≠ 0`, all sizes. -/
theorem generated_linearize_ok {n m p : Nat} (G : IOSys (Fin n) (Fin m) (Fin p) K) (t : K)
    (x0 : Fin n → K) (u0 : Fin m → K) (eps : K) (he : eps ≠ 0) (S : SS (Fin n) (Fin m) (Fin p) K)
    (hS : linearize G t x0 u0 eps = .ok S) :
    genLin G t x0 u0 eps = .ok (convSS S) := by
  unfold linearize at hS
  cases hh0 : G.h t x0 u0 with
  | error e => simp [hh0] at hS
  | ok H0 =>
  cases hf0 : G.f t x0 u0 with
  | error e => simp [hh0, hf0] at hS
  | ok F0 =>
  cases h1 : seqFin fun j => G.f t (x0 + Pi.single j eps) u0 with
  | error e => simp [hh0, hf0, h1] at hS
  | ok Ac =>
  cases h2 : seqFin fun j => G.h t (x0 + Pi.single j eps) u0 with
  | error e => simp [hh0, hf0, h1, h2] at hS
  | ok Cc =>
  cases h3 : seqFin fun j => G.f t x0 (u0 + Pi.single j eps) with
  | error e => simp [hh0, hf0, h1, h2, h3] at hS
  | ok Bc =>
  cases h4 : seqFin fun j => G.h t x0 (u0 + Pi.single j eps) with
  | error e => simp [hh0, hf0, h1, h2, h3, h4] at hS
  | ok Dc =>
  simp only [hh0, hf0, h1, h2, h3, h4, Except.ok.injEq] at hS
  subst hS
  have e1 : ∀ j, G.f t (x0 + Pi.single j eps) u0 = .ok (Ac j) := (seqFin_ok_iff _ _).mp h1
  have e2 : ∀ j, G.h t (x0 + Pi.single j eps) u0 = .ok (Cc j) := (seqFin_ok_iff _ _).mp h2
  have e3 : ∀ j, G.f t x0 (u0 + Pi.single j eps) = .ok (Bc j) := (seqFin_ok_iff _ _).mp h3
  have e4 : ∀ j, G.h t x0 (u0 + Pi.single j eps) = .ok (Dc j) := (seqFin_ok_iff _ _).mp h4
  unfold genLin Generated.nlLinCore
  simp only [listFun_ofFn, hh0, hf0, Except.map, bind, Except.bind]
  rw [generated_findSize_ok _ _ (by simp)]
  simp only [zeros_eq, range_zero]
  -- the loop over the states
  rw [← partialCols_zero n n (fun j i => (Ac j i - F0 i) / eps),
    ← partialCols_zero p n (fun j i => (Cc j i - H0 i) / eps)]
  rw [fill_prefix_ok
    (fun j => (G.f t (x0 + Pi.single j eps) u0).map fun v i => (v i - F0 i) / eps)
    (fun j => (G.h t (x0 + Pi.single j eps) u0).map fun v i => (v i - H0 i) / eps) _ ?_ _ _ n le_rfl
    (fun j _ => by simp [e1 j, e2 j, Except.map])]
  · simp only []
    rw [← partialCols_zero n m (fun j i => (Bc j i - F0 i) / eps),
      ← partialCols_zero p m (fun j i => (Dc j i - H0 i) / eps)]
    rw [fill_prefix_ok
      (fun j => (G.f t x0 (u0 + Pi.single j eps)).map fun v i => (v i - F0 i) / eps)
      (fun j => (G.h t x0 (u0 + Pi.single j eps)).map fun v i => (v i - H0 i) / eps) _ ?_ _ _ m le_rfl
      (fun j _ => by simp [e3 j, e4 j, Except.map])]
    · simp only [partialCols_full, pure, Except.pure, convSS, colsOf]
    · intro Ac' Cc' j hA hC
      simp only [setItem_vzeros, vadd_perturb, listFun_ofFn, bind, Except.bind]
      cases hf : G.f t x0 (u0 + Pi.single j eps) with
      | error e => simp [Except.map]
      | ok fv =>
        simp only [Except.map, vsub_ofFn, vdiv_ofFn _ _ he]
        rw [setCol_natCast _ _ _ (by rw [hA]; exact j.isLt) _ (by simp)]
        simp only []
        cases hh : G.h t x0 (u0 + Pi.single j eps) with
        | error e => simp
        | ok hv =>
          simp only [vsub_ofFn, vdiv_ofFn _ _ he]
          rw [setCol_natCast _ _ _ (by rw [hC]; exact j.isLt) _ (by simp)]
          simp [pure, Except.pure]
  · intro Ac' Cc' j hA hC
    simp only [setItem_vzeros, vadd_perturb, listFun_ofFn, bind, Except.bind]
    cases hf : G.f t (x0 + Pi.single j eps) u0 with
    | error e => simp [Except.map]
    | ok fv =>
      simp only [Except.map, vsub_ofFn, vdiv_ofFn _ _ he]
      rw [setCol_natCast _ _ _ (by rw [hA]; exact j.isLt) _ (by simp)]
      simp only []
      cases hh : G.h t (x0 + Pi.single j eps) u0 with
      | error e => simp
      | ok hv =>
        simp only [vsub_ofFn, vdiv_ofFn _ _ he]
        rw [setCol_natCast _ _ _ (by rw [hC]; exact j.isLt) _ (by simp)]
        simp [pure, Except.pure]

/-- the converse: whenever the statements of the source text return, every evaluation the model
makes succeeds, so the model's `linearize` returns as well (the source interleaves the evaluations of
`_rhs` and `_out` column by column, the model evaluates all `_rhs` columns first: both raise exactly
when some evaluation raises; which exception is reported may differ). -/
theorem generated_linearize_defined {n m p : Nat} (G : IOSys (Fin n) (Fin m) (Fin p) K) (t : K)
    (x0 : Fin n → K) (u0 : Fin m → K) (eps : K) (he : eps ≠ 0)
    (R : CMat K × CMat K × CMat K × CMat K) (hR : genLin G t x0 u0 eps = .ok R) :
    ∃ S, linearize G t x0 u0 eps = .ok S := by
  unfold genLin Generated.nlLinCore at hR
  simp only [listFun_ofFn] at hR
  cases hh0 : G.h t x0 u0 with
  | error e => simp [hh0, Except.map, bind, Except.bind] at hR
  | ok H0 =>
  cases hf0 : G.f t x0 u0 with
  | error e =>
    simp only [hh0, hf0, Except.map, bind, Except.bind] at hR
    rw [generated_findSize_ok _ _ (by simp)] at hR
    simp at hR
  | ok F0 =>
  simp only [hh0, hf0, Except.map, bind, Except.bind] at hR
  rw [generated_findSize_ok _ _ (by simp)] at hR
  simp only [zeros_eq, range_zero] at hR
  -- the first loop
  generalize hb1 : (fun (t5 : CMat K × CMat K) (i : Int) => _) = body1 at hR
  cases hl1 : List.foldlM body1 (⟨n, List.replicate n (List.replicate n 0)⟩, ⟨p, List.replicate n (List.replicate p 0)⟩)
      ((List.range n).map fun i : Nat => (i : Int)) with
  | error e => simp [hl1] at hR
  | ok s1 =>
  simp only [hl1] at hR
  generalize hb2 : (fun (t14 : CMat K × CMat K) (i : Int) => _) = body2 at hR
  cases hl2 : List.foldlM body2 (⟨n, List.replicate m (List.replicate n 0)⟩, ⟨p, List.replicate m (List.replicate p 0)⟩)
      ((List.range m).map fun i : Nat => (i : Int)) with
  | error e => simp [hl2] at hR
  | ok s2 =>
  have spec1 : FillSpec (r1 := n) (r2 := p) (c := n)
      (fun j => (G.f t (x0 + Pi.single j eps) u0).map fun v i => (v i - F0 i) / eps)
      (fun j => (G.h t (x0 + Pi.single j eps) u0).map fun v i => (v i - H0 i) / eps) body1 := by
    subst hb1
    intro Ac' Cc' j hA hC
    simp only [setItem_vzeros, vadd_perturb, listFun_ofFn, bind, Except.bind]
    cases hf : G.f t (x0 + Pi.single j eps) u0 with
    | error e => simp [Except.map]
    | ok fv =>
      simp only [Except.map, vsub_ofFn, vdiv_ofFn _ _ he]
      rw [setCol_natCast _ _ _ (by rw [hA]; exact j.isLt) _ (by simp)]
      simp only []
      cases hh : G.h t (x0 + Pi.single j eps) u0 with
      | error e => simp
      | ok hv =>
        simp only [vsub_ofFn, vdiv_ofFn _ _ he]
        rw [setCol_natCast _ _ _ (by rw [hC]; exact j.isLt) _ (by simp)]
        simp [pure, Except.pure]
  have spec2 : FillSpec (r1 := n) (r2 := p) (c := m)
      (fun j => (G.f t x0 (u0 + Pi.single j eps)).map fun v i => (v i - F0 i) / eps)
      (fun j => (G.h t x0 (u0 + Pi.single j eps)).map fun v i => (v i - H0 i) / eps) body2 := by
    subst hb2
    intro Ac' Cc' j hA hC
    simp only [setItem_vzeros, vadd_perturb, listFun_ofFn, bind, Except.bind]
    cases hf : G.f t x0 (u0 + Pi.single j eps) with
    | error e => simp [Except.map]
    | ok fv =>
      simp only [Except.map, vsub_ofFn, vdiv_ofFn _ _ he]
      rw [setCol_natCast _ _ _ (by rw [hA]; exact j.isLt) _ (by simp)]
      simp only []
      cases hh : G.h t x0 (u0 + Pi.single j eps) with
      | error e => simp
      | ok hv =>
        simp only [vsub_ofFn, vdiv_ofFn _ _ he]
        rw [setCol_natCast _ _ _ (by rw [hC]; exact j.isLt) _ (by simp)]
        simp [pure, Except.pure]
  have i1 := (fill_prefix_inv _ _ body1 spec1 _ _ (by simp) (by simp) n le_rfl s1 hl1).1
  have i2 := (fill_prefix_inv _ _ body2 spec2 _ _ (by simp) (by simp) m le_rfl s2 hl2).1
  have ok_of_map : ∀ {α β : Type} (x : Except Err α) (g : α → β), (∃ b, x.map g = .ok b) → ∃ a, x = .ok a := by
    intro α β x g hx
    cases x with
    | error e => obtain ⟨b, hb⟩ := hx; simp [Except.map] at hb
    | ok a => exact ⟨a, rfl⟩
  obtain ⟨Ac, hAc⟩ := seqFin_isOk (fun j => G.f t (x0 + Pi.single j eps) u0)
    (fun j => ok_of_map _ _ (i1 j j.isLt).1)
  obtain ⟨Cc, hCc⟩ := seqFin_isOk (fun j => G.h t (x0 + Pi.single j eps) u0)
    (fun j => ok_of_map _ _ (i1 j j.isLt).2)
  obtain ⟨Bc, hBc⟩ := seqFin_isOk (fun j => G.f t x0 (u0 + Pi.single j eps))
    (fun j => ok_of_map _ _ (i2 j j.isLt).1)
  obtain ⟨Dc, hDc⟩ := seqFin_isOk (fun j => G.h t x0 (u0 + Pi.single j eps))
    (fun j => ok_of_map _ _ (i2 j j.isLt).2)
  refine ⟨⟨fun i j => (Ac j i - F0 i) / eps, fun i j => (Bc j i - F0 i) / eps,
    fun i j => (Cc j i - H0 i) / eps, fun i j => (Dc j i - H0 i) / eps⟩, ?_⟩
  unfold linearize
  simp only [hh0, hf0, hAc, hCc, hBc, hDc]

/-- **generated_linearize_eq**: for every system (arbitrary update and output maps, which may
raise), every time, point and step `eps ≠ 0`, all sizes: the statements of the source text and the
model's `linearize` return the same `(A, B, C, D)` or both raise (equality up to which exception is
reported, see `generated_linearize_defined`). -/
theorem generated_linearize_eq {n m p : Nat} (G : IOSys (Fin n) (Fin m) (Fin p) K) (t : K)
    (x0 : Fin n → K) (u0 : Fin m → K) (eps : K) (he : eps ≠ 0) :
    (genLin G t x0 u0 eps).toOption = (linearize G t x0 u0 eps).toOption.map convSS := by
  cases hm : linearize G t x0 u0 eps with
  | ok S => rw [generated_linearize_ok G t x0 u0 eps he S hm]; rfl
  | error e =>
    cases hg : genLin G t x0 u0 eps with
    | error e' => rfl
    | ok R =>
      obtain ⟨S, hS⟩ := generated_linearize_defined G t x0 u0 eps he R hg
      rw [hm] at hS
      cases hS

/-- transported **linearize_affine**: if at time `t` the update and output maps are affine,
`f = A x + B u + c_f`, `h = C x + D u + c_h`, the statements of the source text return exactly
`(A, B, C, D)` for every step `eps ≠ 0` and every nominal point. -/
theorem generated_linearize_affine {n m p : Nat} (G : IOSys (Fin n) (Fin m) (Fin p) K)
    (S : SS (Fin n) (Fin m) (Fin p) K) (cf : Fin n → K) (ch : Fin p → K) (t : K)
    (hf : ∀ x u, G.f t x u = .ok (S.A.mulVec x + S.B.mulVec u + cf))
    (hh : ∀ x u, G.h t x u = .ok (S.C.mulVec x + S.D.mulVec u + ch))
    (x0 : Fin n → K) (u0 : Fin m → K) (eps : K) (he : eps ≠ 0) :
    genLin G t x0 u0 eps = .ok (convSS S) :=
  generated_linearize_ok G t x0 u0 eps he S (C08.linearize_affine G S cf ch t hf hh x0 u0 eps he)

/-- a `StateSpace` used as an I/O system: the statements of the source text return its own matrices. -/
theorem generated_linearize_ofSS {n m p : Nat} (S : SS (Fin n) (Fin m) (Fin p) K) (t : K)
    (x0 : Fin n → K) (u0 : Fin m → K) (eps : K) (he : eps ≠ 0) :
    genLin (ofSS S) t x0 u0 eps = .ok (convSS S) :=
  generated_linearize_ok _ t x0 u0 eps he S (C08.linearize_ofSS S t x0 u0 eps he)

/-! ## the whole method: point resolution, argument processing, forward differences -/

/-- the model's way of reading a processed vector argument. -/
def needArray (r : Except Err (Option (List Q))) : Except Err (List Q) :=
  match r with
  | .error e => .error e
  | .ok (some v) => .ok v
  | .ok none => .error .badArg

/-- **generated_linArgs_eq**: the two `_process_vector_argument` calls of `linearize` bind what the
model's `linearizeD` binds: the processed state and input (a `None` is rejected) and the two sizes. -/
theorem generated_linArgs_eq (X0 U0 : PyNL.Arg Q) (n m : Nat) :
    Generated.nlLinArgs X0 U0 (n : Int) (m : Int)
      = (needArray (processVector (toVArg X0) n)).bind fun x0l =>
          (needArray (processVector (toVArg U0) m)).bind fun u0l => .ok (x0l, (n : Int), u0l, (m : Int)) := by
  unfold Generated.nlLinArgs
  rw [generated_processVector_eq, generated_processVector_eq]
  cases hx : processVector (toVArg X0) n with
  | error e => simp [needArray, Except.map, Except.bind, bind]
  | ok ox =>
    cases ox with
    | none => simp [needArray, Except.map, Except.bind, bind, PyNL.asArray]
    | some xl =>
      cases hu : processVector (toVArg U0) m with
      | error e => simp [needArray, Except.map, Except.bind, bind, PyNL.asArray]
      | ok ou =>
        cases ou with
        | none => simp [needArray, Except.map, Except.bind, bind, PyNL.asArray]
        | some ul => simp [needArray, Except.map, Except.bind, bind, PyNL.asArray, pure, Except.pure]

theorem vecOfList_ofFn (n : Nat) (l : List Q) (h : l.length = n) :
    ∃ v, vecOfList n l = .ok v ∧ List.ofFn v = l := by
  refine ⟨fun i => l[i.val]'(h ▸ i.isLt), by simp [vecOfList, h], ?_⟩
  apply List.ext_getElem
  · simp [h]
  · intro i h1 h2; simp

/-- the method of the source text, block after block, on the run-time system `G`. -/
def genLinearizeP (G : DIO) (env : ParamEnv) (t : Q) (X : PyNL.XArg Q) (U : PyNL.Arg Q) (eps : Q) :
    Except Err (CMat Q × CMat Q × CMat Q × CMat Q) :=
  (Generated.nlLinArgs (Generated.nlLinPoint X U).1 (Generated.nlLinPoint X U).2 (G.n : Int) (G.m : Int)).bind
    fun a => Generated.nlLinCore (listFun (G.build env).f) (listFun (G.build env).h) (G.p : Int) t eps
      a.1 a.2.1 a.2.2.1 a.2.2.2

/-- **generated_linearizeP_eq**: `sys.linearize(x0[, u0], t, params, eps)` as the source text says
it — operating-point / default-input resolution, the two `_process_vector_argument` calls, the
forward differences — returns the model's `linearizeP` (same matrices, or both raise), for every
system object, every argument form, every `eps ≠ 0`. -/
theorem generated_linearizeP_eq (G : DIO) (env : ParamEnv) (t : Q) (X : PyNL.XArg Q) (U : PyNL.Arg Q)
    (eps : Q) (he : eps ≠ 0) :
    (genLinearizeP G env t X U eps).toOption
      = (linearizeP G env t (toXArg X) (toVArg U) eps).toOption.map convSS := by
  unfold genLinearizeP linearizeP linearizeD
  rw [generated_linArgs_eq]
  have hp := generated_linPoint_eq X U
  rw [Prod.ext_iff] at hp
  simp only at hp
  rw [← hp.1, ← hp.2]
  cases hx : processVector (toVArg (Generated.nlLinPoint X U).1) G.n with
  | error e => simp [needArray, Except.bind, bind, Except.toOption]
  | ok ox =>
    cases ox with
    | none => simp [needArray, Except.bind, bind, Except.toOption]
    | some xl =>
      cases hu : processVector (toVArg (Generated.nlLinPoint X U).2) G.m with
      | error e => simp [needArray, Except.bind, bind, Except.toOption, pure, Except.pure]
      | ok ou =>
        cases ou with
        | none => simp [needArray, Except.bind, bind, Except.toOption, pure, Except.pure]
        | some ul =>
          obtain ⟨xv, hxv, hxl⟩ := vecOfList_ofFn G.n xl (C08.processVector_length _ _ _ hx)
          obtain ⟨uv, huv, hul⟩ := vecOfList_ofFn G.m ul (C08.processVector_length _ _ _ hu)
          simp only [needArray, Except.bind, bind, pure, Except.pure, hxv, huv]
          rw [← hxl, ← hul]
          exact generated_linearize_eq (G.build env) t xv uv eps he

/-- non-vacuity: `f = 2x + 3u + 9`, `h = 5x + 7u - 4` at `x = 1`, `u = 4`, `eps = 1/1000000`. -/
example : Generated.nlLinCore (K := ℚ)
    (fun _ x u => .ok [2 * x.headD 0 + 3 * u.headD 0 + 9]) (fun _ x u => .ok [5 * x.headD 0 + 7 * u.headD 0 - 4])
    1 0 (1 / 1000000) [1] 1 [4] 1 = .ok (⟨1, [[2]]⟩, ⟨1, [[3]]⟩, ⟨1, [[5]]⟩, ⟨1, [[7]]⟩) := by
  decide +kernel
/-- `eps = 0`: the difference quotient is `0/0` (NumPy: `nan`); rejected. -/
example : Generated.nlLinCore (K := ℚ)
    (fun _ x u => .ok [2 * x.headD 0 + 3 * u.headD 0]) (fun _ x u => .ok [5 * x.headD 0 + 7 * u.headD 0])
    1 0 0 [1] 1 [4] 1 = .error .zeroDen := by
  decide +kernel

end CtrlVerif.C08Gen
