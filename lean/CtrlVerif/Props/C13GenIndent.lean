/-
Source-text tie of C13, indentation and `P` / `Z` (DESIGN §10.3, notes/NOTES-py2lean-unwrap.md).

`Generated/NyqIndent.lean` and `Generated/NyqPZ.lean` are rewritten on every run of `check.py C13` by
`harness/core/py2lean_nyq.py` from the statements of `control/freqplot.py:nyquist_response` that
 * decide the side of an indentation (`nyquistIndentSign`: the unique `if / elif / else` whose bodies are
   `<contour>[<i>] += <offset>`, `-= <offset>`, `raise ValueError`),
 * indent the whole contour (`nyquistIndentContour`: the loop `for i, s in enumerate(splane_contour):`
   around that decision with its guard `if len(splane_poles) > 0:` — nearest pole by `argmin`, the test
   `abs(s - p) < indent_radius`, the offset `np.sqrt(r**2 - Im(s-p)**2) - Re(s-p)`),
 * count `P` and `Z` and test `Z != count + P` (`nyquistPZ`, `nyquistCriterionWarn`).
This file proves the model's `side`, `indentPoint` (`nearest`, `indentDecision`, `applyIndent`), `countP`,
`countZ`, `criterionOK` EQUAL to them and transports the indentation theorems of `Props/C13.lean`.
`np.sqrt` is the function of a `SqrtFn` (function + contract), as in the model.
-/
import CtrlVerif.Generated.NyqIndent
import CtrlVerif.Generated.NyqPZ
import CtrlVerif.Lemmas.PyNyq
import CtrlVerif.Props.C13

namespace CtrlVerif.C13Gen

open CtrlVerif CtrlVerif.Nyquist

variable {K : Type} [Field K] [LinearOrder K] [IsStrictOrderedRing K] [FloorRing K]

/-! ## the indentation decision -/

/-- **the `if / elif / else` that moves a contour point is the model's `side`**: for every nearest
pole `p` and every Python string `dir`, `+= offset` (`1`) is the model's `Side.right`, `-= offset`
(`-1`) is `Side.left`, `raise ValueError` is `badArg`. -/
theorem generated_indentSign_eq (p : K × K) (dir : String) :
    Generated.nyquistIndentSign p dir = (side (PyNyq.dirOfString dir) p.1).map PyNyq.sideSign := by
  unfold Generated.nyquistIndentSign side
  simp only [PyNyq.dirOfString_right_iff, PyNyq.dirOfString_left_iff]
  split_ifs <;> rfl

/-- `indent_side_right` for the source text: the point is moved to the right exactly for a pole in the
open left half plane, or on the axis with `indent_direction == 'right'`. -/
theorem generated_indent_right_iff (p : K × K) (dir : String) :
    Generated.nyquistIndentSign p dir = .ok 1 ↔ (p.1 < 0 ∨ (p.1 = 0 ∧ dir = "right")) := by
  rw [generated_indentSign_eq, ← PyNyq.dirOfString_right_iff, ← side_right_iff]
  cases h : side (PyNyq.dirOfString dir) p.1 with
  | error e => simp [Except.map]
  | ok sd => cases sd <;> simp [Except.map, PyNyq.sideSign]

/-- `indent_side_left` for the source text. -/
theorem generated_indent_left_iff (p : K × K) (dir : String) :
    Generated.nyquistIndentSign p dir = .ok (-1) ↔ (0 < p.1 ∨ (p.1 = 0 ∧ dir = "left")) := by
  rw [generated_indentSign_eq, ← PyNyq.dirOfString_left_iff, ← side_left_iff]
  cases h : side (PyNyq.dirOfString dir) p.1 with
  | error e => simp [Except.map]
  | ok sd => cases sd <;> simp [Except.map, PyNyq.sideSign]

/-- `indent_side_raises` for the source text: `ValueError` exactly for a pole on the axis with a
direction that is neither `'right'` nor `'left'`. -/
theorem generated_indent_raises_iff (p : K × K) (dir : String) :
    Generated.nyquistIndentSign p dir = .error .badArg ↔ (p.1 = 0 ∧ dir ≠ "right" ∧ dir ≠ "left") := by
  rw [generated_indentSign_eq, Ne, Ne, ← PyNyq.dirOfString_right_iff, ← PyNyq.dirOfString_left_iff,
    ← side_error_iff]
  cases h : side (PyNyq.dirOfString dir) p.1 with
  | error e => simp [Except.map]
  | ok sd => simp [Except.map]

/-- the generated decision returns nothing but `1`, `-1` or `badArg`. -/
theorem generated_indent_range (p : K × K) (dir : String) :
    Generated.nyquistIndentSign p dir = .ok 1 ∨ Generated.nyquistIndentSign p dir = .ok (-1) ∨
      Generated.nyquistIndentSign p dir = .error .badArg := by
  unfold Generated.nyquistIndentSign
  split_ifs <;> simp

example : Generated.nyquistIndentSign ((-1 : ℚ), 2) "left" = .ok 1 := by decide +kernel
example : Generated.nyquistIndentSign ((0 : ℚ), 2) "left" = .ok (-1) := by decide +kernel
example : Generated.nyquistIndentSign ((0 : ℚ), 2) "none" = .error .badArg := by decide +kernel

/-! ## the indentation loop -/

/-- **the indentation loop of the source text is the model's `indentPoint` on every contour point**:
all pole lists (the guard `len(splane_poles) > 0` included: no poles, nothing moves), every contour, every
direction string, every radius `r ≥ 0` (for `r < 0` the code's `abs(s - p) < r` is never true while the
model compares squares), `np.sqrt` any function with the contract of `SqrtFn`.  Inside: `argmin` (first
entry at minimal distance, by a left-to-right scan) = the model's recursive `nearest`; `abs(s-p) < r` =
`normSq (s-p) < r²`; `x ** 2` = `x * x`; the `if / elif / else` = `side`; `+= offset` / `-= offset` =
`applyIndent`. -/
theorem generated_indentContour_eq (S : SqrtFn K) {r : K} (hr : 0 ≤ r) (dir : String)
    (poles contour : List (K × K)) :
    Generated.nyquistIndentContour S.sqrt r dir poles contour =
      contour.mapM (indentPoint S r (PyNyq.dirOfString dir) poles) := by
  unfold Generated.nyquistIndentContour
  by_cases hne : poles = []
  · subst hne
    simp only [List.length_nil, Nat.cast_zero, lt_self_iff_false, if_false]
    rw [← PyNyq.mapM_pure' contour]
    apply PyNyq.mapM_congr'
    intro s _
    simp [indentPoint, indentDecision, nearest, applyIndent, Except.map, pure, Except.pure]
  · have hlen : (0 : Int) < ((List.length poles : Nat) : Int) := by
      have := List.length_pos_iff.2 hne
      omega
    rw [if_pos hlen]
    apply PyNyq.mapM_congr'
    intro s _
    obtain ⟨p, hp⟩ := nearest_isSome (s := s) hne
    have hn : PyNyq.nearestTo poles s = .ok p := by rw [PyNyq.nearestTo_eq, hp]
    simp only [hn, PyArith.ok_bind]
    unfold indentPoint indentDecision
    simp only [hp]
    by_cases hlt : normSq (s - p) < r * r
    · have ha : PyNyq.absLt (PyNyq.csub s p) r := (PyNyq.absLt_iff hr s p).2 hlt
      simp only [ha, hlt, if_true]
      unfold side
      simp only [PyNyq.dirOfString_right_iff, PyNyq.dirOfString_left_iff]
      split_ifs <;>
        simp [PyNyq.caddR, PyNyq.csubR, PyNyq.csub, applyIndent, Except.map, pow_two, bind, Except.bind, pure,
          Except.pure]
    · have ha : ¬ PyNyq.absLt (PyNyq.csub s p) r := fun h => hlt ((PyNyq.absLt_iff hr s p).1 h)
      simp [ha, hlt, applyIndent, Except.map, pure, Except.pure, bind, Except.bind]

/-- one contour point. -/
theorem generated_indentContour_point (S : SqrtFn K) {r : K} (hr : 0 ≤ r) (dir : String)
    (poles : List (K × K)) (s : K × K) :
    Generated.nyquistIndentContour S.sqrt r dir poles [s] =
      (indentPoint S r (PyNyq.dirOfString dir) poles s).map fun z => [z] := by
  rw [generated_indentContour_eq S hr]
  cases h : indentPoint S r (PyNyq.dirOfString dir) poles s <;>
    simp [List.mapM_cons, h, Except.map, bind, Except.bind, pure, Except.pure]

/-- the loop keeps the number of contour points. -/
theorem generated_indentContour_length (S : SqrtFn K) {r : K} (hr : 0 ≤ r) (dir : String)
    (poles contour out : List (K × K))
    (h : Generated.nyquistIndentContour S.sqrt r dir poles contour = .ok out) :
    out.length = contour.length := by
  rw [generated_indentContour_eq S hr] at h
  exact PyNyq.mapM_length _ _ _ h

/-- `indent_unmoved_far`, `indent_avoids_right`, `indent_avoids_left` for the source text (contour point
on the imaginary axis): whatever the loop of the tree under check does to a point, either the point is not
moved and every pole is at distance `≥ r`, or it is moved to the right of the nearest pole `p` (a pole
with `Re p < 0`, or on the axis with direction `'right'`) to distance exactly `r`, or to the left of it
(`Re p > 0`, or on the axis with `'left'`) to distance `≥ r`; the imaginary part is kept. -/
theorem generated_indent_point_avoids (S : SqrtFn K) {r : K} (hr : 0 ≤ r) (dir : String)
    (poles : List (K × K)) (s s' : K × K) (hs0 : s.1 = 0)
    (h : Generated.nyquistIndentContour S.sqrt r dir poles [s] = .ok [s']) :
    (s' = s ∧ ∀ q ∈ poles, r * r ≤ normSq (s - q)) ∨
    (∃ p, nearest s poles = some p ∧ (p.1 < 0 ∨ (p.1 = 0 ∧ dir = "right")) ∧
      p.1 ≤ s'.1 ∧ s'.2 = s.2 ∧ normSq (s' - p) = r * r) ∨
    (∃ p, nearest s poles = some p ∧ (0 < p.1 ∨ (p.1 = 0 ∧ dir = "left")) ∧
      s'.1 ≤ p.1 ∧ s'.2 = s.2 ∧ r * r ≤ normSq (s' - p)) := by
  rw [generated_indentContour_point S hr, indentPoint] at h
  cases hd : indentDecision r (PyNyq.dirOfString dir) poles s with
  | error e => simp [hd, Except.map] at h
  | ok d =>
    simp only [hd, Except.map, Except.ok.injEq, List.cons.injEq, and_true] at h
    subst h
    match d, hd with
    | none, hd => exact Or.inl ⟨rfl, C13.indent_unmoved_far r _ poles s hd⟩
    | some (.right, q, dx), hd =>
      obtain ⟨p, hp, hside, h1, h2, h3⟩ := C13.indent_avoids_right S r _ poles s q dx hd
      rw [PyNyq.dirOfString_right_iff] at hside
      exact Or.inr (Or.inl ⟨p, hp, hside, h1, h2, h3⟩)
    | some (.left, q, dx), hd =>
      obtain ⟨p, hp, hside, h1, h2, h3⟩ := C13.indent_avoids_left S r _ poles s hs0 q dx hd
      rw [PyNyq.dirOfString_left_iff] at hside
      exact Or.inr (Or.inr ⟨p, hp, hside, h1, h2, h3⟩)


/-! ## `P`, `Z` and the consistency warning -/

/-- **the statement counting `P` and `Z` is the model's `countP` / `countZ`**: every timebase class,
every direction string, all pole lists (`np.abs(z) > 1` as `re² + im² > 1`). -/
theorem generated_PZ_eq (ctime : Bool) (dir : String) (poles clpoles : List (K × K)) :
    Generated.nyquistPZ ctime dir poles clpoles =
      .ok ((countP ctime (PyNyq.dirOfString dir) poles : ℤ), (countZ ctime clpoles : ℤ)) := by
  unfold Generated.nyquistPZ countP countZ
  simp only [PyNyq.dirOfString_right_iff, PyNyq.countTrue_gtS_real, PyNyq.countTrue_geS_real,
    PyNyq.countTrue_absGtS_one, PyNyq.countTrue_absGeS_one]
  cases ctime <;> by_cases hd : dir = "right" <;> simp [hd] <;> rfl

/-- **the test of the consistency warning is the negation of the model's `criterionOK`** (when warnings
are on). -/
theorem generated_criterionWarn_eq (Z P : ℕ) (cnt : ℤ) (warn : Bool) :
    Generated.nyquistCriterionWarn Z cnt P warn = (warn && !criterionOK Z cnt P) := by
  unfold Generated.nyquistCriterionWarn criterionOK
  cases warn <;> simp

/-- `criterion_iff` for the source text: with warnings on, the warning is issued iff `count ≠ Z - P`. -/
theorem generated_criterionWarn_iff (Z P : ℕ) (cnt : ℤ) :
    Generated.nyquistCriterionWarn Z cnt P true = true ↔ cnt ≠ (Z : ℤ) - P := by
  rw [generated_criterionWarn_eq, Bool.true_and, Bool.not_eq_true', ← Bool.not_eq_true, Ne,
    ← C13.criterion_iff]

/-- `countP_axis_pole` for the source text: a continuous-time pole exactly on the imaginary axis is
counted in `P` unless `indent_direction == 'right'`. -/
theorem generated_P_axis_pole (dir : String) (p : K × K) (hp : p.1 = 0) (poles clpoles : List (K × K)) :
    (Generated.nyquistPZ true dir (p :: poles) clpoles).map Prod.fst =
      (Generated.nyquistPZ true dir poles clpoles).map
        (fun x => x.1 + (if dir = "right" then 0 else 1)) := by
  rw [generated_PZ_eq, generated_PZ_eq, C13.countP_axis_pole _ p hp]
  simp only [Except.map, PyNyq.dirOfString_right_iff]
  split_ifs <;> simp

example : Generated.nyquistPZ true "right" [((0 : ℚ), 0), (1, 2), (-1, 0)] [(0, 1), (-2, 0)] = .ok (1, 1) := by
  decide +kernel
example : Generated.nyquistPZ true "left" [((0 : ℚ), 0), (1, 2), (-1, 0)] [(0, 1), (-2, 0)] = .ok (2, 1) := by
  decide +kernel
example : Generated.nyquistPZ false "right" [((3 : ℚ) / 5, 4 / 5), (1, 1)] [(0, 1), (1 / 2, 0)] = .ok (1, 1) := by
  decide +kernel
example : Generated.nyquistCriterionWarn 2 1 0 true = true := by decide
example : Generated.nyquistCriterionWarn 2 1 1 true = false := by decide


/-- non-vacuity: the example of `Props/C13.lean` (pole `-1/20 + 2j` inside the radius `1/10`) through the
generated loop with an exact square root on the one radicand that occurs; no poles: nothing moves;
an axis pole with an unknown direction raises. -/
example : Generated.nyquistIndentContour (fun x : ℚ => if x = 1/100 then 1/10 else 0) (1/10) "right"
    [(0, 0), (-1/20, 2)] [(0, 2), (0, 5)] = .ok [(1/20, 2), (0, 5)] := by decide +kernel
example : Generated.nyquistIndentContour (fun x : ℚ => x) (1/10) "right" [] [(0, 2), (0, 5)] =
    .ok [(0, 2), (0, 5)] := by decide +kernel
example : Generated.nyquistIndentContour (fun x : ℚ => x) (1/10) "none" [(0, 2)] [(0, 2), (0, 5)] =
    .error .badArg := by decide +kernel

end CtrlVerif.C13Gen
