/-
Source-text tie of C15, part 5: `model_reduction` (control/modelsimp.py).
`Generated/CanonReduce.lean` is rewritten from the source text on every run; the run-time model
`DSS.modelReduction` (`Model/CanonicalDyn.lean`, built on the typed `SS.truncate`, `SS.matchdc`,
`SS.select`, the definitions `C15.truncate_keeps / matchdc_dcgain` are about) is proved EQUAL to the
generated function for every system, all label lists of the right lengths, all six keep / elim keys of
the model, every `method` string and `fuel ≥ 2` — up to which invalid key is reported
(`C15GenKeys`).  Proved on the way: NumPy integer-array indexing `X[:, l][l', :]` with the processed
lists is `submatrix` along the model's index functions; `A22.size > 0` is "something is eliminated";
`sys.isdtime(strict=True)` is the model's `isDiscreteStrict`; `matrix_rank(A22) != len(elim)` is
`det A22 = 0`; `solve(A22, [A21 B2])` cut at `A21.shape[1]` is `(A22⁻¹ A21, A22⁻¹ B2)`; the final
selections are `SS.select`.  `truncate_keeps` and `matchdc_dcgain` are transported to the function the
source text defines.
-/
import CtrlVerif.Generated.CanonReduce
import CtrlVerif.Props.C15GenKeys

namespace CtrlVerif.C15Gen

open Matrix CtrlVerif PyCanon Reduce

variable {K : Type} [Field K] [DecidableEq K]

theorem generated_model_reduction_eq (G : DSS K) (sl il ol : List String) (es ks ei ki eo ko : Key)
    (method : String) (w : Bool) (fuel : Nat)
    (hs : sl.length = G.n) (hi : il.length = G.m) (ho : ol.length = G.p) :
    (Generated.modelReduction (fuel + 2) G sl il ol (toPy es) method (toPy ei) (toPy eo) (toPy ks) (toPy ki)
        (toPy ko) w).mapError keyErr
      = (DSS.modelReduction G sl il ol es ks ei ki eo ko (methodOf method)).mapError keyErr := by
  obtain ⟨n, p, m, ⟨A, B, C, D⟩, dt⟩ := G
  simp only at hs hi ho
  subst hs hi ho
  unfold Generated.modelReduction DSS.modelReduction
  simp only [ne_eq, not_true_eq_false, or_self, ↓reduceIte, bind]
  refine mapError_bind_congr keyErr (fun r => (castL r.1, castL r.2))
    (generated_processElimOrKeep_eq sl fuel es ks) ?_
  rintro ⟨elimS, keepS⟩ h1
  refine mapError_bind_congr keyErr (fun r => (castL r.1, castL r.2))
    (generated_processElimOrKeep_eq il fuel ei ki) ?_
  rintro ⟨elimI, keepI⟩ h2
  refine mapError_bind_congr keyErr (fun r => (castL r.1, castL r.2))
    (generated_processElimOrKeep_eq ol fuel eo ko) ?_
  rintro ⟨elimO, keepO⟩ h3
  congr 1
  obtain ⟨-, -, hES, hKS, -⟩ := processElimKeep_partition sl es ks elimS keepS h1
  obtain ⟨-, -, -, hKI, -⟩ := processElimKeep_partition il ei ki elimI keepI h2
  obtain ⟨-, -, -, hKO, -⟩ := processElimKeep_partition ol eo ko elimO keepO h3
  simp only [PySS.A, PySS.B, PySS.C, PySS.D]
  rw [dif_pos ⟨hES, hKS, hKI, hKO⟩]
  have hr : ∀ F : Matrix (Fin elimS.length) (Fin elimS.length) K,
      (¬ (⟨elimS.length, elimS.length, F⟩ : PMat K).rank = elimS.length) ↔ F.det = 0 :=
    fun F => PMat.rank_mk_ne_iff F
  simp only [takeCols_castL _ _ _ _ hKS, takeCols_castL _ _ _ _ hES, takeRows_castL _ _ _ _ hKS,
    takeRows_castL _ _ _ _ hES, Except.bind, size_sq_pos, size_sq_zero, methodOf_matchdc, methodOf_truncate,
    isdtime_strict, castL_length, hr, certInv_eq, Mat.ofTab_tab']
  by_cases hm : method = "matchdc" ∧ ¬ elimS = []
  · rw [if_pos hm, if_pos hm]
    by_cases hdt : DSS.isDiscreteStrict dt = true
    · rw [if_pos hdt, if_pos hdt]
      rfl
    · rw [if_neg hdt, if_neg hdt]
      simp only [Matrix.submatrix_submatrix, Function.comp_id, Function.id_comp]
      by_cases hd : (A.submatrix (idxFn sl.length elimS hES) (idxFn sl.length elimS hES)).det = 0
      · simp only [hd, ↓reduceIte]
        rfl
      · simp only [hd, ↓reduceIte, PMat.hcat_mk, PMat.solve_mk, PMat.sliceCols_prefix, PMat.sliceCols_suffix,
          PMat.mul_submatrix_cols, PMat.hcat_castAdd, PMat.hcat_natAdd, PMat.matmul_mk, PMat.sub_mk, pure,
          Except.pure, takeCols_castL _ _ _ _ hKI, takeRows_castL _ _ _ _ hKO, PySS.mk_mk, SS.matchdc, SS.select,
          PMat.inverse_eq_invQ]
        simp only [Matrix.submatrix_submatrix, Function.comp_id, Function.id_comp]
  · rw [if_neg hm, if_neg hm]
    by_cases ht : method = "truncate" ∨ elimS = []
    · rw [if_pos ht, if_pos ht]
      simp only [pure, Except.pure, takeCols_castL _ _ _ _ hKI, takeRows_castL _ _ _ _ hKO, PySS.mk_mk,
        SS.truncate, SS.select, Matrix.submatrix_submatrix, Function.comp_id, Function.id_comp]
    · rw [if_neg ht, if_neg ht]
      rfl

/-- the function the source text defines returns exactly when the model does, and then the same
system. -/
theorem generated_model_reduction_ok_iff (G : DSS K) (sl il ol : List String) (es ks ei ki eo ko : Key)
    (method : String) (w : Bool) (fuel : Nat)
    (hs : sl.length = G.n) (hi : il.length = G.m) (ho : ol.length = G.p) (R : DSS K) :
    Generated.modelReduction (fuel + 2) G sl il ol (toPy es) method (toPy ei) (toPy eo) (toPy ks) (toPy ki)
        (toPy ko) w = .ok R
      ↔ DSS.modelReduction G sl il ol es ks ei ki eo ko (methodOf method) = .ok R := by
  have h := generated_model_reduction_eq G sl il ol es ks ei ki eo ko method w fuel hs hi ho
  cases hg : Generated.modelReduction (fuel + 2) G sl il ol (toPy es) method (toPy ei) (toPy eo) (toPy ks)
      (toPy ki) (toPy ko) w with
  | error a =>
    cases hm : DSS.modelReduction G sl il ol es ks ei ki eo ko (methodOf method) with
    | error b => simp
    | ok r => simp [hg, hm, Except.mapError] at h
  | ok r =>
    cases hm : DSS.modelReduction G sl il ol es ks ei ki eo ko (methodOf method) with
    | error b => simp [hg, hm, Except.mapError] at h
    | ok r' =>
      simp only [hg, hm, Except.mapError, Except.ok.injEq] at h
      subst h
      rfl

/-- what the model returns, in closed form: the processed lists, and truncation or
residualisation (with THE inverse of `A22`) followed by the input / output selection. -/
theorem modelReduction_ok_cases (G : DSS K) (sl il ol : List String) (es ks ei ki eo ko : Key) (mt : Method)
    (R : DSS K) (hR : DSS.modelReduction G sl il ol es ks ei ki eo ko mt = .ok R) :
    ∃ elimS keepS elimI keepI elimO keepO,
      processElimKeep sl es ks = .ok (elimS, keepS) ∧ processElimKeep il ei ki = .ok (elimI, keepI)
      ∧ processElimKeep ol eo ko = .ok (elimO, keepO)
      ∧ ∃ (hES : ∀ x ∈ elimS, x < G.n) (hKS : ∀ x ∈ keepS, x < G.n) (hKI : ∀ x ∈ keepI, x < G.m)
          (hKO : ∀ x ∈ keepO, x < G.p),
        (mt = .matchdc ∧ elimS ≠ [] →
          DSS.isDiscreteStrict G.dt = false
          ∧ (G.sys.A.submatrix (idxFn G.n elimS hES) (idxFn G.n elimS hES)).det ≠ 0
          ∧ R = ⟨keepS.length, keepO.length, keepI.length,
              ((G.sys.matchdc (idxFn G.n keepS hKS) (idxFn G.n elimS hES)
                (SS.invQ (G.sys.A.submatrix (idxFn G.n elimS hES) (idxFn G.n elimS hES)))).select
                  (idxFn G.p keepO hKO) (idxFn G.m keepI hKI)), G.dt⟩)
        ∧ (¬ (mt = .matchdc ∧ elimS ≠ []) →
          (mt = .truncate ∨ elimS = [])
          ∧ R = ⟨keepS.length, keepO.length, keepI.length,
              ((G.sys.truncate (idxFn G.n keepS hKS)).select (idxFn G.p keepO hKO) (idxFn G.m keepI hKI)),
              G.dt⟩) := by
  unfold DSS.modelReduction at hR
  simp only [bind, Except.bind] at hR
  split at hR
  · simp at hR
  · cases h1 : processElimKeep sl es ks with
    | error e => simp [h1] at hR
    | ok r1 =>
      obtain ⟨elimS, keepS⟩ := r1
      cases h2 : processElimKeep il ei ki with
      | error e => simp [h1, h2] at hR
      | ok r2 =>
        obtain ⟨elimI, keepI⟩ := r2
        cases h3 : processElimKeep ol eo ko with
        | error e => simp [h1, h2, h3] at hR
        | ok r3 =>
          obtain ⟨elimO, keepO⟩ := r3
          refine ⟨elimS, keepS, elimI, keepI, elimO, keepO, rfl, rfl, rfl, ?_⟩
          simp only [h1, h2, h3] at hR
          split at hR
          · rename_i hall
            refine ⟨hall.1, hall.2.1, hall.2.2.1, hall.2.2.2, ?_, ?_⟩
            · intro hm
              rw [if_pos hm] at hR
              cases hdt : DSS.isDiscreteStrict G.dt with
              | true => simp [hdt] at hR
              | false =>
                simp only [hdt, Bool.false_eq_true, ↓reduceIte, certInv_eq, Mat.ofTab_tab'] at hR
                by_cases hd : (G.sys.A.submatrix (idxFn G.n elimS hall.1) (idxFn G.n elimS hall.1)).det = 0
                · simp [hd] at hR
                · simp only [hd, ↓reduceIte, pure, Except.pure, Except.ok.injEq] at hR
                  exact ⟨rfl, hd, hR.symm⟩
            · intro hm
              rw [if_neg hm] at hR
              by_cases ht : mt = .truncate ∨ elimS = []
              · simp only [ht, ↓reduceIte, pure, Except.pure, Mat.ofTab_tab', Except.ok.injEq] at hR
                exact ⟨ht, hR.symm⟩
              · simp [ht] at hR
          · simp at hR

/-- converse of `modelReduction_ok_cases`: the model returns when the three pairs of keys are valid
and the method can be applied. -/
theorem modelReduction_ok_of (G : DSS K) (sl il ol : List String) (es ks ei ki eo ko : Key) (mt : Method)
    (hs : sl.length = G.n) (hi : il.length = G.m) (ho : ol.length = G.p)
    (elimS keepS elimI keepI elimO keepO : List Nat)
    (h1 : processElimKeep sl es ks = .ok (elimS, keepS)) (h2 : processElimKeep il ei ki = .ok (elimI, keepI))
    (h3 : processElimKeep ol eo ko = .ok (elimO, keepO))
    (hM : mt = .matchdc ∧ elimS ≠ [] → DSS.isDiscreteStrict G.dt = false
      ∧ ∀ hES : ∀ x ∈ elimS, x < G.n, (G.sys.A.submatrix (idxFn G.n elimS hES) (idxFn G.n elimS hES)).det ≠ 0)
    (hT : ¬ (mt = .matchdc ∧ elimS ≠ []) → mt = .truncate ∨ elimS = []) :
    ∃ R, DSS.modelReduction G sl il ol es ks ei ki eo ko mt = .ok R := by
  obtain ⟨n, p, m, S, dt⟩ := G
  simp only at hs hi ho
  subst hs hi ho
  obtain ⟨-, -, hES, hKS, -⟩ := processElimKeep_partition sl es ks elimS keepS h1
  obtain ⟨-, -, -, hKI, -⟩ := processElimKeep_partition il ei ki elimI keepI h2
  obtain ⟨-, -, -, hKO, -⟩ := processElimKeep_partition ol eo ko elimO keepO h3
  unfold DSS.modelReduction
  simp only [ne_eq, not_true_eq_false, or_self, ↓reduceIte, bind, Except.bind, h1, h2, h3]
  rw [dif_pos ⟨hES, hKS, hKI, hKO⟩]
  by_cases hm : mt = .matchdc ∧ elimS ≠ []
  · obtain ⟨hdt, hd⟩ := hM hm
    have hm' : mt = .matchdc ∧ ¬ elimS = [] := hm
    simp only [hm', and_self, not_false_eq_true, ↓reduceIte, hdt, Bool.false_eq_true, certInv_eq, Mat.ofTab_tab',
      hd hES, pure, Except.pure]
    exact ⟨_, rfl⟩
  · have ht := hT hm
    have hm' : ¬ (mt = .matchdc ∧ ¬ elimS = []) := hm
    simp only [hm', ↓reduceIte, ht, pure, Except.pure]
    exact ⟨_, rfl⟩

/-- **`truncate_keeps` of the function the source text defines**: whenever
`model_reduction(G, …, method='truncate')` returns `R`, the matrices of `R` are exactly the entries of
`G` at the kept states / inputs / outputs — `keepS, keepI, keepO` being the processed lists
(ascending, duplicate free, a partition with the eliminated ones: `keep_elim_partition`), whatever
the spelling of the six keep / elim arguments; the timebase is unchanged. -/
theorem generated_truncate_keeps (G : DSS K) (sl il ol : List String) (es ks ei ki eo ko : Key)
    (w : Bool) (fuel : Nat) (hs : sl.length = G.n) (hi : il.length = G.m) (ho : ol.length = G.p) (R : DSS K)
    (hR : Generated.modelReduction (fuel + 2) G sl il ol (toPy es) "truncate" (toPy ei) (toPy eo) (toPy ks)
        (toPy ki) (toPy ko) w = .ok R) :
    ∃ elimS keepS elimI keepI elimO keepO,
      processElimKeep sl es ks = .ok (elimS, keepS) ∧ processElimKeep il ei ki = .ok (elimI, keepI)
      ∧ processElimKeep ol eo ko = .ok (elimO, keepO)
      ∧ ∃ (hKS : ∀ x ∈ keepS, x < G.n) (hKI : ∀ x ∈ keepI, x < G.m) (hKO : ∀ x ∈ keepO, x < G.p)
          (S : SS (Fin keepS.length) (Fin keepI.length) (Fin keepO.length) K),
        R = ⟨keepS.length, keepO.length, keepI.length, S, G.dt⟩
        ∧ (∀ i j, S.A i j = G.sys.A (idxFn G.n keepS hKS i) (idxFn G.n keepS hKS j))
        ∧ (∀ i j, S.B i j = G.sys.B (idxFn G.n keepS hKS i) (idxFn G.m keepI hKI j))
        ∧ (∀ i j, S.C i j = G.sys.C (idxFn G.p keepO hKO i) (idxFn G.n keepS hKS j))
        ∧ (∀ i j, S.D i j = G.sys.D (idxFn G.p keepO hKO i) (idxFn G.m keepI hKI j)) := by
  rw [generated_model_reduction_ok_iff G sl il ol es ks ei ki eo ko "truncate" w fuel hs hi ho] at hR
  obtain ⟨elimS, keepS, elimI, keepI, elimO, keepO, h1, h2, h3, hES, hKS, hKI, hKO, -, hT⟩ :=
    modelReduction_ok_cases G sl il ol es ks ei ki eo ko _ R hR
  have hmt : methodOf "truncate" = Method.truncate := by decide
  obtain ⟨-, rfl⟩ := hT (by rw [hmt]; rintro ⟨h, -⟩; cases h)
  exact ⟨elimS, keepS, elimI, keepI, elimO, keepO, h1, h2, h3, hKS, hKI, hKO, _, rfl,
    fun _ _ => rfl, fun _ _ => rfl, fun _ _ => rfl, fun _ _ => rfl⟩

/-- **`matchdc_dcgain` of the function the source text defines**: whenever
`model_reduction(G, …, method='matchdc')` returns `R` and `Y` is the value of the transfer matrix of
`G` at `s = 0`, the value of `R` at `s = 0` is `Y` restricted to the kept outputs and inputs — the DC
gain is preserved, for every spelling of the keep / elim arguments (also when nothing is
eliminated). -/
theorem generated_matchdc_dcgain (G : DSS K) (sl il ol : List String) (es ks ei ki eo ko : Key)
    (w : Bool) (fuel : Nat) (hs : sl.length = G.n) (hi : il.length = G.m) (ho : ol.length = G.p) (R : DSS K)
    (hR : Generated.modelReduction (fuel + 2) G sl il ol (toPy es) "matchdc" (toPy ei) (toPy eo) (toPy ks)
        (toPy ki) (toPy ko) w = .ok R) {Y : Matrix (Fin G.p) (Fin G.m) K} (hY : G.sys.Resp 0 Y) :
    ∃ elimI keepI elimO keepO,
      processElimKeep il ei ki = .ok (elimI, keepI) ∧ processElimKeep ol eo ko = .ok (elimO, keepO)
      ∧ ∃ (hKI : ∀ x ∈ keepI, x < G.m) (hKO : ∀ x ∈ keepO, x < G.p),
        R.Resp 0 keepO.length keepI.length (Y.submatrix (idxFn G.p keepO hKO) (idxFn G.m keepI hKI)) := by
  rw [generated_model_reduction_ok_iff G sl il ol es ks ei ki eo ko "matchdc" w fuel hs hi ho] at hR
  obtain ⟨n, p, m, S, dt⟩ := G
  simp only at hs hi ho
  subst hs hi ho
  obtain ⟨elimS, keepS, elimI, keepI, elimO, keepO, h1, h2, h3, hES, hKS, hKI, hKO, hM, hT⟩ :=
    modelReduction_ok_cases _ sl il ol es ks ei ki eo ko _ R hR
  have hmt : methodOf "matchdc" = Method.matchdc := by decide
  refine ⟨elimI, keepI, elimO, keepO, h2, h3, hKI, hKO, ?_⟩
  have hbij := C15.keep_elim_bijective sl es ks elimS keepS h1 hKS hES
  by_cases hne : elimS = []
  · subst hne
    obtain ⟨-, rfl⟩ := hT (by rintro ⟨-, h⟩; exact h rfl)
    rw [DSS.Resp_mk, ← matchdc_nil_eq_truncate S keepS hKS hES 1]
    exact C15.matchdc_select_dcgain S _ _ hbij 1 (by ext i j; exact Fin.elim0 i) _ _ hY
  · obtain ⟨-, hd, rfl⟩ := hM ⟨hmt, hne⟩
    rw [DSS.Resp_mk]
    exact C15.matchdc_select_dcgain S _ _ hbij _ (invQ_two_sided _ hd).1 _ _ hY

/-- the branches that refuse: `'matchdc'` on a strictly discrete-time system, or with a singular
`A22`, returns only if nothing is eliminated / `A22` is invertible; an unknown method returns only
if nothing is eliminated. -/
theorem generated_model_reduction_refusals (G : DSS K) (sl il ol : List String) (es ks ei ki eo ko : Key)
    (method : String) (w : Bool) (fuel : Nat) (hs : sl.length = G.n) (hi : il.length = G.m)
    (ho : ol.length = G.p) (R : DSS K)
    (hR : Generated.modelReduction (fuel + 2) G sl il ol (toPy es) method (toPy ei) (toPy eo) (toPy ks)
        (toPy ki) (toPy ko) w = .ok R) :
    ∃ elimS keepS, processElimKeep sl es ks = .ok (elimS, keepS)
      ∧ (method = "matchdc" → elimS ≠ [] → DSS.isDiscreteStrict G.dt = false
          ∧ ∃ hES : ∀ x ∈ elimS, x < G.n,
              (G.sys.A.submatrix (idxFn G.n elimS hES) (idxFn G.n elimS hES)).det ≠ 0)
      ∧ (method ≠ "matchdc" → method ≠ "truncate" → elimS = []) := by
  rw [generated_model_reduction_ok_iff G sl il ol es ks ei ki eo ko method w fuel hs hi ho] at hR
  obtain ⟨elimS, keepS, elimI, keepI, elimO, keepO, h1, _, _, hES, _hKS, _hKI, _hKO, hM, hT⟩ :=
    modelReduction_ok_cases G sl il ol es ks ei ki eo ko _ R hR
  refine ⟨elimS, keepS, h1, ?_, ?_⟩
  · intro hm hne
    obtain ⟨hdt, hd, -⟩ := hM ⟨(methodOf_matchdc method).mpr hm, hne⟩
    exact ⟨hdt, hES, hd⟩
  · intro hm ht
    have h1' : ¬ (methodOf method = .matchdc ∧ elimS ≠ []) := fun h => hm ((methodOf_matchdc method).mp h.1)
    obtain ⟨h2, -⟩ := hT h1'
    rcases h2 with h2 | h2
    · exact absurd ((methodOf_truncate method).mp h2) ht
    · exact h2

/-- non-vacuity (ℚ): `A = [[-1, 1], [0, -3]]`, `B = (0, 1)`, `C = (1, 0)`, `D = 2`, states `a b`;
`model_reduction(G, elim_states=1)` as the source text defines it returns with both methods
(`A22 = -3`), and with `keep_states='a'` as well. -/
example :
    (∃ R, Generated.modelReduction (K := ℚ) 2 ⟨2, 1, 1, ⟨!![-1, 1; 0, -3], !![0; 1], !![1, 0], !![2]⟩, .cont⟩
        ["a", "b"] ["u"] ["y"] (toPy (.atom (.idx 1))) "matchdc" (toPy .none) (toPy .none) (toPy .none)
        (toPy .none) (toPy .none) true = .ok R)
    ∧ (∃ R, Generated.modelReduction (K := ℚ) 2 ⟨2, 1, 1, ⟨!![-1, 1; 0, -3], !![0; 1], !![1, 0], !![2]⟩, .cont⟩
        ["a", "b"] ["u"] ["y"] (toPy .none) "truncate" (toPy .none) (toPy .none) (toPy (.atom (.name "a")))
        (toPy .none) (toPy .none) true = .ok R) := by
  have hc1 : canonIdx [1] = [1] := canonIdx_eq_of_sorted _ _ (by decide) (fun x => by simp)
  have hc0 : canonIdx [0] = [0] := canonIdx_eq_of_sorted _ _ (by decide) (fun x => by simp)
  have hcn : canonIdx [] = [] := by simp [canonIdx]
  have hnn : ∀ labels : List String, processElimKeep labels .none .none
      = .ok ([], List.range labels.length) := by
    intro labels
    simp [processElimKeep, expandKey, bind, Except.bind, pure, Except.pure, hcn, complIdx]
  have he : processElimKeep ["a", "b"] (.atom (.idx 1)) .none = .ok ([1], [0]) := by
    have hm : [(1 : Int)].mapM (normIdx 2) = .ok [1] := by decide
    simp only [processElimKeep, expandKey, resolveAtom, bind, Except.bind, pure, Except.pure, List.length_cons,
      List.length_nil]
    simp [hm, hc1, complIdx]
    decide
  have hk : processElimKeep ["a", "b"] .none (.atom (.name "a")) = .ok ([1], [0]) := by
    have hm : [(0 : Int)].mapM (normIdx 2) = .ok [0] := by decide
    have h2 : List.idxOf "a" ["a", "b"] = 0 := by decide
    simp only [processElimKeep, expandKey, resolveAtom, bind, Except.bind, pure, Except.pure, List.length_cons,
      List.length_nil, h2]
    simp [hm, hc0, complIdx]
    decide
  constructor
  · obtain ⟨R, hR⟩ := modelReduction_ok_of (K := ℚ) ⟨2, 1, 1, ⟨!![-1, 1; 0, -3], !![0; 1], !![1, 0], !![2]⟩, .cont⟩
      ["a", "b"] ["u"] ["y"] (.atom (.idx 1)) .none .none .none .none .none (methodOf "matchdc") rfl rfl rfl
      [1] [0] [] [0] [] [0] he (hnn _) (hnn _)
      (fun _ => ⟨rfl, fun hES => by
        have hA : (!![-1, 1; 0, -3] : Matrix (Fin 2) (Fin 2) ℚ).submatrix (idxFn 2 [1] hES) (idxFn 2 [1] hES)
            = fun _ _ => -3 := by
          ext i j
          have hi : i = ⟨0, by simp⟩ := Fin.ext (by
            have := i.isLt
            simp only [List.length_cons, List.length_nil, Nat.zero_add, Nat.lt_one_iff] at this
            exact this)
          have hj : j = ⟨0, by simp⟩ := Fin.ext (by
            have := j.isLt
            simp only [List.length_cons, List.length_nil, Nat.zero_add, Nat.lt_one_iff] at this
            exact this)
          subst hi hj
          rfl
        rw [hA]
        have : (Matrix.det (fun (_ _ : Fin [1].length) => (-3 : ℚ))) = -3 := Matrix.det_fin_one _
        rw [this]
        norm_num⟩)
      (fun h => absurd ⟨by decide, by simp⟩ h)
    exact ⟨R, (generated_model_reduction_ok_iff _ _ _ _ _ _ _ _ _ _ _ _ 0 rfl rfl rfl R).mpr hR⟩
  · obtain ⟨R, hR⟩ := modelReduction_ok_of (K := ℚ) ⟨2, 1, 1, ⟨!![-1, 1; 0, -3], !![0; 1], !![1, 0], !![2]⟩, .cont⟩
      ["a", "b"] ["u"] ["y"] .none (.atom (.name "a")) .none .none .none .none (methodOf "truncate") rfl rfl rfl
      [1] [0] [] [0] [] [0] hk (hnn _) (hnn _)
      (fun h => absurd h.1 (by decide))
      (fun _ => Or.inl (by decide))
    exact ⟨R, (generated_model_reduction_ok_iff _ _ _ _ _ _ _ _ _ _ _ _ 0 rfl rfl rfl R).mpr hR⟩

end CtrlVerif.C15Gen
