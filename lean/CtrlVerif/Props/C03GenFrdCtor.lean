/-
Source-text tie of `FrequencyResponseData.__init__` and of the factory `frd` (control/frdata.py),
property C03.  `Generated/FrdCtor.lean` is rewritten from the source on every run
(harness/core/py2lean_frdctor.py); the theorems below prove the hand model of `frd(sys, omega)`
(`Convert.frdOfSys`, `Convert.frdMeta`, `Convert.frdDt`, the `frd` step of `Driver/Convert.lean`) EQUAL
to the generated constructor on the branch that samples an LTI system — for an arbitrary field, every
system (state space / transfer function, every shape, every timebase), every name and label set,
every frequency list (unsorted, repeated, empty) and every keyword override — and describe the other
branches of the dispatch on the argument count.
-/
import CtrlVerif.Generated.FrdCtor
import CtrlVerif.Lemmas.PyFRD
import CtrlVerif.Props.C03

set_option linter.unusedSimpArgs false
set_option linter.unusedVariables false

namespace CtrlVerif.C03GenFrdCtor

open CtrlVerif CtrlVerif.Convert

variable {K : Type} [Field K] [DecidableEq K]

/-! ### vocabulary of the statements -/

/-- the keyword overrides of the model as the constructor's `**kwargs` (no `dt=`, no `smooth=`). -/
def kwOf (kw : Kw) : PyKw := ⟨kw.name, kw.inputs, kw.outputs, none, none⟩

/-- the model's result of `frd(sys, omega)` as a Python object. -/
def objOf {n : Nat} (F : DFRD K n) (μ : Meta) (dt : Dt) : PyFrdObj K :=
  ⟨⟨n, F.sys.omega⟩, ⟨F.p, F.m, n, F.sys.data⟩, μ, dt, F.smooth⟩

/-- `sort(np.asarray(omega, dtype=float))` is the model's sorted grid. -/
theorem sort_ofList (ws : List ℚ) : FVec.sort (FVec.ofList ws) = FVec.ofList (sortedGrid ws) := by
  unfold FVec.sort sortedGrid
  congr 2
  simp [FVec.ofList]

/-! ### the branch that samples an LTI system -/

/-- **the LTI branch with EVERY tracked keyword** (`name inputs outputs dt smooth`): the model's `frd` step; a `dt=` keyword (or third
positional argument) is overridden by the timebase of the system unless that is `None`; `smooth=True`
needs two frequencies (checked after the evaluation, so a pole is reported first). -/
theorem generated_frdCtor_lti_kw_eq (E : Env K) (L : LTI K) (μ : Meta) (ws : List ℚ) (kw : PyKw) :
    Generated.frdCtor E [.sys L μ, .vec (FVec.ofList ws)] kw
      = (frdOfSys E L ws).bind fun F =>
          if kw.smooth.getD false = true ∧ (sortedGrid ws).length < 2 then .error .shape
          else .ok (objOf { F with smooth := kw.smooth.getD false } (frdMeta μ ⟨kw.name, kw.inputs, kw.outputs⟩)
                 (if L.dt = .none then kw.dt.getD .none else L.dt)) := by
  unfold frdOfSys
  have hsort := sort_ofList ws
  generalize sortedGrid ws = g at hsort ⊢
  generalize FVec.ofList ws = w at hsort ⊢
  have hn : w.n = g.length := by
    have := congrArg FVec.n hsort
    simpa [FVec.ofList] using this
  simp only [Generated.frdCtor]
  obtain ⟨kn, ki, ko, kd, ks⟩ := kw
  obtain ⟨nm, ins, outs⟩ := μ
  by_cases hg : (Meta.mk nm ins outs).isGeneric = true <;>
  rcases L with ⟨p, m, e, dt⟩ | ⟨ns, p, m, G, dt⟩ <;> cases dt <;>
    simp [hg, objOf, frdMeta, frdDt, Meta.converted, extName, DFRD.ofLTI, bind, Except.bind, pure, Except.pure,
      PyArgs.get, PyArgs.last, PyArgs.dropLast, PyArg.isFRD, PyArg.isLTI, PyArg.asVec, PyArg.isctime, PyLTI.isctime,
      PyArg.call, PyLTI.call, PyArg.dt_attr, PyArg.input_labels, PyArg.output_labels, PyArg.generic_name_check,
      PyArg.name, PyName.extended, PyKw.pop_smooth_val, PyKw.pop_smooth_rest, PyKw.set_inputs, PyKw.get_inputs,
      PyKw.set_outputs, PyKw.get_outputs, PyKw.set_name, PyKw.get_name, PyKw.set_dt, PyKw.has_dt,
      PyIOSys.initFrd, FVec.jw, FVec.expj, LTI.dt, freqPoint, common_self, Except.map, FRD.ofFun,
      LTI.p, LTI.m] <;>
    (try rw [hsort]) <;> simp only [FVec.ofList, Fin.getElem_fin, List.get_eq_getElem] <;>
    split_ifs with hs <;> simp [hs, hn, Except.map, objOf, FRD.ofFun, LTI.p, LTI.m] <;>
    cases kd <;> simp

/-- **`FrequencyResponseData(sys, omega, **kw)` for a StateSpace / TransferFunction `sys`** is the
model's `frd` step: the system evaluated on the SORTED grid (`jω` for a continuous or unspecified
timebase, `exp(jω dt)` for a discrete one, `dt=True` as 1; a pole on the grid is an error), the
timebase of `sys` (also `None`), the labels of `sys` unless overridden — whatever the name of `sys`
is —, the name `<name>$sampled` only when the name of `sys` is not generic, `smooth=False`. -/
theorem generated_frdCtor_lti_eq (E : Env K) (L : LTI K) (μ : Meta) (ws : List ℚ) (kw : Kw) :
    Generated.frdCtor E [.sys L μ, .vec (FVec.ofList ws)] (kwOf kw)
      = (frdOfSys E L ws).map fun F => objOf F (frdMeta μ kw) (frdDt L.dt) := by
  rw [generated_frdCtor_lti_kw_eq]
  have hdt : (if L.dt = Dt.none then (kwOf kw).dt.getD Dt.none else L.dt) = L.dt := by
    by_cases h : L.dt = Dt.none <;> simp [h, kwOf]
  rw [hdt]
  unfold frdOfSys
  cases DFRD.ofLTI E L (fun k : Fin (sortedGrid ws).length => (sortedGrid ws).get k) <;>
    simp [kwOf, bind, Except.bind, Except.map, pure, Except.pure, objOf, frdDt]

/-- the same for an arbitrary 1-D array of frequencies. -/
theorem generated_frdCtor_lti_vec_eq (E : Env K) (L : LTI K) (μ : Meta) (w : FVec) (kw : Kw) :
    Generated.frdCtor E [.sys L μ, .vec w] (kwOf kw)
      = (frdOfSys E L w.toList).map fun F => objOf F (frdMeta μ kw) (frdDt L.dt) := by
  have hw : w = FVec.ofList w.toList := by
    obtain ⟨n, v⟩ := w
    exact (FVec.ofList_ofFn v).symm
  conv_lhs => rw [hw]
  exact generated_frdCtor_lti_eq E L μ w.toList kw

/-- the call succeeds exactly when the model's `frd` step does, with the model's result. -/
theorem generated_frdCtor_lti_ok_iff (E : Env K) (L : LTI K) (μ : Meta) (ws : List ℚ) (kw : Kw) (R : PyFrdObj K) :
    Generated.frdCtor E [.sys L μ, .vec (FVec.ofList ws)] (kwOf kw) = .ok R
      ↔ ∃ F, frdOfSys E L ws = .ok F ∧ R = objOf F (frdMeta μ kw) (frdDt L.dt) := by
  rw [generated_frdCtor_lti_eq]
  cases h : frdOfSys E L ws with
  | error e => simp [Except.map]
  | ok F =>
    simp only [Except.map, Except.ok.injEq]
    constructor
    · intro h'; exact ⟨F, rfl, h'.symm⟩
    · rintro ⟨F', hF, hR⟩; rw [hR, hF]

/-! ### corollaries: the headline statements of C03 on the generated constructor -/

section concrete
/-- a static gain `2` with timebase `True`, named `P`, labels `a` / `b`; `jω ↦ ω`, `exp(jωh) ↦ ω`. -/
private def E0 : Env ℚ := ⟨fun w => w, fun _ w => w⟩
private def L0 : LTI ℚ := .ss 0 1 1 ⟨0, 0, 0, fun _ _ => 2⟩ .dtrue
private def μ0 : Meta := ⟨"P", ["a"], ["b"]⟩

theorem concrete_ok : ∃ R, Generated.frdCtor E0 [.sys L0 μ0, .vec (FVec.ofList [3, 1])] (kwOf {}) = .ok R := by
  rw [generated_frdCtor_lti_eq]
  simp [frdOfSys, DFRD.ofLTI, L0, LTI.singularAt, Except.map, bind, Except.bind, pure, Except.pure]
end concrete

/-- **timebase**: the sampled object has the timebase of the system (also `None`). -/
theorem generated_frdCtor_lti_dt (E : Env K) (L : LTI K) (μ : Meta) (ws : List ℚ) (kw : Kw) (R : PyFrdObj K)
    (h : Generated.frdCtor E [.sys L μ, .vec (FVec.ofList ws)] (kwOf kw) = .ok R) : R.dt = L.dt := by
  obtain ⟨F, _, rfl⟩ := (generated_frdCtor_lti_ok_iff E L μ ws kw R).mp h
  rfl

example : ∃ R, Generated.frdCtor E0 [.sys L0 μ0, .vec (FVec.ofList [3, 1])] (kwOf {}) = .ok R := concrete_ok

/-- **labels**: copied from the system unless overridden by a keyword — whatever the name of the
system is (generic or not). -/
theorem generated_frdCtor_lti_labels (E : Env K) (L : LTI K) (μ : Meta) (ws : List ℚ) (kw : Kw) (R : PyFrdObj K)
    (h : Generated.frdCtor E [.sys L μ, .vec (FVec.ofList ws)] (kwOf kw) = .ok R) :
    R.names.inputs = kw.inputs.getD μ.inputs ∧ R.names.outputs = kw.outputs.getD μ.outputs := by
  obtain ⟨F, _, rfl⟩ := (generated_frdCtor_lti_ok_iff E L μ ws kw R).mp h
  exact ⟨rfl, rfl⟩

example : ∃ R, Generated.frdCtor E0 [.sys L0 μ0, .vec (FVec.ofList [3, 1])] (kwOf {}) = .ok R := concrete_ok

/-- **name**: the keyword if given; otherwise `<name>$sampled` when the system's name is not
generic, a new generic name when it is. -/
theorem generated_frdCtor_lti_name (E : Env K) (L : LTI K) (μ : Meta) (ws : List ℚ) (kw : Kw) (R : PyFrdObj K)
    (h : Generated.frdCtor E [.sys L μ, .vec (FVec.ofList ws)] (kwOf kw) = .ok R) :
    R.names.name = kw.name.getD (if μ.isGeneric then genericName else μ.name ++ "$" ++ "sampled") := by
  obtain ⟨F, _, rfl⟩ := (generated_frdCtor_lti_ok_iff E L μ ws kw R).mp h
  rfl

example : ∃ R, Generated.frdCtor E0 [.sys L0 μ0, .vec (FVec.ofList [3, 1])] (kwOf {}) = .ok R := concrete_ok

/-- **frequencies**: the stored vector is a NEW vector — the ascending rearrangement of the caller's
`omega` (which is a value here and is not changed) —; `smooth` is off. -/
theorem generated_frdCtor_lti_grid (E : Env K) (L : LTI K) (μ : Meta) (ws : List ℚ) (kw : Kw) (R : PyFrdObj K)
    (h : Generated.frdCtor E [.sys L μ, .vec (FVec.ofList ws)] (kwOf kw) = .ok R) :
    R.omega = FVec.ofList (sortedGrid ws) ∧ (sortedGrid ws).Pairwise (· ≤ ·) ∧ (sortedGrid ws).Perm ws ∧
      R.smooth = false := by
  obtain ⟨F, hF, rfl⟩ := (generated_frdCtor_lti_ok_iff E L μ ws kw R).mp h
  refine ⟨?_, (C03.frd_grid_sorted ws).1, (C03.frd_grid_sorted ws).2, ?_⟩
  · unfold frdOfSys DFRD.ofLTI at hF
    simp only [bind, Except.bind, pure, Except.pure] at hF
    split_ifs at hF with hs
    simp only [Except.ok.injEq] at hF
    subst hF
    simp [objOf, FVec.ofList, FRD.ofFun]
  · unfold frdOfSys at hF
    simp only [bind, Except.bind, pure, Except.pure] at hF
    split at hF
    · cases hF
    · simp only [Except.ok.injEq] at hF
      subst hF
      rfl

example : ∃ R, Generated.frdCtor E0 [.sys L0 μ0, .vec (FVec.ofList [3, 1])] (kwOf {}) = .ok R := concrete_ok

/-- **values, state space**: the matrix stored at the `k`-th frequency of the sorted grid is a value
of the system at `jω_k` (continuous / unspecified timebase) or `exp(jω_k dt)` (discrete). -/
theorem generated_frdCtor_of_ss (E : Env K) (ns p m : Nat) (G : SS (Fin ns) (Fin m) (Fin p) K) (dt : Dt) (μ : Meta)
    (ws : List ℚ) (kw : Kw) (R : PyFrdObj K)
    (h : Generated.frdCtor E [.sys (.ss ns p m G dt) μ, .vec (FVec.ofList ws)] (kwOf kw) = .ok R) :
    ∃ F : DFRD K (sortedGrid ws).length, R = objOf F (frdMeta μ kw) dt ∧
      ∃ (hp : F.p = p) (hm : F.m = m), (∀ k, F.sys.omega k = (sortedGrid ws).get k) ∧
        ∀ k, G.Resp (freqPoint E dt ((sortedGrid ws).get k))
          ((F.sys.data k).submatrix (Fin.cast hp.symm) (Fin.cast hm.symm)) := by
  obtain ⟨F, hF, rfl⟩ := (generated_frdCtor_lti_ok_iff E _ μ ws kw R).mp h
  exact ⟨F, rfl, C03.frd_of_ss E ns p m G dt ws F hF⟩

example : ∃ R, Generated.frdCtor E0 [.sys L0 μ0, .vec (FVec.ofList [3, 1])] (kwOf {}) = .ok R := concrete_ok

/-- **values, transfer function**: every stored entry is `num(s)/den(s)` at `s = jω_k` or
`exp(jω_k dt)`, and no denominator vanishes there. -/
theorem generated_frdCtor_of_tf (E : Env K) (p m : Nat) (e : Fin p → Fin m → Frac K) (dt : Dt) (μ : Meta)
    (ws : List ℚ) (kw : Kw) (R : PyFrdObj K)
    (h : Generated.frdCtor E [.sys (.tf p m e dt) μ, .vec (FVec.ofList ws)] (kwOf kw) = .ok R) :
    ∃ F : DFRD K (sortedGrid ws).length, R = objOf F (frdMeta μ kw) dt ∧
      ∃ (hp : F.p = p) (hm : F.m = m), (∀ k, F.sys.omega k = (sortedGrid ws).get k) ∧
        ∀ k i j, (toPoly (e i j).den).eval (freqPoint E dt ((sortedGrid ws).get k)) ≠ 0 ∧
          F.sys.data k (Fin.cast hp.symm i) (Fin.cast hm.symm j) =
            (toPoly (e i j).num).eval (freqPoint E dt ((sortedGrid ws).get k)) /
              (toPoly (e i j).den).eval (freqPoint E dt ((sortedGrid ws).get k)) := by
  obtain ⟨F, hF, rfl⟩ := (generated_frdCtor_lti_ok_iff E _ μ ws kw R).mp h
  exact ⟨F, rfl, C03.frd_of_tf E p m e dt ws F hF⟩

example : ∃ R, Generated.frdCtor (K := ℚ) E0 [.sys (.tf 0 0 (fun i _ => i.elim0) .cont) μ0, .vec (FVec.ofList [3, 1])]
    (kwOf {}) = .ok R := by
  rw [generated_frdCtor_lti_eq]
  simp [frdOfSys, DFRD.ofLTI, LTI.singularAt, Except.map, bind, Except.bind, pure, Except.pure]

/-- a pole of the system on the grid is an error, not a stored `inf`. -/
theorem generated_frdCtor_pole_raises (E : Env K) (L : LTI K) (μ : Meta) (ws : List ℚ) (kw : Kw)
    (hpole : ∃ k : Fin (sortedGrid ws).length, L.singularAt (freqPoint E L.dt ((sortedGrid ws).get k)) = true) :
    Generated.frdCtor E [.sys L μ, .vec (FVec.ofList ws)] (kwOf kw) = .error .zeroDen := by
  rw [generated_frdCtor_lti_eq, C03.frd_pole_raises E L ws hpole]
  rfl

/-! ### the dispatch on the number of positional arguments -/

local macro "ctor_simp" : tactic => `(tactic|
  simp [Generated.frdCtor, bind, Except.bind, pure, Except.pure, throw, throwThe, MonadExceptOf.throw,
    PyArgs.get, PyArgs.last, PyArgs.dropLast, PyArg.isFRD, PyArg.isLTI, PyArg.asVec, PyArg.asData, PyArg.asDt,
    PyArg.dt_attr, PyArg.input_labels, PyArg.output_labels, PyArg.omega, PyArg.frdata,
    PyKw.pop_smooth_val, PyKw.pop_smooth_rest, PyKw.set_inputs, PyKw.get_inputs,
    PyKw.set_outputs, PyKw.get_outputs, PyKw.set_dt, PyKw.has_dt, common_self])

/-- no argument, or more than three: `ValueError("Needs 1 or 2 arguments")`. -/
theorem generated_frdCtor_argcount (E : Env K) (args : List (PyArg K)) (kw : PyKw)
    (h : args.length = 0 ∨ 4 ≤ args.length) : Generated.frdCtor E args kw = .error .shape := by
  rcases args with _ | ⟨a, _ | ⟨b, _ | ⟨c, _ | ⟨d, rest⟩⟩⟩⟩
  · ctor_simp
  · simp at h
  · simp at h
  · simp at h
  · ctor_simp

/-- a third positional argument is the timebase: the same as the keyword `dt=`. -/
theorem generated_frdCtor_dt_positional (E : Env K) (a b : PyArg K) (d : Dt) (kw : PyKw) :
    Generated.frdCtor E [a, b, .dt d] kw = Generated.frdCtor E [a, b] { kw with dt := some d } := by
  ctor_simp

/-- `FrequencyResponseData(response, omega)`: the data and the frequencies as given (their lengths
must match), default labels, a generic name unless keywords say otherwise, the timebase of the
keyword (or third argument), continuous by default. -/
theorem generated_frdCtor_data (E : Env K) (A : PArr3 K) (w : FVec) (kw : PyKw) :
    Generated.frdCtor E [.data A, .vec w] kw
      = if A.n ≠ w.n then .error .notImplemented
        else PyIOSys.initFrd w A { kw with smooth := none } ⟨.count A.m, .count A.p, none⟩ (kw.smooth.getD false) := by
  ctor_simp

/-- `FrequencyResponseData(F)` for an FRD object `F`: frequencies, data, timebase and labels are
copied (labels unless overridden); anything else as the one argument is a `TypeError`. -/
theorem generated_frdCtor_copy (E : Env K) (F : PyFrdObj K) (kw : PyKw) :
    Generated.frdCtor E [.frd F] kw
      = PyIOSys.initFrd F.omega F.frdata
          ⟨kw.name, some (kw.inputs.getD F.names.inputs), some (kw.outputs.getD F.names.outputs),
           if F.dt = .none then some (kw.dt.getD .none) else some F.dt, none⟩
          ⟨.count F.frdata.m, .count F.frdata.p, none⟩ (kw.smooth.getD false) := by
  by_cases h : F.dt = .none <;> ctor_simp <;> simp [h] <;> cases hk : kw.dt <;> simp [hk]

theorem generated_frdCtor_one_not_frd (E : Env K) (a : PyArg K) (kw : PyKw) (h : a.isFRD = false) :
    Generated.frdCtor E [a] kw = .error .notImplemented := by
  cases a <;> first | (simp [PyArg.isFRD] at h; done) | ctor_simp

example : (PyArg.vec (K := ℚ) (FVec.ofList [1])).isFRD = false := rfl

/-! ### the factory -/

/-- **`frd(*args, **kwargs)`** forwards to the constructor. -/
theorem generated_frd_eq (E : Env K) (args : List (PyArg K)) (kw : PyKw) :
    Generated.frd E args kw = Generated.frdCtor E args kw := by
  unfold Generated.frd
  rfl

/-- **`frd(sys, omega, **kw)`** is the model's `frd` step (the instruction `frd` of `Driver/Convert.lean`
prints exactly `frdMeta`, `frdDt` and the data of `frdOfSys`). -/
theorem generated_frd_lti_eq (E : Env K) (L : LTI K) (μ : Meta) (ws : List ℚ) (kw : Kw) :
    Generated.frd E [.sys L μ, .vec (FVec.ofList ws)] (kwOf kw)
      = (frdOfSys E L ws).map fun F => objOf F (frdMeta μ kw) (frdDt L.dt) := by
  rw [generated_frd_eq, generated_frdCtor_lti_eq]

end CtrlVerif.C03GenFrdCtor
