/-
Source-text tie of C06, part 4: the equal-spacing test of the time vector in `forced_response`.
`Generated/TimeRespGrid.lean` is rewritten from control/timeresp.py on every run
(harness/core/py2lean_tr.py); the model's `gridStep` (`Model/TimeResp.lean`) is proved EQUAL to it on
every time vector with at least two points (`np.allclose` is exact equality on both sides).
-/
import CtrlVerif.Generated.TimeRespGrid
import CtrlVerif.Lemmas.PyTR

namespace CtrlVerif.C06Gen

open Matrix CtrlVerif TimeResp

/-- **the equal-spacing test** (`frGrid`: `n_steps = T.shape[0]`, `dt = (T[-1] - T[0]) / (n_steps - 1)`,
`if not np.allclose(np.diff(T), dt): raise`): on every time vector with at least two points the
function the source text defines raises exactly when the model's `gridStep` does and otherwise returns
the number of points and the model's step. -/
theorem generated_grid_eq (T : List ℚ) (h : 2 ≤ T.length) :
    Generated.frGrid T = (gridStep T).map fun dt => (T.length, dt) := by
  match T, h with
  | t0 :: t1 :: rest, _ =>
    unfold Generated.frGrid
    rw [getItem_neg_one_getLast _ (by simp), PyArith.getItem_zero _ (by simp)]
    have hden : ((((((t0 :: t1 :: rest).length : Nat) : Int) - (1 : Int)) : Int) : ℚ) = ((t1 :: rest).length : ℚ) := by
      simp
    have hne : ((t1 :: rest).length : ℚ) ≠ 0 := by
      simp only [List.length_cons]; positivity
    simp only [bind, Except.bind, hden, PyArith.div_ok _ hne, allclose_diff, List.getElem_cons_zero,
      List.getLast_cons (List.cons_ne_nil t1 rest), gridStep]
    split <;> simp_all [Except.map, pure, Except.pure, throw, throwThe, MonadExceptOf.throw]

/-- fewer than two time points: the model rejects them (`badArg`); the code raises too, with another
exception (an empty vector: `IndexError` at `T[-1]`; one point: division by `n_steps - 1 = 0`, which
NumPy evaluates to `nan` with a warning and the run then continues with `dt = nan` - the deviation
recorded in notes/NOTES-C06.md; the translator's `PyArith.div` makes it an error). -/
theorem generated_grid_short (T : List ℚ) (h : T.length < 2) :
    (T = [] → Generated.frGrid T = .error .indexRange) ∧
    (∀ t, T = [t] → Generated.frGrid T = .error .zeroDen) ∧
    (∃ e, Generated.frGrid T = .error e) ∧ gridStep T = .error .badArg := by
  have h1 : Generated.frGrid ([] : List ℚ) = .error .indexRange := by
    simp [Generated.frGrid, PyArith.getItem, PyArith.normIdx, bind, Except.bind]
  have h2 : ∀ t : ℚ, Generated.frGrid [t] = .error .zeroDen := by
    intro t
    unfold Generated.frGrid
    rw [getItem_neg_one_getLast _ (by simp), PyArith.getItem_zero _ (by simp)]
    simp [bind, Except.bind, PyArith.div]
  refine ⟨fun e => e ▸ h1, fun t e => e ▸ h2 t, ?_, ?_⟩
  · match T, h with
    | [], _ => exact ⟨_, h1⟩
    | [t], _ => exact ⟨_, h2 t⟩
  · match T, h with
    | [], _ => rfl
    | [t], _ => rfl

/-- for ALL time vectors: the same step is returned, with `n_steps = len(T)`, or both raise. -/
theorem generated_grid_ok_iff (T : List ℚ) (k : Nat) (dt : ℚ) :
    Generated.frGrid T = .ok (k, dt) ↔ gridStep T = .ok dt ∧ k = T.length := by
  by_cases h : 2 ≤ T.length
  · rw [generated_grid_eq T h]
    cases gridStep T with
    | error e => simp [Except.map]
    | ok d => simp [Except.map]; tauto
  · obtain ⟨_, _, ⟨e, he⟩, hm⟩ := generated_grid_short T (by omega)
    simp [he, hm]

/-- non-vacuity: an equally spaced grid is accepted with its step, an unequal one raises. -/
example : Generated.frGrid ([0, 1/2, 1, 3/2] : List ℚ) = .ok (4, 1/2) ∧
    Generated.frGrid ([0, 1/2, 3/2] : List ℚ) = .error .badArg := by
  rw [generated_grid_eq _ (by simp), generated_grid_eq _ (by simp)]
  constructor <;> decide +kernel

end CtrlVerif.C06Gen
