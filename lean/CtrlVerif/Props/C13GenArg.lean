/-
Source-text tie of C13, second part: the argument-principle theorems of `Props/C13Arg.lean`
(`count_continuous`, `count_continuous_loop`, `count_continuous_of_bounds`, `criterion_continuous`)
transported to the statements of `nyquist_response` as the source text of the tree under check has
them (`Generated/NyqCount.lean`, `Generated/NyqPZ.lean`, rewritten on every run by
`harness/core/py2lean_nyq.py`; equalities in `Props/C13Gen.lean`).
-/
import CtrlVerif.Props.C13GenIndent
import CtrlVerif.Props.C13Gen
import CtrlVerif.Props.C13Arg

namespace CtrlVerif.C13Gen

open CtrlVerif CtrlVerif.Nyquist CtrlVerif.NyquistArg Real

/-- **`count_continuous` for the source text.**  Continuous-time loop without poles on the imaginary
axis, `1 + L = k ∏(s - c_i)/∏(s - p_i)` with real coefficients and `L` proper.  For ANY finite grid
`0 = ω_0, ω_1, …, ω_N` whose phase steps of `Φ` are below `π` and whose last point satisfies the tail
bound, the statements `phase = -unwrap(np.angle(..))`, `encirclements = np.sum(np.diff(phase)) / np.pi`,
`count = int(np.round(encirclements, 0))` of the tree under check, applied to the principal angles of
`1 + L(jω_i)`, return `Z - P`. -/
theorem generated_count_continuous {k : ℂ} (hk : k ≠ 0) (cs ps : List ℂ) (hc : ∀ a ∈ cs, a.re ≠ 0)
    (hp : ∀ a ∈ ps, a.re ≠ 0) (hcc : (cs.map (starRingEnd ℂ)).Perm cs)
    (hpc : (ps.map (starRingEnd ℂ)).Perm ps) (hlen : cs.length = ps.length)
    (ωs : List ℝ)
    (H2 : ∀ δ ∈ diff ((0 :: ωs).map (Phi k cs ps)), |δ| < π)
    (hlast : ∀ a ∈ cs ++ ps, a.im < (0 :: ωs).getLast (by simp))
    (Htail : tailArctan (cs ++ ps) ((0 :: ωs).getLast (by simp)) < π / 2) :
    Generated.nyquistCount π
        (((0 :: ωs).map fun ω : ℝ => ratfun k cs ps ((ω : ℂ) * Complex.I)).map Complex.arg) =
      .ok ((rhp cs : ℤ) - rhp ps) := by
  rw [generated_count_eq Real.pi_ne_zero,
    C13Arg.count_continuous hk cs ps hc hp hcc hpc hlen ωs H2 hlast Htail]

/-- the same for a loop given as a function `L` with `1 + L(jω) = k ∏(jω - c_i)/∏(jω - p_i)`, the
samples written as the source text writes them (`np.angle(resp + 1)`: `nyquistAngleArg`). -/
theorem generated_count_continuous_loop (L : ℂ → ℂ) {k : ℂ} (hk : k ≠ 0) (cs ps : List ℂ)
    (hL : ∀ ω : ℝ, 1 + L ((ω : ℂ) * Complex.I) = ratfun k cs ps ((ω : ℂ) * Complex.I))
    (hc : ∀ a ∈ cs, a.re ≠ 0)
    (hp : ∀ a ∈ ps, a.re ≠ 0) (hcc : (cs.map (starRingEnd ℂ)).Perm cs)
    (hpc : (ps.map (starRingEnd ℂ)).Perm ps) (hlen : cs.length = ps.length)
    (ωs : List ℝ)
    (H2 : ∀ δ ∈ diff ((0 :: ωs).map (Phi k cs ps)), |δ| < π)
    (hlast : ∀ a ∈ cs ++ ps, a.im < (0 :: ωs).getLast (by simp))
    (Htail : tailArctan (cs ++ ps) ((0 :: ωs).getLast (by simp)) < π / 2) :
    Generated.nyquistCount π
        ((Generated.nyquistAngleArg ((0 :: ωs).map fun ω : ℝ =>
            ((L ((ω : ℂ) * Complex.I)).re, (L ((ω : ℂ) * Complex.I)).im))).map
          fun w : ℝ × ℝ => Complex.arg ⟨w.1, w.2⟩) =
      .ok ((rhp cs : ℤ) - rhp ps) := by
  have e : (Generated.nyquistAngleArg ((0 :: ωs).map fun ω : ℝ =>
            ((L ((ω : ℂ) * Complex.I)).re, (L ((ω : ℂ) * Complex.I)).im))).map
          (fun w : ℝ × ℝ => Complex.arg ⟨w.1, w.2⟩) =
      ((0 :: ωs).map fun ω : ℝ => 1 + L ((ω : ℂ) * Complex.I)).map Complex.arg := by
    rw [generated_angleArg_eq, List.map_map, List.map_map, List.map_map]
    apply List.map_congr_left
    intro ω _
    simp only [Function.comp, addOne]
    congr 1
    apply Complex.ext <;> simp [add_comm]
  rw [e, generated_count_eq Real.pi_ne_zero,
    C13Arg.count_continuous_loop L hk cs ps hL hc hp hcc hpc hlen ωs H2 hlast Htail]

/-- hypotheses in terms of the root locations and the grid only (`count_continuous_of_bounds`). -/
theorem generated_count_continuous_of_bounds {k : ℂ} (hk : k ≠ 0) (cs ps : List ℂ)
    (hc : ∀ a ∈ cs, a.re ≠ 0)
    (hp : ∀ a ∈ ps, a.re ≠ 0) (hcc : (cs.map (starRingEnd ℂ)).Perm cs)
    (hpc : (ps.map (starRingEnd ℂ)).Perm ps) (hlen : cs.length = ps.length)
    (ωs : List ℝ)
    (Hstep : ∀ δ ∈ diff (0 :: ωs), |δ| * lipConst (cs ++ ps) < π)
    (hlast : ∀ a ∈ cs ++ ps, a.im < (0 :: ωs).getLast (by simp))
    (Htail : tailRat (cs ++ ps) ((0 :: ωs).getLast (by simp)) < π / 2) :
    Generated.nyquistCount π
        (((0 :: ωs).map fun ω : ℝ => ratfun k cs ps ((ω : ℂ) * Complex.I)).map Complex.arg) =
      .ok ((rhp cs : ℤ) - rhp ps) := by
  rw [generated_count_eq Real.pi_ne_zero,
    C13Arg.count_continuous_of_bounds hk cs ps hc hp hcc hpc hlen ωs Hstep hlast Htail]

/-- **`criterion_continuous` for the source text**: under the hypotheses of `count_continuous`, with
`P`, `Z` counted by the `if sys.isctime(): …` statement of the tree under check (continuous time,
default direction `'right'`) and `count` by its count statements, the test of the consistency warning
`Z != count + P and warn_encirclements` is false — the warning is not issued. -/
theorem generated_criterion_continuous {k : ℂ} (hk : k ≠ 0) (cs ps : List ℂ) (hc : ∀ a ∈ cs, a.re ≠ 0)
    (hp : ∀ a ∈ ps, a.re ≠ 0) (hcc : (cs.map (starRingEnd ℂ)).Perm cs)
    (hpc : (ps.map (starRingEnd ℂ)).Perm ps) (hlen : cs.length = ps.length)
    (ωs : List ℝ)
    (H2 : ∀ δ ∈ diff ((0 :: ωs).map (Phi k cs ps)), |δ| < π)
    (hlast : ∀ a ∈ cs ++ ps, a.im < (0 :: ωs).getLast (by simp))
    (Htail : tailArctan (cs ++ ps) ((0 :: ωs).getLast (by simp)) < π / 2) (warn : Bool) :
    (do
      let PZ ← Generated.nyquistPZ true "right" (ps.map fun p : ℂ => (p.re, p.im))
        (cs.map fun p : ℂ => (p.re, p.im))
      let count ← Generated.nyquistCount π
        (((0 :: ωs).map fun ω : ℝ => ratfun k cs ps ((ω : ℂ) * Complex.I)).map Complex.arg)
      pure (Generated.nyquistCriterionWarn PZ.2 count PZ.1 warn) : Except Err Bool) = .ok false := by
  have hcrit := C13Arg.criterion_continuous hk cs ps hc hp hcc hpc hlen ωs H2 hlast Htail
  rw [generated_PZ_eq, generated_count_eq Real.pi_ne_zero]
  simp only [PyArith.ok_bind]
  have hd : PyNyq.dirOfString "right" = Dir.right := (PyNyq.dirOfString_right_iff _).2 rfl
  rw [hd, generated_criterionWarn_eq, hcrit]
  simp
  rfl

/-- non-vacuity (the example of `Props/C13Arg.lean`): STABLE loop `L = 1/(s+1)`, `1 + L = (s+2)/(s+1)`,
`cs = [-2]`, `ps = [-1]`, `Z = P = 0`; grid `0, 1, 2, 3, 4`: the statements of the source text return `0`. -/
example : Generated.nyquistCount π (([0, 1, 2, 3, 4].map fun ω : ℝ =>
    ratfun 1 [-2] [-1] ((ω : ℂ) * Complex.I)).map Complex.arg) = .ok 0 := by
  have h := generated_count_continuous_of_bounds (k := 1) one_ne_zero [-2] [-1]
    (by simp) (by simp) (by simp [Complex.conj_ofNat]) (by simp) rfl [1, 2, 3, 4]
    (by
      intro δ hδ
      simp only [diff_cons_cons, diff_singleton, List.mem_cons, List.not_mem_nil, or_false] at hδ
      have := Real.pi_gt_three
      rcases hδ with rfl | rfl | rfl | rfl <;> norm_num [lipConst] <;> linarith)
    (by simp)
    (by have := Real.pi_gt_three; norm_num [tailRat]; linarith)
  simpa [rhp] using h

end CtrlVerif.C13Gen
