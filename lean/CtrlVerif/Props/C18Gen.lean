/-
Source-text tie for C18 (DESIGN §10.3): `Generated/ProcessResponse.lean` is rewritten on every
run from the text of `_process_time_response` (control/timeresp.py) and
`_process_frequency_response` (control/lti.py) in /repo by `harness/core/py2lean.py`; the
hand-written models `processTime` / `processFreq` (the ones the C18 theorems are about) are
proved equal to them for every array, every flag and every squeeze / configuration value.
-/
import CtrlVerif.Model.Shape
import CtrlVerif.Generated.ProcessResponse

namespace CtrlVerif.C18Gen

open CtrlVerif NDArr

/-- `_process_time_response` as written in the source is the model `processTime`. -/
theorem generated_processTime_eq {α : Type} (signal : NDArr α) (issiso transpose : Bool)
    (squeeze cfg : Sq) :
    Generated.processTimeResponse signal issiso transpose squeeze cfg
      = processTime signal issiso transpose squeeze cfg := by
  cases squeeze <;> cases cfg <;> cases issiso <;> cases transpose <;>
    simp [Generated.processTimeResponse, processTime, squeezeTime, Sq.resolve, index0,
      bind, Except.bind, pure, Except.pure, throw, throwThe, MonadExceptOf.throw] <;>
    repeat' (first | rfl | (symm; assumption) | assumption | split)

/-- `_process_frequency_response` as written in the source is the model `processFreq`. -/
theorem generated_processFreq_eq {α : Type} (issiso : Bool) (omegaNdim : Nat) (out : NDArr α)
    (squeeze cfg : Sq) :
    Generated.processFrequencyResponse issiso omegaNdim out squeeze cfg
      = processFreq issiso omegaNdim out squeeze cfg := by
  cases squeeze <;> cases cfg <;> cases issiso <;>
    simp [Generated.processFrequencyResponse, processFreq, squeezeFreq, Sq.resolve, index0,
      bind, Except.bind, pure, Except.pure, throw, throwThe, MonadExceptOf.throw] <;>
    repeat' (first | rfl | (symm; assumption) | assumption | split)

end CtrlVerif.C18Gen
