/-
Source-text tie of C01 (DESIGN §10.3, notes/NOTES-py2lean-tf.md), part 2: `_add_siso`,
`TransferFunction.__add__`, `__radd__`, `__sub__`, `__rsub__`.

`Generated/TFAddSiso.lean`, `TFAdd.lean`, `TFSub.lean` are rewritten on every run from the text of
these functions in control/xferfcn.py of the tree under check by `harness/core/py2lean_tf.py`:
the `isinstance` dispatch on the operand kind and `_convert_to_transfer_function`, the SISO
promotion `np.ones((p, m)) * g`, the two shape checks, `common_timebase`, the two nested counted
loops writing `num[i, j], den[i, j] = _add_siso(...)` into arrays made by `_create_poly_array`, the
constructor.  The run-time operators of the model (`DTF.add / sub / rsub`, `Model/TFDyn.lean`) are
proved EQUAL to them for every operand kind, all shapes (also empty and incompatible ones), all
coefficient lists, every pair of timebases, over any field.
-/
import CtrlVerif.Generated.TFAdd
import CtrlVerif.Generated.TFSub
import CtrlVerif.Props.C01GenNeg

namespace CtrlVerif.C01Gen
open CtrlVerif

variable {K : Type} [Field K] [DecidableEq K]

/-- `_add_siso(num1, den1, num2, den2)` as written is the model's `addSiso` (cross terms
`num1·den2 + num2·den1` over `den1·den2`). -/
theorem generated_addSiso_eq (n1 d1 n2 d2 : List K) :
    Generated.TF.addSiso n1 d1 n2 d2
      = .ok ((addSiso ⟨n1, d1⟩ ⟨n2, d2⟩).num, (addSiso ⟨n1, d1⟩ ⟨n2, d2⟩).den) := rfl

/-- `self + other` for a `TransferFunction` operand: the whole body of `__add__` after the
conversion is the model's `addCore`. -/
theorem generated_add_tf (G H : DTF K) : Generated.TF.add G (.tf H) = DTF.addCore G H := by
  unfold Generated.TF.add
  rw [addCore_eq]
  simp only [PyArith.pure_bind]
  refine PyTF.bind_congr' ?_ ?_
  · simp only [addPromote, PyTF.onesTimes, PyTF.noutputs, PyTF.ninputs, Int.toNat_natCast]
  · rintro ⟨G', H'⟩
    dsimp only [PyTF.ninputs, PyTF.noutputs]
    unfold addShaped
    by_cases hm : G'.m = H'.m
    · by_cases hp : G'.p = H'.p
      · simp only [ne_eq, Nat.cast_inj, eq_true hm, eq_true hp, not_true_eq_false, if_false,
          ↓reduceDIte, PyTF.createPolyArray_nat, PyArith.ok_bind]
        refine PyTF.bind_congr' rfl ?_
        intro dt
        let fr : Nat → Nat → Frac K := fun r c =>
          match PyTF.entry? G' r c, PyTF.entry? H' r c with
          | some a, some b => addSiso a b
          | _, _ => Frac.zero
        have hfr : ∀ (r c : Nat) (hr : r < G'.p) (hc : c < G'.m),
            fr r c = addSiso (G'.sys.e ⟨r, hr⟩ ⟨c, hc⟩) (H'.sys.e ⟨r, hp ▸ hr⟩ ⟨c, hm ▸ hc⟩) := by
          intro r c hr hc
          simp only [fr, PyTF.entry?_lt G' hr hc, PyTF.entry?_lt H' (hp ▸ hr) (hm ▸ hc)]
        let fn : Nat → Nat → List K := fun r c => (fr r c).num
        let fd : Nat → Nat → List K := fun r c => (fr r c).den
        rw [PyTF.foldlM_range_eq G'.p _ (fun i =>
            (PyTF.fillTo (PyTF.newArr G'.p G'.m none) fn i 0,
             PyTF.fillTo (PyTF.newArr G'.p G'.m none) fd i 0)) _
          (by rw [PyTF.fillTo_zero, PyTF.fillTo_zero])]
        · rw [PyArith.ok_bind]
          dsimp only
          rw [PyTF.mkTF_of_get (PyTF.fillTo (PyTF.newArr G'.p G'.m none) fn G'.p 0)
            (PyTF.fillTo (PyTF.newArr G'.p G'.m none) fd G'.p 0) dt
            (fun i j => addSiso (G'.sys.e i j) ((TFM.cast hp.symm hm.symm H'.sys).e i j)) rfl rfl]
          · rfl
          · intro (i : Fin G'.p) (j : Fin G'.m)
            rw [PyTF.fillTo_get_done _ _ _ _ _ _ i.isLt i.isLt j.isLt]
            simp only [fn, hfr i j i.isLt j.isLt]
            rfl
          · intro (i : Fin G'.p) (j : Fin G'.m)
            rw [PyTF.fillTo_get_done _ _ _ _ _ _ i.isLt i.isLt j.isLt]
            simp only [fd, hfr i j i.isLt j.isLt]
            rfl
        · intro i hi
          dsimp only
          rw [PyTF.foldlM_range_eq G'.m _ (fun j =>
            (PyTF.fillTo (PyTF.newArr G'.p G'.m none) fn i j,
             PyTF.fillTo (PyTF.newArr G'.p G'.m none) fd i j)) _ rfl]
          · exact congrArg₂ (fun a b => Except.ok (a, b)) (PyTF.fillTo_row_end _ _ _)
              (PyTF.fillTo_row_end _ _ _)
          · intro j hj
            dsimp only
            rw [PyTF.numArray_getItem G' hi hj, PyTF.denArray_getItem G' hi hj,
              PyTF.numArray_getItem H' (hp ▸ hi) (hm ▸ hj), PyTF.denArray_getItem H' (hp ▸ hi) (hm ▸ hj)]
            simp only [PyArith.ok_bind, generated_addSiso_eq]
            have e : addSiso ⟨(G'.sys.e ⟨i, hi⟩ ⟨j, hj⟩).num, (G'.sys.e ⟨i, hi⟩ ⟨j, hj⟩).den⟩
                ⟨(H'.sys.e ⟨i, hp ▸ hi⟩ ⟨j, hm ▸ hj⟩).num, (H'.sys.e ⟨i, hp ▸ hi⟩ ⟨j, hm ▸ hj⟩).den⟩
                = fr i j := (hfr i j hi hj).symm
            rw [e]
            rw [show (fr i j).num = fn i j from rfl, show (fr i j).den = fd i j from rfl,
              PyTF.fillTo_setItem _ _ hi hj, PyArith.ok_bind, PyTF.fillTo_setItem _ _ hi hj]
            rfl
      · simp only [ne_eq, Nat.cast_inj, eq_true hm, eq_false hp, not_true_eq_false,
          not_false_eq_true, if_false, if_true, ite_self, ↓reduceDIte]
    · simp only [ne_eq, Nat.cast_inj, eq_false hm, not_false_eq_true, if_true, ite_self, ↓reduceDIte]

/-- a scalar operand is converted with `inputs=self.ninputs, outputs=self.noutputs`. -/
theorem generated_add_scalar (G : DTF K) (c : K) :
    Generated.TF.add G (.scalar c) = Generated.TF.add G (.tf (DTF.ofScalar c G.p G.m)) := by
  simp only [Generated.TF.add, PyTF.convert, PyTF.ninputs, PyTF.noutputs, Int.toNat_natCast,
    PyArith.ok_bind, PyArith.pure_bind]

theorem generated_add_array (G : DTF K) (p m : Nat) (D : Fin p → Fin m → K) :
    Generated.TF.add G (.array p m D) = Generated.TF.add G (.tf (DTF.ofArray p m D)) := by
  simp only [Generated.TF.add, PyTF.convert, PyArith.ok_bind, PyArith.pure_bind]

/-- **`__add__` as the source text says it is the model's `DTF.add`**, for every operand kind of
the model (system, scalar, array), every shape, coefficient list and timebase. -/
theorem generated_add_eq (G : DTF K) (x : Operand K) :
    Generated.TF.add G (PyTF.ofOperand x) = DTF.add G x := by
  cases x with
  | sys H => exact generated_add_tf G H
  | scalar c => exact (generated_add_scalar G c).trans (generated_add_tf G _)
  | array p m D => exact (generated_add_array G p m D).trans (generated_add_tf G _)

/-- a `StateSpace` operand is converted first (what the conversion returns is data here, C03). -/
theorem generated_add_ss (G c n : DTF K) : Generated.TF.add G (.ss c n) = DTF.addCore G c := by
  rw [← generated_add_tf]
  simp only [Generated.TF.add, PyTF.convert, PyArith.ok_bind, PyArith.pure_bind]

/-- any other operand: `return NotImplemented`. -/
theorem generated_add_foreign (G : DTF K) : Generated.TF.add G .foreign = .error .notImplemented := by
  simp only [Generated.TF.add, PyArith.pure_bind]

/-- `__radd__` is `self + other`. -/
theorem generated_radd_eq (G : DTF K) (x : Operand K) :
    Generated.TF.radd G (PyTF.ofOperand x) = DTF.add G x := generated_add_eq G x

/-- unary minus on the operand kinds of the model, with the generated `__neg__`. -/
theorem negOperand_eq (x : Operand K) :
    PyTF.negOperand Generated.TF.neg (PyTF.ofOperand x)
      = (DTF.Operand.neg x >>= fun y => pure (PyTF.ofOperand y)) := by
  cases x with
  | sys H =>
    simp only [PyTF.negOperand, PyTF.ofOperand, DTF.Operand.neg, generated_neg_eq]
    cases DTF.neg H <;> rfl
  | scalar c => rfl
  | array p m D => rfl

/-- **`__sub__`** (`self + (-other)`) is the model's `DTF.sub`. -/
theorem generated_sub_eq (G : DTF K) (x : Operand K) :
    Generated.TF.sub G (PyTF.ofOperand x) = DTF.sub G x := by
  unfold Generated.TF.sub DTF.sub
  rw [negOperand_eq]
  cases DTF.Operand.neg x with
  | error e => rfl
  | ok y => exact generated_add_eq G y

/-- **`__rsub__`** (`other + (-self)`) for the operands Python hands to it (a scalar or an array on
the left: their own `__add__` declines, `(-self).__radd__(other)` runs) is the model's `DTF.rsub`. -/
theorem generated_rsub_scalar (G : DTF K) (c : K) :
    Generated.TF.rsub G (.scalar c) = DTF.rsub G (.scalar c) := by
  unfold Generated.TF.rsub DTF.rsub
  rw [generated_neg_eq]
  refine PyTF.bind_congr' rfl ?_
  intro n
  exact generated_add_eq n (.scalar c)

theorem generated_rsub_array (G : DTF K) (p m : Nat) (D : Fin p → Fin m → K) :
    Generated.TF.rsub G (.array p m D) = DTF.rsub G (.array p m D) := by
  unfold Generated.TF.rsub DTF.rsub
  rw [generated_neg_eq]
  refine PyTF.bind_congr' rfl ?_
  intro n
  exact generated_add_eq n (.array p m D)

/-- with a `TransferFunction` on the left Python never calls `__rsub__`; called directly its text
gives `other + (-self)` with `other` as the FIRST summand, i.e. the model's `H - G`. -/
theorem generated_rsub_tf (G H : DTF K) : Generated.TF.rsub G (.tf H) = DTF.sub H (.sys G) := by
  unfold Generated.TF.rsub DTF.sub
  rw [generated_neg_eq]
  simp only [DTF.Operand.neg]
  cases DTF.neg G with
  | error e => rfl
  | ok n => exact generated_add_tf H n

/-! ### the headline theorems of C01, of the functions the source text defines -/

/-- `G + H` for systems of equal shape and compatible timebases: the generated `__add__` returns a
well-formed system of that shape, with the common timebase, denoting `⟦G⟧ + ⟦H⟧`. -/
theorem generated_add_sem (G H : DTF K) (hp : G.p = H.p) (hm : G.m = H.m) (hG : G.sys.WF)
    (hH : H.sys.WF) (dt : Dt) (hdt : common G.dt H.dt = .ok dt) :
    ∃ s, Generated.TF.add G (.tf H) = .ok ⟨G.p, G.m, s, dt⟩ ∧ s.WF ∧
      s.sem = G.sys.sem + (TFM.cast hp.symm hm.symm H.sys).sem := by
  have hH' : (TFM.cast hp.symm hm.symm H.sys).WF := fun i j => hH _ _
  obtain ⟨R, h1, h2, h3⟩ := C01.sem_add G.sys (TFM.cast hp.symm hm.symm H.sys) hG hH'
  refine ⟨R, ?_, h2, h3⟩
  rw [generated_add_tf, addCore_eq]
  have hs : G.isSiso = H.isSiso := by simp [DTF.isSiso, hp, hm]
  have hpr : addPromote G H = .ok (G, H) := by
    unfold addPromote
    cases h : H.isSiso <;> simp [hs, h, pure, Except.pure]
  rw [hpr, PyArith.ok_bind]
  simp [addShaped, hp, hm, hdt, h1, bind, Except.bind, pure, Except.pure]

/-- `G - H` likewise denotes `⟦G⟧ - ⟦H⟧`. -/
theorem generated_sub_sem (G H : DTF K) (hp : G.p = H.p) (hm : G.m = H.m) (hG : G.sys.WF)
    (hH : H.sys.WF) (dt : Dt) (hdt : common G.dt H.dt = .ok dt) :
    ∃ s, Generated.TF.sub G (.tf H) = .ok ⟨G.p, G.m, s, dt⟩ ∧ s.WF ∧
      s.sem = G.sys.sem - (TFM.cast hp.symm hm.symm H.sys).sem := by
  obtain ⟨N, hn1, hn2, hn3⟩ := generated_neg_sem H hH
  obtain ⟨s, h1, h2, h3⟩ := generated_add_sem G ⟨H.p, H.m, N, H.dt⟩ hp hm hG hn2 dt hdt
  refine ⟨s, ?_, h2, ?_⟩
  · unfold Generated.TF.sub
    simp only [PyTF.negOperand, hn1, PyArith.ok_bind, PyArith.pure_bind]
    exact h1
  · rw [h3, sub_eq_add_neg]
    congr 1
    ext i j
    simp only [TFM.sem, TFM.cast, Matrix.of_apply, Matrix.neg_apply]
    have := congrFun (congrFun hn3 (Fin.cast hp i)) (Fin.cast hm j)
    simpa [TFM.sem] using this

/-- a shape mismatch raises (after promotion nothing is left to broadcast). -/
theorem generated_add_shape_error (G H : DTF K) (hs : G.isSiso = H.isSiso)
    (h : G.p ≠ H.p ∨ G.m ≠ H.m) : Generated.TF.add G (.tf H) = .error .shape := by
  rw [generated_add_tf, addCore_eq]
  have hpr : addPromote G H = .ok (G, H) := by
    unfold addPromote
    cases h : H.isSiso <;> simp [hs, h, pure, Except.pure]
  rw [hpr, PyArith.ok_bind]
  unfold addShaped
  by_cases hm : G.m = H.m
  · have hp : ¬ G.p = H.p := by rcases h with h | h; exact h; exact absurd hm h
    simp [hm, hp]
  · simp [hm]

/-! non-vacuity -/

example : ∃ s, Generated.TF.add (⟨1, 1, C01.exG1.1, .cont⟩ : DTF ℚ) (.tf ⟨1, 1, C01.exG1.1, .none⟩)
    = .ok ⟨1, 1, s, .cont⟩ ∧ s.WF :=
  let ⟨s, h1, h2, _⟩ := generated_add_sem (⟨1, 1, C01.exG1.1, .cont⟩ : DTF ℚ) ⟨1, 1, C01.exG1.1, .none⟩
    rfl rfl C01.exG1.2 C01.exG1.2 .cont rfl
  ⟨s, h1, h2⟩

example : Generated.TF.add (⟨2, 2, TFM.ofConst fun _ _ => (1 : ℚ), .cont⟩ : DTF ℚ)
    (.tf ⟨2, 3, TFM.ofConst fun _ _ => (1 : ℚ), .cont⟩) = .error .shape :=
  generated_add_shape_error _ _ rfl (Or.inr (by decide))

end CtrlVerif.C01Gen
