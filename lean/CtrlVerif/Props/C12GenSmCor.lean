/-
Source-text tie of `stability_margins` (C12), part 5: the headline theorems of `Props/C12.lean`
(`genuine`, `complete`, the default return is the smallest margin) TRANSPORTED along the equalities of
`C12GenSmTop` / `C12GenSmZ` to `Generated.stabilityMarginsSel`, the function the source text of the
tree under check defines.  `hroots` / `hcomplete` are the contract of `np.roots` (as in `Props/C12.lean`).
-/
import CtrlVerif.Props.C12GenSmZ

namespace CtrlVerif.C12GenSel
open CtrlVerif CtrlVerif.Margins CtrlVerif.PyMarg

section
variable {K : Type} [Field K] [LinearOrder K] [IsStrictOrderedRing K] [FloorRing K]

theorem forall₂_map_same {β γ δ : Type} (L : List β) (f : β → γ) (g : β → δ) (R : γ → δ → Prop)
    (h : ∀ c ∈ L, R (f c) (g c)) : List.Forall₂ R (L.map f) (L.map g) := by
  rw [List.forall₂_map_left_iff, List.forall₂_map_right_iff, List.forall₂_same]
  exact h

theorem exists_index_of_mem {β γ δ : Type} (L : List β) (f : β → γ) (g : β → δ) (c : β) (h : c ∈ L) :
    ∃ i : Nat, (L.map f)[i]? = some (f c) ∧ (L.map g)[i]? = some (g c) := by
  obtain ⟨i, hi⟩ := List.mem_iff_getElem?.mp h
  exact ⟨i, by simp [hi], by simp [hi]⟩

/-! ### continuous time -/

/-- GENUINE (phase crossings / gain margins): whenever the function the source text defines returns
with `returnall=True`, the arrays `w_180` and `GM` have equal length and every entry `(w, GM)` is a
frequency `w ≥ epsw` at which the loop response `r` exists, is real and `≤ 0`, with `GM = 1/|r|` —
provided everything `np.roots` returned is a root of the test polynomial. -/
theorem generated_phase_crossing_genuine (P : Prims K) (num den n0 d0 : List K) (dt0 : K)
    (zw : List (Cx K) × List K) (epsw : K)
    (hroots : ∀ z ∈ P.npRoots (realCrossingPoly num den), evalC (realCrossingPoly num den) z = 0)
    {GM PM SM : List (XF K)} {w180 wc wstab : List K}
    (h : Generated.stabilityMarginsSel P (respAt num den) true (polyIw num, polyIw den) n0 d0 dt0 zw
      true epsw = .ok (.all GM PM SM w180 wc wstab)) :
    List.Forall₂ (fun w g => ∃ r : Cx K, g = gmVal P (some r) ∧ epsw ≤ w ∧ evalC den (jw w) ≠ 0 ∧
      r * evalC den (jw w) = evalC num (jw w) ∧ r.im = 0 ∧ r.re ≤ 0) w180 GM := by
  rw [generated_sm_continuous_all] at h
  simp only [smAllOf, Except.ok.injEq, SmOut.all.injEq] at h
  obtain ⟨rfl, _, _, rfl, _, _⟩ := h
  apply forall₂_map_same
  intro c hc
  exact ⟨c.2, rfl, C12.phase_crossing_genuine hroots hc⟩

/-- COMPLETE (phase crossings): every frequency `w ≥ epsw` at which the loop response exists and is
real and `≤ 0` appears in the returned `w_180`, with `GM = 1/|r|` at the same position — provided
`np.roots` returns every real root `≥ epsw` of the test polynomial. -/
theorem generated_phase_crossing_complete (P : Prims K) (num den n0 d0 : List K) (dt0 : K)
    (zw : List (Cx K) × List K) (epsw : K)
    (hcomplete : ∀ w, epsw ≤ w → polyval (realCrossingPoly num den) w = 0 →
      (QuadraticAlgebra.C w : Cx K) ∈ P.npRoots (realCrossingPoly num den))
    {GM PM SM : List (XF K)} {w180 wc wstab : List K}
    (h : Generated.stabilityMarginsSel P (respAt num den) true (polyIw num, polyIw den) n0 d0 dt0 zw
      true epsw = .ok (.all GM PM SM w180 wc wstab))
    {w : K} {r : Cx K} (hw : epsw ≤ w) (hD : evalC den (jw w) ≠ 0)
    (hr : r * evalC den (jw w) = evalC num (jw w)) (him : r.im = 0) (hre : r.re ≤ 0) :
    ∃ i : Nat, w180[i]? = some w ∧ GM[i]? = some (gmVal P (some r)) := by
  rw [generated_sm_continuous_all] at h
  simp only [smAllOf, Except.ok.injEq, SmOut.all.injEq] at h
  obtain ⟨rfl, _, _, rfl, _, _⟩ := h
  exact exists_index_of_mem _ Prod.fst (fun c => gmVal P (some c.2)) (w, r)
    (C12.phase_crossing_complete hcomplete hw hD hr him hre)

/-- GENUINE (gain crossings / phase margins): every returned `(w, PM)` is a frequency `w > epsw`;
where the loop response `r` exists there, `|r| = 1` and `PM = remainder(angle r, 360) - 180`. -/
theorem generated_gain_crossing_genuine (P : Prims K) (num den n0 d0 : List K) (dt0 : K)
    (zw : List (Cx K) × List K) (epsw : K)
    (hroots : ∀ z ∈ P.npRoots (mag1Poly num den), evalC (mag1Poly num den) z = 0)
    {GM PM SM : List (XF K)} {w180 wc wstab : List K}
    (h : Generated.stabilityMarginsSel P (respAt num den) true (polyIw num, polyIw den) n0 d0 dt0 zw
      true epsw = .ok (.all GM PM SM w180 wc wstab)) :
    List.Forall₂ (fun w p => epsw < w ∧ p = pmVal P (respAt num den (jw w)) ∧
      ∀ r, respAt num den (jw w) = some r →
        evalC den (jw w) ≠ 0 ∧ r * evalC den (jw w) = evalC num (jw w) ∧ normSq r = 1) wc PM := by
  rw [generated_sm_continuous_all] at h
  simp only [smAllOf, Except.ok.injEq, SmOut.all.injEq] at h
  obtain ⟨_, rfl, _, _, rfl, _⟩ := h
  apply forall₂_map_same
  intro c hc
  obtain ⟨w, r⟩ := c
  have hm := C12.mem_gainCrossings.mp hc
  refine ⟨hm.2.1, by rw [hm.2.2], ?_⟩
  intro r' hr'
  have hc' : (w, some r') ∈ gainCrossings num den epsw (P.npRoots (mag1Poly num den)) := by
    rw [hm.2.2] at hr'; rw [← hr']; exact hc
  exact (C12.gain_crossing_genuine hroots hc').2

/-- COMPLETE (gain crossings). -/
theorem generated_gain_crossing_complete (P : Prims K) (num den n0 d0 : List K) (dt0 : K)
    (zw : List (Cx K) × List K) (epsw : K)
    (hcomplete : ∀ w, epsw < w → polyval (mag1Poly num den) w = 0 →
      (QuadraticAlgebra.C w : Cx K) ∈ P.npRoots (mag1Poly num den))
    {GM PM SM : List (XF K)} {w180 wc wstab : List K}
    (h : Generated.stabilityMarginsSel P (respAt num den) true (polyIw num, polyIw den) n0 d0 dt0 zw
      true epsw = .ok (.all GM PM SM w180 wc wstab))
    {w : K} {r : Cx K} (hw : epsw < w) (hD : evalC den (jw w) ≠ 0)
    (hr : r * evalC den (jw w) = evalC num (jw w)) (h1 : normSq r = 1) :
    ∃ i : Nat, wc[i]? = some w ∧ PM[i]? = some (pmVal P (some r)) := by
  rw [generated_sm_continuous_all] at h
  simp only [smAllOf, Except.ok.injEq, SmOut.all.injEq] at h
  obtain ⟨_, rfl, _, _, rfl, _⟩ := h
  exact exists_index_of_mem _ Prod.fst (fun c => pmVal P c.2) (w, some r)
    (C12.gain_crossing_complete hcomplete hw hD hr h1)

/-- GENUINE (stability margin candidates): every returned `(w, SM)` is a stationary point `w > epsw`
of `|1 + L(jw)|²` with positive second-order test; where the response `r` exists, `SM = |r + 1|` and
`|r + 1|² d(w) = n(w)`. -/
theorem generated_stab_crossing_genuine (P : Prims K) (num den n0 d0 : List K) (dt0 : K)
    (zw : List (Cx K) × List K) (epsw : K)
    (hroots : ∀ z ∈ P.npRoots (wstabPoly num den), evalC (wstabPoly num den) z = 0)
    {GM PM SM : List (XF K)} {w180 wc wstab : List K}
    (h : Generated.stabilityMarginsSel P (respAt num den) true (polyIw num, polyIw den) n0 d0 dt0 zw
      true epsw = .ok (.all GM PM SM w180 wc wstab)) :
    List.Forall₂ (fun w s => epsw < w ∧ s = smVal P (respAt num den (jw w)) ∧
      ∀ r, respAt num den (jw w) = some r →
        polyval (wstabPoly num den) w = 0 ∧ 0 < polyval (polyder (wstabPoly num den)) w ∧
        r * evalC den (jw w) = evalC num (jw w) ∧
        normSq (r + 1) * polyval (wstabD den) w = polyval (wstabN num den) w) wstab SM := by
  rw [generated_sm_continuous_all] at h
  simp only [smAllOf, Except.ok.injEq, SmOut.all.injEq] at h
  obtain ⟨_, _, rfl, _, _, rfl⟩ := h
  apply forall₂_map_same
  intro c hc
  obtain ⟨w, r⟩ := c
  have hm := C12.mem_stabCrossings.mp hc
  refine ⟨hm.2.1, by rw [hm.2.2.2], ?_⟩
  intro r' hr'
  have hc' : (w, some r') ∈ stabCrossings num den epsw (P.npRoots (wstabPoly num den)) := by
    rw [hm.2.2.2] at hr'; rw [← hr']; exact hc
  exact (C12.stab_crossing_genuine hroots hc').2

/-- COMPLETE (stability margin candidates). -/
theorem generated_stab_crossing_complete (P : Prims K) (num den n0 d0 : List K) (dt0 : K)
    (zw : List (Cx K) × List K) (epsw : K)
    (hcomplete : ∀ w, epsw < w → polyval (wstabPoly num den) w = 0 →
      (QuadraticAlgebra.C w : Cx K) ∈ P.npRoots (wstabPoly num den))
    {GM PM SM : List (XF K)} {w180 wc wstab : List K}
    (h : Generated.stabilityMarginsSel P (respAt num den) true (polyIw num, polyIw den) n0 d0 dt0 zw
      true epsw = .ok (.all GM PM SM w180 wc wstab))
    {w : K} {r : Cx K} (hw : epsw < w) (hroot : polyval (wstabPoly num den) w = 0)
    (hd : 0 < polyval (polyder (wstabPoly num den)) w) (hD : evalC den (jw w) ≠ 0)
    (hr : r * evalC den (jw w) = evalC num (jw w)) :
    ∃ i : Nat, wstab[i]? = some w ∧ SM[i]? = some (smVal P (some r)) := by
  rw [generated_sm_continuous_all] at h
  simp only [smAllOf, Except.ok.injEq, SmOut.all.injEq] at h
  obtain ⟨_, _, rfl, _, _, rfl⟩ := h
  exact exists_index_of_mem _ Prod.fst (fun c => smVal P c.2) (w, some r)
    (C12.stab_crossing_complete hcomplete hw hroot hd hD hr)

/-- the returned frequency arrays are sorted. -/
theorem generated_sm_sorted (P : Prims K) (num den n0 d0 : List K) (dt0 : K)
    (zw : List (Cx K) × List K) (epsw : K)
    {GM PM SM : List (XF K)} {w180 wc wstab : List K}
    (h : Generated.stabilityMarginsSel P (respAt num den) true (polyIw num, polyIw den) n0 d0 dt0 zw
      true epsw = .ok (.all GM PM SM w180 wc wstab)) :
    w180.Pairwise (· ≤ ·) ∧ wc.Pairwise (· ≤ ·) ∧ wstab.Pairwise (· ≤ ·) := by
  rw [generated_sm_continuous_all] at h
  simp only [smAllOf, Except.ok.injEq, SmOut.all.injEq] at h
  obtain ⟨_, _, _, rfl, rfl, rfl⟩ := h
  refine ⟨?_, ?_, ?_⟩ <;> rw [List.pairwise_map]
  · exact C12.phase_crossings_sorted _ _ _ _
  · exact C12.gain_crossings_sorted _ _ _ _
  · exact sortByW_sorted _

/-- DEFAULT RETURN (continuous time): `gm`, `wpc` come from a reported phase crossing with finite gain
margin whose `|log gm|` (ordered by `gmKey`) is smallest, `(inf, nan)` exactly when no crossing has a
finite gain margin; `pm`, `wgc` from the gain crossing with the smallest `|pm|` (`pmKey`), `sm`, `wms`
from the candidate with the smallest `|1 + r|` (`smKey`). -/
theorem generated_default_min (P : Prims K) (hc : CabsSpec P) (hd : AngleDegSpec P) (hl : LogSpec P)
    (num den n0 d0 : List K) (dt0 : K) (zw : List (Cx K) × List K) (epsw : K)
    (Bs Ss : List (K × Cx K))
    (hB : allSome (gainCrossings num den epsw (P.npRoots (mag1Poly num den))) = some Bs)
    (hS : allSome (stabCrossings num den epsw (P.npRoots (wstabPoly num den))) = some Ss)
    {gm pm sm wpc wgc wms : XF K}
    (h : Generated.stabilityMarginsSel P (respAt num den) true (polyIw num, polyIw den) n0 d0 dt0 zw
      false epsw = .ok (.mins gm pm sm wpc wgc wms)) :
    ((gm = .pinf ∧ wpc = .nan ∧
        ∀ c ∈ phaseCrossings num den epsw (P.npRoots (realCrossingPoly num den)), normSq c.2 = 0) ∨
      ∃ c ∈ phaseCrossings num den epsw (P.npRoots (realCrossingPoly num den)),
        gm = gmVal P (some c.2) ∧ wpc = .fin c.1 ∧ normSq c.2 ≠ 0 ∧
        ∀ c' ∈ phaseCrossings num den epsw (P.npRoots (realCrossingPoly num den)),
          gmKey c.2 ≤ gmKey c'.2) ∧
    ((pm = .pinf ∧ wgc = .nan ∧ Bs = []) ∨
      ∃ c ∈ Bs, pm = pmVal P (some c.2) ∧ wgc = .fin c.1 ∧ ∀ c' ∈ Bs, pmKey c.2 ≤ pmKey c'.2) ∧
    ((sm = .pinf ∧ wms = .nan ∧ Ss = []) ∨
      ∃ c ∈ Ss, sm = smVal P (some c.2) ∧ wms = .fin c.1 ∧
        ∀ c' ∈ Ss, normSq (c.2 + 1) ≤ normSq (c'.2 + 1)) := by
  rw [generated_sm_continuous_mins P hc hd hl num den n0 d0 dt0 zw epsw Bs Ss hB hS] at h
  simp only [smMins, smMinsOf, Except.ok.injEq, SmOut.mins.injEq] at h
  obtain ⟨rfl, rfl, rfl, rfl, rfl, rfl⟩ := h
  refine ⟨?_, ?_, ?_⟩
  · cases hg : defaultGm (phaseCrossings num den epsw (P.npRoots (realCrossingPoly num den))) with
    | none => exact Or.inl ⟨rfl, rfl, (C12.default_gm_none _).mp hg⟩
    | some c =>
      obtain ⟨h1, h2, h3⟩ := C12.default_gm_min _ c hg
      exact Or.inr ⟨c, h1, rfl, rfl, h2, h3⟩
  · cases hp : defaultPm Bs with
    | none => exact Or.inl ⟨rfl, rfl, (C12.default_pm_sm_none Bs).1.mp hp⟩
    | some c =>
      obtain ⟨h1, h2⟩ := C12.default_pm_min _ c hp
      exact Or.inr ⟨c, h1, rfl, rfl, h2⟩
  · cases hs : defaultSm Ss with
    | none => exact Or.inl ⟨rfl, rfl, (C12.default_pm_sm_none Ss).2.mp hs⟩
    | some c =>
      obtain ⟨h1, h2⟩ := C12.default_sm_min _ c hs
      exact Or.inr ⟨c, h1, rfl, rfl, h2⟩

/-! ### discrete time (`epsw = 0`) -/

/-- GENUINE (discrete phase crossings): every returned `(w, GM)` comes from a point `z` with `w = angle(z)/dt`;
if `z` lies exactly on the unit circle, it is in the closed upper half plane without the negative real
axis and the loop response there is real, `≤ 0`, with `GM = 1/|r|`. -/
theorem generated_z_phase_crossing_genuine (P : Prims K) (hc : CabsSpec P) (ha : AngleSpec P)
    (iw : (List K × List K) × (List K × List K)) (a b : K) (nt dn : List K) (dt : K) (zs : List (Cx K))
    (ws : List K) (hdt : 0 < dt) (hp : nt.length ≤ dn.length) (hzw : ws.length = zs.length)
    (heps1 : zEps P (zRealP2 (a :: nt) (b :: dn)) ≤ 1) (heps2 : zEps P (zMag1P2 (b :: dn)) ≤ 1)
    (hroots : ∀ z ∈ P.npRoots (zRealCrossingPoly (a :: nt) (b :: dn)),
      evalC (zRealCrossingPoly (a :: nt) (b :: dn)) z = 0)
    {GM PM SM : List (XF K)} {w180 wc wstab : List K}
    (h : Generated.stabilityMarginsSel P (respAt (a :: nt) (b :: dn)) false iw (a :: nt) (b :: dn) dt (zs, ws)
      true 0 = .ok (.all GM PM SM w180 wc wstab)) :
    List.Forall₂ (fun w g => ∃ z r : Cx K, w = P.angle z / dt ∧ g = gmVal P (some r) ∧
      (normSq z = 1 → upperHalf z = true ∧ r * evalC (b :: dn) z = evalC (a :: nt) z ∧ r.im = 0 ∧ r.re ≤ 0))
      w180 GM := by
  rw [generated_sm_discrete_all P hc ha iw _ _ dt zs ws hdt (by simpa using hp) hzw heps1 heps2] at h
  simp only [smAllOfZ, Except.ok.injEq, SmOut.all.injEq] at h
  obtain ⟨rfl, _, _, rfl, _, _⟩ := h
  apply forall₂_map_same
  intro c hcm
  exact ⟨c.1, c.2, rfl, rfl, fun hz => C12.z_phase_crossing_genuine hp hroots hcm hz⟩

/-- COMPLETE (discrete phase crossings): every point of the unit circle with `0 ≤ arg z < π` at which the loop
response is real and `≤ 0` is reported (frequency `angle(z)/dt`, `GM = 1/|r|` at the same position), if
`np.roots` returns every root of the test polynomial on that arc and the tolerance is positive. -/
theorem generated_z_phase_crossing_complete (P : Prims K) (hc : CabsSpec P) (ha : AngleSpec P)
    (iw : (List K × List K) × (List K × List K)) (a b : K) (nt dn : List K) (dt : K) (zs : List (Cx K))
    (ws : List K) (hdt : 0 < dt) (hp : nt.length ≤ dn.length) (hzw : ws.length = zs.length)
    (heps1 : zEps P (zRealP2 (a :: nt) (b :: dn)) ≤ 1) (heps2 : zEps P (zMag1P2 (b :: dn)) ≤ 1)
    (heps0 : 0 < zEps P (zRealP2 (a :: nt) (b :: dn)))
    (hcomplete : ∀ z, normSq z = 1 → upperHalf z = true →
      evalC (zRealCrossingPoly (a :: nt) (b :: dn)) z = 0 → z ∈ P.npRoots (zRealCrossingPoly (a :: nt) (b :: dn)))
    {GM PM SM : List (XF K)} {w180 wc wstab : List K}
    (h : Generated.stabilityMarginsSel P (respAt (a :: nt) (b :: dn)) false iw (a :: nt) (b :: dn) dt (zs, ws)
      true 0 = .ok (.all GM PM SM w180 wc wstab))
    {z r : Cx K} (hz : normSq z = 1) (hu : upperHalf z = true) (hD : evalC (b :: dn) z ≠ 0)
    (hr : r * evalC (b :: dn) z = evalC (a :: nt) z) (him : r.im = 0) (hre : r.re ≤ 0) :
    ∃ i : Nat, w180[i]? = some (P.angle z / dt) ∧ GM[i]? = some (gmVal P (some r)) := by
  rw [generated_sm_discrete_all P hc ha iw _ _ dt zs ws hdt (by simpa using hp) hzw heps1 heps2] at h
  simp only [smAllOfZ, Except.ok.injEq, SmOut.all.injEq] at h
  obtain ⟨rfl, _, _, rfl, _, _⟩ := h
  exact exists_index_of_mem _ (fun c => P.angle c.1 / dt) (fun c => gmVal P (some c.2)) (z, r)
    (C12.z_phase_crossing_complete hp heps0 hcomplete hz hu hD hr him hre)

/-- GENUINE (discrete gain crossings): every returned `(w, PM)` comes from a point `z`, `w = angle(z)/dt`,
`PM` computed from the loop response at `z`; if `z` is on the unit circle and the response `r` exists,
`im z > 0` and `|r| = 1`. -/
theorem generated_z_gain_crossing_genuine (P : Prims K) (hc : CabsSpec P) (ha : AngleSpec P)
    (iw : (List K × List K) × (List K × List K)) (a b : K) (nt dn : List K) (dt : K) (zs : List (Cx K))
    (ws : List K) (hdt : 0 < dt) (hp : nt.length ≤ dn.length) (hzw : ws.length = zs.length)
    (heps1 : zEps P (zRealP2 (a :: nt) (b :: dn)) ≤ 1) (heps2 : zEps P (zMag1P2 (b :: dn)) ≤ 1)
    (hroots : ∀ z ∈ P.npRoots (zMag1Poly (a :: nt) (b :: dn)), evalC (zMag1Poly (a :: nt) (b :: dn)) z = 0)
    {GM PM SM : List (XF K)} {w180 wc wstab : List K}
    (h : Generated.stabilityMarginsSel P (respAt (a :: nt) (b :: dn)) false iw (a :: nt) (b :: dn) dt (zs, ws)
      true 0 = .ok (.all GM PM SM w180 wc wstab)) :
    List.Forall₂ (fun w p => ∃ z : Cx K, w = P.angle z / dt ∧ p = pmVal P (respAt (a :: nt) (b :: dn) z) ∧
      ∀ r, respAt (a :: nt) (b :: dn) z = some r → normSq z = 1 →
        0 < z.im ∧ r * evalC (b :: dn) z = evalC (a :: nt) z ∧ normSq r = 1) wc PM := by
  rw [generated_sm_discrete_all P hc ha iw _ _ dt zs ws hdt (by simpa using hp) hzw heps1 heps2] at h
  simp only [smAllOfZ, Except.ok.injEq, SmOut.all.injEq] at h
  obtain ⟨_, rfl, _, _, rfl, _⟩ := h
  apply forall₂_map_same
  intro c hcm
  obtain ⟨z, r⟩ := c
  have hm := C12.mem_zGainCrossings.mp hcm
  refine ⟨z, rfl, by rw [hm.2.2.2.2], ?_⟩
  intro r' hr' hz
  have hc' : (z, some r') ∈ zGainCrossings (a :: nt) (b :: dn) (zEps P (zMag1P2 (b :: dn)))
      (P.npRoots (zMag1Poly (a :: nt) (b :: dn))) := by
    rw [hm.2.2.2.2] at hr'; rw [← hr']; exact hcm
  exact C12.z_gain_crossing_genuine hp hroots hc' hz

/-- COMPLETE (discrete gain crossings). -/
theorem generated_z_gain_crossing_complete (P : Prims K) (hc : CabsSpec P) (ha : AngleSpec P)
    (iw : (List K × List K) × (List K × List K)) (a b : K) (nt dn : List K) (dt : K) (zs : List (Cx K))
    (ws : List K) (hdt : 0 < dt) (hp : nt.length ≤ dn.length) (hzw : ws.length = zs.length)
    (heps1 : zEps P (zRealP2 (a :: nt) (b :: dn)) ≤ 1) (heps2 : zEps P (zMag1P2 (b :: dn)) ≤ 1)
    (heps0 : 0 < zEps P (zMag1P2 (b :: dn)))
    (hcomplete : ∀ z, normSq z = 1 → 0 < z.im →
      evalC (zMag1Poly (a :: nt) (b :: dn)) z = 0 → z ∈ P.npRoots (zMag1Poly (a :: nt) (b :: dn)))
    {GM PM SM : List (XF K)} {w180 wc wstab : List K}
    (h : Generated.stabilityMarginsSel P (respAt (a :: nt) (b :: dn)) false iw (a :: nt) (b :: dn) dt (zs, ws)
      true 0 = .ok (.all GM PM SM w180 wc wstab))
    {z r : Cx K} (hz : normSq z = 1) (him : 0 < z.im) (hD : evalC (b :: dn) z ≠ 0)
    (hr : r * evalC (b :: dn) z = evalC (a :: nt) z) (h1 : normSq r = 1) :
    ∃ i : Nat, wc[i]? = some (P.angle z / dt) ∧ PM[i]? = some (pmVal P (some r)) := by
  rw [generated_sm_discrete_all P hc ha iw _ _ dt zs ws hdt (by simpa using hp) hzw heps1 heps2] at h
  simp only [smAllOfZ, Except.ok.injEq, SmOut.all.injEq] at h
  obtain ⟨_, rfl, _, _, rfl, _⟩ := h
  exact exists_index_of_mem _ (fun c => P.angle c.1 / dt) (fun c => pmVal P c.2) (z, some r)
    (C12.z_gain_crossing_complete hp heps0 hcomplete hz him hD hr h1)

end
end CtrlVerif.C12GenSel
