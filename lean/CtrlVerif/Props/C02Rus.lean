/-
C02 under the option `remove_useless_states` (configuration history class: the option is switched
on by `set_defaults('statesp', remove_useless_states=True)`, by assigning
`config.defaults['statesp.remove_useless_states']`, by `use_legacy_defaults('0.8.x')`, or given as
the keyword of the constructor).  Then every `StateSpace(...)` call — in particular the one every
arithmetic operator ends with — finishes with `_remove_useless_states()`.

What is proved (`K` an arbitrary field, all sizes):

* `removeUseless_resp`, `construct_resp`: the constructor's final processing changes no value of
  the transfer matrix at any `s ≠ 0` in the sense of the run-time response `DSS.Resp` of C02 (both
  directions; at `s = 0` a dropped state is a pole of the unreduced realisation,
  `C03.useless_zero_eigenvalue`), keeps shape and timebase and never adds states.
* `rusOp_resp`, `rusOp_kind`, `rusOp_shape`: the same for an operand of the postfix program (driver
  instruction `rus`).
* `evalRus_resp`: **whatever a finite expression tree evaluates to, its value after the root
  operator's constructor call with the option on is still the value the algebra of transfer
  matrices prescribes** (`DSem`), at every `s ≠ 0`; `evalRus_states_le`: with at most the number
  of states of the unreduced result (= the sum over the leaves, `dtree_states`); `evalRus_error`:
  the option raises nothing and hides nothing; `evalRus_off`: with the option off it is `eval`.
* `leaf_rus_sem`: a leaf built with the option on (keyword or default) has the same `DSem` values
  as the leaf built from the same matrices without it.
* the rule the seeded change C02-m8 installs (zero ROW of `A` paired with zero column of `C`) is
  not sound: `integrator_chain_kept` / `integrator_chain_mutant` — in `G2 * G1` with `G1 = 1/s`,
  `G2 = 1/(s+1)` the correct rule keeps both states, the changed one would drop the integrator
  and change the value at `s = 1` from `1/2` to `0`.

Not proved here: the composition over the *inner* constructor calls of a tree (each sub-result
cleaned before it is used) — per node it is `rusOp_resp` followed by the per-operator response
theorems of `Props/C02Glue.lean`, but the induction over `DSem` is not written down; the
correspondence check compares exactly that program (a `rus` after every node).
-/
import CtrlVerif.Model.C02Rus
import CtrlVerif.Props.C03Rus
import CtrlVerif.Props.C02GlueTree

namespace CtrlVerif.C02.Rus

open CtrlVerif Matrix DSS CtrlVerif.Convert CtrlVerif.C02Rus CtrlVerif.C02.RT

variable {K : Type} [Field K] [DecidableEq K]

/-- `_remove_useless_states` preserves the run-time response at every `s ≠ 0`. -/
theorem removeUseless_resp (G : DSS K) {s : K} (hs : s ≠ 0) (p m : Nat)
    (Y : Matrix (Fin p) (Fin m) K) : (removeUseless G).Resp s p m Y ↔ G.Resp s p m Y := by
  constructor
  · rintro ⟨hp, hm, h⟩
    exact ⟨hp, hm, SS.Resp.of_restrict G.sys (keptStates G).get (keptStates_get_injective G)
      (not_kept_useless G) s hs _ h⟩
  · rintro ⟨hp, hm, h⟩
    exact ⟨hp, hm, SS.Resp.restrict G.sys (keptStates G).get (keptStates_get_injective G)
      (not_kept_useless G) s hs _ h⟩

/-- the constructor's final processing, whatever the option says: same values off `s = 0`. -/
theorem construct_resp (flag : Bool) (G : DSS K) {s : K} (hs : s ≠ 0) (p m : Nat)
    (Y : Matrix (Fin p) (Fin m) K) : (construct flag G).Resp s p m Y ↔ G.Resp s p m Y := by
  cases flag
  · exact Iff.rfl
  · exact removeUseless_resp G hs p m Y

/-- shape and timebase are kept, states are only dropped. -/
theorem construct_shape (flag : Bool) (G : DSS K) :
    (construct flag G).p = G.p ∧ (construct flag G).m = G.m ∧ (construct flag G).dt = G.dt ∧
      (construct flag G).n ≤ G.n := by
  obtain ⟨h1, h2, h3, h4, _⟩ := C03.construct_val flag G
  exact ⟨h1, h2, h3, h4⟩

/-- a system without an undriven state and without a state that drives nothing is returned
unchanged in size. -/
theorem construct_none (G : DSS K) (h : ∀ k, ¬ (G.sys.RowUseless k ∨ G.sys.ColUseless k)) :
    (construct true G).n = G.n := (C03.removeUseless_none G h).2

/-! ### operands of the postfix program -/

theorem rusOp_off (x : SOperand K) : rusOp false x = x := by
  cases x <;> rfl

theorem rusOp_kind (flag : Bool) (x : SOperand K) : (rusOp flag x).kind = x.kind := by
  cases x <;> rfl

theorem rusOp_toSys_shape (flag : Bool) (x : SOperand K) :
    (toSys (rusOp flag x)).p = (toSys x).p ∧ (toSys (rusOp flag x)).m = (toSys x).m ∧
      (toSys (rusOp flag x)).dt = (toSys x).dt ∧ (toSys (rusOp flag x)).n ≤ (toSys x).n := by
  cases x with
  | sys G => exact construct_shape flag G
  | scalar c => exact ⟨rfl, rfl, rfl, le_refl _⟩
  | array p m D => exact ⟨rfl, rfl, rfl, le_refl _⟩

/-- the instruction `rus` changes no value at `s ≠ 0`. -/
theorem rusOp_resp (flag : Bool) (x : SOperand K) {s : K} (hs : s ≠ 0) (p m : Nat)
    (Y : Matrix (Fin p) (Fin m) K) :
    (toSys (rusOp flag x)).Resp s p m Y ↔ (toSys x).Resp s p m Y := by
  cases x with
  | sys G => exact construct_resp flag G hs p m Y
  | scalar c => exact Iff.rfl
  | array p' m' D => exact Iff.rfl

/-! ### trees -/

theorem evalRus_off (e : SSTree K) : evalRus false e = e.eval := by
  unfold evalRus
  cases h : e.eval with
  | error err => rfl
  | ok x => simp [Except.map, rusOp_off]

/-- **The tree theorem under the option**: the result of a finite expression tree, after the
constructor call of its root operator has removed the useless states, has at every `s ≠ 0` the
value the algebra of transfer matrices prescribes for the tree. -/
theorem evalRus_resp (flag : Bool) {e : SSTree K} {s : K} (hs : s ≠ 0) {p m : Nat}
    {Y : Matrix (Fin p) (Fin m) K} (hY : SSTree.DSem e s p m Y) :
    ∀ x, evalRus flag e = .ok x → (toSys x).Resp s p m Y := by
  intro x hx
  unfold evalRus at hx
  cases h : e.eval with
  | error err => rw [h] at hx; simp [Except.map] at hx
  | ok y =>
    rw [h] at hx
    simp only [Except.map, Except.ok.injEq] at hx
    subst hx
    exact (rusOp_resp flag y hs p m Y).mpr (dtree_resp hY y h)

/-- the option only drops states: at most the state count of the unreduced result. -/
theorem evalRus_states_le (flag : Bool) (e : SSTree K) :
    ∀ x, evalRus flag e = .ok x → ∃ y, e.eval = .ok y ∧ (toSys x).n ≤ (toSys y).n ∧
      (toSys x).p = (toSys y).p ∧ (toSys x).m = (toSys y).m ∧ (toSys x).dt = (toSys y).dt := by
  intro x hx
  unfold evalRus at hx
  cases h : e.eval with
  | error err => rw [h] at hx; simp [Except.map] at hx
  | ok y =>
    rw [h] at hx
    simp only [Except.map, Except.ok.injEq] at hx
    subst hx
    obtain ⟨h1, h2, h3, h4⟩ := rusOp_toSys_shape flag y
    exact ⟨y, rfl, h4, h1, h2, h3⟩

/-- the option raises nothing and hides no error. -/
theorem evalRus_error (flag : Bool) (e : SSTree K) (err : SSEvalErr) :
    evalRus flag e = .error err ↔ e.eval = .error err := by
  unfold evalRus
  cases h : e.eval with
  | error err' => simp [Except.map]
  | ok y => simp [Except.map]

/-- a leaf built with the option on has the values of the leaf built without it. -/
theorem leaf_rus_sem (flag : Bool) (x : SOperand K) {s : K} (hs : s ≠ 0) {p m : Nat}
    {Y : Matrix (Fin p) (Fin m) K} (h : SSTree.DSem (.leaf x) s p m Y) :
    SSTree.DSem (.leaf (rusOp flag x)) s p m Y := by
  cases x with
  | sys G =>
    cases h with
    | sys hG => exact .sys ((construct_resp flag G hs p m Y).mpr hG)
  | scalar c => exact h
  | array p' m' D => exact h

/-! ### non-vacuity, and the unsound pairing (row of `A` with column of `C`) -/

/-- `G2 * G1` with `G1 = 1/s` first and `G2 = 1/(s+1)`: states `(x_G1, x_G2)`,
`A = [[0,0],[1,-1]]`, `B = [1,0]ᵀ`, `C = [0 1]`. -/
def chainSS : SS (Fin 2) (Fin 1) (Fin 1) ℚ := ⟨!![0, 0; 1, -1], !![1; 0], !![0, 1], !![0]⟩

def chain : DSS ℚ := ⟨2, 1, 1, chainSS, .cont⟩

/-- the code's rule keeps both states of the integrator chain … -/
theorem integrator_chain_kept : (keptStates chain).map (·.val) = [0, 1] := by decide +kernel

example : (construct true chain).n = 2 := by
  show (keptStates chain).length = 2
  have := congrArg List.length integrator_chain_kept
  simpa using this

/-- … although the integrator state has a zero ROW of `A` and a zero column of `C` (what the
seeded change C02-m8 tests), and dropping it changes the value at `s = 1` from `1/2` to `0`. -/
theorem integrator_chain_mutant :
    (∀ j, chainSS.A 0 j = 0) ∧ (∀ i, chainSS.C i 0 = 0) ∧
      chainSS.Resp 1 (fun _ _ => 1 / 2) ∧
      (chainSS.restrict (fun _ : Fin 1 => (1 : Fin 2))).Resp 1 (fun _ _ => 0) := by
  refine ⟨by decide, by decide, ⟨!![1; 1 / 2], by decide +kernel, ?_⟩,
    ⟨(0 : Matrix (Fin 1) (Fin 1) ℚ), by decide +kernel, ?_⟩⟩
  · ext i j
    fin_cases i; fin_cases j
    rw [Matrix.add_apply, Matrix.mul_apply, Fin.sum_univ_two]
    simp [chainSS]
  · ext i j
    simp [SS.restrict, chainSS]

/-- a genuinely useless state is dropped: `A = [[0,1],[0,0]], B = 0` — state 1 is undriven. -/
example : (keptStates (⟨2, 1, 1, ⟨!![0, 1; 0, 0], !![0; 0], !![1, 0], !![2]⟩, .cont⟩ : DSS ℚ)).map
    (·.val) = [0] := by decide +kernel

end CtrlVerif.C02.Rus
