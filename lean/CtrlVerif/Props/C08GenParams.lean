/-
Source-text tie of C08, part 4: `NonlinearIOSystem._update_params` and
`InterconnectedSystem._update_params` (control/nlsys.py).  `Generated/NLUpdateLeaf.lean`,
`Generated/NLUpdateNode.lean` are rewritten from the source text on every run; the model
(`PObj.update`, `PObj.updateSubs` of `Model/IOSysHist.lean`) is proved EQUAL to them.
-/
import CtrlVerif.Generated.NLUpdateLeaf
import CtrlVerif.Generated.NLUpdateNode
import CtrlVerif.Lemmas.PyNL
import CtrlVerif.Props.C08

namespace CtrlVerif.C08Gen

open CtrlVerif PyNL PObj

/-- the `params` argument of a call as the model's dictionary (`None` and `{}` are the same). -/
def envOf (params : Option ParamEnv) : ParamEnv := params.getD []

/-- `self.params` of every subsystem, in order. -/
def subParams : PObjs → List ParamEnv
  | .nil => []
  | .cons s rest => s.params :: subParams rest

/-- the subsystems after `sub._update_params(d)` with the dictionaries `ds`, in order. -/
def applyLocals : PObjs → List ParamEnv → PObjs
  | .nil, _ => .nil
  | .cons s rest, d :: ds => .cons (update s d) (applyLocals rest ds)
  | .cons s rest, [] => .cons s (applyLocals rest [])

theorem truthy_update (cur : ParamEnv) (params : Option ParamEnv) :
    (if PyNL.Dict.truthy params = true then PyNL.Dict.updateOpt cur params else cur) = envOf params ++ cur := by
  cases params with
  | none => simp [PyNL.Dict.truthy, envOf]
  | some e =>
    cases e with
    | nil => simp [PyNL.Dict.truthy, envOf]
    | cons a as => simp [PyNL.Dict.truthy, PyNL.Dict.updateOpt, PyNL.Dict.update, envOf]

/-- **generated_updateLeaf_eq**: `NonlinearIOSystem._update_params(params)` as the source text
defines it leaves `_current_params` = the call's dictionary over `self.params` — for every
`self.params` and every `params` (`None`, empty, non-empty): the model's `update` on a leaf,
whatever an earlier call left there. -/
theorem generated_updateLeaf_eq (ps d cur : ParamEnv) (params : Option ParamEnv) :
    (Generated.nlUpdateLeaf ps params).map (fun c => PObj.leaf ps d c)
      = .ok (update (.leaf ps d cur) (envOf params)) := by
  unfold Generated.nlUpdateLeaf
  by_cases ht : PyNL.Dict.truthy params = true
  · have := truthy_update ps params
    simp only [ht, if_true] at this
    simp [ht, this, bind, Except.bind, pure, Except.pure, Except.map, update]
  · have := truthy_update ps params
    simp only [ht] at this
    simp [ht, ← this, bind, Except.bind, pure, Except.pure, Except.map, update]

/-- the model's loop over `syslist` in terms of the dictionaries handed down. -/
theorem applyLocals_locals : ∀ (subs : PObjs) (pre : ParamEnv),
    applyLocals subs ((subParams subs).map fun s => pre ++ s) = updateSubs subs pre
  | .nil, _ => rfl
  | .cons s rest, pre => by
    simp only [subParams, List.map_cons, applyLocals, updateSubs]
    rw [applyLocals_locals rest pre]

/-- **generated_updateNode_eq**: `InterconnectedSystem._update_params(params)` as the source text
defines it hands to every subsystem of `syslist`, in order, the dictionary `params` over
`self.params` over the subsystem's own `params` — the model's `updateSubs`, for every list of
subsystems (any number, any nesting below them), every dictionaries. -/
theorem generated_updateNode_eq (ps : ParamEnv) (subs : PObjs) (params : Option ParamEnv) :
    (Generated.nlUpdateNode ps (subParams subs) params).map (applyLocals subs)
      = .ok (updateSubs subs (envOf params ++ ps)) := by
  unfold Generated.nlUpdateNode
  simp only []
  rw [foldlM_pure_append (fun s => envOf params ++ ps ++ s) _ ?_ (subParams subs) []]
  · simp only [bind, Except.bind, pure, Except.pure, Except.map, List.nil_append]
    congr 1
    exact applyLocals_locals subs (envOf params ++ ps)
  · intro acc a
    have h := truthy_update (ps ++ a) params
    by_cases ht : PyNL.Dict.truthy params = true
    · simp only [ht, if_true] at h
      simp only [ht, if_true, bind, Except.bind, pure, Except.pure, PyNL.Dict.update, h, List.append_assoc]
    · simp only [ht] at h
      simp only [Bool.false_eq_true, if_false] at h
      simp only [ht, Bool.false_eq_true, if_false, bind, Except.bind, pure, Except.pure, PyNL.Dict.update]
      rw [List.append_assoc, ← h]

/-- the whole method on an interconnection. -/
theorem generated_updateNode_update (ps : ParamEnv) (subs : PObjs) (params : Option ParamEnv) :
    (Generated.nlUpdateNode ps (subParams subs) params).map (fun ds => PObj.node ps (applyLocals subs ds))
      = .ok (update (.node ps subs) (envOf params)) := by
  have h := generated_updateNode_eq ps subs params
  cases hg : Generated.nlUpdateNode ps (subParams subs) params with
  | error e => simp [hg, Except.map] at h
  | ok ds =>
    simp only [hg, Except.map, Except.ok.injEq] at h
    simp [Except.map, update, h]

/-- transported **update_params_history** (leaf): after any earlier history, the method of the
source text leaves a leaf in the state it gives on a never-used object. -/
theorem generated_updateLeaf_history (ps d : ParamEnv) (h : List (List Nat × ParamEnv))
    (params : Option ParamEnv) :
    ∃ c, Generated.nlUpdateLeaf ps params = .ok c ∧
      update (runHist (.leaf ps d []) h) (envOf params) = .leaf ps d c := by
  have hh := C08.update_params_history (.leaf ps d []) h (envOf params)
  have hg := generated_updateLeaf_eq ps d [] params
  cases hc : Generated.nlUpdateLeaf ps params with
  | error e => simp [hc, Except.map] at hg
  | ok c =>
    simp only [hc, Except.map, Except.ok.injEq] at hg
    refine ⟨c, rfl, ?_⟩
    rw [hh, hg]

/-- non-vacuity: override `a`, keep `b`; `None` and `{}` reset. -/
example : Generated.nlUpdateLeaf [("a", (1 : ℚ)), ("b", 2)] (some [("a", 9)])
    = .ok [("a", 9), ("a", 1), ("b", 2)] := by decide +kernel
example : Generated.nlUpdateLeaf [("a", (1 : ℚ))] none = .ok [("a", 1)] := by decide +kernel
example : Generated.nlUpdateNode [("g", (5 : ℚ))] [[("a", 1)], [("b", 2)]] (some [("a", 9)])
    = .ok [[("a", 9), ("g", 5), ("a", 1)], [("a", 9), ("g", 5), ("b", 2)]] := by decide +kernel

end CtrlVerif.C08Gen
