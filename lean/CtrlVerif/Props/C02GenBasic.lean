/-
Source-text tie of C02, part 1: `StateSpace.__neg__` and `StateSpace.append`.
`Generated/SSBasic.lean` is rewritten from control/statesp.py on every run
(harness/core/py2lean_ss.py); the theorems below prove the run-time model operators `DSS.neg`,
`DSS.append` (`Model/SSDyn.lean`) EQUAL to the generated functions, for all sizes, entries, operand
kinds and timebases.
-/
import CtrlVerif.Generated.SSBasic
import CtrlVerif.Lemmas.PyMat

namespace CtrlVerif.C02Gen

open Matrix CtrlVerif

variable {K : Type} [Field K] [DecidableEq K]

/-- **`__neg__`**: the function the source text defines never raises and returns the model's
`DSS.neg`. -/
theorem generated_neg_eq (G : DSS K) : Generated.ssNeg G = .ok G.neg := by
  obtain ⟨n, p, m, ⟨A, B, C, D⟩, dt⟩ := G
  simp [Generated.ssNeg, PySS.A, PySS.B, PySS.C, PySS.D, DSS.neg, SS.neg]

/-- **`append`**: the zero-filled arrays with the two diagonal blocks assigned are the model's block
diagonals; the other operand is converted first; the timebase is the common one. -/
theorem generated_append_eq (G : DSS K) (x : SOperand K) :
    Generated.ssAppend G x = G.append (DSS.toSys x) := by
  rw [DSS.append_eq]
  unfold Generated.ssAppend
  rw [PySS.convert_eq]
  generalize DSS.toSys x = H
  obtain ⟨n, p, m, ⟨A, B, C, D⟩, dt⟩ := G
  obtain ⟨n', p', m', ⟨A', B', C', D'⟩, dt'⟩ := H
  simp only [PySS.A, PySS.B, PySS.C, PySS.D]
  cases common dt dt' with
  | error e => rfl
  | ok d =>
    simp only [bind, Except.bind, PMat.zeros_blocks, PMat.setSlice_topLeft, PMat.setSlice_botRight,
      PySS.mk_mk]
    simp [SS.append, SS.flatS, SS.flatIO, SS.reindex, SS.select, Matrix.submatrix_submatrix]

/-- non-vacuity: a 1-state SISO system appended to a static 1×2 gain (over ℚ) is returned. -/
example : ∃ R, Generated.ssAppend (K := ℚ) ⟨1, 1, 1, ⟨!![1], !![2], !![3], !![4]⟩, .cont⟩
    (.array 1 2 !![5, 6]) = .ok R ∧ R.n = 1 ∧ R.p = 2 ∧ R.m = 3 := by
  rw [generated_append_eq]
  exact ⟨_, rfl, rfl, rfl, rfl⟩

end CtrlVerif.C02Gen
