/-
Source-text tie of C02, part 6: `StateSpace.lft`.
`Generated/SSLft.lean` is rewritten from control/statesp.py on every run
(harness/core/py2lean_ss.py); the theorems below prove the run-time model operator `DSS.lft`
(`Model/SSDyn.lean: lft, lftSS, lftUpper, lftLower`, built on the typed `SS.lft`) EQUAL to the
generated function on every partition on which the operation is defined (`nu`, `ny` or their `-1`
defaults resolved to `0 ≤ nu ≤ min(ninputs, other.noutputs)`, `0 ≤ ny ≤ min(noutputs,
other.ninputs)`), for every kind of lower operand, all sizes, entries and timebases:
* the 16 slices `self.B[:, :ninputs-nu]`, … `other.D[nu:, ny:]` are the partitions `lftUpper` /
  `lftLower` of the model (Python slice semantics with the computed integer bounds);
* `F = np.block([[I, -D22], [-Dbar11, I]])` is the model's `lftF` re-typed, `matrix_rank(F) != ny+nu`
  is `det F = 0`;
* `TH = np.linalg.solve(F, np.block([[C2, 0, D21, 0], [0, Cbar1, 0, Dbar12]]))` cut into `T11 … H22`
  by the 8 integer slices is the model's `F⁻¹ [[C2 0 D21 0], [0 Cbar1 0 Dbar12]]` cut by `toBlocks`
  (the inverse commutes with the re-typing `Fin a ⊕ Fin b ≃ Fin (a + b)`);
* the four result blocks `Ares … Dres` are the model's.
On the remaining (invalid) partitions both sides raise; see `generated_lft_eq_partial` for what is
and is not proved there.
-/
import CtrlVerif.Generated.SSLft
import CtrlVerif.Lemmas.PyMat

namespace CtrlVerif.C02Gen

open Matrix CtrlVerif PMat

variable {K : Type} [Field K] [DecidableEq K]

/-- **`lft` on a valid partition** (`nu`, `ny` given as sizes): after the common timebase, the function
the source text defines is the model's `lftSS`. -/
theorem generated_lft_valid (G H : DSS K) (nuN nyN : Nat)
    (h : nuN ≤ G.m ∧ nuN ≤ H.p ∧ nyN ≤ G.p ∧ nyN ≤ H.m) :
    Generated.ssLft G (.sys H) nuN nyN = (common G.dt H.dt).bind fun dt => DSS.lftSS G H nuN nyN h dt := by
  have hnu : ¬ ((nuN : Int) = -1) := by omega
  have hny : ¬ ((nyN : Int) = -1) := by omega
  unfold Generated.ssLft
  rw [PySS.convert_eq]
  simp only [DSS.toSys]
  obtain ⟨n, p, m, ⟨A, B, C, D⟩, dt⟩ := G
  obtain ⟨n', p', m', ⟨A', B', C', D'⟩, dt'⟩ := H
  obtain ⟨hu, hu', hy, hy'⟩ := h
  simp only at hu hu' hy hy'
  simp only [PySS.A, PySS.B, PySS.C, PySS.D]
  simp only [hnu, hny, ↓reduceIte, bind, pure, Except.pure, Except.ok_bind']
  refine Except.bind_congr' fun d => ?_
  -- the sizes, the 16 slices, the two `np.block`s, the rank test, the solve
  simp only [eyeI_natCast, zerosI_natCast, zerosI_sub _ _ _ hy', zerosI_sub _ _ _ hu, Except.ok_bind']
  simp only [sliceRows_U1 _ _ _ _ hy, sliceRows_U2 _ _ _ _ hy, sliceCols_U1 _ _ _ _ hu, sliceCols_U2 _ _ _ _ hu,
    sliceRows_L1 _ _ _ _ hu', sliceRows_L2 _ _ _ _ hu', sliceCols_L1 _ _ _ _ hy', sliceCols_L2 _ _ _ _ hy',
    neg_mk', block22_mk, block24_mk, Except.ok_bind', rank_ne_int, solve_mk]
  set Fm := SS.lftF (DSS.lftUpper ⟨n, p, m, ⟨A, B, C, D⟩, dt⟩ nuN nyN hu hy)
    (DSS.lftLower ⟨n', p', m', ⟨A', B', C', D'⟩, dt'⟩ nuN nyN hu' hy') with hFm
  have hF : fromBlocks 1 (-(colsU (rowsU D nyN hy).toRows₂ nuN hu).toCols₂)
      (-(colsL (rowsL D' nuN hu').toRows₁ nyN hy').toCols₁) 1 = Fm := rfl
  rw [hF]
  simp only [PMat.det_reindex]
  unfold DSS.lftSS
  simp only [← hFm]
  by_cases hdet : Fm.det = 0
  · simp only [hdet, ↓reduceIte, throw, throwThe, MonadExceptOf.throw]
  · simp only [hdet, ↓reduceIte, Except.ok_bind']
    -- `TH[:ny | ny:, …]`: the four column blocks of `n + (n' + ((m - nu) + (m' - ny)))` columns; which of
    -- the four a slice `TH[.., lo:hi]` is, is decided from the VALUES of its integer bounds (side conditions
    -- discharged by `omega`), so re-arranged bound expressions in the source still go through
    have c1 := fun r M hi h => sliceCols4_1i (K := K) r n n' (m - nuN) (m' - nyN) M hi h
    have c2 := fun r M lo hi h1 h2 => sliceCols4_2i (K := K) r n n' (m - nuN) (m' - nyN) M lo hi h1 h2
    have c3 := fun r M lo hi h1 h2 => sliceCols4_3i (K := K) r n n' (m - nuN) (m' - nyN) M lo hi h1 h2
    have c4 := fun r M lo h1 => sliceCols4_4i (K := K) r n n' (m - nuN) (m' - nyN) M lo h1
    simp only [sliceRows_prefix, sliceRows_suffix]
    simp (disch := omega) only [c1, c2, c3, c4]
    simp only [TH_rows1, TH_rows2, cols4_sel1, cols4_sel2, cols4_sel3, cols4_sel4, matmul_mk, add_mk, block22_mk,
      Except.ok_bind', PySS.mk_mk]
    -- the model, block by block
    rw [SS.ofTable_table]
    simp only [pure, Except.pure, SS.lft, SS.flatS, SS.flatIO, SS.reindex, SS.select, th_c1_11, th_c1_12, th_c1_21,
      th_c1_22, th_c2_11, th_c2_12, th_c2_21, th_c2_22, Matrix.submatrix_submatrix]
    rfl

/-- the `-1` defaults and the conversion of the operand: the generated function only depends on the
resolved partition. -/
theorem generated_lft_resolve (G : DSS K) (x : SOperand K) (nu ny : Int)
    (hnu : DSS.lftRes (DSS.toSys x).p G.m nu ≠ -1) (hny : DSS.lftRes (DSS.toSys x).m G.p ny ≠ -1) :
    Generated.ssLft G x nu ny
      = Generated.ssLft G (.sys (DSS.toSys x)) (DSS.lftRes (DSS.toSys x).p G.m nu)
          (DSS.lftRes (DSS.toSys x).m G.p ny) := by
  unfold Generated.ssLft
  simp only [PySS.convert_eq]
  generalize DSS.toSys x = H at hnu hny ⊢
  have hH : DSS.toSys (SOperand.sys H) = H := rfl
  rw [hH]
  unfold DSS.lftRes at hnu hny ⊢
  by_cases h1 : nu = -1 <;> by_cases h2 : ny = -1 <;>
    simp only [h1, h2, ↓reduceIte, Nat.cast_min] at hnu hny ⊢ <;>
    simp only [hnu, hny, ↓reduceIte, bind, pure, Except.pure, Except.ok_bind']

/-- the partition `lft` works on is one for which the operation is defined. -/
def LftValid (G : DSS K) (x : SOperand K) (nu ny : Int) : Prop :=
  let H := DSS.toSys x
  let ny' := DSS.lftRes H.m G.p ny
  let nu' := DSS.lftRes H.p G.m nu
  0 ≤ nu' ∧ 0 ≤ ny' ∧ nu'.toNat ≤ G.m ∧ nu'.toNat ≤ H.p ∧ ny'.toNat ≤ G.p ∧ ny'.toNat ≤ H.m

/-- **`lft`** on every partition on which the operation is defined (explicit `nu`, `ny` or the `-1`
defaults), for every kind of lower operand: the function the source text defines is the model's
`DSS.lft`.

PARTIAL.  Full statement: `∀ G x nu ny, Generated.ssLft G x nu ny = DSS.lft G x nu ny`.  It is FALSE
as an equation on invalid partitions: there both sides raise (`generated_lft_invalid`), but the
model always tags the error `shape` while the code may get as far as the rank test with a
non-square `F` and raise "LFT not well-posed" (`illPosed`), e.g. `ny = 1 > other.ninputs = 0`,
`nu = 2 > ninputs = 1`.  What holds for all arguments is `generated_lft_ok_iff`. -/
theorem generated_lft_eq_partial (G : DSS K) (x : SOperand K) (nu ny : Int) (hv : LftValid G x nu ny) :
    Generated.ssLft G x nu ny = DSS.lft G x nu ny := by
  obtain ⟨h0u, h0y, hrest⟩ := hv
  rw [generated_lft_resolve G x nu ny (by omega) (by omega)]
  have eu : DSS.lftRes (DSS.toSys x).p G.m nu = ((DSS.lftRes (DSS.toSys x).p G.m nu).toNat : Int) := by omega
  have ey : DSS.lftRes (DSS.toSys x).m G.p ny = ((DSS.lftRes (DSS.toSys x).m G.p ny).toNat : Int) := by omega
  rw [eu, ey, generated_lft_valid G (DSS.toSys x) _ _ hrest]
  unfold DSS.lft
  simp only [bind]
  refine Except.bind_congr' fun d => ?_
  have hcond : 0 ≤ (if nu = -1 then min ((DSS.toSys x).p : Int) (G.m : Int) else nu) ∧
      0 ≤ (if ny = -1 then min ((DSS.toSys x).m : Int) (G.p : Int) else ny) ∧
      (if nu = -1 then min ((DSS.toSys x).p : Int) (G.m : Int) else nu).toNat ≤ G.m ∧
      (if nu = -1 then min ((DSS.toSys x).p : Int) (G.m : Int) else nu).toNat ≤ (DSS.toSys x).p ∧
      (if ny = -1 then min ((DSS.toSys x).m : Int) (G.p : Int) else ny).toNat ≤ G.p ∧
      (if ny = -1 then min ((DSS.toSys x).m : Int) (G.p : Int) else ny).toNat ≤ (DSS.toSys x).m :=
    ⟨h0u, h0y, hrest⟩
  rw [dif_pos hcond]
  rfl


/-- the head of `lft` (build `F`, test its rank) raises when the four blocks of `F` do not fit or
`F` has fewer than `N` columns. -/
theorem lft_head_err (E1 X Y E2 : PMat K) (N : Int) (rest : PMat K → Except Err (DSS K))
    (h : ¬(X.r = E1.r ∧ E2.r = Y.r ∧ Y.c + E2.c = E1.c + X.c ∧ N ≤ ((E1.c + X.c : Nat) : Int))) :
    ∃ e, (((hcat E1 X).bind fun r1 => (hcat Y E2).bind fun r2 => vcat r1 r2).bind fun F =>
      if ((PMat.rank F : Nat) : Int) ≠ N then throw Err.illPosed else rest F) = .error e ∧
      (e = .shape ∨ e = .illPosed) := by
  cases hr1 : hcat E1 X with
  | error e => exact ⟨e, rfl, Or.inl (hcat_error_eq hr1)⟩
  | ok r1 =>
    cases hr2 : hcat Y E2 with
    | error e => exact ⟨e, rfl, Or.inl (hcat_error_eq hr2)⟩
    | ok r2 =>
      cases hF : vcat r1 r2 with
      | error e => exact ⟨e, by simp only [Except.ok_bind', hF, Except.error_bind'], Or.inl (vcat_error_eq hF)⟩
      | ok F =>
        obtain ⟨h1, -, hc1⟩ := hcat_ok_dims hr1
        obtain ⟨h2, -, hc2⟩ := hcat_ok_dims hr2
        obtain ⟨h3, -, hFc⟩ := vcat_ok_dims hF
        have hrk := rank_le_c F
        have hlt : ((PMat.rank F : Nat) : Int) ≠ N := by
          intro hN
          apply h
          refine ⟨h1, h2, by omega, ?_⟩
          rw [← hN]
          have : PMat.rank F ≤ E1.c + X.c := by omega
          exact_mod_cast this
        exact ⟨.illPosed, by simp only [Except.ok_bind', hF, hlt, ne_eq, not_false_eq_true, ↓reduceIte]; rfl,
          Or.inr rfl⟩

/-- on a resolved partition that is NOT valid the generated `lft` raises: the error of
`common_timebase`, else a dimension error, else "not well-posed" (a non-square `F`). -/
theorem generated_lft_invalid_sys (G H : DSS K) (nu ny : Int) (hnu : nu ≠ -1) (hny : ny ≠ -1)
    (hinv : ¬(0 ≤ nu ∧ 0 ≤ ny ∧ nu.toNat ≤ G.m ∧ nu.toNat ≤ H.p ∧ ny.toNat ≤ G.p ∧ ny.toNat ≤ H.m)) :
    ∃ e, Generated.ssLft G (.sys H) nu ny = .error e ∧
      (common G.dt H.dt = .error e ∨ ((∃ d, common G.dt H.dt = .ok d) ∧ (e = .shape ∨ e = .illPosed))) := by
  unfold Generated.ssLft
  rw [PySS.convert_eq]
  have hH : DSS.toSys (SOperand.sys H) = H := rfl
  rw [hH]
  simp only [hnu, hny, ↓reduceIte, bind, pure, Except.pure, Except.ok_bind']
  cases hc : common G.dt H.dt with
  | error e => exact ⟨e, rfl, Or.inl rfl⟩
  | ok d =>
    simp only [Except.ok_bind']
    by_cases h1 : ny < 0
    · exact ⟨.shape, by simp only [eyeI, h1, ↓reduceIte, Except.error_bind'], Or.inr ⟨⟨d, rfl⟩, Or.inl rfl⟩⟩
    by_cases h2 : nu < 0
    · exact ⟨.shape, by simp only [eyeI, h1, h2, ↓reduceIte, Except.ok_bind', Except.error_bind'],
        Or.inr ⟨⟨d, rfl⟩, Or.inl rfl⟩⟩
    simp only [eyeI, h1, h2, ↓reduceIte, Except.ok_bind', block22_eq]
    refine Exists.imp (fun e h => ⟨h.1, Or.inr ⟨⟨d, rfl⟩, h.2⟩⟩) (lft_head_err _ _ _ _ _ _ ?_)
    obtain ⟨n, p, m, ⟨A, B, C, D⟩, dt⟩ := G
    obtain ⟨n', p', m', ⟨A', B', C', D'⟩, dt'⟩ := H
    simp only [PySS.D, PMat.neg, PMat.sliceCols, PMat.sliceRows, PMat.eye, sliceBound] at hinv ⊢
    split_ifs <;> omega

theorem lftRes_ne_neg_one (a b : Nat) (k : Int) : DSS.lftRes a b k ≠ -1 := by
  unfold DSS.lftRes
  split <;> omega

/-- the model on a partition that is not valid: the error of `common_timebase`, else `shape`. -/
theorem model_lft_invalid (G : DSS K) (x : SOperand K) (nu ny : Int) (hinv : ¬LftValid G x nu ny) :
    DSS.lft G x nu ny = (common G.dt (DSS.toSys x).dt).bind fun _ => .error .shape := by
  unfold DSS.lft
  simp only [bind]
  refine Except.bind_congr' fun d => ?_
  rw [dif_neg]
  exact hinv

/-- **`lft` on the other partitions**: the function the source text defines raises, as the model does;
the error is the same (`common_timebase`'s, `shape`) except that the code may raise "not
well-posed" (`illPosed`: a non-square `F` fails the rank test) where the model says `shape`. -/
theorem generated_lft_invalid (G : DSS K) (x : SOperand K) (nu ny : Int) (hinv : ¬LftValid G x nu ny) :
    ∃ e, Generated.ssLft G x nu ny = .error e ∧
      (DSS.lft G x nu ny = .error e ∨ (e = .illPosed ∧ DSS.lft G x nu ny = .error .shape)) := by
  rw [generated_lft_resolve G x nu ny (lftRes_ne_neg_one _ _ _) (lftRes_ne_neg_one _ _ _),
    model_lft_invalid G x nu ny hinv]
  obtain ⟨e, he, hk⟩ := generated_lft_invalid_sys G (DSS.toSys x) _ _ (lftRes_ne_neg_one _ _ _)
    (lftRes_ne_neg_one _ _ _) hinv
  refine ⟨e, he, ?_⟩
  rcases hk with hk | ⟨⟨d, hd⟩, rfl | rfl⟩
  · exact Or.inl (by rw [hk]; rfl)
  · exact Or.inl (by rw [hd]; rfl)
  · exact Or.inr ⟨rfl, by rw [hd]; rfl⟩

/-- **for ALL arguments**: a result is returned by the generated `lft` exactly when the model returns
it (and it is then the same system). -/
theorem generated_lft_ok_iff (G : DSS K) (x : SOperand K) (nu ny : Int) (R : DSS K) :
    Generated.ssLft G x nu ny = .ok R ↔ DSS.lft G x nu ny = .ok R := by
  by_cases hv : LftValid G x nu ny
  · rw [generated_lft_eq_partial G x nu ny hv]
  · obtain ⟨e, he, hm⟩ := generated_lft_invalid G x nu ny hv
    rw [he]
    rcases hm with hm | ⟨-, hm⟩ <;> rw [hm] <;> simp

/-- **for ALL arguments**: the generated `lft` raises exactly when the model raises. -/
theorem generated_lft_error_iff (G : DSS K) (x : SOperand K) (nu ny : Int) :
    (∃ e, Generated.ssLft G x nu ny = .error e) ↔ (∃ e, DSS.lft G x nu ny = .error e) := by
  by_cases hv : LftValid G x nu ny
  · rw [generated_lft_eq_partial G x nu ny hv]
  · obtain ⟨e, he, hm⟩ := generated_lft_invalid G x nu ny hv
    constructor
    · intro _
      rcases hm with hm | ⟨-, hm⟩ <;> exact ⟨_, hm⟩
    · intro _; exact ⟨e, he⟩


end CtrlVerif.C02Gen
