/-
Source-text tie of C11, part 3: `lqr(*args, **kwargs)` and `dlqr(*args, **kwargs)` (control/statefbk.py).
`Generated/SfbLqr.lean` is rewritten from the source text on every run (harness/core/py2lean_sfb.py):
one arm per kind of `args[0]` (no argument, `StateSpace`, other LTI object, array-like) and per kind of the
keyword `integral_action` (absent, ndarray, something else); `care` / `dare` are parameters.  The theorems
below prove that, for BOTH call forms, every timebase, with and without cross weight `N`, with and without
integral action, the generated functions are the model's plumbing: `route` (dispatch of a strictly
discrete-time system to `dlqr`, refusal of a continuous one by `dlqr`), `intBlock` (integrator block
`zeros` / `eye`), `augA`, `augB` (the augmentation `[[A, 0], [C, J]]`, `[[B], [0]]`), the default cross
weight of `dlqr`, and the re-ordering `(X, L, G) ↦ (G, X, L)` of the typed `lqr` — and that whenever the
run-time model `lqrDyn` says "routine `rt` is called with arguments `a`", the generated function IS that
call (`generated_lqr_reaches`).
-/
import CtrlVerif.Generated.SfbLqr
import CtrlVerif.Props.C11GenSpec

namespace CtrlVerif.C11Gen
open Matrix CtrlVerif CtrlVerif.StateFbk
variable {K : Type} [Field K] [DecidableEq K] {ε : Type}

/-- **`dlqr(sys, Q, R[, N], integral_action=…)`** -/
theorem generated_dlqr_sys (care dare : PySfb.RicFn K ε) (G : DSS K) (Q R : PMat K) (N : Option (PMat K))
    (kw : PySfb.Kw K) :
    Generated.sfDlqr care dare (sysArgs G Q R N) kw
      = (route .dlqr (some G.dt)).bind fun rt => lqSpec care dare rt G.sys.A G.sys.B Q R N kw := by
  unfold Generated.sfDlqr sysArgs
  simp only [List.length_cons, argAt_zero, argAt_succ, toArray_arr, bind, Except.ok_bind', route_dlqr]
  rw [if_neg (by omega)]
  by_cases hd : DtPred.isctime true G.dt = true
  · rw [if_pos hd, if_pos hd]; rfl
  rw [if_neg hd, if_neg hd, Except.ok_bind']
  cases N with
  | none =>
    simp only [Option.toList, List.map_nil, List.length_nil]
    rw [if_neg (by omega)]
    exact lq_tail care dare .dare G.sys.A G.sys.B Q R none kw (fun q => PMat.eye q) (fun q => rfl)
  | some N0 =>
    simp only [Option.toList, List.map_cons, List.map_nil, List.length_cons, List.length_nil, argAt_zero,
      toArray_arr, Except.ok_bind']
    rw [if_pos (by omega)]
    exact lq_tail care dare .dare G.sys.A G.sys.B Q R (some N0) kw (fun q => PMat.eye q) (fun q => rfl)

/-- **`dlqr(A, B, Q, R[, N], integral_action=…)`** -/
theorem generated_dlqr_mat (care dare : PySfb.RicFn K ε) {n m : Nat} (A : Matrix (Fin n) (Fin n) K)
    (B : Matrix (Fin n) (Fin m) K) (Q R : PMat K) (N : Option (PMat K)) (kw : PySfb.Kw K) :
    Generated.sfDlqr care dare (matArgs A B Q R N) kw
      = (route .dlqr none).bind fun rt => lqSpec care dare rt A B Q R N kw := by
  unfold Generated.sfDlqr matArgs
  simp only [List.length_cons, argAt_zero, argAt_succ, toArray_arr, bind, Except.ok_bind', route]
  rw [if_neg (by omega)]
  cases N with
  | none =>
    simp only [Option.toList, List.map_nil, List.length_nil]
    rw [if_neg (by omega)]
    exact lq_tail care dare .dare A B Q R none kw (fun q => PMat.eye q) (fun q => rfl)
  | some N0 =>
    simp only [Option.toList, List.map_cons, List.map_nil, List.length_cons, List.length_nil, argAt_zero,
      toArray_arr, Except.ok_bind']
    rw [if_pos (by omega)]
    exact lq_tail care dare .dare A B Q R (some N0) kw (fun q => PMat.eye q) (fun q => rfl)

/-- **`lqr(sys, Q, R[, N], integral_action=…)`**: a strictly discrete-time system is handed to the
generated `dlqr` with all arguments. -/
theorem generated_lqr_sys (care dare : PySfb.RicFn K ε) (G : DSS K) (Q R : PMat K) (N : Option (PMat K))
    (kw : PySfb.Kw K) :
    Generated.sfLqr care dare (sysArgs G Q R N) kw
      = (route .lqr (some G.dt)).bind fun rt => lqSpec care dare rt G.sys.A G.sys.B Q R N kw := by
  rw [route_lqr]
  by_cases hd : DtPred.isdtime true G.dt = true
  · have h1 : Generated.sfLqr care dare (sysArgs G Q R N) kw = Generated.sfDlqr care dare (sysArgs G Q R N) kw := by
      unfold Generated.sfLqr sysArgs
      simp only []
      rw [if_pos hd]
    rw [h1, generated_dlqr_sys, route_dlqr, if_neg (isctime_of_isdtime _ hd), if_pos hd]
  · rw [if_neg hd]
    unfold Generated.sfLqr sysArgs
    simp only [List.length_cons, argAt_zero, argAt_succ, toArray_arr, bind, Except.ok_bind']
    rw [if_neg hd, if_neg (by omega)]
    cases N with
    | none =>
      simp only [Option.toList, List.map_nil, List.length_nil]
      rw [if_neg (by omega)]
      exact lq_tail care dare .care G.sys.A G.sys.B Q R none kw (fun q => PMat.zeros q q) (fun q => rfl)
    | some N0 =>
      simp only [Option.toList, List.map_cons, List.map_nil, List.length_cons, List.length_nil, argAt_zero,
        toArray_arr, Except.ok_bind']
      rw [if_pos (by omega)]
      exact lq_tail care dare .care G.sys.A G.sys.B Q R (some N0) kw (fun q => PMat.zeros q q) (fun q => rfl)

/-- **`lqr(A, B, Q, R[, N], integral_action=…)`** -/
theorem generated_lqr_mat (care dare : PySfb.RicFn K ε) {n m : Nat} (A : Matrix (Fin n) (Fin n) K)
    (B : Matrix (Fin n) (Fin m) K) (Q R : PMat K) (N : Option (PMat K)) (kw : PySfb.Kw K) :
    Generated.sfLqr care dare (matArgs A B Q R N) kw
      = (route .lqr none).bind fun rt => lqSpec care dare rt A B Q R N kw := by
  unfold Generated.sfLqr matArgs
  simp only [List.length_cons, argAt_zero, argAt_succ, toArray_arr, bind, Except.ok_bind', route]
  rw [if_neg (by omega)]
  cases N with
  | none =>
    simp only [Option.toList, List.map_nil, List.length_nil]
    rw [if_neg (by omega)]
    exact lq_tail care dare .care A B Q R none kw (fun q => PMat.zeros q q) (fun q => rfl)
  | some N0 =>
    simp only [Option.toList, List.map_cons, List.map_nil, List.length_cons, List.length_nil, argAt_zero,
      toArray_arr, Except.ok_bind']
    rw [if_pos (by omega)]
    exact lq_tail care dare .care A B Q R (some N0) kw (fun q => PMat.zeros q q) (fun q => rfl)

/-! ### the branches that raise before any matrix is looked at -/

/-- fewer than three arguments: `ControlArgument` (for `lqr` after the dispatch test on `args[0]`,
which is an `IndexError` when there is no argument at all). -/
theorem generated_lqr_few_args (care dare : PySfb.RicFn K ε) (kw : PySfb.Kw K) (a b : PySfb.Arg K) :
    Generated.sfLqr care dare [] kw = .error .indexRange ∧
    Generated.sfDlqr care dare [] kw = .error .badArg ∧
    Generated.sfDlqr care dare [a] kw = .error .badArg ∧
    Generated.sfDlqr care dare [a, b] kw = .error .badArg := by
  refine ⟨rfl, rfl, ?_, ?_⟩ <;> cases a <;> rfl

/-- an LTI object that is not a `StateSpace` (a transfer function, FRD) is refused by both. -/
theorem generated_lqr_not_statespace (care dare : PySfb.RicFn K ε) (kw : PySfb.Kw K) (d : Dt)
    (rest : List (PySfb.Arg K)) :
    Generated.sfLqr care dare (.lti d :: rest) kw = .error .badArg ∧
      Generated.sfDlqr care dare (.lti d :: rest) kw = .error .badArg := by
  have h2 : Generated.sfDlqr care dare (.lti d :: rest) kw = .error .badArg := by
    unfold Generated.sfDlqr
    simp only []
    split_ifs <;> rfl
  refine ⟨?_, h2⟩
  unfold Generated.sfLqr
  simp only []
  split_ifs
  · exact h2
  · rfl
  · rfl

/-! ### against the run-time model `lqrDyn` -/

/-- **`lqr` / `dlqr`, both call forms, against the run-time model**: if `lqrDyn` says the call reaches
routine `rt` with arguments `a`, the function the source text defines is exactly `care` / `dare` applied
to `a` (as arrays), re-ordered — for arbitrary `care`, `dare`. -/
theorem generated_lqr_reaches_mat (care dare : PySfb.RicFn K ε) (n m : Nat)
    (A : Matrix (Fin n) (Fin n) K) (B : Matrix (Fin n) (Fin m) K) (Q R : DM K) (Nc Ci : Option (DM K))
    (isArr hm : Bool) (res : Routine × (Σ q : Nat, RicArgs (Fin n ⊕ Fin q) (Fin m) K))
    (h : lqrDyn .lqr none n m A B Q R Nc Ci isArr = .ok res) :
    Generated.sfLqr care dare (matArgs A B (dmP Q) (dmP R) (Nc.map dmP)) (kwOf hm Ci isArr)
      = finish (ricOf care dare res.1 (sumSq res.2.2.A) (sumRowsP res.2.2.B) (sumSq res.2.2.Q)
          ⟨m, m, res.2.2.R⟩ (res.2.2.S.map sumRowsP)) := by
  rw [generated_lqr_mat]
  exact lqrDyn_reaches care dare _ _ n m A B Q R Nc Ci isArr hm res h

theorem generated_lqr_reaches_sys (care dare : PySfb.RicFn K ε) (G : DSS K) (Q R : DM K)
    (Nc Ci : Option (DM K)) (isArr hm : Bool)
    (res : Routine × (Σ q : Nat, RicArgs (Fin G.n ⊕ Fin q) (Fin G.m) K))
    (h : lqrDyn .lqr (some G.dt) G.n G.m G.sys.A G.sys.B Q R Nc Ci isArr = .ok res) :
    Generated.sfLqr care dare (sysArgs G (dmP Q) (dmP R) (Nc.map dmP)) (kwOf hm Ci isArr)
      = finish (ricOf care dare res.1 (sumSq res.2.2.A) (sumRowsP res.2.2.B) (sumSq res.2.2.Q)
          ⟨G.m, G.m, res.2.2.R⟩ (res.2.2.S.map sumRowsP)) := by
  rw [generated_lqr_sys]
  exact lqrDyn_reaches care dare _ _ G.n G.m G.sys.A G.sys.B Q R Nc Ci isArr hm res h

theorem generated_dlqr_reaches_mat (care dare : PySfb.RicFn K ε) (n m : Nat)
    (A : Matrix (Fin n) (Fin n) K) (B : Matrix (Fin n) (Fin m) K) (Q R : DM K) (Nc Ci : Option (DM K))
    (isArr hm : Bool) (res : Routine × (Σ q : Nat, RicArgs (Fin n ⊕ Fin q) (Fin m) K))
    (h : lqrDyn .dlqr none n m A B Q R Nc Ci isArr = .ok res) :
    Generated.sfDlqr care dare (matArgs A B (dmP Q) (dmP R) (Nc.map dmP)) (kwOf hm Ci isArr)
      = finish (ricOf care dare res.1 (sumSq res.2.2.A) (sumRowsP res.2.2.B) (sumSq res.2.2.Q)
          ⟨m, m, res.2.2.R⟩ (res.2.2.S.map sumRowsP)) := by
  rw [generated_dlqr_mat]
  exact lqrDyn_reaches care dare _ _ n m A B Q R Nc Ci isArr hm res h

theorem generated_dlqr_reaches_sys (care dare : PySfb.RicFn K ε) (G : DSS K) (Q R : DM K)
    (Nc Ci : Option (DM K)) (isArr hm : Bool)
    (res : Routine × (Σ q : Nat, RicArgs (Fin G.n ⊕ Fin q) (Fin G.m) K))
    (h : lqrDyn .dlqr (some G.dt) G.n G.m G.sys.A G.sys.B Q R Nc Ci isArr = .ok res) :
    Generated.sfDlqr care dare (sysArgs G (dmP Q) (dmP R) (Nc.map dmP)) (kwOf hm Ci isArr)
      = finish (ricOf care dare res.1 (sumSq res.2.2.A) (sumRowsP res.2.2.B) (sumSq res.2.2.Q)
          ⟨G.m, G.m, res.2.2.R⟩ (res.2.2.S.map sumRowsP)) := by
  rw [generated_dlqr_sys]
  exact lqrDyn_reaches care dare _ _ G.n G.m G.sys.A G.sys.B Q R Nc Ci isArr hm res h

/-- the model raises before the routine is reached ⇒ so does the source, with the same error: the
dispatch (`dlqr` on a continuous-time system) … -/
theorem generated_dlqr_continuous_raises (care dare : PySfb.RicFn K ε) (G : DSS K) (Q R : PMat K)
    (N : Option (PMat K)) (kw : PySfb.Kw K) (h : isctimeStrict G.dt = true) :
    Generated.sfDlqr care dare (sysArgs G Q R N) kw = .error .badArg := by
  rw [generated_dlqr_sys, ((C11.dispatch_dlqr G.dt).1 h).1]
  rfl

/-- … **`dispatch_discrete` transported**: a strictly discrete-time system handed to `lqr` reaches
`dare`, never `care` (the result does not depend on `care` at all) … -/
theorem generated_lqr_discrete_uses_dare (care care' dare : PySfb.RicFn K ε) (G : DSS K) (Q R : PMat K)
    (N : Option (PMat K)) (kw : PySfb.Kw K) (h : isdtimeStrict G.dt = true) :
    Generated.sfLqr care dare (sysArgs G Q R N) kw = Generated.sfLqr care' dare (sysArgs G Q R N) kw ∧
      Generated.sfLqr care dare (sysArgs G Q R N) kw = Generated.sfDlqr care dare (sysArgs G Q R N) kw := by
  have hd := (C11.dispatch_discrete G.dt h).1
  have hc : isctimeStrict G.dt = false := by
    cases hdt : G.dt <;> simp_all [isdtimeStrict, isctimeStrict]
    intro h0; subst h0; simp at h
  rw [generated_lqr_sys, generated_lqr_sys, generated_dlqr_sys, hd, ((C11.dispatch_dlqr G.dt).2.1 hc).1]
  exact ⟨rfl, rfl⟩

/-- … a non-array `integral_action` and an integral gain of the wrong width raise `ControlArgument`. -/
theorem generated_lqr_integral_action_raises (care dare : PySfb.RicFn K ε) {n m : Nat}
    (A : Matrix (Fin n) (Fin n) K) (B : Matrix (Fin n) (Fin m) K) (Q R : PMat K) (N : Option (PMat K))
    (hm o : Bool) (C : PMat K) (hC : C.c ≠ n) :
    Generated.sfLqr care dare (matArgs A B Q R N) ⟨hm, some .notArray, o⟩ = .error .badArg ∧
      Generated.sfLqr care dare (matArgs A B Q R N) ⟨hm, some (.arr C), o⟩ = .error .badArg := by
  rw [generated_lqr_mat, generated_lqr_mat]
  simp [route, lqSpec, hC, Except.bind]

/-! ### against the typed model: the Riccati equation, for the function of the source text -/

/-- **`lqr(A, B, Q, R[, N])` against the typed model**: with `care` the lifted typed routine, the function
the source text defines is the typed `StateFbk.lqr` (the one `lqr_riccati`, `lqr_closed_loop_lyapunov` are about). -/
theorem generated_lqr_typed {n m : Nat} (ric : Riccati (Fin n) (Fin m) ε K) (dare : PySfb.RicFn K ε)
    (A : Matrix (Fin n) (Fin n) K) (B : Matrix (Fin n) (Fin m) K) (Q : Matrix (Fin n) (Fin n) K)
    (R : Matrix (Fin m) (Fin m) K) (N : Option (Matrix (Fin n) (Fin m) K)) (hm : Bool) :
    Generated.sfLqr (liftRic ric) dare (matArgs A B ⟨n, n, Q⟩ ⟨m, m, R⟩ (N.map fun S => ⟨n, m, S⟩)) ⟨hm, none, false⟩
      = (StateFbk.lqr ric A B Q R N).map fun r => (⟨m, n, r.1⟩, ⟨n, n, r.2.1⟩, r.2.2) := by
  rw [generated_lqr_mat]
  simp only [route, Except.ok_bind', lqSpec, PySfb.Kw.rest, Bool.not_true, ricOf, crossOf, finish, liftRic_mk,
    StateFbk.lqr]
  cases ric A B Q R N <;> rfl

/-- **`lqr_riccati` transported**: if `care` satisfies its recorded contract (`CareSpec`: Riccati equation
and gain relation whenever it returns), then whatever the function the source text defines returns for
`lqr(A, B, Q, R[, N])` satisfies the continuous Riccati equation with cross weight and `R K = Bᵀ S + Nᵀ`. -/
theorem generated_lqr_riccati {n m : Nat} (ric : Riccati (Fin n) (Fin m) ε K) (hc : C11.CareSpec ric)
    (dare : PySfb.RicFn K ε) (A : Matrix (Fin n) (Fin n) K) (B : Matrix (Fin n) (Fin m) K)
    (Q : Matrix (Fin n) (Fin n) K) (R : Matrix (Fin m) (Fin m) K) (N : Option (Matrix (Fin n) (Fin m) K))
    (hm : Bool) (Gp Xp : PMat K) (L : ε)
    (h : Generated.sfLqr (liftRic ric) dare (matArgs A B ⟨n, n, Q⟩ ⟨m, m, R⟩ (N.map fun S => ⟨n, m, S⟩))
      ⟨hm, none, false⟩ = .ok (Gp, Xp, L)) :
    ∃ (Kg : Matrix (Fin m) (Fin n) K) (S : Matrix (Fin n) (Fin n) K), Gp = ⟨m, n, Kg⟩ ∧ Xp = ⟨n, n, S⟩ ∧
      Aᵀ * S + S * A - (S * B + C11.S0 N) * Kg + Q = 0 ∧ R * Kg = Bᵀ * S + (C11.S0 N)ᵀ := by
  rw [generated_lqr_typed] at h
  cases hl : StateFbk.lqr ric A B Q R N with
  | error e => rw [hl] at h; cases h
  | ok r =>
    obtain ⟨Kg, S, E⟩ := r
    rw [hl] at h
    simp only [Except.map, Except.ok.injEq, Prod.mk.injEq] at h
    obtain ⟨rfl, rfl, rfl⟩ := h
    exact ⟨Kg, S, rfl, rfl, C11.lqr_riccati ric hc A B Q R N Kg S _ hl⟩


/-! ### non-vacuity -/

section examples

/-- `lqr(A, B, Q, R)` reaches `care` (not `dare`) and returns `(G, X, L)` … -/
example : Generated.sfLqr okRic badRic (matArgs (!![0] : Matrix (Fin 1) (Fin 1) ℚ) !![1] ⟨1, 1, !![1]⟩ ⟨1, 1, !![1]⟩ none)
    ⟨false, none, false⟩ = .ok (⟨1, 1, !![3]⟩, ⟨1, 1, !![7]⟩, ()) := by
  rw [generated_lqr_mat]; rfl
/-- … `dlqr` reaches `dare` … -/
example : Generated.sfDlqr badRic okRic (matArgs (!![0] : Matrix (Fin 1) (Fin 1) ℚ) !![1] ⟨1, 1, !![1]⟩ ⟨1, 1, !![1]⟩ none)
    ⟨true, none, false⟩ = .ok (⟨1, 1, !![3]⟩, ⟨1, 1, !![7]⟩, ()) := by
  rw [generated_dlqr_mat]; rfl
/-- … `lqr` of a discrete-time system reaches `dare`, of a continuous-time one `care` … -/
example : Generated.sfLqr badRic okRic (sysArgs ⟨1, 1, 1, ⟨!![0], !![1], !![1], !![0]⟩, .disc (1 / 10)⟩
    ⟨1, 1, !![1]⟩ ⟨1, 1, !![1]⟩ none) ⟨false, none, false⟩ = .ok (⟨1, 1, !![3]⟩, ⟨1, 1, !![7]⟩, ()) := by
  rw [generated_lqr_sys, (C11.dispatch_discrete _ (by decide +kernel)).1]; rfl
example : Generated.sfLqr okRic badRic (sysArgs ⟨1, 1, 1, ⟨!![0], !![1], !![1], !![0]⟩, .cont⟩
    ⟨1, 1, !![1]⟩ ⟨1, 1, !![1]⟩ none) ⟨false, none, false⟩ = .ok (⟨1, 1, !![3]⟩, ⟨1, 1, !![7]⟩, ()) := by
  rw [generated_lqr_sys]; rfl
/-- … an unknown keyword raises, `dlqr` refuses a continuous-time system … -/
example : Generated.sfLqr okRic okRic (matArgs (!![0] : Matrix (Fin 1) (Fin 1) ℚ) !![1] ⟨1, 1, !![1]⟩ ⟨1, 1, !![1]⟩ none)
    ⟨false, none, true⟩ = .error .badArg := by
  rw [generated_lqr_mat]; rfl
example : Generated.sfDlqr okRic okRic (sysArgs ⟨1, 1, 1, ⟨!![0], !![1], !![1], !![0]⟩, .cont⟩
    ⟨1, 1, !![1]⟩ ⟨1, 1, !![1]⟩ none) ⟨false, none, false⟩ = .error .badArg :=
  generated_dlqr_continuous_raises _ _ _ _ _ _ _ (by decide)
/-- `generated_lqr_riccati` is not vacuous: a routine meeting `CareSpec` for which the call returns. -/
example : Generated.sfLqr (liftRic exRic1) badRic (matArgs (0 : Matrix (Fin 1) (Fin 1) ℚ) (1 : Matrix (Fin 1) (Fin 1) ℚ)
    ⟨1, 1, (1 : Matrix (Fin 1) (Fin 1) ℚ)⟩ ⟨1, 1, (1 : Matrix (Fin 1) (Fin 1) ℚ)⟩
    ((none : Option (Matrix (Fin 1) (Fin 1) ℚ)).map fun S => ⟨1, 1, S⟩)) ⟨false, none, false⟩
    = .ok (⟨1, 1, (1 : Matrix (Fin 1) (Fin 1) ℚ)⟩, ⟨1, 1, (1 : Matrix (Fin 1) (Fin 1) ℚ)⟩, ()) := by
  rw [generated_lqr_typed]
  simp [StateFbk.lqr, exRic1, Except.map]

end examples

end CtrlVerif.C11Gen
