/-
C07, source-text tie (tag py2lean-iolist), part 4: the value-level step `bareStepV` / `bareV` (proved EQUAL to
the source text in `C07GenXListBare.lean`) against the model's `IC.bareStep` / `IC.preBare`
(`Model/Interconnect.lean`).  Nothing here refers to the text of a generated function.

The code builds Python values and a list of LABELS, the model tokenised specifications and a COUNT of
labels; the two are related by `BareRel` (entries read by `tokenize` / `readEntry`; when the list was omitted
the label list has grown by the model's `added`, otherwise it is untouched).  The one place where the kinds
of the exceptions differ is recorded in `Agree`: a later subsystem with MORE matches than the first raises
IndexError in the code (`new_connections[i].append`; `indexRange` by the convention of `Model/PyIC.lean`)
and `shape` in the model — both raise.
-/
import CtrlVerif.Props.C07GenXListTop
import Mathlib.Algebra.Field.Rat

namespace CtrlVerif.C07GenXL

open CtrlVerif.IC CtrlVerif.PyIC CtrlVerif.PyICX CtrlVerif.PyIOL CtrlVerif.C07Gen CtrlVerif.C07GenX

variable {K : Type} [Field K] [DecidableEq K]

/-- both succeed with related results, or both raise. -/
def Agree {α β : Type} (R : α → β → Prop) (x : Except Err α) (y : Except Err β) : Prop :=
  (∃ a b, x = .ok a ∧ y = .ok b ∧ R a b) ∨ (∃ e e', x = .error e ∧ y = .error e')

theorem zipAppend_map {α β : Type} (f : α → β) (xs : List (List α)) (ys : List α) :
    (IC.zipAppend xs ys).map (List.map f) = IC.zipAppend (xs.map (List.map f)) (ys.map f) := by
  induction xs generalizing ys with
  | nil => cases ys <;> simp [IC.zipAppend]
  | cons c cs ih =>
    cases ys with
    | nil => simp [IC.zipAppend]
    | cons y ys => simp [IC.zipAppend, ih]

omit [DecidableEq K] in
theorem tokenize_tripleInt (k : Nat) (gi : Int) (i : Nat) :
    tokenize (tripleInt k gi i : Val K) = some (tripleSpec k i ((gi : Int) : K)) := by
  simp [tripleInt, tokenize, tokTriple, emptyStr, tokSys, tokSig, tokGain, tripleSpec]

omit [DecidableEq K] in
theorem readEntry_tripleInt (k : Nat) (gi : Int) (i : Nat) :
    readEntry (tripleInt k gi i : Val K) = some [tripleSpec k i ((gi : Int) : K)] := by
  simp [tripleInt, readEntry, tokenize, tokTriple, emptyStr, tokSys, tokSig, tokGain, tripleSpec]

/-- the label list against the model's count. -/
def LabelsOK (none_ : Bool) (nv0 : Val K) (n0 added : Nat) (nv : Val K) : Prop :=
  if none_ then ∃ ls, nv = .list ls ∧ ls.length = n0 + added else nv = nv0

/-- the loop state of the code against the loop state of the model (`lst0`, `nv0`, `n0`: the list, the
label value and the number of labels before the entry). -/
def BareRel (none_ : Bool) (lst0 : List (Val K)) (nv0 : Val K) (n0 : Nat) (st : BareSt K) (acc : BareAcc K) :
    Prop :=
  st.1 = acc.foundSig ∧ st.2.1 = acc.foundSys ∧
  st.2.2.1.map (List.map tokenize) = acc.conns.map (List.map some) ∧
  (∃ ext, st.2.2.2.1 = lst0 ++ ext ∧ ext.map readEntry = acc.sysEntries.map some) ∧
  LabelsOK none_ nv0 n0 acc.added st.2.2.2.2 ∧ (acc.foundSys = false → acc.sysEntries = [])

omit [DecidableEq K] in
theorem readEntry_lists (conns : List (List (Val K))) (cs : List (List (Spec K)))
    (h : conns.map (List.map tokenize) = cs.map (List.map some)) :
    (conns.map Val.list).map readEntry = cs.map some := by
  induction conns generalizing cs with
  | nil => cases cs with | nil => rfl | cons b r => simp at h
  | cons c conns ih =>
    cases cs with
    | nil => simp at h
    | cons b r =>
      simp only [List.map_cons, List.cons.injEq] at h
      simp [readEntry, mapM_of_map_eq tokenize c b h.1, ih r h.2]

omit [Field K] [DecidableEq K] in
theorem labels_ok (labels : List Label) (idxs : List Nat) (h : ∀ i ∈ idxs, i < labels.length) :
    ∃ xs : List (Val K), (idxs.mapM fun i => labelAtVal labels (.int (Int.ofNat i) : Val K)) = .ok xs ∧
      xs.length = idxs.length := by
  induction idxs with
  | nil => exact ⟨[], rfl, rfl⟩
  | cons i is ih =>
    obtain ⟨xs, hx, hl⟩ := ih fun j hj => h j (List.mem_cons_of_mem _ hj)
    have hi := h i (List.mem_cons_self ..)
    have hs : seqGet labels (Int.ofNat i) = .ok labels[i] := by
      have : labels[i]? = some labels[i] := by simp [hi]
      simpa using seqGet_natCast labels i _ this
    refine ⟨labelVal labels[i] :: xs, ?_, by simp [hl]⟩
    have hs' : seqGet labels (i : Int) = .ok labels[i] := hs
    rw [List.mapM_cons, hx]
    simp [labelAtVal, hs']

/-- **`bareStep_agree`: one subsystem — the step of the code (`bareStepV`, = the source text by
`generated_inBareStep_eq` / `generated_outBareStep_eq`) and the step of the model (`IC.bareStep`) keep the
states related, or both raise.** -/
theorem bareStep_agree (d : IC.Dict) (none_ : Bool) (given : Val K) (pos : Int) (ss : Str) (gi : Int)
    (lst0 : List (Val K)) (nv0 : Val K) (n0 : Nat)
    (hg : none_ = true → ∃ x, getItem given pos = .ok x)
    (st : BareSt K) (acc : BareAcc K) (h : BareRel none_ lst0 nv0 n0 st acc) (k : Nat) (S : SysSig) :
    Agree (BareRel none_ lst0 nv0 n0) (bareStepV d none_ given pos ss gi st k S)
      (bareStep d ((gi : Int) : K) ss.raw ss.tok acc (S, k)) := by
  obtain ⟨fsig, fsys, conns, lst, nv⟩ := st
  obtain ⟨h1, h2, h3, ⟨ext, h4, h5⟩, h6, h7⟩ := h
  simp only at h1 h2 h3 h4 h6
  unfold bareStepV bareStep
  by_cases hn : (ss.raw == S.name) = true
  · simp only [hn, if_true]
    refine Or.inl ⟨_, _, rfl, rfl, h1, rfl, h3, ⟨ext ++ (List.range (S.labels d).length).map (tripleInt k gi), ?_, ?_⟩, h6, by simp⟩
    · simp [h4]
    · simp [h5, List.map_map, Function.comp_def, readEntry_tripleInt]
  · simp only [hn, Bool.false_eq_true, if_false]
    rcases Option.eq_none_or_eq_some (IC.findSignals (S.labels d) [ss.tok]) with hf | ⟨idxs, hf⟩
    · simp only [hf]
      exact Or.inl ⟨_, _, rfl, rfl, h1, h2, h3, ⟨ext, h4, h5⟩, h6, h7⟩
    · simp only [hf]
      have hlen : conns.length = acc.conns.length := by simpa using congrArg List.length h3
      have hnew : ((idxs.map (tripleInt (K := K) k gi)).map fun c => [c]).map (List.map tokenize) =
          ((idxs.map fun i => tripleSpec k i ((gi : Int) : K)).map fun c => [c]).map (List.map some) := by
        simp [List.map_map, Function.comp_def, tokenize_tripleInt]
      by_cases hc : conns.length = 0
      · have he : acc.conns.isEmpty = true := by
          rw [List.isEmpty_iff_length_eq_zero]; omega
        simp only [hc, beq_self_eq_true, if_true, he]
        cases none_ with
        | false =>
          simp only [Bool.false_eq_true, if_false, map_ok]
          exact Or.inl ⟨_, _, rfl, rfl, rfl, h2, hnew, ⟨ext, h4, h5⟩, by simpa [LabelsOK] using h6, h7⟩
        | true =>
          obtain ⟨ls, hnv, hls⟩ : ∃ ls, nv = .list ls ∧ ls.length = n0 + acc.added := by simpa [LabelsOK] using h6
          subst hnv
          simp only [if_true, bareLabels]
          by_cases h1' : idxs.length = 1
          · obtain ⟨x, hx⟩ := hg rfl
            simp only [h1', bne_self_eq_false, Bool.false_eq_true, if_false, hx, ok_bind, appendVal, map_ok]
            refine Or.inl ⟨_, _, rfl, rfl, rfl, h2, hnew, ⟨ext, h4, h5⟩, ?_, h7⟩
            simp only [LabelsOK, if_true]
            exact ⟨_, rfl, by simp [hls, h1']; omega⟩
          · obtain ⟨xs, hxs, hxl⟩ := labels_ok (K := K) (S.labels d) idxs (IC.findSignals_lt _ _ _ hf)
            have hb : (idxs.length != 1) = true := by simp [bne, h1']
            simp only [hb, if_true, hxs, ok_bind, extend, map_ok]
            refine Or.inl ⟨_, _, rfl, rfl, rfl, h2, hnew, ⟨ext, h4, h5⟩, ?_, h7⟩
            simp only [LabelsOK, if_true]
            exact ⟨_, rfl, by simp [hls, hxl]; omega⟩
      · have hc0 : (conns.length == 0) = false := by simpa using hc
        have he : acc.conns.isEmpty = false := by
          cases hcc : acc.conns with
          | nil => simp [hcc] at hlen; exact absurd (by simp [hlen]) hc
          | cons a b => rfl
        simp only [hc0, Bool.false_eq_true, if_false, he, zipAppendE, List.length_map]
        by_cases hlt : conns.length < idxs.length
        · have hlt' : acc.conns.length < idxs.length := by omega
          simp only [hlt, hlt', if_true, map_error]
          exact Or.inr ⟨_, _, rfl, rfl⟩
        · have hlt' : ¬ acc.conns.length < idxs.length := by omega
          simp only [hlt, hlt', if_false, map_ok]
          refine Or.inl ⟨_, _, rfl, rfl, rfl, h2, ?_, ⟨ext, h4, h5⟩, h6, h7⟩
          simp only
          rw [zipAppend_map, zipAppend_map, h3]
          simp [List.map_map, Function.comp_def, tokenize_tripleInt]

/-- a loop whose steps agree step by step agrees as a whole. -/
theorem foldlM_agree {α β γ : Type} (R : α → β → Prop) (f : α → γ → Except Err α) (g : β → γ → Except Err β)
    (l : List γ) (h : ∀ a b x, R a b → Agree R (f a x) (g b x)) (a : α) (b : β) (hab : R a b) :
    Agree R (l.foldlM f a) (l.foldlM g b) := by
  induction l generalizing a b with
  | nil => exact Or.inl ⟨a, b, rfl, rfl, hab⟩
  | cons x l ih =>
    rw [List.foldlM_cons, List.foldlM_cons]
    rcases h a b x hab with ⟨a', b', ha, hb, hr⟩ | ⟨e, e', ha, hb⟩
    · rw [ha, hb]; exact ih a' b' hr
    · rw [ha, hb]; exact Or.inr ⟨e, e', rfl, rfl⟩

/-- **`bareV_agree`: a bare string — the code (`bareV`, = the source text by `generated_inEntry_bare` /
`generated_outEntry_bare`) and the model (`IC.preBare`)**: both raise, or the list has grown by entries that
tokenise to the model's entries and — when the list was omitted — the label list has grown by the model's
number of added names (it is untouched otherwise). -/
theorem bareV_agree (d : IC.Dict) (sigs : List SysSig) (none_ : Bool) (given : Val K) (pos : Int) (s : Str)
    (lst0 : List (Val K)) (nv0 : Val K) (n0 : Nat) (hnv : LabelsOK none_ nv0 n0 0 nv0)
    (hg : none_ = true → ∃ x, getItem given pos = .ok x) :
    Agree (fun (r : List (Val K) × Val K) (m : List (List (Spec K)) × Nat) =>
        (∃ ext, r.1 = lst0 ++ ext ∧ ext.map readEntry = m.1.map some) ∧ LabelsOK none_ nv0 n0 m.2 r.2)
      (bareV d sigs none_ given pos s lst0 nv0)
      (preBare sigs d s.neg s.unsigned s.tok) := by
  unfold bareV preBare
  have hgain : (((if s.neg then (-1 : Int) else 1) : Int) : K) = if s.neg then (-1 : K) else 1 := by
    cases s.neg <;> simp
  have hraw : (if s.neg then s.tail else s).raw = s.unsigned := by
    unfold Str.unsigned; cases s.neg <;> rfl
  have htok : (if s.neg then s.tail else s).tok = s.tok := by
    cases s.neg <;> rfl
  have hfold := foldlM_agree (BareRel none_ lst0 nv0 n0)
    (fun st (Sk : SysSig × Nat) => bareStepV d none_ given pos (if s.neg then s.tail else s)
      (if s.neg then (-1 : Int) else 1) st Sk.2 Sk.1)
    (bareStep d (if s.neg then (-1 : K) else 1) s.unsigned s.tok) sigs.zipIdx
    (fun a b x hab => by
      have := bareStep_agree d none_ given pos (if s.neg then s.tail else s) (if s.neg then (-1 : Int) else 1)
        lst0 nv0 n0 hg a b hab x.2 x.1
      rw [hgain, hraw, htok] at this
      exact this)
    (false, false, [], lst0, nv0) {}
    ⟨rfl, rfl, rfl, ⟨[], by simp, rfl⟩, hnv, fun _ => rfl⟩
  rcases hfold with ⟨st, acc, hs, ha, hr⟩ | ⟨e, e', hs, ha⟩
  · rw [hs, ha]
    obtain ⟨fsig, fsys, conns, lst, nv⟩ := st
    obtain ⟨h1, h2, h3, ⟨ext, h4, h5⟩, h6, h7⟩ := hr
    simp only at h1 h2 h3 h4 h6
    subst h1 h2
    simp only [ok_bind, bareFinal]
    cases hfs : acc.foundSys <;> cases hfg : acc.foundSig <;>
      simp only [Bool.and_true, Bool.and_false, Bool.true_and, Bool.false_and, Bool.false_eq_true, if_false,
        if_true, Bool.not_false, Bool.not_true]
    · exact Or.inr ⟨_, _, rfl, rfl⟩
    · refine Or.inl ⟨_, _, rfl, rfl, ⟨ext ++ conns.map Val.list, by simp [h4], ?_⟩, h6⟩
      have hse := h7 hfs
      rw [hse] at h5
      have hext : ext = [] := by simpa using h5
      subst hext
      simpa using readEntry_lists conns acc.conns h3
    · exact Or.inl ⟨_, _, rfl, rfl, ⟨ext, h4, h5⟩, h6⟩
    · exact Or.inr ⟨_, _, rfl, rfl⟩
  · rw [hs, ha]
    exact Or.inr ⟨_, _, rfl, rfl⟩

/-! ### every entry, and the whole list, against `preInEntry` / `preOutEntry` / `preList` -/

/-- what `families/c07.py` sends to the model for an entry of `inplist` / `outlist`: a non-empty string
without '.' is a bare name; a list of tokenisable specifications; any other tokenisable specification. -/
inductive EntryReads : Val K → IOEntry K → Prop
  | bare (s : Str) (hp : s.parts.length ≤ 1) (hne : s.raw.toList.isEmpty = false) :
      EntryReads (.str s) (.bare s.neg s.unsigned s.tok)
  | list (l : List (Val K)) (ss : List (Spec K)) (h : l.map tokenize = ss.map some) :
      EntryReads (.list l) (.list ss)
  | single (v : Val K) (s : Spec K) (ht : tokenize v = some s) (hb : isBare v = false) (hl : isList v = false) :
      EntryReads v (.single s)

/-- the result of an entry / of the list: the list has grown by entries that tokenise to the model's, the
label list by the model's count. -/
def GrowRel (none_ : Bool) (acc : List (Val K)) (nv : Val K) (n0 : Nat) (r : List (Val K) × Val K)
    (m : List (List (Spec K)) × Nat) : Prop :=
  (∃ ext, r.1 = acc ++ ext ∧ ext.map readEntry = m.1.map some) ∧ LabelsOK none_ nv n0 m.2 r.2

omit [Field K] [DecidableEq K] in
theorem labelsOK_trans (none_ : Bool) (a b c : Val K) (n0 k k' : Nat) (h1 : LabelsOK none_ a n0 k b)
    (h2 : LabelsOK none_ b (n0 + k) k' c) : LabelsOK none_ a n0 (k + k') c := by
  cases none_ with
  | false => simp only [LabelsOK, Bool.false_eq_true, if_false] at *; rw [h2, h1]
  | true =>
    simp only [LabelsOK, if_true] at *
    obtain ⟨ls, hc, hl⟩ := h2
    exact ⟨ls, hc, by omega⟩

omit [Field K] [DecidableEq K] in
theorem labelsOK_refl (none_ : Bool) (a b : Val K) (n0 k : Nat) (h : LabelsOK none_ a n0 k b) :
    LabelsOK none_ b (n0 + k) 0 b := by
  cases none_ with
  | false => simp [LabelsOK]
  | true =>
    simp only [LabelsOK, if_true] at *
    obtain ⟨ls, hc, hl⟩ := h
    exact ⟨ls, hc, by omega⟩

/-- **`inEntry_agree`: ONE entry of `inplist`, source text against `preInEntry`.** -/
theorem inEntry_agree (sigs : List SysSig) (none_ : Bool) (given : Val K) (pos : Int) (acc : List (Val K))
    (nv : Val K) (n0 : Nat) (hnv : LabelsOK none_ nv n0 0 nv)
    (hg : none_ = true → ∃ x, getItem given pos = .ok x) (v : Val K) (e : IOEntry K) (hr : EntryReads v e) :
    Agree (GrowRel none_ acc nv n0) (Generated.icxInList_loop1 none_ given sigs (acc, nv) (pos, v))
      (preInEntry sigs e) := by
  cases hr with
  | bare s hp hne =>
    rw [generated_inEntry_bare sigs given nv none_ pos acc s hp hne]
    exact bareV_agree .input sigs none_ given pos s acc nv n0 hnv hg
  | list l ss h =>
    rw [generated_inEntry_list sigs given nv none_ pos acc l ss h]
    have e1 : ss.mapM (inSpecVals sigs) = (ss.mapM (parseSpec sigs .input)).map fun ys => ys.map tripleVals :=
      mapM_map_comp _ _ ss
    rw [e1]
    simp only [preInEntry, mapM_map_comp]
    cases hps : ss.mapM (parseSpec sigs .input) with
    | error e => exact Or.inr ⟨_, _, rfl, rfl⟩
    | ok rs =>
      refine Or.inl ⟨_, _, rfl, rfl, ⟨[.list (rs.map tripleVals).flatten], rfl, ?_⟩, hnv⟩
      simp [readEntry, readEntry_flat]
  | single v s ht hb hl =>
    rw [generated_inEntry_single sigs given nv none_ pos acc v s ht hb hl]
    simp only [inSpecVals, preInEntry]
    cases hps : parseSpec sigs .input s with
    | error e => exact Or.inr ⟨_, _, rfl, rfl⟩
    | ok r => exact Or.inl ⟨_, _, rfl, rfl, ⟨tripleVals r, rfl, readEntry_tripleVals r⟩, hnv⟩

/-- **`outEntry_agree`: ONE entry of `outlist`, source text against `preOutEntry`** (outputs searched before
inputs; names non-empty without leading '-'). -/
theorem outEntry_agree (sigs : List SysSig) (hok : NamesOK sigs) (none_ : Bool) (given : Val K) (pos : Int)
    (acc : List (Val K)) (nv : Val K) (n0 : Nat) (hnv : LabelsOK none_ nv n0 0 nv)
    (hg : none_ = true → ∃ x, getItem given pos = .ok x) (v : Val K) (e : IOEntry K) (hr : EntryReads v e) :
    Agree (GrowRel none_ acc nv n0) (Generated.icxOutList_loop1 none_ given sigs (acc, nv) (pos, v))
      (preOutEntry sigs e) := by
  cases hr with
  | bare s hp hne =>
    rw [generated_outEntry_bare sigs given nv none_ pos acc s hp hne]
    exact bareV_agree .output sigs none_ given pos s acc nv n0 hnv hg
  | list l ss h =>
    have hm := generated_outEntry_list_model sigs hok given nv none_ pos acc l ss h
    rw [generated_outEntry_list sigs given nv none_ pos acc l ss h] at hm ⊢
    cases hv : ss.mapM (outOrInVals sigs) with
    | error e =>
      cases hp : preOutEntry sigs (.list ss) with
      | error e' => exact Or.inr ⟨_, _, rfl, rfl⟩
      | ok m => simp [hv, hp] at hm
    | ok vss =>
      cases hp : preOutEntry sigs (.list ss) with
      | error e' => simp [hv, hp] at hm
      | ok m =>
        simp only [hv, hp, map_ok, Except.ok.injEq, Prod.mk.injEq, List.map_append, and_true] at hm
        refine Or.inl ⟨_, _, rfl, rfl, ⟨[.list vss.flatten], rfl, ?_⟩, ?_⟩
        · exact List.append_cancel_left hm
        · have : m.2 = 0 := by
            simp only [preOutEntry] at hp
            split at hp
            · cases hp
            · cases hp; rfl
          rw [this]; exact hnv
  | single v s ht hb hl =>
    have hm := generated_outEntry_single_model sigs hok given nv none_ pos acc v s ht hb hl
    rw [generated_outEntry_single sigs given nv none_ pos acc v s ht hb hl] at hm ⊢
    cases hv : outOrInVals sigs s with
    | error e =>
      cases hp : preOutEntry sigs (.single s) with
      | error e' => exact Or.inr ⟨_, _, rfl, rfl⟩
      | ok m => simp [hv, hp] at hm
    | ok vs =>
      cases hp : preOutEntry sigs (.single s) with
      | error e' => simp [hv, hp] at hm
      | ok m =>
        simp only [hv, hp, map_ok, Except.ok.injEq, Prod.mk.injEq, List.map_append, and_true] at hm
        refine Or.inl ⟨_, _, rfl, rfl, ⟨vs, rfl, List.append_cancel_left hm⟩, ?_⟩
        have : m.2 = 0 := by
          simp only [preOutEntry] at hp
          split at hp
          · cases hp
          · cases hp; rfl
        rw [this]; exact hnv

/-- the loop over the entries against `preList`, for any per-entry functions that agree entry by entry. -/
theorem list_agree (none_ : Bool) (given : Val K)
    (F : List (Val K) × Val K → Int × Val K → Except Err (List (Val K) × Val K))
    (f : IOEntry K → Except Err (List (List (Spec K)) × Nat))
    (hF : ∀ pos acc nv n0 v e, LabelsOK none_ nv n0 0 nv → (none_ = true → ∃ x, getItem given pos = .ok x) →
      EntryReads v e → Agree (GrowRel none_ acc nv n0) (F (acc, nv) (pos, v)) (f e))
    (l : List (Val K)) (es : List (IOEntry K)) (hl : List.Forall₂ EntryReads l es) :
    ∀ (k : Nat) (acc : List (Val K)) (nv : Val K) (n0 : Nat), LabelsOK none_ nv n0 0 nv →
      (none_ = true → ∀ i, i < l.length → ∃ x, getItem given ((k + i : Nat) : Int) = .ok x) →
      Agree (GrowRel none_ acc nv n0)
        (((l.zipIdx k).map fun p => ((p.2 : Int), p.1)).foldlM F (acc, nv)) (preList f es) := by
  induction hl with
  | nil =>
    intro k acc nv n0 hnv _
    exact Or.inl ⟨_, _, rfl, rfl, ⟨[], by simp, rfl⟩, hnv⟩
  | @cons v e l es hve _ ih =>
    intro k acc nv n0 hnv hg
    rw [List.zipIdx_cons, List.map_cons, List.foldlM_cons]
    have hstep := hF (k : Int) acc nv n0 v e hnv (fun hn => by simpa using hg hn 0 (by simp)) hve
    have hpl : preList f (e :: es) = (f e).bind fun r => (preList f es).map fun r' => (r.1 ++ r'.1, r.2 + r'.2) := by
      simp only [preList, List.mapM_cons]
      cases f e with
      | error err => rfl
      | ok r =>
        cases es.mapM f with
        | error err => rfl
        | ok rs => simp [bind, Except.bind, pure, Except.pure, Except.map]
    rw [hpl]
    rcases hstep with ⟨r, m, hr, hm, ⟨ext, hext, hread⟩, hlab⟩ | ⟨e1, e2, hr, hm⟩
    · rw [hr, hm]
      simp only [ok_bind, Except.bind]
      obtain ⟨acc', nv'⟩ := r
      simp only at hext hlab
      have ih' := ih (k + 1) acc' nv' (n0 + m.2) (labelsOK_refl none_ nv nv' n0 m.2 hlab)
        (fun hn i hi => by
          have := hg hn (i + 1) (by simp; omega)
          simpa [Nat.add_assoc, Nat.add_comm 1 i] using this)
      rcases ih' with ⟨r2, m2, hr2, hm2, ⟨ext2, hext2, hread2⟩, hlab2⟩ | ⟨e1, e2, hr2, hm2⟩
      · rw [hr2, hm2]
        refine Or.inl ⟨_, _, rfl, rfl, ⟨ext ++ ext2, ?_, ?_⟩, ?_⟩
        · simp [hext2, hext]
        · simp [hread, hread2]
        · exact labelsOK_trans none_ nv nv' r2.2 n0 m.2 m2.2 hlab hlab2
      · rw [hr2, hm2]
        exact Or.inr ⟨_, _, rfl, rfl⟩
    · rw [hr, hm]
      exact Or.inr ⟨_, _, rfl, rfl⟩

/-- **`generated_inList_agree`: the `inplist` group of the source text against the model's
`preList (preInEntry sigs)`**, for a list of entries the harness can tokenise: both raise, or the new `inplist`
tokenises to the model's list and — when `inplist` was omitted — the new `inputs` is a list of as many labels as
the model counts (`finalCount`), while a given `inputs` is passed through untouched. -/
theorem generated_inList_agree (sigs : List SysSig) (l : List (Val K)) (es : List (IOEntry K))
    (hl : List.Forall₂ EntryReads l es) (inputs : Val K) (none_ : Bool)
    (hg : none_ = true → ∀ i, i < l.length → ∃ x, getItem inputs ((i : Nat) : Int) = .ok x) :
    Agree (fun (r : Val K × Val K) (m : List (List (Spec K)) × Nat) =>
        (∃ vs, r.1 = .list vs ∧ vs.map readEntry = m.1.map some) ∧
        (if none_ then ∃ ls, r.2 = .list ls ∧ ls.length = m.2 else r.2 = inputs))
      (Generated.icxInList sigs (.list l) inputs none_) (preList (preInEntry sigs) es) := by
  rw [generated_inList_eq]
  have h0 : LabelsOK none_ (if none_ then .list [] else inputs) 0 0 (if none_ then .list [] else inputs : Val K) := by
    cases none_ <;> simp [LabelsOK]
  have := list_agree none_ inputs (Generated.icxInList_loop1 none_ inputs sigs) (preInEntry sigs)
    (fun pos acc nv n0 v e hnv hgp hr => inEntry_agree sigs none_ inputs pos acc nv n0 hnv hgp v e hr)
    l es hl 0 [] (if none_ then .list [] else inputs) 0 h0 (fun hn i hi => by simpa using hg hn i hi)
  simp only [asList, PyIC.enumerate]
  rcases this with ⟨r, m, hr, hm, ⟨ext, hext, hread⟩, hlab⟩ | ⟨e1, e2, hr, hm⟩
  · rw [hr, hm]
    refine Or.inl ⟨_, _, rfl, rfl, ⟨ext, by simp [hext], hread⟩, ?_⟩
    cases none_ with
    | false => simpa [LabelsOK] using hlab
    | true => simpa [LabelsOK] using hlab
  · rw [hr, hm]
    exact Or.inr ⟨_, _, rfl, rfl⟩

/-- **`generated_outList_agree`**: the same for the `outlist` group against `preList (preOutEntry sigs)`. -/
theorem generated_outList_agree (sigs : List SysSig) (hok : NamesOK sigs) (l : List (Val K))
    (es : List (IOEntry K)) (hl : List.Forall₂ EntryReads l es) (outputs : Val K) (none_ : Bool)
    (hg : none_ = true → ∀ i, i < l.length → ∃ x, getItem outputs ((i : Nat) : Int) = .ok x) :
    Agree (fun (r : Val K × Val K) (m : List (List (Spec K)) × Nat) =>
        (∃ vs, r.1 = .list vs ∧ vs.map readEntry = m.1.map some) ∧
        (if none_ then ∃ ls, r.2 = .list ls ∧ ls.length = m.2 else r.2 = outputs))
      (Generated.icxOutList sigs (.list l) outputs none_) (preList (preOutEntry sigs) es) := by
  rw [generated_outList_eq]
  have h0 : LabelsOK none_ (if none_ then .list [] else outputs) 0 0 (if none_ then .list [] else outputs : Val K) := by
    cases none_ <;> simp [LabelsOK]
  have := list_agree none_ outputs (Generated.icxOutList_loop1 none_ outputs sigs) (preOutEntry sigs)
    (fun pos acc nv n0 v e hnv hgp hr => outEntry_agree sigs hok none_ outputs pos acc nv n0 hnv hgp v e hr)
    l es hl 0 [] (if none_ then .list [] else outputs) 0 h0 (fun hn i hi => by simpa using hg hn i hi)
  simp only [asList, PyIC.enumerate]
  rcases this with ⟨r, m, hr, hm, ⟨ext, hext, hread⟩, hlab⟩ | ⟨e1, e2, hr, hm⟩
  · rw [hr, hm]
    refine Or.inl ⟨_, _, rfl, rfl, ⟨ext, by simp [hext], hread⟩, ?_⟩
    cases none_ with
    | false => simpa [LabelsOK] using hlab
    | true => simpa [LabelsOK] using hlab
  · rw [hr, hm]
    exact Or.inr ⟨_, _, rfl, rfl⟩

/-! ### non-vacuity: the hypotheses hold, and the generated functions compute, on concrete calls -/

section examples

/-- `P` (input `u`, output `y`), `C` (inputs `y`, `r`, output `u`). -/
def sigsEx : List SysSig :=
  [⟨"P", [⟨"u", none⟩], [⟨"y", none⟩]⟩, ⟨"C", [⟨"y", none⟩, ⟨"r", none⟩], [⟨"u", none⟩]⟩]

/-- two subsystems with an input `u`. -/
def sigsTwo : List SysSig :=
  [⟨"P", [⟨"u", none⟩], [⟨"y", none⟩]⟩, ⟨"Q", [⟨"v", none⟩, ⟨"u", none⟩], [⟨"z", none⟩]⟩]

/-- `A` has `u[0]`, `B` has `u[0]`, `u[1]`. -/
def sigsVec : List SysSig :=
  [⟨"A", [⟨"u[0]", some ("u", 0)⟩], []⟩, ⟨"B", [⟨"u[0]", some ("u", 0)⟩, ⟨"u[1]", some ("u", 1)⟩], []⟩]

def strU : Str := ⟨"u", .base "u", []⟩
def strPu : Str := ⟨"P.u", .exact "P.u", [("P", .base "P"), ("u", .base "u")]⟩

/-- a bare name found among the inputs of ONE subsystem; `inplist` omitted: the label is the user's name. -/
example : Generated.icxInList (K := ℚ) sigsEx (.list [.str strU]) (.list [.str strU]) true =
    .ok (.list [.list [.tuple [.int 0, .int 0, .int 1]]], .list [.str strU]) := rfl

/-- a bare name found among the inputs of TWO subsystems: one entry, both signals. -/
example : Generated.icxInList (K := ℚ) sigsTwo (.str strU) .none false =
    .ok (.list [.list [.tuple [.int 0, .int 0, .int 1], .tuple [.int 1, .int 1, .int 1]]], .none) := rfl

/-- a base name that expands to two signals, list omitted: the labels are the subsystem's. -/
example : Generated.icxInList (K := ℚ) [sigsVec[1]!] (.list [.str strU]) (.list [.str strU]) true =
    .ok (.list [.list [.tuple [.int 0, .int 0, .int 1]], .list [.tuple [.int 0, .int 1, .int 1]]],
         .list [labelVal ⟨"u[0]", some ("u", 0)⟩, labelVal ⟨"u[1]", some ("u", 1)⟩]) := rfl

/-- a later subsystem with MORE matches than the first: IndexError in the code, `shape` in the model. -/
example : Generated.icxInList (K := ℚ) sigsVec (.str strU) .none false = .error .indexRange ∧
    preBare (K := ℚ) sigsVec .input false "u" (.base "u") = .error .shape := ⟨rfl, rfl⟩

/-- an unknown name: "could not find signal" in both. -/
example : Generated.icxInList (K := ℚ) sigsEx (.str ⟨"zz", .base "zz", []⟩) .none false = .error .unknownName ∧
    preBare (K := ℚ) sigsEx .input false "zz" (.base "zz") = .error .unknownName := ⟨rfl, rfl⟩

/-- `outlist=['P.u']`: not an output of `P`, found among its inputs: `(sysname, label, gain)`. -/
example : Generated.icxOutList (K := ℚ) sigsEx (.list [.str strPu]) .none false =
    .ok (.list [.tuple [nameVal "P", labelVal ⟨"u", none⟩, .num 1]], .none) := rfl

/-- `outlist=['u']`: the bare name is looked up among the OUTPUTS (subsystem `C`). -/
example : Generated.icxOutList (K := ℚ) sigsEx (.str strU) .none false =
    .ok (.list [.list [.tuple [.int 1, .int 0, .int 1]]], .none) := rfl

/-- the hypotheses of `generated_inList_agree` / `generated_outList_agree` on such a call. -/
example : List.Forall₂ (EntryReads (K := ℚ)) [.str strU, .str strPu, .list [.str strPu]]
    [.bare false "u" (.base "u"), .single (namedSpec "P" ⟨"u", none⟩ none),
     .list [namedSpec "P" ⟨"u", none⟩ none]] :=
  .cons (EntryReads.bare strU (by decide) rfl)
    (.cons (EntryReads.single _ _ rfl rfl rfl) (.cons (EntryReads.list _ _ rfl) .nil))

example : NamesOK sigsEx := by
  intro S hS
  simp only [sigsEx, List.mem_cons, List.not_mem_nil, or_false] at hS
  rcases hS with rfl | rfl <;> refine ⟨⟨rfl, rfl⟩, ?_⟩ <;> intro l hl <;>
    simp only [List.mem_cons, List.not_mem_nil, or_false] at hl
  · subst hl; exact ⟨rfl, rfl⟩
  · rcases hl with rfl | rfl <;> exact ⟨rfl, rfl⟩

example : LabelsOK true (.list [] : Val ℚ) 0 0 (.list []) := ⟨[], rfl, rfl⟩

example : ∃ x, getItem (.list [.str strU] : Val ℚ) ((0 : Nat) : Int) = .ok x := ⟨_, rfl⟩

end examples

end CtrlVerif.C07GenXL
