/-
C05 — Timebase calculus: results carry the common timebase, mismatches are rejected.

* `join` (Lemmas/Dt.lean) is the rule written in the property statement; §1 proves that it is the
  join of the order `None < True < dt`, `None < 0` with "error" as top (commutative, associative,
  idempotent, `None` neutral, least upper bound), and that folding it over a list does not depend
  on order or bracketing and fails iff two elements are incompatible.
* §2: `common` — the model of `common_timebase`, branch by branch, with `np.isclose` as `close` —
  equals `join` on valid timebases that are identical or not `close` (the quantifier of the
  property); the tolerance edge is stated with its counterexample (known finding).
* §3: `_process_dt_keyword` and the constructors.
* §4: the operation table (`Model/DtOps.lean`: every operator of every class with Python's
  dispatch, `feedback`, `append`, `series`, `parallel`, `interconnect`, expression trees): whenever
  an operation returns, the result timebase is the join of the operand timebases; whenever it
  raises the timebase error the operands are incompatible; incompatible operands never return.
* §5: unary operations / conversions / transforms keep the timebase, sampling returns `Ts`.
-/
import CtrlVerif.Lemmas.DtOps

namespace CtrlVerif.C05

open CtrlVerif

/-! ## 1. the rule of the property is a join-semilattice with error as top -/

theorem join_comm (a b : Dt) : join a b = join b a := CtrlVerif.join_comm a b

theorem join_assoc (a b c : Option Dt) : join' (join' a b) c = join' a (join' b c) :=
  join'_assoc a b c

theorem join_idem (a : Dt) : join a a = some a := CtrlVerif.join_idem a

theorem join_none_left (d : Dt) : join .none d = some d := CtrlVerif.join_none_left d

theorem join_none_right (d : Dt) : join d .none = some d := CtrlVerif.join_none_right d

/-- `True` combines with any sampling time and yields it. -/
theorem join_true_disc (h : Rat) :
    join .dtrue (.disc h) = some (.disc h) ∧ join (.disc h) .dtrue = some (.disc h) := ⟨rfl, rfl⟩

/-- continuous time is incompatible with every discrete timebase. -/
theorem join_cont_disc_error (h : Rat) :
    join .cont (.disc h) = Option.none ∧ join (.disc h) .cont = Option.none ∧
    join .cont .dtrue = Option.none ∧ join .dtrue .cont = Option.none := ⟨rfl, rfl, rfl, rfl⟩

/-- two different sampling times are incompatible. -/
theorem join_disc_ne_error {a b : Rat} (h : a ≠ b) : join (.disc a) (.disc b) = Option.none := by
  simp [join, h]

/-- errors are absorbing. -/
theorem join_error_absorbing (a : Option Dt) :
    join' Option.none a = Option.none ∧ join' a Option.none = Option.none := ⟨rfl, by simp⟩

/-- `join a b` is the least upper bound of `a` and `b` in the order `Dt.le`. -/
theorem join_is_lub {a b c : Dt} (h : join a b = some c) :
    a.le c ∧ b.le c ∧ ∀ d, a.le d → b.le d → c.le d := by
  refine ⟨?_, ?_, ?_⟩
  · have := join_absorb_left h; unfold Dt.le; rw [CtrlVerif.join_comm]; exact this
  · have := join_absorb_right h; unfold Dt.le; rw [CtrlVerif.join_comm]; exact this
  · intro d had hbd
    unfold Dt.le at had hbd ⊢
    have := join'_assoc (some a) (some b) (some d)
    simp only [join'_some, h, hbd, had] at this
    exact this

/-- an upper bound of two timebases exists only if they are compatible. -/
theorem join_error_iff_no_upper_bound (a b : Dt) :
    join a b = Option.none ↔ ¬ ∃ d, a.le d ∧ b.le d := by
  constructor
  · intro h ⟨d, h1, h2⟩
    have := join_isSome_of_le h1 h2
    simp [h] at this
  · intro h
    cases hj : join a b with
    | none => rfl
    | some c => exact absurd ⟨c, (join_is_lub hj).1, (join_is_lub hj).2.1⟩ h

/-- the order is a partial order (reflexive, antisymmetric, transitive). -/
theorem le_partial_order :
    (∀ a : Dt, a.le a) ∧ (∀ a b : Dt, a.le b → b.le a → a = b) ∧
    (∀ a b c : Dt, a.le b → b.le c → a.le c) := by
  refine ⟨CtrlVerif.join_idem, ?_, ?_⟩
  · intro a b h1 h2
    unfold Dt.le at h1 h2
    rw [CtrlVerif.join_comm] at h2
    rw [h1] at h2
    exact (Option.some.inj h2).symm
  · intro a b c h1 h2
    unfold Dt.le at h1 h2 ⊢
    have := join'_assoc (some a) (some b) (some c)
    simp only [join'_some, h1, h2] at this
    exact this.symm

/-- folding over a list: independent of the order of the leaves … -/
theorem fold_perm {l₁ l₂ : List Dt} (p : l₁.Perm l₂) : joinAll l₁ = joinAll l₂ := joinAll_perm p

/-- … and of the bracketing … -/
theorem fold_append (l₁ l₂ : List Dt) : joinAll (l₁ ++ l₂) = join' (joinAll l₁) (joinAll l₂) :=
  joinAll_append l₁ l₂

/-- … and it is an error iff two leaves are incompatible. -/
theorem fold_error_iff (l : List Dt) :
    joinAll l = Option.none ↔ ∃ a ∈ l, ∃ b ∈ l, join a b = Option.none := joinAll_eq_none_iff l

/-- the value of a successful fold is `None` or one of the leaves. -/
theorem fold_value_mem {l : List Dt} {c : Dt} (h : joinAll l = some c) : c = .none ∨ c ∈ l :=
  joinAll_mem h

example : joinAll [.none, .dtrue, .disc (1/10), .none, .dtrue] = some (.disc (1/10)) := by decide +kernel
example : joinAll [.dtrue, .none, .disc (1/10), .dtrue, .none] = some (.disc (1/10)) := by decide +kernel
example : joinAll [.none, .cont, .disc (1/10)] = Option.none := by decide +kernel
example : joinAll [.disc (1/4), .dtrue, .disc (1/10)] = Option.none := by decide +kernel

/-! ## 2. `common_timebase` (model `common`) refines the rule -/

/-- on valid timebases that are identical or clearly different, `common_timebase` is `join`, a
mismatch being the `ValueError`. -/
theorem common_refines_join {a b : Dt} (ha : a.valid) (hb : b.valid) (h : a.sep b) :
    common a b = ofOpt (join a b) := common_eq_join ha hb h

theorem common_comm {a b : Dt} (h : Adm a b) : common a b = common b a := by
  rw [common_adm h, common_adm' h]

theorem common_idem {a : Dt} (h : a.valid) : common a a = .ok a := common_self_valid h

theorem common_none_left (d : Dt) : common .none d = .ok d := CtrlVerif.common_none_left d

theorem common_none_right (d : Dt) : common d .none = .ok d := CtrlVerif.common_none_right d

/-- associativity on results (`common'` = monadic lift): the timebase of `(a ∘ b) ∘ c` and of
`a ∘ (b ∘ c)` agree, including which of them raises. -/
theorem common_assoc {a b c : Dt} (hab : Adm a b) (hbc : Adm b c) (hac : Adm a c) :
    common' (common a b) (.ok c) = common' (.ok a) (common b c) := by
  rw [common_adm hab, common_adm hbc]
  have key := join'_assoc (some a) (some b) (some c)
  simp only [join'_some] at key
  cases h1 : join a b with
  | none =>
    rw [h1] at key
    cases h2 : join b c with
    | none => rfl
    | some y =>
      rw [h2] at key
      simp only [join'_none_left, join'_some] at key
      have hAy : Adm a y := by
        rcases join_mem h2 with rfl | rfl
        · exact hab
        · exact hac
      simp only [ofOpt, common', bind, Except.bind]
      rw [common_adm hAy, ← key]; rfl
  | some x =>
    rw [h1] at key
    have hxc : Adm x c := by
      rcases join_mem h1 with rfl | rfl
      · exact hac
      · exact hbc
    cases h2 : join b c with
    | none =>
      rw [h2] at key
      simp only [join'_some, join'_none_right] at key
      simp only [ofOpt, common', bind, Except.bind]
      rw [common_adm hxc, key]; rfl
    | some y =>
      rw [h2] at key
      simp only [join'_some] at key
      have hAy : Adm a y := by
        rcases join_mem h2 with rfl | rfl
        · exact hab
        · exact hac
      simp only [ofOpt, common', bind, Except.bind]
      rw [common_adm hxc, common_adm hAy, key]

theorem common_true_disc {h : Rat} (hp : 0 < h) :
    common .dtrue (.disc h) = .ok (.disc h) ∧ common (.disc h) .dtrue = .ok (.disc h) := by
  simp [common, hp]

/-- continuous with discrete raises (for a sampling time that is not `close` to 0). -/
theorem common_cont_disc_error {h : Rat} (h1 : close 0 h = false) (h2 : close h 0 = false) :
    common .cont (.disc h) = .error .timebase ∧ common (.disc h) .cont = .error .timebase ∧
    common .cont .dtrue = .error .timebase ∧ common .dtrue .cont = .error .timebase := by
  simp [common, Dt.num, h1, h2]

/-- two sampling times that are not `close` raise. -/
theorem common_disc_ne_error {a b : Rat} (h : close a b = false) :
    common (.disc a) (.disc b) = .error .timebase := by
  simp [common, Dt.num, h]

/-- the `np.isclose` edge (known finding C05-isclose-tolerance): two *different* timebases within
the tolerance are accepted, also against the continuous-time marker `0`; so the hypothesis `sep`
of `common_refines_join` cannot be dropped. -/
theorem common_close_counterexample :
    common (.disc (1/10)) (.disc (1000001/10000000)) = .ok (.disc (1/10)) ∧
    join (.disc (1/10)) (.disc (1000001/10000000)) = Option.none ∧
    common .cont (.disc (1/1000000000)) = .ok .cont ∧
    join .cont (.disc (1/1000000000)) = Option.none := by decide +kernel

example : Adm (.disc (1/10)) (.disc (1/4)) := ⟨by decide +kernel, by decide +kernel, fun _ _ => Or.inr (by decide +kernel)⟩
example : common (.disc (1/10)) (.disc (1/4)) = .error .timebase := by decide +kernel
example : common' (common .none (.disc (1/10))) (.ok .dtrue) = .ok (.disc (1/10)) := by decide +kernel

/-! ## 3. `_process_dt_keyword` and the constructors -/

/-- an explicitly given valid timebase is used as is (also for static systems and whatever the
config default is). -/
theorem processDt_given {d : Dt} (h : d.valid) (dflt : Option DtArg) (st : Bool) (cfg : DtArg) :
    processDt (some d.toArg) dflt st cfg = .ok d := CtrlVerif.processDt_given h dflt st cfg

/-- static systems created without `dt` get `None`. -/
theorem processDt_static (cfg : DtArg) : processDt Option.none Option.none true cfg = .ok .none := rfl

/-- otherwise the config default is used (and validated). -/
theorem processDt_default (cfg : DtArg) : processDt Option.none Option.none false cfg = cfg.check := rfl

/-- negative numbers and non-numeric values are rejected. -/
theorem processDt_rejects {q : Rat} (hq : q < 0) (dflt : Option DtArg) (st : Bool) (cfg : DtArg) :
    processDt (some (.num q)) dflt st cfg = .error .badArg ∧
    processDt (some .other) dflt st cfg = .error .badArg := by
  simp [processDt, DtArg.check, hq]

/-- whatever is accepted is a valid timebase. -/
theorem processDt_valid {kw dflt : Option DtArg} {st : Bool} {cfg : DtArg} {d : Dt}
    (h : processDt kw dflt st cfg = .ok d) : d.valid := CtrlVerif.processDt_valid h

/-- the second pass through `_process_dt_keyword` in `InputOutputSystem.__init__` changes nothing. -/
theorem ctor_second_pass (kw dflt : Option DtArg) (st : Bool) (cfg : DtArg) :
    ctorDt kw dflt st cfg = processDt kw dflt st cfg := ctorDt_eq_processDt kw dflt st cfg

/-- every factory called with an explicit valid `dt` yields a system with that timebase. -/
theorem factory_given (c : Cls) (st : Bool) {d : Dt} (h : d.valid) (cfg : DtArg) :
    factoryDt c st (some d.toArg) cfg = .ok d := by
  cases c <;>
    simp [factoryDt, ctorDt_eq_processDt, CtrlVerif.processDt_given h, bind, Except.bind,
      CtrlVerif.common_none_left, givenDt_valid h]

example : processDt Option.none Option.none false (.num (1/10)) = .ok (.disc (1/10)) := by decide +kernel
example : factoryDt .tf true Option.none (.num (1/10)) = .ok .none := by decide +kernel
example : factoryDt .frd true Option.none (.num (1/10)) = .ok (.disc (1/10)) := by decide +kernel

/-! ## 4. the operation table -/

/-- every binary operator (`+ - * /`, forward and reflected, every ordered pair of operand kinds
from StateSpace, TransferFunction, FRD, NonlinearIOSystem, InterconnectedSystem, scalar, array):
if it returns, the result carries the join of the operand timebases; if it raises the timebase
error, the operands are incompatible. -/
theorem binary_result_common (op : BinOp) (a b : Arg) (cfg : DtArg) (h : Adm a.dt b.dt) :
    (∀ s, binDt op a b cfg = .ok s → join a.dt b.dt = some s.dt) ∧
    (binDt op a b cfg = .error .timebase → join a.dt b.dt = Option.none) :=
  binDt_sound op a b cfg h

/-- incompatible operands are never accepted, by any operator of any class. -/
theorem binary_incompatible_raises (op : BinOp) (a b : Arg) (cfg : DtArg) (h : Adm a.dt b.dt)
    (hj : join a.dt b.dt = Option.none) : ∃ e, binDt op a b cfg = .error e := by
  cases hr : binDt op a b cfg with
  | error e => exact ⟨e, rfl⟩
  | ok s =>
    have := (binDt_sound op a b cfg h).1 s hr
    rw [hj] at this; cases this

theorem feedback_result_common (x : Sys) (other : Arg) (cfg : DtArg) (h : Adm x.dt other.dt) :
    (∀ s, feedbackDt x other cfg = .ok s → join x.dt other.dt = some s.dt) ∧
    (feedbackDt x other cfg = .error .timebase → join x.dt other.dt = Option.none) :=
  feedbackDt_sound x other cfg h

/-- `feedback(constant, sys)`: the result carries the timebase of `sys`. -/
theorem feedback_const_result (other : Sys) (cfg : DtArg) (h : other.dt.valid) (s : Sys)
    (hs : feedbackConstDt other cfg = .ok s) : s.dt = other.dt := by
  have := (feedbackConstDt_sound other cfg h).1 s hs
  rw [CtrlVerif.join_none_left] at this
  exact (Option.some.inj this).symm

theorem append_result_common (x : Sys) (other : Arg) (cfg : DtArg) (h : Adm x.dt other.dt) :
    (∀ s, appendDt x other cfg = .ok s → join x.dt other.dt = some s.dt) ∧
    (appendDt x other cfg = .error .timebase → join x.dt other.dt = Option.none) :=
  appendDt_sound x other cfg h

/-- totality on the supported operand kinds (`binResult`: every pair of StateSpace /
TransferFunction / constant, FRD with any LTI operand or constant, non-linear / interconnected
systems with StateSpace, TransferFunction, each other or a constant): `+`, `-`, `*` of compatible
operands return a system of the tabulated class whose timebase is exactly the join. -/
theorem binary_total (op : BinOp) (hop : op ≠ .div) (x y : Arg) (c : Cls) (d : Dt) (cfg : DtArg)
    (h : Adm x.dt y.dt) (hr : binResult x.kind y.kind = some c) (hj : join x.dt y.dt = some d) :
    binDt op x y cfg = .ok ⟨c, d⟩ := binDt_total op hop x y c d cfg h hr hj

/-- the same for `/` on the kinds for which division is defined (`divResult`). -/
theorem division_total (x y : Arg) (c : Cls) (d : Dt) (cfg : DtArg)
    (h : Adm x.dt y.dt) (hr : divResult x.kind y.kind = some c) (hj : join x.dt y.dt = some d) :
    binDt .div x y cfg = .ok ⟨c, d⟩ := divDt_total x y c d cfg h hr hj

/-- `feedback` and `append` on the supported kinds. -/
theorem feedback_total (cx : Cls) (a : Dt) (y : Arg) (c : Cls) (d : Dt) (cfg : DtArg)
    (h : Adm a y.dt) (hr : fbResult cx y.kind = some c) (hj : join a y.dt = some d) :
    feedbackDt ⟨cx, a⟩ y cfg = .ok ⟨c, d⟩ := feedbackDt_total cx a y c d cfg h hr hj

theorem append_total (cx : Cls) (a : Dt) (y : Arg) (c : Cls) (d : Dt) (cfg : DtArg)
    (h : Adm a y.dt) (hr : appendResult cx y.kind = some c) (hj : join a y.dt = some d) :
    appendDt ⟨cx, a⟩ y cfg = .ok ⟨c, d⟩ := appendDt_total cx a y c d cfg h hr hj

/-- `P.lft(K)` (`StateSpace.lft`, the linear fractional transformation; `K` a StateSpace, a
TransferFunction or a constant gain): if it returns, the result carries the common timebase of `P` and
`K`; the timebase error only for incompatible operands. -/
theorem lft_result_common (x : Sys) (other : Arg) (cfg : DtArg) (h : Adm x.dt other.dt) :
    (∀ s, lftDt x other cfg = .ok s → join x.dt other.dt = some s.dt) ∧
    (lftDt x other cfg = .error .timebase → join x.dt other.dt = Option.none) :=
  lftDt_sound x other cfg h

/-- … on the supported kinds (`lftResult`) compatible operands return a StateSpace with exactly the
join … -/
theorem lft_total (cx : Cls) (a : Dt) (y : Arg) (c : Cls) (d : Dt) (cfg : DtArg)
    (h : Adm a y.dt) (hr : lftResult cx y.kind = some c) (hj : join a y.dt = some d) :
    lftDt ⟨cx, a⟩ y cfg = .ok ⟨c, d⟩ := lftDt_total cx a y c d cfg h hr hj

/-- … and incompatible operands are rejected with the timebase error. -/
theorem lft_incompatible_timebase_error (cx : Cls) (a : Dt) (y : Arg) (c : Cls) (cfg : DtArg)
    (h : Adm a y.dt) (hr : lftResult cx y.kind = some c) (hj : join a y.dt = Option.none) :
    lftDt ⟨cx, a⟩ y cfg = .error .timebase := by
  have e1 : common a y.dt = .error .timebase := by rw [common_adm h, hj]; rfl
  have gb := givenDt_valid h.vb cfg
  rcases y with ⟨cy, b⟩ | _ | _
  · cases cx <;> cases cy <;> simp only [Arg.kind, lftResult, reduceCtorEq] at hr
    all_goals
      simp only [Arg.dt] at *
      simp [lftDt, toSS, e1, gb, bind, Except.bind]
  · simp [Arg.dt, join_none_right] at hj
  · simp [Arg.dt, join_none_right] at hj

-- a constant interconnection matrix (timebase `None`) closed with a sampled controller; `dt=True` with a
-- sampling time; continuous with discrete; a TransferFunction controller; no `lft` on a TransferFunction
example : lftDt ⟨.ss, .none⟩ (.sys ⟨.ss, .disc (1/10)⟩) (.num 0) = .ok ⟨.ss, .disc (1/10)⟩ := by decide +kernel
example : lftDt ⟨.ss, .dtrue⟩ (.sys ⟨.tf, .disc (1/10)⟩) .btrue = .ok ⟨.ss, .disc (1/10)⟩ := by decide +kernel
example : lftDt ⟨.ss, .disc (1/10)⟩ .array (.num 0) = .ok ⟨.ss, .disc (1/10)⟩ := by decide +kernel
example : lftDt ⟨.ss, .cont⟩ (.sys ⟨.ss, .disc (1/10)⟩) (.num 0) = .error .timebase := by decide +kernel
example : lftDt ⟨.ss, .disc (1/10)⟩ (.sys ⟨.ss, .disc (1/4)⟩) (.num 0) = .error .timebase := by decide +kernel
example : lftDt ⟨.tf, .none⟩ (.sys ⟨.ss, .none⟩) (.num 0) = .error .notImplemented := by decide +kernel
example : lftResult .ss (.cls .tf) = some .ss := rfl

/-- and on incompatible operands every one of them raises the timebase error, except
`StateSpace / StateSpace`, whose `except ValueError: return NotImplemented` turns it into a
`TypeError` (still an error; see `binary_incompatible_raises`). -/
theorem binary_incompatible_timebase_error (op : BinOp) (hop : op ≠ .div) (cx cy : Cls) (a b : Dt)
    (cfg : DtArg) (h : Adm a b) (hcx : cx = .ss ∨ cx = .tf) (hcy : cy = .ss ∨ cy = .tf)
    (hj : join a b = Option.none) :
    binDt op (.sys ⟨cx, a⟩) (.sys ⟨cy, b⟩) cfg = .error .timebase := by
  have e1 : common a b = .error .timebase := by rw [common_adm h, hj]; rfl
  have e2 : common b a = .error .timebase := by rw [common_adm' h, hj]; rfl
  have ga := givenDt_valid h.va cfg
  have gb := givenDt_valid h.vb cfg
  rcases hcx with rfl | rfl <;> rcases hcy with rfl | rfl <;> cases op <;>
    first
    | exact absurd rfl hop
    | simp [binDt, opFuel, binop, fwd, rev, ssAddMul, ssRmul, tfAddMul, tfConv, negArg, toTF, mkSys,
        e1, e2, ga, gb, bind, Except.bind]

/-- `series`, `parallel`, `append` of any number of systems and constants. -/
theorem nary_result_common (first : Sys) (rest : List Arg) (cfg : DtArg)
    (h : AdmList (first.dt :: rest.map Arg.dt)) :
    LSound (seriesDt first rest cfg) (first.dt :: rest.map Arg.dt) ∧
    LSound (parallelDt first rest cfg) (first.dt :: rest.map Arg.dt) ∧
    LSound (appendAllDt first rest cfg) (first.dt :: rest.map Arg.dt) :=
  ⟨seriesDt_sound first rest cfg h, parallelDt_sound first rest cfg h,
   appendAllDt_sound first rest cfg h⟩

/-- `combine_tf([[b₁, b₂, …]])` (also behind `TransferFunction.append`): if it returns, the
timebase is the join of the blocks' timebases; incompatible blocks are rejected. -/
theorem combine_tf_result_common (blocks : List Arg) (cfg : DtArg)
    (h : AdmList (blocks.map Arg.dt)) :
    (∀ s, combineTfDt blocks cfg = .ok s → joinAll (blocks.map Arg.dt) = some s.dt) ∧
    (joinAll (blocks.map Arg.dt) = Option.none → ∃ e, combineTfDt blocks cfg = .error e) := by
  refine ⟨fun s hs => combineTfDt_ok blocks cfg h s hs, fun hn => ?_⟩
  cases hr : combineTfDt blocks cfg with
  | error e => exact ⟨e, rfl⟩
  | ok s =>
    have := combineTfDt_ok blocks cfg h s hr
    rw [hn] at this; cases this

/-- `InterconnectedSystem(syslist, dt=kw)` / `interconnect`: the join of `kw` and all subsystems. -/
theorem interconnect_result_common (kw : Option Dt) (l : List Sys) (cfg : DtArg)
    (h : AdmList (kw.getD .none :: l.map Sys.dt)) :
    LSound (icDt kw l cfg) (kw.getD .none :: l.map Sys.dt) := icDt_sound kw l cfg h

/-- `fold_tree`: for every expression tree over the operators of the model, the timebase of the
value is the join of the leaves' timebases (which by `fold_perm`, `fold_append` does not depend on
shape or order); the timebase error is raised only if two leaves are incompatible; and if two
leaves are incompatible the expression does not evaluate. -/
theorem fold_tree (cfg : DtArg) (t : Tree) (h : AdmList (t.leaves.map Arg.dt)) :
    (∀ a, evalTree cfg t = .ok a → joinAll (t.leaves.map Arg.dt) = some a.dt) ∧
    (evalTree cfg t = .error .timebase →
      ∃ a ∈ t.leaves.map Arg.dt, ∃ b ∈ t.leaves.map Arg.dt, join a b = Option.none) ∧
    ((∃ a ∈ t.leaves.map Arg.dt, ∃ b ∈ t.leaves.map Arg.dt, join a b = Option.none) →
      ∃ e, evalTree cfg t = .error e) := by
  have hs := evalTree_sound cfg t h
  refine ⟨hs.1, ?_, ?_⟩
  · intro he
    exact (joinAll_eq_none_iff _).mp (hs.2 he)
  · intro hex
    have hn := (joinAll_eq_none_iff _).mpr hex
    cases hr : evalTree cfg t with
    | error e => exact ⟨e, rfl⟩
    | ok a =>
      have := hs.1 a hr
      rw [hn] at this; cases this

/-- two expressions over the same leaves in any order and shape: equal timebases when both
evaluate. -/
theorem tree_shape_order_independent (cfg : DtArg) (t₁ t₂ : Tree)
    (hp : (t₁.leaves.map Arg.dt).Perm (t₂.leaves.map Arg.dt))
    (h : AdmList (t₁.leaves.map Arg.dt)) {a b : Arg}
    (h1 : evalTree cfg t₁ = .ok a) (h2 : evalTree cfg t₂ = .ok b) : a.dt = b.dt := by
  have hadm2 : AdmList (t₂.leaves.map Arg.dt) :=
    h.sub fun x hx => Or.inr (hp.symm.subset hx)
  have e1 := (evalTree_sound cfg t₁ h).1 a h1
  have e2 := (evalTree_sound cfg t₂ hadm2).1 b h2
  rw [joinAll_perm hp, e2] at e1
  exact (Option.some.inj e1).symm

-- non-vacuity: a mixed-class expression (ss(None) + tf(dt=0.1)) * 2 - frd(True), and a failing one
example : evalTree (.num 0)
    (.bin .sub (.bin .mul (.bin .add (.leaf (.sys ⟨.ss, .none⟩)) (.leaf (.sys ⟨.tf, .disc (1/10)⟩)))
      (.leaf .scalar)) (.leaf (.sys ⟨.frd, .dtrue⟩))) = .ok (.sys ⟨.frd, .disc (1/10)⟩) := by decide +kernel
example : evalTree (.num 0)
    (.bin .mul (.leaf (.sys ⟨.nl, .cont⟩)) (.leaf (.sys ⟨.ss, .disc (1/10)⟩))) = .error .timebase := by
  decide +kernel
example : binDt .div (.sys ⟨.ss, .cont⟩) (.sys ⟨.ss, .dtrue⟩) (.num 0) = .error .notImplemented := by
  decide +kernel

/-! ## 5. operations on a single system -/

/-- `unary_preserves`: negation, indexing, copying, renaming, conversion between representations
and to a nonlinear I/O system, similarity / canonical transforms, model reduction, minimal
realisation and linearisation return a system with exactly the operand's timebase, for every
class on which the operation is offered. -/
theorem unary_preserves (op : UnOp) (c c' : Cls) (d : Dt) (hd : d.valid) (cfg : DtArg)
    (hs : unResult op c = some c') : unDt op ⟨c, d⟩ cfg = .ok ⟨c', d⟩ :=
  unDt_supported op c c' d hd cfg hs

/-- powers: whenever `sys ** k` returns, the timebase is the operand's (any integer `k`, any
recursion depth). -/
theorem pow_preserves (c : Cls) (d : Dt) (hd : d.valid) (cfg : DtArg) (k : Int) (s : Sys)
    (h : unDt (.pow k) ⟨c, d⟩ cfg = .ok s) : s.dt = d :=
  powDt_dt c d hd cfg _ k s h

/-- `sample_dt`: sampling a continuous-time (or unspecified) system returns exactly the requested
sampling time; discrete-time systems are rejected. -/
theorem sample_dt (c : Cls) (hc : c = .ss ∨ c = .tf) (d : Dt) (ts : Rat) (hts : 0 < ts)
    (cfg : DtArg) :
    unDt (.sample ts) ⟨c, d⟩ cfg = if isCTime d then .ok ⟨c, .disc ts⟩ else .error .badArg :=
  unDt_sample c hc d ts hts cfg

example : unDt (.pow (-2)) ⟨.tf, .disc (1/10)⟩ (.num 0) = .ok ⟨.tf, .disc (1/10)⟩ := by decide +kernel
example : unDt (.pow 0) ⟨.tf, .dtrue⟩ (.num 0) = .ok ⟨.tf, .dtrue⟩ := by decide +kernel
example : unDt .modelReduction ⟨.ss, .disc (1/10)⟩ (.num 0) = .ok ⟨.ss, .disc (1/10)⟩ := by decide +kernel
example : unDt (.sample (1/2)) ⟨.ss, .none⟩ (.num 0) = .ok ⟨.ss, .disc (1/2)⟩ := by decide +kernel
example : unDt (.sample (1/2)) ⟨.tf, .dtrue⟩ (.num 0) = .error .badArg := by decide +kernel
-- `frd(F)` / `FrequencyResponseData(F)` (copy constructor) and indexing of an FRD whose timebase is
-- unspecified keep `None` although `control.default_dt` is `True` / a sampling time
example : unResult .toFRD .frd = some .frd := rfl
example : unDt .toFRD ⟨.frd, .none⟩ .btrue = .ok ⟨.frd, .none⟩ := by decide +kernel
example : unDt .getitem ⟨.frd, .none⟩ (.num (1/10)) = .ok ⟨.frd, .none⟩ := by decide +kernel

end CtrlVerif.C05
