/-
C14 (zero-order hold) — `c2d(…, 'zoh')` reproduces the sampled continuous response, over `ℝ`, with
Mathlib's matrix exponential `NormedSpace.exp`.

Given `scipy.linalg.expm = exp` (contract; floating point aside):

* `zoh_blocks`        the blocks of `exp(h [[A, B], [0, 0]])`: `Ad = exp(h A)`,
                      `Bd = Σ h^(k+1)/(k+1)! A^k B`, lower block rows `[0, I]`;
* `realFlow`          hence `t ↦ exp(t [[A, B], [0, 0]])` IS an `ExpFlow` (the contract
                      `C14.zoh_step` assumes), and its trajectories solve `x' = A x + B u`
                      (`realFlow_solves`): the assumption "that it solves the ODE is not proved" of
                      `C14.zoh_step` is discharged;
* `zoh_exact`         for every sampling time `h ≥ 0`, every list of input samples held constant
                      over the sampling intervals and every solution `x` of `x' = A x + B u(t)`:
                      the recursion `x[k+1] = Ad x[k] + Bd u[k]` of the discretised system
                      `SS.zoh (exp(h Maug)) G` returns the samples `x(t0 + k h)`, outputs `C x + D u`;
* `zoh_solution_exists`, `zoh_is_the_solution`   such a solution exists for every initial state and
                      is unique;
* `zoh_nilpotent`, `zohCore_exact`   for nilpotent `A` the model's exact branch (`zohAd`, `zohBd`)
                      is this exponential; both branches of `zohCore` return `SS.zoh (exp …) G`.
-/
import CtrlVerif.Lemmas.C06Exp
import CtrlVerif.Props.C14

namespace CtrlVerif.C14Exp

open CtrlVerif Matrix SS TimeResp NormedSpace Set ExpODE

variable {σ ι o : Type*} [Fintype σ] [Fintype ι] [DecidableEq σ] [DecidableEq ι]

/-- `augM A B` (Lemmas/C06Exp.lean) is the block matrix `[[A, B], [0, 0]]` that
`cont2discrete(…, 'zoh')` multiplies by `h` and exponentiates. -/
theorem augM_def (A : Matrix σ σ ℝ) (B : Matrix σ ι ℝ) : augM A B = fromBlocks A B 0 0 := rfl

/-- the blocks of `E = exp(h [[A, B], [0, 0]])`, the matrix `cont2discrete(…, 'zoh')` computes:
`E₁₁ = Σ (hA)^k / k! = exp(h A)`, `E₁₂ = Σ h^(k+1)/(k+1)! A^k B` (`= ∫₀^h exp(sA) ds B`),
`E₂₁ = 0`, `E₂₂ = I`. -/
theorem zoh_blocks (A : Matrix σ σ ℝ) (B : Matrix σ ι ℝ) (h : ℝ) :
    (exp (h • augM A B)).toBlocks₁₁ = exp (h • A) ∧
    HasSum (fun k : ℕ => ((k.factorial : ℝ)⁻¹) • (h • A) ^ k) (exp (h • augM A B)).toBlocks₁₁ ∧
    HasSum (fun k : ℕ => (((k + 1).factorial : ℝ)⁻¹) • (h ^ (k + 1) • (A ^ k * B)))
      (exp (h • augM A B)).toBlocks₁₂ ∧
    (exp (h • augM A B)).toBlocks₂₁ = 0 ∧
    (exp (h • augM A B)).toBlocks₂₂ = 1 :=
  ⟨zoh11_eq A B h, hasSum_zoh11 A B h, hasSum_zoh12 A B h, zoh21_eq A B h, zoh22_eq A B h⟩

/-- the matrix exponential satisfies the contract `ExpFlow` that `C14.zoh_step` assumes of
`expm`: `Φ t = exp(t [[A, B], [0, 0]])`. -/
noncomputable def realFlow (A : Matrix σ σ ℝ) (B : Matrix σ ι ℝ) : ExpFlow σ ι ℝ where
  Φ t := exp (t • augM A B)
  add s t := exp_augM_add A B s t
  low₂₁ t := zoh21_eq A B t
  low₂₂ t := zoh22_eq A B t

/-- … and the trajectory `ξ(t) = Φ(t) (x0, u)` that `C14.zoh_step` samples does solve
`x' = A x + B u`, `x(0) = x0`, with the input part constantly `u`. -/
theorem realFlow_solves (A : Matrix σ σ ℝ) (B : Matrix σ ι ℝ) (x0 : σ → ℝ) (u : ι → ℝ) (t : ℝ) :
    let ξ : ℝ → σ ⊕ ι → ℝ := fun s => (realFlow A B).Φ s *ᵥ Sum.elim x0 u
    HasDerivAt (fun s => ξ s ∘ Sum.inl) (A *ᵥ (ξ t ∘ Sum.inl) + B *ᵥ u) t ∧
    ξ t ∘ Sum.inr = u ∧ ξ 0 ∘ Sum.inl = x0 :=
  ⟨augTraj_inl_hasDerivAt A B x0 u t, augTraj_inr A B x0 u t,
    by simp [realFlow]⟩

/-- one sampling interval: any solution of `x' = A x + B u` (input constantly `u` on `[a, a+h)`)
arrives at `Ad x(a) + Bd u`, `(Ad, Bd)` the upper blocks of `exp(h [[A, B], [0, 0]])`. -/
theorem zoh_exact_step (A : Matrix σ σ ℝ) (B : Matrix σ ι ℝ) (a h : ℝ) (hh : 0 ≤ h) (u : ι → ℝ)
    (uf : ℝ → ι → ℝ) (huf : ∀ t ∈ Ico a (a + h), uf t = u) (x : ℝ → σ → ℝ)
    (hx : SolvesOn A B uf x a (a + h)) :
    x (a + h) = (exp (h • augM A B)).toBlocks₁₁ *ᵥ x a
      + (exp (h • augM A B)).toBlocks₁₂ *ᵥ u :=
  zoh_step A B a h u uf huf x hx hh

/-- **`zoh_exact`**.  Let `Gd = SS.zoh (exp(h [[A, B], [0, 0]])) G` be what `c2d(G, h, 'zoh')`
returns (given `expm = exp`).  For every list of input samples `us`, every input function `u`
that holds `us[k]` on `[t0 + k h, t0 + (k+1) h)` (e.g. `holdInput`) and every solution `x` of
`x' = A x + B u(t)` on `[t0, t_last]`: the discrete recursion of `Gd` from `x(t0)`
(`dStates`: `x[k+1] = Ad x[k] + Bd us[k]`) returns exactly the samples `x(t0 + k h)`, and its
outputs are `C x(t0 + k h) + D us[k]` — the sampled continuous response (for `us` constant: the
step response). -/
theorem zoh_exact (G : SS σ ι o ℝ) (h : ℝ) (hh : 0 ≤ h) (t0 : ℝ) (us : List (ι → ℝ))
    (u : ℝ → ι → ℝ) (x : ℝ → σ → ℝ)
    (hu : ∀ k (hk : k + 1 < us.length), ∀ t ∈ Ico (grid t0 h k) (grid t0 h (k + 1)), u t = us[k])
    (hx : SolvesOn G.A G.B u x t0 (grid t0 h (us.length - 1))) :
    dStates (G.zoh (exp (h • augM G.A G.B))) (x t0) us
      = (List.range us.length).map (fun k => x (grid t0 h k)) ∧
    ∀ k (hk : k < us.length),
      (outputs (G.zoh (exp (h • augM G.A G.B)))
        (dStates (G.zoh (exp (h • augM G.A G.B))) (x t0) us) us)[k]?
      = some (G.C *ᵥ x (grid t0 h k) + G.D *ᵥ us[k]) := by
  have hx' := (solvesOn_grid_iff t0 hh (us.length - 1)).1 hx
  have hs := dStates_samples G.A G.B (G.zoh (exp (h • augM G.A G.B))) h hh rfl rfl us t0 u x
    hu (fun k hk => hx' k (by omega))
  refine ⟨hs, fun k hk => ?_⟩
  rw [hs, outputs, List.getElem?_zipWith]
  simp [hk, out, SS.zoh]

/-- **Existence**: for `h > 0`, every list of samples and every initial state there is a solution
of `x' = A x + B u(t)` on `[t0, t_last]` for the held input `u = holdInput t0 h us`. -/
theorem zoh_solution_exists (A : Matrix σ σ ℝ) (B : Matrix σ ι ℝ) (h : ℝ) (hh : 0 < h) (t0 : ℝ)
    (us : List (ι → ℝ)) (x0 : σ → ℝ) :
    ∃ x : ℝ → σ → ℝ, x t0 = x0 ∧
      SolvesOn A B (holdInput t0 h us) x t0 (grid t0 h (us.length - 1)) := by
  obtain ⟨x, h0, hx⟩ := exists_zoh_solution A B h hh us t0 x0
  exact ⟨x, h0, (solvesOn_grid_iff t0 hh.le _).2 fun k hk => hx k (by omega)⟩

/-- existence, uniqueness and sampling together: the discretised system, started at `x0` and driven
by the samples, returns the samples of THE solution of the continuous system under the held input. -/
theorem zoh_is_the_solution (G : SS σ ι o ℝ) (h : ℝ) (hh : 0 < h) (t0 : ℝ) (us : List (ι → ℝ))
    (x0 : σ → ℝ) :
    ∃ x : ℝ → σ → ℝ, x t0 = x0 ∧
      SolvesOn G.A G.B (holdInput t0 h us) x t0 (grid t0 h (us.length - 1)) ∧
      (∀ y : ℝ → σ → ℝ, y t0 = x0 →
        SolvesOn G.A G.B (holdInput t0 h us) y t0 (grid t0 h (us.length - 1)) →
        EqOn y x (Icc t0 (grid t0 h (us.length - 1)))) ∧
      dStates (G.zoh (exp (h • augM G.A G.B))) x0 us
        = (List.range us.length).map (fun k => x (grid t0 h k)) := by
  obtain ⟨x, h0, hx⟩ := zoh_solution_exists G.A G.B h hh t0 us x0
  refine ⟨x, h0, hx, fun y hy0 hy => hy.unique hx (by rw [hy0, h0]), ?_⟩
  have := (zoh_exact G h hh.le t0 us _ x
    (fun k hk t ht => holdInput_eq hh us k (by omega) ht) hx).1
  rwa [h0] at this

/-- nilpotent `A` (`A^n = 0`): the exponential is the finite sum, with exactly the blocks
`zohAd`, `zohBd` the model's exact branch returns (`C14.zoh_series_blocks`). -/
theorem zoh_nilpotent (A : Matrix σ σ ℝ) (B : Matrix σ ι ℝ) (h : ℝ) (n : ℕ) (hA : A ^ n = 0) :
    exp (h • augM A B) = fromBlocks (SS.zohAd h A n) (SS.zohBd h A B n) 0 1 := by
  rw [exp_augM_nilpotent A B h n hA, augM, ← C14.zoh_series_blocks A B h n hA, expSum]
  refine Finset.sum_congr rfl fun j _ => ?_
  rw [smul_pow, smul_smul, div_eq_inv_mul]

/-- the model's `zohCore` over `ℝ`, handed `expm = exp`: whichever branch runs (exact series for
nilpotent `A`, or the supplied exponential), the result is `SS.zoh (exp(h [[A, B], [0, 0]])) G`
with timebase `Ts`. -/
theorem zohCore_exact (G : DSS ℝ) (Ts : ℚ) (h : ℝ) :
    DSS.zohCore G Ts h (some (exp (h • augM G.sys.A G.sys.B))) =
      .ok ⟨G.n, G.p, G.m, G.sys.zoh (exp (h • augM G.sys.A G.sys.B)), .disc Ts⟩ := by
  unfold DSS.zohCore
  split
  · rename_i hA
    rw [zoh_nilpotent G.sys.A G.sys.B h G.n hA]
    simp [SS.zoh]
  · rfl

/-- non-vacuity: the integrator `A = 0`, `B = 1`: `exp(h [[0, 1], [0, 0]]) = [[1, h], [0, 1]]`. -/
example (h : ℝ) :
    exp (h • augM (0 : Matrix (Fin 1) (Fin 1) ℝ) (1 : Matrix (Fin 1) (Fin 1) ℝ))
      = fromBlocks 1 (h • 1) 0 1 := by
  rw [zoh_nilpotent 0 1 h 1 (pow_one 0)]
  simp [SS.zohAd, SS.zohBd]

end CtrlVerif.C14Exp
