/-
The chain-of-integrators (Brunovsky) structure of a reachable SISO pair: Cayley–Hamilton,
invertibility of `T`, validity, existence.
-/
import CtrlVerif.Lemmas.Flat
import Mathlib.LinearAlgebra.Matrix.Charpoly.Basic
import Mathlib.LinearAlgebra.Matrix.Charpoly.Coeff
import Mathlib.LinearAlgebra.Matrix.Block

namespace CtrlVerif

open Matrix Polynomial Finset

variable {K : Type} [Field K] [DecidableEq K] {n : Nat}

/-- Cayley–Hamilton, solved for the top power: `A^n = - Σ_{i<n} c_i A^i`. -/
theorem pow_card_eq_neg_sum (A : Matrix (Fin n) (Fin n) K) :
    A ^ n = - ∑ i ∈ range n, A.charpoly.coeff i • A ^ i := by
  have h := Matrix.aeval_self_charpoly A
  rw [Polynomial.aeval_eq_sum_range, Matrix.charpoly_natDegree_eq_dim, Fintype.card_fin,
    Finset.sum_range_succ] at h
  have hm : A.charpoly.coeff n = 1 := by
    have := (Matrix.charpoly_monic A).coeff_natDegree
    rwa [Matrix.charpoly_natDegree_eq_dim, Fintype.card_fin] at this
  rw [hm, one_smul] at h
  exact eq_neg_of_add_eq_zero_right h

/-- the chain-of-integrators structure determined by a row `q`. -/
noncomputable def brunovsky (A : Matrix (Fin n) (Fin n) K) (b q : Fin n → K) : LinFlat n K where
  A := A
  b := b
  F := fun i => -(A.charpoly.coeff i.val)
  T := fun i => q ᵥ* A ^ i.val
  Tinv := (Matrix.of fun i : Fin n => q ᵥ* A ^ i.val)⁻¹
  Cf := q

/-- `q` picks out the last column of the reachability matrix: `q A^j b = δ_{j, n-1}`. -/
def IsFlatRow (A : Matrix (Fin n) (Fin n) K) (b q : Fin n → K) : Prop :=
  ∀ j, j < n → q ⬝ᵥ (A ^ j *ᵥ b) = if j + 1 = n then 1 else 0

theorem brunovsky_T_isUnit (A : Matrix (Fin n) (Fin n) K) (b q : Fin n → K)
    (hq : IsFlatRow A b q) : IsUnit (Matrix.of fun i : Fin n => q ᵥ* A ^ i.val).det := by
  set T : Matrix (Fin n) (Fin n) K := Matrix.of fun i : Fin n => q ᵥ* A ^ i.val with hT
  -- the reachability matrix with its columns reversed
  let W : Matrix (Fin n) (Fin n) K := fun l j => (A ^ (n - 1 - j.val) *ᵥ b) l
  have hent : ∀ i j : Fin n, (T * W) i j = q ⬝ᵥ (A ^ (i.val + (n - 1 - j.val)) *ᵥ b) := by
    intro i j
    show (q ᵥ* A ^ i.val) ⬝ᵥ (A ^ (n - 1 - j.val) *ᵥ b) = _
    rw [← dotProduct_mulVec, mulVec_mulVec, ← pow_add]
  have htri : (T * W).BlockTriangular OrderDual.toDual := by
    intro i j hij
    have hlt : i < j := by simpa using hij
    have hlt' : i.val < j.val := hlt
    rw [hent, hq _ (by omega)]
    have : ¬ (i.val + (n - 1 - j.val) + 1 = n) := by omega
    simp [this]
  have hdet : (T * W).det = 1 := by
    rw [Matrix.det_of_isLowerTriangular _ htri]
    apply Finset.prod_eq_one
    intro i _
    rw [hent, hq _ (by omega)]
    have : i.val + (n - 1 - i.val) + 1 = n := by omega
    simp [this]
  rw [Matrix.det_mul] at hdet
  exact IsUnit.of_mul_eq_one _ hdet

theorem brunovsky_valid (A : Matrix (Fin n) (Fin n) K) (b q : Fin n → K)
    (hq : IsFlatRow A b q) : (brunovsky A b q).Valid := by
  refine ⟨?_, ?_, ?_, ?_, ?_⟩
  · exact Matrix.mul_nonsing_inv _ (brunovsky_T_isUnit A b q hq)
  · intro i l hi
    simp [brunovsky, hi]
  · intro i j l hij
    simp only [brunovsky, vecMul_vecMul, hij, pow_succ]
  · intro i l hi
    simp only [brunovsky, vecMul_vecMul, ← pow_succ, hi]
    rw [pow_card_eq_neg_sum A, vecMul_neg, ← Fin.sum_univ_eq_sum_range (fun i => A.charpoly.coeff i • A ^ i) n]
    simp only [Pi.neg_apply, vecMul, dotProduct, Matrix.sum_apply, Matrix.smul_apply, smul_eq_mul,
      Finset.mul_sum, neg_mul]
    rw [Finset.sum_comm, ← Finset.sum_neg_distrib]
    apply Finset.sum_congr rfl
    intro i _
    rw [← Finset.sum_neg_distrib]
    apply Finset.sum_congr rfl
    intro j _
    ring
  · intro i
    show (q ᵥ* A ^ i.val) ⬝ᵥ b = _
    rw [← dotProduct_mulVec]
    exact hq i.val i.isLt

theorem exists_flatRow (hn : 0 < n) (A : Matrix (Fin n) (Fin n) K) (b : Fin n → K)
    (h : (ctrb A b).det ≠ 0) : ∃ q, IsFlatRow A b q := by
  refine ⟨fun l => (ctrb A b)⁻¹ ⟨n - 1, by omega⟩ l, ?_⟩
  intro j hj
  have h1 := congrFun (congrFun (Matrix.nonsing_inv_mul (ctrb A b) (isUnit_iff_ne_zero.mpr h))
    ⟨n - 1, by omega⟩) ⟨j, hj⟩
  rw [Matrix.mul_apply] at h1
  show ∑ l, (ctrb A b)⁻¹ ⟨n - 1, by omega⟩ l * (A ^ j *ᵥ b) l = _
  have h2 : (∑ l, (ctrb A b)⁻¹ ⟨n - 1, by omega⟩ l * (A ^ j *ᵥ b) l)
      = ∑ l, (ctrb A b)⁻¹ ⟨n - 1, by omega⟩ l * ctrb A b l ⟨j, hj⟩ := rfl
  rw [h2, h1, Matrix.one_apply]
  have : ((⟨n - 1, by omega⟩ : Fin n) = ⟨j, hj⟩) ↔ j + 1 = n := by
    rw [Fin.mk.injEq]; omega
  simp only [this]

end CtrlVerif
