/-
Lemmas for whole timebase expressions (`Model/C05Expr.lean`): totality of powers and of the
n-ary folds, the class table of an expression (`kind`), soundness and completeness of `eval` with
respect to the join of the leaves.
-/
import CtrlVerif.Model.C05Expr
import CtrlVerif.Lemmas.DtOps

namespace CtrlVerif.C05Expr

open CtrlVerif

/-! ### powers: totality -/

/-- classes that offer `**`. -/
def powCls : Cls → Bool
  | .ss | .tf | .frd => true
  | _ => false

theorem binResult_self {c : Cls} (hc : powCls c = true) : binResult (.cls c) (.cls c) = some c := by
  cases c <;> simp_all [powCls, binResult]

theorem mul_self_total {c : Cls} (hc : powCls c = true) {d : Dt} (hd : d.valid) (cfg : DtArg) :
    binDt .mul (.sys ⟨c, d⟩) (.sys ⟨c, d⟩) cfg = .ok ⟨c, d⟩ :=
  binDt_total .mul (by decide) _ _ c d cfg (Adm.self hd) (binResult_self hc) (join_idem d)

/-- `StateSpace.__pow__`: positive exponents need `k` steps, `0`/`-1` one step, `k < -1` one more
than `-k`. -/
theorem powDt_ss_total {d : Dt} (hd : d.valid) (cfg : DtArg) :
    ∀ (fuel : Nat) (k : Int),
      ((1 ≤ k → k.natAbs ≤ fuel → powDt .ss d cfg fuel k = .ok ⟨.ss, d⟩) ∧
       (k ≤ 0 → k.natAbs + 1 ≤ fuel → powDt .ss d cfg fuel k = .ok ⟨.ss, d⟩)) := by
  intro fuel
  induction fuel with
  | zero =>
    intro k
    constructor
    · intro h1 h2; omega
    · intro h1 h2; omega
  | succ n ih =>
    intro k
    have pos : 1 ≤ k → k.natAbs ≤ n + 1 → powDt .ss d cfg (n + 1) k = .ok ⟨.ss, d⟩ := by
      intro h1 h2
      rw [powDt]
      by_cases hk1 : k = 1
      · simp [hk1]
      · have h0 : ¬ (k = 0 ∨ k = -1) := by omega
        have hlt : ¬ k < -1 := by omega
        simp only [hk1, h0, hlt, if_false]
        have := (ih (k - 1)).1 (by omega) (by omega)
        simp only [this, bind, Except.bind]
        exact mul_self_total (c := .ss) rfl hd cfg
    refine ⟨pos, ?_⟩
    intro h1 h2
    rw [powDt]
    have hk1 : ¬ k = 1 := by omega
    by_cases h0 : k = 0 ∨ k = -1
    · simp [hk1, h0, givenDt_valid hd, bind, Except.bind]
    · have hlt : k < -1 := by omega
      simp only [hk1, h0, hlt, if_false, if_true]
      have hi := (ih (-1)).2 (by omega) (by omega)
      have hp := (ih (-k)).1 (by omega) (by omega)
      simp only [hi, bind, Except.bind]
      exact hp

/-- `TransferFunction.__pow__` / `FRD.__pow__`: `|k| + 1` steps. -/
theorem powDt_tf_total {d : Dt} (hd : d.valid) (cfg : DtArg) :
    ∀ (fuel : Nat) (k : Int), k.natAbs + 1 ≤ fuel → powDt .tf d cfg fuel k = .ok ⟨.tf, d⟩ := by
  intro fuel
  induction fuel with
  | zero => intro k h; omega
  | succ n ih =>
    intro k h
    rw [powDt]
    by_cases h0 : k = 0
    · simp [h0, givenDt_valid hd, bind, Except.bind]
    · by_cases hp : k > 0
      · simp only [h0, hp, if_false, if_true]
        have := ih (k - 1) (by omega)
        simp only [this, bind, Except.bind]
        exact mul_self_total (c := .tf) rfl hd cfg
      · simp only [h0, hp, if_false]
        have hr := ih (k + 1) (by omega)
        have hq : binDt .div (.sys ⟨.tf, .none⟩) (.sys ⟨.tf, d⟩) cfg = .ok ⟨.tf, d⟩ :=
          divDt_total _ _ .tf d cfg (Adm.none_left hd) rfl (join_none_left d)
        simp only [ctorDt_static, hq, hr, bind, Except.bind]
        exact mul_self_total (c := .tf) rfl hd cfg

theorem powDt_frd_total {d : Dt} (hd : d.valid) (cfg : DtArg) :
    ∀ (fuel : Nat) (k : Int), k.natAbs + 1 ≤ fuel → powDt .frd d cfg fuel k = .ok ⟨.frd, d⟩ := by
  intro fuel
  induction fuel with
  | zero => intro k h; omega
  | succ n ih =>
    intro k h
    rw [powDt]
    by_cases h0 : k = 0
    · simp [h0, givenDt_valid hd, bind, Except.bind]
    · by_cases hp : k > 0
      · simp only [h0, hp, if_false, if_true]
        have := ih (k - 1) (by omega)
        simp only [this, bind, Except.bind]
        exact mul_self_total (c := .frd) rfl hd cfg
      · simp only [h0, hp, if_false]
        have hr := ih (k + 1) (by omega)
        have hq : binDt .div (.sys ⟨.frd, d⟩) (.sys ⟨.frd, d⟩) cfg = .ok ⟨.frd, d⟩ :=
          divDt_total _ _ .frd d cfg (Adm.self hd) rfl (join_idem d)
        simp only [givenDt_valid hd, hq, hr, bind, Except.bind]
        exact mul_self_total (c := .frd) rfl hd cfg

/-- `sys ** k` of a StateSpace / TransferFunction / FRD system returns a system of the same class
with exactly the operand's timebase, for every integer `k`. -/
theorem unDt_pow_total {c : Cls} (hc : powCls c = true) {d : Dt} (hd : d.valid) (cfg : DtArg)
    (k : Int) : unDt (.pow k) ⟨c, d⟩ cfg = .ok ⟨c, d⟩ := by
  cases c
  · show powDt .ss d cfg (k.natAbs + 2) k = _
    by_cases h : 1 ≤ k
    · exact (powDt_ss_total hd cfg _ k).1 h (by omega)
    · exact (powDt_ss_total hd cfg _ k).2 (by omega) (by omega)
  · exact powDt_tf_total hd cfg _ k (by omega)
  · exact powDt_frd_total hd cfg _ k (by omega)
  · simp [powCls] at hc
  · simp [powCls] at hc

/-- non-linear / interconnected systems have no `__pow__`. -/
theorem unDt_pow_unsupported {c : Cls} (hc : powCls c = false) (d : Dt) (cfg : DtArg) (k : Int) :
    unDt (.pow k) ⟨c, d⟩ cfg = .error .notImplemented := by
  cases c <;> simp [powCls] at hc <;> simp [unDt, powDt]

/-! ### unary operations: either the tabulated class with the operand's timebase, or `TypeError` -/

/-- class of the result of a unary operation (`none`: not offered for the class). -/
def un1Result (u : Un1) (c : Cls) : Option Cls :=
  match u with
  | .pow _ => if powCls c then some c else Option.none
  | u => unResult u.toUnOp c

theorem unDt_un1_cases (u : Un1) (c : Cls) {d : Dt} (hd : d.valid) (cfg : DtArg) :
    (∃ c', un1Result u c = some c' ∧ unDt u.toUnOp ⟨c, d⟩ cfg = .ok ⟨c', d⟩) ∨
    (un1Result u c = Option.none ∧ unDt u.toUnOp ⟨c, d⟩ cfg = .error .notImplemented) := by
  cases u
  case pow k =>
    cases hc : powCls c
    · exact Or.inr ⟨by simp [un1Result, hc], unDt_pow_unsupported hc d cfg k⟩
    · exact Or.inl ⟨c, by simp [un1Result, hc], unDt_pow_total hc hd cfg k⟩
  all_goals
    simp only [un1Result, Un1.toUnOp]
    cases hr : unResult _ c with
    | some c' => exact Or.inl ⟨c', rfl, unDt_supported _ c c' d hd cfg hr⟩
    | none =>
      refine Or.inr ⟨rfl, ?_⟩
      cases c <;> simp [unResult] at hr <;> simp [unDt]

/-- kind of the result of a unary node: `-c` of a constant is a constant. -/
def unKind (u : Un1) : Kind → Option Kind
  | .cls c => (un1Result u c).map Kind.cls
  | k => if u = .neg then some k else Option.none

theorem unArg_total (u : Un1) (a : Arg) (k : Kind) (hv : a.dt.valid) (cfg : DtArg)
    (hk : unKind u a.kind = some k) : ∃ x, unArg u a cfg = .ok x ∧ x.kind = k ∧ x.dt = a.dt := by
  rcases a with ⟨c, d⟩ | _ | _
  · simp only [Arg.kind, unKind, Option.map_eq_some_iff] at hk
    obtain ⟨c', hc', rfl⟩ := hk
    rcases unDt_un1_cases u c (d := d) hv cfg with ⟨c'', h1, h2⟩ | ⟨h1, _⟩
    · rw [hc'] at h1; cases h1
      exact ⟨.sys ⟨c', d⟩, by simp [unArg, h2, bind, Except.bind], rfl, rfl⟩
    · rw [hc'] at h1; cases h1
  · simp only [Arg.kind, unKind] at hk
    split_ifs at hk with hu
    subst hu; cases hk
    exact ⟨.scalar, rfl, rfl, rfl⟩
  · simp only [Arg.kind, unKind] at hk
    split_ifs at hk with hu
    subst hu; cases hk
    exact ⟨.array, rfl, rfl, rfl⟩

/-- a unary node that returns keeps the timebase; it never raises the timebase error. -/
theorem unArg_sound (u : Un1) (a : Arg) (hv : a.dt.valid) (cfg : DtArg) :
    (∀ x, unArg u a cfg = .ok x → x.dt = a.dt) ∧ unArg u a cfg ≠ .error .timebase := by
  rcases a with ⟨c, d⟩ | _ | _
  · rcases unDt_un1_cases u c (d := d) hv cfg with ⟨c', _, h2⟩ | ⟨_, h2⟩
    · constructor
      · intro x hx
        simp only [unArg, h2, bind, Except.bind, Except.ok.injEq] at hx
        subst hx; rfl
      · simp [unArg, h2, bind, Except.bind]
    · constructor
      · intro x hx; simp [unArg, h2, bind, Except.bind] at hx
      · simp [unArg, h2, bind, Except.bind]
  · cases u <;> simp [unArg, negArg, Arg.dt]
  · cases u <;> simp [unArg, negArg, Arg.dt]

/-! ### sampling -/

theorem sampleArg_cases (ts : Rat) (hts : 0 < ts) (a : Arg) (cfg : DtArg) :
    (∃ c, (c = .ss ∨ c = .tf) ∧ a.kind = .cls c ∧ isCTime a.dt = true ∧
        sampleArg ts a cfg = .ok (.sys ⟨c, .disc ts⟩)) ∨
    (sampleArg ts a cfg = .error .badArg ∧
        ¬ (∃ c, (c = .ss ∨ c = .tf) ∧ a.kind = .cls c ∧ isCTime a.dt = true)) ∨
    (sampleArg ts a cfg = .error .notImplemented ∧ ¬ (∃ c, (c = .ss ∨ c = .tf) ∧ a.kind = .cls c)) := by
  rcases a with ⟨c, d⟩ | _ | _
  · cases c
    · have := unDt_sample .ss (Or.inl rfl) d ts hts cfg
      cases hct : isCTime d
      · refine Or.inr (Or.inl ⟨by simp [sampleArg, this, hct, bind, Except.bind], ?_⟩)
        rintro ⟨c, _, _, h3⟩; simp [Arg.dt, hct] at h3
      · exact Or.inl ⟨.ss, Or.inl rfl, rfl, hct, by simp [sampleArg, this, hct, bind, Except.bind]⟩
    · have := unDt_sample .tf (Or.inr rfl) d ts hts cfg
      cases hct : isCTime d
      · refine Or.inr (Or.inl ⟨by simp [sampleArg, this, hct, bind, Except.bind], ?_⟩)
        rintro ⟨c, _, _, h3⟩; simp [Arg.dt, hct] at h3
      · exact Or.inl ⟨.tf, Or.inr rfl, rfl, hct, by simp [sampleArg, this, hct, bind, Except.bind]⟩
    all_goals
      refine Or.inr (Or.inr ⟨by simp [sampleArg, unDt, bind, Except.bind], ?_⟩)
      rintro ⟨c, h1 | h1, h2⟩ <;> subst h1 <;> simp [Arg.kind] at h2
  · refine Or.inr (Or.inl ⟨rfl, ?_⟩)
    rintro ⟨c, _, h2, _⟩; simp [Arg.kind] at h2
  · refine Or.inr (Or.inl ⟨rfl, ?_⟩)
    rintro ⟨c, _, h2, _⟩; simp [Arg.kind] at h2

/-! ### folds: totality -/

theorem joinAll_single (a : Dt) : joinAll [a] = some a := by
  simp [joinAll_cons, joinAll_nil, join_none_right]

theorem joinAll_pair (a b : Dt) : joinAll [a, b] = join a b := by
  simp [joinAll_cons, joinAll_nil, join_none_right]

theorem joinAll_cons_cons (a b : Dt) (l : List Dt) :
    joinAll (a :: b :: l) = join' (join a b) (joinAll l) := by
  simp only [joinAll_cons]
  rw [← join'_assoc, join'_some]

/-- the accumulator of a fold stays admissible with the remaining elements. -/
theorem AdmList.step {a b e : Dt} {l : List Dt} (h : AdmList (a :: b :: l)) (hj : join a b = some e) :
    AdmList (e :: l) := by
  apply h.sub
  intro x hx
  rcases List.mem_cons.mp hx with rfl | h1
  · rcases join_mem hj with h2 | h2
    · rw [h2]; exact Or.inr List.mem_cons_self
    · rw [h2]; exact Or.inr (by simp)
  · exact Or.inr (by simp [h1])

theorem AdmList.head2 {a b : Dt} {l : List Dt} (h : AdmList (a :: b :: l)) : Adm a b :=
  h.adm (Or.inr List.mem_cons_self) (Or.inr (by simp))

theorem join_of_joinAll_cons_cons {a b d : Dt} {l : List Dt} (h : joinAll (a :: b :: l) = some d) :
    ∃ e, join a b = some e ∧ joinAll (e :: l) = some d := by
  rw [joinAll_cons_cons] at h
  cases hj : join a b with
  | none => simp [hj] at h
  | some e => exact ⟨e, rfl, by rw [joinAll_cons]; rw [hj] at h; exact h⟩

/-- class of a left fold over operand kinds. -/
def foldKind (g : Cls → Kind → Option Cls) : Cls → List Kind → Option Cls
  | c, [] => some c
  | c, k :: ks => (g c k).bind fun c' => foldKind g c' ks

/-- a left fold of a total binary step is total: class by the class fold, timebase the join. -/
theorem foldlM_total (f : Sys → Arg → Except Err Sys) (g : Cls → Kind → Option Cls)
    (hf : ∀ (acc : Sys) (y : Arg) (c : Cls) (d : Dt), Adm acc.dt y.dt → g acc.cls y.kind = some c →
      join acc.dt y.dt = some d → f acc y = .ok ⟨c, d⟩) :
    ∀ (rest : List Arg) (first : Sys) (c : Cls) (d : Dt), AdmList (first.dt :: rest.map Arg.dt) →
      foldKind g first.cls (rest.map Arg.kind) = some c →
      joinAll (first.dt :: rest.map Arg.dt) = some d → rest.foldlM f first = .ok ⟨c, d⟩
  | [], first, c, d, _, hk, hj => by
    simp only [List.map_nil, foldKind, Option.some.injEq] at hk
    simp only [List.map_nil, joinAll_single, Option.some.injEq] at hj
    subst hk; subst hj
    rfl
  | y :: ys, first, c, d, hadm, hk, hj => by
    simp only [List.map_cons] at hadm hk hj
    obtain ⟨e, hje, hjr⟩ := join_of_joinAll_cons_cons hj
    simp only [foldKind] at hk
    cases hg : g first.cls y.kind with
    | none => simp [hg] at hk
    | some c1 =>
      simp only [hg, Option.bind_some] at hk
      have h1 := hf first y c1 e (AdmList.head2 hadm) hg hje
      simp only [List.foldlM, h1, bind, Except.bind]
      exact foldlM_total f g hf ys ⟨c1, e⟩ c d (AdmList.step hadm hje) hk hjr

theorem seriesDt_total (first : Sys) (rest : List Arg) (c : Cls) (d : Dt) (cfg : DtArg)
    (h : AdmList (first.dt :: rest.map Arg.dt))
    (hk : foldKind (fun acc y => binResult y (.cls acc)) first.cls (rest.map Arg.kind) = some c)
    (hj : joinAll (first.dt :: rest.map Arg.dt) = some d) : seriesDt first rest cfg = .ok ⟨c, d⟩ :=
  foldlM_total _ _ (fun acc y c d hA hg hjn =>
    binDt_total .mul (by decide) y (.sys acc) c d cfg hA.symm hg (by rw [join_comm]; exact hjn))
    rest first c d h hk hj

theorem parallelDt_total (first : Sys) (rest : List Arg) (c : Cls) (d : Dt) (cfg : DtArg)
    (h : AdmList (first.dt :: rest.map Arg.dt))
    (hk : foldKind (fun acc y => binResult (.cls acc) y) first.cls (rest.map Arg.kind) = some c)
    (hj : joinAll (first.dt :: rest.map Arg.dt) = some d) : parallelDt first rest cfg = .ok ⟨c, d⟩ :=
  foldlM_total _ _ (fun acc y c d hA hg hjn =>
    binDt_total .add (by decide) (.sys acc) y c d cfg hA hg hjn) rest first c d h hk hj

theorem appendAllDt_total (first : Sys) (rest : List Arg) (c : Cls) (d : Dt) (cfg : DtArg)
    (h : AdmList (first.dt :: rest.map Arg.dt))
    (hk : foldKind appendResult first.cls (rest.map Arg.kind) = some c)
    (hj : joinAll (first.dt :: rest.map Arg.dt) = some d) : appendAllDt first rest cfg = .ok ⟨c, d⟩ :=
  foldlM_total _ _ (fun acc y c d hA hg hjn =>
    appendDt_total acc.cls acc.dt y c d cfg hA hg hjn) rest first c d h hk hj

/-- a left fold of `common_timebase`-like steps over elements satisfying `P` is total. -/
theorem foldlM_dt_total {β : Type} (f : Dt → β → Except Err Dt) (dtOf : β → Dt) (P : β → Prop)
    (hf : ∀ (acc : Dt) (b : β) (d : Dt), Adm acc (dtOf b) → P b → join acc (dtOf b) = some d →
      f acc b = .ok d) :
    ∀ (l : List β) (k d : Dt), AdmList (k :: l.map dtOf) → (∀ b ∈ l, P b) →
      joinAll (k :: l.map dtOf) = some d → l.foldlM f k = .ok d
  | [], k, d, _, _, hj => by
    simp only [List.map_nil, joinAll_single, Option.some.injEq] at hj
    subst hj; rfl
  | b :: bs, k, d, hadm, hP, hj => by
    simp only [List.map_cons] at hadm hj
    obtain ⟨e, hje, hjr⟩ := join_of_joinAll_cons_cons hj
    have h1 := hf k b e (AdmList.head2 hadm) (hP b List.mem_cons_self) hje
    simp only [List.foldlM, h1, bind, Except.bind]
    exact foldlM_dt_total f dtOf P hf bs e d (AdmList.step hadm hje)
      (fun x hx => hP x (List.mem_cons_of_mem _ hx)) hjr

theorem joinAll_valid {l : List Dt} {d : Dt} (h : AdmList l) (hj : joinAll l = some d) : d.valid := by
  rcases joinAll_mem hj with h1 | h1
  · rw [h1]; trivial
  · exact h.1 _ h1

/-- `InterconnectedSystem(syslist, dt=kw)` over subsystems that have states (no FRD) returns an
interconnected system with the join of `kw` and the subsystem timebases. -/
theorem icDt_total (kw : Option Dt) (l : List Sys) (d : Dt) (cfg : DtArg)
    (h : AdmList (kw.getD .none :: l.map Sys.dt)) (hc : ∀ s ∈ l, s.cls ≠ .frd)
    (hj : joinAll (kw.getD .none :: l.map Sys.dt) = some d) : icDt kw l cfg = .ok ⟨.ic, d⟩ := by
  have hfold : l.foldlM (icStep cfg) (kw.getD .none) = .ok d :=
    foldlM_dt_total (icStep cfg) Sys.dt (fun s => s.cls ≠ .frd)
      (fun acc s e hA hP hje => by
        rw [icStep_eq hA, hje]
        simp [ofOpt, hP, bind, Except.bind]) l _ d h hc hj
  unfold icDt
  simp [hfold, givenDt_valid (joinAll_valid h hj), bind, Except.bind]

/-! ### `combine_tf`: the `_ensure_tf` re-check is redundant -/

/-- one step of the second loop of `combine_tf` (`_ensure_tf(block, dt)`). -/
def ensureStep (d : Dt) (_ : Unit) (b : Arg) : Except Err Unit :=
  match b with
  | .sys s => if d = .none then .ok () else (do let _ ← common s.dt d; .ok ())
  | _ => .ok ()

theorem combineTfDt_eq (blocks : List Arg) (cfg : DtArg) :
    combineTfDt blocks cfg = (do
      let d ← blocks.foldlM (fun acc b => common acc b.dt) .none
      let _ ← blocks.foldlM (ensureStep d) ()
      let y ← givenDt d cfg
      .ok ⟨.tf, y⟩) := rfl

/-- the loop never fails over blocks whose timebases are all below `d`. -/
theorem ensureLoop_ok (d : Dt) : ∀ (blocks : List Arg),
    (∀ b ∈ blocks, ∃ r, common b.dt d = .ok r) → blocks.foldlM (ensureStep d) () = .ok ()
  | [], _ => rfl
  | b :: bs, h => by
    have ih := ensureLoop_ok d bs (fun x hx => h x (List.mem_cons_of_mem _ hx))
    obtain ⟨r, hr⟩ := h b List.mem_cons_self
    have hstep : ensureStep d () b = .ok () := by
      rcases b with s | _ | _
      · simp only [Arg.dt] at hr
        simp only [ensureStep]
        split
        · rfl
        · simp [hr, bind, Except.bind]
      · rfl
      · rfl
    simp only [List.foldlM, hstep, bind, Except.bind]
    exact ih

theorem admList_none_cons {l : List Dt} (h : AdmList l) : AdmList (Dt.none :: l) :=
  h.sub fun a ha => by
    rcases List.mem_cons.mp ha with rfl | h1
    · exact Or.inl rfl
    · exact Or.inr h1

/-- `combine_tf` returns the join of the blocks' timebases whenever they are compatible … -/
theorem combineTfDt_total (blocks : List Arg) (d : Dt) (cfg : DtArg)
    (h : AdmList (blocks.map Arg.dt)) (hj : joinAll (blocks.map Arg.dt) = some d) :
    combineTfDt blocks cfg = .ok ⟨.tf, d⟩ := by
  have hadm := admList_none_cons h
  have hfold : blocks.foldlM (fun acc b => common acc b.dt) Dt.none = .ok d :=
    foldlM_dt_total (fun acc (b : Arg) => common acc b.dt) Arg.dt (fun _ => True)
      (fun acc b e hA _ hje => by rw [common_adm hA, hje]; rfl) blocks .none d hadm
      (fun _ _ => trivial) (by rw [joinAll_none_cons]; exact hj)
  have hloop := ensureLoop_ok d blocks (fun b hb => by
    have hmem : b.dt ∈ blocks.map Arg.dt := List.mem_map_of_mem hb
    have hle : join b.dt d = some d := le_joinAll hj _ hmem
    have hA : Adm b.dt d := h.adm (Or.inr hmem) (by
      rcases joinAll_mem hj with h1 | h1
      · exact Or.inl h1
      · exact Or.inr h1)
    exact ⟨d, by rw [common_adm hA, hle]; rfl⟩)
  rw [combineTfDt_eq]
  simp only [hfold, hloop, givenDt_valid (joinAll_valid h hj), bind, Except.bind]

/-- … and it raises the timebase error only when two blocks are incompatible (together with
`combineTfDt_ok`: the full soundness statement, closing the gap left in `Props/C05.lean`). -/
theorem combineTfDt_sound (blocks : List Arg) (cfg : DtArg) (h : AdmList (blocks.map Arg.dt)) :
    LSound (combineTfDt blocks cfg) (blocks.map Arg.dt) := by
  refine ⟨fun s hs => combineTfDt_ok blocks cfg h s hs, fun he => ?_⟩
  cases hj : joinAll (blocks.map Arg.dt) with
  | none => rfl
  | some d =>
    rw [combineTfDt_total blocks d cfg h hj] at he
    cases he

/-! ### the class table of the node operations -/

/-- class a constant is converted to by `feedback(constant, sys)`. -/
def constFbCls : Cls → Cls
  | .tf => .tf
  | .frd => .frd
  | _ => .ss

def fbKind : Kind → Kind → Option Kind
  | .cls c, k => (fbResult c k).map Kind.cls
  | _, .cls cy => (fbResult (constFbCls cy) (.cls cy)).map Kind.cls
  | _, _ => Option.none

/-- `a.lft(b)`: `a` must be a StateSpace. -/
def lftKind : Kind → Kind → Option Kind
  | .cls c, k => (lftResult c k).map Kind.cls
  | _, _ => Option.none

/-- subsystems `interconnect` accepts: systems with states (no FRD, no constants). -/
def icChild : Kind → Bool
  | .cls .ss | .cls .tf | .cls .nl | .cls .ic => true
  | _ => false

/-- blocks `combine_tf` accepts: transfer functions and constants. -/
def tfBlock : Kind → Bool
  | .cls .tf | .scalar | .array => true
  | _ => false

/-- kind of the result of a node operation on operands of the given kinds (`none`: the operation
is not offered for these classes / this number of operands — the code raises `TypeError` etc.). -/
def opKind : Op → List Kind → Option Kind
  | .un u, [k] => unKind u k
  | .bin op, [a, b] => (if op = .div then divResult a b else binResult a b).map Kind.cls
  | .feedback, [a, b] => fbKind a b
  | .lft, [a, b] => lftKind a b
  | .series, .cls c :: ks => (foldKind (fun acc y => binResult y (.cls acc)) c ks).map Kind.cls
  | .parallel, .cls c :: ks => (foldKind (fun acc y => binResult (.cls acc) y) c ks).map Kind.cls
  | .append, .cls c :: ks => (foldKind appendResult c ks).map Kind.cls
  | .interconnect _, ks => if ks.all icChild then some (.cls .ic) else Option.none
  | .combineTf, ks => if ks.all tfBlock then some (.cls .tf) else Option.none
  | _, _ => Option.none

/-! ### soundness of the node operations -/

theorem tsound_err (e : Err) (he : e ≠ .timebase) (l : List Dt) : TSound (.error e) l := by
  constructor
  · intro a ha; cases ha
  · intro h; cases h; exact absurd rfl he

theorem tsound_of_lsound {r : Except Err Sys} {l : List Dt} (h : LSound r l) :
    TSound (do let s ← r; .ok (.sys s)) l := by
  rcases r with e | s
  · constructor
    · intro a ha; simp [bind, Except.bind] at ha
    · intro he
      have : e = .timebase := by simpa [bind, Except.bind] using he
      subst this
      exact h.2 rfl
  · constructor
    · intro a ha
      simp only [bind, Except.bind, Except.ok.injEq] at ha
      subst ha
      exact h.1 s rfl
    · intro he; simp [bind, Except.bind] at he

theorem lsound_of_sound {r : Except Err Sys} {a b : Dt} (h : Sound r a b) : LSound r [a, b] := by
  unfold LSound
  rw [joinAll_pair]
  exact h

theorem admList_pair {a b : Dt} (h : AdmList [a, b]) : Adm a b :=
  h.adm (Or.inr List.mem_cons_self) (Or.inr (by simp))

theorem fbArg_sound (a b : Arg) (cfg : DtArg) (h : Adm a.dt b.dt) : Sound (fbArg a b cfg) a.dt b.dt := by
  rcases a with x | _ | _
  · exact feedbackDt_sound x b cfg h
  · rcases b with y | _ | _
    · exact feedbackConstDt_sound y cfg h.vb
    · exact sound_err _ (by decide) _ _
    · exact sound_err _ (by decide) _ _
  · rcases b with y | _ | _
    · exact feedbackConstDt_sound y cfg h.vb
    · exact sound_err _ (by decide) _ _
    · exact sound_err _ (by decide) _ _

theorem allSys_ok : ∀ (args : List Arg) (l : List Sys), allSys args = .ok l → args = l.map Arg.sys
  | [], l, h => by
    simp only [allSys, Except.ok.injEq] at h
    subst h; rfl
  | .sys s :: r, l, h => by
    simp only [allSys] at h
    cases hr : allSys r with
    | error e => simp [hr, bind, Except.bind] at h
    | ok l' =>
      simp only [hr, bind, Except.bind, Except.ok.injEq] at h
      subst h
      rw [allSys_ok r l' hr]; rfl
  | .scalar :: r, l, h => by simp [allSys] at h
  | .array :: r, l, h => by simp [allSys] at h

theorem allSys_err : ∀ (args : List Arg) (e : Err), allSys args = .error e → e = .badArg
  | [], e, h => by simp [allSys] at h
  | .sys s :: r, e, h => by
    simp only [allSys] at h
    cases hr : allSys r with
    | error e' =>
      simp only [hr, bind, Except.bind, Except.error.injEq] at h
      subst h
      exact allSys_err r e' hr
    | ok l' => simp [hr, bind, Except.bind] at h
  | .scalar :: r, e, h => by simp only [allSys, Except.error.injEq] at h; exact h.symm
  | .array :: r, e, h => by simp only [allSys, Except.error.injEq] at h; exact h.symm

theorem map_dt_map_sys (l : List Sys) : (l.map Arg.sys).map Arg.dt = l.map Sys.dt := by
  induction l with
  | nil => rfl
  | cons s r ih => simp [Arg.dt, ih]

theorem own_getD (kw : Option Dt) (l : List Dt) :
    joinAll ((Op.interconnect kw).own ++ l) = joinAll (kw.getD .none :: l) := by
  cases kw with
  | none => simp [Op.own, joinAll_none_cons]
  | some d => simp [Op.own]

theorem admList_own_getD {kw : Option Dt} {l : List Dt} (h : AdmList ((Op.interconnect kw).own ++ l)) :
    AdmList (kw.getD .none :: l) := by
  cases kw with
  | none => simpa [Op.own] using admList_none_cons (by simpa [Op.own] using h)
  | some d => simpa [Op.own] using h

/-- every node operation: if it returns, the result carries the join of its own and its operands'
timebases; it raises the timebase error only if these are incompatible. -/
theorem applyOp_sound (cfg : DtArg) (op : Op) (args : List Arg)
    (h : AdmList (op.own ++ args.map Arg.dt)) :
    TSound (applyOp cfg op args) (op.own ++ args.map Arg.dt) := by
  cases op
  case un u =>
    rcases args with _ | ⟨a, _ | ⟨b, r⟩⟩
    · exact tsound_err _ (by decide) _
    · have hv : a.dt.valid := h.1 _ (by simp [Op.own])
      have hs := unArg_sound u a hv cfg
      simp only [Op.own, List.nil_append, List.map_cons, List.map_nil, applyOp, TSound, joinAll_single]
      constructor
      · intro x hx; rw [hs.1 x hx]
      · intro he; exact absurd he hs.2
    · exact tsound_err _ (by decide) _
  case bin bop =>
    rcases args with _ | ⟨a, _ | ⟨b, _ | ⟨c, r⟩⟩⟩
    · exact tsound_err _ (by decide) _
    · exact tsound_err _ (by decide) _
    · have hA : Adm a.dt b.dt := admList_pair (by simpa [Op.own] using h)
      simp only [Op.own, List.nil_append, List.map_cons, List.map_nil, applyOp]
      exact tsound_of_lsound (lsound_of_sound (binDt_sound bop a b cfg hA))
    · exact tsound_err _ (by decide) _
  case feedback =>
    rcases args with _ | ⟨a, _ | ⟨b, _ | ⟨c, r⟩⟩⟩
    · exact tsound_err _ (by decide) _
    · exact tsound_err _ (by decide) _
    · have hA : Adm a.dt b.dt := admList_pair (by simpa [Op.own] using h)
      simp only [Op.own, List.nil_append, List.map_cons, List.map_nil, applyOp]
      exact tsound_of_lsound (lsound_of_sound (fbArg_sound a b cfg hA))
    · exact tsound_err _ (by decide) _
  case lft =>
    rcases args with _ | ⟨a, _ | ⟨b, _ | ⟨c, r⟩⟩⟩
    · exact tsound_err _ (by decide) _
    · exact tsound_err _ (by decide) _
    · have hA : Adm a.dt b.dt := admList_pair (by simpa [Op.own] using h)
      simp only [Op.own, List.nil_append, List.map_cons, List.map_nil, applyOp]
      exact tsound_of_lsound (lsound_of_sound (lftArg_sound a b cfg hA))
    · exact tsound_err _ (by decide) _
  case series =>
    rcases args with _ | ⟨a, rest⟩
    · exact tsound_err _ (by decide) _
    · rcases a with first | _ | _
      · simp only [Op.own, List.nil_append, List.map_cons, applyOp, Arg.dt]
        exact tsound_of_lsound (seriesDt_sound first rest cfg (by simpa [Op.own, Arg.dt] using h))
      · exact tsound_err _ (by decide) _
      · exact tsound_err _ (by decide) _
  case parallel =>
    rcases args with _ | ⟨a, rest⟩
    · exact tsound_err _ (by decide) _
    · rcases a with first | _ | _
      · simp only [Op.own, List.nil_append, List.map_cons, applyOp, Arg.dt]
        exact tsound_of_lsound (parallelDt_sound first rest cfg (by simpa [Op.own, Arg.dt] using h))
      · exact tsound_err _ (by decide) _
      · exact tsound_err _ (by decide) _
  case append =>
    rcases args with _ | ⟨a, rest⟩
    · exact tsound_err _ (by decide) _
    · rcases a with first | _ | _
      · simp only [Op.own, List.nil_append, List.map_cons, applyOp, Arg.dt]
        exact tsound_of_lsound (appendAllDt_sound first rest cfg (by simpa [Op.own, Arg.dt] using h))
      · exact tsound_err _ (by decide) _
      · exact tsound_err _ (by decide) _
  case interconnect kw =>
    simp only [applyOp]
    cases hl : allSys args with
    | error e =>
      have := allSys_err args e hl
      subst this
      exact tsound_err _ (by decide) _
    | ok l =>
      have hargs := allSys_ok args l hl
      subst hargs
      rw [map_dt_map_sys] at h ⊢
      have hs := icDt_sound kw l cfg (admList_own_getD h)
      unfold LSound at hs
      rw [← own_getD] at hs
      simp only [bind, Except.bind]
      exact tsound_of_lsound hs
  case combineTf =>
    simp only [Op.own, List.nil_append, applyOp]
    exact tsound_of_lsound (combineTfDt_sound args cfg (by simpa [Op.own] using h))

/-! ### totality of the node operations on the supported kinds -/

theorem feedbackConstDt_total (y : Sys) (c : Cls) (cfg : DtArg) (hv : y.dt.valid)
    (hr : fbResult (constFbCls y.cls) (.cls y.cls) = some c) :
    feedbackConstDt y cfg = .ok ⟨c, y.dt⟩ := by
  rcases y with ⟨cy, d⟩
  cases cy <;>
    simp only [feedbackConstDt, constFbCls, ctorDt_static, givenDt_none, bind, Except.bind] at hr ⊢ <;>
    exact feedbackDt_total _ .none (.sys ⟨_, d⟩) c d cfg (Adm.none_left hv) hr (join_none_left d)

theorem fbArg_total (a b : Arg) (k : Kind) (d : Dt) (cfg : DtArg) (h : Adm a.dt b.dt)
    (hk : fbKind a.kind b.kind = some k) (hj : join a.dt b.dt = some d) :
    ∃ c, k = .cls c ∧ fbArg a b cfg = .ok ⟨c, d⟩ := by
  rcases a with x | _ | _
  · simp only [Arg.kind, fbKind, Option.map_eq_some_iff] at hk
    obtain ⟨c, hc, rfl⟩ := hk
    exact ⟨c, rfl, feedbackDt_total x.cls x.dt b c d cfg h hc hj⟩
  all_goals
    rcases b with y | _ | _
    · simp only [Arg.kind, fbKind, Option.map_eq_some_iff] at hk
      obtain ⟨c, hc, rfl⟩ := hk
      simp only [Arg.dt, join_none_left, Option.some.injEq] at hj
      subst hj
      exact ⟨c, rfl, feedbackConstDt_total y c cfg h.vb hc⟩
    · simp [Arg.kind, fbKind] at hk
    · simp [Arg.kind, fbKind] at hk

theorem allSys_total : ∀ (args : List Arg), (args.map Arg.kind).all icChild = true →
    ∃ l, allSys args = .ok l ∧ args = l.map Arg.sys ∧ ∀ s ∈ l, s.cls ≠ .frd
  | [], _ => ⟨[], rfl, rfl, fun _ h => by cases h⟩
  | a :: r, h => by
    simp only [List.map_cons, List.all_cons, Bool.and_eq_true] at h
    obtain ⟨l, h1, h2, h3⟩ := allSys_total r h.2
    rcases a with s | _ | _
    · refine ⟨s :: l, by simp [allSys, h1, bind, Except.bind], by rw [h2]; simp, ?_⟩
      intro x hx
      rcases List.mem_cons.mp hx with rfl | hx
      · intro hf
        have := h.1
        simp [Arg.kind, hf, icChild] at this
      · exact h3 x hx
    · simp [Arg.kind, icChild] at h
    · simp [Arg.kind, icChild] at h

theorem lftArg_total (a b : Arg) (k : Kind) (d : Dt) (cfg : DtArg) (h : Adm a.dt b.dt)
    (hk : lftKind a.kind b.kind = some k) (hj : join a.dt b.dt = some d) :
    ∃ c, k = .cls c ∧ lftArg a b cfg = .ok ⟨c, d⟩ := by
  rcases a with x | _ | _
  · simp only [Arg.kind, lftKind, Option.map_eq_some_iff] at hk
    obtain ⟨c, hc, rfl⟩ := hk
    exact ⟨c, rfl, lftDt_total x.cls x.dt b c d cfg h hc hj⟩
  · simp [Arg.kind, lftKind] at hk
  · simp [Arg.kind, lftKind] at hk

/-- on operands of supported kinds with compatible timebases every node operation returns a
value of the tabulated kind. -/
theorem applyOp_total (cfg : DtArg) (op : Op) (args : List Arg) (k : Kind) (d : Dt)
    (h : AdmList (op.own ++ args.map Arg.dt)) (hk : opKind op (args.map Arg.kind) = some k)
    (hj : joinAll (op.own ++ args.map Arg.dt) = some d) :
    ∃ x, applyOp cfg op args = .ok x ∧ x.kind = k := by
  cases op
  case un u =>
    rcases args with _ | ⟨a, _ | ⟨b, r⟩⟩
    · simp [opKind] at hk
    · have hv : a.dt.valid := h.1 _ (by simp [Op.own])
      simp only [List.map_cons, List.map_nil, opKind] at hk
      obtain ⟨x, hx, hxk, _⟩ := unArg_total u a k hv cfg hk
      exact ⟨x, by simp only [applyOp]; exact hx, hxk⟩
    · simp [opKind] at hk
  case bin bop =>
    rcases args with _ | ⟨a, _ | ⟨b, _ | ⟨c, r⟩⟩⟩
    · simp [opKind] at hk
    · simp [opKind] at hk
    · have hA : Adm a.dt b.dt := admList_pair (by simpa [Op.own] using h)
      simp only [Op.own, List.nil_append, List.map_cons, List.map_nil, joinAll_pair] at hj
      simp only [List.map_cons, List.map_nil, opKind, Option.map_eq_some_iff] at hk
      obtain ⟨c, hc, rfl⟩ := hk
      by_cases hd : bop = .div
      · subst hd
        simp only [if_true] at hc
        exact ⟨.sys ⟨c, d⟩, by simp [applyOp, divDt_total a b c d cfg hA hc hj, bind, Except.bind], rfl⟩
      · simp only [hd, if_false] at hc
        exact ⟨.sys ⟨c, d⟩,
          by simp [applyOp, binDt_total bop hd a b c d cfg hA hc hj, bind, Except.bind], rfl⟩
    · simp [opKind] at hk
  case feedback =>
    rcases args with _ | ⟨a, _ | ⟨b, _ | ⟨c, r⟩⟩⟩
    · simp [opKind] at hk
    · simp [opKind] at hk
    · have hA : Adm a.dt b.dt := admList_pair (by simpa [Op.own] using h)
      simp only [Op.own, List.nil_append, List.map_cons, List.map_nil, joinAll_pair] at hj
      simp only [List.map_cons, List.map_nil, opKind] at hk
      obtain ⟨c, rfl, hc⟩ := fbArg_total a b k d cfg hA hk hj
      exact ⟨.sys ⟨c, d⟩, by simp [applyOp, hc, bind, Except.bind], rfl⟩
    · simp [opKind] at hk
  case lft =>
    rcases args with _ | ⟨a, _ | ⟨b, _ | ⟨c, r⟩⟩⟩
    · simp [opKind] at hk
    · simp [opKind] at hk
    · have hA : Adm a.dt b.dt := admList_pair (by simpa [Op.own] using h)
      simp only [Op.own, List.nil_append, List.map_cons, List.map_nil, joinAll_pair] at hj
      simp only [List.map_cons, List.map_nil, opKind] at hk
      obtain ⟨c, rfl, hc⟩ := lftArg_total a b k d cfg hA hk hj
      exact ⟨.sys ⟨c, d⟩, by simp [applyOp, hc, bind, Except.bind], rfl⟩
    · simp [opKind] at hk
  case series =>
    rcases args with _ | ⟨a, rest⟩
    · simp [opKind] at hk
    · rcases a with first | _ | _
      · simp only [List.map_cons, Arg.kind, opKind, Option.map_eq_some_iff] at hk
        obtain ⟨c, hc, rfl⟩ := hk
        have := seriesDt_total first rest c d cfg (by simpa [Op.own, Arg.dt] using h) hc
          (by simpa [Op.own, Arg.dt] using hj)
        exact ⟨.sys ⟨c, d⟩, by simp [applyOp, this, bind, Except.bind], rfl⟩
      · simp [Arg.kind, opKind] at hk
      · simp [Arg.kind, opKind] at hk
  case parallel =>
    rcases args with _ | ⟨a, rest⟩
    · simp [opKind] at hk
    · rcases a with first | _ | _
      · simp only [List.map_cons, Arg.kind, opKind, Option.map_eq_some_iff] at hk
        obtain ⟨c, hc, rfl⟩ := hk
        have := parallelDt_total first rest c d cfg (by simpa [Op.own, Arg.dt] using h) hc
          (by simpa [Op.own, Arg.dt] using hj)
        exact ⟨.sys ⟨c, d⟩, by simp [applyOp, this, bind, Except.bind], rfl⟩
      · simp [Arg.kind, opKind] at hk
      · simp [Arg.kind, opKind] at hk
  case append =>
    rcases args with _ | ⟨a, rest⟩
    · simp [opKind] at hk
    · rcases a with first | _ | _
      · simp only [List.map_cons, Arg.kind, opKind, Option.map_eq_some_iff] at hk
        obtain ⟨c, hc, rfl⟩ := hk
        have := appendAllDt_total first rest c d cfg (by simpa [Op.own, Arg.dt] using h) hc
          (by simpa [Op.own, Arg.dt] using hj)
        exact ⟨.sys ⟨c, d⟩, by simp [applyOp, this, bind, Except.bind], rfl⟩
      · simp [Arg.kind, opKind] at hk
      · simp [Arg.kind, opKind] at hk
  case interconnect kw =>
    simp only [opKind] at hk
    split_ifs at hk with hall
    cases hk
    obtain ⟨l, h1, h2, h3⟩ := allSys_total args hall
    subst h2
    rw [map_dt_map_sys] at h hj
    rw [own_getD] at hj
    have := icDt_total kw l d cfg (admList_own_getD h) h3 hj
    exact ⟨.sys ⟨.ic, d⟩, by simp [applyOp, h1, this, bind, Except.bind], rfl⟩
  case combineTf =>
    simp only [opKind] at hk
    split_ifs at hk with hall
    cases hk
    have := combineTfDt_total args d cfg (by simpa [Op.own] using h) (by simpa [Op.own] using hj)
    exact ⟨.sys ⟨.tf, d⟩, by simp [applyOp, this, bind, Except.bind], rfl⟩

/-! ### the class table of an expression -/

mutual
/-- kind (class of the resulting system, or constant) of an expression all of whose operations are
offered for the classes of their operands; `none` otherwise. -/
def kind : Expr → Option Kind
  | .leaf a => some a.kind
  | .sumjunc => some (.cls .ss)
  | .sample _ e =>
    match kind e with
    | some (.cls .ss) => some (.cls .ss)
    | some (.cls .tf) => some (.cls .tf)
    | _ => Option.none
  | .node op args => (kindL args).bind (opKind op)
def kindL : EList → Option (List Kind)
  | .nil => some []
  | .cons e l => (kind e).bind fun k => (kindL l).map (k :: ·)
end

/-! ### list facts -/

theorem joinAll_append_none_left {A : List Dt} (B : List Dt) (h : joinAll A = Option.none) :
    joinAll (A ++ B) = Option.none := by
  rw [joinAll_append, h]; rfl

theorem joinAll_append_none_right (A : List Dt) {B : List Dt} (h : joinAll B = Option.none) :
    joinAll (A ++ B) = Option.none := by
  rw [joinAll_append, h]; cases joinAll A <;> rfl

theorem joinAll_append_some {A B : List Dt} {d : Dt} (h : joinAll (A ++ B) = some d) :
    (∃ a, joinAll A = some a) ∧ (∃ b, joinAll B = some b) := by
  rw [joinAll_append] at h
  cases hA : joinAll A with
  | none => simp [hA, join'] at h
  | some a =>
    cases hB : joinAll B with
    | none => simp [hA, hB, join'] at h
    | some b => exact ⟨⟨a, rfl⟩, ⟨b, rfl⟩⟩

theorem joinAll_append_congr (A : List Dt) {B B' : List Dt} (h : joinAll B = joinAll B') :
    joinAll (A ++ B) = joinAll (A ++ B') := by
  rw [joinAll_append, joinAll_append, h]

theorem admList_left {A B : List Dt} (h : AdmList (A ++ B)) : AdmList A :=
  h.sub fun _ ha => Or.inr (List.mem_append_left _ ha)

theorem admList_right {A B : List Dt} (h : AdmList (A ++ B)) : AdmList B :=
  h.sub fun _ ha => Or.inr (List.mem_append_right _ ha)

/-! ### `eval`: unfolding -/

theorem eval_node (cfg : DtArg) (op : Op) (args : EList) :
    eval cfg (.node op args) = (do let l ← evalL cfg args; applyOp cfg op l) := by
  simp only [eval]

theorem eval_sample (cfg : DtArg) (ts : Rat) (e : Expr) :
    eval cfg (.sample ts e) = (do let a ← eval cfg e; sampleArg ts a cfg) := by
  simp only [eval]

theorem evalL_cons (cfg : DtArg) (e : Expr) (l : EList) :
    evalL cfg (.cons e l) = (do let a ← eval cfg e; let r ← evalL cfg l; .ok (a :: r)) := by
  simp only [evalL]

theorem sumjuncDt_eq (cfg : DtArg) : sumjuncDt cfg = .ok ⟨.ss, .none⟩ := by
  have h1 : factoryDt .ss true Option.none cfg = .ok .none := by
    simp [factoryDt, ctorDt_static]
  simp only [sumjuncDt, h1, bind, Except.bind]
  exact unDt_supported .toSS .ss .ss .none trivial cfg rfl

theorem eval_sumjunc (cfg : DtArg) : eval cfg .sumjunc = .ok (.sys ⟨.ss, .none⟩) := by
  simp only [eval, sumjuncDt_eq, bind, Except.bind]

theorem evalL_ok_cons {cfg : DtArg} {e : Expr} {l : EList} {as : List Arg}
    (h : evalL cfg (.cons e l) = .ok as) :
    ∃ a r, eval cfg e = .ok a ∧ evalL cfg l = .ok r ∧ as = a :: r := by
  rw [evalL_cons] at h
  cases he : eval cfg e with
  | error x => simp [he, bind, Except.bind] at h
  | ok a =>
    cases hl : evalL cfg l with
    | error x => simp [he, hl, bind, Except.bind] at h
    | ok r =>
      simp only [he, hl, bind, Except.bind, Except.ok.injEq] at h
      exact ⟨a, r, rfl, rfl, h.symm⟩

/-! ### soundness: the value's timebase is the join of the leaves -/

mutual
theorem eval_sound (cfg : DtArg) : ∀ (e : Expr), AdmList (leaves e) →
    ∀ a, eval cfg e = .ok a → joinAll (leaves e) = some a.dt
  | .leaf x, _, a, h => by
    simp only [eval, Except.ok.injEq] at h
    subst h
    simp only [leaves, joinAll_single]
  | .sumjunc, _, a, h => by
    rw [eval_sumjunc, Except.ok.injEq] at h
    subst h
    simp only [leaves, joinAll_single, Arg.dt]
  | .sample ts e, hadm, a, h => by
    have hts : 0 < ts := hadm.1 (.disc ts) (by simp [leaves])
    rw [eval_sample] at h
    cases he : eval cfg e with
    | error x => simp [he, bind, Except.bind] at h
    | ok b =>
      simp only [he, bind, Except.bind] at h
      rcases sampleArg_cases ts hts b cfg with ⟨c, _, _, _, h4⟩ | ⟨h4, _⟩ | ⟨h4, _⟩
      · rw [h4, Except.ok.injEq] at h
        subst h
        simp only [leaves, joinAll_single, Arg.dt]
      · rw [h4] at h; cases h
      · rw [h4] at h; cases h
  | .node op args, hadm, a, h => by
    simp only [leaves] at hadm ⊢
    rw [eval_node] at h
    cases hl : evalL cfg args with
    | error x => simp [hl, bind, Except.bind] at h
    | ok as =>
      simp only [hl, bind, Except.bind] at h
      obtain ⟨hj, hm⟩ := evalL_sound cfg args (admList_right hadm) as hl
      have hadm' : AdmList (op.own ++ as.map Arg.dt) := hadm.sub fun x hx => by
        rcases List.mem_append.mp hx with h1 | h1
        · exact Or.inr (List.mem_append_left _ h1)
        · rcases hm x h1 with h2 | h2
          · exact Or.inl h2
          · exact Or.inr (List.mem_append_right _ h2)
      rw [joinAll_append_congr _ hj]
      exact (applyOp_sound cfg op as hadm').1 a h
theorem evalL_sound (cfg : DtArg) : ∀ (l : EList), AdmList (leavesL l) →
    ∀ as, evalL cfg l = .ok as →
      joinAll (leavesL l) = joinAll (as.map Arg.dt) ∧
      ∀ x ∈ as.map Arg.dt, x = Dt.none ∨ x ∈ leavesL l
  | .nil, _, as, h => by
    simp only [evalL, Except.ok.injEq] at h
    subst h
    exact ⟨rfl, fun _ hx => by cases hx⟩
  | .cons e l, hadm, as, h => by
    simp only [leavesL] at hadm ⊢
    obtain ⟨a, r, he, hl, rfl⟩ := evalL_ok_cons h
    have h1 := eval_sound cfg e (admList_left hadm) a he
    obtain ⟨h2, h3⟩ := evalL_sound cfg l (admList_right hadm) r hl
    constructor
    · rw [joinAll_append, h1, h2, List.map_cons, joinAll_cons]
    · intro x hx
      rcases List.mem_cons.mp hx with rfl | hx
      · rcases joinAll_mem h1 with h4 | h4
        · exact Or.inl h4
        · exact Or.inr (List.mem_append_left _ h4)
      · rcases h3 x hx with h4 | h4
        · exact Or.inl h4
        · exact Or.inr (List.mem_append_right _ h4)
end

/-! ### sampling nodes -/

/-- the operand of a sampling node is a compatible continuous-time (or unspecified) tree. -/
def SampleOK (e : Expr) : Prop := ∃ d, joinAll (leaves e) = some d ∧ isCTime d = true

theorem sampleArg_ok_ctime {ts : Rat} {a x : Arg} {cfg : DtArg} (h : sampleArg ts a cfg = .ok x) :
    isCTime a.dt = true := by
  rcases a with ⟨c, d⟩ | _ | _
  · cases hct : isCTime d
    · cases c <;> simp [sampleArg, unDt, hct, bind, Except.bind] at h
    · exact hct
  · simp [sampleArg] at h
  · simp [sampleArg] at h

theorem eval_ok_sample {cfg : DtArg} {ts : Rat} {e : Expr} {x : Arg}
    (h : eval cfg (.sample ts e) = .ok x) : ∃ b, eval cfg e = .ok b ∧ sampleArg ts b cfg = .ok x := by
  rw [eval_sample] at h
  cases he : eval cfg e with
  | error y => simp [he, bind, Except.bind] at h
  | ok b => exact ⟨b, rfl, by simpa [he, bind, Except.bind] using h⟩

theorem eval_ok_node {cfg : DtArg} {op : Op} {args : EList} {x : Arg}
    (h : eval cfg (.node op args) = .ok x) :
    ∃ as, evalL cfg args = .ok as ∧ applyOp cfg op as = .ok x := by
  rw [eval_node] at h
  cases hl : evalL cfg args with
  | error y => simp [hl, bind, Except.bind] at h
  | ok as => exact ⟨as, rfl, by simpa [hl, bind, Except.bind] using h⟩

mutual
/-- an expression that evaluates has only well-formed sampling nodes. -/
theorem eval_samplesOK (cfg : DtArg) : ∀ (e : Expr), (∀ e' ∈ sampled e, AdmList (leaves e')) →
    ∀ a, eval cfg e = .ok a → ∀ e' ∈ sampled e, SampleOK e'
  | .leaf _, _, _, _ => by intro e' he'; simp [sampled] at he'
  | .sumjunc, _, _, _ => by intro e' he'; simp [sampled] at he'
  | .sample ts e, hs, a, h => by
    obtain ⟨b, he, hb⟩ := eval_ok_sample h
    intro e' he'
    simp only [sampled, List.mem_cons] at he' hs
    rcases he' with rfl | he'
    · exact ⟨b.dt, eval_sound cfg e' (hs e' (Or.inl rfl)) b he, sampleArg_ok_ctime hb⟩
    · exact eval_samplesOK cfg e (fun x hx => hs x (Or.inr hx)) b he e' he'
  | .node op args, hs, a, h => by
    obtain ⟨as, hl, _⟩ := eval_ok_node h
    simp only [sampled] at hs ⊢
    exact evalL_samplesOK cfg args hs as hl
theorem evalL_samplesOK (cfg : DtArg) : ∀ (l : EList), (∀ e' ∈ sampledL l, AdmList (leaves e')) →
    ∀ as, evalL cfg l = .ok as → ∀ e' ∈ sampledL l, SampleOK e'
  | .nil, _, _, _ => by intro e' he'; simp [sampledL] at he'
  | .cons e l, hs, as, h => by
    obtain ⟨a, r, he, hl, _⟩ := evalL_ok_cons h
    intro e' he'
    simp only [sampledL, List.mem_append] at he' hs
    rcases he' with he' | he'
    · exact eval_samplesOK cfg e (fun x hx => hs x (Or.inl hx)) a he e' he'
    · exact evalL_samplesOK cfg l (fun x hx => hs x (Or.inr hx)) r hl e' he'
end

/-! ### completeness: supported classes + compatible leaves ⇒ the expression returns -/

mutual
theorem eval_complete (cfg : DtArg) : ∀ (e : Expr) (k : Kind), AdmList (leaves e) →
    (∀ e' ∈ sampled e, AdmList (leaves e')) → kind e = some k →
    (∃ d, joinAll (leaves e) = some d) → (∀ e' ∈ sampled e, SampleOK e') →
    ∃ a, eval cfg e = .ok a ∧ a.kind = k
  | .leaf x, k, _, _, hk, _, _ => by
    simp only [kind, Option.some.injEq] at hk
    exact ⟨x, by simp only [eval], hk⟩
  | .sumjunc, k, _, _, hk, _, _ => by
    simp only [kind, Option.some.injEq] at hk
    exact ⟨_, eval_sumjunc cfg, hk⟩
  | .sample ts e, k, hadm, hs, hk, _, hok => by
    have hts : 0 < ts := hadm.1 (.disc ts) (by simp [leaves])
    simp only [sampled, List.mem_cons] at hs hok
    obtain ⟨d, hd, hct⟩ := hok e (Or.inl rfl)
    have hke : ∃ c, (c = .ss ∨ c = .tf) ∧ kind e = some (.cls c) ∧ k = .cls c := by
      simp only [kind] at hk
      split at hk
      · exact ⟨.ss, Or.inl rfl, by assumption, by cases hk; rfl⟩
      · exact ⟨.tf, Or.inr rfl, by assumption, by cases hk; rfl⟩
      · cases hk
    obtain ⟨c, hc, hkc, rfl⟩ := hke
    obtain ⟨a, ha, hak⟩ := eval_complete cfg e (.cls c) (hs e (Or.inl rfl))
      (fun x hx => hs x (Or.inr hx)) hkc ⟨d, hd⟩ (fun x hx => hok x (Or.inr hx))
    have hadt : a.dt = d := by
      have := eval_sound cfg e (hs e (Or.inl rfl)) a ha
      rw [hd] at this
      exact (Option.some.inj this).symm
    rw [eval_sample]
    simp only [ha, bind, Except.bind]
    rcases sampleArg_cases ts hts a cfg with ⟨c', _, h2, _, h4⟩ | ⟨_, h2⟩ | ⟨_, h2⟩
    · rw [hak] at h2
      cases h2
      exact ⟨_, h4, rfl⟩
    · exact absurd ⟨c, hc, hak, by rw [hadt]; exact hct⟩ h2
    · exact absurd ⟨c, hc, hak⟩ h2
  | .node op args, k, hadm, hs, hk, hj, hok => by
    simp only [leaves] at hadm hj
    simp only [sampled] at hs hok
    simp only [kind] at hk
    cases hks : kindL args with
    | none => simp [hks] at hk
    | some ks =>
      simp only [hks, Option.bind_some] at hk
      obtain ⟨d, hd⟩ := hj
      obtain ⟨as, hl, hkinds⟩ := evalL_complete cfg args ks (admList_right hadm) hs hks
        (joinAll_append_some hd).2 hok
      obtain ⟨hjl, hm⟩ := evalL_sound cfg args (admList_right hadm) as hl
      have hadm' : AdmList (op.own ++ as.map Arg.dt) := hadm.sub fun x hx => by
        rcases List.mem_append.mp hx with h1 | h1
        · exact Or.inr (List.mem_append_left _ h1)
        · rcases hm x h1 with h2 | h2
          · exact Or.inl h2
          · exact Or.inr (List.mem_append_right _ h2)
      rw [joinAll_append_congr _ hjl] at hd
      rw [← hkinds] at hk
      obtain ⟨x, hx, hxk⟩ := applyOp_total cfg op as k d hadm' hk hd
      exact ⟨x, by rw [eval_node]; simp only [hl, bind, Except.bind]; exact hx, hxk⟩
theorem evalL_complete (cfg : DtArg) : ∀ (l : EList) (ks : List Kind), AdmList (leavesL l) →
    (∀ e' ∈ sampledL l, AdmList (leaves e')) → kindL l = some ks →
    (∃ d, joinAll (leavesL l) = some d) → (∀ e' ∈ sampledL l, SampleOK e') →
    ∃ as, evalL cfg l = .ok as ∧ as.map Arg.kind = ks
  | .nil, ks, _, _, hk, _, _ => by
    simp only [kindL, Option.some.injEq] at hk
    exact ⟨[], by simp only [evalL], by rw [← hk]; rfl⟩
  | .cons e l, ks, hadm, hs, hk, hj, hok => by
    simp only [leavesL] at hadm hj
    simp only [sampledL, List.mem_append] at hs hok
    simp only [kindL] at hk
    cases hke : kind e with
    | none => simp [hke] at hk
    | some k =>
      cases hkl : kindL l with
      | none => simp [hke, hkl] at hk
      | some ks' =>
        simp only [hke, hkl, Option.bind_some, Option.map_some, Option.some.injEq] at hk
        obtain ⟨d, hd⟩ := hj
        obtain ⟨a, ha, hak⟩ := eval_complete cfg e k (admList_left hadm) (fun x hx => hs x (Or.inl hx))
          hke (joinAll_append_some hd).1 (fun x hx => hok x (Or.inl hx))
        obtain ⟨r, hr, hrk⟩ := evalL_complete cfg l ks' (admList_right hadm)
          (fun x hx => hs x (Or.inr hx)) hkl (joinAll_append_some hd).2 (fun x hx => hok x (Or.inr hx))
        refine ⟨a :: r, ?_, ?_⟩
        · rw [evalL_cons]; simp only [ha, hr, bind, Except.bind]
        · rw [← hk, List.map_cons, hak, hrk]
end

/-! ### the timebase error is raised only when leaves are incompatible (at some level) -/

theorem sampleArg_not_timebase {ts : Rat} (hts : 0 < ts) (a : Arg) (cfg : DtArg) :
    sampleArg ts a cfg ≠ .error .timebase := by
  rcases sampleArg_cases ts hts a cfg with ⟨_, _, _, _, h⟩ | ⟨h, _⟩ | ⟨h, _⟩ <;> rw [h] <;> simp

mutual
theorem eval_timebase (cfg : DtArg) : ∀ (e : Expr), AdmList (leaves e) →
    (∀ e' ∈ sampled e, AdmList (leaves e')) → eval cfg e = .error .timebase →
    joinAll (leaves e) = Option.none ∨ ∃ e' ∈ sampled e, joinAll (leaves e') = Option.none
  | .leaf _, _, _, h => by simp [eval] at h
  | .sumjunc, _, _, h => by rw [eval_sumjunc] at h; cases h
  | .sample ts e, hadm, hs, h => by
    have hts : 0 < ts := hadm.1 (.disc ts) (by simp [leaves])
    simp only [sampled, List.mem_cons] at hs ⊢
    rw [eval_sample] at h
    cases he : eval cfg e with
    | error x =>
      have : x = .timebase := by simpa [he, bind, Except.bind] using h
      subst this
      rcases eval_timebase cfg e (hs e (Or.inl rfl)) (fun x hx => hs x (Or.inr hx)) he with h1 | ⟨e', h1, h2⟩
      · exact Or.inr ⟨e, Or.inl rfl, h1⟩
      · exact Or.inr ⟨e', Or.inr h1, h2⟩
    | ok b =>
      simp only [he, bind, Except.bind] at h
      exact absurd h (sampleArg_not_timebase hts b cfg)
  | .node op args, hadm, hs, h => by
    simp only [leaves] at hadm ⊢
    simp only [sampled] at hs ⊢
    rw [eval_node] at h
    cases hl : evalL cfg args with
    | error x =>
      have : x = .timebase := by simpa [hl, bind, Except.bind] using h
      subst this
      rcases evalL_timebase cfg args (admList_right hadm) hs hl with h1 | h1
      · exact Or.inl (joinAll_append_none_right _ h1)
      · exact Or.inr h1
    | ok as =>
      simp only [hl, bind, Except.bind] at h
      obtain ⟨hjl, hm⟩ := evalL_sound cfg args (admList_right hadm) as hl
      have hadm' : AdmList (op.own ++ as.map Arg.dt) := hadm.sub fun x hx => by
        rcases List.mem_append.mp hx with h1 | h1
        · exact Or.inr (List.mem_append_left _ h1)
        · rcases hm x h1 with h2 | h2
          · exact Or.inl h2
          · exact Or.inr (List.mem_append_right _ h2)
      left
      rw [joinAll_append_congr _ hjl]
      exact (applyOp_sound cfg op as hadm').2 h
theorem evalL_timebase (cfg : DtArg) : ∀ (l : EList), AdmList (leavesL l) →
    (∀ e' ∈ sampledL l, AdmList (leaves e')) → evalL cfg l = .error .timebase →
    joinAll (leavesL l) = Option.none ∨ ∃ e' ∈ sampledL l, joinAll (leaves e') = Option.none
  | .nil, _, _, h => by simp [evalL] at h
  | .cons e l, hadm, hs, h => by
    simp only [leavesL] at hadm ⊢
    simp only [sampledL, List.mem_append] at hs ⊢
    rw [evalL_cons] at h
    cases he : eval cfg e with
    | error x =>
      have : x = .timebase := by simpa [he, bind, Except.bind] using h
      subst this
      rcases eval_timebase cfg e (admList_left hadm) (fun x hx => hs x (Or.inl hx)) he with h1 | ⟨e', h1, h2⟩
      · exact Or.inl (joinAll_append_none_left _ h1)
      · exact Or.inr ⟨e', Or.inl h1, h2⟩
    | ok a =>
      cases hl : evalL cfg l with
      | error x =>
        have : x = .timebase := by simpa [he, hl, bind, Except.bind] using h
        subst this
        rcases evalL_timebase cfg l (admList_right hadm) (fun x hx => hs x (Or.inr hx)) hl with h1 | ⟨e', h1, h2⟩
        · exact Or.inl (joinAll_append_none_right _ h1)
        · exact Or.inr ⟨e', Or.inr h1, h2⟩
      | ok r => simp [he, hl, bind, Except.bind] at h
end

/-! ### predicates of the property theorems -/

/-- the leaves at every level (the tree itself and the operand of every sampling node) are valid
timebases, pairwise identical or not within the `np.isclose` tolerance. -/
def AdmDeep (e : Expr) : Prop := AdmList (leaves e) ∧ ∀ e' ∈ sampled e, AdmList (leaves e')

/-- every sampling node samples a compatible continuous-time (or unspecified) tree. -/
def SamplesOK (e : Expr) : Prop := ∀ e' ∈ sampled e, SampleOK e'

/-- the two ways in which two timebases are incompatible: continuous against discrete, and two
sampling times that are not `close` (`np.isclose`). -/
def Incompatible (a b : Dt) : Prop :=
  (a = .cont ∧ (b = .dtrue ∨ ∃ h, b = .disc h)) ∨
  ((a = .dtrue ∨ ∃ h, a = .disc h) ∧ b = .cont) ∨
  (∃ h₁ h₂, a = .disc h₁ ∧ b = .disc h₂ ∧ close h₁ h₂ = false)

theorem incompatible_iff_join {a b : Dt} (h : Adm a b) : join a b = Option.none ↔ Incompatible a b := by
  constructor
  · intro hj
    cases a <;> cases b <;> simp [join] at hj
    · exact Or.inl ⟨rfl, Or.inl rfl⟩
    · exact Or.inl ⟨rfl, Or.inr ⟨_, rfl⟩⟩
    · exact Or.inr (Or.inl ⟨Or.inl rfl, rfl⟩)
    · exact Or.inr (Or.inl ⟨Or.inr ⟨_, rfl⟩, rfl⟩)
    · rename_i h₁ h₂
      refine Or.inr (Or.inr ⟨h₁, h₂, rfl, rfl, ?_⟩)
      rcases h.sep rfl rfl with h1 | h1
      · exact absurd h1 hj
      · exact h1.1
  · rintro (⟨rfl, rfl | ⟨x, rfl⟩⟩ | ⟨rfl | ⟨x, rfl⟩, rfl⟩ | ⟨h₁, h₂, rfl, rfl, hc⟩)
    · rfl
    · rfl
    · rfl
    · rfl
    · have hne : h₁ ≠ h₂ := by
        intro he; subst he
        rw [close_self] at hc; cases hc
      simp [join, hne]

theorem evalDt_ok_iff {cfg : DtArg} {e : Expr} {d : Dt} :
    evalDt cfg e = .ok d ↔ ∃ a, eval cfg e = .ok a ∧ a.dt = d := by
  unfold evalDt
  cases h : eval cfg e with
  | error x => simp [bind, Except.bind]
  | ok a => simp [bind, Except.bind]

theorem evalDt_error_iff {cfg : DtArg} {e : Expr} {x : Err} :
    evalDt cfg e = .error x ↔ eval cfg e = .error x := by
  unfold evalDt
  cases h : eval cfg e with
  | error y => simp [bind, Except.bind]
  | ok a => simp [bind, Except.bind]

end CtrlVerif.C05Expr
