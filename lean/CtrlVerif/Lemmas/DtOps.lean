/-
Soundness of the operation table of `Model/DtOps.lean` with respect to the rule `join` of the
property: whenever an operation of the model returns, the timebase of the result is the join of the
operand timebases; whenever it raises the timebase error, the operands are incompatible.
-/
import CtrlVerif.Lemmas.Dt

namespace CtrlVerif

/-- admissible pair of operand timebases: both valid, identical or clearly different. -/
structure Adm (a b : Dt) : Prop where
  va : a.valid
  vb : b.valid
  sep : a.sep b

theorem Adm.symm {a b : Dt} (h : Adm a b) : Adm b a := ⟨h.vb, h.va, Dt.sep_symm h.sep⟩

theorem Adm.none_right {a : Dt} (h : a.valid) : Adm a .none := ⟨h, trivial, Dt.sep_none_right a⟩
theorem Adm.none_left {a : Dt} (h : a.valid) : Adm .none a := ⟨trivial, h, Dt.sep_none_left a⟩
theorem Adm.self {a : Dt} (h : a.valid) : Adm a a := ⟨h, h, Dt.sep_self a⟩

theorem common_adm {a b : Dt} (h : Adm a b) : common a b = ofOpt (join a b) :=
  common_eq_join h.va h.vb h.sep

theorem common_adm' {a b : Dt} (h : Adm a b) : common b a = ofOpt (join a b) := by
  rw [common_eq_join h.vb h.va (Dt.sep_symm h.sep), join_comm]

theorem common_none_right (d : Dt) : common d .none = .ok d := by cases d <;> rfl
theorem common_none_left (d : Dt) : common .none d = .ok d := by cases d <;> rfl

/-- the result of `join` on an admissible pair is admissible with either operand. -/
theorem Adm.join_left {a b c : Dt} (h : Adm a b) (hj : join a b = some c) : Adm c a := by
  rcases join_mem hj with rfl | rfl
  · exact Adm.self h.va
  · exact h.symm

theorem Adm.join_right {a b c : Dt} (h : Adm a b) (hj : join a b = some c) : Adm c b := by
  rcases join_mem hj with rfl | rfl
  · exact h
  · exact Adm.self h.vb

/-- `c = a ⊔ b` absorbs both operands. -/
theorem join_absorb_left {a b c : Dt} (hj : join a b = some c) : join c a = some c := by
  have := join'_assoc (some a) (some a) (some b)
  simp only [join'_some, join_idem, hj] at this
  rw [join_comm]; exact this.symm

theorem join_absorb_right {a b c : Dt} (hj : join a b = some c) : join c b = some c := by
  have := join'_assoc (some a) (some b) (some b)
  simp only [join'_some, join_idem, hj] at this
  exact this

/-! ### soundness predicates -/

/-- a timebase computation is sound for operands `a`, `b`. -/
def DSound (d : Except Err Dt) (a b : Dt) : Prop :=
  (∀ x, d = .ok x → join a b = some x) ∧ (d = .error .timebase → join a b = Option.none)

def SoundM (m : Meth) (a b : Dt) : Prop :=
  (∀ s, m = .ok (some s) → join a b = some s.dt) ∧ (m = .error .timebase → join a b = Option.none)

def Sound (r : Except Err Sys) (a b : Dt) : Prop :=
  (∀ s, r = .ok s → join a b = some s.dt) ∧ (r = .error .timebase → join a b = Option.none)

theorem dsound_ofOpt (a b : Dt) : DSound (ofOpt (join a b)) a b := by
  constructor
  · intro x h; cases hj : join a b <;> simp_all [ofOpt]
  · intro h; cases hj : join a b <;> simp_all [ofOpt]

theorem dsound_common {a b : Dt} (h : Adm a b) : DSound (common a b) a b := by
  rw [common_adm h]; exact dsound_ofOpt a b

theorem dsound_common' {a b : Dt} (h : Adm a b) : DSound (common b a) a b := by
  rw [common_adm' h]; exact dsound_ofOpt a b

theorem dsound_ok_none_right (a : Dt) : DSound (.ok a) a .none := by
  constructor
  · intro x h; cases h; exact join_none_right a
  · intro h; cases h

theorem dsound_ok_none_left (a : Dt) : DSound (.ok a) .none a := by
  constructor
  · intro x h; cases h; exact join_none_left a
  · intro h; cases h

theorem dsound_err (e : Err) (he : e ≠ .timebase) (a b : Dt) : DSound (.error e) a b := by
  constructor
  · intro x h; cases h
  · intro h; cases h; exact absurd rfl he

theorem soundM_mkSys {a b : Dt} (h : Adm a b) (c : Cls) {d : Except Err Dt} (hd : DSound d a b)
    (cfg : DtArg) : SoundM (mkSys c d cfg) a b := by
  unfold mkSys
  rcases d with e | x
  · constructor
    · intro s hs; cases hs
    · intro he
      apply hd.2
      simpa [bind, Except.bind] using he
  · have hx : join a b = some x := hd.1 x rfl
    have hv : x.valid := join_valid h.va h.vb hx
    constructor
    · intro s hs
      simp [bind, Except.bind, givenDt_valid hv] at hs
      subst hs; exact hx
    · intro he
      simp [bind, Except.bind, givenDt_valid hv] at he

theorem soundM_notImpl (a b : Dt) : SoundM (.ok Option.none) a b := by
  constructor
  · intro s h; cases h
  · intro h; cases h

theorem soundM_err (e : Err) (he : e ≠ .timebase) (a b : Dt) : SoundM (.error e) a b := by
  constructor
  · intro s h; cases h
  · intro h; cases h; exact absurd rfl he

theorem sound_err (e : Err) (he : e ≠ .timebase) (a b : Dt) : Sound (.error e) a b := by
  constructor
  · intro s h; cases h
  · intro h; cases h; exact absurd rfl he

theorem SoundM.comm {m : Meth} {a b : Dt} (h : SoundM m a b) : SoundM m b a := by
  constructor
  · intro s hs; rw [join_comm]; exact h.1 s hs
  · intro he; rw [join_comm]; exact h.2 he

theorem Sound.comm {r : Except Err Sys} {a b : Dt} (h : Sound r a b) : Sound r b a := by
  constructor
  · intro s hs; rw [join_comm]; exact h.1 s hs
  · intro he; rw [join_comm]; exact h.2 he

/-- `do let r ← x; .ok (some r)`. -/
theorem soundM_of_sound {r : Except Err Sys} {a b : Dt} (h : Sound r a b) :
    SoundM (do let s ← r; .ok (some s)) a b := by
  rcases r with e | s
  · constructor
    · intro s hs; cases hs
    · intro he; apply h.2; simpa [bind, Except.bind] using he
  · constructor
    · intro s' hs
      simp [bind, Except.bind] at hs
      subst hs; exact h.1 s rfl
    · intro he; simp [bind, Except.bind] at he

/-- Python's "forward, then reflected" for a method result. -/
theorem sound_of_soundM {m : Meth} {a b : Dt} (h : SoundM m a b)
    {k : Except Err Sys} (hk : Sound k a b) :
    Sound (do match ← m with
              | some r => .ok r
              | Option.none => k) a b := by
  rcases m with e | (_ | s)
  · constructor
    · intro s hs; cases hs
    · intro he; apply h.2; simpa [bind, Except.bind] using he
  · simpa [bind, Except.bind] using hk
  · constructor
    · intro s' hs
      simp [bind, Except.bind] at hs
      subst hs; exact h.1 s rfl
    · intro he; simp [bind, Except.bind] at he

/-! ### conversions -/

@[simp] theorem ctorDt_static (cfg : DtArg) : ctorDt Option.none Option.none true cfg = .ok .none := by
  rw [ctorDt_eq_processDt]; rfl

theorem givenDt_none (cfg : DtArg) : givenDt .none cfg = .ok .none :=
  givenDt_valid (d := .none) trivial cfg

/-- a conversion either fails with `TypeError` or yields a system with the operand's timebase. -/
def ConvOk (r : Except Err Dt) (d : Dt) : Prop := r = .ok d ∨ r = .error .notImplemented

theorem toSS_ok (a : Arg) (h : a.dt.valid) (cfg : DtArg) : ConvOk (toSS a cfg) a.dt := by
  rcases a with ⟨c, d⟩ | _ | _
  · cases c <;> simp [toSS, ConvOk, Arg.dt, givenDt_valid (show d.valid from h)]
  · simp [toSS, ConvOk, Arg.dt]
  · simp [toSS, ConvOk, Arg.dt]

theorem toTF_ok (a : Arg) (h : a.dt.valid) (cfg : DtArg) : ConvOk (toTF a cfg) a.dt := by
  rcases a with ⟨c, d⟩ | _ | _
  · cases c <;> simp [toTF, ConvOk, Arg.dt, givenDt_valid (show d.valid from h)]
  · simp [toTF, ConvOk, Arg.dt]
  · simp [toTF, ConvOk, Arg.dt]

theorem toFRD_ok (a : Arg) (h : a.dt.valid) (cfg : DtArg) : ConvOk (toFRD a cfg) a.dt := by
  rcases a with ⟨c, d⟩ | _ | _
  · cases c <;> simp [toFRD, ConvOk, Arg.dt, givenDt_valid (show d.valid from h)]
  · simp [toFRD, ConvOk, Arg.dt, givenDt_none]
  · simp [toFRD, ConvOk, Arg.dt, givenDt_none]

theorem toIO_ok (a : Arg) (cfg : DtArg) : ∃ s, toIO a cfg = .ok s ∧ s.dt = a.dt := by
  rcases a with s | _ | _
  · exact ⟨s, rfl, rfl⟩
  · exact ⟨⟨.nl, .none⟩, by simp [toIO, givenDt_none, bind, Except.bind], rfl⟩
  · exact ⟨⟨.nl, .none⟩, by simp [toIO, givenDt_none, bind, Except.bind], rfl⟩

/-- `do let o ← conv; common self o` and its flipped form. -/
theorem dsound_conv_common {self d : Dt} (h : Adm self d) {r : Except Err Dt} (hr : ConvOk r d)
    (flip : Bool) :
    DSound (do let o ← r; if flip then common o self else common self o) self d := by
  rcases hr with rfl | rfl
  · cases flip
    · simpa [bind, Except.bind] using dsound_common h
    · simpa [bind, Except.bind] using dsound_common' h
  · simpa [bind, Except.bind] using dsound_err .notImplemented (by decide) self d

theorem dsound_conv_common_fwd {self d : Dt} (h : Adm self d) {r : Except Err Dt} (hr : ConvOk r d) :
    DSound (do let o ← r; common self o) self d := by
  have := dsound_conv_common h hr false
  simpa using this

theorem dsound_conv_common_rev {self d : Dt} (h : Adm self d) {r : Except Err Dt} (hr : ConvOk r d) :
    DSound (do let o ← r; common o self) self d := by
  have := dsound_conv_common h hr true
  simpa using this

/-! ### handlers of the linear classes -/

theorem ssAddMul_sound {self : Dt} {other : Arg} (h : Adm self other.dt) (cfg : DtArg) :
    SoundM (ssAddMul self other cfg) self other.dt := by
  rcases other with ⟨c, d⟩ | _ | _
  · have hd : d.valid := h.vb
    cases c <;> simp only [ssAddMul]
    · exact soundM_mkSys h _ (dsound_common h) cfg
    · refine soundM_mkSys h _ ?_ cfg
      have := dsound_common h
      simpa [givenDt_valid hd, bind, Except.bind, Arg.dt] using this
    · exact soundM_notImpl _ _
    · exact soundM_notImpl _ _
    · exact soundM_notImpl _ _
  · exact soundM_mkSys h _ (dsound_ok_none_right self) cfg
  · exact soundM_mkSys h _ (dsound_ok_none_right self) cfg

theorem ssRmul_sound {self : Dt} {other : Arg} (h : Adm self other.dt) (cfg : DtArg) :
    SoundM (ssRmul self other cfg) self other.dt := by
  rcases other with ⟨c, d⟩ | _ | _
  · have hd : d.valid := h.vb
    cases c <;> simp only [ssRmul]
    · exact soundM_mkSys h _ (dsound_common' h) cfg
    · refine soundM_mkSys h _ ?_ cfg
      have := dsound_common' h
      simpa [givenDt_valid hd, bind, Except.bind, Arg.dt] using this
    · exact soundM_notImpl _ _
    · exact soundM_notImpl _ _
    · exact soundM_notImpl _ _
  · exact soundM_mkSys h _ (dsound_ok_none_right self) cfg
  · exact soundM_mkSys h _ (dsound_ok_none_right self) cfg

theorem tfAddMul_sound {self : Dt} {other : Arg} (h : Adm self other.dt) (cfg : DtArg) :
    SoundM (tfAddMul self other cfg) self other.dt := by
  rcases other with ⟨c, d⟩ | _ | _
  · cases c <;> simp only [tfAddMul]
    · exact soundM_mkSys h _ (dsound_conv_common_fwd h (toTF_ok _ h.vb cfg)) cfg
    · exact soundM_mkSys h _ (dsound_common h) cfg
    · exact soundM_notImpl _ _
    · exact soundM_notImpl _ _
    · exact soundM_notImpl _ _
  · exact soundM_mkSys h _ (dsound_conv_common_fwd h (toTF_ok _ h.vb cfg)) cfg
  · exact soundM_mkSys h _ (dsound_conv_common_fwd h (toTF_ok _ h.vb cfg)) cfg

theorem tfConv_sound {self : Dt} {other : Arg} (h : Adm self other.dt) (cfg : DtArg) (flip : Bool) :
    SoundM (tfConv self other cfg flip) self other.dt :=
  soundM_mkSys h _ (dsound_conv_common h (toTF_ok _ h.vb cfg) flip) cfg

theorem frdOp_sound {self : Dt} {other : Arg} (h : Adm self other.dt) (cfg : DtArg)
    (sc flip : Bool) : SoundM (frdOp self other cfg sc flip) self other.dt := by
  unfold frdOp
  split
  · exact soundM_mkSys h _ (dsound_ok_none_right self) cfg
  · exact soundM_mkSys h _ (dsound_conv_common h (toFRD_ok _ h.vb cfg) flip) cfg

/-! ### interconnected systems -/

theorem icStep_eq {acc : Dt} {s : Sys} (h : Adm acc s.dt) (cfg : DtArg) :
    icStep cfg acc s =
      (do let d ← ofOpt (join acc s.dt)
          if s.cls = .frd then .error .notImplemented else .ok d) := by
  unfold icStep
  have hs : (if s.cls = Cls.tf then givenDt s.dt cfg else Except.ok s.dt) = .ok s.dt := by
    split
    · exact givenDt_valid h.vb cfg
    · rfl
  rw [hs, ← common_adm h]
  rfl

theorem sound_ok {c : Cls} {a b d : Dt} (h : join a b = some d) : Sound (.ok ⟨c, d⟩) a b := by
  constructor
  · intro s hs; cases hs; exact h
  · intro he; cases he

theorem sound_timebase {a b : Dt} (h : join a b = Option.none) : Sound (.error .timebase) a b := by
  constructor
  · intro s hs; cases hs
  · intro _; exact h

/-- two subsystems folded from an initial value `k` that is `None` or already their join. -/
theorem icDt_two_sound {a b : Sys} (h : Adm a.dt b.dt) (kw : Option Dt)
    (hk : kw.getD .none = .none ∨ join a.dt b.dt = some (kw.getD .none)) (cfg : DtArg) :
    Sound (icDt kw [a, b] cfg) a.dt b.dt := by
  unfold icDt
  simp only [List.foldlM]
  rcases hk with hk | hk
  · -- from `None`
    rw [hk, icStep_eq (Adm.none_left h.va)]
    simp only [join_none_left, ofOpt]
    by_cases ha : a.cls = .frd
    · simp [ha, bind, Except.bind]; exact sound_err _ (by decide) _ _
    · simp only [ha, if_false, bind, Except.bind, pure, Except.pure]
      rw [icStep_eq h]
      cases hj : join a.dt b.dt with
      | none => simp only [ofOpt, bind, Except.bind]; exact sound_timebase hj
      | some c =>
        simp only [ofOpt, bind, Except.bind]
        by_cases hb : b.cls = .frd
        · simp [hb]; exact sound_err _ (by decide) _ _
        · simp only [hb, if_false, givenDt_valid (join_valid h.va h.vb hj)]
          exact sound_ok hj
  · -- from the join itself
    have h1 := h.join_left hk
    have h2 := h.join_right hk
    rw [icStep_eq h1]
    simp only [join_absorb_left hk, ofOpt]
    by_cases ha : a.cls = .frd
    · simp [ha, bind, Except.bind]; exact sound_err _ (by decide) _ _
    · simp only [ha, if_false, bind, Except.bind, pure, Except.pure]
      rw [icStep_eq h2]
      simp only [join_absorb_right hk, ofOpt, bind, Except.bind]
      by_cases hb : b.cls = .frd
      · simp [hb]; exact sound_err _ (by decide) _ _
      · simp only [hb, if_false, givenDt_valid (join_valid h.va h.vb hk)]
        exact sound_ok hk

theorem nlPair_sound {first second : Arg} (h : Adm first.dt second.dt) (cfg : DtArg) :
    SoundM (nlPair first second cfg) first.dt second.dt := by
  obtain ⟨a, ha, hda⟩ := toIO_ok first cfg
  obtain ⟨b, hb, hdb⟩ := toIO_ok second cfg
  unfold nlPair
  simp only [ha, hb, bind, Except.bind]
  rw [← hda, ← hdb] at h ⊢
  exact soundM_of_sound (icDt_two_sound h Option.none (Or.inl rfl) cfg)

theorem nlSeries_sound {inner outer : Arg} (h : Adm inner.dt outer.dt) (cfg : DtArg) :
    SoundM (nlSeries inner outer cfg) inner.dt outer.dt := by
  obtain ⟨a, ha, hda⟩ := toIO_ok inner cfg
  obtain ⟨b, hb, hdb⟩ := toIO_ok outer cfg
  unfold nlSeries
  simp only [ha, hb, bind, Except.bind]
  rw [← hda, ← hdb] at h ⊢
  rw [common_adm h]
  cases hj : join a.dt b.dt with
  | none =>
    simp only [ofOpt]
    constructor
    · intro s hs; cases hs
    · intro _; exact hj
  | some c =>
    simp only [ofOpt]
    exact soundM_of_sound (icDt_two_sound h Option.none (Or.inl rfl) cfg)

theorem nlFeedback_sound {self : Sys} {other : Arg} (h : Adm self.dt other.dt) (cfg : DtArg) :
    Sound (nlFeedback self other cfg) self.dt other.dt := by
  obtain ⟨b, hb, hdb⟩ := toIO_ok other cfg
  unfold nlFeedback
  simp only [hb, bind, Except.bind]
  rw [← hdb] at h ⊢
  rw [common_adm h]
  cases hj : join self.dt b.dt with
  | none => simp only [ofOpt]; exact sound_timebase hj
  | some c =>
    simp only [ofOpt]
    exact icDt_two_sound h (some c) (Or.inr hj) cfg

/-- negation keeps the timebase (and never fails on a valid one). -/
theorem negArg_ok (a : Arg) (h : a.dt.valid) (cfg : DtArg) :
    ∃ n, negArg a cfg = .ok n ∧ n.dt = a.dt := by
  rcases a with ⟨c, d⟩ | _ | _
  · have hd : d.valid := h
    cases c
    · exact ⟨.sys ⟨.ss, d⟩, by simp [negArg, givenDt_valid hd, bind, Except.bind], rfl⟩
    · exact ⟨.sys ⟨.tf, d⟩, by simp [negArg, givenDt_valid hd, bind, Except.bind], rfl⟩
    · exact ⟨.sys ⟨.frd, d⟩, by simp [negArg, givenDt_valid hd, bind, Except.bind], rfl⟩
    · refine ⟨.sys ⟨.ic, d⟩, ?_, rfl⟩
      simp only [negArg, icDt, List.foldlM, Option.getD]
      rw [icStep_eq (acc := d) (s := ⟨.nl, d⟩) (Adm.self hd)]
      simp [join_idem, ofOpt, givenDt_valid hd, bind, Except.bind, pure, Except.pure]
    · refine ⟨.sys ⟨.ic, d⟩, ?_, rfl⟩
      simp only [negArg, icDt, List.foldlM, Option.getD]
      rw [icStep_eq (acc := d) (s := ⟨.ic, d⟩) (Adm.self hd)]
      simp [join_idem, ofOpt, givenDt_valid hd, bind, Except.bind, pure, Except.pure]
  · exact ⟨.scalar, rfl, rfl⟩
  · exact ⟨.array, rfl, rfl⟩

/-! ### the operator dispatch (mutual recursion on fuel) -/

theorem neg_pattern {a : Dt} {other : Arg} (hv : other.dt.valid) (cfg : DtArg)
    (k : Arg → Except Err Sys) (hk : ∀ n : Arg, n.dt = other.dt → Sound (k n) a other.dt) :
    SoundM (do let n ← negArg other cfg; let r ← k n; .ok (some r)) a other.dt := by
  obtain ⟨n, hn, hdn⟩ := negArg_ok other hv cfg
  simp only [hn, bind, Except.bind]
  exact soundM_of_sound (hk n hdn)

theorem ssDiv_pattern (R : Except Err Sys) (a b : Dt) :
    (∀ s, R = .ok s → join a b = some s.dt) →
    SoundM (match R with
      | .ok r => .ok (some r)
      | .error .notImplemented => .error .notImplemented
      | .error _ => .ok Option.none) a b := by
  intro h1
  rcases R with e | s
  · cases e <;> first | exact soundM_notImpl _ _ | exact soundM_err _ (by decide) _ _
  · constructor
    · intro s' hs; cases hs; exact h1 s rfl
    · intro he; cases he

/-- the statement proved by induction on the fuel. -/
def SoundAt (cfg : DtArg) (fuel : Nat) : Prop :=
  (∀ op (x : Sys) (other : Arg), Adm x.dt other.dt →
      SoundM (fwd fuel op x other cfg) x.dt other.dt) ∧
  (∀ op (y : Sys) (other : Arg), Adm y.dt other.dt →
      SoundM (rev fuel op y other cfg) y.dt other.dt) ∧
  (∀ (other r : Arg), other.dt.valid → recip fuel other cfg = .ok r → r.dt = other.dt) ∧
  (∀ op (a b : Arg), Adm a.dt b.dt → Sound (binop fuel op a b cfg) a.dt b.dt)

theorem soundAt_zero (cfg : DtArg) : SoundAt cfg 0 := by
  refine ⟨?_, ?_, ?_, ?_⟩
  · intro op x other _; rw [fwd]; exact soundM_err _ (by decide) _ _
  · intro op y other _; rw [rev]; exact soundM_err _ (by decide) _ _
  · intro other r _ h; rw [recip] at h; cases h
  · intro op a b _; rw [binop]; exact sound_err _ (by decide) _ _

theorem fwd_succ_sound {cfg : DtArg} {fuel : Nat} (ih : SoundAt cfg fuel) (op : BinOp) (x : Sys)
    (other : Arg) (h : Adm x.dt other.dt) : SoundM (fwd (fuel + 1) op x other cfg) x.dt other.dt := by
  obtain ⟨_, _, ihr, ihb⟩ := ih
  have hsub : SoundM (do let n ← negArg other cfg
                         let r ← binop fuel .add (.sys x) n cfg
                         .ok (some r)) x.dt other.dt :=
    neg_pattern h.vb cfg _ (fun n hn => by
      have := ihb .add (.sys x) n (by rw [hn]; exact h)
      rw [hn] at this; exact this)
  have hnlmul : SoundM (nlSeries other (.sys x) cfg) x.dt other.dt :=
    (nlSeries_sound (inner := other) (outer := .sys x) h.symm cfg).comm
  have hnladd : SoundM (nlPair (.sys x) other cfg) x.dt other.dt :=
    nlPair_sound (first := .sys x) (second := other) h cfg
  have hnldiv : SoundM (if isConst other then nlSeries other (.sys x) cfg else .ok Option.none)
      x.dt other.dt := by
    split
    · exact hnlmul
    · exact soundM_notImpl _ _
  rcases x with ⟨c, d⟩
  rw [fwd.eq_def]
  cases c <;> cases op <;> simp only []
  -- ss
  · exact ssAddMul_sound h cfg
  · exact hsub
  · exact ssAddMul_sound h cfg
  · apply ssDiv_pattern
    intro s hs
    cases hrec : recip fuel other cfg with
    | error e => simp [hrec, bind, Except.bind] at hs
    | ok inv =>
      simp only [hrec, bind, Except.bind] at hs
      have hinv : inv.dt = other.dt := ihr other inv h.vb hrec
      have := ihb .mul (.sys ⟨.ss, d⟩) inv (by rw [hinv]; exact h)
      rw [hinv] at this
      exact this.1 s hs
  -- tf
  · exact tfAddMul_sound h cfg
  · exact hsub
  · exact tfAddMul_sound h cfg
  · exact tfConv_sound h cfg false
  -- frd
  · exact frdOp_sound h cfg false false
  · exact hsub
  · exact frdOp_sound h cfg true false
  · exact frdOp_sound h cfg true false
  -- nl
  · exact hnladd
  · exact hnladd
  · exact hnlmul
  · exact hnldiv
  -- ic
  · exact hnladd
  · exact hnladd
  · exact hnlmul
  · exact hnldiv

theorem rev_succ_sound {cfg : DtArg} {fuel : Nat} (ih : SoundAt cfg fuel) (op : BinOp) (y : Sys)
    (other : Arg) (h : Adm y.dt other.dt) : SoundM (rev (fuel + 1) op y other cfg) y.dt other.dt := by
  obtain ⟨_, _, _, ihb⟩ := ih
  -- `other + (-self)`
  have hsub : SoundM (do let n ← negArg (.sys y) cfg
                         let r ← binop fuel .add other n cfg
                         .ok (some r)) y.dt other.dt := by
    have := neg_pattern (a := other.dt) (other := .sys y) h.va cfg
      (fun n => binop fuel .add other n cfg) (fun n hn => by
        have := ihb .add other n (by rw [hn]; exact h.symm)
        rw [hn] at this; exact this)
    exact this.comm
  have hnladd : SoundM (nlPair other (.sys y) cfg) y.dt other.dt :=
    (nlPair_sound (first := other) (second := .sys y) h.symm cfg).comm
  have hnlmul : SoundM (nlSeries (.sys y) other cfg) y.dt other.dt :=
    nlSeries_sound (inner := .sys y) (outer := other) h cfg
  have hnlsub : SoundM (do let o ← toIO other cfg
                           let r ← binop fuel .sub (.sys o) (.sys y) cfg
                           .ok (some r)) y.dt other.dt := by
    obtain ⟨o, ho, hdo⟩ := toIO_ok other cfg
    simp only [ho, bind, Except.bind]
    have := ihb .sub (.sys o) (.sys y) (by show Adm o.dt y.dt; rw [hdo]; exact h.symm)
    have h2 : Sound (binop fuel .sub (.sys o) (.sys y) cfg) other.dt y.dt := by
      rw [← hdo]; exact this
    exact (soundM_of_sound h2).comm
  rcases y with ⟨c, d⟩
  have hd : d.valid := h.va
  rw [rev.eq_def]
  cases c <;> cases op <;> simp only []
  -- ss
  · exact ssAddMul_sound h cfg
  · exact hsub
  · exact ssRmul_sound h cfg
  · simp only [givenDt_valid hd, bind, Except.bind]
    exact (soundM_of_sound (ihb .mul other (.sys ⟨.ss, d⟩) h.symm)).comm
  -- tf
  · exact tfAddMul_sound h cfg
  · exact hsub
  · exact tfConv_sound h cfg true
  · exact tfConv_sound h cfg true
  -- frd
  · exact frdOp_sound h cfg false false
  · exact hsub
  · exact frdOp_sound h cfg true true
  · exact frdOp_sound h cfg true true
  -- nl
  · exact hnladd
  · exact hnlsub
  · exact hnlmul
  · exact soundM_notImpl _ _
  -- ic
  · exact hnladd
  · exact hnlsub
  · exact hnlmul
  · exact soundM_notImpl _ _

theorem recip_succ_ok {cfg : DtArg} {fuel : Nat} (ih : SoundAt cfg fuel) (other r : Arg)
    (hv : other.dt.valid) (h : recip (fuel + 1) other cfg = .ok r) : r.dt = other.dt := by
  obtain ⟨_, ihrev, _, _⟩ := ih
  rw [recip.eq_def] at h
  rcases other with s | _ | _
  · simp only [] at h
    have hs := ihrev .div s .scalar (Adm.none_right hv)
    cases hm : rev fuel .div s .scalar cfg with
    | error e => simp [hm, bind, Except.bind] at h
    | ok m =>
      rcases m with _ | t
      · simp [hm, bind, Except.bind] at h
      · simp only [hm, bind, Except.bind] at h
        cases h
        have := hs.1 t hm
        simp only [Arg.dt, join_none_right, Option.some.injEq] at this
        exact this.symm
  · simp only [] at h; cases h; rfl
  · simp only [] at h; cases h; rfl

theorem binop_succ_sound {cfg : DtArg} {fuel : Nat} (ih : SoundAt cfg fuel) (op : BinOp)
    (a b : Arg) (h : Adm a.dt b.dt) : Sound (binop (fuel + 1) op a b cfg) a.dt b.dt := by
  obtain ⟨ihf, ihr, _, _⟩ := ih
  have hni : Sound (.error .notImplemented) a.dt b.dt := sound_err _ (by decide) _ _
  rw [binop.eq_def]
  rcases a with x | _ | _ <;> rcases b with y | _ | _ <;> simp only []
  · -- two systems
    have hf := ihf op x (.sys y) h
    have hr : SoundM (rev fuel op y (.sys x) cfg) x.dt y.dt := (ihr op y (.sys x) h.symm).comm
    split
    · exact sound_of_soundM hr (sound_of_soundM hf hni)
    · refine sound_of_soundM hf ?_
      split
      · exact hni
      · exact sound_of_soundM hr hni
  · exact sound_of_soundM (ihf op x .scalar h) hni
  · exact sound_of_soundM (ihf op x .array h) hni
  · exact sound_of_soundM (ihr op y .scalar h.symm).comm hni
  · exact sound_err _ (by decide) _ _
  · exact sound_err _ (by decide) _ _
  · exact sound_of_soundM (ihr op y .array h.symm).comm hni
  · exact sound_err _ (by decide) _ _
  · exact sound_err _ (by decide) _ _

theorem soundAt (cfg : DtArg) : ∀ fuel, SoundAt cfg fuel
  | 0 => soundAt_zero cfg
  | fuel + 1 =>
    have ih := soundAt cfg fuel
    ⟨fwd_succ_sound ih, rev_succ_sound ih, recip_succ_ok ih, binop_succ_sound ih⟩

/-- soundness of every binary operator of every class. -/
theorem binDt_sound (op : BinOp) (a b : Arg) (cfg : DtArg) (h : Adm a.dt b.dt) :
    Sound (binDt op a b cfg) a.dt b.dt := (soundAt cfg opFuel).2.2.2 op a b h

/-! ### named binary functions -/

theorem sound_conv_ctor {self d : Dt} (h : Adm self d) {r : Except Err Dt} (hr : ConvOk r d)
    (c : Cls) (cfg : DtArg) :
    Sound (do let o ← r
              let x ← common self o
              let y ← givenDt x cfg
              .ok ⟨c, y⟩) self d := by
  rcases hr with rfl | rfl
  · simp only [bind, Except.bind]
    rw [common_adm h]
    cases hj : join self d with
    | none => exact sound_timebase hj
    | some x =>
      simp only [ofOpt, givenDt_valid (join_valid h.va h.vb hj)]
      exact sound_ok hj
  · exact sound_err _ (by decide) _ _

theorem feedbackDt_sound (x : Sys) (other : Arg) (cfg : DtArg) (h : Adm x.dt other.dt) :
    Sound (feedbackDt x other cfg) x.dt other.dt := by
  have hni : Sound (.error .notImplemented) x.dt other.dt := sound_err _ (by decide) _ _
  have hnl := nlFeedback_sound (self := x) (other := other) h cfg
  have hss := sound_conv_ctor h (toSS_ok other h.vb cfg) .ss cfg
  rcases x with ⟨c, d⟩
  unfold feedbackDt
  cases c <;> simp only []
  · rcases other with ⟨c2, d2⟩ | _ | _
    · cases c2 <;> first | exact hss | exact hnl
    · exact hss
    · exact hss
  · exact sound_of_soundM (tfConv_sound h cfg false) hni
  · exact sound_of_soundM (frdOp_sound h cfg false false) hni
  · exact hnl
  · exact hnl

theorem feedbackConstDt_sound (other : Sys) (cfg : DtArg) (h : other.dt.valid) :
    Sound (feedbackConstDt other cfg) .none other.dt := by
  have hA : Adm Dt.none other.dt := Adm.none_left h
  unfold feedbackConstDt
  rcases other with ⟨c, d⟩
  cases c <;> simp only [ctorDt_static, givenDt_none, bind, Except.bind]
  · exact feedbackDt_sound ⟨.ss, .none⟩ (.sys ⟨.ss, d⟩) cfg hA
  · exact feedbackDt_sound ⟨.tf, .none⟩ (.sys ⟨.tf, d⟩) cfg hA
  · exact feedbackDt_sound ⟨.frd, .none⟩ (.sys ⟨.frd, d⟩) cfg hA
  · exact feedbackDt_sound ⟨.ss, .none⟩ (.sys ⟨.nl, d⟩) cfg hA
  · exact feedbackDt_sound ⟨.ss, .none⟩ (.sys ⟨.ic, d⟩) cfg hA

theorem appendDt_sound (x : Sys) (other : Arg) (cfg : DtArg) (h : Adm x.dt other.dt) :
    Sound (appendDt x other cfg) x.dt other.dt := by
  have hni : Sound (.error .notImplemented) x.dt other.dt := sound_err _ (by decide) _ _
  have hss := sound_conv_ctor h (toSS_ok other h.vb cfg) .ss cfg
  have htf := sound_conv_ctor h (toTF_ok other h.vb cfg) .tf cfg
  rcases x with ⟨c, d⟩
  unfold appendDt
  cases c <;> simp only []
  · exact hss
  · rcases toTF_ok other h.vb cfg with hr | hr
    · simp only [hr, common_none_left, common_none_right, bind, Except.bind] at htf ⊢
      exact htf
    · simp only [hr, bind, Except.bind]
      exact hni
  · split
    · exact hni
    · exact sound_of_soundM (frdOp_sound h cfg false false) hni
  · exact hni
  · exact hni

theorem lftDt_sound (x : Sys) (other : Arg) (cfg : DtArg) (h : Adm x.dt other.dt) :
    Sound (lftDt x other cfg) x.dt other.dt := by
  have hni : Sound (.error .notImplemented) x.dt other.dt := sound_err _ (by decide) _ _
  have hss := sound_conv_ctor h (toSS_ok other h.vb cfg) .ss cfg
  rcases x with ⟨c, d⟩
  unfold lftDt
  cases c <;> simp only []
  · exact hss
  · exact hni
  · exact hni
  · exact hni
  · exact hni

theorem lftArg_sound (a b : Arg) (cfg : DtArg) (h : Adm a.dt b.dt) :
    Sound (lftArg a b cfg) a.dt b.dt := by
  rcases a with x | _ | _
  · exact lftDt_sound x b cfg h
  · exact sound_err _ (by decide) _ _
  · exact sound_err _ (by decide) _ _

/-! ### unary operations -/

theorem powDt_dt (c : Cls) (d : Dt) (hd : d.valid) (cfg : DtArg) :
    ∀ (fuel : Nat) (k : Int) (s : Sys), powDt c d cfg fuel k = .ok s → s.dt = d := by
  intro fuel
  induction fuel with
  | zero => intro k s h; simp [powDt] at h
  | succ n ih =>
    intro k s h
    have mulStep : ∀ (c' : Cls) (r : Sys) (t : Sys), r.dt = d →
        binDt .mul (.sys ⟨c', d⟩) (.sys r) cfg = .ok t → t.dt = d := by
      intro c' r t hr hm
      have hA : Adm d r.dt := by rw [hr]; exact Adm.self hd
      have := (binDt_sound .mul (.sys ⟨c', d⟩) (.sys r) cfg hA).1 t hm
      simp only [Arg.dt, hr, join_idem, Option.some.injEq] at this
      exact this.symm
    cases c
    · -- ss
      rw [powDt] at h
      split_ifs at h with h1 h2 h3
      · cases h; rfl
      · simp only [givenDt_valid hd, bind, Except.bind] at h; cases h; rfl
      · cases hi : powDt .ss d cfg n (-1) with
        | error e => simp [hi, bind, Except.bind] at h
        | ok i =>
          simp only [hi, bind, Except.bind] at h
          have hid : i.dt = d := ih (-1) i hi
          rw [hid] at h
          exact ih (-k) s h
      · cases hr : powDt .ss d cfg n (k - 1) with
        | error e => simp [hr, bind, Except.bind] at h
        | ok r =>
          simp only [hr, bind, Except.bind] at h
          exact mulStep .ss r s (ih _ r hr) h
    · -- tf
      rw [powDt] at h
      split_ifs at h with h1 h2
      · simp only [givenDt_valid hd, bind, Except.bind] at h; cases h; rfl
      · cases hr : powDt .tf d cfg n (k - 1) with
        | error e => simp [hr, bind, Except.bind] at h
        | ok r =>
          simp only [hr, bind, Except.bind] at h
          exact mulStep .tf r s (ih _ r hr) h
      · simp only [ctorDt_static, bind, Except.bind] at h
        cases hq : binDt .div (.sys ⟨.tf, .none⟩) (.sys ⟨.tf, d⟩) cfg with
        | error e => simp [hq] at h
        | ok q =>
          simp only [hq] at h
          have hqd : q.dt = d := by
            have := (binDt_sound .div (.sys ⟨.tf, .none⟩) (.sys ⟨.tf, d⟩) cfg
              (Adm.none_left hd)).1 q hq
            simp only [Arg.dt, join_none_left, Option.some.injEq] at this
            exact this.symm
          cases hr : powDt .tf d cfg n (k + 1) with
          | error e => simp [hr] at h
          | ok r =>
            simp only [hr] at h
            have hrd : r.dt = d := ih _ r hr
            have hA : Adm q.dt r.dt := by rw [hqd, hrd]; exact Adm.self hd
            have := (binDt_sound .mul (.sys q) (.sys r) cfg hA).1 s h
            simp only [Arg.dt, hqd, hrd, join_idem, Option.some.injEq] at this
            exact this.symm
    · -- frd
      rw [powDt] at h
      split_ifs at h with h1 h2
      · simp only [givenDt_valid hd, bind, Except.bind] at h; cases h; rfl
      · cases hr : powDt .frd d cfg n (k - 1) with
        | error e => simp [hr, bind, Except.bind] at h
        | ok r =>
          simp only [hr, bind, Except.bind] at h
          exact mulStep .frd r s (ih _ r hr) h
      · simp only [givenDt_valid hd, bind, Except.bind] at h
        cases hq : binDt .div (.sys ⟨.frd, d⟩) (.sys ⟨.frd, d⟩) cfg with
        | error e => simp [hq] at h
        | ok q =>
          simp only [hq] at h
          have hqd : q.dt = d := by
            have := (binDt_sound .div (.sys ⟨.frd, d⟩) (.sys ⟨.frd, d⟩) cfg (Adm.self hd)).1 q hq
            simp only [Arg.dt, join_idem, Option.some.injEq] at this
            exact this.symm
          cases hr : powDt .frd d cfg n (k + 1) with
          | error e => simp [hr] at h
          | ok r =>
            simp only [hr] at h
            have hrd : r.dt = d := ih _ r hr
            have hA : Adm q.dt r.dt := by rw [hqd, hrd]; exact Adm.self hd
            have := (binDt_sound .mul (.sys q) (.sys r) cfg hA).1 s h
            simp only [Arg.dt, hqd, hrd, join_idem, Option.some.injEq] at this
            exact this.symm
    · rw [powDt] at h
      · cases h
      all_goals (intro hc; cases hc)
    · rw [powDt] at h
      · cases h
      all_goals (intro hc; cases hc)

def negCls : Cls → Cls
  | .ss => .ss | .tf => .tf | .frd => .frd | _ => .ic

theorem negArg_sys (c : Cls) (d : Dt) (hd : d.valid) (cfg : DtArg) :
    negArg (.sys ⟨c, d⟩) cfg = .ok (.sys ⟨negCls c, d⟩) := by
  cases c
  · simp [negArg, negCls, givenDt_valid hd, bind, Except.bind]
  · simp [negArg, negCls, givenDt_valid hd, bind, Except.bind]
  · simp [negArg, negCls, givenDt_valid hd, bind, Except.bind]
  · simp only [negArg, negCls, icDt, List.foldlM, Option.getD]
    rw [icStep_eq (acc := d) (s := ⟨.nl, d⟩) (Adm.self hd)]
    simp [join_idem, ofOpt, givenDt_valid hd, bind, Except.bind, pure, Except.pure]
  · simp only [negArg, negCls, icDt, List.foldlM, Option.getD]
    rw [icStep_eq (acc := d) (s := ⟨.ic, d⟩) (Adm.self hd)]
    simp [join_idem, ofOpt, givenDt_valid hd, bind, Except.bind, pure, Except.pure]

/-- the class of the result of a supported unary operation (`none`: not offered for the class). -/
def unResult : UnOp → Cls → Option Cls
  | .neg, .ss => some .ss | .neg, .tf => some .tf | .neg, .frd => some .frd
  | .neg, .nl => some .ic | .neg, .ic => some .ic
  | .getitem, .ss => some .ss | .getitem, .tf => some .tf | .getitem, .frd => some .frd
  | .copy, c => some c | .rename, c => some c
  | .toSS, .ss => some .ss | .toSS, .tf => some .ss
  | .toTF, .ss => some .tf | .toTF, .tf => some .tf
  | .toFRD, .ss => some .frd | .toFRD, .tf => some .frd | .toFRD, .frd => some .frd
  | .toNL, .ss => some .nl
  | .similarity, .ss => some .ss | .reachable, .ss => some .ss | .observable, .ss => some .ss
  | .modelReduction, .ss => some .ss
  | .minreal, .tf => some .tf
  | .linearize, .ss => some .ss | .linearize, .nl => some .ss | .linearize, .ic => some .ss
  | _, _ => Option.none

theorem processDt_dflt {d : Dt} (h : d.valid) (st : Bool) (cfg : DtArg) :
    processDt Option.none (some d.toArg) st cfg = .ok d := by
  unfold processDt
  simp [check_toArg h]

theorem common_self_valid {d : Dt} (h : d.valid) : common d d = .ok d := by
  rw [common_adm (Adm.self h), join_idem]; rfl

/-- every supported non-sampling, non-power unary operation returns a system with exactly the
operand's timebase. -/
theorem unDt_supported (op : UnOp) (c c' : Cls) (d : Dt) (hd : d.valid) (cfg : DtArg)
    (hs : unResult op c = some c') : unDt op ⟨c, d⟩ cfg = .ok ⟨c', d⟩ := by
  cases op
  case neg =>
    have h2 := negArg_sys c d hd cfg
    cases c <;> simp only [unResult, Option.some.injEq] at hs <;> subst hs <;>
      simp only [unDt, h2, bind, Except.bind, negCls]
  case toFRD =>
    cases c <;> simp only [unResult, Option.some.injEq, reduceCtorEq] at hs <;> subst hs <;>
      (cases d <;> simp [unDt, bind, Except.bind, common_self_valid hd, givenDt_valid hd,
        givenDt_none])
  all_goals
    cases c <;> simp only [unResult, Option.some.injEq, reduceCtorEq] at hs <;> subst hs <;>
      simp [unDt, givenDt_valid hd, bind, Except.bind, ctorDt_eq_processDt, processDt_given hd,
        processDt_dflt hd]

/-- sampling a continuous-time (or unspecified) system returns exactly the requested timebase;
discrete-time systems are rejected. -/
theorem unDt_sample (c : Cls) (hc : c = .ss ∨ c = .tf) (d : Dt) (ts : Rat) (hts : 0 < ts)
    (cfg : DtArg) :
    unDt (.sample ts) ⟨c, d⟩ cfg = if isCTime d then .ok ⟨c, .disc ts⟩ else .error .badArg := by
  have hv : (Dt.disc ts).valid := hts
  have h1 : ctorDt (some (DtArg.num ts)) Option.none false cfg = .ok (.disc ts) := by
    rw [ctorDt_eq_processDt]
    exact processDt_given (d := .disc ts) hv _ _ _
  rcases hc with rfl | rfl <;> simp only [unDt] <;> split <;>
    simp [h1, givenDt_valid hv, bind, Except.bind]

/-! ### lists and trees -/

/-- every timebase valid, every pair identical or clearly different. -/
def AdmList (l : List Dt) : Prop := (∀ a ∈ l, a.valid) ∧ (∀ a ∈ l, ∀ b ∈ l, a.sep b)

theorem AdmList.adm {l : List Dt} (h : AdmList l) {a b : Dt} (ha : a = .none ∨ a ∈ l)
    (hb : b = .none ∨ b ∈ l) : Adm a b := by
  rcases ha with rfl | ha
  · rcases hb with rfl | hb
    · exact Adm.none_left trivial
    · exact Adm.none_left (h.1 b hb)
  · rcases hb with rfl | hb
    · exact Adm.none_right (h.1 a ha)
    · exact ⟨h.1 a ha, h.1 b hb, h.2 a ha b hb⟩

theorem AdmList.sub {l m : List Dt} (h : AdmList l) (hs : ∀ a ∈ m, a = .none ∨ a ∈ l) : AdmList m := by
  constructor
  · intro a ha
    rcases hs a ha with rfl | h1
    · trivial
    · exact h.1 a h1
  · intro a ha b hb
    exact (h.adm (hs a ha) (hs b hb)).sep

theorem joinAll_nil : joinAll [] = some Dt.none := rfl

theorem joinAll_mem {l : List Dt} {c : Dt} (h : joinAll l = some c) : c = .none ∨ c ∈ l := by
  induction l generalizing c with
  | nil => simp [joinAll] at h; exact Or.inl h.symm
  | cons x xs ih =>
    rw [joinAll_cons] at h
    cases hxs : joinAll xs with
    | none => simp [hxs] at h
    | some d =>
      rw [hxs, join'_some] at h
      rcases join_mem h with rfl | rfl
      · exact Or.inr List.mem_cons_self
      · rcases ih hxs with h1 | h1
        · exact Or.inl h1
        · exact Or.inr (List.mem_cons_of_mem _ h1)

/-- soundness of a result with respect to a list of leaf timebases. -/
def TSound (e : Except Err Arg) (l : List Dt) : Prop :=
  (∀ a, e = .ok a → joinAll l = some a.dt) ∧ (e = .error .timebase → joinAll l = Option.none)

theorem node_sound {L R : List Dt} (hadm : AdmList (L ++ R)) {el er : Except Err Arg}
    (hl : TSound el L) (hr : TSound er R) (f : Arg → Arg → Except Err Sys)
    (hf : ∀ a b, Adm a.dt b.dt → Sound (f a b) a.dt b.dt) :
    TSound (do let a ← el; let b ← er; let s ← f a b; .ok (.sys s)) (L ++ R) := by
  rw [TSound, joinAll_append]
  rcases el with e1 | a
  · constructor
    · intro x hx; cases hx
    · intro he
      have : e1 = .timebase := by simpa [bind, Except.bind] using he
      subst this
      rw [hl.2 rfl]; rfl
  · have hja := hl.1 a rfl
    rcases er with e2 | b
    · constructor
      · intro x hx; cases hx
      · intro he
        have : e2 = .timebase := by simpa [bind, Except.bind] using he
        subst this
        rw [hr.2 rfl]; simp
    · have hjb := hr.1 b rfl
      have hA : Adm a.dt b.dt := by
        apply hadm.adm
        · rcases joinAll_mem hja with h | h
          · exact Or.inl h
          · exact Or.inr (List.mem_append_left _ h)
        · rcases joinAll_mem hjb with h | h
          · exact Or.inl h
          · exact Or.inr (List.mem_append_right _ h)
      have hs := hf a b hA
      rw [hja, hjb, join'_some]
      rcases hfab : f a b with e | s
      · constructor
        · intro x hx; simp [hfab, bind, Except.bind] at hx
        · intro he
          have : e = .timebase := by simpa [hfab, bind, Except.bind] using he
          subst this
          exact hs.2 hfab
      · constructor
        · intro x hx
          simp only [hfab, bind, Except.bind, Except.ok.injEq] at hx
          subst hx
          exact hs.1 s hfab
        · intro he; simp [hfab, bind, Except.bind] at he

theorem feedbackArg_sound (a b : Arg) (cfg : DtArg) (h : Adm a.dt b.dt) :
    Sound (feedbackArg a b cfg) a.dt b.dt := by
  rcases a with x | _ | _
  · exact feedbackDt_sound x b cfg h
  · exact sound_err _ (by decide) _ _
  · exact sound_err _ (by decide) _ _

theorem appendArg_sound (a b : Arg) (cfg : DtArg) (h : Adm a.dt b.dt) :
    Sound (appendArg a b cfg) a.dt b.dt := by
  rcases a with x | _ | _
  · exact appendDt_sound x b cfg h
  · exact sound_err _ (by decide) _ _
  · exact sound_err _ (by decide) _ _

theorem evalTree_sound (cfg : DtArg) : ∀ t : Tree, AdmList (t.leaves.map Arg.dt) →
    TSound (evalTree cfg t) (t.leaves.map Arg.dt)
  | .leaf a, _ => by
    constructor
    · intro x hx
      simp only [evalTree, Except.ok.injEq] at hx
      subst hx
      simp [Tree.leaves, joinAll_cons, joinAll_nil, join_none_right]
    · intro he; simp [evalTree] at he
  | .neg t, hadm => by
    have ih := evalTree_sound cfg t hadm
    simp only [evalTree, Tree.leaves]
    rcases het : evalTree cfg t with e | a
    · constructor
      · intro x hx; simp [bind, Except.bind] at hx
      · intro he
        have : e = .timebase := by simpa [bind, Except.bind] using he
        subst this
        exact ih.2 het
    · have hja := ih.1 a het
      have hv : a.dt.valid := by
        rcases joinAll_mem hja with h | h
        · rw [h]; trivial
        · exact hadm.1 _ h
      obtain ⟨n, hn, hdn⟩ := negArg_ok a hv cfg
      constructor
      · intro x hx
        simp only [bind, Except.bind, hn, Except.ok.injEq] at hx
        subst hx; rw [hdn]; exact hja
      · intro he; simp [bind, Except.bind, hn] at he
  | .bin op l r, hadm => by
    simp only [Tree.leaves, List.map_append] at hadm ⊢
    have hl := evalTree_sound cfg l (hadm.sub fun a ha => Or.inr (List.mem_append_left _ ha))
    have hr := evalTree_sound cfg r (hadm.sub fun a ha => Or.inr (List.mem_append_right _ ha))
    simp only [evalTree]
    exact node_sound hadm hl hr (fun a b => binDt op a b cfg) (fun a b h => binDt_sound op a b cfg h)
  | .feedback l r, hadm => by
    simp only [Tree.leaves, List.map_append] at hadm ⊢
    have hl := evalTree_sound cfg l (hadm.sub fun a ha => Or.inr (List.mem_append_left _ ha))
    have hr := evalTree_sound cfg r (hadm.sub fun a ha => Or.inr (List.mem_append_right _ ha))
    simp only [evalTree]
    exact node_sound hadm hl hr (fun a b => feedbackArg a b cfg)
      (fun a b h => feedbackArg_sound a b cfg h)
  | .append l r, hadm => by
    simp only [Tree.leaves, List.map_append] at hadm ⊢
    have hl := evalTree_sound cfg l (hadm.sub fun a ha => Or.inr (List.mem_append_left _ ha))
    have hr := evalTree_sound cfg r (hadm.sub fun a ha => Or.inr (List.mem_append_right _ ha))
    simp only [evalTree]
    exact node_sound hadm hl hr (fun a b => appendArg a b cfg)
      (fun a b h => appendArg_sound a b cfg h)

/-! ### n-ary functions -/

/-- soundness of a result system with respect to a list of timebases. -/
def LSound (e : Except Err Sys) (l : List Dt) : Prop :=
  (∀ s, e = .ok s → joinAll l = some s.dt) ∧ (e = .error .timebase → joinAll l = Option.none)

theorem foldlM_sound (g : Sys → Arg → Except Err Sys)
    (hg : ∀ acc y, Adm acc.dt y.dt → Sound (g acc y) acc.dt y.dt) :
    ∀ (rest : List Arg) (first : Sys), AdmList (first.dt :: rest.map Arg.dt) →
      LSound (rest.foldlM g first) (first.dt :: rest.map Arg.dt)
  | [], first, _ => by
    constructor
    · intro s hs
      simp only [List.foldlM, pure, Except.pure, Except.ok.injEq] at hs
      subst hs
      simp [joinAll_cons, joinAll_nil, join_none_right]
    · intro he; simp [List.foldlM, pure, Except.pure] at he
  | y :: ys, first, hadm => by
    have hA : Adm first.dt y.dt :=
      hadm.adm (Or.inr List.mem_cons_self) (Or.inr (by simp))
    have hs := hg first y hA
    have hassoc : joinAll (first.dt :: (y :: ys).map Arg.dt) =
        join' (join first.dt y.dt) (joinAll (ys.map Arg.dt)) := by
      simp only [List.map_cons, joinAll_cons]
      rw [← join'_assoc, join'_some]
    simp only [List.foldlM]
    rcases hgy : g first y with e | acc
    · constructor
      · intro s hs'; simp [bind, Except.bind] at hs'
      · intro he
        have : e = .timebase := by simpa [bind, Except.bind] using he
        subst this
        rw [hassoc, hs.2 hgy]; rfl
    · have hj := hs.1 acc hgy
      have hadm' : AdmList (acc.dt :: ys.map Arg.dt) := by
        apply hadm.sub
        intro a ha
        rcases List.mem_cons.mp ha with rfl | h1
        · rcases join_mem hj with h2 | h2
          · rw [h2]; exact Or.inr List.mem_cons_self
          · rw [h2]; exact Or.inr (by simp)
        · exact Or.inr (by simp [h1])
      have ih := foldlM_sound g hg ys acc hadm'
      have e2 : joinAll (first.dt :: (y :: ys).map Arg.dt) = joinAll (acc.dt :: ys.map Arg.dt) := by
        rw [hassoc, hj, joinAll_cons]
      simp only [bind, Except.bind]
      unfold LSound at ih ⊢
      rw [e2]
      exact ih

theorem seriesDt_sound (first : Sys) (rest : List Arg) (cfg : DtArg)
    (h : AdmList (first.dt :: rest.map Arg.dt)) :
    LSound (seriesDt first rest cfg) (first.dt :: rest.map Arg.dt) :=
  foldlM_sound _ (fun acc y hA => (binDt_sound .mul y (.sys acc) cfg hA.symm).comm) rest first h

theorem parallelDt_sound (first : Sys) (rest : List Arg) (cfg : DtArg)
    (h : AdmList (first.dt :: rest.map Arg.dt)) :
    LSound (parallelDt first rest cfg) (first.dt :: rest.map Arg.dt) :=
  foldlM_sound _ (fun acc y hA => binDt_sound .add (.sys acc) y cfg hA) rest first h

theorem appendAllDt_sound (first : Sys) (rest : List Arg) (cfg : DtArg)
    (h : AdmList (first.dt :: rest.map Arg.dt)) :
    LSound (appendAllDt first rest cfg) (first.dt :: rest.map Arg.dt) :=
  foldlM_sound _ (fun acc y hA => appendDt_sound acc y cfg hA) rest first h

/-- the fold in `InterconnectedSystem.__init__` over any number of subsystems. -/
theorem icFold_sound (cfg : DtArg) : ∀ (l : List Sys) (k : Dt), AdmList (k :: l.map Sys.dt) →
    (∀ d, l.foldlM (icStep cfg) k = .ok d → joinAll (k :: l.map Sys.dt) = some d) ∧
    (l.foldlM (icStep cfg) k = .error .timebase → joinAll (k :: l.map Sys.dt) = Option.none)
  | [], k, _ => by
    constructor
    · intro d hd
      simp only [List.foldlM, pure, Except.pure, Except.ok.injEq] at hd
      subst hd
      simp [joinAll_cons, joinAll_nil, join_none_right]
    · intro he; simp [List.foldlM, pure, Except.pure] at he
  | s :: ss, k, hadm => by
    have hA : Adm k s.dt := hadm.adm (Or.inr List.mem_cons_self) (Or.inr (by simp))
    have hassoc : joinAll (k :: (s :: ss).map Sys.dt) =
        join' (join k s.dt) (joinAll (ss.map Sys.dt)) := by
      simp only [List.map_cons, joinAll_cons]
      rw [← join'_assoc, join'_some]
    simp only [List.foldlM]
    rw [icStep_eq hA]
    cases hj : join k s.dt with
    | none =>
      simp only [ofOpt, bind, Except.bind]
      constructor
      · intro d hd; cases hd
      · intro _; rw [hassoc, hj]; rfl
    | some c =>
      simp only [ofOpt, bind, Except.bind]
      by_cases hf : s.cls = .frd
      · simp only [hf, if_true]
        constructor
        · intro d hd; cases hd
        · intro he; cases he
      · simp only [hf, if_false]
        have hadm' : AdmList (c :: ss.map Sys.dt) := by
          apply hadm.sub
          intro a ha
          rcases List.mem_cons.mp ha with rfl | h1
          · rcases join_mem hj with h2 | h2
            · rw [h2]; exact Or.inr List.mem_cons_self
            · rw [h2]; exact Or.inr (by simp)
          · exact Or.inr (by simp [h1])
        have ih := icFold_sound cfg ss c hadm'
        have e2 : joinAll (k :: (s :: ss).map Sys.dt) = joinAll (c :: ss.map Sys.dt) := by
          rw [hassoc, hj, joinAll_cons]
        rw [e2]
        exact ih

theorem icDt_sound (kw : Option Dt) (l : List Sys) (cfg : DtArg)
    (h : AdmList (kw.getD .none :: l.map Sys.dt)) :
    LSound (icDt kw l cfg) (kw.getD .none :: l.map Sys.dt) := by
  have hf := icFold_sound cfg l (kw.getD .none) h
  unfold icDt
  rcases hfold : l.foldlM (icStep cfg) (kw.getD .none) with e | d
  · constructor
    · intro s hs; simp [bind, Except.bind] at hs
    · intro he
      have : e = .timebase := by simpa [bind, Except.bind] using he
      subst this
      exact hf.2 hfold
  · have hj := hf.1 d hfold
    have hv : d.valid := by
      rcases joinAll_mem hj with h1 | h1
      · rw [h1]; trivial
      · exact h.1 _ h1
    constructor
    · intro s hs
      simp only [bind, Except.bind, givenDt_valid hv, Except.ok.injEq] at hs
      subst hs; exact hj
    · intro he; simp [bind, Except.bind, givenDt_valid hv] at he

/-- the fold of `common_timebase` over the blocks in `combine_tf`. -/
theorem dtFold_sound : ∀ (l : List Arg) (k : Dt), AdmList (k :: l.map Arg.dt) →
    (∀ d, l.foldlM (fun acc b => common acc b.dt) k = .ok d → joinAll (k :: l.map Arg.dt) = some d) ∧
    (l.foldlM (fun acc b => common acc b.dt) k = .error .timebase →
      joinAll (k :: l.map Arg.dt) = Option.none)
  | [], k, _ => by
    constructor
    · intro d hd
      simp only [List.foldlM, pure, Except.pure, Except.ok.injEq] at hd
      subst hd
      simp [joinAll_cons, joinAll_nil, join_none_right]
    · intro he; simp [List.foldlM, pure, Except.pure] at he
  | b :: bs, k, hadm => by
    have hA : Adm k b.dt := hadm.adm (Or.inr List.mem_cons_self) (Or.inr (by simp))
    have hassoc : joinAll (k :: (b :: bs).map Arg.dt) =
        join' (join k b.dt) (joinAll (bs.map Arg.dt)) := by
      simp only [List.map_cons, joinAll_cons]
      rw [← join'_assoc, join'_some]
    simp only [List.foldlM]
    rw [common_adm hA]
    cases hj : join k b.dt with
    | none =>
      simp only [ofOpt, bind, Except.bind]
      constructor
      · intro d hd; cases hd
      · intro _; rw [hassoc, hj]; rfl
    | some c =>
      simp only [ofOpt, bind, Except.bind]
      have hadm' : AdmList (c :: bs.map Arg.dt) := by
        apply hadm.sub
        intro a ha
        rcases List.mem_cons.mp ha with rfl | h1
        · rcases join_mem hj with h2 | h2
          · rw [h2]; exact Or.inr List.mem_cons_self
          · rw [h2]; exact Or.inr (by simp)
        · exact Or.inr (by simp [h1])
      have ih := dtFold_sound bs c hadm'
      have e2 : joinAll (k :: (b :: bs).map Arg.dt) = joinAll (c :: bs.map Arg.dt) := by
        rw [hassoc, hj, joinAll_cons]
      rw [e2]
      exact ih

theorem joinAll_none_cons (l : List Dt) : joinAll (Dt.none :: l) = joinAll l := by
  rw [joinAll_cons, join'_none_unit]

/-- `combine_tf`: if it returns, the timebase is the join of the blocks' timebases. -/
theorem combineTfDt_ok (blocks : List Arg) (cfg : DtArg) (h : AdmList (blocks.map Arg.dt)) (s : Sys)
    (hs : combineTfDt blocks cfg = .ok s) : joinAll (blocks.map Arg.dt) = some s.dt := by
  have hadm : AdmList (Dt.none :: blocks.map Arg.dt) :=
    h.sub fun a ha => by
      rcases List.mem_cons.mp ha with rfl | h1
      · exact Or.inl rfl
      · exact Or.inr h1
  have hf := dtFold_sound blocks .none hadm
  unfold combineTfDt at hs
  rcases hfold : blocks.foldlM (fun acc b => common acc b.dt) Dt.none with e | d
  · simp [hfold, bind, Except.bind] at hs
  · have hj := hf.1 d hfold
    rw [joinAll_none_cons] at hj
    have hv : d.valid := by
      rcases joinAll_mem hj with h1 | h1
      · rw [h1]; trivial
      · exact h.1 _ h1
    simp only [hfold, bind, Except.bind] at hs
    split at hs
    · cases hs
    · simp only [givenDt_valid hv, Except.ok.injEq] at hs
      subst hs
      exact hj

/-! ### totality on the supported operand kinds -/

/-- operand kind (class or constant). -/
inductive Kind where
  | cls (c : Cls) | scalar | array
  deriving DecidableEq, Repr

def Arg.kind : Arg → Kind
  | .sys s => .cls s.cls
  | .scalar => .scalar
  | .array => .array

/-- class of the result of `a + b`, `a - b`, `a * b` for the operand kinds on which the operators
are defined (`none`: `TypeError`). -/
def binResult : Kind → Kind → Option Cls
  | .cls .ss, .cls .ss | .cls .ss, .cls .tf | .cls .ss, .scalar | .cls .ss, .array => some .ss
  | .scalar, .cls .ss | .array, .cls .ss => some .ss
  | .cls .tf, .cls .ss | .cls .tf, .cls .tf | .cls .tf, .scalar | .cls .tf, .array => some .tf
  | .scalar, .cls .tf | .array, .cls .tf => some .tf
  | .cls .frd, .cls .ss | .cls .frd, .cls .tf | .cls .frd, .cls .frd | .cls .frd, .scalar
  | .cls .frd, .array => some .frd
  | .cls .ss, .cls .frd | .cls .tf, .cls .frd | .scalar, .cls .frd | .array, .cls .frd => some .frd
  | .cls .nl, .cls .ss | .cls .nl, .cls .tf | .cls .nl, .cls .nl | .cls .nl, .cls .ic
  | .cls .nl, .scalar | .cls .nl, .array => some .ic
  | .cls .ic, .cls .ss | .cls .ic, .cls .tf | .cls .ic, .cls .nl | .cls .ic, .cls .ic
  | .cls .ic, .scalar | .cls .ic, .array => some .ic
  | .cls .ss, .cls .nl | .cls .tf, .cls .nl | .scalar, .cls .nl | .array, .cls .nl => some .ic
  | .cls .ss, .cls .ic | .cls .tf, .cls .ic | .scalar, .cls .ic | .array, .cls .ic => some .ic
  | _, _ => Option.none

theorem binDt_total (op : BinOp) (hop : op ≠ .div) (x y : Arg) (c : Cls) (d : Dt) (cfg : DtArg)
    (h : Adm x.dt y.dt) (hr : binResult x.kind y.kind = some c) (hj : join x.dt y.dt = some d) :
    binDt op x y cfg = .ok ⟨c, d⟩ := by
  have hd := join_valid h.va h.vb hj
  have e1 : common x.dt y.dt = .ok d := by rw [common_adm h, hj]; rfl
  have e2 : common y.dt x.dt = .ok d := by rw [common_adm' h, hj]; rfl
  have ga := givenDt_valid h.va cfg
  have gb := givenDt_valid h.vb cfg
  have gd := givenDt_valid hd cfg
  have gn := givenDt_none cfg
  have caa := common_self_valid h.va
  have cbb := common_self_valid h.vb
  rcases x with ⟨cx, a⟩ | _ | _ <;> rcases y with ⟨cy, b⟩ | _ | _
  · cases cx <;> cases cy <;> simp only [Arg.kind, binResult, Option.some.injEq, reduceCtorEq] at hr <;>
      subst hr <;> cases op <;> first | exact absurd rfl hop | skip
    all_goals
      simp only [Arg.dt] at *
      simp [binDt, opFuel, binop, fwd, rev, ssAddMul, ssRmul, tfAddMul, tfConv, frdOp, nlPair, nlSeries,
        negArg, toTF, toFRD, toIO, icDt, icStep, mkSys, List.foldlM, e1, e2, ga, gb, gd, gn, caa, cbb,
        common_none_left, common_none_right, bind, Except.bind, pure, Except.pure]
  · -- system, scalar
    simp only [Arg.dt, join_none_right, Option.some.injEq] at hj; subst hj
    cases cx <;> simp only [Arg.kind, binResult, Option.some.injEq, reduceCtorEq] at hr <;>
      subst hr <;> cases op <;> first | exact absurd rfl hop | skip
    all_goals
      simp only [Arg.dt] at *
      simp [binDt, opFuel, binop, fwd, rev, ssAddMul, ssRmul, tfAddMul, tfConv, frdOp, nlPair, nlSeries,
        negArg, toTF, toFRD, toIO, icDt, icStep, mkSys, List.foldlM, ga, gn, caa,
        common_none_left, common_none_right, bind, Except.bind, pure, Except.pure]
  · -- system, array
    simp only [Arg.dt, join_none_right, Option.some.injEq] at hj; subst hj
    cases cx <;> simp only [Arg.kind, binResult, Option.some.injEq, reduceCtorEq] at hr <;>
      subst hr <;> cases op <;> first | exact absurd rfl hop | skip
    all_goals
      simp only [Arg.dt] at *
      simp [binDt, opFuel, binop, fwd, rev, ssAddMul, ssRmul, tfAddMul, tfConv, frdOp, nlPair, nlSeries,
        negArg, toTF, toFRD, toIO, icDt, icStep, mkSys, List.foldlM, ga, gn, caa,
        common_none_left, common_none_right, bind, Except.bind, pure, Except.pure]
  · -- scalar, system
    simp only [Arg.dt, join_none_left, Option.some.injEq] at hj; subst hj
    cases cy <;> simp only [Arg.kind, binResult, Option.some.injEq, reduceCtorEq] at hr <;>
      subst hr <;> cases op <;> first | exact absurd rfl hop | skip
    all_goals
      simp only [Arg.dt] at *
      simp [binDt, opFuel, binop, fwd, rev, ssAddMul, ssRmul, tfAddMul, tfConv, frdOp, nlPair, nlSeries,
        negArg, toTF, toFRD, toIO, icDt, icStep, mkSys, List.foldlM, gb, gn, cbb,
        common_none_left, common_none_right, bind, Except.bind, pure, Except.pure]
  · simp [Arg.kind, binResult] at hr
  · simp [Arg.kind, binResult] at hr
  · -- array, system
    simp only [Arg.dt, join_none_left, Option.some.injEq] at hj; subst hj
    cases cy <;> simp only [Arg.kind, binResult, Option.some.injEq, reduceCtorEq] at hr <;>
      subst hr <;> cases op <;> first | exact absurd rfl hop | skip
    all_goals
      simp only [Arg.dt] at *
      simp [binDt, opFuel, binop, fwd, rev, ssAddMul, ssRmul, tfAddMul, tfConv, frdOp, nlPair, nlSeries,
        negArg, toTF, toFRD, toIO, icDt, icStep, mkSys, List.foldlM, gb, gn, cbb,
        common_none_left, common_none_right, bind, Except.bind, pure, Except.pure]
  · simp [Arg.kind, binResult] at hr
  · simp [Arg.kind, binResult] at hr
/-- class of the result of `a / b` where defined. -/
def divResult : Kind → Kind → Option Cls
  | .cls .ss, .cls .ss | .cls .ss, .cls .tf | .cls .ss, .scalar | .cls .ss, .array => some .ss
  | .scalar, .cls .ss | .array, .cls .ss => some .ss
  | .cls .tf, .cls .ss | .cls .tf, .cls .tf | .cls .tf, .scalar | .cls .tf, .array => some .tf
  | .scalar, .cls .tf | .array, .cls .tf => some .tf
  | .cls .frd, .cls .ss | .cls .frd, .cls .tf | .cls .frd, .cls .frd | .cls .frd, .scalar
  | .cls .frd, .array => some .frd
  | .cls .ss, .cls .frd | .scalar, .cls .frd | .array, .cls .frd => some .frd
  | .cls .nl, .scalar | .cls .nl, .array | .cls .ic, .scalar | .cls .ic, .array => some .ic
  | _, _ => Option.none

theorem divDt_total (x y : Arg) (c : Cls) (d : Dt) (cfg : DtArg)
    (h : Adm x.dt y.dt) (hr : divResult x.kind y.kind = some c) (hj : join x.dt y.dt = some d) :
    binDt .div x y cfg = .ok ⟨c, d⟩ := by
  have hd := join_valid h.va h.vb hj
  have e1 : common x.dt y.dt = .ok d := by rw [common_adm h, hj]; rfl
  have e2 : common y.dt x.dt = .ok d := by rw [common_adm' h, hj]; rfl
  have ga := givenDt_valid h.va cfg
  have gb := givenDt_valid h.vb cfg
  have gd := givenDt_valid hd cfg
  have gn := givenDt_none cfg
  have caa := common_self_valid h.va
  have cbb := common_self_valid h.vb
  rcases x with ⟨cx, a⟩ | _ | _ <;> rcases y with ⟨cy, b⟩ | _ | _
  · cases cx <;> cases cy <;> simp only [Arg.kind, divResult, Option.some.injEq, reduceCtorEq] at hr <;>
      subst hr
    all_goals
      simp only [Arg.dt] at *
      simp [binDt, opFuel, binop, fwd, rev, recip, ssAddMul, ssRmul, tfAddMul, tfConv, frdOp, nlPair,
        nlSeries, negArg, toTF, toFRD, toIO, icDt, icStep, mkSys, List.foldlM, isConst, e1, e2, ga, gb, gd,
        gn, caa, cbb, common_none_left, common_none_right, bind, Except.bind, pure, Except.pure]
  · simp only [Arg.dt, join_none_right, Option.some.injEq] at hj; subst hj
    cases cx <;> simp only [Arg.kind, divResult, Option.some.injEq, reduceCtorEq] at hr <;> subst hr
    all_goals
      simp only [Arg.dt] at *
      simp [binDt, opFuel, binop, fwd, rev, recip, ssAddMul, ssRmul, tfAddMul, tfConv, frdOp, nlPair,
        nlSeries, negArg, toTF, toFRD, toIO, icDt, icStep, mkSys, List.foldlM, isConst, ga, gn, caa,
        common_none_left, common_none_right, bind, Except.bind, pure, Except.pure]
  · simp only [Arg.dt, join_none_right, Option.some.injEq] at hj; subst hj
    cases cx <;> simp only [Arg.kind, divResult, Option.some.injEq, reduceCtorEq] at hr <;> subst hr
    all_goals
      simp only [Arg.dt] at *
      simp [binDt, opFuel, binop, fwd, rev, recip, ssAddMul, ssRmul, tfAddMul, tfConv, frdOp, nlPair,
        nlSeries, negArg, toTF, toFRD, toIO, icDt, icStep, mkSys, List.foldlM, isConst, ga, gn, caa,
        common_none_left, common_none_right, bind, Except.bind, pure, Except.pure]
  · simp only [Arg.dt, join_none_left, Option.some.injEq] at hj; subst hj
    cases cy <;> simp only [Arg.kind, divResult, Option.some.injEq, reduceCtorEq] at hr <;> subst hr
    all_goals
      simp only [Arg.dt] at *
      simp [binDt, opFuel, binop, fwd, rev, recip, ssAddMul, ssRmul, tfAddMul, tfConv, frdOp, nlPair,
        nlSeries, negArg, toTF, toFRD, toIO, icDt, icStep, mkSys, List.foldlM, isConst, gb, gn, cbb,
        common_none_left, common_none_right, bind, Except.bind, pure, Except.pure]
  · simp [Arg.kind, divResult] at hr
  · simp [Arg.kind, divResult] at hr
  · simp only [Arg.dt, join_none_left, Option.some.injEq] at hj; subst hj
    cases cy <;> simp only [Arg.kind, divResult, Option.some.injEq, reduceCtorEq] at hr <;> subst hr
    all_goals
      simp only [Arg.dt] at *
      simp [binDt, opFuel, binop, fwd, rev, recip, ssAddMul, ssRmul, tfAddMul, tfConv, frdOp, nlPair,
        nlSeries, negArg, toTF, toFRD, toIO, icDt, icStep, mkSys, List.foldlM, isConst, gb, gn, cbb,
        common_none_left, common_none_right, bind, Except.bind, pure, Except.pure]
  · simp [Arg.kind, divResult] at hr
  · simp [Arg.kind, divResult] at hr


/-- class of the result of `feedback(x, other)` where defined. -/
def fbResult : Cls → Kind → Option Cls
  | .ss, .cls .ss | .ss, .cls .tf | .ss, .scalar | .ss, .array => some .ss
  | .ss, .cls .nl | .ss, .cls .ic => some .ic
  | .tf, .cls .ss | .tf, .cls .tf | .tf, .scalar | .tf, .array => some .tf
  | .frd, .cls .ss | .frd, .cls .tf | .frd, .cls .frd | .frd, .scalar | .frd, .array => some .frd
  | .nl, .cls .ss | .nl, .cls .tf | .nl, .cls .nl | .nl, .cls .ic | .nl, .scalar | .nl, .array => some .ic
  | .ic, .cls .ss | .ic, .cls .tf | .ic, .cls .nl | .ic, .cls .ic | .ic, .scalar | .ic, .array => some .ic
  | _, _ => Option.none

/-- class of the result of `x.append(other)` where defined. -/
def appendResult : Cls → Kind → Option Cls
  | .ss, .cls .ss | .ss, .cls .tf | .ss, .scalar | .ss, .array => some .ss
  | .tf, .cls .ss | .tf, .cls .tf | .tf, .scalar | .tf, .array => some .tf
  | .frd, .cls .ss | .frd, .cls .tf | .frd, .cls .frd => some .frd
  | _, _ => Option.none

theorem feedbackDt_total (cx : Cls) (a : Dt) (y : Arg) (c : Cls) (d : Dt) (cfg : DtArg)
    (h : Adm a y.dt) (hr : fbResult cx y.kind = some c) (hj : join a y.dt = some d) :
    feedbackDt ⟨cx, a⟩ y cfg = .ok ⟨c, d⟩ := by
  have hd := join_valid h.va h.vb hj
  have e1 : common a y.dt = .ok d := by rw [common_adm h, hj]; rfl
  have e2 : common y.dt a = .ok d := by rw [common_adm' h, hj]; rfl
  have ga := givenDt_valid h.va cfg
  have gb := givenDt_valid h.vb cfg
  have gd := givenDt_valid hd cfg
  have gn := givenDt_none cfg
  have cda : common d a = .ok d := by
    rw [common_adm (h.join_left hj), join_absorb_left hj]; rfl
  have cdb : common d y.dt = .ok d := by
    rw [common_adm (h.join_right hj), join_absorb_right hj]; rfl
  rcases y with ⟨cy, b⟩ | _ | _
  · cases cx <;> cases cy <;> simp only [Arg.kind, fbResult, Option.some.injEq, reduceCtorEq] at hr <;>
      subst hr
    all_goals
      simp only [Arg.dt] at *
      simp [feedbackDt, nlFeedback, toSS, tfConv, frdOp, toTF, toFRD, toIO, icDt, icStep, mkSys,
        List.foldlM, e1, e2, ga, gb, gd, gn, cda, cdb, common_none_left, common_none_right, bind,
        Except.bind, pure, Except.pure]
  · simp only [Arg.dt, join_none_right, Option.some.injEq] at hj; subst hj
    cases cx <;> simp only [Arg.kind, fbResult, Option.some.injEq, reduceCtorEq] at hr <;> subst hr
    all_goals
      simp only [Arg.dt] at *
      simp [feedbackDt, nlFeedback, toSS, tfConv, frdOp, toTF, toFRD, toIO, icDt, icStep, mkSys,
        List.foldlM, ga, gn, cda, common_self_valid h.va, common_none_left, common_none_right, bind,
        Except.bind, pure, Except.pure]
  · simp only [Arg.dt, join_none_right, Option.some.injEq] at hj; subst hj
    cases cx <;> simp only [Arg.kind, fbResult, Option.some.injEq, reduceCtorEq] at hr <;> subst hr
    all_goals
      simp only [Arg.dt] at *
      simp [feedbackDt, nlFeedback, toSS, tfConv, frdOp, toTF, toFRD, toIO, icDt, icStep, mkSys,
        List.foldlM, ga, gn, cda, common_self_valid h.va, common_none_left, common_none_right, bind,
        Except.bind, pure, Except.pure]

theorem appendDt_total (cx : Cls) (a : Dt) (y : Arg) (c : Cls) (d : Dt) (cfg : DtArg)
    (h : Adm a y.dt) (hr : appendResult cx y.kind = some c) (hj : join a y.dt = some d) :
    appendDt ⟨cx, a⟩ y cfg = .ok ⟨c, d⟩ := by
  have hd := join_valid h.va h.vb hj
  have e1 : common a y.dt = .ok d := by rw [common_adm h, hj]; rfl
  have ga := givenDt_valid h.va cfg
  have gb := givenDt_valid h.vb cfg
  have gd := givenDt_valid hd cfg
  have gn := givenDt_none cfg
  rcases y with ⟨cy, b⟩ | _ | _
  · cases cx <;> cases cy <;>
      simp only [Arg.kind, appendResult, Option.some.injEq, reduceCtorEq] at hr <;> subst hr
    all_goals
      simp only [Arg.dt] at *
      simp [appendDt, toSS, frdOp, toTF, toFRD, mkSys, isConst, e1, ga, gb, gd, gn,
        common_none_left, common_none_right, bind, Except.bind, pure, Except.pure]
  · simp only [Arg.dt, join_none_right, Option.some.injEq] at hj; subst hj
    cases cx <;> simp only [Arg.kind, appendResult, Option.some.injEq, reduceCtorEq] at hr <;> subst hr
    all_goals
      simp only [Arg.dt] at *
      simp [appendDt, toSS, frdOp, toTF, toFRD, mkSys, isConst, ga, gn,
        common_none_left, common_none_right, bind, Except.bind, pure, Except.pure]
  · simp only [Arg.dt, join_none_right, Option.some.injEq] at hj; subst hj
    cases cx <;> simp only [Arg.kind, appendResult, Option.some.injEq, reduceCtorEq] at hr <;> subst hr
    all_goals
      simp only [Arg.dt] at *
      simp [appendDt, toSS, frdOp, toTF, toFRD, mkSys, isConst, ga, gn,
        common_none_left, common_none_right, bind, Except.bind, pure, Except.pure]

/-- class of the result of `x.lft(other)` where defined (`StateSpace.lft`; `other` anything
`_convert_to_statespace` accepts). -/
def lftResult : Cls → Kind → Option Cls
  | .ss, .cls .ss | .ss, .cls .tf | .ss, .scalar | .ss, .array => some .ss
  | _, _ => Option.none

theorem lftDt_total (cx : Cls) (a : Dt) (y : Arg) (c : Cls) (d : Dt) (cfg : DtArg)
    (h : Adm a y.dt) (hr : lftResult cx y.kind = some c) (hj : join a y.dt = some d) :
    lftDt ⟨cx, a⟩ y cfg = .ok ⟨c, d⟩ := by
  have hd := join_valid h.va h.vb hj
  have e1 : common a y.dt = .ok d := by rw [common_adm h, hj]; rfl
  have ga := givenDt_valid h.va cfg
  have gb := givenDt_valid h.vb cfg
  have gd := givenDt_valid hd cfg
  have gn := givenDt_none cfg
  rcases y with ⟨cy, b⟩ | _ | _
  · cases cx <;> cases cy <;>
      simp only [Arg.kind, lftResult, Option.some.injEq, reduceCtorEq] at hr <;> subst hr
    all_goals
      simp only [Arg.dt] at *
      simp [lftDt, toSS, e1, ga, gb, gd, gn, bind, Except.bind, pure, Except.pure]
  · simp only [Arg.dt, join_none_right, Option.some.injEq] at hj; subst hj
    cases cx <;> simp only [Arg.kind, lftResult, Option.some.injEq, reduceCtorEq] at hr
    subst hr
    all_goals
      simp only [Arg.dt] at *
      simp [lftDt, toSS, ga, gn, common_none_left, common_none_right, bind, Except.bind, pure, Except.pure]
  · simp only [Arg.dt, join_none_right, Option.some.injEq] at hj; subst hj
    cases cx <;> simp only [Arg.kind, lftResult, Option.some.injEq, reduceCtorEq] at hr
    subst hr
    all_goals
      simp only [Arg.dt] at *
      simp [lftDt, toSS, ga, gn, common_none_left, common_none_right, bind, Except.bind, pure, Except.pure]

end CtrlVerif
