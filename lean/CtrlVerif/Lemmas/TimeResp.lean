/-
Helper lemmas for the time-response model (Model/TimeResp.lean): the recursions of the spec layer
(indexing, restart, linearity), decimation and interpolation, the block structure of the powers
of the augmented first-order-hold matrix, and the refinement of the executable (stored-vector)
layer to the spec layer.
-/
import CtrlVerif.Model.TimeResp
import Mathlib.Tactic.Abel
import Mathlib.Tactic.Ring
import Mathlib.Tactic.Linarith
import Mathlib.Data.Matrix.ColumnRowPartitioned

namespace CtrlVerif.TimeResp

open Matrix

section Spec
variable {K : Type*} [Field K] {σ ι o : Type*} [Fintype σ] [Fintype ι]
variable {α β γ : Type*}


@[simp] theorem dStates_length (G : SS σ ι o K) (x : σ → K) (us : List (ι → K)) :
    (dStates G x us).length = us.length := by
  induction us generalizing x with
  | nil => rfl
  | cons u us ih => simp [dStates, ih]

theorem dStates_getElem_zero (G : SS σ ι o K) (x : σ → K) (us : List (ι → K))
    (h : 0 < (dStates G x us).length) : (dStates G x us)[0] = x := by
  cases us with
  | nil => simp [dStates] at h
  | cons u us => simp [dStates]

theorem dStates_getElem_succ (G : SS σ ι o K) (x : σ → K) (us : List (ι → K)) (k : ℕ)
    (h : k + 1 < (dStates G x us).length) :
    (dStates G x us)[k + 1] =
      next G ((dStates G x us)[k]'(by omega)) (us[k]'(by simp at h; omega)) := by
  induction us generalizing x k with
  | nil => simp [dStates] at h
  | cons u us ih =>
    cases k with
    | zero =>
      simp only [dStates, List.getElem_cons_succ, List.getElem_cons_zero]
      exact dStates_getElem_zero G _ us (by simp [dStates] at h ⊢; omega)
    | succ k =>
      simp only [dStates, List.getElem_cons_succ]
      exact ih (next G x u) k (by simp [dStates] at h ⊢; omega)

theorem dStates_drop (G : SS σ ι o K) (x : σ → K) (us : List (ι → K)) (k : ℕ)
    (h : k < (dStates G x us).length) :
    (dStates G x us).drop k = dStates G ((dStates G x us)[k]) (us.drop k) := by
  induction us generalizing x k with
  | nil => simp [dStates] at h
  | cons u us ih =>
    cases k with
    | zero => simp [dStates]
    | succ k =>
      simp only [dStates, List.drop_succ_cons, List.getElem_cons_succ]
      exact ih (next G x u) k (by simp [dStates] at h ⊢; omega)

theorem next_lin (G : SS σ ι o K) (a b : K) (x x' : σ → K) (u u' : ι → K) :
    next G (a • x + b • x') (a • u + b • u') = a • next G x u + b • next G x' u' := by
  simp only [next, Matrix.mulVec_add, Matrix.mulVec_smul, smul_add]
  abel

theorem out_lin (G : SS σ ι o K) (a b : K) (x x' : σ → K) (u u' : ι → K) :
    out G (a • x + b • x') (a • u + b • u') = a • out G x u + b • out G x' u' := by
  simp only [out, Matrix.mulVec_add, Matrix.mulVec_smul, smul_add]
  abel

/-- the linear combination of two signals -/
def comb {α : Type*} [AddCommMonoid α] [SMul K α] (a b : K) (l l' : List α) : List α :=
  List.zipWith (fun v v' => a • v + b • v') l l'

theorem dStates_comb (G : SS σ ι o K) (a b : K) (x x' : σ → K) (us us' : List (ι → K)) :
    dStates G (a • x + b • x') (comb a b us us') = comb a b (dStates G x us) (dStates G x' us') := by
  induction us generalizing x x' us' with
  | nil => simp [comb, dStates]
  | cons u us ih =>
    cases us' with
    | nil => simp [comb, dStates]
    | cons u' us' =>
      simp only [comb, List.zipWith_cons_cons, dStates, List.cons.injEq, true_and]
      rw [next_lin]
      exact ih _ _ us'


theorem decimateAux_getElem? (inc : ℕ) (hinc : 1 ≤ inc) (c : ℕ) (l : List α) (j : ℕ) :
    (decimateAux inc c l)[j]? = l[c + j * inc]? := by
  induction l generalizing c j with
  | nil => simp [decimateAux]
  | cons a l ih =>
    cases c with
    | zero =>
      cases j with
      | zero => simp [decimateAux]
      | succ j =>
        simp only [decimateAux, List.getElem?_cons_succ]
        rw [ih]
        have : 0 + (j + 1) * inc = (inc - 1 + j * inc) + 1 := by
          rw [Nat.succ_mul]; omega
        rw [this, List.getElem?_cons_succ]
    | succ c =>
      simp only [decimateAux]
      rw [ih]
      have : c + 1 + j * inc = (c + j * inc) + 1 := by omega
      rw [this, List.getElem?_cons_succ]

theorem decimate_getElem? (inc : ℕ) (hinc : 1 ≤ inc) (l : List α) (j : ℕ) :
    (decimate inc l)[j]? = l[j * inc]? := by
  unfold decimate
  simpa using decimateAux_getElem? inc hinc 0 l j

theorem decimateAux_zipWith (f : α → β → γ) (inc c : ℕ) (l : List α) (l' : List β) :
    decimateAux inc c (List.zipWith f l l') =
      List.zipWith f (decimateAux inc c l) (decimateAux inc c l') := by
  induction l generalizing c l' with
  | nil => simp [decimateAux]
  | cons a l ih =>
    cases l' with
    | nil => cases c <;> simp [decimateAux]
    | cons b l' =>
      cases c with
      | zero => simp [decimateAux, ih]
      | succ c => simp [decimateAux, ih]

theorem decimate_zipWith (f : α → β → γ) (inc : ℕ) (l : List α) (l' : List β) :
    decimate inc (List.zipWith f l l') = List.zipWith f (decimate inc l) (decimate inc l') :=
  decimateAux_zipWith f inc 0 l l'

theorem decimateAux_map (f : α → β) (inc c : ℕ) (l : List α) :
    decimateAux inc c (l.map f) = (decimateAux inc c l).map f := by
  induction l generalizing c with
  | nil => simp [decimateAux]
  | cons a l ih => cases c <;> simp [decimateAux, ih]

theorem decimate_one (l : List α) : decimate 1 l = l := by
  unfold decimate
  induction l with
  | nil => rfl
  | cons a l ih => simp [decimateAux, ih]

/-- length of `l[c::inc]` -/
theorem decimateAux_length (inc : ℕ) (hinc : 1 ≤ inc) (c : ℕ) (l : List α) :
    (decimateAux inc c l).length = (l.length - c + (inc - 1)) / inc := by
  induction l generalizing c with
  | nil =>
    simp only [decimateAux, List.length_nil, Nat.zero_sub, Nat.zero_add]
    exact (Nat.div_eq_of_lt (by omega)).symm
  | cons a l ih =>
    cases c with
    | zero =>
      simp only [decimateAux, List.length_cons, ih, Nat.sub_zero]
      have e : l.length + 1 + (inc - 1) = l.length + inc := by omega
      rw [e, Nat.add_div_right _ (by omega : 0 < inc)]
      congr 1
      by_cases h : inc - 1 ≤ l.length
      · rw [Nat.sub_add_cancel h]
      · have : l.length - (inc - 1) + (inc - 1) = inc - 1 := by omega
        rw [this, Nat.div_eq_of_lt (by omega), Nat.div_eq_of_lt (by omega)]
    | succ c =>
      simp only [decimateAux, List.length_cons, ih]
      congr 1
      omega




@[simp] theorem lerp_zero (inc : ℕ) (u v : ι → K) : lerp inc 0 u v = u := by
  simp [lerp]

theorem lerp_lin (inc r : ℕ) (a b : K) (u v u' v' : ι → K) :
    lerp inc r (a • u + b • u') (a • v + b • v') = a • lerp inc r u v + b • lerp inc r u' v' := by
  funext i
  simp only [lerp, Pi.add_apply, Pi.smul_apply, Pi.sub_apply, smul_eq_mul]
  ring

theorem interp_cons_cons (inc : ℕ) (u v : ι → K) (rest : List (ι → K)) :
    interp inc (u :: v :: rest) =
      (List.range inc).map (fun r => lerp inc r u v) ++ interp inc (v :: rest) := by
  simp [interp]

theorem interp_length (inc : ℕ) (u : ι → K) (us : List (ι → K)) :
    (interp inc (u :: us)).length = us.length * inc + 1 := by
  induction us generalizing u with
  | nil => simp [interp]
  | cons v rest ih =>
    rw [interp_cons_cons, List.length_append, ih]
    simp only [List.length_map, List.length_range, List.length_cons]
    ring

theorem interp_getElem?_grid (inc : ℕ) (hinc : 1 ≤ inc) (us : List (ι → K)) (j : ℕ) :
    (interp inc us)[j * inc]? = us[j]? := by
  induction us generalizing j with
  | nil => simp [interp]
  | cons u us ih =>
    cases us with
    | nil =>
      cases j with
      | zero => simp [interp]
      | succ j =>
        have : 1 ≤ (j + 1) * inc := Nat.mul_pos (by omega) hinc
        simp only [interp, List.getElem?_cons_succ, List.getElem?_nil]
        rw [List.getElem?_eq_none]
        simpa using this
    | cons v rest =>
      rw [interp_cons_cons]
      cases j with
      | zero =>
        rw [Nat.zero_mul, List.getElem?_append_left (by simp; omega)]
        simp [List.getElem?_map, List.getElem?_range (by omega : 0 < inc)]
      | succ j =>
        have e : (j + 1) * inc = j * inc + inc := by ring
        rw [e, List.getElem?_append_right (by simp)]
        simp only [List.length_map, List.length_range, Nat.add_sub_cancel, List.getElem?_cons_succ]
        exact ih j

theorem interp_getElem?_fine (inc : ℕ) (us : List (ι → K)) (j r : ℕ) (hr : r < inc)
    (u v : ι → K) (hu : us[j]? = some u) (hv : us[j + 1]? = some v) :
    (interp inc us)[j * inc + r]? = some (lerp inc r u v) := by
  induction us generalizing j with
  | nil => simp at hu
  | cons a us ih =>
    cases us with
    | nil => simp at hv
    | cons b rest =>
      rw [interp_cons_cons]
      cases j with
      | zero =>
        simp only [List.getElem?_cons_zero, Option.some.injEq] at hu
        simp only [Nat.zero_add, List.getElem?_cons_succ, List.getElem?_cons_zero,
          Option.some.injEq] at hv
        subst hu hv
        rw [Nat.zero_mul, Nat.zero_add, List.getElem?_append_left (by simp; omega)]
        simp [List.getElem?_map, List.getElem?_range hr]
      | succ j =>
        have e : (j + 1) * inc + r = (j * inc + r) + inc := by ring
        rw [e, List.getElem?_append_right (by simp)]
        simp only [List.length_map, List.length_range, Nat.add_sub_cancel]
        exact ih j (by simpa using hu) (by simpa using hv)

theorem interp_one (us : List (ι → K)) : interp 1 us = us := by
  induction us with
  | nil => rfl
  | cons u us ih =>
    cases us with
    | nil => rfl
    | cons v rest => rw [interp_cons_cons, ih]; simp

theorem interp_comb (inc : ℕ) (a b : K) (us us' : List (ι → K)) (h : us.length = us'.length) :
    interp inc (comb a b us us') = comb a b (interp inc us) (interp inc us') := by
  induction us generalizing us' with
  | nil => cases us' <;> simp_all [comb, interp]
  | cons u us ih =>
    cases us' with
    | nil => simp at h
    | cons u' us' =>
      cases us with
      | nil =>
        cases us' with
        | nil => simp [comb, interp]
        | cons _ _ => simp at h
      | cons v rest =>
        cases us' with
        | nil => simp at h
        | cons v' rest' =>
          have h' : (v :: rest).length = (v' :: rest').length := by simpa using h
          have ih' := ih (v' :: rest') h'
          simp only [comb, List.zipWith_cons_cons] at ih' ⊢
          rw [interp_cons_cons, interp_cons_cons, interp_cons_cons, ih']
          rw [List.zipWith_append (by simp)]
          congr 1
          simp only [List.zipWith_map, List.zipWith_self, lerp_lin]
          



theorem fohStates_cons_cons (Ad : Matrix σ σ K) (Bd0 Bd1 : Matrix σ ι K) (x : σ → K) (u v : ι → K)
    (rest : List (ι → K)) :
    fohStates Ad Bd0 Bd1 x (u :: v :: rest) =
      x :: fohStates Ad Bd0 Bd1 (Ad *ᵥ x + Bd0 *ᵥ u + Bd1 *ᵥ v) (v :: rest) := by
  simp [fohStates]

@[simp] theorem fohStates_length (Ad : Matrix σ σ K) (Bd0 Bd1 : Matrix σ ι K) (x : σ → K)
    (us : List (ι → K)) : (fohStates Ad Bd0 Bd1 x us).length = us.length := by
  induction us generalizing x with
  | nil => rfl
  | cons u us ih =>
    cases us with
    | nil => rfl
    | cons v rest => rw [fohStates_cons_cons, List.length_cons, ih]; simp

theorem fohStates_getElem_zero (Ad : Matrix σ σ K) (Bd0 Bd1 : Matrix σ ι K) (x : σ → K)
    (us : List (ι → K)) (h : 0 < (fohStates Ad Bd0 Bd1 x us).length) :
    (fohStates Ad Bd0 Bd1 x us)[0] = x := by
  cases us with
  | nil => simp [fohStates] at h
  | cons u us =>
    cases us with
    | nil => simp [fohStates]
    | cons v rest => simp [fohStates_cons_cons]

theorem fohStates_getElem_succ (Ad : Matrix σ σ K) (Bd0 Bd1 : Matrix σ ι K) (x : σ → K)
    (us : List (ι → K)) (k : ℕ) (h : k + 1 < (fohStates Ad Bd0 Bd1 x us).length) :
    (fohStates Ad Bd0 Bd1 x us)[k + 1] =
      Ad *ᵥ ((fohStates Ad Bd0 Bd1 x us)[k]'(by omega)) + Bd0 *ᵥ (us[k]'(by simp at h; omega))
        + Bd1 *ᵥ (us[k + 1]'(by simpa using h)) := by
  induction us generalizing x k with
  | nil => simp [fohStates] at h
  | cons u us ih =>
    cases us with
    | nil => simp [fohStates] at h
    | cons v rest =>
      cases k with
      | zero =>
        simp only [fohStates_cons_cons, List.getElem_cons_succ, List.getElem_cons_zero]
        exact fohStates_getElem_zero _ _ _ _ _ (by simp)
      | succ k =>
        simp only [fohStates_cons_cons, List.getElem_cons_succ]
        exact ih _ k (by simp at h ⊢; omega)

theorem fohStates_drop (Ad : Matrix σ σ K) (Bd0 Bd1 : Matrix σ ι K) (x : σ → K)
    (us : List (ι → K)) (k : ℕ) (h : k < (fohStates Ad Bd0 Bd1 x us).length) :
    (fohStates Ad Bd0 Bd1 x us).drop k =
      fohStates Ad Bd0 Bd1 ((fohStates Ad Bd0 Bd1 x us)[k]) (us.drop k) := by
  induction us generalizing x k with
  | nil => simp [fohStates] at h
  | cons u us ih =>
    cases k with
    | zero =>
      simp only [List.drop_zero]
      rw [fohStates_getElem_zero]
    | succ k =>
      cases us with
      | nil => simp [fohStates] at h
      | cons v rest =>
        simp only [fohStates_cons_cons, List.drop_succ_cons, List.getElem_cons_succ]
        exact ih _ k (by simp at h ⊢; omega)

theorem fohStates_comb (Ad : Matrix σ σ K) (Bd0 Bd1 : Matrix σ ι K) (a b : K) (x x' : σ → K)
    (us us' : List (ι → K)) (h : us.length = us'.length) :
    fohStates Ad Bd0 Bd1 (a • x + b • x') (comb a b us us') =
      comb a b (fohStates Ad Bd0 Bd1 x us) (fohStates Ad Bd0 Bd1 x' us') := by
  induction us generalizing x x' us' with
  | nil => cases us' <;> simp_all [comb, fohStates]
  | cons u us ih =>
    cases us' with
    | nil => simp at h
    | cons u' us' =>
      cases us with
      | nil =>
        cases us' with
        | nil => simp [comb, fohStates]
        | cons _ _ => simp at h
      | cons v rest =>
        cases us' with
        | nil => simp at h
        | cons v' rest' =>
          have h' : (v :: rest).length = (v' :: rest').length := by simpa using h
          have ih' := fun y y' => ih y y' (v' :: rest') h'
          simp only [comb, List.zipWith_cons_cons] at ih' ⊢
          rw [fohStates_cons_cons, fohStates_cons_cons, fohStates_cons_cons]
          simp only [List.zipWith_cons_cons, List.cons.injEq, true_and]
          rw [← ih']
          congr 1
          simp only [Matrix.mulVec_add, Matrix.mulVec_smul, smul_add]
          abel

theorem freeStates_length (E : Matrix σ σ K) (x : σ → K) (k : ℕ) :
    (freeStates E x k).length = k := by
  induction k generalizing x with
  | zero => rfl
  | succ k ih => simp [freeStates, ih]

theorem freeStates_getElem? [DecidableEq σ] (E : Matrix σ σ K) (x : σ → K) (k j : ℕ) (h : j < k) :
    (freeStates E x k)[j]? = some ((E ^ j) *ᵥ x) := by
  induction k generalizing x j with
  | zero => omega
  | succ k ih =>
    cases j with
    | zero => simp [freeStates]
    | succ j =>
      simp only [freeStates, List.getElem?_cons_succ]
      rw [ih _ j (by omega), pow_succ, Matrix.mulVec_mulVec]

theorem fohStates_zero_input (Ad : Matrix σ σ K) (Bd0 Bd1 : Matrix σ ι K) (x : σ → K) (k : ℕ) :
    fohStates Ad Bd0 Bd1 x (List.replicate k 0) = freeStates Ad x k := by
  induction k generalizing x with
  | zero => rfl
  | succ k ih =>
    cases k with
    | zero => rfl
    | succ k =>
      have := ih (Ad *ᵥ x)
      simp only [List.replicate_succ] at this ⊢
      rw [fohStates_cons_cons, freeStates]
      simp only [Matrix.mulVec_zero, add_zero]
      rw [this]

theorem outputs_zero_input (G : SS σ ι o K) (xs : List (σ → K)) :
    outputs G xs (List.replicate xs.length 0) = xs.map (fun x => G.C *ᵥ x) := by
  induction xs with
  | nil => rfl
  | cons x xs ih =>
    simp only [List.length_cons, List.replicate_succ, outputs, List.zipWith_cons_cons, List.map_cons]
    rw [show List.zipWith (out G) xs (List.replicate xs.length 0) = _ from ih]
    simp [out]


theorem outputs_comb (G : SS σ ι o K) (a b : K) (xs xs' : List (σ → K)) (us us' : List (ι → K))
    (hx : xs.length = xs'.length) (hu : us.length = us'.length) :
    outputs G (comb a b xs xs') (comb a b us us') = comb a b (outputs G xs us) (outputs G xs' us') := by
  induction xs generalizing xs' us us' with
  | nil => cases xs' <;> simp_all [comb, outputs]
  | cons x xs ih =>
    cases xs' with
    | nil => simp at hx
    | cons x' xs' =>
      cases us with
      | nil => cases us' <;> simp_all [comb, outputs]
      | cons u us =>
        cases us' with
        | nil => simp at hu
        | cons u' us' =>
          have := ih xs' us us' (by simpa using hx) (by simpa using hu)
          simp only [comb, outputs, List.zipWith_cons_cons, List.cons.injEq] at this ⊢
          exact ⟨out_lin G a b x x' u u', this⟩

theorem dStates_zero_input (G : SS σ ι o K) (x : σ → K) (k : ℕ) :
    dStates G x (List.replicate k 0) = freeStates G.A x k := by
  induction k generalizing x with
  | zero => rfl
  | succ k ih =>
    simp only [List.replicate_succ, dStates, freeStates, List.cons.injEq, true_and]
    rw [ih]
    simp [next]

theorem dStates_impulse (G : SS σ ι o K) (u0 : ι → K) (k : ℕ) :
    dStates G 0 (u0 :: List.replicate k 0) = 0 :: freeStates G.A (G.B *ᵥ u0) k := by
  simp only [dStates, List.cons.injEq, true_and]
  rw [dStates_zero_input]
  simp [next]


section Blocks
variable [DecidableEq σ] [DecidableEq ι]


/-- the shape of the powers `M^k`, `k ≥ 2`, of the augmented matrix -/
def powShape (P : Matrix σ σ K) (Q R : Matrix σ ι K) : Matrix ((σ ⊕ ι) ⊕ ι) ((σ ⊕ ι) ⊕ ι) K :=
  fromBlocks (fromBlocks P Q 0 0) (fromRows R 0) 0 0

theorem fohM_mul_powShape (A : Matrix σ σ K) (B : Matrix σ ι K) (dt : K) (P : Matrix σ σ K)
    (Q R : Matrix σ ι K) :
    fohM A B dt * powShape P Q R = powShape ((dt • A) * P) ((dt • A) * Q) ((dt • A) * R) := by
  simp [fohM, powShape, fromBlocks_multiply, fromBlocks_mul_fromRows]

theorem fohM_sq (A : Matrix σ σ K) (B : Matrix σ ι K) (dt : K) :
    fohM A B dt ^ 2 = powShape ((dt • A) ^ 2) ((dt • A) * (dt • B)) (dt • B) := by
  rw [pow_two, pow_two]
  simp [fohM, powShape, fromBlocks_multiply, fromBlocks_mul_fromRows]

theorem fohM_pow (A : Matrix σ σ K) (B : Matrix σ ι K) (dt : K) (k : ℕ) :
    fohM A B dt ^ (k + 2) =
      powShape ((dt • A) ^ (k + 2)) ((dt • A) ^ (k + 1) * (dt • B)) ((dt • A) ^ k * (dt • B)) := by
  induction k with
  | zero => simpa using fohM_sq A B dt
  | succ k ih =>
    rw [pow_succ' _ (k + 2), ih, fohM_mul_powShape]
    simp only [← Matrix.mul_assoc, ← pow_succ']

@[simp] theorem fohAd_powShape (P : Matrix σ σ K) (Q R : Matrix σ ι K) :
    fohAd (powShape P Q R) = P := by simp [fohAd, powShape]
@[simp] theorem fohMid_powShape (P : Matrix σ σ K) (Q R : Matrix σ ι K) :
    fohMid (powShape P Q R) = Q := by simp [fohMid, powShape]
@[simp] theorem fohBd1_powShape (P : Matrix σ σ K) (Q R : Matrix σ ι K) :
    fohBd1 (powShape P Q R) = R := by
  ext i j; simp [fohBd1, powShape]

theorem fohAd_add (X Y : Matrix ((σ ⊕ ι) ⊕ ι) ((σ ⊕ ι) ⊕ ι) K) :
    fohAd (X + Y) = fohAd X + fohAd Y := by ext i j; simp [fohAd, toBlocks₁₁]
theorem fohMid_add (X Y : Matrix ((σ ⊕ ι) ⊕ ι) ((σ ⊕ ι) ⊕ ι) K) :
    fohMid (X + Y) = fohMid X + fohMid Y := by ext i j; simp [fohMid, toBlocks₁₁, toBlocks₁₂]
theorem fohBd1_add (X Y : Matrix ((σ ⊕ ι) ⊕ ι) ((σ ⊕ ι) ⊕ ι) K) :
    fohBd1 (X + Y) = fohBd1 X + fohBd1 Y := by ext i j; simp [fohBd1, toBlocks₁₂]
theorem fohAd_smul (c : K) (X : Matrix ((σ ⊕ ι) ⊕ ι) ((σ ⊕ ι) ⊕ ι) K) :
    fohAd (c • X) = c • fohAd X := by ext i j; simp [fohAd, toBlocks₁₁]
theorem fohMid_smul (c : K) (X : Matrix ((σ ⊕ ι) ⊕ ι) ((σ ⊕ ι) ⊕ ι) K) :
    fohMid (c • X) = c • fohMid X := by ext i j; simp [fohMid, toBlocks₁₁, toBlocks₁₂]
theorem fohBd1_smul (c : K) (X : Matrix ((σ ⊕ ι) ⊕ ι) ((σ ⊕ ι) ⊕ ι) K) :
    fohBd1 (c • X) = c • fohBd1 X := by ext i j; simp [fohBd1, toBlocks₁₂]

theorem fohAd_fohM (A : Matrix σ σ K) (B : Matrix σ ι K) (dt : K) : fohAd (fohM A B dt) = dt • A := by
  simp [fohAd, fohM]
theorem fohMid_fohM (A : Matrix σ σ K) (B : Matrix σ ι K) (dt : K) : fohMid (fohM A B dt) = dt • B := by
  simp [fohMid, fohM]
theorem fohBd1_fohM (A : Matrix σ σ K) (B : Matrix σ ι K) (dt : K) : fohBd1 (fohM A B dt) = 0 := by
  ext i j; simp [fohBd1, fohM]
theorem fohAd_one : fohAd (1 : Matrix ((σ ⊕ ι) ⊕ ι) ((σ ⊕ ι) ⊕ ι) K) = 1 := by
  ext i j; simp [fohAd, toBlocks₁₁, Matrix.one_apply]
theorem fohMid_one : fohMid (1 : Matrix ((σ ⊕ ι) ⊕ ι) ((σ ⊕ ι) ⊕ ι) K) = 0 := by
  ext i j; simp [fohMid, toBlocks₁₁, toBlocks₁₂, Matrix.one_apply]
theorem fohBd1_one : fohBd1 (1 : Matrix ((σ ⊕ ι) ⊕ ι) ((σ ⊕ ι) ⊕ ι) K) = 0 := by
  ext i j; simp [fohBd1, toBlocks₁₂, Matrix.one_apply]

theorem expSum_succ {τ : Type*} [Fintype τ] [DecidableEq τ] (N : ℕ) (X : Matrix τ τ K) :
    expSum (N + 1) X = expSum N X + (((N + 1).factorial : K)⁻¹) • X ^ (N + 1) := by
  simp [expSum, Finset.sum_range_succ]

theorem expSum_one {τ : Type*} [Fintype τ] [DecidableEq τ] (X : Matrix τ τ K) :
    expSum 1 X = 1 + X := by
  simp [expSum, Finset.sum_range_succ]

/-- blocks of the truncated exponential series of the augmented matrix -/
theorem expSum_fohM_blocks (A : Matrix σ σ K) (B : Matrix σ ι K) (dt : K) (N : ℕ) :
    fohAd (expSum (N + 1) (fohM A B dt)) = expSum (N + 1) (dt • A) ∧
    fohMid (expSum (N + 1) (fohM A B dt)) =
      ∑ k ∈ Finset.range (N + 1), (((k + 1).factorial : K)⁻¹) • ((dt • A) ^ k * (dt • B)) ∧
    fohBd1 (expSum (N + 1) (fohM A B dt)) =
      ∑ k ∈ Finset.range N, (((k + 2).factorial : K)⁻¹) • ((dt • A) ^ k * (dt • B)) := by
  induction N with
  | zero =>
    refine ⟨?_, ?_, ?_⟩
    · rw [expSum_one, expSum_one, fohAd_add, fohAd_one, fohAd_fohM]
    · rw [expSum_one, fohMid_add, fohMid_one, fohMid_fohM]; simp
    · rw [expSum_one, fohBd1_add, fohBd1_one, fohBd1_fohM]; simp
  | succ N ih =>
    obtain ⟨h1, h2, h3⟩ := ih
    refine ⟨?_, ?_, ?_⟩
    · rw [expSum_succ, fohAd_add, fohAd_smul, h1, fohM_pow, fohAd_powShape, ← expSum_succ]
    · rw [expSum_succ, fohMid_add, fohMid_smul, h2, fohM_pow, fohMid_powShape,
        Finset.sum_range_succ _ (N + 1)]
    · rw [expSum_succ, fohBd1_add, fohBd1_smul, h3, fohM_pow, fohBd1_powShape,
        Finset.sum_range_succ _ N]


end Blocks

end Spec

section Exec
variable {K : Type*} [Field K] {n m p : ℕ}


@[simp] theorem get_ofFn (f : Fin n → K) : (Vector.ofFn f).get = f := by
  funext i; simp [Vector.get]; rfl

theorem dStatesV_refines (G : SS (Fin n) (Fin m) (Fin p) K) (x : Vector K n) (us : List (Vector K m)) :
    (dStatesV G x us).map Vector.get = dStates G x.get (us.map Vector.get) := by
  induction us generalizing x with
  | nil => rfl
  | cons u us ih => simp [dStatesV, dStates, ih, nextV]

theorem outputsV_refines (G : SS (Fin n) (Fin m) (Fin p) K) (xs : List (Vector K n))
    (us : List (Vector K m)) :
    (outputsV G xs us).map Vector.get = outputs G (xs.map Vector.get) (us.map Vector.get) := by
  simp [outputsV, outputs, List.map_zipWith, List.zipWith_map, outV]

theorem interpV_refines (inc : ℕ) (us : List (Vector K m)) :
    (interpV inc us).map Vector.get = interp inc (us.map Vector.get) := by
  induction us with
  | nil => rfl
  | cons u us ih =>
    cases us with
    | nil => rfl
    | cons v rest =>
      simp only [interpV, List.map_append, List.map_map, List.map_cons, interp] at ih ⊢
      rw [ih]
      congr 1
      apply List.map_congr_left
      intro r _
      simp [lerpV]

theorem simDiscreteV_refines (G : SS (Fin n) (Fin m) (Fin p) K) (inc : ℕ) (x : Vector K n)
    (us : List (Vector K m)) :
    ((simDiscreteV G inc x us).1.map Vector.get, (simDiscreteV G inc x us).2.map Vector.get) =
      simDiscrete G inc x.get (us.map Vector.get) := by
  simp only [simDiscreteV, simDiscrete, decimate, ← decimateAux_map, dStatesV_refines,
    outputsV_refines, interpV_refines]

theorem fohStatesV_refines (Ad : Matrix (Fin n) (Fin n) K) (Bd0 Bd1 : Matrix (Fin n) (Fin m) K)
    (x : Vector K n) (us : List (Vector K m)) :
    (fohStatesV Ad Bd0 Bd1 x us).map Vector.get =
      fohStates Ad Bd0 Bd1 x.get (us.map Vector.get) := by
  induction us generalizing x with
  | nil => rfl
  | cons u us ih =>
    cases us with
    | nil => rfl
    | cons v rest =>
      simp only [fohStatesV, fohStates, List.map_cons] at ih ⊢
      rw [ih]
      simp

theorem freeStatesV_refines (E : Matrix (Fin n) (Fin n) K) (x : Vector K n) (k : ℕ) :
    (freeStatesV E x k).map Vector.get = freeStates E x.get k := by
  induction k generalizing x with
  | zero => rfl
  | succ k ih => simp [freeStatesV, freeStates, ih]

theorem simFOHV_refines (G : SS (Fin n) (Fin m) (Fin p) K) (Ad : Matrix (Fin n) (Fin n) K)
    (Bd0 Bd1 : Matrix (Fin n) (Fin m) K) (x : Vector K n) (us : List (Vector K m)) :
    ((simFOHV G Ad Bd0 Bd1 x us).1.map Vector.get, (simFOHV G Ad Bd0 Bd1 x us).2.map Vector.get) =
      simFOH G Ad Bd0 Bd1 x.get (us.map Vector.get) := by
  simp only [simFOHV, simFOH, fohStatesV_refines, outputsV_refines]

theorem simFreeV_refines (G : SS (Fin n) (Fin m) (Fin p) K) (E : Matrix (Fin n) (Fin n) K)
    (x : Vector K n) (k : ℕ) :
    ((simFreeV G E x k).1.map Vector.get, (simFreeV G E x k).2.map Vector.get) =
      simFree G E x.get k := by
  simp only [simFreeV, simFree, freeStatesV_refines, List.map_map, ← freeStatesV_refines]
  congr 1
  apply List.map_congr_left
  intro a _
  simp

theorem eFoh_state (i : Fin n) : ((eFoh n m (Sum.inl (Sum.inl i))) : ℕ) = i := by
  simp [eFoh]
theorem eFoh_mid (j : Fin m) : ((eFoh n m (Sum.inl (Sum.inr j))) : ℕ) = n + j := by
  simp [eFoh]
theorem eFoh_last (j : Fin m) : ((eFoh n m (Sum.inr j)) : ℕ) = n + m + j := by
  simp [eFoh]


end Exec

section Markov
variable {K : Type*} [Field K] {σ σ' ι o : Type*} [Fintype σ] [Fintype σ'] [Fintype ι]
  [DecidableEq σ] [DecidableEq σ']

theorem markov_outputs_aux (G : SS σ ι o K) (G' : SS σ' ι o K) (hD : G.D = G'.D)
    (hM : ∀ j : ℕ, G.C * G.A ^ j * G.B = G'.C * G'.A ^ j * G'.B) (us : List (ι → K))
    (x : σ → K) (x' : σ' → K) (hinv : ∀ i : ℕ, (G.C * G.A ^ i) *ᵥ x = (G'.C * G'.A ^ i) *ᵥ x') :
    outputs G (dStates G x us) us = outputs G' (dStates G' x' us) us := by
  induction us generalizing x x' with
  | nil => rfl
  | cons u us ih =>
    simp only [dStates, outputs, List.zipWith_cons_cons, List.cons.injEq]
    refine ⟨?_, ih _ _ ?_⟩
    · have := hinv 0
      simp only [pow_zero, Matrix.mul_one] at this
      simp only [out, this, hD]
    · intro i
      simp only [next, Matrix.mulVec_add, Matrix.mulVec_mulVec]
      have h1 := hinv (i + 1)
      rw [pow_succ, ← Matrix.mul_assoc] at h1
      rw [pow_succ, ← Matrix.mul_assoc] at h1
      rw [h1, hM i]

end Markov

section Validation

theorem equallySpaced_spec (dt : ℚ) (T : List ℚ) (h : equallySpaced dt T = true) (k : ℕ)
    (hk : k + 1 < T.length) : T[k + 1] - T[k] = dt := by
  induction T generalizing k with
  | nil => simp at hk
  | cons a T ih =>
    cases T with
    | nil => simp at hk
    | cons b rest =>
      simp only [equallySpaced, Bool.and_eq_true, decide_eq_true_eq] at h
      cases k with
      | zero => simpa using h.1
      | succ k =>
        simp only [List.getElem_cons_succ]
        exact ih h.2 k (by simpa using hk)

/-- a converted input has one column per time point. -/
theorem convertU_length (m k : ℕ) (U : Arr) (us : List (Vector ℚ m))
    (h : convertU m k U = .ok us) : us.length = k := by
  cases U with
  | scalar c => simp only [convertU] at h; injection h with h; subst h; simp
  | d1 v =>
    simp only [convertU] at h
    split at h
    · rename_i hc; injection h with h; subst h; simpa using hc.2
    · cases h
  | d2 r cols =>
    simp only [convertU] at h
    split at h
    · split at h
      · rename_i hc; injection h with h; subst h; simpa using hc
      · cases h
    · cases h

/-- the zero test of the continuous-time fast path (`np.all(U == 0)`) is exact: it holds iff
every sample of every channel is `0`. -/
theorem allZero_iff {m : ℕ} (us : List (Vector ℚ m)) :
    allZero us = true ↔ ∀ u ∈ us, ∀ i : Fin m, u.get i = 0 := by
  simp only [allZero, List.all_eq_true, decide_eq_true_eq]
  constructor
  · intro h u hu i
    exact h u hu (u.get i) (by simp [Vector.get])
  · intro h u hu a ha
    rw [Vector.mem_toList_iff] at ha
    obtain ⟨i, hi, rfl⟩ := Vector.getElem_of_mem ha
    exact h u hu ⟨i, hi⟩

theorem allZero_map_get {m : ℕ} (us : List (Vector ℚ m)) (h : allZero us = true) :
    us.map Vector.get = List.replicate us.length (0 : Fin m → ℚ) := by
  rw [List.eq_replicate_iff]
  refine ⟨by simp, ?_⟩
  intro b hb
  obtain ⟨u, hu, rfl⟩ := List.mem_map.1 hb
  funext i
  exact (allZero_iff us).1 h u hu i

end Validation

end CtrlVerif.TimeResp
