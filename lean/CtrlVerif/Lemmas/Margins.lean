/-
Lemmas for `Model/Margins.lean`: refinement of the NumPy helpers used by margins.py to
`Polynomial K`, evaluation of real coefficient lists at complex points, `_poly_iw`.
-/
import CtrlVerif.Model.Margins
import CtrlVerif.Lemmas.Poly
import Mathlib.Algebra.Polynomial.Derivative
import Mathlib.Algebra.Polynomial.AlgebraMap
import Mathlib.Algebra.QuadraticAlgebra.Basic
import Mathlib.Tactic.Ring
import Mathlib.Tactic.Linarith
import Mathlib.Tactic.LinearCombination
import Mathlib.Tactic.FieldSimp

namespace CtrlVerif.Margins

open CtrlVerif Polynomial

variable {K : Type*} [Field K]

/-! ### coefficient-list operations -/

theorem toPoly_npsub (p q : List K) : toPoly (npsub p q) = toPoly p - toPoly q := by
  simp [npsub, toPoly_polyadd, toPoly_pneg, sub_eq_add_neg]

theorem toPoly_npmul [DecidableEq K] (p q : List K) : toPoly (npmul p q) = toPoly p * toPoly q := by
  simp [npmul, toPoly_polymul, toPoly_trim]

theorem length_polyder (p : List K) : (polyder p).length = p.length - 1 := by
  induction p with
  | nil => rfl
  | cons c t ih =>
    cases t with
    | nil => rfl
    | cons d t' => simp only [polyder, List.length_cons] at ih ⊢; omega

theorem toPoly_polyder (p : List K) : toPoly (polyder p) = derivative (toPoly p) := by
  induction p with
  | nil => simp [polyder]
  | cons c t ih =>
    cases t with
    | nil => simp [polyder, toPoly_cons]
    | cons d t' =>
      have hlen : (polyder (d :: t')).length = t'.length := by
        rw [length_polyder]; simp
      rw [polyder, toPoly_cons, ih, hlen, toPoly_cons (a := c)]
      simp only [List.length_cons, derivative_add, derivative_mul, derivative_C, zero_mul,
        zero_add, derivative_X_pow, Nat.add_sub_cancel, map_mul, map_natCast]
      push_cast
      ring

theorem toPoly_ctrim_fst [DecidableEq K] (re im : List K) : toPoly (ctrim re im).1 = toPoly re := by
  induction re generalizing im with
  | nil => cases im <;> simp [ctrim, toPoly_cons]
  | cons a re ih =>
    cases im with
    | nil => simp [ctrim]
    | cons b im =>
      by_cases h : a = 0 ∧ b = 0
      · simp only [ctrim, h, and_self, if_true, ih]
        simp [toPoly_cons]
      · simp [ctrim, h]

theorem toPoly_ctrim_snd [DecidableEq K] (re im : List K) : toPoly (ctrim re im).2 = toPoly im := by
  induction re generalizing im with
  | nil => cases im <;> simp [ctrim, toPoly_cons]
  | cons a re ih =>
    cases im with
    | nil => simp [ctrim]
    | cons b im =>
      by_cases h : a = 0 ∧ b = 0
      · simp only [ctrim, h, and_self, if_true, ih]
        simp [toPoly_cons]
      · simp [ctrim, h]

theorem toPoly_iwSqr [DecidableEq K] (p : List K × List K) :
    toPoly (iwSqr p) = toPoly p.1 * toPoly p.1 + toPoly p.2 * toPoly p.2 := by
  simp [iwSqr, toPoly_polyadd, toPoly_polymul, toPoly_ctrim_fst, toPoly_ctrim_snd]

theorem toPoly_cadd_fst (p q : List K × List K) : toPoly (cadd p q).1 = toPoly p.1 + toPoly q.1 := by
  simp [cadd, toPoly_polyadd]

theorem toPoly_cadd_snd (p q : List K × List K) : toPoly (cadd p q).2 = toPoly p.2 + toPoly q.2 := by
  simp [cadd, toPoly_polyadd]

/-! ### evaluation at complex points -/

/-- lowest-power-first Horner evaluation -/
def lowEval {R : Type*} [Semiring R] (l : List R) (x : R) : R := l.foldr (fun c acc => acc * x + c) 0

theorem polyval_reverse {R : Type*} [Semiring R] (l : List R) (x : R) :
    polyval l.reverse x = lowEval l x := by
  simp [polyval, lowEval, List.foldl_reverse]

theorem polyval_eq_lowEval_reverse {R : Type*} [Semiring R] (l : List R) (x : R) :
    polyval l x = lowEval l.reverse x := by
  rw [← polyval_reverse, List.reverse_reverse]

@[simp] theorem lowEval_nil {R : Type*} [Semiring R] (x : R) : lowEval ([] : List R) x = 0 := rfl

@[simp] theorem lowEval_cons {R : Type*} [Semiring R] (c : R) (l : List R) (x : R) :
    lowEval (c :: l) x = lowEval l x * x + c := rfl

theorem lowEval_map_neg {R : Type*} [Ring R] (l : List R) (x : R) :
    lowEval (l.map (- ·)) x = - lowEval l x := by
  induction l with
  | nil => simp
  | cons c l ih => simp [ih]; abel

theorem lowEval_iwLow (l : List K) (w : K) :
    lowEval (l.map QuadraticAlgebra.C) (jw w) =
      (⟨lowEval (iwLow l).1 w, lowEval (iwLow l).2 w⟩ : Cx K) := by
  induction l with
  | nil => rfl
  | cons c t ih =>
    simp only [List.map_cons, lowEval_cons, ih, iwLow, lowEval_map_neg]
    ext <;> simp [jw]

/-- `_poly_iw`: the two real coefficient lists evaluate to the real and imaginary part of `p(jw)`. -/
theorem evalC_jw (p : List K) (w : K) :
    evalC p (jw w) = (⟨polyval (polyIw p).1 w, polyval (polyIw p).2 w⟩ : Cx K) := by
  unfold evalC polyIw
  rw [polyval_eq_lowEval_reverse, ← List.map_reverse, lowEval_iwLow, polyval_reverse, polyval_reverse]

theorem evalC_jw_re (p : List K) (w : K) : (evalC p (jw w)).re = polyval (polyIw p).1 w := by
  rw [evalC_jw]

theorem evalC_jw_im (p : List K) (w : K) : (evalC p (jw w)).im = polyval (polyIw p).2 w := by
  rw [evalC_jw]

/-- evaluation of a real coefficient list at a complex point is `aeval` of the polynomial. -/
theorem evalC_eq_aeval (p : List K) (z : Cx K) : evalC p z = aeval z (toPoly p) := by
  induction p with
  | nil => simp [evalC, polyval]
  | cons a p ih =>
    rw [toPoly_cons]
    unfold evalC at ih ⊢
    simp only [List.map_cons, polyval, List.foldl_cons]
    rw [polyval_foldl, ih]
    simp [QuadraticAlgebra.C_eq_algebraMap]

theorem evalC_real (p : List K) (w : K) : evalC p (QuadraticAlgebra.C w) = QuadraticAlgebra.C (polyval p w) := by
  rw [evalC_eq_aeval, polyval_eq_eval, QuadraticAlgebra.C_eq_algebraMap, Polynomial.aeval_algebraMap_apply_eq_algebraMap_eval]

/-! ### `normSq`, `conj`, the response -/

theorem mul_conj (z : Cx K) : z * conj z = QuadraticAlgebra.C (normSq z) := by
  ext <;> simp [conj, normSq] <;> ring

theorem normSq_mul (a b : Cx K) : normSq (a * b) = normSq a * normSq b := by
  simp [normSq]; ring

theorem normSq_C (x : K) : normSq (QuadraticAlgebra.C x : Cx K) = x * x := by
  simp [normSq]

theorem normSq_conj (z : Cx K) : normSq (conj z) = normSq z := by
  simp [normSq, conj]

theorem normSq_neg (z : Cx K) : normSq (-z) = normSq z := by
  simp [normSq]

theorem conj_mul (a b : Cx K) : conj (a * b) = conj a * conj b := by
  ext <;> simp [conj] <;> ring

theorem conj_add (a b : Cx K) : conj (a + b) = conj a + conj b := by
  ext <;> simp [conj] <;> ring

theorem conj_C (x : K) : conj (QuadraticAlgebra.C x : Cx K) = QuadraticAlgebra.C x := by
  ext <;> simp [conj]

theorem smul_eq_C_mul (x : K) (z : Cx K) : x • z = QuadraticAlgebra.C x * z := by
  ext <;> simp

/-- evaluation commutes with conjugation (real coefficients). -/
theorem evalC_conj (p : List K) (z : Cx K) : evalC p (conj z) = conj (evalC p z) := by
  unfold evalC
  induction p using List.reverseRecOn with
  | nil => ext <;> simp [polyval, conj]
  | append_singleton p a ih =>
    simp only [List.map_append, List.map_cons, List.map_nil, polyval, List.foldl_append,
      List.foldl_cons, List.foldl_nil] at ih ⊢
    rw [ih, conj_add, conj_mul, conj_C]

section ordered
variable [LinearOrder K] [IsStrictOrderedRing K]

theorem normSq_nonneg (z : Cx K) : 0 ≤ normSq z := by
  unfold normSq; nlinarith [mul_self_nonneg z.re, mul_self_nonneg z.im]

theorem normSq_eq_zero_iff (z : Cx K) : normSq z = 0 ↔ z = 0 := by
  constructor
  · intro h
    unfold normSq at h
    have h1 : z.re * z.re = 0 := by nlinarith [mul_self_nonneg z.re, mul_self_nonneg z.im]
    have h2 : z.im * z.im = 0 := by nlinarith [mul_self_nonneg z.re, mul_self_nonneg z.im]
    ext
    · simpa using mul_self_eq_zero.mp h1
    · simpa using mul_self_eq_zero.mp h2
  · rintro rfl; simp [normSq]

theorem respAt_eq_some_iff (num den : List K) (z r : Cx K) :
    respAt num den z = some r ↔
      normSq (evalC den z) ≠ 0 ∧ r = (normSq (evalC den z))⁻¹ • (evalC num z * conj (evalC den z)) := by
  unfold respAt
  split_ifs with h
  · simp [h]
  · simp [h, eq_comm]

theorem respAt_eq_none_iff (num den : List K) (z : Cx K) :
    respAt num den z = none ↔ evalC den z = 0 := by
  unfold respAt
  split_ifs with h
  · simp [(normSq_eq_zero_iff _).mp h]
  · simp only [reduceCtorEq, false_iff]
    exact fun h0 => h ((normSq_eq_zero_iff _).mpr h0)

/-- the value returned by `respAt` is the quotient `num(z)/den(z)`. -/
theorem respAt_spec {num den : List K} {z r : Cx K} (h : respAt num den z = some r) :
    evalC den z ≠ 0 ∧ r * evalC den z = evalC num z := by
  obtain ⟨h0, hr⟩ := (respAt_eq_some_iff _ _ _ _).mp h
  refine ⟨fun h1 => h0 ((normSq_eq_zero_iff _).mpr h1), ?_⟩
  rw [hr, smul_eq_C_mul, mul_assoc, mul_assoc, mul_comm (conj _), mul_conj, mul_comm (evalC num z),
    ← mul_assoc, ← QuadraticAlgebra.C_mul, inv_mul_cancel₀ h0]
  simp [QuadraticAlgebra.C_one]

/-- the quotient is unique: any `r` with `r·den(z) = num(z)`, `den(z) ≠ 0`, is what `respAt` returns. -/
theorem respAt_of_mul_eq {num den : List K} {z r : Cx K} (hD : evalC den z ≠ 0)
    (h : r * evalC den z = evalC num z) : respAt num den z = some r := by
  have h0 : normSq (evalC den z) ≠ 0 := fun h1 => hD ((normSq_eq_zero_iff _).mp h1)
  rw [respAt_eq_some_iff]
  refine ⟨h0, ?_⟩
  rw [← h, mul_assoc, mul_conj, smul_eq_C_mul, mul_comm r, ← mul_assoc, ← QuadraticAlgebra.C_mul,
    inv_mul_cancel₀ h0]
  simp [QuadraticAlgebra.C_one]

end ordered

/-! ### selection: filters, sorting, first minimum -/

section selection
variable [LinearOrder K]

theorem mem_realRoots (roots : List (Cx K)) (w : K) :
    w ∈ realRoots roots ↔ ∃ z ∈ roots, z.im = 0 ∧ z.re = w := by
  simp [realRoots, and_assoc]

theorem lexLe0_iff (r : Cx K) : lexLe0 r = true ↔ r.re < 0 ∨ (r.re = 0 ∧ r.im ≤ 0) := by
  simp [lexLe0]

theorem mem_sortByW {β : Type*} (l : List (K × β)) (a : K × β) : a ∈ sortByW l ↔ a ∈ l := by
  simp [sortByW]

theorem sortByW_perm {β : Type*} (l : List (K × β)) : (sortByW l).Perm l :=
  List.mergeSort_perm _ _

theorem sortByW_sorted {β : Type*} (l : List (K × β)) :
    (sortByW l).Pairwise fun a b => a.1 ≤ b.1 := by
  have := List.pairwise_mergeSort (le := fun (a b : K × β) => decide (a.1 ≤ b.1))
    (fun a b c hab hbc => by simp only [decide_eq_true_eq] at *; exact le_trans hab hbc)
    (fun a b => by simp only [Bool.or_eq_true, decide_eq_true_eq]; exact le_total _ _) l
  simpa [sortByW] using this

theorem mem_sortByAng {β : Type*} (l : List (Cx K × β)) (a : Cx K × β) : a ∈ sortByAng l ↔ a ∈ l := by
  simp [sortByAng]

theorem sortByAng_sorted {β : Type*} (l : List (Cx K × β)) :
    (sortByAng l).Pairwise fun a b => angKey a.1 ≤ angKey b.1 := by
  have := List.pairwise_mergeSort (le := fun (a b : Cx K × β) => decide (angKey a.1 ≤ angKey b.1))
    (fun a b c hab hbc => by simp only [decide_eq_true_eq] at *; exact le_trans hab hbc)
    (fun a b => by simp only [Bool.or_eq_true, decide_eq_true_eq]; exact le_total _ _) l
  simpa [sortByAng] using this

end selection

theorem argminBy_eq_none {α β : Type*} [LinearOrder β] (key : α → β) (l : List α) :
    argminBy key l = none ↔ l = [] := by
  cases l with
  | nil => simp [argminBy]
  | cons a l =>
    simp only [argminBy, reduceCtorEq, iff_false]
    cases argminBy key l with
    | none => simp
    | some b => by_cases h : key a ≤ key b <;> simp [h]

/-- `argminBy` returns a member with the smallest key; among equal keys the first one. -/
theorem argminBy_spec {α β : Type*} [LinearOrder β] (key : α → β) (l : List α) (a : α)
    (h : argminBy key l = some a) :
    ∃ l₁ l₂, l = l₁ ++ a :: l₂ ∧ (∀ b ∈ l₁, key a < key b) ∧ ∀ b ∈ l₂, key a ≤ key b := by
  induction l generalizing a with
  | nil => simp [argminBy] at h
  | cons c l ih =>
    simp only [argminBy] at h
    cases hm : argminBy key l with
    | none =>
      rw [hm] at h
      simp only [Option.some.injEq] at h
      subst h
      rw [argminBy_eq_none] at hm
      subst hm
      exact ⟨[], [], rfl, by simp, by simp⟩
    | some b =>
      rw [hm] at h
      obtain ⟨l₁, l₂, hl, h1, h2⟩ := ih b hm
      by_cases hk : key c ≤ key b
      · simp only [hk, if_true, Option.some.injEq] at h
        subst h
        refine ⟨[], l, rfl, by simp, ?_⟩
        intro x hx
        rw [hl] at hx
        rcases List.mem_append.mp hx with hx | hx
        · exact le_trans hk (le_of_lt (h1 x hx))
        · rcases List.mem_cons.mp hx with rfl | hx
          · exact hk
          · exact le_trans hk (h2 x hx)
      · simp only [hk, if_false, Option.some.injEq] at h
        subst h
        refine ⟨c :: l₁, l₂, by simp [hl], ?_, h2⟩
        intro x hx
        rcases List.mem_cons.mp hx with rfl | hx
        · exact lt_of_not_ge hk
        · exact h1 x hx

theorem argminBy_min {α β : Type*} [LinearOrder β] (key : α → β) (l : List α) (a : α)
    (h : argminBy key l = some a) : a ∈ l ∧ ∀ b ∈ l, key a ≤ key b := by
  obtain ⟨l₁, l₂, rfl, h1, h2⟩ := argminBy_spec key l a h
  refine ⟨by simp, ?_⟩
  intro b hb
  rcases List.mem_append.mp hb with hb | hb
  · exact le_of_lt (h1 b hb)
  · rcases List.mem_cons.mp hb with rfl | hb
    · exact le_refl _
    · exact h2 b hb

/-! ### bandwidth -/

section bw
variable [LinearOrder K] [IsStrictOrderedRing K]

/-- a sample whose gain is below the threshold. -/
def Dropped (num den : List K) (t2 : K) (z : Cx K) : Prop :=
  ∃ r, respAt num den z = some r ∧ normSq r < t2

/-- `firstDrop` finds the first dropped sample. -/
theorem firstDrop_some (num den : List K) (t2 : K) (grid : List (Cx K)) (k0 k : Nat)
    (h : firstDrop num den t2 grid k0 = some k) :
    ∃ i, k = k0 + i ∧ ∃ hi : i < grid.length, Dropped num den t2 grid[i] ∧
      ∀ j (hj : j < i), ¬ Dropped num den t2 (grid[j]'(lt_trans hj hi)) := by
  induction grid generalizing k0 with
  | nil => simp [firstDrop] at h
  | cons z zs ih =>
    simp only [firstDrop] at h
    cases hr : respAt num den z with
    | none =>
      rw [hr] at h
      obtain ⟨i, rfl, hi, hd, hn⟩ := ih (k0 + 1) h
      refine ⟨i + 1, by omega, by simpa using hi, by simpa using hd, ?_⟩
      intro j hj
      cases j with
      | zero => rintro ⟨r, h1, _⟩; simp [hr] at h1
      | succ j => simpa using hn j (by omega)
    | some r =>
      rw [hr] at h
      by_cases hlt : normSq r < t2
      · simp only [hlt, if_true, Option.some.injEq] at h
        exact ⟨0, by omega, by simp, ⟨r, by simpa using hr, hlt⟩, by simp⟩
      · simp only [hlt, if_false] at h
        obtain ⟨i, rfl, hi, hd, hn⟩ := ih (k0 + 1) h
        refine ⟨i + 1, by omega, by simpa using hi, by simpa using hd, ?_⟩
        intro j hj
        cases j with
        | zero =>
          rintro ⟨r', h1, h2⟩
          simp only [List.getElem_cons_zero, hr, Option.some.injEq] at h1
          subst h1; exact hlt h2
        | succ j => simpa using hn j (by omega)

theorem firstDrop_none (num den : List K) (t2 : K) (grid : List (Cx K)) (k0 : Nat)
    (h : firstDrop num den t2 grid k0 = none) : ∀ z ∈ grid, ¬ Dropped num den t2 z := by
  induction grid generalizing k0 with
  | nil => simp
  | cons z zs ih =>
    simp only [firstDrop] at h
    intro z' hz'
    cases hr : respAt num den z with
    | none =>
      rw [hr] at h
      rcases List.mem_cons.mp hz' with rfl | hz'
      · rintro ⟨r, h1, _⟩; simp [hr] at h1
      · exact ih _ h z' hz'
    | some r =>
      rw [hr] at h
      by_cases hlt : normSq r < t2
      · simp [hlt] at h
      · simp only [hlt, if_false] at h
        rcases List.mem_cons.mp hz' with rfl | hz'
        · rintro ⟨r', h1, h2⟩
          simp only [hr, Option.some.injEq] at h1
          subst h1; exact hlt h2
        · exact ih _ h z' hz'


theorem polyval_pneg (p : List K) (x : K) : polyval (pneg p) x = - polyval p x := by
  rw [polyval_eq_eval, toPoly_pneg, eval_neg, ← polyval_eq_eval]

theorem evalC_pneg (p : List K) (z : Cx K) : evalC (pneg p) z = - evalC p z := by
  rw [evalC_eq_aeval, toPoly_pneg, map_neg, ← evalC_eq_aeval]

theorem respAt_pneg (num den : List K) (z : Cx K) :
    respAt (pneg num) den z = (respAt num den z).map (- ·) := by
  unfold respAt
  split_ifs with h
  · rfl
  · simp [evalC_pneg]

theorem firstDrop_pneg (num den : List K) (t2 : K) (grid : List (Cx K)) (k0 : Nat) :
    firstDrop (pneg num) den t2 grid k0 = firstDrop num den t2 grid k0 := by
  induction grid generalizing k0 with
  | nil => rfl
  | cons z zs ih =>
    simp only [firstDrop, respAt_pneg]
    cases respAt num den z with
    | none => simpa using ih _
    | some r => simp [normSq_neg, ih]

/-- negation of a DC gain -/
def DcGain.neg : DcGain K → DcGain K
  | .finite g => .finite (-g)
  | .infinite => .infinite
  | .indeterminate => .indeterminate

theorem dcGain_pneg (num den : List K) (p0 : K) :
    dcGain (pneg num) den p0 = (dcGain num den p0).neg := by
  unfold dcGain
  by_cases hd : polyval den p0 = 0
  · by_cases hn : polyval num p0 = 0 <;> simp [hd, hn, polyval_pneg, DcGain.neg]
  · simp [hd, polyval_pneg, DcGain.neg, neg_div]

end bw

end CtrlVerif.Margins
