/-
`Resp`: "Y is the value of the transfer matrix of G at s", without inverses, and the basic
facts about it.
-/
import CtrlVerif.Model.SS
import Mathlib.LinearAlgebra.Matrix.NonsingularInverse
import Mathlib.Tactic.Abel
import Mathlib.Tactic.Ring

namespace CtrlVerif

open Matrix

variable {K : Type*} [Field K]
variable {σ σ₁ σ₂ ι ι₁ ι₂ o o₁ o₂ : Type*}
variable [Fintype σ] [DecidableEq σ] [Fintype σ₁] [DecidableEq σ₁] [Fintype σ₂] [DecidableEq σ₂]

namespace SS

/-- `Y` is the value of the transfer matrix `C (sI - A)⁻¹ B + D` of `G` at `s`:
there is a state response `X` with `(sI - A) X = B` and `Y = C X + D`. -/
def Resp (G : SS σ ι o K) (s : K) (Y : Matrix o ι K) : Prop :=
  ∃ X : Matrix σ ι K, (s • (1 : Matrix σ σ K) - G.A) * X = G.B ∧ Y = G.C * X + G.D

/-- cancel a unit (square) matrix on the left of rectangular matrices. -/
theorem mul_left_cancel_of_isUnit {M : Matrix σ σ K} (hu : IsUnit M) {X X' : Matrix σ ι K}
    (h : M * X = M * X') : X = X' := by
  obtain ⟨u, rfl⟩ := hu
  have h1 : (↑u⁻¹ : Matrix σ σ K) * ((u : Matrix σ σ K) * X) = X := by
    rw [← Matrix.mul_assoc, Units.inv_mul, Matrix.one_mul]
  have h2 : (↑u⁻¹ : Matrix σ σ K) * ((u : Matrix σ σ K) * X') = X' := by
    rw [← Matrix.mul_assoc, Units.inv_mul, Matrix.one_mul]
  rw [← h1, ← h2, h]

/-- where `s` is not a pole the response is unique … -/
theorem Resp.unique {G : SS σ ι o K} {s : K} {Y Y' : Matrix o ι K}
    (hu : IsUnit (s • (1 : Matrix σ σ K) - G.A)) (h : G.Resp s Y) (h' : G.Resp s Y') : Y = Y' := by
  obtain ⟨X, hX, rfl⟩ := h
  obtain ⟨X', hX', rfl⟩ := h'
  have : X = X' := by
    obtain ⟨u, hu⟩ := hu
    have h1 : (↑u⁻¹ : Matrix σ σ K) * ((s • (1 : Matrix σ σ K) - G.A) * X) = X := by
      rw [← Matrix.mul_assoc, ← hu, Units.inv_mul, Matrix.one_mul]
    have h2 : (↑u⁻¹ : Matrix σ σ K) * ((s • (1 : Matrix σ σ K) - G.A) * X') = X' := by
      rw [← Matrix.mul_assoc, ← hu, Units.inv_mul, Matrix.one_mul]
    rw [← h1, ← h2, hX, hX']
  rw [this]

/-- … and equals `C (sI - A)⁻¹ B + D`. -/
theorem Resp.of_isUnit (G : SS σ ι o K) (s : K) (hu : IsUnit (s • (1 : Matrix σ σ K) - G.A)) :
    G.Resp s (G.C * ((s • (1 : Matrix σ σ K) - G.A)⁻¹ * G.B) + G.D) := by
  refine ⟨(s • (1 : Matrix σ σ K) - G.A)⁻¹ * G.B, ?_, rfl⟩
  rw [← Matrix.mul_assoc, Matrix.mul_nonsing_inv _ ((Matrix.isUnit_iff_isUnit_det _).mp hu),
    Matrix.one_mul]

/-- a system without states responds with its direct term. -/
theorem Resp.static [IsEmpty σ] (G : SS σ ι o K) (s : K) : G.Resp s G.D := by
  refine ⟨0, ?_, ?_⟩
  · ext i; exact isEmptyElim i
  · simp

theorem Resp.static_iff [IsEmpty σ] (G : SS σ ι o K) (s : K) (Y : Matrix o ι K) :
    G.Resp s Y ↔ Y = G.D := by
  constructor
  · rintro ⟨X, _, rfl⟩
    have : G.C * X = 0 := by ext i j; simp [Matrix.mul_apply]
    rw [this, zero_add]
  · rintro rfl; exact Resp.static G s

/-- block form of `sI - blockmatrix`. -/
theorem smul_one_sub_fromBlocks (s : K) (A₁ : Matrix σ₁ σ₁ K) (A₁₂ : Matrix σ₁ σ₂ K)
    (A₂₁ : Matrix σ₂ σ₁ K) (A₂ : Matrix σ₂ σ₂ K) :
    s • (1 : Matrix (σ₁ ⊕ σ₂) (σ₁ ⊕ σ₂) K) - fromBlocks A₁ A₁₂ A₂₁ A₂
      = fromBlocks (s • 1 - A₁) (-A₁₂) (-A₂₁) (s • 1 - A₂) := by
  rw [← fromBlocks_one, fromBlocks_smul, sub_eq_add_neg, fromBlocks_neg, fromBlocks_add]
  simp [sub_eq_add_neg]

end SS

end CtrlVerif
