/-
`Resp`: "Y is the value of the transfer matrix of G at s", without inverses, and the basic
facts about it.
-/
import CtrlVerif.Model.SS
import Mathlib.LinearAlgebra.Matrix.NonsingularInverse
import Mathlib.Tactic.Abel
import Mathlib.Tactic.Ring

namespace CtrlVerif

open Matrix

variable {K : Type*} [Field K]
variable {σ σ' σ₁ σ₂ ι ι₁ ι₂ o o₁ o₂ κ μ : Type*}
variable [Fintype σ] [DecidableEq σ] [Fintype σ₁] [DecidableEq σ₁] [Fintype σ₂] [DecidableEq σ₂]

namespace SS

/-- `Y` is the value of the transfer matrix `C (sI - A)⁻¹ B + D` of `G` at `s`:
there is a state response `X` with `(sI - A) X = B` and `Y = C X + D`. -/
def Resp (G : SS σ ι o K) (s : K) (Y : Matrix o ι K) : Prop :=
  ∃ X : Matrix σ ι K, (s • (1 : Matrix σ σ K) - G.A) * X = G.B ∧ Y = G.C * X + G.D

/-- cancel a unit (square) matrix on the left of rectangular matrices. -/
theorem mul_left_cancel_of_isUnit {M : Matrix σ σ K} (hu : IsUnit M) {X X' : Matrix σ ι K}
    (h : M * X = M * X') : X = X' := by
  obtain ⟨u, rfl⟩ := hu
  have h1 : (↑u⁻¹ : Matrix σ σ K) * ((u : Matrix σ σ K) * X) = X := by
    rw [← Matrix.mul_assoc, Units.inv_mul, Matrix.one_mul]
  have h2 : (↑u⁻¹ : Matrix σ σ K) * ((u : Matrix σ σ K) * X') = X' := by
    rw [← Matrix.mul_assoc, Units.inv_mul, Matrix.one_mul]
  rw [← h1, ← h2, h]

/-- where `s` is not a pole the response is unique … -/
theorem Resp.unique {G : SS σ ι o K} {s : K} {Y Y' : Matrix o ι K}
    (hu : IsUnit (s • (1 : Matrix σ σ K) - G.A)) (h : G.Resp s Y) (h' : G.Resp s Y') : Y = Y' := by
  obtain ⟨X, hX, rfl⟩ := h
  obtain ⟨X', hX', rfl⟩ := h'
  have : X = X' := by
    obtain ⟨u, hu⟩ := hu
    have h1 : (↑u⁻¹ : Matrix σ σ K) * ((s • (1 : Matrix σ σ K) - G.A) * X) = X := by
      rw [← Matrix.mul_assoc, ← hu, Units.inv_mul, Matrix.one_mul]
    have h2 : (↑u⁻¹ : Matrix σ σ K) * ((s • (1 : Matrix σ σ K) - G.A) * X') = X' := by
      rw [← Matrix.mul_assoc, ← hu, Units.inv_mul, Matrix.one_mul]
    rw [← h1, ← h2, hX, hX']
  rw [this]

/-- … and equals `C (sI - A)⁻¹ B + D`. -/
theorem Resp.of_isUnit (G : SS σ ι o K) (s : K) (hu : IsUnit (s • (1 : Matrix σ σ K) - G.A)) :
    G.Resp s (G.C * ((s • (1 : Matrix σ σ K) - G.A)⁻¹ * G.B) + G.D) := by
  refine ⟨(s • (1 : Matrix σ σ K) - G.A)⁻¹ * G.B, ?_, rfl⟩
  rw [← Matrix.mul_assoc, Matrix.mul_nonsing_inv _ ((Matrix.isUnit_iff_isUnit_det _).mp hu),
    Matrix.one_mul]

/-- a system without states responds with its direct term. -/
theorem Resp.static [IsEmpty σ] (G : SS σ ι o K) (s : K) : G.Resp s G.D := by
  refine ⟨0, ?_, ?_⟩
  · ext i; exact isEmptyElim i
  · simp

theorem Resp.static_iff [IsEmpty σ] (G : SS σ ι o K) (s : K) (Y : Matrix o ι K) :
    G.Resp s Y ↔ Y = G.D := by
  constructor
  · rintro ⟨X, _, rfl⟩
    have : G.C * X = 0 := by ext i j; simp [Matrix.mul_apply]
    rw [this, zero_add]
  · rintro rfl; exact Resp.static G s

/-- block form of `sI - blockmatrix`. -/
theorem smul_one_sub_fromBlocks (s : K) (A₁ : Matrix σ₁ σ₁ K) (A₁₂ : Matrix σ₁ σ₂ K)
    (A₂₁ : Matrix σ₂ σ₁ K) (A₂ : Matrix σ₂ σ₂ K) :
    s • (1 : Matrix (σ₁ ⊕ σ₂) (σ₁ ⊕ σ₂) K) - fromBlocks A₁ A₁₂ A₂₁ A₂
      = fromBlocks (s • 1 - A₁) (-A₁₂) (-A₂₁) (s • 1 - A₂) := by
  rw [← fromBlocks_one, fromBlocks_smul, sub_eq_add_neg, fromBlocks_neg, fromBlocks_add]
  simp [sub_eq_add_neg]

/-! ### `lft`: closing an algebraic loop -/

section loop

variable {τ ω ν ζ : Type*} [Fintype τ] [DecidableEq τ] [Fintype ν] [DecidableEq ν]

/-- Closing the algebraic loop `F v = RT ξ + RH w` of a system `ξ' = A0 ξ + Bw w + Bv v`,
`z = C0 ξ + Dw w + Dv v` by `v = Finv (RT ξ + RH w)`: if `Ξ`, `V` solve the state and loop
equations at `s`, the closed system responds with `C0 Ξ + Dw + Dv V`. -/
theorem loop_resp (A0 : Matrix τ τ K) (Bw : Matrix τ ω K) (Bv : Matrix τ ν K)
    (C0 : Matrix ζ τ K) (Dw : Matrix ζ ω K) (Dv : Matrix ζ ν K)
    (RT : Matrix ν τ K) (RH : Matrix ν ω K) (F Finv : Matrix ν ν K) (hF : Finv * F = 1)
    (s : K) (Ξ : Matrix τ ω K) (V : Matrix ν ω K)
    (hΞ : (s • (1 : Matrix τ τ K) - A0) * Ξ = Bw + Bv * V)
    (hV : F * V = RT * Ξ + RH) :
    (⟨A0 + Bv * (Finv * RT), Bw + Bv * (Finv * RH), C0 + Dv * (Finv * RT),
      Dw + Dv * (Finv * RH)⟩ : SS τ ω ζ K).Resp s (C0 * Ξ + Dw + Dv * V) := by
  have hV' : V = Finv * (RT * Ξ) + Finv * RH := by
    have := congrArg (fun M => Finv * M) hV
    simp only [← Matrix.mul_assoc, hF, Matrix.one_mul] at this
    rw [this, Matrix.mul_add]
  refine ⟨Ξ, ?_, ?_⟩
  · show (s • (1 : Matrix τ τ K) - (A0 + Bv * (Finv * RT))) * Ξ = Bw + Bv * (Finv * RH)
    rw [sub_add_eq_sub_sub, Matrix.sub_mul, hΞ]
    nth_rewrite 1 [hV']
    simp only [Matrix.mul_add, Matrix.mul_assoc]
    abel
  · show C0 * Ξ + Dw + Dv * V = (C0 + Dv * (Finv * RT)) * Ξ + (Dw + Dv * (Finv * RH))
    nth_rewrite 1 [hV']
    simp only [Matrix.mul_add, Matrix.add_mul, Matrix.mul_assoc]
    abel

end loop

/-- the block equations behind a response with partitioned inputs and outputs. -/
theorem Resp.blocks {G : SS σ (ι₁ ⊕ ι₂) (o₁ ⊕ o₂) K} {s : K}
    {Y11 : Matrix o₁ ι₁ K} {Y12 : Matrix o₁ ι₂ K} {Y21 : Matrix o₂ ι₁ K} {Y22 : Matrix o₂ ι₂ K}
    (h : G.Resp s (fromBlocks Y11 Y12 Y21 Y22)) :
    ∃ (X1 : Matrix σ ι₁ K) (X2 : Matrix σ ι₂ K),
      (s • (1 : Matrix σ σ K) - G.A) * X1 = G.B.toCols₁ ∧
      (s • (1 : Matrix σ σ K) - G.A) * X2 = G.B.toCols₂ ∧
      Y11 = G.C.toRows₁ * X1 + G.D.toBlocks₁₁ ∧ Y12 = G.C.toRows₁ * X2 + G.D.toBlocks₁₂ ∧
      Y21 = G.C.toRows₂ * X1 + G.D.toBlocks₂₁ ∧ Y22 = G.C.toRows₂ * X2 + G.D.toBlocks₂₂ := by
  obtain ⟨X, hX, hY⟩ := h
  refine ⟨X.toCols₁, X.toCols₂, ?_, ?_, ?_⟩
  · rw [← hX]; ext i j; simp [Matrix.mul_apply]
  · rw [← hX]; ext i j; simp [Matrix.mul_apply]
  · rw [← fromCols_toCols X, ← fromRows_toRows G.C, fromRows_mul_fromCols,
      ← fromBlocks_toBlocks G.D, fromBlocks_add, fromBlocks_inj] at hY
    simpa using hY

section lft

variable [Fintype σ'] [DecidableEq σ']
variable [Fintype o₂] [DecidableEq o₂] [Fintype ι₂] [DecidableEq ι₂]

/-- one of `Ares`, `Bres`, `Cres`, `Dres` as `diag(P, Q) + [[0, M], [N, 0]] T`. -/
theorem lft_block_aux {a b c d : Type*} (P : Matrix a c K) (Q : Matrix b d K)
    (M : Matrix a ι₂ K) (N : Matrix b o₂ K) (T : Matrix (o₂ ⊕ ι₂) (c ⊕ d) K) :
    fromBlocks (P + M * T.toBlocks₂₁) (M * T.toBlocks₂₂) (N * T.toBlocks₁₁) (Q + N * T.toBlocks₁₂)
      = fromBlocks P 0 0 Q + fromBlocks 0 M N 0 * T := by
  conv_rhs => rw [← fromBlocks_toBlocks T]
  rw [fromBlocks_multiply, fromBlocks_add]
  simp

/-- the blocks the code builds, in compact form: `A0 + Bv T`, `Bw + Bv H`, `C0 + Dv T`,
`Dw + Dv H` with `T = F⁻¹ RT`, `H = F⁻¹ RH`. -/
theorem lft_eq_compact (G : SS σ (ι₁ ⊕ ι₂) (o₁ ⊕ o₂) K) (H : SS σ' (o₂ ⊕ κ) (ι₂ ⊕ μ) K)
    (Finv : Matrix (o₂ ⊕ ι₂) (o₂ ⊕ ι₂) K) :
    G.lft H Finv =
      ⟨fromBlocks G.A 0 0 H.A
          + fromBlocks 0 G.B.toCols₂ H.B.toCols₁ 0 * (Finv * fromBlocks G.C.toRows₂ 0 0 H.C.toRows₁),
        fromBlocks G.B.toCols₁ 0 0 H.B.toCols₂
          + fromBlocks 0 G.B.toCols₂ H.B.toCols₁ 0
            * (Finv * fromBlocks G.D.toBlocks₂₁ 0 0 H.D.toBlocks₁₂),
        fromBlocks G.C.toRows₁ 0 0 H.C.toRows₂
          + fromBlocks 0 G.D.toBlocks₁₂ H.D.toBlocks₂₁ 0
            * (Finv * fromBlocks G.C.toRows₂ 0 0 H.C.toRows₁),
        fromBlocks G.D.toBlocks₁₁ 0 0 H.D.toBlocks₂₂
          + fromBlocks 0 G.D.toBlocks₁₂ H.D.toBlocks₂₁ 0
            * (Finv * fromBlocks G.D.toBlocks₂₁ 0 0 H.D.toBlocks₁₂)⟩ := by
  simp only [SS.lft, Matrix.mul_fromCols, toCols₁_fromCols, toCols₂_fromCols]
  congr 1 <;> exact lft_block_aux _ _ _ _ _


/-- `diag(P, Q)` by rows, in terms of the projections `[I 0]`, `[0 I]` of the exogenous inputs. -/
theorem fromBlocks_diag_eq_fromRows {a b c d : Type*} [Fintype c] [DecidableEq c] [Fintype d]
    [DecidableEq d] (P : Matrix a c K) (Q : Matrix b d K) :
    fromBlocks P 0 0 Q
      = fromRows (P * fromCols (1 : Matrix c c K) (0 : Matrix c d K))
          (Q * fromCols (0 : Matrix d c K) (1 : Matrix d d K)) := by
  rw [Matrix.mul_fromCols, Matrix.mul_fromCols, ← fromRows_fromCols_eq_fromBlocks]
  simp

theorem fromRows_add_fromRows {a b c : Type*} (A A' : Matrix a c K) (B B' : Matrix b c K) :
    fromRows A B + fromRows A' B' = fromRows (A + A') (B + B') := by
  ext (i | i) j <;> simp

theorem fromCols_add_fromCols {a b c : Type*} (A A' : Matrix a b K) (B B' : Matrix a c K) :
    fromCols A B + fromCols A' B' = fromCols (A + A') (B + B') := by
  ext i (j | j) <;> simp

end lft

end SS

end CtrlVerif
