/-
Helper lemmas of `Props/C15GenKeys.lean` / `C15GenReduce.lean`: the keep / elim arguments of
`model_reduction` as Python values, and the integer-array primitives of `Model/PyCanon.lean`
(`atleast1d`, `arangeTake`, `unique`, `sortList`, `rangeFilter`) against the list functions of the
model (`Reduce.expandKey`, `normIdx`, `canonIdx`, `complIdx`, `pySlice`).  Free to change.
-/
import CtrlVerif.Lemmas.PyCanon
import CtrlVerif.Lemmas.PyVal
import Mathlib.Data.List.Sort

namespace CtrlVerif

namespace PyCanon

open Reduce

/-- an element of a keep / elim list as the Python object it stands for. -/
def atomPy : Atom → PyVal
  | .idx i => .int i
  | .name s => .str s

/-- a keep / elim argument of the model as the Python object it stands for: `None`, an `int`, a
`str`, a list of ints / strs, a `slice` object. -/
def toPy : Key → PyVal
  | .none => .none
  | .atom a => atomPy a
  | .list l => .list (l.map atomPy)
  | .slice a b c => .slice a b c

/-- offsets of the model (`Nat`) as the Python ints the code handles. -/
def castL (l : List Nat) : List Int := l.map fun (k : Nat) => (k : Int)

/-- the exceptions of argument validation (`IndexError`, `ValueError: … is not in list`,
`ValueError: can't provide both …`) identified: which of two invalid arguments is reported is the
only thing model and code disagree on. -/
def keyErr : Err → Err
  | .indexRange => .badArg
  | .unknownName => .badArg
  | e => e

/-- the `method` argument (a string) as the model's enumeration. -/
def methodOf (s : String) : Method :=
  if s = "matchdc" then .matchdc else if s = "truncate" then .truncate else .other

@[simp] theorem castL_length (l : List Nat) : (castL l).length = l.length := by simp [castL]
@[simp] theorem castL_nil : castL [] = [] := rfl

theorem castL_eq_nil (l : List Nat) : castL l = [] ↔ l = [] := by simp [castL]

/-! ### slices -/

/-- the model's own slice arithmetic is `slice.indices` + `range` of `Model/Index.lean`. -/
theorem pySlice_eq (n : Nat) (a b c : Option Int) :
    pySlice n a b c = (Index.sliceIndices a b c n).map
      (fun r => Index.rangeList r.1 r.2.2 (Index.rangeLen r.1 r.2.1 r.2.2)) := by
  cases c with
  | none =>
    unfold pySlice Index.sliceIndices
    cases a <;> cases b <;>
      simp [Index.stepOf, Index.startOf, Index.stopOf, Index.clamp, Index.lowerB, Index.upperB,
        Index.rangeList, Index.rangeLen, Except.map, pure, Except.pure, ← List.map_eq_flatMap]
  | some st =>
    unfold pySlice Index.sliceIndices
    simp only [Index.stepOf]
    by_cases h0 : st = 0
    · simp [h0, Except.map]
    · simp only [h0, ↓reduceIte, Except.map, pure, Except.pure]
      by_cases hpos : st > 0
      · have hneg : ¬ st < 0 := by omega
        have hpos' : 0 < st := hpos
        congr 1
        cases a <;> cases b <;>
          simp [Index.startOf, Index.stopOf, Index.clamp, Index.lowerB, Index.upperB, Index.rangeList,
            Index.rangeLen, hpos, hneg, hpos', ← List.map_eq_flatMap]
      · have hneg : st < 0 := by omega
        have hpos' : ¬ 0 < st := hpos
        congr 1
        cases a <;> cases b <;>
          simp [Index.startOf, Index.stopOf, Index.clamp, Index.lowerB, Index.upperB, Index.rangeList,
            Index.rangeLen, hpos, hneg, hpos', ← List.map_eq_flatMap]

/-! ### integer arrays -/

theorem canonIdx_pairwise (l : List Nat) : (canonIdx l).Pairwise (· ≤ ·) := Finset.pairwise_sort _ _

theorem canonIdx_eq_nil (l : List Nat) : canonIdx l = [] ↔ l = [] := by
  constructor
  · intro h
    cases l with
    | nil => rfl
    | cons a t =>
      have : a ∈ canonIdx (a :: t) := (canonIdx_mem _ a).mpr (List.mem_cons_self)
      rw [h] at this
      exact absurd this (List.not_mem_nil)
  · rintro rfl
    simp [canonIdx]

/-- `np.unique` of natural offsets is the model's `canonIdx`. -/
theorem unique_castL (l : List Nat) : unique (castL l) = castL (canonIdx l) := by
  refine List.Perm.eq_of_pairwise' (r := (· ≤ ·)) (Finset.pairwise_sort _ _) ?_ ?_
  · exact List.Pairwise.map _ (fun a b h => by exact_mod_cast h) (canonIdx_pairwise l)
  · refine (List.perm_ext_iff_of_nodup (Finset.sort_nodup _ _) ?_).mpr fun x => ?_
    · exact List.Nodup.map (fun a b h => by exact_mod_cast h) (canonIdx_nodup l)
    · simp [unique, castL, canonIdx]

/-- `np.sort(x).tolist()` of an ascending list is the list. -/
theorem sortList_castL_canonIdx (l : List Nat) : sortList (castL (canonIdx l)) = castL (canonIdx l) := by
  unfold sortList
  exact List.Pairwise.insertionSort_eq
    (List.Pairwise.map _ (fun a b h => by exact_mod_cast h) (canonIdx_pairwise l))

/-- `[i for i in range(n) if i not in l]` is the model's `complIdx`. -/
theorem rangeFilter_castL (n : Nat) (l : List Nat) :
    rangeFilter (n : Int) (castL l) = castL (complIdx n l) := by
  simp only [rangeFilter, PyArith.range, castL, complIdx, sub_zero, Int.toNat_natCast, zero_add, List.filter_map]
  congr 1
  apply List.filter_congr
  intro x _
  have : (∀ y ∈ l, ¬ y = x) ↔ x ∉ l := ⟨fun h hx => h x hx rfl, fun h y hy e => h (e ▸ hy)⟩
  simp [this]

/-- `np.arange(n)[idx]` is the model's `normIdx` on every entry. -/
theorem arangeTake_eq (n : Nat) (l : List Int) :
    arangeTake (n : Int) l = (l.mapM (normIdx n)).map castL := by
  unfold arangeTake
  induction l with
  | nil => rfl
  | cons a t ih =>
    rw [List.mapM_cons, List.mapM_cons, ih]
    by_cases h1 : 0 ≤ a ∧ a < (n : Int)
    · simp only [h1, and_self, ↓reduceIte, normIdx, bind, Except.bind, pure, Except.pure]
      cases t.mapM (normIdx n) with
      | error e => rfl
      | ok r =>
        simp only [Except.map, castL, List.map_cons]
        rw [Int.toNat_of_nonneg h1.1]
    · by_cases h2 : a < 0 ∧ -(n : Int) ≤ a
      · have h2' : -(n : Int) ≤ a ∧ a < 0 := ⟨h2.2, h2.1⟩
        simp only [h1, ↓reduceIte, h2, h2', and_self, normIdx, bind, Except.bind, pure, Except.pure]
        cases t.mapM (normIdx n) with
        | error e => rfl
        | ok r =>
          simp only [Except.map, castL, List.map_cons]
          rw [Int.toNat_of_nonneg (by omega)]
      · have h2' : ¬ (-(n : Int) ≤ a ∧ a < 0) := fun h => h2 ⟨h.2, h.1⟩
        simp only [h1, ↓reduceIte, h2, h2', normIdx, bind, Except.bind, Except.map]

/-! ### NumPy integer-array indexing of a matrix with the processed lists -/

theorem positions_castL (n : Nat) (l : List Nat) (h : ∀ x ∈ l, x < n) :
    positions n (castL l) = .ok (l.pmap (fun x hx => (⟨x, hx⟩ : Fin n)) h) := by
  unfold positions
  induction l with
  | nil => rfl
  | cons a t ih =>
    have ha : a < n := h a List.mem_cons_self
    have ht : ∀ x ∈ t, x < n := fun x hx => h x (List.mem_cons_of_mem _ hx)
    have hc : (0 : Int) ≤ (a : Int) ∧ (a : Int) < (n : Int) := ⟨by omega, by omega⟩
    simp only [castL, List.map_cons, List.mapM_cons, hc, and_self, ↓reduceDIte, bind, Except.bind,
      Int.toNat_natCast, List.pmap_cons]
    have := ih ht
    simp only [castL] at this
    rw [this]
    rfl

variable {K : Type} [Field K]

/-- `X[:, l]` for the in-range offsets `l` is the sub-matrix along the model's index function. -/
theorem takeCols_castL (r c : Nat) (M : Matrix (Fin r) (Fin c) K) (l : List Nat) (h : ∀ x ∈ l, x < c) :
    takeCols ⟨r, c, M⟩ (castL l) = .ok ⟨r, l.length, M.submatrix id (idxFn c l h)⟩ := by
  unfold takeCols
  simp only [positions_castL c l h, Except.map]
  congr 1
  refine PMat.ext' rfl (by simp) ?_
  ext i j
  simp [PMat.retype, idxFn, List.get_eq_getElem]

/-- `X[l, :]` for the in-range offsets `l`. -/
theorem takeRows_castL (r c : Nat) (M : Matrix (Fin r) (Fin c) K) (l : List Nat) (h : ∀ x ∈ l, x < r) :
    takeRows ⟨r, c, M⟩ (castL l) = .ok ⟨l.length, c, M.submatrix (idxFn r l h) id⟩ := by
  unfold takeRows
  simp only [positions_castL r l h, Except.map]
  congr 1
  refine PMat.ext' (by simp) rfl ?_
  ext i j
  simp [PMat.retype, idxFn, List.get_eq_getElem]

/-! ### names -/

/-- `labels.index(s)` on a list of strings is the model's `resolveAtom`. -/
theorem indexStr_labels (labels : List String) (s : String) :
    Py.indexStr (.list (labels.map .str)) (.str s) = resolveAtom labels (.name s) := by
  simp only [Py.indexStr, resolveAtom]
  have h : ∀ (p : PyVal → Bool) (_ : ∀ t, p (.str t) = (t == s)) (l : List String),
      List.findIdx? p (l.map PyVal.str)
        = if l.idxOf s < l.length then some (l.idxOf s) else none := by
    intro p hp l
    induction l with
    | nil => simp
    | cons a t ih =>
      simp only [List.map_cons, List.findIdx?_cons, List.idxOf_cons, List.length_cons, hp]
      by_cases hat : a = s
      · simp [hat]
      · have : (a == s) = false := by simp [hat]
        simp only [this, Bool.false_eq_true, ↓reduceIte, ih, cond_false]
        split <;> simp_all
  rw [h _ (fun t => rfl)]
  by_cases hlt : List.idxOf s labels < labels.length
  · simp [hlt, pure, Except.pure]
  · simp [hlt]

/-! ### lemmas of the equality proofs `Props/C15GenKeys.lean`, `C15GenReduce.lean` -/

theorem atleast1d_ints (l : List Int) : atleast1d (.list (l.map PyVal.int)) = .ok l := by
  simp only [atleast1d]
  induction l with
  | nil => rfl
  | cons a t ih =>
    rw [List.map_cons, List.mapM_cons, ih]
    rfl

theorem normIdx_error (n : Nat) (i : Int) (c : Err) (h : normIdx n i = .error c) : c = .indexRange := by
  unfold normIdx at h
  split at h
  · simp [pure, Except.pure] at h
  · split at h
    · simp [pure, Except.pure] at h
    · simpa using h.symm

theorem mapM_normIdx_error (n : Nat) (l : List Int) (c : Err) (h : l.mapM (normIdx n) = .error c) :
    c = .indexRange := by
  induction l with
  | nil => simp [pure, Except.pure] at h
  | cons a t ih =>
    rw [List.mapM_cons] at h
    cases ha : normIdx n a with
    | error e =>
      simp only [ha, bind, Except.bind, Except.error.injEq] at h
      subst h
      exact normIdx_error n a _ ha
    | ok y =>
      cases ht : t.mapM (normIdx n) with
      | error e =>
        simp only [ha, ht, bind, Except.bind, Except.error.injEq] at h
        subst h
        exact ih ht
      | ok ys => simp [ha, ht, bind, Except.bind, pure, Except.pure] at h

theorem mapM_resolveAtom_error (labels : List String) (l : List Atom) (c : Err)
    (h : l.mapM (resolveAtom labels) = .error c) : c = .unknownName := by
  induction l with
  | nil => simp [pure, Except.pure] at h
  | cons a t ih =>
    rw [List.mapM_cons] at h
    cases ha : resolveAtom labels a with
    | error e =>
      simp only [ha, bind, Except.bind, Except.error.injEq] at h
      subst h
      cases a with
      | idx i => simp [resolveAtom, pure, Except.pure] at ha
      | name s =>
        simp only [resolveAtom] at ha
        split at ha
        · simp [pure, Except.pure] at ha
        · simpa using ha.symm
    | ok y =>
      cases ht : t.mapM (resolveAtom labels) with
      | error e =>
        simp only [ha, ht, bind, Except.bind, Except.error.injEq] at h
        subst h
        exact ih ht
      | ok ys => simp [ha, ht, bind, Except.bind, pure, Except.pure] at h

/-- `_expand_key` fails only with "is not in list" or a zero slice step. -/
theorem expandKey_error (labels : List String) (k : Key) (c : Err) (h : expandKey labels k = .error c) :
    keyErr c = .badArg := by
  cases k with
  | none => simp [expandKey, pure, Except.pure] at h
  | atom a =>
    simp only [expandKey, bind, Except.bind] at h
    cases ha : resolveAtom labels a with
    | error e =>
      rw [ha] at h
      simp only [Except.error.injEq] at h
      subst h
      have := mapM_resolveAtom_error labels [a] e (by simp [List.mapM_cons, ha, bind, Except.bind])
      subst this
      rfl
    | ok i =>
      rw [ha] at h
      cases h
  | list l =>
    have := mapM_resolveAtom_error labels l c h
    subst this
    rfl
  | slice a b c' =>
    rw [expandKey, pySlice_eq] at h
    unfold Index.sliceIndices at h
    split at h
    · simp only [Except.map, Except.error.injEq] at h
      subst h
      rfl
    · simp [Except.map] at h

theorem canonIdx_eq_of_sorted (l r : List Nat) (hr : r.Pairwise (· < ·)) (hm : ∀ x, x ∈ r ↔ x ∈ l) :
    canonIdx l = r := by
  refine List.Perm.eq_of_pairwise' (r := (· ≤ ·)) (Finset.pairwise_sort _ _) (hr.imp Nat.le_of_lt) ?_
  refine (List.perm_ext_iff_of_nodup (Finset.sort_nodup _ _) (hr.imp Nat.ne_of_lt)).mpr fun x => ?_
  rw [hm x]
  simp [canonIdx]

variable [DecidableEq K]

/-- sequencing preserves "equal up to the tag of an argument error". -/
theorem mapError_bind_congr {α β γ : Type} (f : Err → Err) {x : Except Err α} {y : Except Err β} (c : β → α)
    (hxy : x.mapError f = (y.map c).mapError f) {g : α → Except Err γ} {h : β → Except Err γ}
    (hgh : ∀ b, y = .ok b → (g (c b)).mapError f = (h b).mapError f) :
    (x.bind g).mapError f = (y.bind h).mapError f := by
  cases x with
  | error a =>
    cases y with
    | error b => simpa [Except.map, Except.mapError, Except.bind] using hxy
    | ok b => simp [Except.map, Except.mapError] at hxy
  | ok a =>
    cases y with
    | error b => simp [Except.map, Except.mapError] at hxy
    | ok b =>
      simp only [Except.map, Except.mapError, Except.ok.injEq] at hxy
      subst hxy
      exact hgh b rfl

theorem isdtime_strict (dt : Dt) : PyCanon.isdtime dt true = DSS.isDiscreteStrict dt := by
  cases dt <;> rfl

theorem size_sq_pos (l : List Nat) (X : Matrix (Fin l.length) (Fin l.length) K) :
    PyCanon.size (⟨l.length, l.length, X⟩ : PMat K) > 0 ↔ ¬ l = [] := by
  simp only [PyCanon.size]
  cases l <;> simp

theorem size_sq_zero (l : List Nat) (X : Matrix (Fin l.length) (Fin l.length) K) :
    PyCanon.size (⟨l.length, l.length, X⟩ : PMat K) = 0 ↔ l = [] := by
  simp only [PyCanon.size]
  cases l <;> simp

theorem methodOf_matchdc (s : String) : methodOf s = .matchdc ↔ s = "matchdc" := by
  unfold methodOf
  by_cases h : s = "matchdc"
  · simp [h]
  · simp only [h, ↓reduceIte, iff_false]
    split <;> simp

theorem methodOf_truncate (s : String) : methodOf s = .truncate ↔ s = "truncate" := by
  unfold methodOf
  by_cases h : s = "matchdc"
  · subst h
    simp
  · simp only [h, ↓reduceIte]
    by_cases h2 : s = "truncate" <;> simp [h2]

/-- residualising no state at all is truncation. -/
theorem matchdc_nil_eq_truncate {n m p : Nat} (S : SS (Fin n) (Fin m) (Fin p) K) (keepS : List Nat)
    (hKS : ∀ x ∈ keepS, x < n) (hES : ∀ x ∈ ([] : List Nat), x < n) (X : Matrix (Fin 0) (Fin 0) K) :
    S.matchdc (idxFn n keepS hKS) (idxFn n [] hES) X = S.truncate (idxFn n keepS hKS) := by
  have hz : ∀ {a b : Type} [Fintype a] [Fintype b] (P : Matrix a (Fin 0) K) (Q : Matrix (Fin 0) b K),
      P * Q = 0 := by
    intro a b _ _ P Q
    ext i j
    simp [Matrix.mul_apply]
  simp only [SS.matchdc, SS.truncate]
  congr 1 <;> (simp only [List.length_nil]; rw [hz]; simp)

end PyCanon

end CtrlVerif
