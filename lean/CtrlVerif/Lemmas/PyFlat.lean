/-
Symbolic evaluation of the primitives of `Model/PyFlat.lean` on arrays / lists in constructor form
(`⟨r, c, M⟩`, `List.ofFn v`), loops that pass through stages, and the bridge `toPy` between the typed
structure `LinFlat n K` of the C20 model and the Python object `PyLinFlat K` the generated functions
take.  Helper lemmas of `Props/C20GenFlat*.lean`, free to change.
-/
import CtrlVerif.Model.PyFlat
import CtrlVerif.Lemmas.PyMat
import CtrlVerif.Lemmas.C20Cert

namespace CtrlVerif

open Matrix

variable {K : Type} [Field K]

namespace PyFlat

/-! ### loops -/

/-- a loop over a list that passes through the stages `P 0, P 1, …` ends in `P (length)`. -/
theorem foldlM_stages {σ α : Type} (f : σ → α → Except Err σ) :
    ∀ (l : List α) (P : Nat → σ),
      (∀ k (h : k < l.length), f (P k) l[k] = .ok (P (k + 1))) →
      List.foldlM f (P 0) l = .ok (P l.length)
  | [], _, _ => rfl
  | a :: l, P, h => by
    have h0 := h 0 (by simp)
    simp only [List.getElem_cons_zero] at h0
    rw [List.foldlM_cons, h0]
    have := foldlM_stages f l (fun k => P (k + 1)) (fun k hk => by
      have := h (k + 1) (by simpa using hk)
      simpa using this)
    simpa [bind, Except.bind] using this

/-- `for i in range(a, a + n)` passing through stages. -/
theorem foldlM_range_stages {σ : Type} (f : σ → Int → Except Err σ) (a : Int) (n : Nat) (P : Nat → σ)
    (h : ∀ k, k < n → f (P k) (a + (k : Int)) = .ok (P (k + 1))) :
    List.foldlM f (P 0) (PyArith.range a (a + (n : Int))) = .ok (P n) := by
  have hl : (PyArith.range a (a + (n : Int))).length = n := by simp [PyArith.range]
  have := foldlM_stages f (PyArith.range a (a + (n : Int))) P (fun k hk => by
    rw [hl] at hk
    have e : (PyArith.range a (a + (n : Int)))[k] = a + (k : Int) := by
      simp [PyArith.range]
    rw [e]
    exact h k hk)
  rwa [hl] at this

/-- `for k in range(0, n)` passing through stages. -/
theorem foldlM_range0_stages {σ : Type} (f : σ → Int → Except Err σ) (n : Nat) (P : Nat → σ)
    (h : ∀ k, k < n → f (P k) (k : Int) = .ok (P (k + 1))) :
    List.foldlM f (P 0) (PyArith.range 0 (n : Int)) = .ok (P n) := by
  have := foldlM_range_stages f 0 n P (fun k hk => by simpa using h k hk)
  simpa using this

theorem foldlM_flatMap {σ α β : Type} (f : σ → β → Except Err σ) (g : α → List β) :
    ∀ (l : List α) (s : σ),
      List.foldlM f s (l.flatMap g) = List.foldlM (fun s a => List.foldlM f s (g a)) s l
  | [], _ => rfl
  | a :: l, s => by
    rw [List.flatMap_cons, List.foldlM_append, List.foldlM_cons]
    cases h : List.foldlM f s (g a) with
    | error e => rfl
    | ok s' => exact foldlM_flatMap f g l s'

/-- `for j, k in itertools.product(range(N), range(l))` passing through the stages `P j k` (`k` fastest). -/
theorem foldlM_product_stages {σ : Type} (f : σ → Int × Int → Except Err σ) (N l : Nat) (P : Nat → Nat → σ)
    (hrow : ∀ J, J < N → P J l = P (J + 1) 0)
    (hstep : ∀ J k, J < N → k < l → f (P J k) ((J : Int), (k : Int)) = .ok (P J (k + 1))) :
    List.foldlM f (P 0 0) (PyFlat.product (PyArith.range 0 (N : Int)) (PyArith.range 0 (l : Int)))
      = .ok (P N 0) := by
  unfold PyFlat.product
  rw [foldlM_flatMap]
  apply foldlM_range0_stages (P := fun J => P J 0)
  intro J hJ
  rw [List.foldlM_map, ← hrow J hJ]
  exact foldlM_range0_stages (fun s y => f s ((J : Int), y)) l (fun k => P J k) (fun k hk => hstep J k hJ hk)

theorem mapM_ok_of_forall {α β : Type} (f : α → Except Err β) (g : α → β) (h : ∀ a, f a = .ok (g a)) :
    ∀ l : List α, List.mapM f l = .ok (l.map g)
  | [] => rfl
  | a :: l => by
    rw [List.mapM_cons, h a, mapM_ok_of_forall f g h l]
    rfl

/-! ### lists as 1-D arrays -/

theorem getItem_ofFn {α : Type} {m : Nat} (f : Fin m → α) (k : Nat) (hk : k < m) :
    PyArith.getItem (List.ofFn f) (k : Int) = .ok (f ⟨k, hk⟩) := by
  have h1 : (0 : Int) ≤ (k : Int) ∧ (k : Int) < ((List.ofFn f).length : Int) := by
    simp only [List.length_ofFn]; omega
  simp only [PyArith.getItem, PyArith.normIdx, h1, and_self, if_true, Int.toNat_natCast]
  simp [List.getElem?_ofFn, hk]

theorem getItem_ofFn_last {α : Type} {m : Nat} (f : Fin (m + 1) → α) :
    PyArith.getItem (List.ofFn f) (-1 : Int) = .ok (f (Fin.last m)) := by
  have h0 : ¬ ((0 : Int) ≤ -1 ∧ (-1 : Int) < ((List.ofFn f).length : Int)) := by omega
  have h1 : (-1 : Int) < 0 ∧ -(((List.ofFn f).length : Nat) : Int) ≤ -1 := by
    simp only [List.length_ofFn]; omega
  have e : ((-1 : Int) + ((List.ofFn f).length : Int)).toNat = m := by
    simp only [List.length_ofFn]; omega
  simp only [PyArith.getItem, PyArith.normIdx, h0, h1, and_self, if_true, if_false, e]
  simp only [List.getElem?_ofFn, Nat.lt_succ_self, dite_true]
  rfl

theorem setItem_ofFn {α : Type} {m : Nat} (f : Fin m → α) (k : Nat) (hk : k < m) (v : α) :
    PyArith.setItem (List.ofFn f) (k : Int) v = .ok (List.ofFn fun i => if i.val = k then v else f i) := by
  have h1 : (0 : Int) ≤ (k : Int) ∧ (k : Int) < ((List.ofFn f).length : Int) := by
    simp only [List.length_ofFn]; omega
  simp only [PyArith.setItem, PyArith.normIdx, h1, and_self, if_true, Int.toNat_natCast]
  congr 1
  apply List.ext_getElem
  · simp
  · intro i h1 h2
    simp only [List.length_ofFn] at h2
    simp only [List.getElem_set, List.getElem_ofFn]
    by_cases hik : k = i
    · subst hik; simp
    · have : ¬ i = k := fun h => hik h.symm
      simp [hik, this]

theorem getItem_singleton {α : Type} (a : α) : PyArith.getItem [a] (0 : Int) = .ok a := by
  simp [PyArith.getItem, PyArith.normIdx]

theorem setItem_singleton {α : Type} (a b : α) : PyArith.setItem [a] (0 : Int) b = .ok [b] := by
  simp [PyArith.setItem, PyArith.normIdx]

theorem getItem_cons_zero {α : Type} (a : α) (l : List α) : PyArith.getItem (a :: l) (0 : Int) = .ok a := by
  have h : (0 : Int) ≤ 0 ∧ (0 : Int) < (((a :: l).length : Nat) : Int) := by
    simp only [List.length_cons]; omega
  simp [PyArith.getItem, PyArith.normIdx, h]

theorem getItem_nil {α : Type} (i : Int) : PyArith.getItem ([] : List α) i = .error .indexRange := by
  have h0 : ¬ ((0 : Int) ≤ i ∧ i < (([] : List α).length : Int)) := by simp only [List.length_nil]; omega
  have h1 : ¬ (i < 0 ∧ -((([] : List α).length : Nat) : Int) ≤ i) := by simp only [List.length_nil]; omega
  simp only [PyArith.getItem, PyArith.normIdx, h0, h1, if_false]

theorem zeros1_natCast (m : Nat) : (zeros1 (m : Int) : Except Err (List K)) = .ok (List.ofFn fun _ : Fin m => 0) := by
  have h : ¬ ((m : Int) < 0) := by omega
  simp only [zeros1, h, if_false, Int.toNat_natCast]
  congr 1
  apply List.ext_getElem <;> simp

theorem zeros1_succ (m : Nat) :
    (zeros1 ((m : Int) + 1) : Except Err (List K)) = .ok (List.ofFn fun _ : Fin (m + 1) => 0) := by
  have := zeros1_natCast (K := K) (m + 1)
  simpa using this

/-! ### 2-D arrays from / against 1-D arrays -/

theorem colOf_ofFn {m : Nat} (x : Fin m → K) :
    colOf (List.ofFn x) = ⟨m, 1, Matrix.of fun i _ => x i⟩ := by
  refine PMat.ext' (by simp [colOf]) rfl ?_
  ext i j
  simp only [colOf, PMat.retype, Matrix.submatrix_apply, Matrix.of_apply, List.get_eq_getElem, List.getElem_ofFn]
  rfl

theorem rowOf_ofFn {m : Nat} (x : Fin m → K) :
    rowOf (List.ofFn x) = ⟨1, m, Matrix.of fun _ j => x j⟩ := by
  refine PMat.ext' rfl (by simp [rowOf]) ?_
  ext i j
  simp only [rowOf, PMat.retype, Matrix.submatrix_apply, Matrix.of_apply, List.get_eq_getElem, List.getElem_ofFn]
  rfl

theorem rowOf_singleton (u : K) : rowOf [u] = ⟨1, 1, Matrix.of fun _ _ => u⟩ := by
  refine PMat.ext' rfl rfl ?_
  ext i j
  simp [rowOf, PMat.retype]

theorem flipRows_mk {m : Nat} (M : Matrix (Fin m) (Fin m) K) :
    PyFlat.flipRows ⟨m, m, M⟩ = ⟨m, m, CtrlVerif.flipRows M⟩ := rfl

theorem row_mk_zero {r c : Nat} (M : Matrix (Fin r) (Fin c) K) (hr : 0 < r) :
    row ⟨r, c, M⟩ (0 : Int) = .ok (List.ofFn (M ⟨0, hr⟩)) := by
  have h : (0 : Int) ≤ 0 ∧ (0 : Int) < (r : Int) := by omega
  simp [row, PyArith.normIdx, h, hr]

theorem item_mk (M : Matrix (Fin 1) (Fin 1) K) : item ⟨1, 1, M⟩ = .ok (M 0 0) := by
  simp [item]

theorem item_shape {r c : Nat} (M : Matrix (Fin r) (Fin c) K) (h : ¬ (r = 1 ∧ c = 1)) :
    item ⟨r, c, M⟩ = .error .shape := by
  simp [item, h]

theorem matVec_ofFn {r c : Nat} (M : Matrix (Fin r) (Fin c) K) (v : Fin c → K) :
    matVec ⟨r, c, M⟩ (List.ofFn v) = .ok (List.ofFn (M *ᵥ v)) := by
  have h : (List.ofFn v).length = c := by simp
  simp only [matVec, h, dite_true]
  congr 3
  funext j
  simp

theorem matVec_shape {r c : Nat} (M : Matrix (Fin r) (Fin c) K) (v : List K) (h : v.length ≠ c) :
    matVec ⟨r, c, M⟩ v = .error .shape := by
  simp [matVec, h]

theorem dot_ofFn {m : Nat} (u v : Fin m → K) : dot (List.ofFn u) (List.ofFn v) = .ok (u ⬝ᵥ v) := by
  have h : (List.ofFn v).length = (List.ofFn u).length := by simp
  simp only [dot, h, dite_true]
  congr 1
  have e : ∀ (a b : Nat) (hab : a = b) (f g : Fin b → K),
      ((fun i : Fin a => f (Fin.cast hab i)) ⬝ᵥ fun i : Fin a => g (Fin.cast hab i)) = f ⬝ᵥ g := by
    intro a b hab f g; subst hab; rfl
  rw [← e (List.ofFn u).length m (by simp) u v]
  congr 1 <;> funext i <;> simp only [List.get_eq_getElem, List.getElem_ofFn] <;> rfl

theorem reshapeVec_ofFn {m : Nat} (x : Fin m → K) : reshapeVec (List.ofFn x) m = .ok (List.ofFn x) := by
  simp [reshapeVec]

theorem reshapeNum_one (a : K) : reshapeNum a 1 = .ok [a] := by simp [reshapeNum]

/-- `z[0:-1]` of an array with `m + 1` entries: the first `m`. -/
theorem sliceList_init {α : Type} {m : Nat} (z : Fin (m + 1) → α) :
    sliceList (List.ofFn z) (some 0) (some (-1)) = List.ofFn fun i : Fin m => z i.castSucc := by
  have e1 : PMat.sliceBound (List.ofFn z).length 0 (some (0 : Int)) = 0 := by
    simp [PMat.sliceBound]
  have e2 : PMat.sliceBound (List.ofFn z).length (List.ofFn z).length (some (-1 : Int)) = m := by
    simp only [PMat.sliceBound, List.length_ofFn]
    rw [if_pos (by omega)]
    omega
  simp only [sliceList, e1, e2, List.drop_zero, Nat.sub_zero]
  apply List.ext_getElem
  · simp
  · intro i h1 h2
    simp only [List.getElem_take, List.getElem_ofFn]
    rfl

theorem sliceList_init_length {α : Type} (xs : List α) :
    (sliceList xs (some 0) (some (-1))).length = xs.length - 1 := by
  have e1 : PMat.sliceBound xs.length 0 (some (0 : Int)) = 0 := by simp [PMat.sliceBound]
  have e2 : PMat.sliceBound xs.length xs.length (some (-1 : Int)) = xs.length - 1 := by
    simp only [PMat.sliceBound]
    rw [if_pos (by omega)]
    omega
  simp only [sliceList, e1, e2, List.drop_zero, Nat.sub_zero, List.length_take]
  omega

theorem range_cons (a b : Int) (h : a < b) : PyArith.range a b = a :: PyArith.range (a + 1) b := by
  have e : (b - a).toNat = (b - (a + 1)).toNat + 1 := by omega
  simp only [PyArith.range, e, List.range_succ_eq_map, List.map_cons, List.map_map]
  congr 1
  · simp
  · apply List.map_congr_left
    intro i _
    simp only [Function.comp_apply]
    push_cast
    ring

theorem foldlM_cons_error {σ α : Type} (f : σ → α → Except Err σ) (s : σ) (a : α) (l : List α) (e : Err)
    (h : f s a = .error e) : List.foldlM f s (a :: l) = .error e := by
  rw [List.foldlM_cons, h]
  rfl

end PyFlat

/-! ### the Python object a `LinFlat` stands for -/

variable [DecidableEq K]

namespace PyFlat

/-- a vector as a `1 × n` array. -/
def rowMat {n : Nat} (v : Fin n → K) : Matrix (Fin 1) (Fin n) K := Matrix.of fun _ j => v j

end PyFlat

/-- the `LinearFlatSystem` object with the data of `L` (and the output equation `C`, `D`, the
timebase `dt` of the underlying `StateSpace` object, which the flat structure does not use). -/
def LinFlat.toPy {n : Nat} (L : LinFlat n K) (C : Matrix (Fin 1) (Fin n) K) (D : Matrix (Fin 1) (Fin 1) K)
    (dt : Dt) : PyLinFlat K where
  sys := ⟨n, 1, 1, ⟨L.A, colMat L.b, C, D⟩, dt⟩
  F := List.ofFn L.F
  T := ⟨n, n, L.T⟩
  Tinv := ⟨n, n, L.Tinv⟩
  Cf := ⟨1, n, PyFlat.rowMat L.Cf⟩

namespace PyFlat

theorem rowMat_mul_col {n : Nat} (v w : Fin n → K) :
    (rowMat v * (Matrix.of fun i (_ : Fin 1) => w i)) 0 0 = v ⬝ᵥ w := by
  simp [rowMat, Matrix.mul_apply, dotProduct]

theorem rowMat_mul {n : Nat} (v : Fin n → K) (A : Matrix (Fin n) (Fin n) K) :
    rowMat v * A = rowMat (v ᵥ* A) := by
  ext i j
  simp [rowMat, Matrix.mul_apply, vecMul, dotProduct]

theorem mul_col_add {n : Nat} (A : Matrix (Fin n) (Fin n) K) (b x : Fin n → K) (u : K) :
    A * (Matrix.of fun i (_ : Fin 1) => x i) + colMat b * (Matrix.of fun (_ : Fin 1) (_ : Fin 1) => u)
      = Matrix.of fun i (_ : Fin 1) => (A *ᵥ x + u • b) i := by
  ext i j
  simp [colMat, Matrix.mul_apply, mulVec, dotProduct, mul_comm]

end PyFlat

end CtrlVerif
