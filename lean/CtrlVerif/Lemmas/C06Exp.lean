/-
Continuous time by theorems over `ℝ` (C06-exp): the matrix exponential `NormedSpace.exp` on
`Matrix _ _ ℝ`, the linear ODE `x' = A x + B u(t)`, and the two hold schemes of the code.

* `SolvesOn A B u x a b`    `x` is a solution of `x' = A x + B u(t)` on `[a, b]` (continuous, right
                            derivative at every `t ∈ [a, b)`); `SolvesOn.unique` (Grönwall),
                            `SolvesOn.union`, `solvesOn_grid_iff`;
* `augM`, `augTraj`, `zohSol`  zero-order hold: `exp(t [[A, B], [0, 0]]) (x0, u)`;
* `fohTraj`, `fohSol`       first-order hold: `exp(τ M) (x0, u0, u1 - u0)` for the code's
                            `M = fohM A B dt`, time scaled by `dt`;
* `zoh_step`, `foh_step`    one interval: ANY solution arrives at the discrete update;
* `grid`, `pwlInput`, `holdInput`, `fohStates_samples`, `dStates_samples`, `exists_glue`,
  `exists_foh_solution`, `exists_zoh_solution`  sampling on `t0 + k dt`, existence;
* `hasSum_linear_exp`, `hasSum_fohAd / fohMid / fohBd1`, `hasSum_zoh11 / 12`, `tendsto_expSum`,
  `exp_eq_expSum_of_pow_eq_zero`, `exp_fohM_nilpotent`  the blocks of the exponential as limits of
  the block series of `C06.foh_blocks_partial`; finite sums for nilpotent `A`.

The norm on matrices (`Matrix.Norms.Operator`) is used inside proofs only: `NormedSpace.exp`,
`HasSum` and `HasDerivAt` depend on the topology alone, so no statement mentions a matrix norm.
-/
import CtrlVerif.Lemmas.TimeResp
import CtrlVerif.Lemmas.Discretize
import Mathlib.Analysis.Normed.Algebra.MatrixExponential
import Mathlib.Analysis.SpecialFunctions.Exponential
import Mathlib.Analysis.ODE.ExistUnique
import Mathlib.Topology.Algebra.Module.FiniteDimension
import Mathlib.LinearAlgebra.Matrix.ToLin
import Mathlib.Analysis.Calculus.MeanValue

namespace CtrlVerif.ExpODE

open Matrix NormedSpace CtrlVerif.TimeResp Set

variable {σ ι o τ : Type*} [Fintype σ] [Fintype ι] [Fintype τ]

/-! ### Linear images of differentiable curves and convergent series -/

theorem hasDerivAt_linear_comp {E F : Type*} [NormedAddCommGroup E] [NormedSpace ℝ E]
    [FiniteDimensional ℝ E] [NormedAddCommGroup F] [NormedSpace ℝ F]
    (L : E →ₗ[ℝ] F) {f : ℝ → E} {f' : E} {t : ℝ} (h : HasDerivAt f f' t) :
    HasDerivAt (fun s => L (f s)) (L f') t :=
  (LinearMap.toContinuousLinearMap L).hasFDerivAt.comp_hasDerivAt t h

section Normed
open scoped Matrix.Norms.Operator
variable [DecidableEq τ]

/-- `d/dt exp(tX) v = X exp(tX) v`. -/
theorem hasDerivAt_exp_mulVec (X : Matrix τ τ ℝ) (v : τ → ℝ) (t : ℝ) :
    HasDerivAt (fun s : ℝ => exp (s • X) *ᵥ v) (X *ᵥ (exp (t • X) *ᵥ v)) t := by
  have h := hasDerivAt_exp_smul_const' X t
  have := hasDerivAt_linear_comp ((Matrix.mulVecBilin ℝ ℝ).flip v) h
  simp only [LinearMap.flip_apply, Matrix.mulVecBilin_apply, ← Matrix.mulVec_mulVec] at this
  exact this

/-- the exponential series, seen through any linear map. -/
theorem hasSum_linear_exp {F : Type*} [AddCommGroup F] [Module ℝ F] [TopologicalSpace F]
    [IsTopologicalAddGroup F] [ContinuousSMul ℝ F]
    (L : Matrix τ τ ℝ →ₗ[ℝ] F) (X : Matrix τ τ ℝ) :
    HasSum (fun k : ℕ => ((k.factorial : ℝ)⁻¹) • L (X ^ k)) (L (exp X)) := by
  have h := exp_series_hasSum_exp' (𝕂 := ℝ) X
  have := h.map L.toAddMonoidHom (LinearMap.continuous_of_finiteDimensional L)
  simp only [Function.comp_def, LinearMap.toAddMonoidHom_coe, map_smul] at this
  exact this

end Normed


/-! ### The linear ODE `x' = A x + B u(t)` -/

/-- `x` is a solution of `x' = A x + B u(t)` on `[a, b]`: continuous on `[a, b]`, and at every
`t ∈ [a, b)` it has the right derivative `A x(t) + B u(t)`.  (Right derivatives, so that inputs with
jumps or kinks at the grid points are covered; a function that is differentiable on a neighbourhood
of `[a, b]` with that derivative is a solution in this sense, `solvesOn_of_hasDerivAt`.) -/
def SolvesOn (A : Matrix σ σ ℝ) (B : Matrix σ ι ℝ) (u : ℝ → ι → ℝ) (x : ℝ → σ → ℝ) (a b : ℝ) : Prop :=
  ContinuousOn x (Icc a b) ∧
    ∀ t ∈ Ico a b, HasDerivWithinAt x (A *ᵥ x t + B *ᵥ u t) (Ici t) t

theorem solvesOn_of_hasDerivAt {A : Matrix σ σ ℝ} {B : Matrix σ ι ℝ} {u : ℝ → ι → ℝ}
    {x : ℝ → σ → ℝ} {a b : ℝ} (h : ∀ t, HasDerivAt x (A *ᵥ x t + B *ᵥ u t) t) :
    SolvesOn A B u x a b :=
  ⟨fun t _ => (h t).continuousAt.continuousWithinAt, fun t _ => (h t).hasDerivWithinAt⟩

theorem SolvesOn.mono {A : Matrix σ σ ℝ} {B : Matrix σ ι ℝ} {u : ℝ → ι → ℝ}
    {x : ℝ → σ → ℝ} {a b a' b' : ℝ} (h : SolvesOn A B u x a b) (ha : a ≤ a') (hb : b' ≤ b) :
    SolvesOn A B u x a' b' :=
  ⟨h.1.mono (Icc_subset_Icc ha hb), fun t ht => h.2 t ⟨ha.trans ht.1, ht.2.trans_le hb⟩⟩

/-- only the values of the input on `[a, b)` matter. -/
theorem SolvesOn.congr_input {A : Matrix σ σ ℝ} {B : Matrix σ ι ℝ} {u u' : ℝ → ι → ℝ}
    {x : ℝ → σ → ℝ} {a b : ℝ} (h : SolvesOn A B u x a b) (hu : ∀ t ∈ Ico a b, u t = u' t) :
    SolvesOn A B u' x a b :=
  ⟨h.1, fun t ht => by rw [← hu t ht]; exact h.2 t ht⟩

/-- only the values of the trajectory on `[a, b]` matter. -/
theorem SolvesOn.congr {A : Matrix σ σ ℝ} {B : Matrix σ ι ℝ} {u : ℝ → ι → ℝ}
    {x y : ℝ → σ → ℝ} {a b : ℝ} (h : SolvesOn A B u x a b) (hxy : EqOn y x (Icc a b)) :
    SolvesOn A B u y a b := by
  refine ⟨h.1.congr hxy, fun t ht => ?_⟩
  have hmem : t ∈ Icc a b := ⟨ht.1, ht.2.le⟩
  rw [hxy hmem]
  have h1 := (h.2 t ht).mono (inter_subset_left : Ici t ∩ Iio b ⊆ Ici t)
  have h2 : HasDerivWithinAt y (A *ᵥ x t + B *ᵥ u t) (Ici t ∩ Iio b) t :=
    h1.congr (fun s hs => hxy ⟨ht.1.trans hs.1, hs.2.le⟩) (hxy hmem)
  exact (hasDerivWithinAt_inter (Iio_mem_nhds ht.2)).1 h2

/-- **Uniqueness**: two solutions of `x' = A x + B u(t)` on `[a, b]` with the same input and the
same initial value agree on `[a, b]` (Grönwall, `ODE_solution_unique`). -/
theorem SolvesOn.unique {A : Matrix σ σ ℝ} {B : Matrix σ ι ℝ} {u : ℝ → ι → ℝ}
    {x y : ℝ → σ → ℝ} {a b : ℝ} (hx : SolvesOn A B u x a b) (hy : SolvesOn A B u y a b)
    (h0 : x a = y a) : EqOn x y (Icc a b) := by
  let L : (σ → ℝ) →L[ℝ] (σ → ℝ) := LinearMap.toContinuousLinearMap (Matrix.mulVecLin A)
  have hv : ∀ t, LipschitzWith ‖L‖₊ (fun z : σ → ℝ => A *ᵥ z + B *ᵥ u t) := fun t =>
    LipschitzWith.of_dist_le_mul fun z w => by
      rw [dist_add_right, dist_eq_norm, dist_eq_norm, ← Matrix.mulVec_sub]
      exact L.le_opNorm (z - w)
  exact ODE_solution_unique (v := fun t z => A *ᵥ z + B *ᵥ u t) hv hx.1 hx.2 hy.1 hy.2 h0


/-! ### Restriction to a block of coordinates -/

theorem hasDerivAt_comp_inl {α β : Type*} [Fintype α] [Fintype β] {w : ℝ → α ⊕ β → ℝ}
    {w' : α ⊕ β → ℝ} {t : ℝ} (h : HasDerivAt w w' t) :
    HasDerivAt (fun s => w s ∘ Sum.inl) (w' ∘ Sum.inl) t :=
  hasDerivAt_linear_comp (LinearMap.funLeft ℝ ℝ Sum.inl) h

theorem hasDerivAt_comp_inr {α β : Type*} [Fintype α] [Fintype β] {w : ℝ → α ⊕ β → ℝ}
    {w' : α ⊕ β → ℝ} {t : ℝ} (h : HasDerivAt w w' t) :
    HasDerivAt (fun s => w s ∘ Sum.inr) (w' ∘ Sum.inr) t :=
  hasDerivAt_linear_comp (LinearMap.funLeft ℝ ℝ Sum.inr) h

/-- a curve with zero derivative everywhere is constant. -/
theorem const_of_hasDerivAt_zero {F : Type*} [NormedAddCommGroup F] [NormedSpace ℝ F]
    {g : ℝ → F} (h : ∀ t, HasDerivAt g 0 t) (s t : ℝ) : g s = g t :=
  is_const_of_deriv_eq_zero (fun t => (h t).differentiableAt) (fun t => (h t).deriv) s t

/-- a curve with constant derivative `c` is `g 0 + t c`. -/
theorem affine_of_hasDerivAt_const {F : Type*} [NormedAddCommGroup F] [NormedSpace ℝ F]
    {g : ℝ → F} {c : F} (h : ∀ t, HasDerivAt g c t) (t : ℝ) : g t = g 0 + t • c := by
  have h0 : ∀ s, HasDerivAt (fun s => g s - s • c) 0 s := fun s => by
    have := (h s).sub ((hasDerivAt_id s).smul_const c)
    simp only [one_smul, sub_self] at this
    exact this
  have := const_of_hasDerivAt_zero h0 t 0
  simp only [zero_smul, sub_zero] at this
  rw [← this]; abel

/-! ### Zero-order hold: the augmented system `[[A, B], [0, 0]]` -/

variable [DecidableEq σ] [DecidableEq ι]

/-- the matrix `scipy.signal.cont2discrete(…, 'zoh')` exponentiates (times `h`). -/
def augM (A : Matrix σ σ ℝ) (B : Matrix σ ι ℝ) : Matrix (σ ⊕ ι) (σ ⊕ ι) ℝ := fromBlocks A B 0 0

/-- `z(s) = exp(s Maug) (x0, u)`. -/
noncomputable def augTraj (A : Matrix σ σ ℝ) (B : Matrix σ ι ℝ) (x0 : σ → ℝ) (u : ι → ℝ) (s : ℝ) :
    σ ⊕ ι → ℝ :=
  exp (s • augM A B) *ᵥ Sum.elim x0 u

theorem augM_mulVec (A : Matrix σ σ ℝ) (B : Matrix σ ι ℝ) (w : σ ⊕ ι → ℝ) :
    augM A B *ᵥ w = Sum.elim (A *ᵥ (w ∘ Sum.inl) + B *ᵥ (w ∘ Sum.inr)) 0 := by
  rw [augM, fromBlocks_mulVec]; simp

theorem augTraj_hasDerivAt (A : Matrix σ σ ℝ) (B : Matrix σ ι ℝ) (x0 : σ → ℝ) (u : ι → ℝ) (t : ℝ) :
    HasDerivAt (augTraj A B x0 u) (augM A B *ᵥ augTraj A B x0 u t) t :=
  hasDerivAt_exp_mulVec _ _ t

theorem augTraj_zero (A : Matrix σ σ ℝ) (B : Matrix σ ι ℝ) (x0 : σ → ℝ) (u : ι → ℝ) :
    augTraj A B x0 u 0 = Sum.elim x0 u := by
  simp [augTraj, NormedSpace.exp_zero]

theorem augTraj_inr (A : Matrix σ σ ℝ) (B : Matrix σ ι ℝ) (x0 : σ → ℝ) (u : ι → ℝ) (t : ℝ) :
    augTraj A B x0 u t ∘ Sum.inr = u := by
  have h : ∀ s, HasDerivAt (fun s => augTraj A B x0 u s ∘ Sum.inr) 0 s := fun s => by
    have := hasDerivAt_comp_inr (augTraj_hasDerivAt A B x0 u s)
    rw [augM_mulVec] at this
    simpa using this
  have := const_of_hasDerivAt_zero h t 0
  simp only [augTraj_zero] at this
  rw [this]; rfl

theorem augTraj_inl_hasDerivAt (A : Matrix σ σ ℝ) (B : Matrix σ ι ℝ) (x0 : σ → ℝ) (u : ι → ℝ)
    (t : ℝ) :
    HasDerivAt (fun s => augTraj A B x0 u s ∘ Sum.inl)
      (A *ᵥ (augTraj A B x0 u t ∘ Sum.inl) + B *ᵥ u) t := by
  have := hasDerivAt_comp_inl (augTraj_hasDerivAt A B x0 u t)
  rw [augM_mulVec, augTraj_inr] at this
  simpa using this


theorem mulVec_elim_inl {α β γ : Type*} [Fintype α] [Fintype β]
    (E : Matrix (γ ⊕ β) (α ⊕ β) ℝ) (x : α → ℝ) (u : β → ℝ) :
    (E *ᵥ Sum.elim x u) ∘ Sum.inl = E.toBlocks₁₁ *ᵥ x + E.toBlocks₁₂ *ᵥ u := by
  conv_lhs => rw [← fromBlocks_toBlocks E, fromBlocks_mulVec]
  rfl

/-- the solution of `x' = A x + B u` (constant `u`) with `x(a) = xa`. -/
noncomputable def zohSol (A : Matrix σ σ ℝ) (B : Matrix σ ι ℝ) (a : ℝ) (xa : σ → ℝ) (u : ι → ℝ)
    (t : ℝ) : σ → ℝ :=
  augTraj A B xa u (t - a) ∘ Sum.inl

theorem zohSol_hasDerivAt (A : Matrix σ σ ℝ) (B : Matrix σ ι ℝ) (a : ℝ) (xa : σ → ℝ) (u : ι → ℝ)
    (t : ℝ) : HasDerivAt (zohSol A B a xa u) (A *ᵥ zohSol A B a xa u t + B *ᵥ u) t := by
  have h1 := augTraj_inl_hasDerivAt A B xa u (t - a)
  have h2 : HasDerivAt (fun s : ℝ => s - a) 1 t := (hasDerivAt_id t).sub_const a
  have := HasDerivAt.scomp t h1 h2
  rw [one_smul] at this
  exact this

theorem zohSol_init (A : Matrix σ σ ℝ) (B : Matrix σ ι ℝ) (a : ℝ) (xa : σ → ℝ) (u : ι → ℝ) :
    zohSol A B a xa u a = xa := by
  simp [zohSol, augTraj_zero]

theorem zohSol_end (A : Matrix σ σ ℝ) (B : Matrix σ ι ℝ) (a h : ℝ) (xa : σ → ℝ) (u : ι → ℝ) :
    zohSol A B a xa u (a + h) =
      (exp (h • augM A B)).toBlocks₁₁ *ᵥ xa + (exp (h • augM A B)).toBlocks₁₂ *ᵥ u := by
  simp only [zohSol, augTraj, add_sub_cancel_left]
  exact mulVec_elim_inl _ _ _

theorem zohSol_solvesOn (A : Matrix σ σ ℝ) (B : Matrix σ ι ℝ) (a b c : ℝ) (xa : σ → ℝ) (u : ι → ℝ) :
    SolvesOn A B (fun _ => u) (zohSol A B a xa u) b c :=
  solvesOn_of_hasDerivAt (zohSol_hasDerivAt A B a xa u)

/-- one sampling interval under a held input: any solution arrives at `Ad x(a) + Bd u`. -/
theorem zoh_step (A : Matrix σ σ ℝ) (B : Matrix σ ι ℝ) (a h : ℝ) (u : ι → ℝ)
    (uf : ℝ → ι → ℝ) (huf : ∀ t ∈ Ico a (a + h), uf t = u) (x : ℝ → σ → ℝ)
    (hx : SolvesOn A B uf x a (a + h)) (hh : 0 ≤ h) :
    x (a + h) =
      (exp (h • augM A B)).toBlocks₁₁ *ᵥ x a + (exp (h • augM A B)).toBlocks₁₂ *ᵥ u := by
  have h1 : SolvesOn A B (fun _ => u) x a (a + h) := hx.congr_input huf
  have h2 := h1.unique (zohSol_solvesOn A B a a (a + h) (x a) u) (zohSol_init A B a (x a) u).symm
  rw [h2 ⟨by linarith, le_rfl⟩, zohSol_end]


/-! ### First-order hold: the block matrix of `forced_response` -/

/-- `w(τ) = exp(τ M) (xa, u0, u1 - u0)` for the code's `M = fohM A B dt`. -/
noncomputable def fohTraj (A : Matrix σ σ ℝ) (B : Matrix σ ι ℝ) (dt : ℝ) (xa : σ → ℝ)
    (u0 u1 : ι → ℝ) (s : ℝ) : (σ ⊕ ι) ⊕ ι → ℝ :=
  exp (s • fohM A B dt) *ᵥ Sum.elim (Sum.elim xa u0) (u1 - u0)

theorem fohM_mulVec (A : Matrix σ σ ℝ) (B : Matrix σ ι ℝ) (dt : ℝ) (w : (σ ⊕ ι) ⊕ ι → ℝ) :
    fohM A B dt *ᵥ w =
      Sum.elim (Sum.elim (dt • (A *ᵥ ((w ∘ Sum.inl) ∘ Sum.inl) + B *ᵥ ((w ∘ Sum.inl) ∘ Sum.inr)))
        (w ∘ Sum.inr)) 0 := by
  rw [fohM, fromBlocks_mulVec, fromBlocks_mulVec, fromRows_mulVec]
  ext ((i | j) | k) <;> simp [Matrix.smul_mulVec]

theorem fohTraj_hasDerivAt (A : Matrix σ σ ℝ) (B : Matrix σ ι ℝ) (dt : ℝ) (xa : σ → ℝ)
    (u0 u1 : ι → ℝ) (t : ℝ) :
    HasDerivAt (fohTraj A B dt xa u0 u1) (fohM A B dt *ᵥ fohTraj A B dt xa u0 u1 t) t :=
  hasDerivAt_exp_mulVec _ _ t

theorem fohTraj_zero (A : Matrix σ σ ℝ) (B : Matrix σ ι ℝ) (dt : ℝ) (xa : σ → ℝ) (u0 u1 : ι → ℝ) :
    fohTraj A B dt xa u0 u1 0 = Sum.elim (Sum.elim xa u0) (u1 - u0) := by
  simp [fohTraj, NormedSpace.exp_zero]

/-- the increment stays `u1 - u0`. -/
theorem fohTraj_low (A : Matrix σ σ ℝ) (B : Matrix σ ι ℝ) (dt : ℝ) (xa : σ → ℝ) (u0 u1 : ι → ℝ)
    (t : ℝ) : fohTraj A B dt xa u0 u1 t ∘ Sum.inr = u1 - u0 := by
  have h : ∀ s, HasDerivAt (fun s => fohTraj A B dt xa u0 u1 s ∘ Sum.inr) 0 s := fun s => by
    have := hasDerivAt_comp_inr (fohTraj_hasDerivAt A B dt xa u0 u1 s)
    rw [fohM_mulVec] at this
    simpa using this
  have := const_of_hasDerivAt_zero h t 0
  simp only [fohTraj_zero] at this
  rw [this]; rfl

/-- the input component is `u0 + τ (u1 - u0)`. -/
theorem fohTraj_mid (A : Matrix σ σ ℝ) (B : Matrix σ ι ℝ) (dt : ℝ) (xa : σ → ℝ) (u0 u1 : ι → ℝ)
    (t : ℝ) : (fohTraj A B dt xa u0 u1 t ∘ Sum.inl) ∘ Sum.inr = u0 + t • (u1 - u0) := by
  have h : ∀ s, HasDerivAt (fun s => (fohTraj A B dt xa u0 u1 s ∘ Sum.inl) ∘ Sum.inr) (u1 - u0) s :=
    fun s => by
      have := hasDerivAt_comp_inr (hasDerivAt_comp_inl (fohTraj_hasDerivAt A B dt xa u0 u1 s))
      rw [fohM_mulVec, fohTraj_low] at this
      simpa using this
  have := affine_of_hasDerivAt_const h t
  simp only [fohTraj_zero] at this
  rw [this]; rfl

theorem fohTraj_up_hasDerivAt (A : Matrix σ σ ℝ) (B : Matrix σ ι ℝ) (dt : ℝ) (xa : σ → ℝ)
    (u0 u1 : ι → ℝ) (t : ℝ) :
    HasDerivAt (fun s => (fohTraj A B dt xa u0 u1 s ∘ Sum.inl) ∘ Sum.inl)
      (dt • (A *ᵥ ((fohTraj A B dt xa u0 u1 t ∘ Sum.inl) ∘ Sum.inl)
        + B *ᵥ (u0 + t • (u1 - u0)))) t := by
  have := hasDerivAt_comp_inl (hasDerivAt_comp_inl (fohTraj_hasDerivAt A B dt xa u0 u1 t))
  rw [fohM_mulVec, fohTraj_mid] at this
  simpa using this


/-- reading the three blocks the code cuts out of `expM`. -/
theorem foh_blocks_mulVec (E : Matrix ((σ ⊕ ι) ⊕ ι) ((σ ⊕ ι) ⊕ ι) ℝ) (x : σ → ℝ) (u0 u1 : ι → ℝ) :
    ((E *ᵥ Sum.elim (Sum.elim x u0) (u1 - u0)) ∘ Sum.inl) ∘ Sum.inl =
      fohAd E *ᵥ x + fohBd0 E *ᵥ u0 + fohBd1 E *ᵥ u1 := by
  rw [mulVec_elim_inl]
  have h1 : (E.toBlocks₁₁ *ᵥ Sum.elim x u0) ∘ Sum.inl = fohAd E *ᵥ x + fohMid E *ᵥ u0 :=
    mulVec_elim_inl _ _ _
  have h2 : (E.toBlocks₁₂ *ᵥ (u1 - u0)) ∘ Sum.inl = fohBd1 E *ᵥ (u1 - u0) := by
    ext i; simp [fohBd1, mulVec, dotProduct]
  have : (E.toBlocks₁₁ *ᵥ Sum.elim x u0 + E.toBlocks₁₂ *ᵥ (u1 - u0)) ∘ Sum.inl =
      (E.toBlocks₁₁ *ᵥ Sum.elim x u0) ∘ Sum.inl + (E.toBlocks₁₂ *ᵥ (u1 - u0)) ∘ Sum.inl := rfl
  rw [this, h1, h2, fohBd0, Matrix.mulVec_sub, Matrix.sub_mulVec]
  abel

/-- the solution of `x' = A x + B (u0 + ((t - a)/dt) (u1 - u0))` with `x(a) = xa`. -/
noncomputable def fohSol (A : Matrix σ σ ℝ) (B : Matrix σ ι ℝ) (dt a : ℝ) (xa : σ → ℝ)
    (u0 u1 : ι → ℝ) (t : ℝ) : σ → ℝ :=
  (fohTraj A B dt xa u0 u1 ((t - a) / dt) ∘ Sum.inl) ∘ Sum.inl

theorem fohSol_hasDerivAt (A : Matrix σ σ ℝ) (B : Matrix σ ι ℝ) (dt a : ℝ) (hdt : dt ≠ 0)
    (xa : σ → ℝ) (u0 u1 : ι → ℝ) (t : ℝ) :
    HasDerivAt (fohSol A B dt a xa u0 u1)
      (A *ᵥ fohSol A B dt a xa u0 u1 t + B *ᵥ (u0 + ((t - a) / dt) • (u1 - u0))) t := by
  have h1 := fohTraj_up_hasDerivAt A B dt xa u0 u1 ((t - a) / dt)
  have h2 : HasDerivAt (fun s : ℝ => (s - a) / dt) (1 / dt) t :=
    ((hasDerivAt_id t).sub_const a).div_const dt
  have := HasDerivAt.scomp t h1 h2
  rw [smul_smul, one_div, inv_mul_cancel₀ hdt, one_smul] at this
  exact this

theorem fohSol_init (A : Matrix σ σ ℝ) (B : Matrix σ ι ℝ) (dt a : ℝ) (xa : σ → ℝ) (u0 u1 : ι → ℝ) :
    fohSol A B dt a xa u0 u1 a = xa := by
  simp [fohSol, fohTraj_zero]

theorem fohSol_end (A : Matrix σ σ ℝ) (B : Matrix σ ι ℝ) (dt a : ℝ) (hdt : dt ≠ 0) (xa : σ → ℝ)
    (u0 u1 : ι → ℝ) :
    fohSol A B dt a xa u0 u1 (a + dt) =
      fohAd (exp (fohM A B dt)) *ᵥ xa + fohBd0 (exp (fohM A B dt)) *ᵥ u0
        + fohBd1 (exp (fohM A B dt)) *ᵥ u1 := by
  simp only [fohSol, fohTraj, add_sub_cancel_left, div_self hdt, one_smul]
  exact foh_blocks_mulVec _ _ _ _

theorem fohSol_solvesOn (A : Matrix σ σ ℝ) (B : Matrix σ ι ℝ) (dt a : ℝ) (hdt : dt ≠ 0) (b c : ℝ)
    (xa : σ → ℝ) (u0 u1 : ι → ℝ) :
    SolvesOn A B (fun t => u0 + ((t - a) / dt) • (u1 - u0)) (fohSol A B dt a xa u0 u1) b c :=
  solvesOn_of_hasDerivAt (fohSol_hasDerivAt A B dt a hdt xa u0 u1)

/-- one grid interval under a linearly interpolated input: any solution arrives at
`Ad x(a) + Bd0 u0 + Bd1 u1`. -/
theorem foh_step (A : Matrix σ σ ℝ) (B : Matrix σ ι ℝ) (dt a : ℝ) (hdt : 0 < dt) (u0 u1 : ι → ℝ)
    (uf : ℝ → ι → ℝ) (huf : ∀ t ∈ Ico a (a + dt), uf t = u0 + ((t - a) / dt) • (u1 - u0))
    (x : ℝ → σ → ℝ) (hx : SolvesOn A B uf x a (a + dt)) :
    x (a + dt) =
      fohAd (exp (fohM A B dt)) *ᵥ x a + fohBd0 (exp (fohM A B dt)) *ᵥ u0
        + fohBd1 (exp (fohM A B dt)) *ᵥ u1 := by
  have h1 := hx.congr_input huf
  have h2 := h1.unique (fohSol_solvesOn A B dt a hdt.ne' a (a + dt) (x a) u0 u1)
    (fohSol_init A B dt a (x a) u0 u1).symm
  rw [h2 ⟨by linarith, le_rfl⟩, fohSol_end A B dt a hdt.ne']


/-! ### Grids with constant spacing; sampling the solution -/

/-- the grid `t0, t0 + dt, t0 + 2 dt, …`. -/
def grid (t0 dt : ℝ) (k : ℕ) : ℝ := t0 + k * dt

theorem grid_zero (t0 dt : ℝ) : grid t0 dt 0 = t0 := by simp [grid]
theorem grid_succ (t0 dt : ℝ) (k : ℕ) : grid t0 dt (k + 1) = grid t0 dt k + dt := by
  simp [grid]; ring
theorem grid_shift (t0 dt : ℝ) (k : ℕ) : grid (t0 + dt) dt k = grid t0 dt (k + 1) := by
  simp [grid]; ring
theorem grid_mono (t0 : ℝ) {dt : ℝ} (hdt : 0 ≤ dt) : Monotone (grid t0 dt) := fun a b hab => by
  have : (a : ℝ) ≤ b := by exact_mod_cast hab
  simp only [grid]; nlinarith

theorem range_map_succ {α : Type*} (f : ℕ → α) (n : ℕ) :
    (List.range (n + 1)).map f = f 0 :: (List.range n).map (fun k => f (k + 1)) := by
  rw [List.range_succ_eq_map, List.map_cons, List.map_map]; rfl

/-- the first-order-hold loop fed with the blocks of `exp(M)` returns the samples of any solution
driven by the piecewise-linear interpolation of the input samples. -/
theorem fohStates_samples (A : Matrix σ σ ℝ) (B : Matrix σ ι ℝ) (dt : ℝ) (hdt : 0 < dt)
    (us : List (ι → ℝ)) (t0 : ℝ) (uf : ℝ → ι → ℝ) (x : ℝ → σ → ℝ)
    (hu : ∀ k (hk : k + 1 < us.length), ∀ t ∈ Ico (grid t0 dt k) (grid t0 dt (k + 1)),
      uf t = us[k] + ((t - grid t0 dt k) / dt) • (us[k + 1] - us[k]))
    (hx : ∀ k, k + 1 < us.length → SolvesOn A B uf x (grid t0 dt k) (grid t0 dt (k + 1))) :
    fohStates (fohAd (exp (fohM A B dt))) (fohBd0 (exp (fohM A B dt))) (fohBd1 (exp (fohM A B dt)))
        (x t0) us = (List.range us.length).map (fun k => x (grid t0 dt k)) := by
  induction us generalizing t0 with
  | nil => rfl
  | cons u rest ih =>
    cases rest with
    | nil => simp [fohStates, grid_zero]
    | cons v rest =>
      have hstep := foh_step A B dt t0 hdt u v uf
        (by simpa [grid_zero, grid_succ] using hu 0 (by simp)) x
        (by simpa [grid_zero, grid_succ] using hx 0 (by simp))
      rw [fohStates, ← hstep, List.length_cons, range_map_succ, grid_zero]
      congr 1
      have := ih (t0 + dt)
        (fun k hk t ht => by
          have := hu (k + 1) (by simpa using hk) t (by simpa [grid_shift] using ht)
          simpa [grid_shift] using this)
        (fun k hk => by simpa [grid_shift] using hx (k + 1) (by simpa using hk))
      simpa [grid_shift] using this


/-- the zero-order-hold recursion `x⁺ = Ad x + Bd u` with `(Ad, Bd)` the upper blocks of
`exp(h [[A, B], [0, 0]])` returns the samples of any solution driven by the held input samples. -/
theorem dStates_samples (A : Matrix σ σ ℝ) (B : Matrix σ ι ℝ) (Gd : SS σ ι o ℝ) (h : ℝ) (hh : 0 ≤ h)
    (hA : Gd.A = (exp (h • augM A B)).toBlocks₁₁) (hB : Gd.B = (exp (h • augM A B)).toBlocks₁₂)
    (us : List (ι → ℝ)) (t0 : ℝ) (uf : ℝ → ι → ℝ) (x : ℝ → σ → ℝ)
    (hu : ∀ k (hk : k + 1 < us.length), ∀ t ∈ Ico (grid t0 h k) (grid t0 h (k + 1)), uf t = us[k])
    (hx : ∀ k, k + 1 < us.length → SolvesOn A B uf x (grid t0 h k) (grid t0 h (k + 1))) :
    dStates Gd (x t0) us = (List.range us.length).map (fun k => x (grid t0 h k)) := by
  induction us generalizing t0 with
  | nil => rfl
  | cons u rest ih =>
    cases rest with
    | nil => simp [dStates, grid_zero]
    | cons v rest =>
      have hstep := zoh_step A B t0 h u uf
        (by simpa [grid_zero, grid_succ] using hu 0 (by simp)) x
        (by simpa [grid_zero, grid_succ] using hx 0 (by simp)) hh
      rw [dStates, next, hA, hB, ← hstep, List.length_cons, range_map_succ, grid_zero]
      congr 1
      have := ih (t0 + h)
        (fun k hk t ht => by
          have := hu (k + 1) (by simpa using hk) t (by simpa [grid_shift] using ht)
          simpa [grid_shift] using this)
        (fun k hk => by simpa [grid_shift] using hx (k + 1) (by simpa using hk))
      simpa [grid_shift] using this

/-! ### Gluing local pieces (existence of the sampled trajectory) -/

/-- pieces `ψ k` on `[T k, T (k+1)]` that match at the common end points glue to one function. -/
theorem exists_glue {E : Type*} (T : ℕ → ℝ) (hT : Monotone T) (ψ : ℕ → ℝ → E) (N : ℕ)
    (hm : ∀ k, k + 1 < N → ψ (k + 1) (T (k + 1)) = ψ k (T (k + 1))) :
    ∃ f : ℝ → E, ∀ k < N, EqOn f (ψ k) (Icc (T k) (T (k + 1))) := by
  induction N with
  | zero => exact ⟨ψ 0, fun k hk => absurd hk (Nat.not_lt_zero k)⟩
  | succ N ih =>
    obtain ⟨f, hf⟩ := ih (fun k hk => hm k (by omega))
    rcases Nat.eq_zero_or_pos N with rfl | hN
    · exact ⟨ψ 0, fun k hk => by obtain rfl : k = 0 := by omega
                                 exact fun _ _ => rfl⟩
    refine ⟨fun t => if t ≤ T N then f t else ψ N t, fun k hk t ht => ?_⟩
    rcases Nat.lt_succ_iff_lt_or_eq.1 hk with hk' | rfl
    · have : t ≤ T N := ht.2.trans (hT (by omega))
      simp only [this, if_true]
      exact hf k hk' ht
    · by_cases hle : t ≤ T k
      · have heq : t = T k := le_antisymm hle ht.1
        simp only [hle, if_true]
        obtain ⟨j, rfl⟩ : ∃ j, k = j + 1 := ⟨k - 1, by omega⟩
        rw [heq, hf j (by omega) ⟨hT (by omega), le_rfl⟩, hm j (by omega)]
      · simp only [hle, if_false]


/-- the first-order-hold recursion as a sequence. -/
def fohSeq (Ad : Matrix σ σ ℝ) (Bd0 Bd1 : Matrix σ ι ℝ) (x0 : σ → ℝ) (ug : ℕ → ι → ℝ) : ℕ → σ → ℝ
  | 0 => x0
  | k + 1 => Ad *ᵥ fohSeq Ad Bd0 Bd1 x0 ug k + Bd0 *ᵥ ug k + Bd1 *ᵥ ug (k + 1)

/-- the zero-order-hold recursion as a sequence. -/
def zohSeq (Ad : Matrix σ σ ℝ) (Bd : Matrix σ ι ℝ) (x0 : σ → ℝ) (ug : ℕ → ι → ℝ) : ℕ → σ → ℝ
  | 0 => x0
  | k + 1 => Ad *ᵥ zohSeq Ad Bd x0 ug k + Bd *ᵥ ug k

/-- two adjacent solution pieces form a solution. -/
theorem SolvesOn.union {A : Matrix σ σ ℝ} {B : Matrix σ ι ℝ} {u : ℝ → ι → ℝ} {x : ℝ → σ → ℝ}
    {a b c : ℝ} (h1 : SolvesOn A B u x a b) (h2 : SolvesOn A B u x b c) (hab : a ≤ b) (hbc : b ≤ c) :
    SolvesOn A B u x a c := by
  refine ⟨?_, fun t ht => ?_⟩
  · rw [← Icc_union_Icc_eq_Icc hab hbc]
    exact h1.1.union_of_isClosed h2.1 isClosed_Icc isClosed_Icc
  · rcases lt_or_ge t b with h | h
    · exact h1.2 t ⟨ht.1, h⟩
    · exact h2.2 t ⟨h, ht.2⟩

/-- a solution on `[t0, t0 + N dt]` is the same thing as a solution on each of the `N` grid
intervals. -/
theorem solvesOn_grid_iff {A : Matrix σ σ ℝ} {B : Matrix σ ι ℝ} {u : ℝ → ι → ℝ} {x : ℝ → σ → ℝ}
    (t0 : ℝ) {dt : ℝ} (hdt : 0 ≤ dt) (N : ℕ) :
    SolvesOn A B u x t0 (grid t0 dt N) ↔
      ∀ k < N, SolvesOn A B u x (grid t0 dt k) (grid t0 dt (k + 1)) := by
  have hmono := grid_mono t0 hdt
  constructor
  · intro h k hk
    refine h.mono ?_ (hmono (by omega))
    have := hmono (Nat.zero_le k); rwa [grid_zero] at this
  · intro h
    induction N with
    | zero =>
      rw [grid_zero]
      exact ⟨by rw [Icc_self]; exact continuousOn_singleton _ _, fun t ht => absurd ht.2 (not_lt.2 ht.1)⟩
    | succ N ih =>
      refine (ih fun k hk => h k (by omega)).union (h N (by omega)) ?_ (hmono (by omega))
      have := hmono (Nat.zero_le N); rwa [grid_zero] at this

/-- the piecewise-linear interpolation of input samples given at `t0 + k dt`
(`make_interp_spline(T, U, k=1)`; beyond the last sample the list is continued by `0`). -/
noncomputable def pwlInput (t0 dt : ℝ) (us : List (ι → ℝ)) (t : ℝ) : ι → ℝ :=
  us.getD ⌊(t - t0) / dt⌋₊ 0 +
    ((t - grid t0 dt ⌊(t - t0) / dt⌋₊) / dt) • (us.getD (⌊(t - t0) / dt⌋₊ + 1) 0 - us.getD ⌊(t - t0) / dt⌋₊ 0)

/-- the zero-order hold of input samples given at `t0 + k h`. -/
noncomputable def holdInput (t0 h : ℝ) (us : List (ι → ℝ)) (t : ℝ) : ι → ℝ :=
  us.getD ⌊(t - t0) / h⌋₊ 0

theorem floor_grid {t0 dt : ℝ} (hdt : 0 < dt) (k : ℕ) {t : ℝ}
    (ht : t ∈ Ico (grid t0 dt k) (grid t0 dt (k + 1))) : ⌊(t - t0) / dt⌋₊ = k := by
  have h1 : (k : ℝ) ≤ (t - t0) / dt := by
    rw [le_div_iff₀ hdt]; have := ht.1; simp only [grid] at this; linarith
  have h2 : (t - t0) / dt < k + 1 := by
    rw [div_lt_iff₀ hdt]; have := ht.2; simp only [grid] at this; push_cast at this; linarith
  exact (Nat.floor_eq_iff (le_trans (Nat.cast_nonneg k) h1)).2 ⟨h1, h2⟩

theorem holdInput_eq {t0 h : ℝ} (hh : 0 < h) (us : List (ι → ℝ)) (k : ℕ) (hk : k < us.length)
    {t : ℝ} (ht : t ∈ Ico (grid t0 h k) (grid t0 h (k + 1))) : holdInput t0 h us t = us[k] := by
  simp [holdInput, floor_grid hh k ht, hk]

theorem pwlInput_eq {t0 dt : ℝ} (hdt : 0 < dt) (us : List (ι → ℝ)) (k : ℕ) (hk : k + 1 < us.length)
    {t : ℝ} (ht : t ∈ Icc (grid t0 dt k) (grid t0 dt (k + 1))) :
    pwlInput t0 dt us t = us[k] + ((t - grid t0 dt k) / dt) • (us[k + 1] - us[k]) := by
  rcases lt_or_eq_of_le ht.2 with h | h
  · have hk' : k < us.length := by omega
    simp [pwlInput, floor_grid hdt k ⟨ht.1, h⟩, hk, hk']
  · have hfl : ⌊(t - t0) / dt⌋₊ = k + 1 := by
      refine floor_grid hdt (k + 1) ⟨h.ge, ?_⟩
      rw [h, grid_succ _ _ (k + 1)]; linarith
    have hk' : k < us.length := by omega
    simp only [pwlInput, hfl, List.getD_eq_getElem?_getD, List.getElem?_eq_getElem hk,
      Option.getD_some]
    rw [h, sub_self, zero_div, zero_smul, add_zero, grid_succ, add_sub_cancel_left, div_self hdt.ne',
      one_smul]
    abel

/-- **Existence** (first-order hold): for every grid `t0 + k dt`, every list of input samples and
every initial state there is a trajectory `x` with `x(t0) = x0` that solves
`x' = A x + B u(t)`, `u` the piecewise-linear interpolation of the samples, on every grid interval. -/
theorem exists_foh_solution (A : Matrix σ σ ℝ) (B : Matrix σ ι ℝ) (dt : ℝ) (hdt : 0 < dt)
    (us : List (ι → ℝ)) (t0 : ℝ) (x0 : σ → ℝ) :
    ∃ x : ℝ → σ → ℝ, x t0 = x0 ∧
      ∀ k, k + 1 < us.length →
        SolvesOn A B (pwlInput t0 dt us) x (grid t0 dt k) (grid t0 dt (k + 1)) := by
  let ug : ℕ → ι → ℝ := fun k => us.getD k 0
  let E := exp (fohM A B dt)
  let xs := fohSeq (fohAd E) (fohBd0 E) (fohBd1 E) x0 ug
  let ψx : ℕ → ℝ → σ → ℝ := fun k => fohSol A B dt (grid t0 dt k) (xs k) (ug k) (ug (k + 1))
  have hmono := grid_mono t0 hdt.le
  obtain ⟨x, hx⟩ := exists_glue (grid t0 dt) hmono ψx (us.length - 1) (fun k _ => by
    simp only [ψx]
    rw [fohSol_init, grid_succ, fohSol_end A B dt _ hdt.ne']
    rfl)
  have hug : ∀ k (hk : k < us.length), ug k = us[k] := fun k hk => by
    simp [ug, hk]
  by_cases hlen : us.length ≤ 1
  · exact ⟨fun _ => x0, rfl, fun k hk => by omega⟩
  · refine ⟨x, ?_, fun k hk => ?_⟩
    · have := hx 0 (by omega) (show t0 ∈ Icc (grid t0 dt 0) (grid t0 dt 1) by
        simp [grid]; exact hdt.le)
      rw [this]
      simp only [ψx, grid_zero, fohSol_init]
      rfl
    · have h1 := fohSol_solvesOn A B dt (grid t0 dt k) hdt.ne' (grid t0 dt k) (grid t0 dt (k + 1))
        (xs k) (ug k) (ug (k + 1))
      refine (h1.congr (hx k (by omega))).congr_input fun t ht => ?_
      rw [pwlInput_eq hdt us k hk ⟨ht.1, ht.2.le⟩, hug k (by omega), hug (k + 1) hk]

/-- **Existence** (zero-order hold). -/
theorem exists_zoh_solution (A : Matrix σ σ ℝ) (B : Matrix σ ι ℝ) (h : ℝ) (hh : 0 < h)
    (us : List (ι → ℝ)) (t0 : ℝ) (x0 : σ → ℝ) :
    ∃ x : ℝ → σ → ℝ, x t0 = x0 ∧
      ∀ k, k + 1 < us.length →
        SolvesOn A B (holdInput t0 h us) x (grid t0 h k) (grid t0 h (k + 1)) := by
  let ug : ℕ → ι → ℝ := fun k => us.getD k 0
  let E := exp (h • augM A B)
  let xs := zohSeq E.toBlocks₁₁ E.toBlocks₁₂ x0 ug
  let ψx : ℕ → ℝ → σ → ℝ := fun k => zohSol A B (grid t0 h k) (xs k) (ug k)
  have hmono := grid_mono t0 hh.le
  obtain ⟨x, hx⟩ := exists_glue (grid t0 h) hmono ψx (us.length - 1) (fun k _ => by
    simp only [ψx]
    rw [zohSol_init, grid_succ, zohSol_end]
    rfl)
  have hug : ∀ k (hk : k < us.length), ug k = us[k] := fun k hk => by
    simp [ug, hk]
  by_cases hlen : us.length ≤ 1
  · exact ⟨fun _ => x0, rfl, fun k hk => by omega⟩
  · refine ⟨x, ?_, fun k hk => ?_⟩
    · have := hx 0 (by omega) (show t0 ∈ Icc (grid t0 h 0) (grid t0 h 1) by
        simp [grid]; exact hh.le)
      rw [this]
      simp only [ψx, grid_zero, zohSol_init]
      rfl
    · have h1 := zohSol_solvesOn A B (grid t0 h k) (grid t0 h k) (grid t0 h (k + 1)) (xs k) (ug k)
      refine (h1.congr (hx k (by omega))).congr_input fun t ht => ?_
      rw [holdInput_eq hh us k (by omega) ht, hug k (by omega)]


/-! ### The blocks of `exp(M)` as limits of the block series -/

section Series
open Filter Topology
variable [DecidableEq τ]

/-- the block extractions as linear maps. -/
def fohAdL : Matrix ((σ ⊕ ι) ⊕ ι) ((σ ⊕ ι) ⊕ ι) ℝ →ₗ[ℝ] Matrix σ σ ℝ where
  toFun := fohAd
  map_add' := fohAd_add
  map_smul' := fohAd_smul

def fohMidL : Matrix ((σ ⊕ ι) ⊕ ι) ((σ ⊕ ι) ⊕ ι) ℝ →ₗ[ℝ] Matrix σ ι ℝ where
  toFun := fohMid
  map_add' := fohMid_add
  map_smul' := fohMid_smul

def fohBd1L : Matrix ((σ ⊕ ι) ⊕ ι) ((σ ⊕ ι) ⊕ ι) ℝ →ₗ[ℝ] Matrix σ ι ℝ where
  toFun := fohBd1
  map_add' := fohBd1_add
  map_smul' := fohBd1_smul

theorem fohAd_pow (A : Matrix σ σ ℝ) (B : Matrix σ ι ℝ) (dt : ℝ) :
    ∀ k : ℕ, fohAd (fohM A B dt ^ k) = (dt • A) ^ k
  | 0 => by simp [fohAd_one]
  | 1 => by simp [fohAd_fohM]
  | k + 2 => by rw [fohM_pow, fohAd_powShape]

theorem fohMid_pow_succ (A : Matrix σ σ ℝ) (B : Matrix σ ι ℝ) (dt : ℝ) :
    ∀ k : ℕ, fohMid (fohM A B dt ^ (k + 1)) = (dt • A) ^ k * (dt • B)
  | 0 => by simp [fohMid_fohM]
  | k + 1 => by rw [fohM_pow, fohMid_powShape]

theorem fohBd1_pow_add_two (A : Matrix σ σ ℝ) (B : Matrix σ ι ℝ) (dt : ℝ) (k : ℕ) :
    fohBd1 (fohM A B dt ^ (k + 2)) = (dt • A) ^ k * (dt • B) := by
  rw [fohM_pow, fohBd1_powShape]

theorem hasSum_fohAd (A : Matrix σ σ ℝ) (B : Matrix σ ι ℝ) (dt : ℝ) :
    HasSum (fun k : ℕ => ((k.factorial : ℝ)⁻¹) • (dt • A) ^ k) (fohAd (exp (fohM A B dt))) := by
  have := hasSum_linear_exp fohAdL (fohM A B dt)
  simpa only [fohAdL, LinearMap.coe_mk, AddHom.coe_mk, fohAd_pow] using this

theorem hasSum_fohMid (A : Matrix σ σ ℝ) (B : Matrix σ ι ℝ) (dt : ℝ) :
    HasSum (fun k : ℕ => (((k + 1).factorial : ℝ)⁻¹) • ((dt • A) ^ k * (dt • B)))
      (fohMid (exp (fohM A B dt))) := by
  have := hasSum_linear_exp fohMidL (fohM A B dt)
  simp only [fohMidL, LinearMap.coe_mk, AddHom.coe_mk] at this
  rw [← hasSum_nat_add_iff' 1] at this
  simpa only [fohMid_pow_succ, Finset.range_one, Finset.sum_singleton, pow_zero, fohMid_one,
    smul_zero, sub_zero] using this

theorem hasSum_fohBd1 (A : Matrix σ σ ℝ) (B : Matrix σ ι ℝ) (dt : ℝ) :
    HasSum (fun k : ℕ => (((k + 2).factorial : ℝ)⁻¹) • ((dt • A) ^ k * (dt • B)))
      (fohBd1 (exp (fohM A B dt))) := by
  have := hasSum_linear_exp fohBd1L (fohM A B dt)
  simp only [fohBd1L, LinearMap.coe_mk, AddHom.coe_mk] at this
  rw [← hasSum_nat_add_iff' 2] at this
  simpa only [fohBd1_pow_add_two, Finset.sum_range_succ, Finset.range_zero, Finset.sum_empty,
    pow_zero, pow_one, fohBd1_one, fohBd1_fohM, smul_zero, sub_zero, add_zero] using this


section Normed2
open scoped Matrix.Norms.Operator

/-- `Ad = exp(A dt)`. -/
theorem fohAd_exp (A : Matrix σ σ ℝ) (B : Matrix σ ι ℝ) (dt : ℝ) :
    fohAd (exp (fohM A B dt)) = exp (dt • A) :=
  (hasSum_fohAd A B dt).unique (exp_series_hasSum_exp' (𝕂 := ℝ) (dt • A))

/-- the truncations `Σ_{k ≤ N} X^k / k!` converge to `exp X`. -/
theorem tendsto_expSum (X : Matrix τ τ ℝ) :
    Tendsto (fun N => expSum N X) atTop (𝓝 (exp X)) := by
  have := (exp_series_hasSum_exp' (𝕂 := ℝ) X).tendsto_sum_nat
  exact (this.comp (tendsto_add_atTop_nat 1))

/-- for a nilpotent matrix the exponential is the finite sum. -/
theorem exp_eq_expSum_of_pow_eq_zero (X : Matrix τ τ ℝ) (N : ℕ) (h : X ^ (N + 1) = 0) :
    exp X = expSum N X := by
  have h1 := exp_series_hasSum_exp' (𝕂 := ℝ) X
  have h2 : HasSum (fun k : ℕ => ((k.factorial : ℝ)⁻¹) • X ^ k)
      (∑ k ∈ Finset.range (N + 1), ((k.factorial : ℝ)⁻¹) • X ^ k) :=
    hasSum_sum_of_ne_finset_zero fun k hk => by
      have hk' : N + 1 ≤ k := by simpa using hk
      obtain ⟨j, rfl⟩ := Nat.exists_eq_add_of_le hk'
      rw [pow_add, h, zero_mul, smul_zero]
  exact h1.unique h2

end Normed2

/-- any linear image of the truncations converges to the image of the exponential. -/
theorem tendsto_linear_expSum {F : Type*} [AddCommGroup F] [Module ℝ F] [TopologicalSpace F]
    [IsTopologicalAddGroup F] [ContinuousSMul ℝ F]
    (L : Matrix τ τ ℝ →ₗ[ℝ] F) (X : Matrix τ τ ℝ) :
    Tendsto (fun N => L (expSum N X)) atTop (𝓝 (L (exp X))) :=
  ((LinearMap.continuous_of_finiteDimensional L).tendsto _).comp (tendsto_expSum X)

theorem powShape_zero : powShape (0 : Matrix σ σ ℝ) (0 : Matrix σ ι ℝ) 0 = 0 := by
  ext ((i | j) | k) ((i' | j') | k') <;> simp [powShape]

/-- nilpotent `A`: `exp(M)` is the finite sum the harness computes. -/
theorem exp_fohM_nilpotent (A : Matrix σ σ ℝ) (B : Matrix σ ι ℝ) (dt : ℝ) (n : ℕ) (hA : A ^ n = 0) :
    exp (fohM A B dt) = expSum (n + 1) (fohM A B dt) := by
  apply exp_eq_expSum_of_pow_eq_zero
  have h0 : ∀ j, (dt • A) ^ (n + j) = 0 := fun j => by
    rw [smul_pow, pow_add A, hA, zero_mul, smul_zero]
  rw [fohM_pow, show n + 2 = n + 2 from rfl, h0 2, show n + 1 = n + 1 from rfl, h0 1]
  have := h0 0
  rw [add_zero] at this
  rw [this, Matrix.zero_mul, powShape_zero]


/-! #### zero-order hold -/

def blk11L : Matrix (σ ⊕ ι) (σ ⊕ ι) ℝ →ₗ[ℝ] Matrix σ σ ℝ where
  toFun := toBlocks₁₁
  map_add' _ _ := rfl
  map_smul' _ _ := rfl

def blk12L : Matrix (σ ⊕ ι) (σ ⊕ ι) ℝ →ₗ[ℝ] Matrix σ ι ℝ where
  toFun := toBlocks₁₂
  map_add' _ _ := rfl
  map_smul' _ _ := rfl

def blk21L : Matrix (σ ⊕ ι) (σ ⊕ ι) ℝ →ₗ[ℝ] Matrix ι σ ℝ where
  toFun := toBlocks₂₁
  map_add' _ _ := rfl
  map_smul' _ _ := rfl

def blk22L : Matrix (σ ⊕ ι) (σ ⊕ ι) ℝ →ₗ[ℝ] Matrix ι ι ℝ where
  toFun := toBlocks₂₂
  map_add' _ _ := rfl
  map_smul' _ _ := rfl

theorem blk11L_apply (E : Matrix (σ ⊕ ι) (σ ⊕ ι) ℝ) : blk11L E = E.toBlocks₁₁ := rfl
theorem blk12L_apply (E : Matrix (σ ⊕ ι) (σ ⊕ ι) ℝ) : blk12L E = E.toBlocks₁₂ := rfl
theorem blk21L_apply (E : Matrix (σ ⊕ ι) (σ ⊕ ι) ℝ) : blk21L E = E.toBlocks₂₁ := rfl
theorem blk22L_apply (E : Matrix (σ ⊕ ι) (σ ⊕ ι) ℝ) : blk22L E = E.toBlocks₂₂ := rfl

theorem smul_augM_pow_succ (A : Matrix σ σ ℝ) (B : Matrix σ ι ℝ) (h : ℝ) (k : ℕ) :
    (h • augM A B) ^ (k + 1) = fromBlocks ((h • A) ^ (k + 1)) (h ^ (k + 1) • (A ^ k * B)) 0 0 := by
  rw [smul_pow, augM, fromBlocks_zero_pow_succ, fromBlocks_smul, smul_pow]
  simp

theorem blk11_pow (A : Matrix σ σ ℝ) (B : Matrix σ ι ℝ) (h : ℝ) :
    ∀ k : ℕ, ((h • augM A B) ^ k).toBlocks₁₁ = (h • A) ^ k
  | 0 => by ext i j; simp [toBlocks₁₁, Matrix.one_apply]
  | k + 1 => by rw [smul_augM_pow_succ, toBlocks_fromBlocks₁₁]

theorem blk12_pow_succ (A : Matrix σ σ ℝ) (B : Matrix σ ι ℝ) (h : ℝ) (k : ℕ) :
    ((h • augM A B) ^ (k + 1)).toBlocks₁₂ = h ^ (k + 1) • (A ^ k * B) := by
  rw [smul_augM_pow_succ, toBlocks_fromBlocks₁₂]

theorem blk21_pow (A : Matrix σ σ ℝ) (B : Matrix σ ι ℝ) (h : ℝ) :
    ∀ k : ℕ, ((h • augM A B) ^ k).toBlocks₂₁ = 0
  | 0 => by ext i j; simp [toBlocks₂₁, Matrix.one_apply]
  | k + 1 => by rw [smul_augM_pow_succ, toBlocks_fromBlocks₂₁]

theorem blk22_pow_succ (A : Matrix σ σ ℝ) (B : Matrix σ ι ℝ) (h : ℝ) (k : ℕ) :
    ((h • augM A B) ^ (k + 1)).toBlocks₂₂ = 0 := by
  rw [smul_augM_pow_succ, toBlocks_fromBlocks₂₂]

theorem hasSum_zoh11 (A : Matrix σ σ ℝ) (B : Matrix σ ι ℝ) (h : ℝ) :
    HasSum (fun k : ℕ => ((k.factorial : ℝ)⁻¹) • (h • A) ^ k) (exp (h • augM A B)).toBlocks₁₁ := by
  have := hasSum_linear_exp blk11L (h • augM A B)
  simpa only [blk11L_apply, blk11_pow] using this

theorem hasSum_zoh12 (A : Matrix σ σ ℝ) (B : Matrix σ ι ℝ) (h : ℝ) :
    HasSum (fun k : ℕ => (((k + 1).factorial : ℝ)⁻¹) • (h ^ (k + 1) • (A ^ k * B)))
      (exp (h • augM A B)).toBlocks₁₂ := by
  have := hasSum_linear_exp blk12L (h • augM A B)
  simp only [blk12L_apply] at this
  rw [← hasSum_nat_add_iff' 1] at this
  have h0 : (1 : Matrix (σ ⊕ ι) (σ ⊕ ι) ℝ).toBlocks₁₂ = 0 := by
    ext i j; simp [toBlocks₁₂, Matrix.one_apply]
  simpa only [blk12_pow_succ, Finset.range_one, Finset.sum_singleton, pow_zero, h0,
    smul_zero, sub_zero] using this

theorem zoh21_eq (A : Matrix σ σ ℝ) (B : Matrix σ ι ℝ) (h : ℝ) :
    (exp (h • augM A B)).toBlocks₂₁ = 0 := by
  have := hasSum_linear_exp blk21L (h • augM A B)
  simp only [blk21L_apply, blk21_pow, smul_zero] at this
  exact this.unique hasSum_zero

theorem zoh22_eq (A : Matrix σ σ ℝ) (B : Matrix σ ι ℝ) (h : ℝ) :
    (exp (h • augM A B)).toBlocks₂₂ = 1 := by
  have := hasSum_linear_exp blk22L (h • augM A B)
  simp only [blk22L_apply] at this
  rw [← hasSum_nat_add_iff' 1] at this
  have h0 : (1 : Matrix (σ ⊕ ι) (σ ⊕ ι) ℝ).toBlocks₂₂ = 1 := by
    ext i j; simp [toBlocks₂₂, Matrix.one_apply]
  simp only [blk22_pow_succ, Finset.range_one, Finset.sum_singleton, pow_zero, h0,
    smul_zero, Nat.factorial_zero, Nat.cast_one, inv_one, one_smul] at this
  exact (sub_eq_zero.1 (this.unique hasSum_zero))

section Normed3
open scoped Matrix.Norms.Operator

/-- `Ad = exp(h A)` for zero-order hold. -/
theorem zoh11_eq (A : Matrix σ σ ℝ) (B : Matrix σ ι ℝ) (h : ℝ) :
    (exp (h • augM A B)).toBlocks₁₁ = exp (h • A) :=
  (hasSum_zoh11 A B h).unique (exp_series_hasSum_exp' (𝕂 := ℝ) (h • A))

end Normed3

/-- a series whose terms vanish from `n` on has the finite sum as its sum. -/
theorem eq_sum_of_hasSum_of_zero {F : Type*} [AddCommGroup F] [TopologicalSpace F] [T2Space F]
    {f : ℕ → F} {a : F} (h : HasSum f a) (n : ℕ) (h0 : ∀ k, n ≤ k → f k = 0) :
    a = ∑ k ∈ Finset.range n, f k :=
  h.unique (hasSum_sum_of_ne_finset_zero fun k hk => h0 k (by simpa using hk))

theorem smul_pow_mul_eq_zero (A : Matrix σ σ ℝ) (B : Matrix σ ι ℝ) (dt : ℝ) (n : ℕ) (hA : A ^ n = 0)
    (k : ℕ) (hk : n ≤ k) : (dt • A) ^ k * (dt • B) = 0 := by
  obtain ⟨j, rfl⟩ := Nat.exists_eq_add_of_le hk
  rw [smul_pow, pow_add A, hA, Matrix.zero_mul, smul_zero, Matrix.zero_mul]

/-- nilpotent `A` (`A ^ n = 0`): the three blocks the code reads are finite sums. -/
theorem foh_blocks_nilpotent (A : Matrix σ σ ℝ) (B : Matrix σ ι ℝ) (dt : ℝ) (n : ℕ) (hA : A ^ n = 0) :
    fohAd (exp (fohM A B dt)) = ∑ k ∈ Finset.range n, ((k.factorial : ℝ)⁻¹) • (dt • A) ^ k ∧
    fohMid (exp (fohM A B dt)) =
      ∑ k ∈ Finset.range n, (((k + 1).factorial : ℝ)⁻¹) • ((dt • A) ^ k * (dt • B)) ∧
    fohBd1 (exp (fohM A B dt)) =
      ∑ k ∈ Finset.range n, (((k + 2).factorial : ℝ)⁻¹) • ((dt • A) ^ k * (dt • B)) := by
  refine ⟨eq_sum_of_hasSum_of_zero (hasSum_fohAd A B dt) n fun k hk => ?_,
    eq_sum_of_hasSum_of_zero (hasSum_fohMid A B dt) n fun k hk => ?_,
    eq_sum_of_hasSum_of_zero (hasSum_fohBd1 A B dt) n fun k hk => ?_⟩
  · obtain ⟨j, rfl⟩ := Nat.exists_eq_add_of_le hk
    rw [smul_pow, pow_add A, hA, Matrix.zero_mul, smul_zero, smul_zero]
  · rw [smul_pow_mul_eq_zero A B dt n hA k hk, smul_zero]
  · rw [smul_pow_mul_eq_zero A B dt n hA k hk, smul_zero]

/-- nilpotent `A`: `exp(h [[A, B], [0, 0]])` is the finite sum. -/
theorem exp_augM_nilpotent (A : Matrix σ σ ℝ) (B : Matrix σ ι ℝ) (h : ℝ) (n : ℕ) (hA : A ^ n = 0) :
    exp (h • augM A B) = expSum n (h • augM A B) := by
  apply exp_eq_expSum_of_pow_eq_zero
  rw [smul_augM_pow_succ, smul_pow, pow_succ A, hA, Matrix.zero_mul, Matrix.zero_mul, smul_zero, smul_zero,
    fromBlocks_zero]

section Normed4
open scoped Matrix.Norms.Operator

/-- the flow property of the augmented exponential. -/
theorem exp_augM_add (A : Matrix σ σ ℝ) (B : Matrix σ ι ℝ) (s t : ℝ) :
    exp ((s + t) • augM A B) = exp (s • augM A B) * exp (t • augM A B) := by
  rw [add_smul]
  exact Matrix.exp_add_of_commute _ _ ((Commute.refl _).smul_left s |>.smul_right t)

end Normed4

end Series

/-! ### Changing the field (`ℚ → ℝ`): the rational model computes the real recursion -/
section Cast
variable {K K' : Type*} [Field K] [Field K'] (f : K →+* K')
variable {σ ι o τ : Type*} [Fintype σ] [Fintype ι] [Fintype τ]

theorem comp_mulVec {α β : Type*} [Fintype β] (M : Matrix α β K) (v : β → K) :
    f ∘ (M *ᵥ v) = M.map f *ᵥ (f ∘ v) := by
  ext i; exact (RingHom.map_mulVec f M v i).symm ▸ rfl

theorem fohStates_map (Ad : Matrix σ σ K) (Bd0 Bd1 : Matrix σ ι K) (x : σ → K) (us : List (ι → K)) :
    (fohStates Ad Bd0 Bd1 x us).map (fun v => f ∘ v) =
      fohStates (Ad.map f) (Bd0.map f) (Bd1.map f) (f ∘ x) (us.map fun v => f ∘ v) := by
  induction us generalizing x with
  | nil => rfl
  | cons u rest ih =>
    cases rest with
    | nil => rfl
    | cons v rest =>
      simp only [fohStates, List.map_cons] at ih ⊢
      rw [ih]
      congr 2
      ext i
      simp [← comp_mulVec]

theorem freeStates_map (E : Matrix σ σ K) (x : σ → K) (k : ℕ) :
    (freeStates E x k).map (fun v => f ∘ v) = freeStates (E.map f) (f ∘ x) k := by
  induction k generalizing x with
  | zero => rfl
  | succ k ih => simp only [freeStates, List.map_cons, ih, comp_mulVec]

theorem outputs_map (G : SS σ ι o K) (xs : List (σ → K)) (us : List (ι → K)) :
    (outputs G xs us).map (fun v => f ∘ v) =
      outputs ⟨G.A.map f, G.B.map f, G.C.map f, G.D.map f⟩ (xs.map fun v => f ∘ v)
        (us.map fun v => f ∘ v) := by
  induction xs generalizing us with
  | nil => simp [outputs]
  | cons x xs ih =>
    cases us with
    | nil => simp [outputs]
    | cons u us =>
      simp only [outputs, List.zipWith_cons_cons, List.map_cons] at ih ⊢
      rw [ih]
      congr 1
      ext i
      simp [out, ← comp_mulVec]

variable [DecidableEq σ] [DecidableEq ι] [DecidableEq τ]

theorem fohM_map (A : Matrix σ σ K) (B : Matrix σ ι K) (dt : K) :
    (fohM A B dt).map f = fohM (A.map f) (B.map f) (f dt) := by
  ext ((i | j) | k) ((i' | j') | k') <;> simp [fohM, Matrix.one_apply, apply_ite f]

theorem expSum_map (N : ℕ) (X : Matrix τ τ K) : (expSum N X).map f = expSum N (X.map f) := by
  have h : ∀ Y : Matrix τ τ K, Y.map f = f.mapMatrix Y := fun _ => rfl
  rw [expSum, expSum, h, map_sum]
  refine Finset.sum_congr rfl fun k _ => ?_
  rw [← h, Matrix.map_smul' _ _ _ (fun a b => map_mul f a b), h, map_pow, map_inv₀, map_natCast]
  rfl

theorem fohAd_map (E : Matrix ((σ ⊕ ι) ⊕ ι) ((σ ⊕ ι) ⊕ ι) K) : (fohAd E).map f = fohAd (E.map f) := rfl
theorem fohMid_map (E : Matrix ((σ ⊕ ι) ⊕ ι) ((σ ⊕ ι) ⊕ ι) K) : (fohMid E).map f = fohMid (E.map f) := rfl
theorem fohBd1_map (E : Matrix ((σ ⊕ ι) ⊕ ι) ((σ ⊕ ι) ⊕ ι) K) : (fohBd1 E).map f = fohBd1 (E.map f) := rfl
theorem fohBd0_map (E : Matrix ((σ ⊕ ι) ⊕ ι) ((σ ⊕ ι) ⊕ ι) K) : (fohBd0 E).map f = fohBd0 (E.map f) := by
  ext i j; simp [fohBd0, fohMid, fohBd1, toBlocks₁₁, toBlocks₁₂]


theorem map_pow_eq_zero (A : Matrix σ σ K) (n : ℕ) (hA : A ^ n = 0) : (A.map f) ^ n = 0 := by
  have h : ∀ Y : Matrix σ σ K, Y.map f = f.mapMatrix Y := fun _ => rfl
  rw [h, ← map_pow, hA, map_zero]

/-- the truncated series does not change beyond the nilpotency index. -/
theorem expSum_eq_of_pow_eq_zero (X : Matrix τ τ K) (k N : ℕ) (h : X ^ (k + 1) = 0) (hk : k ≤ N) :
    expSum N X = expSum k X := by
  obtain ⟨d, rfl⟩ := Nat.exists_eq_add_of_le hk
  induction d with
  | zero => rfl
  | succ d ih =>
    rw [← add_assoc, expSum_succ, ih (Nat.le_add_right k d)]
    have : X ^ (k + d + 1) = 0 := by
      rw [show k + d + 1 = (k + 1) + d by omega, pow_add, h, zero_mul]
    rw [this, smul_zero, add_zero]

theorem pow_submatrix_equiv {κ : Type*} [Fintype κ] [DecidableEq κ] (e : κ ≃ τ) (X : Matrix τ τ K)
    (k : ℕ) : (X.submatrix e e) ^ k = (X ^ k).submatrix e e := by
  induction k with
  | zero => simp [Matrix.submatrix_one_equiv]
  | succ k ih => rw [pow_succ, pow_succ, ih, Matrix.submatrix_mul_equiv]

theorem expSum_submatrix_equiv {κ : Type*} [Fintype κ] [DecidableEq κ] (e : κ ≃ τ) (X : Matrix τ τ K)
    (N : ℕ) : expSum N (X.submatrix e e) = (expSum N X).submatrix e e := by
  ext i j
  simp [expSum, pow_submatrix_equiv, Matrix.sum_apply]

/-- the run-time sized `expM` of a truncated series has the blocks of the typed one. -/
theorem fohBlocksFin_expSum {n m : ℕ} (A : Matrix (Fin n) (Fin n) K) (B : Matrix (Fin n) (Fin m) K)
    (dt : K) (N : ℕ) :
    fohBlocksFin (expSum N (fohMFin A B dt)) =
      (fohAd (expSum N (fohM A B dt)), fohBd0 (expSum N (fohM A B dt)),
        fohBd1 (expSum N (fohM A B dt))) := by
  have : (expSum N (fohMFin A B dt)).submatrix (eFoh n m) (eFoh n m) = expSum N (fohM A B dt) := by
    rw [fohMFin, expSum_submatrix_equiv]
    ext i j; simp
  simp only [fohBlocksFin, this]

end Cast

end CtrlVerif.ExpODE
