/-
Helper lemmas for the C18 theorems about `FrequencyResponseData.eval` at requested points:
integer-array selection of the last axis (`selectLast`) and the look-up of the requested
frequencies in the stored list (`lookupFreqs`).
-/
import CtrlVerif.Lemmas.Shape

namespace CtrlVerif

open NDArr

variable {α ω : Type}

namespace NDArr

theorem flatIdx3 {p m N i j k : Nat} (hi : i < p) (hj : j < m) (hk : k < N) :
    flatIdx [p, m, N] [i, j, k] = some ((i * m + j) * N + k) := by
  simp only [flatIdx, hi, hj, hk, if_true, List.prod_cons, List.prod_nil, mul_one, Option.map_some,
    zero_mul, zero_add, add_zero]
  congr 1
  ring

theorem flatIdx2 {p m i j : Nat} (hi : i < p) (hj : j < m) :
    flatIdx [p, m] [i, j] = some (i * m + j) := by
  simp [flatIdx, hi, hj]

theorem lt_of_idx3 {p m N i j k : Nat} (hi : i < p) (hj : j < m) (hk : k < N) :
    (i * m + j) * N + k < p * m * N := by
  have h1 : i * m + j < p * m := by
    calc i * m + j < i * m + m := by omega
      _ = (i + 1) * m := by ring
      _ ≤ p * m := Nat.mul_le_mul_right _ hi
  calc (i * m + j) * N + k < (i * m + j) * N + N := by omega
    _ = (i * m + j + 1) * N := by ring
    _ ≤ p * m * N := Nat.mul_le_mul_right _ h1

/-- what `selectLast` returns when it returns: shape `(p, m, len ks)`, and the flat entry `q`
is the source entry in the same `(output, input)` row at the `q % len ks`-th requested position. -/
theorem selectLast_spec {a r : NDArr α} {p m N : Nat} {ks : List Nat} (hs : a.shape = [p, m, N])
    (h : a.selectLast ks = .ok r) :
    (∀ k ∈ ks, k < N) ∧ r.shape = [p, m, ks.length] ∧ r.data.length = p * m * ks.length ∧
      ∀ q j, q < p * m * ks.length → ks[q % ks.length]? = some j →
        r.data[q]? = a.data[(q / ks.length) * N + j]? := by
  unfold selectLast at h
  rw [hs] at h
  simp only at h
  split at h
  · rename_i hall
    cases hg : gather a.data (p * m * ks.length) (selIdx ks N a.data.length) with
    | error e => simp [hg, Except.map] at h
    | ok l =>
      simp [hg, Except.map] at h
      subst h
      obtain ⟨hl, hk⟩ := gather_spec hg
      refine ⟨by simpa using hall, rfl, hl, ?_⟩
      intro q j hq hj
      rw [hk q hq]
      simp only [selIdx, hj]
  · cases h

/-- `selectLast` succeeds on a well-formed 3-D array when every position is in range. -/
theorem selectLast_ok {a : NDArr α} {p m N : Nat} {ks : List Nat} (hs : a.shape = [p, m, N])
    (hw : a.WF) (hk : ∀ k ∈ ks, k < N) :
    ∃ r, a.selectLast ks = .ok r ∧ r.WF ∧ r.shape = [p, m, ks.length] := by
  have hlen : a.data.length = p * m * N := by
    have : a.data.length = a.shape.prod := hw
    rw [this, hs]; simp [Nat.mul_assoc]
  have hb : ∀ q, q < p * m * ks.length → selIdx ks N a.data.length q < a.data.length := by
    intro q hq
    have hK : 0 < ks.length := by
      rcases Nat.eq_zero_or_pos ks.length with h0 | h0
      · rw [h0] at hq; simp at hq
      · exact h0
    have h1 : q % ks.length < ks.length := Nat.mod_lt _ hK
    have h2 : q / ks.length < p * m := by rw [Nat.div_lt_iff_lt_mul hK]; exact hq
    unfold selIdx
    rw [List.getElem?_eq_getElem h1]
    simp only
    have hj : ks[q % ks.length] < N := hk _ (List.getElem_mem h1)
    rw [hlen]
    calc (q / ks.length) * N + ks[q % ks.length] < (q / ks.length) * N + N := by omega
      _ = (q / ks.length + 1) * N := by ring
      _ ≤ p * m * N := Nat.mul_le_mul_right _ h2
  have hall : ks.all (· < N) = true := by simpa using hk
  unfold selectLast
  rw [hs]
  simp only [hall, if_true]
  rw [gather_ok hb]
  exact ⟨_, rfl, by simp [WF, Except.map, Nat.mul_assoc], rfl⟩

/-- entry `(i, j, k)` of `a[:, :, ks]` is entry `(i, j, ks[k])` of `a`. -/
theorem get?_selectLast {a r : NDArr α} {p m N : Nat} {ks : List Nat} (hs : a.shape = [p, m, N])
    (h : a.selectLast ks = .ok r) (i j k : Nat) (hi : i < p) (hj : j < m) (hk : k < ks.length) :
    r.get? [i, j, k] = a.get? [i, j, ks[k]] := by
  obtain ⟨hin, hrs, _, hq⟩ := selectLast_spec hs h
  have hkN : ks[k] < N := hin _ (List.getElem_mem hk)
  unfold get?
  rw [hrs, hs, flatIdx3 hi hj hk, flatIdx3 hi hj hkN]
  simp only [Option.bind_some]
  have hK : 0 < ks.length := by omega
  have e1 : ((i * m + j) * ks.length + k) / ks.length = i * m + j := by
    rw [Nat.mul_comm, Nat.mul_add_div hK]; simp [Nat.div_eq_of_lt hk]
  have e2 : ((i * m + j) * ks.length + k) % ks.length = k := by
    rw [Nat.mul_comm, Nat.mul_add_mod]; exact Nat.mod_eq_of_lt hk
  have := hq ((i * m + j) * ks.length + k) ks[k] (lt_of_idx3 hi hj hk)
    (by rw [e2]; exact List.getElem?_eq_getElem hk)
  rw [this, e1]

/-- dropping the length-one last axis of a `(p, m, 1)` array keeps entry `(i, j)`. -/
theorem get?_squeezeAxis2 {a r : NDArr α} {p m : Nat} (hs : a.shape = [p, m, 1])
    (h : a.squeezeAxis 2 = .ok r) (i j : Nat) (hi : i < p) (hj : j < m) :
    r.shape = [p, m] ∧ r.get? [i, j] = a.get? [i, j, 0] := by
  unfold squeezeAxis at h
  rw [hs] at h
  simp at h
  subst h
  refine ⟨by simp [hs], ?_⟩
  unfold get?
  simp only [hs, List.eraseIdx, flatIdx2 hi hj, flatIdx3 hi hj Nat.one_pos]
  simp

end NDArr

namespace RespFRD

variable [DecidableEq ω]

theorem lookupFreqs_nil (stored : List ω) : lookupFreqs stored [] = .ok [] := rfl

theorem lookupFreqs_cons (stored : List ω) (w : ω) (req : List ω) :
    lookupFreqs stored (w :: req) =
      (match stored.idxOf? w with
        | some i => (lookupFreqs stored req).map (i :: ·)
        | Option.none => .error .missing) := by
  unfold lookupFreqs
  rw [List.mapM_cons]
  cases stored.idxOf? w with
  | none => rfl
  | some i =>
    simp only [bind, Except.bind, pure, Except.pure, Except.map]

/-- the look-up returns, for every requested point in the order requested, the position of its
first occurrence in the stored list. -/
theorem lookupFreqs_ok_iff (stored req : List ω) (ks : List Nat) :
    lookupFreqs stored req = .ok ks ↔ req.map stored.idxOf? = ks.map some := by
  induction req generalizing ks with
  | nil =>
    rw [lookupFreqs_nil]
    cases ks <;> simp
  | cons w req ih =>
    rw [lookupFreqs_cons]
    cases hw : stored.idxOf? w with
    | none =>
      simp only
      constructor
      · intro h; cases h
      · intro h
        cases ks with
        | nil => simp at h
        | cons k ks => simp [hw] at h
    | some i =>
      simp only
      cases hr : lookupFreqs stored req with
      | error e =>
        simp only [Except.map]
        constructor
        · intro h; cases h
        · intro h
          cases ks with
          | nil => simp at h
          | cons k ks =>
            simp only [List.map_cons, List.cons.injEq] at h
            have := (ih ks).mpr h.2
            rw [hr] at this; cases this
      | ok ks' =>
        simp only [Except.map]
        have h' := (ih ks').mp hr
        constructor
        · intro h
          injection h with h
          subst h
          simp [hw, h']
        · intro h
          cases ks with
          | nil => simp at h
          | cons k ks =>
            simp only [List.map_cons, List.cons.injEq, hw, Option.some.injEq] at h
            obtain ⟨h1, h2⟩ := h
            subst h1
            have := (ih ks).mpr h2
            rw [hr] at this
            injection this with this
            subst this
            rfl

theorem lookupFreqs_length {stored req : List ω} {ks : List Nat}
    (h : lookupFreqs stored req = .ok ks) : ks.length = req.length := by
  have := congrArg List.length ((lookupFreqs_ok_iff stored req ks).mp h)
  simpa using this.symm

theorem lookupFreqs_getElem {stored req : List ω} {ks : List Nat}
    (h : lookupFreqs stored req = .ok ks) (k : Nat) (hk : k < req.length) :
    stored.idxOf? req[k] = some (ks[k]'(by rw [lookupFreqs_length h]; exact hk)) := by
  have h' := (lookupFreqs_ok_iff stored req ks).mp h
  have hk' : k < ks.length := by rw [lookupFreqs_length h]; exact hk
  have := congrArg (fun l => l[k]?) h'
  simp only [List.getElem?_map, List.getElem?_eq_getElem hk, List.getElem?_eq_getElem hk',
    Option.map_some] at this
  injection this

theorem lookupFreqs_lt {stored req : List ω} {ks : List Nat}
    (h : lookupFreqs stored req = .ok ks) : ∀ k ∈ ks, k < stored.length := by
  intro k hk
  obtain ⟨n, hn, rfl⟩ := List.getElem_of_mem hk
  have hn' : n < req.length := by rw [← lookupFreqs_length h]; exact hn
  have := lookupFreqs_getElem h n hn'
  obtain ⟨hlt, _⟩ := List.idxOf?_eq_some_iff.mp this
  exact hlt

/-- every requested frequency is stored: the look-up succeeds. -/
theorem lookupFreqs_ok_of_mem {stored req : List ω} (h : ∀ w ∈ req, w ∈ stored) :
    ∃ ks, lookupFreqs stored req = .ok ks := by
  induction req with
  | nil => exact ⟨[], rfl⟩
  | cons w req ih =>
    obtain ⟨ks, hks⟩ := ih (fun v hv => h v (List.mem_cons_of_mem _ hv))
    have hw : w ∈ stored := h w (List.mem_cons_self ..)
    cases hi : stored.idxOf? w with
    | none => exact absurd hw (List.idxOf?_eq_none_iff.mp hi)
    | some i => exact ⟨i :: ks, by rw [lookupFreqs_cons, hi, hks]; rfl⟩

/-- some requested frequency is not stored: "not all frequencies are in frequency list". -/
theorem lookupFreqs_missing {stored req : List ω} (h : ∃ w ∈ req, w ∉ stored) :
    lookupFreqs stored req = .error .missing := by
  induction req with
  | nil => obtain ⟨w, hw, _⟩ := h; cases hw
  | cons v req ih =>
    rw [lookupFreqs_cons]
    cases hi : stored.idxOf? v with
    | none => rfl
    | some i =>
      have hv : v ∈ stored := by
        have := (List.isSome_idxOf? (l := stored) (a := v)).mp (by rw [hi]; rfl)
        exact this
      obtain ⟨w, hw, hws⟩ := h
      rcases List.mem_cons.mp hw with rfl | hw'
      · exact absurd hv hws
      · simp only [ih ⟨w, hw', hws⟩, Except.map]

end RespFRD

end CtrlVerif
