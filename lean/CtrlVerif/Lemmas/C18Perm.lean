/-
Helper lemmas for `Props/C18Perm.lean`: "the processed array is the raw array under an explicit
bijection of flat positions" as a `List.Perm`.

* `Reindexed r a f` — there is an `Equiv` `σ : Fin r.length ≃ Fin a.length` whose value at position
  `i` is the explicit number `f i`, and `r[i] = a[σ i]`; it implies `r.Perm a`
  (`Reindexed.perm`), equal lengths, and is closed under elementwise maps.
* `tfMap P T k = (k % P) * T + k / P` — the flat-position map of
  `np.transpose(a, np.roll(range(a.ndim), 1))` on an array with `T` time points and `P` entries
  per time point; `tfMap T P` is its two-sided inverse (`tfMap_tfMap`), so it is a bijection
  `[0, T·P) → [0, P·T)` (`tfEquiv`).
* `timeFirst_reindexed`, `dropTrace_reindexed`, `squeezeTime_data`, `squeezeFreq_data`,
  `processTime_reindexed`, `processFreq_data` — the NumPy operations of `Model/Shape.lean`.
-/
import CtrlVerif.Lemmas.Shape
import CtrlVerif.Lemmas.History
import CtrlVerif.Model.ResponseObj
import Mathlib.Data.List.FinRange
import Mathlib.Data.Fintype.EquivFin
import Mathlib.Logic.Equiv.Defs

namespace CtrlVerif

open NDArr

variable {α β : Type}

/-! ### re-indexing by a bijection of flat positions -/

/-- `r` is `a` read through a bijection `σ` of flat positions whose values are given by the
explicit map `f`: `r[i] = a[σ i]`, `σ i = f i`. -/
def Reindexed (r a : List α) (f : Nat → Nat) : Prop :=
  ∃ σ : Fin r.length ≃ Fin a.length, (∀ i, (σ i).val = f i.val) ∧ ∀ i, r[i] = a[σ i]

theorem perm_ofFn_of_equiv {n m : Nat} (f : Fin n → α) (g : Fin m → α) (σ : Fin n ≃ Fin m)
    (h : ∀ i, f i = g (σ i)) : (List.ofFn f).Perm (List.ofFn g) := by
  have hnm : n = m := Fin.equiv_iff_eq.mp ⟨σ⟩
  subst hnm
  have hf : f = g ∘ σ := funext h
  rw [hf]
  exact Equiv.Perm.ofFn_comp_perm σ g

namespace Reindexed

theorem length_eq {r a : List α} {f : Nat → Nat} (h : Reindexed r a f) : r.length = a.length := by
  obtain ⟨σ, _, _⟩ := h
  exact Fin.equiv_iff_eq.mp ⟨σ⟩

/-- a re-indexing by a bijection is a permutation of the list. -/
theorem perm {r a : List α} {f : Nat → Nat} (h : Reindexed r a f) : r.Perm a := by
  obtain ⟨σ, _, hv⟩ := h
  have := perm_ofFn_of_equiv (fun i : Fin r.length => r[i]) (fun j : Fin a.length => a[j]) σ hv
  simpa using this

/-- entry by entry, on `Option`s: position `i` of the result is position `f i` of the source. -/
theorem getElem? {r a : List α} {f : Nat → Nat} (h : Reindexed r a f) (i : Nat)
    (hi : i < r.length) : r[i]? = a[f i]? := by
  obtain ⟨σ, hf, hv⟩ := h
  have h1 := hv ⟨i, hi⟩
  have h2 := hf ⟨i, hi⟩
  simp only at h2
  rw [List.getElem?_eq_getElem hi]
  have hlt : f i < a.length := by rw [← h2]; exact (σ ⟨i, hi⟩).isLt
  rw [List.getElem?_eq_getElem hlt]
  congr 1
  simp only [Fin.getElem_fin] at h1
  rw [h1]
  congr 1

/-- the explicit map sends positions of the result into the source, injectively. -/
theorem map_lt {r a : List α} {f : Nat → Nat} (h : Reindexed r a f) (i : Nat)
    (hi : i < r.length) : f i < a.length := by
  obtain ⟨σ, hf, _⟩ := h
  rw [← hf ⟨i, hi⟩]; exact (σ ⟨i, hi⟩).isLt

theorem injOn {r a : List α} {f : Nat → Nat} (h : Reindexed r a f) (i j : Nat)
    (hi : i < r.length) (hj : j < r.length) (hij : f i = f j) : i = j := by
  obtain ⟨σ, hf, _⟩ := h
  have : σ ⟨i, hi⟩ = σ ⟨j, hj⟩ := Fin.ext (by rw [hf, hf]; exact hij)
  exact congrArg Fin.val (σ.injective this)

theorem surjOn {r a : List α} {f : Nat → Nat} (h : Reindexed r a f) (j : Nat)
    (hj : j < a.length) : ∃ i, i < r.length ∧ f i = j := by
  obtain ⟨σ, hf, _⟩ := h
  refine ⟨(σ.symm ⟨j, hj⟩).val, (σ.symm ⟨j, hj⟩).isLt, ?_⟩
  have := hf (σ.symm ⟨j, hj⟩)
  rw [← this]; simp

protected theorem refl (a : List α) : Reindexed a a id :=
  ⟨Equiv.refl _, fun _ => rfl, fun _ => rfl⟩

theorem of_eq {r a : List α} (h : r = a) : Reindexed r a id := by
  subst h; exact Reindexed.refl r

/-- the target data may be replaced by an equal list. -/
theorem congr_right {r a a' : List α} {f : Nat → Nat} (h : Reindexed r a f) (e : a = a') :
    Reindexed r a' f := by subst e; exact h

/-- build a re-indexing from two mutually inverse explicit maps. -/
theorem of_maps {r a : List α} (f g : Nat → Nat) (hf : ∀ k, k < r.length → f k < a.length)
    (hg : ∀ j, j < a.length → g j < r.length) (hgf : ∀ k, k < r.length → g (f k) = k)
    (hfg : ∀ j, j < a.length → f (g j) = j) (hv : ∀ k, k < r.length → r[k]? = a[f k]?) :
    Reindexed r a f := by
  refine ⟨⟨fun i => ⟨f i.val, hf _ i.isLt⟩, fun j => ⟨g j.val, hg _ j.isLt⟩,
    fun i => Fin.ext (hgf _ i.isLt), fun j => Fin.ext (hfg _ j.isLt)⟩, fun _ => rfl, ?_⟩
  intro i
  have := hv i.val i.isLt
  rw [List.getElem?_eq_getElem i.isLt, List.getElem?_eq_getElem (hf _ i.isLt)] at this
  simpa using this

/-- the same bijection serves for every elementwise image of the data (magnitude, phase, …). -/
theorem map {r a : List α} {f : Nat → Nat} (g : α → β) (h : Reindexed r a f) :
    Reindexed (r.map g) (a.map g) f := by
  have hlt := h.map_lt
  have hget := h.getElem?
  have hinj := h.injOn
  obtain ⟨σ, hf, hv⟩ := h
  apply of_maps f (fun j => if hj : j < a.length then (σ.symm ⟨j, hj⟩).val else 0)
  · intro k hk
    simp only [List.length_map] at hk ⊢
    exact hlt k hk
  · intro j hj
    simp only [List.length_map] at hj ⊢
    simp only [hj, dif_pos]
    exact (σ.symm ⟨j, hj⟩).isLt
  · intro k hk
    simp only [List.length_map] at hk
    have h1 := hlt k hk
    simp only [h1, dif_pos]
    have : (⟨f k, h1⟩ : Fin a.length) = σ ⟨k, hk⟩ := Fin.ext (hf ⟨k, hk⟩).symm
    rw [this]
    simp
  · intro j hj
    simp only [List.length_map] at hj
    simp only [hj, dif_pos]
    rw [← hf (σ.symm ⟨j, hj⟩)]
    simp
  · intro k hk
    simp only [List.length_map] at hk
    rw [List.getElem?_map, List.getElem?_map, hget k hk]

end Reindexed

/-! ### the time-first map is a bijection -/

/-- flat position in the source of flat position `k` of the time-first array: `P` entries per
time point, `T` time points. -/
def tfMap (P T k : Nat) : Nat := (k % P) * T + k / P

theorem tfMap_lt {P T k : Nat} (hk : k < T * P) : tfMap P T k < P * T := by
  have hP : 0 < P := by
    rcases Nat.eq_zero_or_pos P with h0 | h0
    · subst h0; simp at hk
    · exact h0
  have h1 : k % P < P := Nat.mod_lt _ hP
  have h2 : k / P < T := by rw [Nat.div_lt_iff_lt_mul hP]; exact hk
  unfold tfMap
  calc (k % P) * T + k / P < (k % P) * T + T := by omega
    _ = (k % P + 1) * T := by ring
    _ ≤ P * T := Nat.mul_le_mul_right _ h1

/-- `tfMap T P` undoes `tfMap P T`. -/
theorem tfMap_tfMap {P T k : Nat} (hk : k < T * P) : tfMap T P (tfMap P T k) = k := by
  have hP : 0 < P := by
    rcases Nat.eq_zero_or_pos P with h0 | h0
    · subst h0; simp at hk
    · exact h0
  have h2 : k / P < T := by rw [Nat.div_lt_iff_lt_mul hP]; exact hk
  have hT : 0 < T := Nat.lt_of_le_of_lt (Nat.zero_le _) h2
  unfold tfMap
  have e1 : ((k % P) * T + k / P) % T = k / P := by
    rw [Nat.mul_comm, Nat.mul_add_mod]; exact Nat.mod_eq_of_lt h2
  have e2 : ((k % P) * T + k / P) / T = k % P := by
    rw [Nat.mul_comm, Nat.mul_add_div hT]; simp [Nat.div_eq_of_lt h2]
  rw [e1, e2]
  have := Nat.div_add_mod k P
  rw [Nat.mul_comm] at this
  exact this

/-- the time-first map as a bijection between the flat positions of the two arrays. -/
def tfEquiv (P T : Nat) : Fin (T * P) ≃ Fin (P * T) where
  toFun i := ⟨tfMap P T i.val, tfMap_lt i.isLt⟩
  invFun j := ⟨tfMap T P j.val, tfMap_lt j.isLt⟩
  left_inv i := Fin.ext (tfMap_tfMap i.isLt)
  right_inv j := Fin.ext (tfMap_tfMap j.isLt)

theorem tfEquiv_apply (P T : Nat) (i : Fin (T * P)) : ((tfEquiv P T) i).val = tfMap P T i.val := rfl

/-- the flat-position map of `timeFirst` on an array of the given shape (identity for a 0-d
array). -/
def tfIdx (shape : List Nat) : Nat → Nat :=
  match shape.getLast? with
  | none => id
  | some T => tfMap shape.dropLast.prod T

/-- the shape after `timeFirst`. -/
def tfShape (shape : List Nat) : List Nat :=
  match shape.getLast? with
  | none => shape
  | some T => T :: shape.dropLast

namespace NDArr

/-- `timeFirst` re-indexes the flat data by the bijection `tfMap`. -/
theorem timeFirst_reindexed {a r : NDArr α} (hw : a.WF) (h : a.timeFirst = .ok r) :
    r.shape = tfShape a.shape ∧ Reindexed r.data a.data (tfIdx a.shape) := by
  cases hl : a.shape.getLast? with
  | none =>
    have : r = a := by
      have : a.timeFirst = .ok a := by simp [timeFirst, hl]
      rw [this] at h; injection h with h; exact h.symm
    subst this
    refine ⟨by simp [tfShape, hl], ?_⟩
    simp only [tfIdx, hl]
    exact Reindexed.refl _
  | some T =>
    obtain ⟨pre, hs⟩ := List.getLast?_eq_some_iff.mp hl
    have hd : a.shape.dropLast = pre := by simp [hs]
    obtain ⟨hrs, hrl, hk⟩ := timeFirst_spec hs h
    have hal : a.data.length = pre.prod * T := by
      have : a.data.length = a.shape.prod := hw
      rw [this, hs]; simp
    refine ⟨by simp [tfShape, hl, hd, hrs], ?_⟩
    simp only [tfIdx, hl, hd]
    apply Reindexed.of_maps (tfMap pre.prod T) (tfMap T pre.prod)
    · intro k hk'; rw [hal]; exact tfMap_lt (by rwa [hrl] at hk')
    · intro j hj; rw [hrl]; exact tfMap_lt (by rwa [hal] at hj)
    · intro k hk'; exact tfMap_tfMap (by rwa [hrl] at hk')
    · intro j hj; exact tfMap_tfMap (by rwa [hal] at hj)
    · intro k hk'; exact hk k (by rwa [hrl] at hk')

/-- `x[:, 0, :]` of an array with exactly one trace keeps every entry, in order. -/
theorem dropTrace_one {a r : NDArr α} {n T : Nat} (hs : a.shape = [n, 1, T]) (hw : a.WF)
    (h : a.dropTrace = .ok r) : r = ⟨[n, T], a.data⟩ := by
  obtain ⟨_, hrs, hrl, hk⟩ := dropTrace_spec hs h
  have hal : a.data.length = n * T := by
    have : a.data.length = a.shape.prod := hw
    rw [this, hs]; simp
  cases r with
  | mk rs rd =>
    simp only at hrs hrl hk
    subst hrs
    congr 1
    apply List.ext_getElem?
    intro k
    by_cases hkn : k < n * T
    · rw [hk k hkn]
      have hT : 0 < T := by
        rcases Nat.eq_zero_or_pos T with h0 | h0
        · subst h0; simp at hkn
        · exact h0
      congr 1
      simp only [one_mul]
      rw [Nat.mul_comm]
      exact Nat.div_add_mod k T
    · rw [List.getElem?_eq_none (by omega), List.getElem?_eq_none (by omega)]

end NDArr

/-! ### the squeeze stage keeps the flat data -/

/-- the shape after the squeeze stage of `_process_time_response`. -/
def sqShapeTime (shape : List Nat) (issiso : Bool) : Sq → List Nat
  | .true => shape.filter (· ≠ 1)
  | .none => if issiso then (if shape.length = 3 then shape.drop 2 else shape.drop 1) else shape
  | _ => shape

/-- the shape after the squeeze stage of `_process_frequency_response`. -/
def sqShapeFreq (shape : List Nat) (issiso : Bool) : Sq → List Nat
  | .true => shape.filter (· ≠ 1)
  | .none => if issiso then shape.drop 2 else shape
  | _ => shape

theorem index0_of_le_one {a r : NDArr α} (hw : a.WF) (h : a.index0 = .ok r) (p : Nat)
    (ds : List Nat) (hs : a.shape = p :: ds) (hp : p ≤ 1) : r = ⟨ds, a.data⟩ := by
  obtain ⟨d, ds', hs', hd, _, _⟩ := index0_shape_data h
  rw [hs] at hs'
  injection hs' with e1 e2
  subst e1 e2
  have : p = 1 := by omega
  subst this
  rw [index0_one hs hw] at h
  injection h with h
  exact h.symm

/-- under `SisoAxes` (or whenever the squeeze rule does not index), the squeeze stage of
`_process_time_response` returns the same flat data under the shape `sqShapeTime`. -/
theorem squeezeTime_data {a s : NDArr α} {issiso : Bool} {sq : Sq} (hw : a.WF)
    (hl : sq = .none → issiso = true → a.SisoAxes)
    (h : squeezeTime a issiso sq = .ok s) :
    s = ⟨sqShapeTime a.shape issiso sq, a.data⟩ := by
  cases sq with
  | true => simp only [squeezeTime] at h; injection h with h; subst h; rfl
  | false => simp only [squeezeTime] at h; injection h with h; subst h; rfl
  | other => simp [squeezeTime] at h
  | none =>
    cases issiso with
    | false =>
      simp only [squeezeTime] at h
      simp only [sqShapeTime]
      injection h with h; subst h; rfl
    | true =>
      have hax := hl rfl rfl
      simp only [squeezeTime, if_true] at h
      by_cases h3 : a.ndim = 3
      · simp only [h3, if_true] at h
        have hlen : a.shape.length = 3 := h3
        match hsh : a.shape, hlen with
        | [p, k, T], _ =>
          unfold NDArr.SisoAxes at hax
          rw [hsh] at hax
          cases h1 : a.index0 with
          | error e => rw [h1] at h; cases h
          | ok b =>
            rw [h1] at h
            simp only [Except.bind] at h
            have hb := index0_of_le_one hw h1 p [k, T] hsh hax.1
            subst hb
            have hwb : (⟨[k, T], a.data⟩ : NDArr α).WF := index0_wf hw h1
            have hs2 := index0_of_le_one hwb h k [T] rfl hax.2
            subst hs2
            simp [sqShapeTime]
      · simp only [h3, if_false] at h
        have hlen : a.shape.length ≠ 3 := h3
        obtain ⟨d, ds, hs', _, _, _⟩ := index0_shape_data h
        have hp : d ≤ 1 := by
          unfold NDArr.SisoAxes at hax
          rw [hs'] at hax
          split at hax
          · rename_i heq; injection heq with e1 e2; subst e1; exact hax.1
          · rename_i heq; injection heq with e1 e2; subst e1; exact hax
          · rename_i heq; cases heq
        have := index0_of_le_one hw h d ds hs' hp
        subst this
        simp [sqShapeTime, hs', hlen]
        intro hc
        exfalso
        apply hlen
        rw [hs']
        simp [hc]

theorem squeezeFreq_data {a s : NDArr α} {issiso : Bool} {sq : Sq} (hw : a.WF)
    (hl : sq = .none → issiso = true → a.SisoAxes2)
    (h : squeezeFreq a issiso sq = .ok s) :
    s = ⟨sqShapeFreq a.shape issiso sq, a.data⟩ := by
  cases sq with
  | true => simp only [squeezeFreq] at h; injection h with h; subst h; rfl
  | false => simp only [squeezeFreq] at h; injection h with h; subst h; rfl
  | other => simp [squeezeFreq] at h
  | none =>
    cases issiso with
    | false =>
      simp only [squeezeFreq] at h
      simp only [sqShapeFreq]
      injection h with h; subst h; rfl
    | true =>
      have hax := hl rfl rfl
      simp only [squeezeFreq, if_true] at h
      cases h1 : a.index0 with
      | error e => rw [h1] at h; cases h
      | ok b =>
        rw [h1] at h
        simp only [Except.bind] at h
        obtain ⟨p, ds, hs1, _, hbs, _⟩ := index0_shape_data h1
        obtain ⟨k, ds', hs2, _, _, _⟩ := index0_shape_data h
        rw [hbs] at hs2
        subst hs2
        unfold NDArr.SisoAxes2 at hax
        rw [hs1] at hax
        simp only at hax
        have hb := index0_of_le_one hw h1 p (k :: ds') hs1 hax.1
        subst hb
        have hwb : (⟨k :: ds', a.data⟩ : NDArr α).WF := index0_wf hw h1
        have hs2 := index0_of_le_one hwb h k ds' rfl hax.2
        subst hs2
        simp [sqShapeFreq, hs1]

/-! ### `_process_time_response` / `_process_frequency_response` -/

/-- the flat-position map of `_process_time_response`: the time-first map of the squeezed shape
when `transpose` is set, the identity otherwise. -/
def timeIdx (shape : List Nat) (issiso tr : Bool) (sq : Sq) : Nat → Nat :=
  if tr then tfIdx (sqShapeTime shape issiso sq) else id

/-- the shape `_process_time_response` returns. -/
def timeShape (shape : List Nat) (issiso tr : Bool) (sq : Sq) : List Nat :=
  if tr then tfShape (sqShapeTime shape issiso sq) else sqShapeTime shape issiso sq

theorem sqShapeTime_prod {a : NDArr α} {issiso : Bool} {sq : Sq} {s : NDArr α} (hw : a.WF)
    (hs : s = ⟨sqShapeTime a.shape issiso sq, a.data⟩) (hsw : s.WF) :
    (sqShapeTime a.shape issiso sq).prod = a.shape.prod := by
  subst hs
  have h1 : a.data.length = (sqShapeTime a.shape issiso sq).prod := hsw
  have h2 : a.data.length = a.shape.prod := hw
  omega

theorem squeezeTime_wf {a s : NDArr α} {issiso : Bool} {sq : Sq} (hw : a.WF)
    (h : squeezeTime a issiso sq = .ok s) : s.WF := by
  cases sq with
  | true => simp only [squeezeTime] at h; injection h with h; subst h; exact squeeze_wf hw
  | false => simp only [squeezeTime] at h; injection h with h; subst h; exact hw
  | other => simp [squeezeTime] at h
  | none =>
    simp only [squeezeTime] at h
    split at h
    · split at h
      · cases h1 : a.index0 with
        | error e => rw [h1] at h; cases h
        | ok b =>
          rw [h1] at h
          exact index0_wf (index0_wf hw h1) h
      · exact index0_wf hw h
    · injection h with h; subst h; exact hw

theorem processTime_reindexed {a r : NDArr α} {issiso tr : Bool} {arg cfg : Sq} (hw : a.WF)
    (hl : arg.resolve cfg = .none → issiso = true → a.SisoAxes)
    (h : processTime a issiso tr arg cfg = .ok r) :
    r.shape = timeShape a.shape issiso tr (arg.resolve cfg) ∧ r.WF ∧
      Reindexed r.data a.data (timeIdx a.shape issiso tr (arg.resolve cfg)) := by
  unfold processTime at h
  cases hs : squeezeTime a issiso (arg.resolve cfg) with
  | error e => rw [hs] at h; cases h
  | ok s =>
    rw [hs] at h
    simp only [Except.bind] at h
    have hsw := squeezeTime_wf hw hs
    have hsd := squeezeTime_data hw hl hs
    cases tr with
    | false =>
      simp only [Bool.false_eq_true, if_false] at h
      injection h with h
      subst h
      subst hsd
      exact ⟨by simp [timeShape], hsw, by simpa [timeIdx] using Reindexed.refl _⟩
    | true =>
      simp only [if_true] at h
      obtain ⟨hshape, hre⟩ := timeFirst_reindexed hsw h
      obtain ⟨r', hr', hrw⟩ := timeFirst_ok hsw
      rw [h] at hr'
      injection hr' with hr'
      subst hr'
      subst hsd
      exact ⟨by simpa [timeShape] using hshape, hrw, by simpa [timeIdx] using hre⟩

theorem squeezeFreq_wf {a s : NDArr α} {issiso : Bool} {sq : Sq} (hw : a.WF)
    (h : squeezeFreq a issiso sq = .ok s) : s.WF := by
  cases sq with
  | true => simp only [squeezeFreq] at h; injection h with h; subst h; exact squeeze_wf hw
  | false => simp only [squeezeFreq] at h; injection h with h; subst h; exact hw
  | other => simp [squeezeFreq] at h
  | none =>
    simp only [squeezeFreq] at h
    split at h
    · cases h1 : a.index0 with
      | error e => rw [h1] at h; cases h
      | ok b =>
        rw [h1] at h
        exact index0_wf (index0_wf hw h1) h
    · injection h with h; subst h; exact hw

/-- `np.squeeze(out, axis=2)` keeps the data, the well-formedness and the two leading axes. -/
theorem squeezeAxis2_spec {a o : NDArr α} (hw : a.WF) (h : a.squeezeAxis 2 = .ok o) :
    o.data = a.data ∧ o.WF ∧ (a.SisoAxes2 → o.SisoAxes2) := by
  unfold squeezeAxis at h
  split at h
  · rename_i h2
    injection h with h
    subst h
    match hsh : a.shape with
    | [] => simp [hsh] at h2
    | [_] => simp [hsh] at h2
    | [_, _] => simp [hsh] at h2
    | p :: k :: d :: rest =>
      rw [hsh] at h2
      simp only [List.getElem?_cons_succ, List.getElem?_cons_zero, Option.some.injEq] at h2
      subst h2
      refine ⟨rfl, ?_, ?_⟩
      · unfold NDArr.WF at hw ⊢
        simp only
        rw [hw, hsh]
        simp [List.eraseIdx]
      · intro hax
        unfold NDArr.SisoAxes2 at hax ⊢
        rw [hsh] at hax
        simpa [List.eraseIdx] using hax
  · cases h

/-- `_process_frequency_response` never moves an entry: under `SisoAxes2` the flat data is
unchanged. -/
theorem processFreq_data {a r : NDArr α} {issiso : Bool} {nd : Nat} {arg cfg : Sq} (hw : a.WF)
    (hl : arg.resolve cfg = .none → issiso = true → a.SisoAxes2)
    (h : processFreq issiso nd a arg cfg = .ok r) : r.data = a.data ∧ r.WF := by
  unfold processFreq at h
  by_cases hnd : nd < 1
  · simp only [hnd, if_true] at h
    cases ho : a.squeezeAxis 2 with
    | error e => rw [ho] at h; cases h
    | ok o =>
      rw [ho] at h
      simp only [Except.bind] at h
      obtain ⟨hod, how, hoax⟩ := squeezeAxis2_spec hw ho
      have hwf := squeezeFreq_wf how h
      have := squeezeFreq_data how (fun h1 h2 => hoax (hl h1 h2)) h
      subst this
      exact ⟨hod, hwf⟩
  · simp only [hnd, if_false] at h
    simp only [Except.bind] at h
    have hwf := squeezeFreq_wf hw h
    have := squeezeFreq_data hw hl h
    subst this
    exact ⟨rfl, hwf⟩

end CtrlVerif

/-! ### response objects: raw part, settings, routes (`Model/ResponseObj.lean`) -/

namespace CtrlVerif

open NDArr

variable {α : Type}

theorem Sq.resolve_none_left (s : Sq) : Sq.resolve .none s = s := by simp [Sq.resolve]

theorem Sq.resolve_none_right (s : Sq) : s.resolve .none = s := by cases s <;> simp [Sq.resolve]

theorem Sq.resolve_self (s : Sq) : s.resolve s = s := by cases s <;> simp [Sq.resolve]

namespace TRD

theorem ofParts_raw_settings (r : TRD α) : TRD.ofParts r.raw r.settings = r := by cases r; rfl

theorem raw_ofParts (c : TRDCore α) (s : TSettings) : (TRD.ofParts c s).raw = c := by cases c; rfl

theorem settings_ofParts (c : TRDCore α) (s : TSettings) : (TRD.ofParts c s).settings = s := by
  cases s; rfl

theorem withSettings_ofParts (c : TRDCore α) (s s' : TSettings) :
    (TRD.ofParts c s).withSettings s' = TRD.ofParts c s' := by
  simp [withSettings, raw_ofParts]

theorem callKw_eq (r : TRD α) (kw : TKw) : r.callKw kw = r.withSettings (r.settings.update kw) := by
  cases r; rfl

theorem callKw_toKw (r : TRD α) (s : TSettings) : r.callKw s.toKw = r.withSettings s := by
  cases r; cases s; rfl

theorem setAttr3 (r : TRD α) (s : TSettings) :
    ((r.setAttr (.squeeze s.squeeze)).setAttr (.transpose s.transpose)).setAttr (.returnX s.returnX)
      = r.withSettings s := by
  cases r; cases s; rfl

/-- the configuration-default route for `squeeze` on one object: attribute unset and package
default `s` reads like attribute `s` and package default unset, for every observable. -/
theorem observe_config_route (c : TRDCore α) (tgt : TSettings) (base : Cfg)
    (hb : base.sqTime = .none) (o : TObs) :
    (TRD.ofParts c { tgt with squeeze := .none }).observe (base.setSqTime tgt.squeeze) o
      = (TRD.ofParts c tgt).observe base o := by
  have e1 : Sq.resolve .none tgt.squeeze = tgt.squeeze := Sq.resolve_none_left _
  have e2 : tgt.squeeze.resolve .none = tgt.squeeze := Sq.resolve_none_right _
  have e3 : tgt.squeeze.resolve tgt.squeeze = tgt.squeeze := Sq.resolve_self _
  have hout : (TRD.ofParts c { tgt with squeeze := .none }).outputs (base.setSqTime tgt.squeeze)
      = (TRD.ofParts c tgt).outputs base := by
    simp only [TRD.outputs, TRD.ofParts, Cfg.setSqTime, processTime, hb, e1, e2]
    rfl
  have hst : (TRD.ofParts c { tgt with squeeze := .none }).states (base.setSqTime tgt.squeeze)
      = (TRD.ofParts c tgt).states base := by
    simp only [TRD.states, TRD.ofParts, Cfg.setSqTime, processTime, hb, e1, e2, e3]
    rfl
  have hin : (TRD.ofParts c { tgt with squeeze := .none }).inputs (base.setSqTime tgt.squeeze)
      = (TRD.ofParts c tgt).inputs base := by
    simp only [TRD.inputs, TRD.ofParts, Cfg.setSqTime, processTime, hb, e1, e2]
    rfl
  cases o with
  | time => rfl
  | outputs => simp only [TRD.observe, hout]
  | states => simp only [TRD.observe, hst]
  | inputs => simp only [TRD.observe, hin]
  | iter => simp only [TRD.observe, TRD.iter, hout]; rfl
  | len => rfl
  | get i =>
    match i with
    | 0 => rfl
    | 1 => simp only [TRD.observe, TRD.getitem, hout]
    | 2 => rfl
    | _ + 3 => rfl

end TRD

theorem TRD.init_eq_core_keywords (time outputs : NDArr α) (states inputs : Option (NDArr α))
    (issiso : Option Bool) (tr rx : Bool) (sq : Sq) (multi : Bool) :
    TRD.init time outputs states inputs issiso tr rx sq multi
      = (TRD.initCore time outputs states inputs issiso multi).bind
          fun c => TRD.initKeywords c ⟨sq, tr, rx⟩ := by
  simp only [TRD.init]
  cases TRD.initCore time outputs states inputs issiso multi with
  | error e => rfl
  | ok c =>
    simp only [bind, Except.bind, TRD.initKeywords]
    split <;> rfl

theorem ctorMaker_lawful' (time outputs : NDArr α) (states inputs : Option (NDArr α))
    (issiso : Option Bool) (multi : Bool) :
    (ctorMaker time outputs states inputs issiso multi).Lawful :=
  ⟨TRD.initCore time outputs states inputs issiso multi, fun s =>
    TRD.init_eq_core_keywords time outputs states inputs issiso s.transpose s.returnX s.squeeze multi⟩

theorem fnMaker_lawful' (fn : TFn) (p m n T : Nat) (inp out : Option Nat) (u1d : Bool)
    (t y : NDArr α) (x u : Option (NDArr α)) (cfg : Cfg) :
    (fnMaker fn p m n T inp out u1d t y x u cfg).Lawful := by
  cases hspec : rawSpec fn p m n T inp out u1d with
  | error e =>
    refine ⟨.error e, fun s => ?_⟩
    simp [fnMaker, timeResponse, hspec, bind, Except.bind]
  | ok spec =>
    by_cases hsh : (t.shape ≠ [T] || y.shape ≠ spec.yShape || x.map (·.shape) ≠ spec.xShape ||
     u.map (·.shape) ≠ spec.uShape) = true
    · refine ⟨.error .shape, fun s => ?_⟩
      simp only [fnMaker, timeResponse, hspec, bind, Except.bind]
      rw [if_pos hsh]
      rfl
    · obtain ⟨core, hcore⟩ := ctorMaker_lawful' t y x u (some spec.issiso) false
      refine ⟨core, fun s => ?_⟩
      simp only [fnMaker, timeResponse, hspec, bind, Except.bind]
      rw [if_neg hsh]
      exact hcore s

/-- every route of a lawful maker reads what the object `ofParts c tgt` reads under `base`. -/
theorem observeVia_eq {M : TMaker α} {core : Except Err (TRDCore α)}
    (hM : ∀ s, M.make s = core.bind fun c => TRD.initKeywords c s)
    (ρ : Route) (tgt start : TSettings) (base : Cfg) (hb : base.sqTime = .none)
    (ht : tgt.squeeze ≠ .other) (hs : start.squeeze ≠ .other) (o : TObs) :
    observeVia M ρ tgt start base o
      = core.map fun c => (TRD.ofParts c tgt).observe base o := by
  cases core with
  | error e => cases ρ <;> simp [observeVia, timeVia, hM, Except.bind, Except.map]
  | ok c =>
    have mk : ∀ s : TSettings, s.squeeze ≠ .other → M.make s = .ok (TRD.ofParts c s) := by
      intro s h; rw [hM s]; simp [Except.bind, TRD.initKeywords, h]
    cases ρ with
    | arg => simp [observeVia, timeVia, mk tgt ht, Except.map]
    | call =>
      simp only [observeVia, timeVia, mk start hs, Except.map, TRD.callKw_toKw,
        TRD.withSettings_ofParts]
    | attr =>
      simp only [observeVia, timeVia, mk start hs, Except.map, TRD.setAttr3,
        TRD.withSettings_ofParts]
    | config =>
      have h0 : ({ tgt with squeeze := Sq.none } : TSettings).squeeze ≠ .other := by simp
      simp only [observeVia, timeVia, mk _ h0, Except.map]
      rw [TRD.observe_config_route c tgt base hb o]

/-! #### frequency responses -/

namespace RespFRD

theorem ofParts_raw_settings (F : RespFRD α) : RespFRD.ofParts F.raw F.settings = F := by
  cases F; rfl

theorem withSettings_ofParts (c : NDArr α × Nat) (s s' : FSettings) :
    (RespFRD.ofParts c s).withSettings s' = RespFRD.ofParts c s' := rfl

theorem callKw_eq (F : RespFRD α) (kw : FKw) :
    F.callKw kw = F.withSettings (F.settings.update kw) := by cases F; rfl

theorem setAttr2 (F : RespFRD α) (s : FSettings) :
    (F.setAttr (.squeeze s.squeeze)).setAttr (.returnMagphase s.returnMagphase)
      = F.withSettings s := by cases F; cases s; rfl

theorem processed_config_route (c : NDArr α × Nat) (tgt : FSettings) (base : Cfg)
    (hb : base.sqFreq = .none) :
    (RespFRD.ofParts c { tgt with squeeze := .none }).processed (base.setSqFreq tgt.squeeze)
      = (RespFRD.ofParts c tgt).processed base := by
  have e1 : Sq.resolve .none tgt.squeeze = tgt.squeeze := Sq.resolve_none_left _
  have e2 : tgt.squeeze.resolve .none = tgt.squeeze := Sq.resolve_none_right _
  simp only [RespFRD.processed, RespFRD.ofParts, Cfg.setSqFreq, processFreq, hb, e1, e2,
    RespFRD.issiso, RespFRD.noutputs, RespFRD.ninputs]
  rfl

theorem observe_config_route (c : NDArr α × Nat) (tgt : FSettings) (base : Cfg)
    (hb : base.sqFreq = .none) (o : FObs) :
    (RespFRD.ofParts c { tgt with squeeze := .none }).observe (base.setSqFreq tgt.squeeze) o
      = (RespFRD.ofParts c tgt).observe base o := by
  have hp := processed_config_route c tgt base hb
  cases o with
  | magnitude => simp only [RespFRD.observe, RespFRD.magnitude, hp]
  | phase => simp only [RespFRD.observe, RespFRD.phase, hp]
  | complex => simp only [RespFRD.observe, RespFRD.complex, hp]
  | iter => simp only [RespFRD.observe, RespFRD.iter, hp]; rfl
  | frdata => rfl

end RespFRD

/-- the array part of `FrequencyResponseData.__init__`: the stored `(p, m, N)` data and `N`. -/
def RespFRD.initCore (response : NDArr α) (omegaShape : List Nat) : Except Err (NDArr α × Nat) :=
  let r := response.atleast1d
  let d : NDArr α := if r.ndim = 1 then ⟨1 :: 1 :: r.shape, r.data⟩ else r
  let om := if omegaShape = [] then [1] else omegaShape
  match d.shape, om with
  | [_, _, N], [N'] => if N ≠ N' then .error .shape else .ok (d, N)
  | _, _ => .error .shape

theorem frdMake_eq (response : NDArr α) (omegaShape : List Nat) (s : FSettings) :
    frdMake response omegaShape s = (RespFRD.initCore response omegaShape).bind fun c =>
      if s.squeeze = .other then .error .badArg else .ok (RespFRD.ofParts c s) := by
  simp only [frdMake, RespFRD.init, RespFRD.initCore]
  generalize (if response.atleast1d.ndim = 1 then
    (⟨1 :: 1 :: response.atleast1d.shape, response.atleast1d.data⟩ : NDArr α)
    else response.atleast1d) = d
  generalize (if omegaShape = [] then [1] else omegaShape) = om
  generalize hsh : d.shape = sh
  split
  · rename_i N N'
    by_cases hN : N = N'
    · subst hN
      by_cases hs : s.squeeze = .other
      · simp [hs, Except.bind, bind, throw, throwThe, MonadExceptOf.throw]
      · simp [hs, Except.bind, bind, pure, Except.pure, RespFRD.ofParts]
    · simp [hN, Except.bind, bind, throw, throwThe, MonadExceptOf.throw]
  · simp [Except.bind, bind, throw, throwThe, MonadExceptOf.throw]

theorem freqObserveVia_eq (response : NDArr α) (omegaShape : List Nat) (ρ : Route)
    (tgt start : FSettings) (base : Cfg) (hb : base.sqFreq = .none)
    (ht : tgt.squeeze ≠ .other) (hs : start.squeeze ≠ .other)
    (hn : tgt.squeeze = .none → start.squeeze = .none) (o : FObs) :
    freqObserveVia response omegaShape ρ tgt start base o
      = (RespFRD.initCore response omegaShape).map fun c =>
          (RespFRD.ofParts c tgt).observe base o := by
  cases hc : RespFRD.initCore response omegaShape with
  | error e => cases ρ <;> simp [freqObserveVia, freqVia, frdMake_eq, hc, Except.bind, Except.map]
  | ok c =>
    have mk : ∀ s : FSettings, s.squeeze ≠ .other →
        frdMake response omegaShape s = .ok (RespFRD.ofParts c s) := by
      intro s h; rw [frdMake_eq, hc]; simp [Except.bind, h]
    cases ρ with
    | arg => simp [freqObserveVia, freqVia, mk tgt ht, Except.map]
    | call =>
      have : (RespFRD.ofParts c start).callKw tgt.toKw = RespFRD.ofParts c tgt := by
        rw [RespFRD.callKw_eq, RespFRD.withSettings_ofParts]
        congr 1
        cases tgt with
        | mk tsq trm =>
          cases start with
          | mk ssq srm =>
            simp only [RespFRD.settings, RespFRD.ofParts, FSettings.update, FSettings.toKw,
              Option.getD]
            by_cases h : tsq = .none
            · have := hn h; simp only at this; simp [h, this]
            · simp [h]
      simp only [freqObserveVia, freqVia, mk start hs, Except.map, this]
    | attr =>
      simp only [freqObserveVia, freqVia, mk start hs, Except.map, RespFRD.setAttr2,
        RespFRD.withSettings_ofParts]
    | config =>
      have h0 : ({ tgt with squeeze := Sq.none } : FSettings).squeeze ≠ .other := by simp
      simp only [freqObserveVia, freqVia, mk _ h0, Except.map]
      rw [RespFRD.observe_config_route c tgt base hb o]

end CtrlVerif
