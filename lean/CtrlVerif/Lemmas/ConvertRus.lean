/-
Helper lemmas for `Props/C03Rus.lean`: restricting a state-space system to a subset of its states
that contains every state that matters (`SS.restrict`), on arbitrary finite index types.
-/
import CtrlVerif.Model.ConvertRus
import CtrlVerif.Lemmas.Convert
import Mathlib.Algebra.BigOperators.Group.Finset.Basic

namespace CtrlVerif

open Matrix

namespace SS

variable {K : Type*} [Field K]
variable {σ σ' ι o : Type*} [Fintype σ] [DecidableEq σ] [Fintype σ'] [DecidableEq σ']

theorem resolvent_apply (A : Matrix σ σ K) (X : Matrix σ ι K) (s : K) (i : σ) (j : ι) :
    ((s • (1 : Matrix σ σ K) - A) * X) i j = s * X i j - ∑ l, A i l * X l j := by
  rw [Matrix.sub_mul, Matrix.smul_mul, Matrix.one_mul, Matrix.sub_apply, Matrix.smul_apply,
    Matrix.mul_apply, smul_eq_mul]

/-- a sum over all states is the sum over the kept states when every other term has a zero
factor. -/
theorem sum_restrict (e : σ' → σ) (he : Function.Injective e) (P Q : σ → Prop)
    (hU : ∀ k, k ∉ Set.range e → P k ∨ Q k) (a x : σ → K)
    (hx : ∀ k, k ∉ Set.range e → P k → x k = 0) (ha : ∀ k, k ∉ Set.range e → Q k → a k = 0) :
    ∑ l, a l * x l = ∑ l', a (e l') * x (e l') := by
  symm
  apply Fintype.sum_of_injective e he
  · intro k hk
    rcases hU k hk with h | h
    · rw [hx k hk h, mul_zero]
    · rw [ha k hk h, zero_mul]
  · intro _; rfl

/-- a state that nothing drives has zero response off `s = 0`. -/
theorem rowUseless_state_zero (G : SS σ ι o K) (s : K) (hs : s ≠ 0) (X : Matrix σ ι K)
    (hX : (s • (1 : Matrix σ σ K) - G.A) * X = G.B) (k : σ) (hk : G.RowUseless k) (j : ι) :
    X k j = 0 := by
  have h := congrFun (congrFun hX k) j
  rw [resolvent_apply, hk.2 j] at h
  have h0 : ∑ l, G.A k l * X l j = 0 := Finset.sum_eq_zero fun l _ => by rw [hk.1 l, zero_mul]
  rw [h0, sub_zero] at h
  exact (mul_eq_zero.mp h).resolve_left hs

/-- **dropping useless states, forward**: every value of `G` at `s ≠ 0` is a value of the
restricted system. -/
theorem Resp.restrict (G : SS σ ι o K) (e : σ' → σ) (he : Function.Injective e)
    (hU : ∀ k, k ∉ Set.range e → G.RowUseless k ∨ G.ColUseless k) (s : K) (hs : s ≠ 0)
    (Y : Matrix o ι K) (h : G.Resp s Y) : (G.restrict e).Resp s Y := by
  obtain ⟨X, hX, rfl⟩ := h
  have hz : ∀ j k, k ∉ Set.range e → G.RowUseless k → X k j = 0 :=
    fun j k _ hk => rowUseless_state_zero G s hs X hX k hk j
  refine ⟨X.submatrix e id, ?_, ?_⟩
  · ext i j
    have h := congrFun (congrFun hX (e i)) j
    rw [resolvent_apply] at h ⊢
    rw [sum_restrict e he G.RowUseless G.ColUseless hU (fun l => G.A (e i) l) (fun l => X l j)
      (hz j) (fun k _ hk => hk.1 (e i))] at h
    simpa [SS.restrict] using h
  · ext i j
    simp only [Matrix.add_apply, Matrix.mul_apply]
    rw [sum_restrict e he G.RowUseless G.ColUseless hU (fun l => G.C i l) (fun l => X l j)
      (hz j) (fun k _ hk => hk.2 i)]
    simp [SS.restrict]

/-- **dropping useless states, backward**: every value of the restricted system at `s ≠ 0` is a
value of `G` (the dropped states get the response `0` when nothing drives them and
`(B_k + Σ A_kl X_l) / s` otherwise). -/
theorem Resp.of_restrict (G : SS σ ι o K) (e : σ' → σ) (he : Function.Injective e)
    (hU : ∀ k, k ∉ Set.range e → G.RowUseless k ∨ G.ColUseless k) (s : K) (hs : s ≠ 0)
    (Y : Matrix o ι K) (h : (G.restrict e).Resp s Y) : G.Resp s Y := by
  classical
  obtain ⟨X', hX', rfl⟩ := h
  let X : Matrix σ ι K := fun k j =>
    if hk : ∃ k', e k' = k then X' hk.choose j
    else if G.RowUseless k then 0
    else (G.B k j + ∑ l', G.A k (e l') * X' l' j) / s
  have hXe : ∀ k' j, X (e k') j = X' k' j := by
    intro k' j
    have hk : ∃ k'', e k'' = e k' := ⟨k', rfl⟩
    have : hk.choose = k' := he hk.choose_spec
    simp only [X, dif_pos hk, this]
  have hz : ∀ j k, k ∉ Set.range e → G.RowUseless k → X k j = 0 := by
    intro j k hk hr
    have : ¬ ∃ k', e k' = k := fun ⟨k', h⟩ => hk ⟨k', h⟩
    simp only [X, dif_neg this, if_pos hr]
  have hsumA : ∀ i j, ∑ l, G.A i l * X l j = ∑ l', G.A i (e l') * X' l' j := by
    intro i j
    rw [sum_restrict e he G.RowUseless G.ColUseless hU (fun l => G.A i l) (fun l => X l j)
      (hz j) (fun k _ hk => hk.1 i)]
    exact Finset.sum_congr rfl fun l' _ => by rw [hXe]
  refine ⟨X, ?_, ?_⟩
  · ext i j
    rw [resolvent_apply, hsumA]
    by_cases hi : ∃ i', e i' = i
    · obtain ⟨i', rfl⟩ := hi
      have h := congrFun (congrFun hX' i') j
      rw [resolvent_apply] at h
      rw [hXe]
      simpa [SS.restrict] using h
    · have hi' : i ∉ Set.range e := fun ⟨i', h⟩ => hi ⟨i', h⟩
      by_cases hr : G.RowUseless i
      · rw [hz j i hi' hr, hr.2 j]
        have : ∑ l', G.A i (e l') * X' l' j = 0 :=
          Finset.sum_eq_zero fun l _ => by rw [hr.1, zero_mul]
        rw [this]; ring
      · have hx : X i j = (G.B i j + ∑ l', G.A i (e l') * X' l' j) / s := by
          simp only [X, dif_neg hi, if_neg hr]
        rw [hx]
        field_simp
        ring
  · ext i j
    simp only [Matrix.add_apply, Matrix.mul_apply]
    rw [sum_restrict e he G.RowUseless G.ColUseless hU (fun l => G.C i l) (fun l => X l j)
      (hz j) (fun k _ hk => hk.2 i)]
    simp [SS.restrict, hXe]

end SS

namespace Convert

variable {K : Type} [Field K] [DecidableEq K]

/-! ### the run-time layer: `keptStates` is what the typed lemmas need -/

theorem uselessRow_iff (G : DSS K) (k : Fin G.n) :
    uselessRow G k = true ↔ G.sys.RowUseless k := by
  simp [uselessRow, SS.RowUseless, List.all_eq_true]

theorem uselessCol_iff (G : DSS K) (k : Fin G.n) :
    uselessCol G k = true ↔ G.sys.ColUseless k := by
  simp [uselessCol, SS.ColUseless, List.all_eq_true]

theorem keptStates_nodup (G : DSS K) : (keptStates G).Nodup :=
  (List.nodup_finRange G.n).filter _

theorem mem_keptStates (G : DSS K) (k : Fin G.n) : k ∈ keptStates G ↔ useless G k = false := by
  simp [keptStates]

theorem keptStates_get_injective (G : DSS K) : Function.Injective (keptStates G).get :=
  List.nodup_iff_injective_get.mp (keptStates_nodup G)

theorem not_kept_useless (G : DSS K) (k : Fin G.n) (hk : k ∉ Set.range (keptStates G).get) :
    G.sys.RowUseless k ∨ G.sys.ColUseless k := by
  have hm : k ∉ keptStates G := by
    intro hm
    obtain ⟨i, hi⟩ := List.mem_iff_get.mp hm
    exact hk ⟨i, hi⟩
  rw [mem_keptStates] at hm
  have hu : useless G k = true := by
    cases h : useless G k
    · exact absurd h hm
    · rfl
  unfold useless at hu
  rw [Bool.or_eq_true] at hu
  rcases hu with h | h
  · exact Or.inl ((uselessRow_iff G k).mp h)
  · exact Or.inr ((uselessCol_iff G k).mp h)

theorem removeUseless_sys (G : DSS K) :
    (removeUseless G).sys = G.sys.restrict (keptStates G).get := rfl

end Convert

end CtrlVerif
