/-
Helper lemmas about the Python primitives of `Model/PyVal.lean`: how they reduce on values of
known class, and how sequence indexing / slicing relate to the index model of C17
(`normIdx`, `sliceList`).
-/
import CtrlVerif.Model.PyVal
import CtrlVerif.Lemmas.Index

namespace CtrlVerif.Py

open CtrlVerif Index

/-! ### `mapM` in `Except` -/

theorem mapM_congr_map {α β γ : Type} (f : α → Except Err β) (g : α → Except Err γ) (h : γ → β)
    (l : List α) (H : ∀ a ∈ l, f a = (g a).map h) : l.mapM f = (l.mapM g).map (List.map h) := by
  induction l with
  | nil => rfl
  | cons a t ih =>
    have h1 := H a (by simp)
    have h2 := ih (fun x hx => H x (by simp [hx]))
    rw [List.mapM_cons, List.mapM_cons, h1, h2]
    cases g a with
    | error e => rfl
    | ok b =>
      cases List.mapM g t with
      | error e => rfl
      | ok bs => rfl

theorem mapM_congr {α β : Type} (f g : α → Except Err β) (l : List α)
    (H : ∀ a ∈ l, f a = g a) : l.mapM f = l.mapM g := by
  induction l with
  | nil => rfl
  | cons a t ih =>
    rw [List.mapM_cons, List.mapM_cons, H a (by simp), ih (fun x hx => H x (by simp [hx]))]

theorem mapM_map {α β γ : Type} (f : β → Except Err γ) (g : α → β) (l : List α) :
    (l.map g).mapM f = l.mapM (fun a => f (g a)) := by
  induction l with
  | nil => rfl
  | cons a t ih => simp [List.mapM_cons, ih]

/-! ### reduction on values of known class -/

@[simp] theorem toInt_int (i : Int) : toInt (.int i) = .ok i := rfl

@[simp] theorem mkSlice_int (a b c : Int) :
    mkSlice (.int a) (.int b) (.int c) = .ok (.slice (some a) (some b) (some c)) := rfl

@[simp] theorem len_list (xs : List PyVal) : len (.list xs) = .ok (xs.length : Int) := rfl

@[simp] theorem getitem_list_slice (xs : List PyVal) (a b c : Option Int) :
    getitem (.list xs) (.slice a b c) = (seqSlice xs a b c).map .list := rfl

@[simp] theorem getitem_list_int (xs : List PyVal) (i : Int) :
    getitem (.list xs) (.int i) = seqIndex xs i := rfl

@[simp] theorem getitem_range_slice (s e st : Int) (a b c : Option Int) :
    getitem (.range s e st) (.slice a b c) =
      (sliceIndices a b c (rangeLen s e st)).map
        (fun r => .range (s + r.1 * st) (s + r.2.1 * st) (st * r.2.2)) := by
  simp only [getitem]
  cases sliceIndices a b c (rangeLen s e st) with
  | error e => rfl
  | ok r => obtain ⟨a', b', c'⟩ := r; rfl

@[simp] theorem iter_list (xs : List PyVal) : iter (.list xs) = .ok xs := rfl

@[simp] theorem rangeLen_zero_one (n : Nat) : rangeLen 0 n 1 = n := by
  unfold rangeLen
  by_cases h : (0 : Int) < n
  · simp [h]; omega
  · have : n = 0 := by omega
    subst this; simp

/-! ### sequence indexing is `normIdx`, sequence slicing is `sliceList` -/

/-- `seq[i]` is the element at the position `normIdx` computes (same wrap-around, same
IndexError). -/
theorem seqIndex_eq_normIdx {α : Type} (xs : List α) (i : Int) :
    seqIndex xs i = (normIdx xs.length i).map (fun k => xs.get k) := by
  unfold seqIndex normIdx
  by_cases h1 : 0 ≤ i ∧ i < xs.length
  · have h0 : ¬ i < 0 := by omega
    have hlt : i.toNat < xs.length := by omega
    simp [h1, h0, Except.map, List.getElem?_eq_getElem hlt]
  · by_cases h2 : -(xs.length : Int) ≤ i ∧ i < 0
    · have hlt : (i + xs.length).toNat < xs.length := by omega
      have h3 : 0 ≤ i + xs.length := by omega
      simp [h1, h2, h3, Except.map, List.getElem?_eq_getElem hlt]
    · simp only [h1, h2, dite_false, Except.map]
      by_cases h0 : i < 0
      · have h3 : ¬ 0 ≤ i + xs.length := by omega
        simp [h0, h3]
      · have h3 : xs.length ≤ i.toNat := by omega
        simp [h0, List.getElem?_eq_none h3]

/-- on a valid position `toFin` and `normIdx` agree. -/
theorem normIdx_eq_toFin {n : Nat} {i : Int} (h : 0 ≤ i ∧ i < n) : normIdx n i = toFin n i := by
  simp [normIdx, toFin, h]

/-- `seq[a:b:c]` lists the elements at the positions `sliceList a b c (len seq)` selects. -/
theorem seqSlice_eq_sliceList {α : Type} (xs : List α) (a b c : Option Int) :
    seqSlice xs a b c = (sliceList a b c xs.length).map (fun rows => rows.map (fun k => xs.get k)) := by
  unfold seqSlice sliceList
  by_cases hc : stepOf c = 0
  · simp [sliceIndices, hc, bind, Except.bind, Except.map]
  · obtain ⟨s, e, h1, hpos, hneg⟩ := sliceIndices_ok a b c xs.length hc
    have hb := range_in_bounds hpos hneg hc
    rw [h1]
    show List.mapM (seqIndex xs) _ = (List.mapM (toFin xs.length) _).map _
    apply mapM_congr_map
    intro x hx
    rw [seqIndex_eq_normIdx, normIdx_eq_toFin (hb x hx)]

/-- the positions of `range(n)[a:b:c]`, used as integer indices, are `sliceList a b c n`. -/
theorem range_slice_eq_sliceList (n : Nat) (a b c : Option Int) :
    (sliceIndices a b c n).bind
        (fun r => (rangeList (0 + r.1 * 1) (1 * r.2.2) (rangeLen (0 + r.1 * 1) (0 + r.2.1 * 1) (1 * r.2.2))).mapM
          (normIdx n))
      = sliceList a b c n := by
  unfold sliceList
  by_cases hc : stepOf c = 0
  · simp [sliceIndices, hc, bind, Except.bind]
  · obtain ⟨s, e, h1, hpos, hneg⟩ := sliceIndices_ok a b c n hc
    have hb := range_in_bounds hpos hneg hc
    rw [h1]
    simp only [Except.bind, bind, zero_add, mul_one, one_mul]
    apply mapM_congr
    intro x hx
    exact normIdx_eq_toFin (hb x hx)

/-! ### the unit slice `slice(k, k+1, 1)` -/

theorem sliceList_unit_int {n : Nat} {k : Int} (h : 0 ≤ k ∧ k < n) :
    sliceList (some k) (some (k + 1)) (some 1) n = .ok [⟨k.toNat, by omega⟩] := by
  have := sliceList_unit (⟨k.toNat, by omega⟩ : Fin n)
  simpa [Int.toNat_of_nonneg h.1] using this

theorem sliceIndices_unit_int {n : Nat} {k : Int} (h : 0 ≤ k ∧ k < n) :
    sliceIndices (some k) (some (k + 1)) (some 1) n = .ok (k, k + 1, 1) := by
  simp [sliceIndices, stepOf, startOf, stopOf, clamp, lowerB, upperB]
  omega

theorem rangeList_unit (k : Int) : rangeList k 1 (rangeLen k (k + 1) 1) = [k] := by
  simp [rangeLen, rangeList]

end CtrlVerif.Py
