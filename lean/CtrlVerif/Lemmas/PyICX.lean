/-
Helper lemmas for `Props/C07GenX*.lean` (generated function = model): loops that append to a list
(`List.foldlM` whose body is pointwise `pure (acc ++ h x)`), dictionary look-up by a key of the
dictionary, the final `None` test of `_find_signals`.  Free to change.
-/
import CtrlVerif.Model.PyICX
import CtrlVerif.Lemmas.PyIC

namespace CtrlVerif.PyICX

open IC PyIC

variable {K : Type}

/-- a loop whose body appends `h x` to the accumulator collects `flatMap h`. -/
theorem foldlM_append {α β : Type} (f : List β → α → Except Err (List β)) (h : α → List β)
    (l : List α) (hf : ∀ acc x, x ∈ l → f acc x = .ok (acc ++ h x)) (acc : List β) :
    l.foldlM f acc = .ok (acc ++ l.flatMap h) := by
  induction l generalizing acc with
  | nil => simp
  | cons a l ih =>
    rw [List.foldlM_cons, hf acc a (List.mem_cons_self ..)]
    simp only [ok_bind]
    rw [ih (fun acc x hx => hf acc x (List.mem_cons_of_mem _ hx))]
    simp [List.flatMap_cons, List.append_assoc]

/-- the string behind a value (TypeError otherwise). -/
def strOf : Val K → Except Err Str
  | .str s => .ok s
  | _ => .error .badArg

theorem nameList_list_eq (l : List (Val K)) : nameList (.list l) = l.mapM strOf := by
  unfold nameList
  congr 1

theorem nameList_tuple_eq (l : List (Val K)) : nameList (.tuple l) = l.mapM strOf := by
  unfold nameList
  congr 1

/-- the same for a loop over values of which only the strings are accepted (the others raise). -/
theorem foldlM_names {β : Type} (f : List β → Val K → Except Err (List β)) (h : Str → List β)
    (hs : ∀ acc s, f acc (.str s) = .ok (acc ++ h s))
    (hb : ∀ acc x, (∀ s, x ≠ .str s) → f acc x = .error .badArg) (l : List (Val K)) (acc : List β) :
    l.foldlM f acc =
      (l.mapM strOf).map fun names => acc ++ names.flatMap h := by
  induction l generalizing acc with
  | nil => simp
  | cons a l ih =>
    rw [List.foldlM_cons, List.mapM_cons]
    cases a with
    | str s =>
      rw [hs]
      simp only [ok_bind, ih, strOf]
      cases l.mapM strOf with
      | error e => rfl
      | ok names => simp [List.flatMap_cons, List.append_assoc]
    | none => rw [hb _ _ (by intro s; simp)]; simp [strOf]
    | int i => rw [hb _ _ (by intro s; simp)]; simp [strOf]
    | num x => rw [hb _ _ (by intro s; simp)]; simp [strOf]
    | list l' => rw [hb _ _ (by intro s; simp)]; simp [strOf]
    | tuple l' => rw [hb _ _ (by intro s; simp)]; simp [strOf]
    | other => rw [hb _ _ (by intro s; simp)]; simp [strOf]

/-- in a dictionary (distinct keys) the value of the `k`-th key is `k`. -/
theorem lookup_of_nodup (labels : List Label) (hnd : (labels.map (·.raw)).Nodup) (k : Nat) (l : Label)
    (hk : labels[k]? = some l) : lookup labels l.raw = some k := by
  obtain ⟨hlt, hl⟩ := List.getElem?_eq_some_iff.mp hk
  rw [lookup, List.findIdx?_eq_some_iff_getElem]
  refine ⟨hlt, by simp [hl], ?_⟩
  intro j hji hj
  have hjl : j < labels.length := Nat.lt_trans hji hlt
  have hraw : labels[j].raw = l.raw := by simpa using hj
  have := (List.Nodup.getElem_inj_iff hnd (i := j) (j := k)
    (hi := by simpa using hjl) (hj := by simpa using hlt)).mp (by simp [hraw, hl])
  omega

theorem flatMap_dictGet_aux (D : List Label) (p : Label → Bool) (z : List (Label × Nat))
    (h : ∀ lk ∈ z, dictGet D lk.1 = some lk.2) :
    z.flatMap (fun lk => if p lk.1 then [dictGet D lk.1] else []) =
      (z.filterMap fun lk => if p lk.1 then some lk.2 else Option.none).map some := by
  induction z with
  | nil => rfl
  | cons a z ih =>
    have ha := h a (List.mem_cons_self ..)
    have ih' := ih (fun lk hlk => h lk (List.mem_cons_of_mem _ hlk))
    rw [List.flatMap_cons, ih', List.filterMap_cons]
    by_cases hp : p a.1
    · simp only [hp, if_true, ha, List.map_cons, List.singleton_append]
    · simp only [hp, Bool.false_eq_true, if_false, List.nil_append]

/-- a loop over the keys that collects `sigdict.get(var)` of the selected keys collects their
positions in dictionary order. -/
theorem flatMap_dictGet (labels : List Label) (hnd : (labels.map (·.raw)).Nodup) (p : Label → Bool) :
    labels.flatMap (fun var => if p var then [dictGet labels var] else []) =
      (labels.zipIdx.filterMap fun lk => if p lk.1 then some lk.2 else Option.none).map some := by
  have h : ∀ lk ∈ labels.zipIdx, dictGet labels lk.1 = some lk.2 := by
    intro lk hlk
    have := List.mem_zipIdx hlk
    exact lookup_of_nodup labels hnd lk.2 lk.1 (by
      have h2 := this.2.2
      simp at h2
      rw [List.getElem?_eq_some_iff]
      exact ⟨by omega, by simpa using h2.symm⟩)
  rw [← flatMap_dictGet_aux labels p labels.zipIdx h]
  have e : labels.flatMap (fun var => if p var then [dictGet labels var] else [])
      = (labels.zipIdx.map Prod.fst).flatMap (fun var => if p var then [dictGet labels var] else []) := by
    simp
  rw [e, List.flatMap_map]

/-- the last statement of `_find_signals`. -/
theorem final_none (l : List (Option Nat)) :
    (if (l.length == 0 || l.any fun idx => idx.isNone) then Option.none else some l) =
      (if l.isEmpty then Option.none else l.mapM id).map (·.map some) := by
  have key : ∀ l : List (Option Nat),
      (l.mapM id).map (·.map some) = if (l.any fun idx => idx.isNone) then Option.none else some l := by
    intro l
    induction l with
    | nil => simp
    | cons a l ih =>
      cases a with
      | none => simp [List.mapM_cons]
      | some x =>
        simp only [List.mapM_cons, id, List.any_cons, Option.isNone_some, Bool.false_or]
        cases hm : l.mapM id with
        | none => simp [hm] at ih ⊢; simpa using ih
        | some r => simp [hm] at ih ⊢; simpa using ih
  cases l with
  | nil => simp
  | cons a l =>
    have e : (a :: l).isEmpty = false := rfl
    rw [e]
    simp only [Bool.false_eq_true, if_false]
    rw [key]
    simp

end CtrlVerif.PyICX
