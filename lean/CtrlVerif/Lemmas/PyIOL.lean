/-
Helper lemmas for `Props/C07GenXList*.lean` (generated `inplist` / `outlist` loops = model): loops
that append one element per step, `xs[i].append(x)` over `enumerate`.  Free to change.
-/
import CtrlVerif.Model.PyIOL
import CtrlVerif.Lemmas.PyICX

namespace CtrlVerif.PyIOL

open IC PyIC PyICX

variable {K : Type}

/-- a loop whose body appends the ONE element `h x` collects `map h`. -/
theorem foldlM_snoc {α β : Type} (f : List β → α → Except Err (List β)) (h : α → β)
    (l : List α) (hf : ∀ acc x, f acc x = .ok (acc ++ [h x])) (acc : List β) :
    l.foldlM f acc = .ok (acc ++ l.map h) := by
  induction l generalizing acc with
  | nil => simp
  | cons a l ih =>
    rw [List.foldlM_cons, hf acc a]
    simp only [ok_bind]
    rw [ih]
    simp [List.append_assoc]

/-- a loop whose body appends the list `g x` (which may raise) collects the `flatten` of `mapM g`. -/
theorem foldlM_mapM_flat {α β : Type} (F : List β → α → Except Err (List β)) (g : α → Except Err (List β))
    (l : List α) (hF : ∀ acc x, F acc x = (g x).map fun ys => acc ++ ys) (acc : List β) :
    l.foldlM F acc = (l.mapM g).map fun ys => acc ++ ys.flatten := by
  induction l generalizing acc with
  | nil => simp
  | cons x l ih =>
    rw [List.foldlM_cons, hF acc x, List.mapM_cons]
    cases g x with
    | error e => rfl
    | ok y =>
      simp only [map_ok, ok_bind]
      rw [ih]
      cases l.mapM g with
      | error e => rfl
      | ok ys => simp [List.append_assoc]

/-- a loop whose body appends the ONE result of `g x` (which may raise). -/
theorem foldlM_mapM_snoc {α β : Type} (F : List β → α → Except Err (List β)) (g : α → Except Err β)
    (l : List α) (hF : ∀ acc x, F acc x = (g x).map fun y => acc ++ [y]) (acc : List β) :
    l.foldlM F acc = (l.mapM g).map fun ys => acc ++ ys := by
  induction l generalizing acc with
  | nil => simp
  | cons x l ih =>
    rw [List.foldlM_cons, hF acc x, List.mapM_cons]
    cases g x with
    | error e => rfl
    | ok y =>
      simp only [map_ok, ok_bind]
      rw [ih]
      cases l.mapM g with
      | error e => rfl
      | ok ys => simp

/-! ### `for i, x in enumerate(ys): xs[i].append(x)` -/

theorem modAt_append {α : Type} (pre : List (List α)) (r : List α) (rest : List (List α)) (x : α) :
    modAt (pre ++ r :: rest) pre.length x = pre ++ (r ++ [x]) :: rest := by
  induction pre with
  | nil => rfl
  | cons p pre ih => simp [modAt, ih]

/-- `zipAppend`, or IndexError when there are more new elements than lists. -/
def zipAppendE {α : Type} (xs : List (List α)) (ys : List α) : Except Err (List (List α)) :=
  if xs.length < ys.length then .error .indexRange else .ok (IC.zipAppend xs ys)

theorem foldlM_appendAt_aux {α : Type} (ys : List α) : ∀ (pre rest : List (List α)),
    ((ys.zipIdx pre.length).map fun p => ((p.2 : Int), p.1)).foldlM
        (fun st (el : Int × α) => appendAt st el.1 el.2) (pre ++ rest) =
      if rest.length < ys.length then .error .indexRange else .ok (pre ++ IC.zipAppend rest ys) := by
  induction ys with
  | nil => intro pre rest; cases rest <;> simp [IC.zipAppend]
  | cons y ys ih =>
    intro pre rest
    rw [List.zipIdx_cons, List.map_cons, List.foldlM_cons]
    have hk : ¬ ((pre.length : Int) < 0) := by omega
    cases rest with
    | nil => simp [appendAt, hk]
    | cons r rest =>
      have hlt : pre.length < (pre ++ r :: rest).length := by simp
      have h1 : appendAt (pre ++ r :: rest) (pre.length : Int) y = .ok (pre ++ (r ++ [y]) :: rest) := by
        simp only [appendAt, hk, if_false, Int.toNat_natCast]
        rw [if_pos ⟨by omega, hlt⟩, modAt_append]
      simp only [h1, ok_bind]
      have := ih (pre ++ [r ++ [y]]) rest
      simp only [List.length_append, List.length_cons, List.length_nil, Nat.zero_add, List.append_assoc,
        List.singleton_append] at this
      rw [this]
      simp [IC.zipAppend]

/-- the loop `for i, x in enumerate(ys): xs[i].append(x)`. -/
theorem foldlM_appendAt {α : Type} (xs : List (List α)) (ys : List α) :
    (PyIC.enumerate ys).foldlM (fun st (el : Int × α) => appendAt st el.1 el.2) xs = zipAppendE xs ys := by
  have := foldlM_appendAt_aux ys [] xs
  simpa [PyIC.enumerate, zipAppendE] using this

end CtrlVerif.PyIOL
