/-
Symbolic evaluation of the untyped 3-D array layer `Model/PyFRD.lean` on arrays whose sizes fit, the
fold lemmas for the loops over the frequency index, and the vocabulary of the equality theorems
`Props/C09Gen*.lean` (generated function = run-time model): `PyOpd.erase` (forget the timebase of
an operand), `PyOpd.dt`, `PyFRD.of`, `GridOK`.  Helper lemmas, free to change.
-/
import CtrlVerif.Model.PyFRD
import CtrlVerif.Lemmas.PyMat

namespace CtrlVerif

open Matrix

variable {K : Type} [Field K]

/-! ### vocabulary of the statements -/

/-- the Python object that the model's record `G` (on a grid of `n` points) and a timebase stand for. -/
def PyFRD.of {n : Nat} (G : DFRD K n) (dt : Dt) : PyFRD K := ⟨n, G, dt⟩

/-- the operand as the C09 model sees it: the timebase of an FRD operand is forgotten. -/
def PyOpd.erase : PyOpd K → FOperand K
  | .frd F => .frd F.n F.d
  | .scalar c => .scalar c
  | .array p m D => .array p m D
  | .lti L => .lti L

/-- the timebase `_convert_to_frd` gives the converted operand: its own for a system, `None` for a
constant. -/
def PyOpd.dt : PyOpd K → Dt
  | .frd F => F.dt
  | .scalar _ => .none
  | .array _ _ _ => .none
  | .lti L => L.dt

/-- the grid on which the model documents its agreement with `_convert_to_frd` (findings
`C09-unsorted-grid-conversion`, `C09-single-frequency-conversion`): an FRD operand converts on any
grid; a constant needs two grid points (the code builds it with `smooth=True`); an LTI operand in
addition an ascending grid (the code evaluates it on `np.sort(omega)`). -/
def GridOK {n : Nat} (omega : Fin n → ℚ) : PyOpd K → Prop
  | .frd _ => True
  | .scalar _ => 2 ≤ n
  | .array _ _ _ => 2 ≤ n
  | .lti _ => 2 ≤ n ∧ Monotone omega

/-- the operand is a system (`F.append(2)` raises `AttributeError`: a constant has no `ninputs`). -/
def PyOpd.IsSys : PyOpd K → Prop
  | .frd _ => True
  | .lti _ => True
  | _ => False

/-- no empty dimension (`np.reshape(x, (p, m, -1))` cannot infer `-1` for an empty array). -/
def PyOpd.NonEmpty : PyOpd K → Prop
  | .frd F => 0 < F.d.p ∧ 0 < F.d.m
  | .lti L => 0 < L.p ∧ 0 < L.m
  | .array p m _ => 0 < p ∧ 0 < m
  | .scalar _ => True

/-- the class invariant the constructor establishes: an interpolating object (`smooth=True`) has at
least two frequencies. -/
def DFRD.WF {n : Nat} (G : DFRD K n) : Prop := G.smooth = true → 2 ≤ n

/-- an FRD operand satisfies the class invariant. -/
def PyOpd.WF : PyOpd K → Prop
  | .frd F => F.d.WF
  | _ => True

/-- `-other` as Python evaluates it before dispatch (for an FRD object: the model's `neg`, proved
equal to the generated `__neg__` by `C09Gen.generated_neg_eq`). -/
def PyOpd.neg : PyOpd K → PyOpd K
  | .frd F => .frd ⟨F.n, F.d.neg, F.dt⟩
  | .scalar c => .scalar (-c)
  | .array p m D => .array p m (-D)
  | .lti L => .lti L.neg

theorem PyOpd.erase_neg (x : PyOpd K) : x.neg.erase = DFRD.negOperand x.erase := by
  cases x <;> rfl

theorem PyOpd.dt_neg (x : PyOpd K) : x.neg.dt = x.dt := by
  cases x with
  | lti L => cases L <;> rfl
  | _ => rfl

theorem PyOpd.nonEmpty_neg {x : PyOpd K} (h : x.NonEmpty) : x.neg.NonEmpty := by
  cases x with
  | lti L => cases L <;> exact h
  | _ => exact h

theorem GridOK.neg {n : Nat} {omega : Fin n → ℚ} {x : PyOpd K} (h : GridOK omega x) : GridOK omega x.neg := by
  cases x <;> exact h

/-! ### `Except` plumbing -/

theorem Except.map_ok' {ε α β : Type} (f : α → β) (a : α) : (Except.ok a : Except ε α).map f = .ok (f a) := rfl

theorem Except.map_error' {ε α β : Type} (f : α → β) (e : ε) : (Except.error e : Except ε α).map f = .error e := rfl

theorem Except.map_bind' {ε α β γ : Type} (x : Except ε α) (f : α → Except ε β) (g : β → γ) :
    (x.bind f).map g = x.bind fun a => (f a).map g := by
  cases x <;> rfl

theorem Except.bind_map' {ε α β γ : Type} (x : Except ε α) (f : α → β) (g : β → Except ε γ) :
    (x.map f).bind g = x.bind fun a => g (f a) := by
  cases x <;> rfl

/-- a `for i in range(n)` loop whose state after `j` rounds is `s j`. -/
theorem List.foldlM_range_ok {σ : Type} (n : Nat) (body : σ → Nat → Except Err σ) (s : Nat → σ)
    (h : ∀ j, j < n → body (s j) j = .ok (s (j + 1))) :
    List.foldlM body (s 0) (List.range n) = .ok (s n) := by
  induction n with
  | zero => simp [pure, Except.pure]
  | succ n ih =>
    rw [List.range_succ, List.foldlM_append, ih fun j hj => h j (by omega)]
    simp only [bind, Except.bind, List.foldlM_cons, List.foldlM_nil]
    rw [h n (by omega)]
    rfl

/-! ### timebases -/

theorem common_self (d : Dt) : common d d = .ok d := by
  cases d with
  | disc h =>
    have habs : (0 : ℚ) ≤ (if h < 0 then -h else h) := by split <;> linarith
    have hc : close h h = true := by
      simp only [close, sub_self, lt_irrefl, if_false]
      rw [decide_eq_true_iff]
      exact add_nonneg (by norm_num) (mul_nonneg (by norm_num) habs)
    simp [common, Dt.num, hc]
  | _ => simp [common, close, Dt.num]

theorem common_none_right (d : Dt) : common d .none = .ok d := by
  cases d <;> rfl

/-! ### casts of the model -/

@[simp] theorem FRD.castN_rfl {n : Nat} {o ι : Type*} (G : FRD n o ι K) : FRD.castN rfl G = G := rfl

@[simp] theorem FRD.castShape_rfl {n p m : Nat} (G : FRD n (Fin p) (Fin m) K) :
    FRD.castShape rfl rfl G = G := by
  obtain ⟨w, d⟩ := G
  simp only [FRD.castShape]
  congr

/-! ### 1-D arrays -/

namespace FVec

@[simp] theorem sub_mk (n : Nat) (a b : Fin n → ℚ) : sub ⟨n, a⟩ ⟨n, b⟩ = .ok ⟨n, fun k => a k - b k⟩ := by
  simp [sub]

theorem sub_len_ne {a b : FVec} (h : b.n ≠ a.n) : sub a b = .error .shape := by
  simp [sub, h]

@[simp] theorem abs_mk (n : Nat) (a : Fin n → ℚ) : abs ⟨n, a⟩ = ⟨n, fun k => |a k|⟩ := rfl

@[simp] theorem ltNum_mk (n : Nat) (a : Fin n → ℚ) (c : ℚ) : ltNum ⟨n, a⟩ c = ⟨n, fun k => decide (a k < c)⟩ := rfl

@[simp] theorem array1_eq (a : FVec) : array1 a = a := rfl

theorem ofList_ofFn {n : Nat} (v : Fin n → ℚ) : ofList (List.ofFn v) = ⟨n, v⟩ := by
  have hlen : (List.ofFn v).length = n := List.length_ofFn
  unfold ofList
  congr 1
  · apply Function.hfunext
    · rw [hlen]
    · intro a a' h
      have : a.val = a'.val := by
        have := Fin.heq_ext_iff hlen |>.mp h
        exact this
      simp only [Fin.getElem_fin, List.getElem_ofFn, heq_eq_eq]
      congr 1
      exact Fin.ext this

@[simp] theorem sort_n (a : FVec) : (sort a).n = a.n := by
  simp [sort, ofList]

/-- `np.sort` of an ascending array is the array. -/
theorem sort_of_monotone {n : Nat} (v : Fin n → ℚ) (h : Monotone v) : sort ⟨n, v⟩ = ⟨n, v⟩ := by
  unfold sort
  rw [List.mergeSort_of_pairwise, ofList_ofFn]
  rw [List.pairwise_ofFn]
  intro i j hij
  simpa using h hij.le

end FVec

namespace PBVec

@[simp] theorem all_mk (n : Nat) (b : Fin n → Bool) : all ⟨n, b⟩ = decide (∀ k, b k = true) := rfl

end PBVec

/-! ### 3-D arrays on fitting sizes -/

namespace PArr3

@[simp] theorem neg_mk (p m n : Nat) (d : Fin n → Matrix (Fin p) (Fin m) K) :
    neg ⟨p, m, n, d⟩ = ⟨p, m, n, fun k => -d k⟩ := rfl

@[simp] theorem add_mk (p m n : Nat) (d e : Fin n → Matrix (Fin p) (Fin m) K) :
    add ⟨p, m, n, d⟩ ⟨p, m, n, e⟩ = .ok ⟨p, m, n, fun k => d k + e k⟩ := by
  simp [add]

@[simp] theorem mulNum_mk (p m n : Nat) (d : Fin n → Matrix (Fin p) (Fin m) K) (c : K) :
    mulNum ⟨p, m, n, d⟩ c = ⟨p, m, n, fun k => c • d k⟩ := by
  simp only [mulNum]
  congr 1
  funext k
  ext i j
  simp [mul_comm]

@[simp] theorem getFreq_mk (p m n : Nat) (d : Fin n → Matrix (Fin p) (Fin m) K) (k : Nat) (h : k < n) :
    getFreq ⟨p, m, n, d⟩ k = .ok ⟨p, m, d ⟨k, h⟩⟩ := by
  simp [getFreq, h]

@[simp] theorem setFreq_mk (p m n : Nat) (d : Fin n → Matrix (Fin p) (Fin m) K) (k : Nat) (h : k < n)
    (M : Matrix (Fin p) (Fin m) K) :
    setFreq ⟨p, m, n, d⟩ k ⟨p, m, M⟩ = .ok ⟨p, m, n, Function.update d ⟨k, h⟩ M⟩ := by
  simp [setFreq, h]

/-- the loop `for i in range(n): A[:, :, i] = f(i)` fills the array with `f`. -/
theorem foldlM_setFreq (p m n : Nat) (f : Fin n → Matrix (Fin p) (Fin m) K)
    (body : PArr3 K → Nat → Except Err (PArr3 K))
    (hbody : ∀ (d : Fin n → Matrix (Fin p) (Fin m) K) (i : Nat) (hi : i < n),
      body ⟨p, m, n, d⟩ i = .ok ⟨p, m, n, Function.update d ⟨i, hi⟩ (f ⟨i, hi⟩)⟩)
    (d0 : Fin n → Matrix (Fin p) (Fin m) K) :
    List.foldlM body ⟨p, m, n, d0⟩ (List.range n) = .ok ⟨p, m, n, f⟩ := by
  have key : ∀ j (hj : j ≤ n), List.foldlM body ⟨p, m, n, d0⟩ (List.range j)
      = .ok ⟨p, m, n, fun k => if k.val < j then f k else d0 k⟩ := by
    intro j
    induction j with
    | zero => intro _; simp [pure, Except.pure]
    | succ j ih =>
      intro hj
      rw [List.range_succ, List.foldlM_append, ih (by omega)]
      simp only [bind, Except.bind, List.foldlM_cons, List.foldlM_nil]
      rw [hbody _ j (by omega)]
      simp only [pure, Except.pure]
      congr 2
      funext k
      by_cases hk : k = ⟨j, by omega⟩
      · subst hk; simp
      · have hne : k.val ≠ j := fun h => hk (Fin.ext h)
        rw [Function.update_of_ne hk]
        by_cases hlt : k.val < j
        · simp [hlt, Nat.lt_succ_of_lt hlt]
        · have : ¬ k.val < j + 1 := by omega
          simp [hlt, this]
  rw [key n le_rfl]
  congr 2
  funext k
  simp [k.isLt]

@[simp] theorem ones_def (p m n : Nat) : (ones p m n : PArr3 K) = ⟨p, m, n, fun _ => Matrix.of fun _ _ => 1⟩ := rfl

@[simp] theorem empty_def (p m n : Nat) : (empty p m n : PArr3 K) = ⟨p, m, n, fun _ => 0⟩ := rfl

@[simp] theorem zeros_def (p m n : Nat) : (zeros p m n : PArr3 K) = ⟨p, m, n, fun _ => 0⟩ := rfl

theorem setFiber_mk (p m n : Nat) (d : Fin n → Matrix (Fin p) (Fin m) K) (i j : Nat) (hi : i < p) (hj : j < m)
    (c : K) :
    setFiber ⟨p, m, n, d⟩ i j c = .ok ⟨p, m, n, fun k => Matrix.of fun i' j' =>
      if i'.val = i ∧ j'.val = j then c else d k i' j'⟩ := by
  simp [setFiber, hi, hj]

/-- the double loop `for i in range(r): for j in range(c): A[i, j, :] = M[i, j]` makes every
`A[:, :, k]` equal to `M`. -/
theorem foldlM_setFiber (r c n : Nat) (M : Matrix (Fin r) (Fin c) K)
    (body : PArr3 K → Nat → Nat → Except Err (PArr3 K))
    (hbody : ∀ (d : Fin n → Matrix (Fin r) (Fin c) K) (i j : Nat) (hi : i < r) (hj : j < c),
      body ⟨r, c, n, d⟩ i j = .ok ⟨r, c, n, fun k => Matrix.of fun i' j' =>
        if i'.val = i ∧ j'.val = j then M ⟨i, hi⟩ ⟨j, hj⟩ else d k i' j'⟩)
    (d0 : Fin n → Matrix (Fin r) (Fin c) K) :
    List.foldlM (fun A i => List.foldlM (fun A j => body A i j) A (List.range c)) ⟨r, c, n, d0⟩ (List.range r)
      = .ok ⟨r, c, n, fun _ => M⟩ := by
  have inner : ∀ (d : Fin n → Matrix (Fin r) (Fin c) K) (i : Nat) (hi : i < r),
      List.foldlM (fun A j => body A i j) ⟨r, c, n, d⟩ (List.range c)
        = .ok ⟨r, c, n, fun k => Matrix.of fun i' j' => if i'.val = i then M i' j' else d k i' j'⟩ := by
    intro d i hi
    have := List.foldlM_range_ok c (fun A j => body A i j)
      (fun j => (⟨r, c, n, fun k => Matrix.of fun i' j' =>
        if i'.val = i ∧ j'.val < j then M i' j' else d k i' j'⟩ : PArr3 K))
      (by
        intro j hj
        rw [hbody _ i j hi hj]
        congr 2
        funext k
        ext i' j'
        simp only [Matrix.of_apply]
        by_cases h1 : i'.val = i
        · by_cases h2 : j'.val = j
          · have e1 : i' = ⟨i, hi⟩ := Fin.ext h1
            have e2 : j' = ⟨j, hj⟩ := Fin.ext h2
            subst e1 e2
            simp
          · have : (j'.val < j + 1) ↔ (j'.val < j) := by omega
            simp [h1, h2, this]
        · simp [h1])
    simp only [Nat.not_lt_zero, and_false, if_false] at this
    rw [show (⟨r, c, n, d⟩ : PArr3 K) = ⟨r, c, n, fun k => Matrix.of fun i' j' => d k i' j'⟩ from rfl, this]
    congr 2
    funext k
    ext i' j'
    simp [j'.isLt]
  have := List.foldlM_range_ok r (fun A i => List.foldlM (fun A j => body A i j) A (List.range c))
    (fun i => (⟨r, c, n, fun k => Matrix.of fun i' j' =>
      if i'.val < i then M i' j' else d0 k i' j'⟩ : PArr3 K))
    (by
      intro i hi
      rw [inner _ i hi]
      congr 2
      funext k
      ext i' j'
      simp only [Matrix.of_apply]
      by_cases h1 : i'.val = i
      · simp [h1]
      · have : (i'.val < i + 1) ↔ (i'.val < i) := by omega
        simp [h1, this])
  simp only [Nat.not_lt_zero, if_false] at this
  rw [show (⟨r, c, n, d0⟩ : PArr3 K) = ⟨r, c, n, fun k => Matrix.of fun i' j' => d0 k i' j'⟩ from rfl, this]
  congr 2
  funext k
  ext i' j'
  simp [i'.isLt]

theorem ext_n {p m n n' : Nat} (h : n' = n) (f : Fin n' → Matrix (Fin p) (Fin m) K)
    (g : Fin n → Matrix (Fin p) (Fin m) K) (hfg : ∀ k : Fin n, f (Fin.cast h.symm k) = g k) :
    (⟨p, m, n', f⟩ : PArr3 K) = ⟨p, m, n, g⟩ := by
  subst h
  congr 1
  funext k
  exact hfg k

/-- `append`: two slice assignments into a zero array give the block diagonal at every grid index. -/
theorem setBlock_diag (p p' m m' n : Nat) (G : Fin n → Matrix (Fin p) (Fin m) K)
    (H : Fin n → Matrix (Fin p') (Fin m') K) :
    (setBlock (zeros (p + p') (m + m') n) none (some (p : Int)) none (some (m : Int)) ⟨p, m, n, G⟩).bind
        (fun A => setBlock A (some (p : Int)) none (some (m : Int)) none ⟨p', m', n, H⟩)
      = .ok ⟨p + p', m + m', n, fun k =>
          (fromBlocks (G k) 0 0 (H k)).submatrix finSumFinEquiv.symm finSumFinEquiv.symm⟩ := by
  have h1 : min p (p + p') = p := by omega
  have h2 : min m (m + m') = m := by omega
  simp only [setBlock, zeros, PMat.sliceBound_none, PMat.sliceBound_natCast, h1, h2, Nat.sub_zero, Nat.add_sub_cancel_left,
    and_self, if_true, Except.bind]
  congr 2
  funext k
  ext i j
  simp only [Matrix.of_apply, submatrix_apply, entry]
  refine Fin.addCases (fun i' => ?_) (fun i' => ?_) i <;> refine Fin.addCases (fun j' => ?_) (fun j' => ?_) j
  · have hi := i'.isLt; have hj := j'.isLt
    simp [finSumFinEquiv_symm_apply_castAdd, Nat.not_le.mpr hi]
    erw [Matrix.of_apply]
    simp [hi, hj]
  · have hi := i'.isLt
    simp [finSumFinEquiv_symm_apply_castAdd, finSumFinEquiv_symm_apply_natAdd, Nat.not_le.mpr hi]
    erw [Matrix.of_apply]
    simp
  · have hj := j'.isLt
    simp [finSumFinEquiv_symm_apply_castAdd, finSumFinEquiv_symm_apply_natAdd, Nat.not_le.mpr hj]
    erw [Matrix.of_apply]
    simp
  · have hi := i'.isLt; have hj := j'.isLt
    simp [finSumFinEquiv_symm_apply_natAdd, hi, hj]

@[simp] theorem reshape_mk (p m n : Nat) (d : Fin n → Matrix (Fin p) (Fin m) K) (hp : 0 < p) (hm : 0 < m) :
    reshape ⟨p, m, n, d⟩ p m = .ok ⟨p, m, n, d⟩ := by
  have : p * m ≠ 0 := Nat.mul_ne_zero (by omega) (by omega)
  simp [reshape, this]

end PArr3

/-! ### index lists -/

/-- a Python list of `p × m` matrices as a 3-D array (last axis = position in the list). -/
def PArr3.ofList (p m : Nat) (l : List (Matrix (Fin p) (Fin m) K)) : PArr3 K := ⟨p, m, l.length, fun k => l[k]⟩

theorem PArr3.takeRows_mk (p m n : Nat) (g : Fin n → Matrix (Fin p) (Fin m) K) (rows : List Nat)
    (h : ∀ r ∈ rows, r < p) :
    PArr3.takeRows ⟨p, m, n, g⟩ rows = .ok ⟨rows.length, m, n, fun k => Matrix.of fun (i : Fin rows.length) j =>
      g k ⟨rows[i], h _ (List.getElem_mem _)⟩ j⟩ := by
  unfold PArr3.takeRows
  exact dif_pos h

theorem PArr3.takeRows_err (p m n : Nat) (g : Fin n → Matrix (Fin p) (Fin m) K) (rows : List Nat)
    (h : ¬ ∀ r ∈ rows, r < p) : PArr3.takeRows ⟨p, m, n, g⟩ rows = .error .indexRange := by
  unfold PArr3.takeRows
  exact dif_neg h

theorem PArr3.takeCols_mk (p m n : Nat) (g : Fin n → Matrix (Fin p) (Fin m) K) (cols : List Nat)
    (h : ∀ c ∈ cols, c < m) :
    PArr3.takeCols ⟨p, m, n, g⟩ cols = .ok ⟨p, cols.length, n, fun k => Matrix.of fun i (j : Fin cols.length) =>
      g k i ⟨cols[j], h _ (List.getElem_mem _)⟩⟩ := by
  unfold PArr3.takeCols
  exact dif_pos h

theorem PArr3.takeCols_err (p m n : Nat) (g : Fin n → Matrix (Fin p) (Fin m) K) (cols : List Nat)
    (h : ¬ ∀ c ∈ cols, c < m) : PArr3.takeCols ⟨p, m, n, g⟩ cols = .error .indexRange := by
  unfold PArr3.takeCols
  exact dif_neg h

/-- the matrix stored at position `i` (zero beyond the grid; only used in range). -/
def dAt {n p m : Nat} (g : Fin n → Matrix (Fin p) (Fin m) K) (i : Nat) : Matrix (Fin p) (Fin m) K :=
  if h : i < n then g ⟨i, h⟩ else 0

theorem takeFreq_map (p m n : Nat) (g : Fin n → Matrix (Fin p) (Fin m) K) (idx : List Nat)
    (h : ∀ k ∈ idx, k < n) :
    PArr3.takeFreq ⟨p, m, n, g⟩ idx = .ok (PArr3.ofList p m (idx.map (dAt g))) := by
  unfold PArr3.takeFreq
  rw [dif_pos h]
  refine congrArg Except.ok ?_
  unfold PArr3.ofList
  refine (PArr3.ext_n (K := K) (List.length_map (dAt g)) _ _ fun k => ?_).symm
  simp only [Fin.getElem_fin, Fin.val_cast, List.getElem_map, dAt]
  rw [dif_pos (h _ (List.getElem_mem _))]

/-- `np.flatnonzero(self.omega == w)` against the model's `find?`. -/
theorem flatnonzero_find {n : Nat} {o ι : Type} (G : FRD n o ι K) (w : ℚ) :
    (G.find? w = none → PBVec.flatnonzero (FVec.eqNum ⟨n, G.omega⟩ w) = []) ∧
    (∀ k, G.find? w = some k → ∃ t, PBVec.flatnonzero (FVec.eqNum ⟨n, G.omega⟩ w) = k.val :: t) := by
  have hh : ((List.finRange n).filter fun k => decide (G.omega k = w)).head? = G.find? w := by
    rw [List.head?_filter]; rfl
  simp only [PBVec.flatnonzero, FVec.eqNum]
  constructor
  · intro h
    rw [h] at hh
    cases hl : (List.finRange n).filter fun k => decide (G.omega k = w) with
    | nil => rfl
    | cons a t => rw [hl] at hh; simp at hh
  · intro k h
    rw [h] at hh
    cases hl : (List.finRange n).filter fun k => decide (G.omega k = w) with
    | nil => rw [hl] at hh; simp at hh
    | cons a t =>
      rw [hl] at hh
      simp only [List.head?_cons, Option.some.injEq] at hh
      subst hh
      exact ⟨t.map Fin.val, rfl⟩

/-! ### stacks of matrices -/

namespace PStk

theorem bcLen_self (n : Nat) : bcLen n n = n := by simp [bcLen]

theorem bcLen_one (n : Nat) : bcLen 1 n = n := by simp [bcLen]

@[simp] theorem smul_mk (c : K) (p m n : Nat) (X : Fin n → Matrix (Fin p) (Fin m) K) :
    smul c ⟨p, m, n, X⟩ = ⟨p, m, n, fun k => c • X k⟩ := rfl

theorem matmul_mk (p q m n : Nat) (X : Fin n → Matrix (Fin p) (Fin q) K) (Y : Fin n → Matrix (Fin q) (Fin m) K) :
    matmul ⟨p, q, n, X⟩ ⟨q, m, n, Y⟩ = .ok ⟨p, m, n, fun k => X k * Y k⟩ := by
  have hok : bcOk n n := Or.inl rfl
  simp only [matmul, hok, and_self, dite_true, PMat.retype_rfl]
  congr 1
  refine PArr3.ext_n (bcLen_self n) _ _ fun k => ?_
  have hL : bcL hok (Fin.cast (bcLen_self n).symm k) = k := by
    unfold bcL
    split
    · rename_i h1; apply Fin.ext; have := k.isLt; simp; omega
    · rfl
  have hR : bcR hok (Fin.cast (bcLen_self n).symm k) = k := by
    unfold bcR
    split
    · rfl
    · simp
  rw [hL, hR]

@[simp] theorem ofMat_mk (p q : Nat) (M : Matrix (Fin p) (Fin q) K) :
    ofMat ⟨p, q, M⟩ = ⟨p, q, 1, fun _ => M⟩ := rfl

theorem sub_ofMat (p q n : Nat) (M : Matrix (Fin p) (Fin q) K) (Y : Fin n → Matrix (Fin p) (Fin q) K) :
    PStk.sub ⟨p, q, 1, fun _ => M⟩ ⟨p, q, n, Y⟩ = .ok ⟨p, q, n, fun k => M - Y k⟩ := by
  have hok : bcOk 1 n := Or.inr (Or.inl rfl)
  simp only [PStk.sub, hok, and_self, dite_true, PMat.retype_rfl]
  exact congrArg Except.ok (PArr3.ext_n (K := K) (bcLen_one n) _ _ fun k => rfl)

variable [DecidableEq K]

theorem inv_mk (p n : Nat) (F : Fin n → Matrix (Fin p) (Fin p) K) :
    inv ⟨p, p, n, F⟩ = if ∃ k, (F k).det = 0 then .error .illPosed
      else .ok ⟨p, p, n, fun k => PMat.inverse (F k)⟩ := by
  simp [inv]

end PStk

namespace PyFRD

/-- the constructor call on an array and a frequency vector of the same length. -/
theorem ctor_mk (p m n : Nat) (d : Fin n → Matrix (Fin p) (Fin m) K) (w : Fin n → ℚ) (dt : Dt) (sm : Bool) :
    ctor ⟨p, m, n, d⟩ ⟨n, w⟩ dt sm
      = if sm = true ∧ n < 2 then .error .shape else .ok ⟨n, ⟨p, m, ⟨w, d⟩, sm⟩, dt⟩ := by
  simp [ctor]

/-- without `smooth` the constructor call always succeeds. -/
theorem ctor_mk_false (p m n : Nat) (d : Fin n → Matrix (Fin p) (Fin m) K) (w : Fin n → ℚ) (dt : Dt) :
    ctor ⟨p, m, n, d⟩ ⟨n, w⟩ dt false = .ok ⟨n, ⟨p, m, ⟨w, d⟩, false⟩, dt⟩ := by
  simp [ctor_mk]

/-- on a grid of at least two points the constructor call always succeeds. -/
theorem ctor_mk_two (p m n : Nat) (d : Fin n → Matrix (Fin p) (Fin m) K) (w : Fin n → ℚ) (dt : Dt) (sm : Bool)
    (h : 2 ≤ n) : ctor ⟨p, m, n, d⟩ ⟨n, w⟩ dt sm = .ok ⟨n, ⟨p, m, ⟨w, d⟩, sm⟩, dt⟩ := by
  have : ¬ n < 2 := by omega
  simp [ctor_mk, this]

theorem ctor_ok_dt {A : PArr3 K} {w : FVec} {dt : Dt} {sm : Bool} {H : PyFRD K}
    (h : ctor A w dt sm = .ok H) : H.dt = dt := by
  unfold ctor at h
  split at h
  · split at h
    · exact absurd h (by simp)
    · injection h with h; subst h; rfl
  · exact absurd h (by simp)


end PyFRD

end CtrlVerif
