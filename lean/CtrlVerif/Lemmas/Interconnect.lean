/-
Lemmas for C07: the propagation loop of `_compute_static_io`, the affine iteration of the
linear case, nilpotency of an acyclic feedthrough matrix.
-/
import CtrlVerif.Model.Interconnect
import CtrlVerif.Lemmas.SS
import Mathlib.Logic.Function.Iterate
import Mathlib.Algebra.BigOperators.Group.Finset.Basic
import Mathlib.Tactic.Abel
import Mathlib.Tactic.Ring

namespace CtrlVerif.IC

variable {V : Type*} [DecidableEq V]

theorem staticLoop_fixed (step : V → V) :
    ∀ (c : Nat) (u₀ u : V), staticLoop step c u₀ = .ok u → step u = u := by
  intro c
  induction c with
  | zero => intro u₀ u h; simp [staticLoop] at h
  | succ c ih =>
    intro u₀ u h
    unfold staticLoop at h
    split at h
    · next heq => cases h; exact heq.symm
    · exact ih _ _ h

theorem staticLoop_iterate (step : V → V) :
    ∀ (c : Nat) (u₀ u : V), staticLoop step c u₀ = .ok u → ∃ k, k < c ∧ u = step^[k] u₀ := by
  intro c
  induction c with
  | zero => intro u₀ u h; simp [staticLoop] at h
  | succ c ih =>
    intro u₀ u h
    unfold staticLoop at h
    split at h
    · cases h; exact ⟨0, Nat.succ_pos c, rfl⟩
    · obtain ⟨k, hk, rfl⟩ := ih _ _ h
      exact ⟨k + 1, Nat.succ_lt_succ hk, by rw [Function.iterate_succ_apply]⟩

/-- a fixed point stays fixed. -/
theorem iterate_fixed (step : V → V) (u : V) (h : step u = u) (j : Nat) : step^[j] u = u := by
  induction j with
  | zero => rfl
  | succ j ih => rw [Function.iterate_succ_apply, h, ih]

theorem staticLoop_complete (step : V → V) :
    ∀ (c k : Nat) (u₀ : V), k < c → step (step^[k] u₀) = step^[k] u₀ →
      staticLoop step c u₀ = .ok (step^[k] u₀) := by
  intro c
  induction c with
  | zero => intro k u₀ hk; omega
  | succ c ih =>
    intro k u₀ hk hfix
    unfold staticLoop
    split
    · next heq =>
      -- already fixed at u₀: every iterate equals u₀
      rw [iterate_fixed step u₀ heq.symm k]
    · next hne =>
      cases k with
      | zero => exact absurd hfix.symm hne
      | succ k =>
        rw [Function.iterate_succ_apply] at hfix ⊢
        exact ih k (step u₀) (Nat.lt_of_succ_lt_succ hk) hfix

theorem staticLoop_error (step : V → V) :
    ∀ (c : Nat) (u₀ : V), (∀ k, k < c → step (step^[k] u₀) ≠ step^[k] u₀) →
      staticLoop step c u₀ = .error .illPosed := by
  intro c
  induction c with
  | zero => intro u₀ _; rfl
  | succ c ih =>
    intro u₀ h
    unfold staticLoop
    split
    · next heq => exact absurd heq.symm (h 0 (Nat.succ_pos c))
    · apply ih
      intro k hk
      have := h (k + 1) (Nat.succ_lt_succ hk)
      rwa [Function.iterate_succ_apply] at this

end CtrlVerif.IC

namespace CtrlVerif.Wiring

open Matrix

variable {K : Type*} [Field K]
variable {σ ι o w z κ : Type*} [Fintype σ] [Fintype ι] [Fintype o] [Fintype w] [DecidableEq ι]

/-- the cycle of `_compute_static_io` is the affine map `U ↦ (Kc D) U + (Kc C Xs + M Ws)`. -/
theorem step_eq_stepN (W : Wiring ι o w z K) (G : SS σ ι o K) (Xs : Matrix σ κ K)
    (Ws : Matrix w κ K) (U : Matrix ι κ K) :
    W.step G Xs Ws U = stepN (W.Kc * G.D) (W.Kc * (G.C * Xs) + W.M * Ws) U := by
  simp only [step, stepN, Matrix.mul_add, Matrix.mul_assoc]
  abel

/-- `k` cycles of the affine iteration. -/
theorem stepN_iterate (N : Matrix ι ι K) (R U₀ : Matrix ι κ K) (k : Nat) :
    (stepN N R)^[k] U₀ = (∑ j ∈ Finset.range k, N ^ j) * R + N ^ k * U₀ := by
  induction k with
  | zero => simp
  | succ k ih =>
    rw [Function.iterate_succ_apply', ih, stepN, Finset.sum_range_succ', Matrix.mul_add,
      Matrix.add_mul, ← Matrix.mul_assoc, ← Matrix.mul_assoc, Finset.mul_sum]
    simp only [pow_succ', pow_zero, Matrix.one_mul]
    abel

/-- with a nilpotent loop gain the `n`-th iterate is a fixed point (whatever the start). -/
theorem stepN_fixed_of_nilpotent (N : Matrix ι ι K) (R U₀ : Matrix ι κ K) (n : Nat)
    (hN : N ^ n = 0) : stepN N R ((stepN N R)^[n] U₀) = (stepN N R)^[n] U₀ := by
  have e := Function.iterate_succ_apply' (stepN N R) n U₀
  rw [← e, stepN_iterate, stepN_iterate, Finset.sum_range_succ, hN, pow_succ, hN]
  simp

/-- a matrix that strictly raises a level function bounded by `n` is nilpotent of index `≤ n`:
`(N^k) i j ≠ 0` needs `lvl j + k ≤ lvl i`. -/
theorem pow_apply_eq_zero_of_levels (N : Matrix ι ι K) (lvl : ι → Nat)
    (h : ∀ i j, N i j ≠ 0 → lvl j < lvl i) :
    ∀ (k : Nat) (i j : ι), lvl i < lvl j + k → (N ^ k) i j = 0 := by
  intro k
  induction k with
  | zero =>
    intro i j hlt
    have : i ≠ j := by rintro rfl; omega
    simp [Matrix.one_apply, this]
  | succ k ih =>
    intro i j hlt
    rw [pow_succ', Matrix.mul_apply]
    apply Finset.sum_eq_zero
    intro m _
    by_cases hm : N i m = 0
    · rw [hm, zero_mul]
    · have h1 := h i m hm
      rw [ih m j (by omega), mul_zero]

theorem nilpotent_of_levels (N : Matrix ι ι K) (lvl : ι → Nat) (n : Nat)
    (h : ∀ i j, N i j ≠ 0 → lvl j < lvl i) (hb : ∀ i, lvl i < n) : N ^ n = 0 := by
  ext i j
  have := hb i
  exact pow_apply_eq_zero_of_levels N lvl h n i j (by omega)

theorem fromCols_add_fromCols {m n₁ n₂ : Type*} (A₁ B₁ : Matrix m n₁ K) (A₂ B₂ : Matrix m n₂ K) :
    fromCols A₁ A₂ + fromCols B₁ B₂ = fromCols (A₁ + B₁) (A₂ + B₂) := by
  ext i (j | j) <;> simp

end CtrlVerif.Wiring
