/-
Helper lemmas of the source-text tie of the wrappers of `control/bdalg.py` (Props/C01GenFn*.lean):
facts about the object layer `Model/PyBdalg.lean` that do not depend on the generated files.
-/
import CtrlVerif.Model.PyBdalg
import CtrlVerif.Props.C01Call

set_option linter.unusedSectionVars false

namespace CtrlVerif.C01GenFn
open CtrlVerif PyBdalg

variable {K : Type} [Field K] [DecidableEq K]

theorem ok_bind {ε α β : Type} (a : α) (f : α → Except ε β) : (Except.ok a >>= f) = f a := rfl
theorem err_bind {ε α β : Type} (e : ε) (f : α → Except ε β) :
    ((Except.error e : Except ε α) >>= f) = .error e := rfl
theorem pure_ok {ε α : Type} (a : α) : (pure a : Except ε α) = .ok a := rfl
theorem bind_ok {ε α : Type} (m : Except ε α) : (m >>= fun a => Except.ok a) = m := by
  cases m <;> rfl

theorem ofOp_sys (k : NumKind) (G : DTF K) : Val.ofOp k (.sys G) = .tf G := rfl
theorem ofOp_scalar (k : NumKind) (c : K) : Val.ofOp k (.scalar c) = .num k c := rfl
theorem ofOp_array (k : NumKind) (p m : Nat) (D : Fin p → Fin m → K) :
    Val.ofOp k (.array p m D) = .arr p m D := rfl

theorem toOperand_ofOp (k : NumKind) (b : Operand K) : (Val.ofOp k b).toOperand = .ok b := by
  cases b <;> rfl

/-- an operand of the model passes the wrapper's test "I/O system, scalar, or array" -/
theorem isinstance_ofOp_any (k : NumKind) (b : Operand K) :
    isinstance (Val.ofOp k b) [Cls.int, Cls.float, Cls.complex, Cls.npNumber, Cls.ndarray,
      Cls.InputOutputSystem] = true := by
  cases b <;> cases k <;> rfl

/-- ... and the test that selects `_convert_to_transfer_function` -/
theorem isinstance_ofOp_tf (k : NumKind) (b : Operand K) :
    isinstance (Val.ofOp k b) [Cls.int, Cls.float, Cls.complex, Cls.npNumber, Cls.ndarray,
      Cls.TransferFunction] = true := by
  cases b <;> cases k <;> rfl

theorem isinstance_num_any (k : NumKind) (c : K) :
    isinstance (Val.num k c : Val K) [Cls.int, Cls.float, Cls.complex, Cls.npNumber, Cls.ndarray,
      Cls.InputOutputSystem] = true := by
  cases k <;> rfl

theorem isinstance_num_num (k : NumKind) (c : K) :
    isinstance (Val.num k c : Val K) [Cls.int, Cls.float, Cls.complex, Cls.npNumber, Cls.ndarray]
      = true := by
  cases k <;> rfl

/-- the method of a `TransferFunction`: naming keywords are a `TypeError`, otherwise the model's
method with the sign that was passed -/
theorem feedbackM_tf (G : DTF K) (vb : Val K) (b : Operand K) (hb : vb.toOperand = .ok b) (s : K)
    (kw : Kw) :
    Val.feedbackM (.tf G) (some vb) (some s) kw
      = if kw.isEmpty then liftR (G.feedback b s) else .error .typeError := by
  cases kw <;> simp [Val.feedbackM, hb]

theorem feedbackM_num (k : NumKind) (c : K) (o : Option (Val K)) (s : Option K) (kw : Kw) :
    Val.feedbackM (.num k c) o s kw = .error .attributeError := rfl

theorem feedbackM_arr (p m : Nat) (D : Fin p → Fin m → K) (o : Option (Val K)) (s : Option K)
    (kw : Kw) : Val.feedbackM (.arr p m D) o s kw = .error .attributeError := rfl

/-- `update_names` on a result of the model: the value stays -/
theorem liftR_updateNames (r : Except Err (DTF K)) (kw : Kw) :
    (do let sys ← liftR r
        sys.updateNames kw
        Except.ok sys) = liftR r := by
  cases r <;> rfl

theorem liftR_bind (r : Except Err (DTF K)) (f : DTF K → Except Err (DTF K)) :
    liftR (r >>= f) = (liftR r >>= fun v => match v with
      | .tf G => liftR (f G)
      | _ => .error .untranslated) := by
  cases r <;> rfl

/-! ### the argument tuple -/

theorem item_cons_zero (v : Val K) (vs : List (Val K)) : item (v :: vs) (0 : Int) = .ok v := by
  simp [item, normIdx]

theorem item_nil (i : Int) : item ([] : List (Val K)) i = .error .indexError := by
  simp [item, normIdx]

theorem slice_cons_one (v : Val K) (vs : List (Val K)) :
    slice (v :: vs) (some (1 : Int)) none = vs := by
  simp [slice, normIdx]

/-- the operands of the model as Python objects (each scalar with its own number class) -/
def vals (xs : List (NumKind × Operand K)) : List (Val K) := xs.map fun p => Val.ofOp p.1 p.2

/-- the operands themselves -/
def ops (xs : List (NumKind × Operand K)) : List (Operand K) := xs.map Prod.snd

/-! ### the folds -/

theorem mul_ofOp_tf (k : NumKind) (y : Operand K) (G : DTF K) :
    Val.mul (Val.ofOp k y) (.tf G) = liftR (DTF.lmulBy G y) := by
  cases y <;> rfl

theorem add_tf_ofOp (k : NumKind) (y : Operand K) (G : DTF K) :
    Val.add (.tf G) (Val.ofOp k y) = liftR (G.add y) := by
  cases y <;> rfl

theorem appendM_tf_ofOp (k : NumKind) (y : Operand K) (G : DTF K) :
    Val.appendM (.tf G) (Val.ofOp k y) = liftR (G.append (DTF.Operand.toSys y)) := by
  cases y <;> rfl

/-- `reduce(lambda x, y: y * x, xs, G)` is the model's `seriesFn` -/
theorem foldlM_mul (xs : List (NumKind × Operand K)) (G : DTF K) :
    List.foldlM (fun (x y : Val K) => Val.mul y x) (.tf G) (vals xs)
      = liftR (DTF.seriesFn G (ops xs)) := by
  induction xs generalizing G with
  | nil => rfl
  | cons p t ih =>
    simp only [vals, ops, List.map_cons, List.foldlM_cons, C01Call.seriesFn_cons, mul_ofOp_tf]
    cases h : DTF.lmulBy G p.2 with
    | error e => rfl
    | ok R => exact ih R

/-- `reduce(lambda x, y: x + y, xs, G)` is the model's `parallelFn` -/
theorem foldlM_add (xs : List (NumKind × Operand K)) (G : DTF K) :
    List.foldlM (fun (x y : Val K) => Val.add x y) (.tf G) (vals xs)
      = liftR (DTF.parallelFn G (ops xs)) := by
  induction xs generalizing G with
  | nil => rfl
  | cons p t ih =>
    simp only [vals, ops, List.map_cons, List.foldlM_cons, C01Call.parallelFn_cons, add_tf_ofOp]
    cases h : G.add p.2 with
    | error e => rfl
    | ok R => exact ih R

/-- `for s in xs: s1 = s1.append(s)` is the model's `appendFn` -/
theorem foldlM_append (xs : List (NumKind × Operand K)) (G : DTF K) :
    List.foldlM (fun (x y : Val K) => Val.appendM x y) (.tf G) (vals xs)
      = liftR (DTF.appendFn G (ops xs)) := by
  induction xs generalizing G with
  | nil => rfl
  | cons p t ih =>
    simp only [vals, ops, List.map_cons, List.foldlM_cons, C01Call.appendFn_cons, appendM_tf_ofOp]
    cases h : G.append (DTF.Operand.toSys p.2) with
    | error e => rfl
    | ok R => exact ih R

/-- the tail of `series` / `parallel` / `append`: the copy when the result IS the first argument
and the renaming leave the value of a model result unchanged, whatever object identity says -/
theorem liftR_copy_updateNames (w : World) (r : Except Err (DTF K)) (t : Val K) (kw : Kw) :
    (do let sys ← liftR r
        let sys ← (if isObj w sys t = true then Except.ok (deepcopy sys) else Except.ok sys)
        sys.updateNames kw
        Except.ok sys) = liftR r := by
  cases r <;> cases h : w.sameObj <;> simp [liftR, isObj, deepcopy, h, ok_bind, err_bind] <;> rfl

end CtrlVerif.C01GenFn
