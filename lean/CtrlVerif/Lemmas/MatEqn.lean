/-
Contracts of the SciPy solvers used by control/mateqn.py (structures holding the function and
the equation SciPy documents for it — parameters of the theorems, never axioms), the documented
equations as predicates, and helper lemmas for Props/C10.lean.
-/
import CtrlVerif.Model.MatEqn
import Mathlib.LinearAlgebra.Matrix.NonsingularInverse
import Mathlib.Tactic.Abel
import Mathlib.Tactic.Ring

namespace CtrlVerif.MatEqn

open Matrix

variable {K : Type*} [Field K]
variable {n m : Type*} [Fintype n] [Fintype m] [DecidableEq n] [DecidableEq m]

/-! ## SciPy contracts -/

/-- `scipy.linalg.solve_continuous_lyapunov(a, q)` "solves `a x + x aᴴ = q`": whenever that
equation has exactly one solution, the returned matrix is a solution. -/
structure CLyapSolver (n : Type*) [Fintype n] (K : Type*) [Field K] where
  solve : LyapCall n K → Matrix n n K
  spec : ∀ c : LyapCall n K, (∃! x : Matrix n n K, c.a * x + x * c.aᵀ = c.q) →
    c.a * solve c + solve c * c.aᵀ = c.q

/-- `scipy.linalg.solve_discrete_lyapunov(a, q)` "solves `a x aᴴ - x + q = 0`". -/
structure DLyapSolver (n : Type*) [Fintype n] (K : Type*) [Field K] where
  solve : LyapCall n K → Matrix n n K
  spec : ∀ c : LyapCall n K, (∃! x : Matrix n n K, c.a * x * c.aᵀ - x + c.q = 0) →
    c.a * solve c * c.aᵀ - solve c + c.q = 0

/-- `scipy.linalg.solve_sylvester(a, b, q)` "computes a solution to `a x + x b = q`". -/
structure SylvSolver (n m : Type*) [Fintype n] [Fintype m] (K : Type*) [Field K] where
  solve : SylvCall n m K → Matrix n m K
  spec : ∀ c : SylvCall n m K, (∃! x : Matrix n m K, c.a * x + x * c.b = c.q) →
    c.a * solve c + solve c * c.b = c.q

/-- the continuous-time algebraic Riccati equation as documented by python-control *and* by
SciPy (`AᴴXE + EᴴXA − (EᴴXB + S) R⁻¹ (BᴴXE + Sᴴ) + Q = 0`). -/
def CareEq (A : Matrix n n K) (B : Matrix n m K) (Q : Matrix n n K) (R : Matrix m m K)
    (S : Matrix n m K) (E X : Matrix n n K) : Prop :=
  Aᵀ * X * E + Eᵀ * X * A - (Eᵀ * X * B + S) * R⁻¹ * (Bᵀ * X * E + Sᵀ) + Q = 0

/-- the discrete-time algebraic Riccati equation
(`AᴴXA − EᴴXE − (AᴴXB + S)(BᴴXB + R)⁻¹(BᴴXA + Sᴴ) + Q = 0`). -/
def DareEq (A : Matrix n n K) (B : Matrix n m K) (Q : Matrix n n K) (R : Matrix m m K)
    (S : Matrix n m K) (E X : Matrix n n K) : Prop :=
  Aᵀ * X * A - Eᵀ * X * E - (Aᵀ * X * B + S) * (Bᵀ * X * B + R)⁻¹ * (Bᵀ * X * A + Sᵀ) + Q = 0

/-- the documented gain of `care`: `R⁻¹ (BᵀXE + Sᵀ)` -/
noncomputable def careGainDoc (B : Matrix n m K) (R : Matrix m m K) (S : Matrix n m K)
    (E X : Matrix n n K) : Matrix m n K :=
  R⁻¹ * (Bᵀ * X * E + Sᵀ)

/-- the documented gain of `dare`: `(BᵀXB + R)⁻¹ (BᵀXA + Sᵀ)` -/
noncomputable def dareGainDoc (A : Matrix n n K) (B : Matrix n m K) (R : Matrix m m K)
    (S : Matrix n m K) (X : Matrix n n K) : Matrix m n K :=
  (Bᵀ * X * B + R)⁻¹ * (Bᵀ * X * A + Sᵀ)

/-- "X is a symmetric stabilising solution" of the continuous equation; `Stab Acl E` stands for
"every eigenvalue of the pencil `(Acl, E)` lies in the stability region" (left half plane), kept
abstract because `K` is an arbitrary field. -/
structure IsCareSol (Stab : Matrix n n K → Matrix n n K → Prop) (A : Matrix n n K)
    (B : Matrix n m K) (Q : Matrix n n K) (R : Matrix m m K) (S : Matrix n m K)
    (E X : Matrix n n K) : Prop where
  eq : CareEq A B Q R S E X
  symm : Xᵀ = X
  stab : Stab (A - B * careGainDoc B R S E X) E

/-- the same for the discrete equation (`Stab`: inside the unit circle). -/
structure IsDareSol (Stab : Matrix n n K → Matrix n n K → Prop) (A : Matrix n n K)
    (B : Matrix n m K) (Q : Matrix n n K) (R : Matrix m m K) (S : Matrix n m K)
    (E X : Matrix n n K) : Prop where
  eq : DareEq A B Q R S E X
  symm : Xᵀ = X
  stab : Stab (A - B * dareGainDoc A B R S X) E

/-- `scipy.linalg.solve_continuous_are(a, b, q, r, e, s)`: whenever a symmetric stabilising
solution of the documented equation (missing `e` read as the identity, missing `s` as zero)
exists, the returned matrix is one. -/
structure CareSolver (n m : Type*) [Fintype n] [Fintype m] [DecidableEq n] [DecidableEq m]
    (K : Type*) [Field K] (Stab : Matrix n n K → Matrix n n K → Prop) where
  solve : AreCall n m K → Matrix n n K
  spec : ∀ c : AreCall n m K,
    (∃ X, IsCareSol Stab c.a c.b c.q c.r (sOf c.s) (eOf c.e) X) →
    IsCareSol Stab c.a c.b c.q c.r (sOf c.s) (eOf c.e) (solve c)

/-- `scipy.linalg.solve_discrete_are(a, b, q, r, e, s)`. -/
structure DareSolver (n m : Type*) [Fintype n] [Fintype m] [DecidableEq n] [DecidableEq m]
    (K : Type*) [Field K] (Stab : Matrix n n K → Matrix n n K → Prop) where
  solve : AreCall n m K → Matrix n n K
  spec : ∀ c : AreCall n m K,
    (∃ X, IsDareSol Stab c.a c.b c.q c.r (sOf c.s) (eOf c.e) X) →
    IsDareSol Stab c.a c.b c.q c.r (sOf c.s) (eOf c.e) (solve c)

/-! the contracts are satisfiable for every size and field (so theorems that take a solver are
not vacuous): pick a solution whenever one exists. -/

noncomputable def CLyapSolver.ofChoice : CLyapSolver n K where
  solve c := by
    classical
    exact if h : ∃ x : Matrix n n K, c.a * x + x * c.aᵀ = c.q then h.choose else 0
  spec c h := by
    have h' : ∃ x : Matrix n n K, c.a * x + x * c.aᵀ = c.q := h.exists
    simp only [dif_pos h']
    exact h'.choose_spec

noncomputable def DLyapSolver.ofChoice : DLyapSolver n K where
  solve c := by
    classical
    exact if h : ∃ x : Matrix n n K, c.a * x * c.aᵀ - x + c.q = 0 then h.choose else 0
  spec c h := by
    have h' : ∃ x : Matrix n n K, c.a * x * c.aᵀ - x + c.q = 0 := h.exists
    simp only [dif_pos h']
    exact h'.choose_spec

noncomputable def SylvSolver.ofChoice : SylvSolver n m K where
  solve c := by
    classical
    exact if h : ∃ x : Matrix n m K, c.a * x + x * c.b = c.q then h.choose else 0
  spec c h := by
    have h' : ∃ x : Matrix n m K, c.a * x + x * c.b = c.q := h.exists
    simp only [dif_pos h']
    exact h'.choose_spec

noncomputable def CareSolver.ofChoice (Stab : Matrix n n K → Matrix n n K → Prop) :
    CareSolver n m K Stab where
  solve c := by
    classical
    exact if h : ∃ X, IsCareSol Stab c.a c.b c.q c.r (sOf c.s) (eOf c.e) X then h.choose else 0
  spec c h := by
    simp only [dif_pos h]
    exact h.choose_spec

noncomputable def DareSolver.ofChoice (Stab : Matrix n n K → Matrix n n K → Prop) :
    DareSolver n m K Stab where
  solve c := by
    classical
    exact if h : ∃ X, IsDareSol Stab c.a c.b c.q c.r (sOf c.s) (eOf c.e) X then h.choose else 0
  spec c h := by
    simp only [dif_pos h]
    exact h.choose_spec

/-! ## the argument maps -/

/-- whatever branch `care` takes, SciPy reads the call as the problem `(A, B, Q, R, S or 0, E or I)`. -/
theorem careCall_reads (A : Matrix n n K) (B : Matrix n m K) (Q : Matrix n n K) (R : Matrix m m K)
    (S : Option (Matrix n m K)) (E : Option (Matrix n n K)) :
    (careCall A B Q R S E).a = A ∧ (careCall A B Q R S E).b = B ∧ (careCall A B Q R S E).q = Q ∧
    (careCall A B Q R S E).r = R ∧ sOf (careCall A B Q R S E).s = sOf S ∧
    eOf (careCall A B Q R S E).e = eOf E := by
  cases S <;> cases E <;> simp [careCall, sOf, eOf]

theorem dareCall_reads (A : Matrix n n K) (B : Matrix n m K) (Q : Matrix n n K) (R : Matrix m m K)
    (S : Option (Matrix n m K)) (E : Option (Matrix n n K)) :
    (dareCall A B Q R S E).a = A ∧ (dareCall A B Q R S E).b = B ∧ (dareCall A B Q R S E).q = Q ∧
    (dareCall A B Q R S E).r = R ∧ sOf (dareCall A B Q R S E).s = sOf S ∧
    eOf (dareCall A B Q R S E).e = eOf E := by
  simp [dareCall]

/-- the right-hand side of the gain solve is `BᵀXE + Sᵀ` in both branches of `care`. -/
theorem careGainRhs_eq (B : Matrix n m K) (X : Matrix n n K) (S : Option (Matrix n m K))
    (E : Option (Matrix n n K)) : careGainRhs B X S E = Bᵀ * X * eOf E + (sOf S)ᵀ := by
  cases S <;> cases E <;> simp [careGainRhs, sOf, eOf]

theorem dareGainRhs_eq (A : Matrix n n K) (B : Matrix n m K) (X : Matrix n n K)
    (S : Option (Matrix n m K)) : dareGainRhs A B X S = Bᵀ * X * A + (sOf S)ᵀ := by
  cases S <;> simp [dareGainRhs, sOf]

theorem carePencilE_eq (S : Option (Matrix n m K)) (E : Option (Matrix n n K)) :
    eOf (carePencilE S E) = eOf E := by
  cases S <;> cases E <;> simp [carePencilE, eOf]

/-! ## the certified inverse -/

theorem invQ_mul (F : Matrix m m K) (h : F.det ≠ 0) : SS.invQ F * F = 1 := by
  unfold SS.invQ
  rw [Matrix.smul_mul, Matrix.adjugate_mul, smul_smul, inv_mul_cancel₀ h, one_smul]

theorem mul_invQ (F : Matrix m m K) (h : F.det ≠ 0) : F * SS.invQ F = 1 := by
  unfold SS.invQ
  rw [Matrix.mul_smul, Matrix.mul_adjugate, smul_smul, inv_mul_cancel₀ h, one_smul]

theorem invQ_eq_inv (F : Matrix m m K) (h : F.det ≠ 0) : SS.invQ F = F⁻¹ :=
  (Matrix.inv_eq_left_inv (invQ_mul F h)).symm

/-! ## closed-loop Lyapunov form of the Riccati equation (pure algebra) -/

/-- with `W = BᵀXE + Sᵀ`, `R G = W`, `Gᵀ R = Wᵀ`: if `AᵀXE + EᵀXA − WᵀG + Q = 0` then
`(A − BG)ᵀXE + EᵀX(A − BG) + Q + GᵀRG − SG − GᵀSᵀ = 0`. -/
theorem closed_loop_algebra (A E X Q : Matrix n n K) (B S : Matrix n m K) (R : Matrix m m K)
    (G W : Matrix m n K) (hX : Xᵀ = X) (hW : W = Bᵀ * X * E + Sᵀ) (hG : R * G = W)
    (hGt : Gᵀ * R = Wᵀ) (hEq : Aᵀ * X * E + Eᵀ * X * A - Wᵀ * G + Q = 0) :
    (A - B * G)ᵀ * X * E + Eᵀ * X * (A - B * G) + (Q + Gᵀ * R * G - S * G - Gᵀ * Sᵀ) = 0 := by
  have hWt : Wᵀ = Eᵀ * X * B + S := by
    rw [hW]; simp [Matrix.transpose_mul, hX, Matrix.mul_assoc]
  have h1 : Bᵀ * X * E = W - Sᵀ := by rw [hW]; abel
  have h2 : Eᵀ * X * B = Wᵀ - S := by rw [hWt]; abel
  have h3 : Gᵀ * R * G = Wᵀ * G := by rw [hGt]
  have h4 : Gᵀ * W = Wᵀ * G := by
    calc Gᵀ * W = Gᵀ * (R * G) := by rw [hG]
      _ = (Gᵀ * R) * G := by rw [Matrix.mul_assoc]
      _ = Wᵀ * G := by rw [hGt]
  have e1 : (A - B * G)ᵀ * X * E = Aᵀ * X * E - Gᵀ * (Bᵀ * X * E) := by
    simp [Matrix.transpose_sub, Matrix.transpose_mul, Matrix.sub_mul, Matrix.mul_assoc]
  have e2 : Eᵀ * X * (A - B * G) = Eᵀ * X * A - (Eᵀ * X * B) * G := by
    simp [Matrix.mul_sub, Matrix.mul_assoc]
  rw [e1, e2, h1, h2, h3]
  simp only [Matrix.mul_sub, Matrix.sub_mul, h4]
  rw [← hEq]
  abel

/-- a successful `do` block: its first statement succeeded. -/
theorem bind_ok {α β : Type} {x : Except Err α} {f : α → Except Err β} {r : β}
    (h : x >>= f = .ok r) : ∃ a, x = .ok a ∧ f a = .ok r := by
  cases x with
  | error e => simp [bind, Except.bind] at h
  | ok a => exact ⟨a, rfl, by simpa [bind, Except.bind] using h⟩

end CtrlVerif.MatEqn
