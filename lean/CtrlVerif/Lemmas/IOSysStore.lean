/-
Helper lemmas for `Model/IOSysStore.lean`: allocation and writes to new arrays leave every
existing array as it was.
-/
import CtrlVerif.Model.IOSysStore

namespace CtrlVerif

namespace Store
variable {α : Type}

theorem Extends.refl (s : Store α) : Extends s s := ⟨Nat.le_refl _, fun _ _ => rfl⟩

theorem Extends.trans {a b c : Store α} (h1 : Extends a b) (h2 : Extends b c) : Extends a c :=
  ⟨Nat.le_trans h1.1 h2.1, fun r hr => by rw [h2.2 r (Nat.lt_of_lt_of_le hr h1.1), h1.2 r hr]⟩

@[simp] theorem alloc_length (s : Store α) (v : List α) : (s.alloc v).1.length = s.length + 1 := by
  simp [alloc]

@[simp] theorem alloc_ref (s : Store α) (v : List α) : (s.alloc v).2 = s.length := rfl

@[simp] theorem write_length (s : Store α) (r : Nat) (v : List α) : (s.write r v).length = s.length := by
  simp [write]

theorem read_alloc_old (s : Store α) (v : List α) {r : Nat} (hr : r < s.length) :
    (s.alloc v).1.read r = s.read r := by
  simp [alloc, read, List.getD_eq_getElem?_getD, List.getElem?_append_left hr]

theorem read_alloc_new (s : Store α) (v : List α) : (s.alloc v).1.read s.length = v := by
  simp [alloc, read, List.getD_eq_getElem?_getD]

theorem read_write_ne (s : Store α) (v : List α) {r r' : Nat} (h : r ≠ r') :
    (s.write r v).read r' = s.read r' := by
  simp [write, read, List.getD_eq_getElem?_getD, List.getElem?_set_ne h]

theorem read_write_same (s : Store α) (v : List α) {r : Nat} (h : r < s.length) :
    (s.write r v).read r = v := by
  simp [write, read, List.getD_eq_getElem?_getD, h]

theorem extends_alloc (s : Store α) (v : List α) : Extends s (s.alloc v).1 :=
  ⟨by simp, fun _ hr => read_alloc_old s v hr⟩

/-- a write to an array that did not exist in `s0` is invisible from `s0`. -/
theorem Extends.write_new {s0 s : Store α} (h : Extends s0 s) {r : Nat} (hr : s0.length ≤ r)
    (v : List α) : Extends s0 (s.write r v) :=
  ⟨by simpa using h.1, fun r' hr' => by
    rw [read_write_ne s v (by omega : r ≠ r'), h.2 r' hr']⟩

end Store

namespace OpArg
variable {α : Type}

theorem process_extends (s : Store α) (a : OpArg α) : Store.Extends s (a.process s).1 := by
  cases a with
  | view r => exact Store.Extends.refl s
  | fresh v => exact Store.extends_alloc s v

/-- the processed argument exists. -/
theorem process_ref_lt (s : Store α) (a : OpArg α) (h : a.Valid s) :
    (a.process s).2 < (a.process s).1.length := by
  cases a with
  | view r => exact h
  | fresh v => simp [process]

theorem Valid.mono {s s' : Store α} {a : OpArg α} (h : a.Valid s) (hs : s.length ≤ s'.length) :
    a.Valid s' := by
  cases a with
  | view r => exact Nat.lt_of_lt_of_le h hs
  | fresh v => trivial

end OpArg

namespace OpCall
variable {α : Type}

theorem scatterInto_length (s : Store α) (rx ru : Nat) (sv iv : List Nat) (z : List α) :
    (scatterInto s rx ru sv iv z).length = s.length := by
  simp [scatterInto]

theorem iterate_length (rx ru : Nat) (sv iv : List Nat) (zs : List (List α)) :
    ∀ s : Store α, (iterate s rx ru sv iv zs).length = s.length := by
  induction zs with
  | nil => intro s; rfl
  | cons z zs ih => intro s; simp only [iterate, List.foldl_cons] at ih ⊢; rw [ih]; exact scatterInto_length ..

theorem scatterInto_extends {s0 s : Store α} (h : Store.Extends s0 s) {rx ru : Nat}
    (hx : s0.length ≤ rx) (hu : s0.length ≤ ru) (sv iv : List Nat) (z : List α) :
    Store.Extends s0 (scatterInto s rx ru sv iv z) :=
  (h.write_new hx _).write_new hu _

/-- the evaluations of `rootfun` write into the two working arrays only. -/
theorem iterate_extends {s0 : Store α} {rx ru : Nat} (hx : s0.length ≤ rx) (hu : s0.length ≤ ru)
    (sv iv : List Nat) (zs : List (List α)) :
    ∀ s : Store α, Store.Extends s0 s → Store.Extends s0 (iterate s rx ru sv iv zs) := by
  induction zs with
  | nil => intro s h; exact h
  | cons z zs ih =>
    intro s h
    simp only [iterate, List.foldl_cons] at ih ⊢
    exact ih _ (scatterInto_extends h hx hu sv iv z)

theorem scatterInto_read {s : Store α} {rx ru : Nat} (hx : rx < s.length) (hu : ru < s.length)
    (hne : rx ≠ ru) (sv iv : List Nat) (z : List α) :
    (scatterInto s rx ru sv iv z).read rx = assignAt (s.read rx) sv (z.take sv.length) ∧
    (scatterInto s rx ru sv iv z).read ru = assignAt (s.read ru) iv (z.drop sv.length) := by
  unfold scatterInto
  refine ⟨?_, ?_⟩
  · rw [Store.read_write_ne _ _ (Ne.symm hne), Store.read_write_same _ _ hx]
  · rw [Store.read_write_same _ _ (by simpa using hu), Store.read_write_ne _ _ hne]

theorem iterate_read {rx ru : Nat} (hne : rx ≠ ru) (sv iv : List Nat) (zs : List (List α)) :
    ∀ s : Store α, rx < s.length → ru < s.length →
      (iterate s rx ru sv iv zs).read rx = (assignAll (s.read rx) (s.read ru) sv iv zs).1 ∧
      (iterate s rx ru sv iv zs).read ru = (assignAll (s.read rx) (s.read ru) sv iv zs).2 := by
  induction zs with
  | nil => intro s _ _; exact ⟨rfl, rfl⟩
  | cons z zs ih =>
    intro s hx hu
    obtain ⟨h1, h2⟩ := scatterInto_read hx hu hne sv iv z
    have := ih (scatterInto s rx ru sv iv z) (by simpa [scatterInto_length] using hx)
      (by simpa [scatterInto_length] using hu)
    simp only [iterate, assignAll, List.foldl_cons] at this ⊢
    rw [h1, h2] at this
    exact this

end OpCall

end CtrlVerif
