/-
The zero test of the singular branch of `StateSpace.horner` for non-square systems (`maxMinorsVanish`
of `Model/Eval.lean`) is a rank test: all maximal minors vanish exactly when the matrix does not have
full row rank.  Helper lemmas (free to change); used by `Props/C04GenZero.lean`.
-/
import CtrlVerif.Lemmas.Eval
import Mathlib.LinearAlgebra.Matrix.Rank
import Mathlib.LinearAlgebra.Matrix.NonsingularInverse
import Mathlib.LinearAlgebra.LinearIndependent.Lemmas
import Mathlib.Data.Finset.Sort
import Mathlib.Data.List.Sublists

set_option linter.unusedSectionVars false

namespace CtrlVerif.Eval
open Matrix

variable {K : Type} [Field K] [DecidableEq K]

/-- full row rank: some `r` columns (in increasing order) form an invertible square matrix. -/
theorem exists_minor_of_rank {r c : Nat} (R : Matrix (Fin r) (Fin c) K) (h : R.rank = r) :
    ∃ g : Fin r → Fin c, StrictMono g ∧ (R.submatrix id g).det ≠ 0 := by
  obtain ⟨κ, a, ha, hspan, hli⟩ := exists_linearIndependent' K R.col
  have : Finite κ := Finite.of_injective a ha
  have : Fintype κ := Fintype.ofFinite κ
  have hcard : Fintype.card κ = r := by
    have h1 := linearIndependent_iff_card_eq_finrank_span.mp hli
    rw [h1, Set.finrank, hspan, ← R.rank_eq_finrank_span_cols, h]
  let s : Finset (Fin c) := Finset.univ.image a
  have hs : s.card = r := by
    rw [Finset.card_image_of_injective _ ha, Finset.card_univ, hcard]
  let g := s.orderEmbOfFin hs
  have hmem : ∀ k, ∃ x : κ, a x = g k := by
    intro k
    have := Finset.orderEmbOfFin_mem s hs k
    rw [Finset.mem_image] at this
    obtain ⟨x, _, hx⟩ := this
    exact ⟨x, hx⟩
  choose f hf using hmem
  have hfi : Function.Injective f := by
    intro k1 k2 hk
    have : g k1 = g k2 := by rw [← hf k1, ← hf k2, hk]
    exact g.injective this
  refine ⟨g, g.strictMono, ?_⟩
  have hli2 : LinearIndependent K ((R.submatrix id g).col) := by
    have := hli.comp f hfi
    have he : (R.submatrix id g).col = (R.col ∘ a) ∘ f := by
      funext k i
      simp [Matrix.col, Function.comp, hf k]
    rw [he]
    exact this
  have hu : IsUnit (R.submatrix id g) := Matrix.linearIndependent_cols_iff_isUnit.mp hli2
  exact ((Matrix.isUnit_iff_isUnit_det _).mp hu).ne_zero



/-- the increasing enumeration of `r` columns is one of the selections `maxMinorsVanish` visits. -/
theorem ofFn_mem_sublistsLen {r c : Nat} (g : Fin r → Fin c) (hg : StrictMono g) :
    List.ofFn g ∈ List.sublistsLen r (List.finRange c) := by
  rw [List.mem_sublistsLen]
  refine ⟨?_, by simp⟩
  have h1 : (List.ofFn g).Pairwise (· < ·) := by
    rw [List.ofFn_eq_map]
    exact (List.pairwise_lt_finRange r).map g (fun _ _ h => hg h)
  have h2 : (List.finRange c).Pairwise (· < ·) := List.pairwise_lt_finRange c
  exact List.sublist_of_subperm_of_pairwise
    (List.subperm_of_subset h1.nodup (fun x _ => List.mem_finRange x)) h1 h2

/-- the minor `maxMinorsVanish` computes for a selection of the right length. -/
theorem minor_eq_submatrix {r c : Nat} (R : Matrix (Fin r) (Fin c) K) (sel : List (Fin c))
    (hl : sel.length = r) :
    (Matrix.of fun (i j : Fin r) => if h : j.val < sel.length then R i sel[j.val] else 0)
      = R.submatrix id (fun j => sel[j.val]'(by have := j.isLt; omega)) := by
  ext i j
  have : j.val < sel.length := by have := j.isLt; omega
  simp [this]

/-- **the zero test of non-square systems is a rank test**: all maximal minors of an `r × c` matrix
vanish exactly when its rank is smaller than `r`. -/
theorem maxMinorsVanish_iff {r c : Nat} (R : Matrix (Fin r) (Fin c) K) :
    maxMinorsVanish R = true ↔ R.rank < r := by
  have hle : R.rank ≤ r := by simpa using R.rank_le_card_height
  constructor
  · intro hall
    by_contra hlt
    have hr : R.rank = r := by omega
    obtain ⟨g, hg, hdet⟩ := exists_minor_of_rank R hr
    simp only [maxMinorsVanish, List.all_eq_true, decide_eq_true_eq] at hall
    have := hall _ (ofFn_mem_sublistsLen g hg)
    rw [detFin_eq_det, minor_eq_submatrix R _ (by simp)] at this
    apply hdet
    convert this using 3
    funext j
    simp
  · intro hlt
    simp only [maxMinorsVanish, List.all_eq_true, decide_eq_true_eq]
    intro sel hsel
    have hl : sel.length = r := (List.mem_sublistsLen.mp hsel).2
    rw [detFin_eq_det, minor_eq_submatrix R sel hl]
    by_contra hdet
    have h1 : (R.submatrix id (fun j : Fin r => sel[j.val]'(by have := j.isLt; omega))).rank = r := by
      simpa using Matrix.rank_of_det_ne_zero hdet
    have h2 := Matrix.rank_submatrix_le R id (fun j : Fin r => sel[j.val]'(by have := j.isLt; omega))
    omega

end CtrlVerif.Eval
