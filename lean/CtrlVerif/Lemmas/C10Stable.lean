/-
Helper lemmas for Props/C10Stable.lean: the Lyapunov argument on an eigenvector over ℂ.

* the sesquilinear form `star u ⬝ᵥ (M *ᵥ v)` under products, conjugate transposes and scalars;
* the two "Lyapunov identities on an eigenvector" (continuous: `(μ + conj μ) · w*Xw + v*Wv = 0`,
  discrete: `(conj μ · μ − 1) · w*Xw + v*Wv = 0`, `w = E v`), pencil form (`E` arbitrary);
* for a positive semidefinite `W`: `v*Wv = 0 → W v = 0` (elementary, no spectral theorem);
* a real symmetric positive (semi)definite matrix stays so over ℂ, and how `ᵀ`, `*`, `+` commute
  with the embedding `Matrix.map (algebraMap ℝ ℂ)`.
-/
import CtrlVerif.Lemmas.MatEqn
import Mathlib.LinearAlgebra.Matrix.PosDef
import Mathlib.LinearAlgebra.Matrix.Notation
import Mathlib.Tactic.FinCases
import Mathlib.LinearAlgebra.Matrix.ToLinearEquiv
import Mathlib.Analysis.Complex.Order
import Mathlib.Analysis.Complex.Basic
import Mathlib.Analysis.RCLike.Basic
import Mathlib.Data.Complex.BigOperators
import Mathlib.LinearAlgebra.Complex.Module
import Mathlib.Tactic.Linarith
import Mathlib.Tactic.Ring
import Mathlib.Tactic.Abel

namespace CtrlVerif.C10Stable

open Matrix ComplexOrder
open scoped ComplexConjugate

variable {n : Type*} [Fintype n]

/-! ## the sesquilinear form `u* M v` -/

theorem sesq_mul (M N : Matrix n n ℂ) (u v : n → ℂ) :
    star u ⬝ᵥ ((M * N) *ᵥ v) = star u ⬝ᵥ (M *ᵥ (N *ᵥ v)) := by
  rw [Matrix.mulVec_mulVec]

theorem sesq_conjTranspose_mul (N M : Matrix n n ℂ) (u v : n → ℂ) :
    star u ⬝ᵥ ((Nᴴ * M) *ᵥ v) = star (N *ᵥ u) ⬝ᵥ (M *ᵥ v) := by
  rw [← Matrix.mulVec_mulVec, Matrix.dotProduct_mulVec, Matrix.star_mulVec]

theorem sesq_add (M N : Matrix n n ℂ) (u v : n → ℂ) :
    star u ⬝ᵥ ((M + N) *ᵥ v) = star u ⬝ᵥ (M *ᵥ v) + star u ⬝ᵥ (N *ᵥ v) := by
  rw [Matrix.add_mulVec, dotProduct_add]

theorem sesq_sub (M N : Matrix n n ℂ) (u v : n → ℂ) :
    star u ⬝ᵥ ((M - N) *ᵥ v) = star u ⬝ᵥ (M *ᵥ v) - star u ⬝ᵥ (N *ᵥ v) := by
  rw [Matrix.sub_mulVec, dotProduct_sub]

theorem sesq_smul_right (M : Matrix n n ℂ) (u v : n → ℂ) (c : ℂ) :
    star u ⬝ᵥ (M *ᵥ (c • v)) = c * (star u ⬝ᵥ (M *ᵥ v)) := by
  rw [Matrix.mulVec_smul, dotProduct_smul, smul_eq_mul]

theorem sesq_smul_left (M : Matrix n n ℂ) (u v : n → ℂ) (c : ℂ) :
    star (c • u) ⬝ᵥ (M *ᵥ v) = conj c * (star u ⬝ᵥ (M *ᵥ v)) := by
  rw [star_smul, smul_dotProduct, smul_eq_mul]; rfl

/-! ## the Lyapunov identities on an eigenvector of the pencil `(Acl, E)` -/

/-- continuous time: `Aclᴴ X E + Eᴴ X Acl + W = 0` and `Acl v = μ E v` give
`(μ + conj μ) · (Ev)* X (Ev) + v* W v = 0`. -/
theorem lyap_form (Acl E X W : Matrix n n ℂ) (h : Aclᴴ * X * E + Eᴴ * X * Acl + W = 0)
    (v : n → ℂ) (μ : ℂ) (hev : Acl *ᵥ v = μ • (E *ᵥ v)) :
    (μ + conj μ) * (star (E *ᵥ v) ⬝ᵥ (X *ᵥ (E *ᵥ v))) + star v ⬝ᵥ (W *ᵥ v) = 0 := by
  have h0 : star v ⬝ᵥ ((Aclᴴ * X * E + Eᴴ * X * Acl + W) *ᵥ v) = 0 := by
    rw [h, Matrix.zero_mulVec, dotProduct_zero]
  rw [sesq_add, sesq_add, Matrix.mul_assoc, Matrix.mul_assoc, sesq_conjTranspose_mul,
    sesq_conjTranspose_mul, sesq_mul, sesq_mul, hev, sesq_smul_left, sesq_smul_right] at h0
  rw [← h0]; ring

/-- discrete time: `Aclᴴ X Acl − Eᴴ X E + W = 0` and `Acl v = μ E v` give
`(conj μ · μ − 1) · (Ev)* X (Ev) + v* W v = 0`. -/
theorem dlyap_form (Acl E X W : Matrix n n ℂ) (h : Aclᴴ * X * Acl - Eᴴ * X * E + W = 0)
    (v : n → ℂ) (μ : ℂ) (hev : Acl *ᵥ v = μ • (E *ᵥ v)) :
    (conj μ * μ - 1) * (star (E *ᵥ v) ⬝ᵥ (X *ᵥ (E *ᵥ v))) + star v ⬝ᵥ (W *ᵥ v) = 0 := by
  have h0 : star v ⬝ᵥ ((Aclᴴ * X * Acl - Eᴴ * X * E + W) *ᵥ v) = 0 := by
    rw [h, Matrix.zero_mulVec, dotProduct_zero]
  rw [sesq_add, sesq_sub, Matrix.mul_assoc, Matrix.mul_assoc, sesq_conjTranspose_mul,
    sesq_conjTranspose_mul, sesq_mul, sesq_mul, hev, sesq_smul_left, sesq_smul_right] at h0
  rw [← h0]; ring

/-- from `(μ + conj μ) · p + q = 0` with `p > 0`, `q > 0` (in the order of ℂ: real and
positive): `Re μ < 0`. -/
theorem re_neg_of_form {μ p q : ℂ} (hp : 0 < p) (hq : 0 < q) (h : (μ + conj μ) * p + q = 0) :
    μ.re < 0 := by
  obtain ⟨hp1, hp2⟩ := Complex.pos_iff.mp hp
  obtain ⟨hq1, _⟩ := Complex.pos_iff.mp hq
  have hre := congrArg Complex.re h
  simp only [Complex.add_re, Complex.mul_re, Complex.conj_re, Complex.add_im, Complex.conj_im,
    Complex.zero_re, ← hp2] at hre
  by_contra hcon
  push Not at hcon
  have : 0 ≤ (μ.re + μ.re) * p.re := mul_nonneg (by linarith) hp1.le
  linarith

/-- from `(conj μ · μ − 1) · p + q = 0` with `p > 0`, `q > 0`: `‖μ‖ < 1`. -/
theorem norm_lt_one_of_form {μ p q : ℂ} (hp : 0 < p) (hq : 0 < q)
    (h : (conj μ * μ - 1) * p + q = 0) : ‖μ‖ < 1 := by
  obtain ⟨hp1, hp2⟩ := Complex.pos_iff.mp hp
  obtain ⟨hq1, _⟩ := Complex.pos_iff.mp hq
  have hre := congrArg Complex.re h
  simp only [Complex.add_re, Complex.mul_re, Complex.conj_re, Complex.sub_re, Complex.one_re,
    Complex.conj_im, Complex.sub_im, Complex.mul_im, Complex.one_im, Complex.zero_re, ← hp2]
    at hre
  have hsq : ‖μ‖ ^ 2 = μ.re * μ.re + μ.im * μ.im := by
    rw [Complex.sq_norm, Complex.normSq_apply]
  by_contra hcon
  push Not at hcon
  have h1 : 1 ≤ ‖μ‖ ^ 2 := by nlinarith [norm_nonneg μ]
  have : 0 ≤ (μ.re * μ.re - -μ.im * μ.im - 1) * p.re :=
    mul_nonneg (by nlinarith) hp1.le
  nlinarith

/-! ## semidefinite weights -/

/-- for a positive semidefinite `W`: `v* W v = 0` only if `W v = 0` (take `u = W v` and
`t = −s` real in `0 ≤ (v + t u)* W (v + t u)`). -/
theorem posSemidef_form_zero {W : Matrix n n ℂ} (hW : W.PosSemidef) (v : n → ℂ)
    (h0 : star v ⬝ᵥ (W *ᵥ v) = 0) : W *ᵥ v = 0 := by
  set u := W *ᵥ v with hu
  -- c = u* u is real, nonnegative
  have hWH : Wᴴ = W := hW.1
  have hvu : star v ⬝ᵥ (W *ᵥ u) = star u ⬝ᵥ u := by
    have e : star v ᵥ* W = star (W *ᵥ v) := by rw [Matrix.star_mulVec, hWH]
    rw [Matrix.dotProduct_mulVec, e]
  have key : ∀ s : ℝ, 0 ≤ star (v - (s : ℂ) • u) ⬝ᵥ (W *ᵥ (v - (s : ℂ) • u)) :=
    fun s => hW.dotProduct_mulVec_nonneg _
  have expand : ∀ s : ℝ, star (v - (s : ℂ) • u) ⬝ᵥ (W *ᵥ (v - (s : ℂ) • u))
      = - (2 * (s : ℂ)) * (star u ⬝ᵥ u) + (s : ℂ) * (s : ℂ) * (star u ⬝ᵥ (W *ᵥ u)) := by
    intro s
    have hs : star ((s : ℂ) • u) = (s : ℂ) • star u := by
      rw [star_smul]; congr 1; exact Complex.conj_ofReal s
    rw [star_sub, Matrix.mulVec_sub, sub_dotProduct, dotProduct_sub, dotProduct_sub, h0,
      Matrix.mulVec_smul, dotProduct_smul, hvu, hs, smul_dotProduct, smul_dotProduct,
      dotProduct_smul, ← hu]
    simp only [smul_eq_mul]; ring
  -- real numbers
  obtain ⟨hq1, hq2⟩ := Complex.nonneg_iff.mp (hW.dotProduct_mulVec_nonneg u)
  have hc : (star u ⬝ᵥ u).im = 0 := by
    have : star (star u ⬝ᵥ u) = star u ⬝ᵥ u := by
      rw [← Matrix.star_dotProduct_star, star_star, dotProduct_comm]
    have := congrArg Complex.im this
    simp only [Complex.star_def, Complex.conj_im] at this
    linarith
  have hre : ∀ s : ℝ, 0 ≤ - (2 * s) * (star u ⬝ᵥ u).re + s * s * (star u ⬝ᵥ (W *ᵥ u)).re := by
    intro s
    have := (Complex.nonneg_iff.mp (key s)).1
    rw [expand s] at this
    simpa [Complex.add_re, Complex.mul_re, hc, ← hq2] using this
  have hc0 : (star u ⬝ᵥ u).re ≤ 0 := by
    by_contra hpos
    push Not at hpos
    set c := (star u ⬝ᵥ u).re
    set q := (star u ⬝ᵥ (W *ᵥ u)).re
    -- choose s = c / (q + 1) > 0:  −2 s c + s² q = s (−2c + s q) < 0
    have hq1' : 0 < q + 1 := by linarith
    have := hre (c / (q + 1))
    have hs : 0 < c / (q + 1) := div_pos hpos hq1'
    have h2 : c / (q + 1) * q ≤ c := by
      rw [div_mul_eq_mul_div, div_le_iff₀ hq1']; nlinarith
    nlinarith
  have hzero : star u ⬝ᵥ u = 0 := by
    apply Complex.ext
    · have : 0 ≤ (star u ⬝ᵥ u).re := by
        have := (Complex.nonneg_iff.mp (dotProduct_star_self_nonneg u)).1
        exact this
      simp only [Complex.zero_re]; linarith
    · simpa using hc
  exact dotProduct_star_self_eq_zero.mp hzero

/-- hence `v* W v > 0` whenever `W` is positive semidefinite and `W v ≠ 0`. -/
theorem posSemidef_form_pos {W : Matrix n n ℂ} (hW : W.PosSemidef) (v : n → ℂ)
    (hv : W *ᵥ v ≠ 0) : 0 < star v ⬝ᵥ (W *ᵥ v) :=
  lt_of_le_of_ne (hW.dotProduct_mulVec_nonneg v) (fun h => hv (posSemidef_form_zero hW v h.symm))

/-! ## real matrices inside complex ones -/

/-- the embedding of a real matrix -/
noncomputable abbrev toC {p q : Type*} (M : Matrix p q ℝ) : Matrix p q ℂ :=
  M.map (algebraMap ℝ ℂ)

theorem toC_mul {p q r : Type*} [Fintype q] (M : Matrix p q ℝ) (N : Matrix q r ℝ) :
    toC (M * N) = toC M * toC N := Matrix.map_mul

theorem toC_add {p q : Type*} (M N : Matrix p q ℝ) : toC (M + N) = toC M + toC N :=
  Matrix.map_add _ (fun _ _ => map_add _ _ _) _ _

theorem toC_sub {p q : Type*} (M N : Matrix p q ℝ) : toC (M - N) = toC M - toC N :=
  Matrix.map_sub _ (fun _ _ => map_sub _ _ _) _ _

theorem toC_zero {p q : Type*} : toC (0 : Matrix p q ℝ) = 0 := by
  ext i j; simp [toC]

theorem toC_one [DecidableEq n] : toC (1 : Matrix n n ℝ) = 1 := by
  ext i j; by_cases h : i = j <;> simp [toC, Matrix.one_apply, h]

theorem toC_transpose {p q : Type*} (M : Matrix p q ℝ) : toC Mᵀ = (toC M)ᴴ := by
  ext i j; simp [toC, Matrix.conjTranspose_apply]

/-- real and imaginary parts of a complex vector -/
def reV (v : n → ℂ) : n → ℝ := fun i => (v i).re
def imV (v : n → ℂ) : n → ℝ := fun i => (v i).im

theorem toC_mulVec_re (M : Matrix n n ℝ) (v : n → ℂ) (i : n) :
    ((toC M *ᵥ v) i).re = (M *ᵥ reV v) i := by
  simp [toC, Matrix.mulVec, dotProduct, reV]

theorem toC_mulVec_im (M : Matrix n n ℝ) (v : n → ℂ) (i : n) :
    ((toC M *ᵥ v) i).im = (M *ᵥ imV v) i := by
  simp [toC, Matrix.mulVec, dotProduct, imV]

/-- `v* M v` for a real symmetric `M`: `aᵀMa + bᵀMb` with `v = a + i b` (and it is real). -/
theorem form_toC (M : Matrix n n ℝ) (hM : Mᵀ = M) (v : n → ℂ) :
    star v ⬝ᵥ (toC M *ᵥ v)
      = ((reV v ⬝ᵥ (M *ᵥ reV v) + imV v ⬝ᵥ (M *ᵥ imV v) : ℝ) : ℂ) := by
  have hsym : imV v ⬝ᵥ (M *ᵥ reV v) = reV v ⬝ᵥ (M *ᵥ imV v) := by
    rw [Matrix.dotProduct_mulVec, ← Matrix.mulVec_transpose, hM, dotProduct_comm]
  apply Complex.ext
  · simp only [dotProduct, Pi.star_apply, Complex.re_sum, Complex.mul_re, Complex.star_def,
      Complex.conj_re, Complex.conj_im, toC_mulVec_re, toC_mulVec_im, Complex.ofReal_re]
    simp only [reV, imV, neg_mul, sub_neg_eq_add]
    rw [← Finset.sum_add_distrib]
  · simp only [dotProduct, Pi.star_apply, Complex.im_sum, Complex.mul_im, Complex.star_def,
      Complex.conj_re, Complex.conj_im, toC_mulVec_re, toC_mulVec_im, Complex.ofReal_im]
    have h1 : ∑ x, ((v x).re * (M *ᵥ imV v) x + -(v x).im * (M *ᵥ reV v) x)
        = reV v ⬝ᵥ (M *ᵥ imV v) - imV v ⬝ᵥ (M *ᵥ reV v) := by
      simp only [dotProduct, reV, imV, ← Finset.sum_sub_distrib]
      apply Finset.sum_congr rfl; intro x _; ring
    rw [h1, hsym, sub_self]

theorem reV_imV_ne_zero {v : n → ℂ} (hv : v ≠ 0) : reV v ≠ 0 ∨ imV v ≠ 0 := by
  by_contra h
  push Not at h
  apply hv
  funext i
  apply Complex.ext
  · simpa [reV] using congrFun h.1 i
  · simpa [imV] using congrFun h.2 i

theorem toC_isHermitian {M : Matrix n n ℝ} (hM : Mᵀ = M) : (toC M).IsHermitian := by
  unfold Matrix.IsHermitian
  rw [← toC_transpose, hM]

theorem real_posDef_transpose {M : Matrix n n ℝ} (hM : M.PosDef) : Mᵀ = M := by
  have := hM.1
  unfold Matrix.IsHermitian at this
  rwa [Matrix.conjTranspose_eq_transpose_of_trivial] at this

theorem real_posSemidef_transpose {M : Matrix n n ℝ} (hM : M.PosSemidef) : Mᵀ = M := by
  have := hM.1
  unfold Matrix.IsHermitian at this
  rwa [Matrix.conjTranspose_eq_transpose_of_trivial] at this

/-- a real (symmetric) positive definite matrix is positive definite over ℂ. -/
theorem toC_posDef {M : Matrix n n ℝ} (hM : M.PosDef) : (toC M).PosDef := by
  have hT := real_posDef_transpose hM
  refine Matrix.PosDef.of_dotProduct_mulVec_pos (toC_isHermitian hT) ?_
  intro v hv
  rw [form_toC M hT v, Complex.zero_lt_real]
  have ha : 0 ≤ reV v ⬝ᵥ (M *ᵥ reV v) := by
    have := hM.posSemidef.dotProduct_mulVec_nonneg (reV v)
    simpa using this
  have hb : 0 ≤ imV v ⬝ᵥ (M *ᵥ imV v) := by
    have := hM.posSemidef.dotProduct_mulVec_nonneg (imV v)
    simpa using this
  rcases reV_imV_ne_zero hv with h | h
  · have := hM.dotProduct_mulVec_pos h
    have : 0 < reV v ⬝ᵥ (M *ᵥ reV v) := by simpa using this
    linarith
  · have := hM.dotProduct_mulVec_pos h
    have : 0 < imV v ⬝ᵥ (M *ᵥ imV v) := by simpa using this
    linarith

/-- a real (symmetric) positive semidefinite matrix is positive semidefinite over ℂ. -/
theorem toC_posSemidef {M : Matrix n n ℝ} (hM : M.PosSemidef) : (toC M).PosSemidef := by
  have hT := real_posSemidef_transpose hM
  refine Matrix.PosSemidef.of_dotProduct_mulVec_nonneg (toC_isHermitian hT) ?_
  intro v
  rw [form_toC M hT v, Complex.zero_le_real]
  have ha : 0 ≤ reV v ⬝ᵥ (M *ᵥ reV v) := by
    have := hM.dotProduct_mulVec_nonneg (reV v)
    simpa using this
  have hb : 0 ≤ imV v ⬝ᵥ (M *ᵥ imV v) := by
    have := hM.dotProduct_mulVec_nonneg (imV v)
    simpa using this
  linarith

/-! ## determinant form of "eigenvalue of the pencil" -/

/-- `det (μ E − Acl) = 0` iff the pencil `(Acl, E)` has an eigenvector for `μ`. -/
theorem pencil_det_iff [DecidableEq n] (Acl E : Matrix n n ℂ) (μ : ℂ) :
    (μ • E - Acl).det = 0 ↔ ∃ v : n → ℂ, v ≠ 0 ∧ Acl *ᵥ v = μ • (E *ᵥ v) := by
  rw [← Matrix.exists_mulVec_eq_zero_iff]
  constructor
  · rintro ⟨v, hv, h⟩
    refine ⟨v, hv, ?_⟩
    rw [Matrix.sub_mulVec, Matrix.smul_mulVec, sub_eq_zero] at h
    exact h.symm
  · rintro ⟨v, hv, h⟩
    refine ⟨v, hv, ?_⟩
    rw [Matrix.sub_mulVec, Matrix.smul_mulVec, sub_eq_zero]
    exact h.symm

/-! ## the core of the Lyapunov argument -/

/-- continuous time, pencil form: with `X` positive definite and `v* W v > 0`, an eigenvector `v`
of the pencil `(Acl, E)` for `μ` has `E v ≠ 0` (no infinite eigenvalue) and `Re μ < 0`. -/
theorem lyap_core (Acl E X W : Matrix n n ℂ) (hX : X.PosDef)
    (h : Aclᴴ * X * E + Eᴴ * X * Acl + W = 0) (v : n → ℂ) (μ : ℂ)
    (hev : Acl *ᵥ v = μ • (E *ᵥ v)) (hq : 0 < star v ⬝ᵥ (W *ᵥ v)) :
    E *ᵥ v ≠ 0 ∧ μ.re < 0 := by
  have hf := lyap_form Acl E X W h v μ hev
  have hEv : E *ᵥ v ≠ 0 := by
    intro h0
    rw [h0, Matrix.mulVec_zero, dotProduct_zero, mul_zero, zero_add] at hf
    exact hq.ne' hf
  exact ⟨hEv, re_neg_of_form (hX.dotProduct_mulVec_pos hEv) hq hf⟩

/-- discrete time, pencil form. -/
theorem dlyap_core (Acl E X W : Matrix n n ℂ) (hX : X.PosDef)
    (h : Aclᴴ * X * Acl - Eᴴ * X * E + W = 0) (v : n → ℂ) (μ : ℂ)
    (hev : Acl *ᵥ v = μ • (E *ᵥ v)) (hq : 0 < star v ⬝ᵥ (W *ᵥ v)) :
    E *ᵥ v ≠ 0 ∧ ‖μ‖ < 1 := by
  have hf := dlyap_form Acl E X W h v μ hev
  have hEv : E *ᵥ v ≠ 0 := by
    intro h0
    rw [h0, Matrix.mulVec_zero, dotProduct_zero, mul_zero, zero_add] at hf
    exact hq.ne' hf
  exact ⟨hEv, norm_lt_one_of_form (hX.dotProduct_mulVec_pos hEv) hq hf⟩

/-- the real Lyapunov equation, embedded -/
theorem toC_lyap_eq (Acl E X W : Matrix n n ℝ) (h : Aclᵀ * X * E + Eᵀ * X * Acl + W = 0) :
    (toC Acl)ᴴ * toC X * toC E + (toC E)ᴴ * toC X * toC Acl + toC W = 0 := by
  have := congrArg toC h
  rwa [toC_add, toC_add, toC_mul, toC_mul, toC_mul, toC_mul, toC_transpose, toC_transpose,
    toC_zero] at this

theorem toC_dlyap_eq (Acl E X W : Matrix n n ℝ) (h : Aclᵀ * X * Acl - Eᵀ * X * E + W = 0) :
    (toC Acl)ᴴ * toC X * toC Acl - (toC E)ᴴ * toC X * toC E + toC W = 0 := by
  have := congrArg toC h
  rwa [toC_add, toC_sub, toC_mul, toC_mul, toC_mul, toC_mul, toC_transpose, toC_transpose,
    toC_zero] at this

/-! ## closed-loop Lyapunov form of the discrete Riccati equation (pure algebra, any field) -/

section dare
variable {K : Type*} [Field K] {m : Type*} [Fintype m]

/-- with `F = BᵀXB + R`, `W = BᵀXA + Sᵀ`, `F G = W`, `Wᵀ = AᵀXB + S`: if
`AᵀXA − EᵀXE − WᵀG + Q = 0` then `(A − BG)ᵀX(A − BG) − EᵀXE + Q + GᵀRG − SG − GᵀSᵀ = 0`. -/
theorem dare_closed_loop_algebra (A E X Q : Matrix n n K) (B S : Matrix n m K)
    (R F : Matrix m m K) (G W : Matrix m n K) (hF : F = Bᵀ * X * B + R)
    (hW : W = Bᵀ * X * A + Sᵀ) (hWt : Wᵀ = Aᵀ * X * B + S) (hG : F * G = W)
    (hEq : Aᵀ * X * A - Eᵀ * X * E - Wᵀ * G + Q = 0) :
    (A - B * G)ᵀ * X * (A - B * G) - Eᵀ * X * E + (Q + Gᵀ * R * G - S * G - Gᵀ * Sᵀ) = 0 := by
  have h1 : Aᵀ * X * B = Wᵀ - S := by rw [hWt]; abel
  have h2 : Bᵀ * X * A = W - Sᵀ := by rw [hW]; abel
  have h3 : Bᵀ * X * B = F - R := by rw [hF]; abel
  have h4 : Gᵀ * F * G = Gᵀ * W := by rw [Matrix.mul_assoc, hG]
  have e1 : (A - B * G)ᵀ * X * (A - B * G)
      = Aᵀ * X * A - (Aᵀ * X * B) * G - Gᵀ * (Bᵀ * X * A) + Gᵀ * (Bᵀ * X * B) * G := by
    simp only [Matrix.transpose_sub, Matrix.transpose_mul, Matrix.sub_mul, Matrix.mul_sub,
      Matrix.mul_assoc]
    abel
  rw [e1, h1, h2, h3]
  simp only [Matrix.mul_sub, Matrix.sub_mul, h4]
  rw [← hEq]
  abel

end dare

/-! ## concrete 2 × 2 positive definite matrices (for the non-vacuity examples) -/

theorem posDef_two (a b c : ℝ) (ha : 0 < a) (hdet : 0 < a * c - b * b) :
    (!![a, b; b, c] : Matrix (Fin 2) (Fin 2) ℝ).PosDef := by
  refine Matrix.PosDef.of_dotProduct_mulVec_pos ?_ ?_
  · ext i j; fin_cases i <;> fin_cases j <;> simp [Matrix.conjTranspose_apply]
  · intro x hx
    have hform : star x ⬝ᵥ ((!![a, b; b, c] : Matrix (Fin 2) (Fin 2) ℝ) *ᵥ x)
        = a * x 0 * x 0 + 2 * b * x 0 * x 1 + c * x 1 * x 1 := by
      simp [dotProduct, Matrix.mulVec, Fin.sum_univ_two]; ring
    rw [hform]
    have hne : x 0 ≠ 0 ∨ x 1 ≠ 0 := by
      by_contra hcon
      push Not at hcon
      apply hx; funext i; fin_cases i
      · exact hcon.1
      · exact hcon.2
    have key : a * (a * x 0 * x 0 + 2 * b * x 0 * x 1 + c * x 1 * x 1)
        = (a * x 0 + b * x 1) ^ 2 + (a * c - b * b) * (x 1) ^ 2 := by ring
    have hpos : 0 < a * (a * x 0 * x 0 + 2 * b * x 0 * x 1 + c * x 1 * x 1) := by
      rw [key]
      by_cases h1 : x 1 = 0
      · have h0 : x 0 ≠ 0 := by
          rcases hne with h | h
          · exact h
          · exact absurd h1 h
        have : 0 < (a * x 0) ^ 2 := by positivity
        simpa [h1] using this
      · have : 0 < (a * c - b * b) * (x 1) ^ 2 := by positivity
        have : 0 ≤ (a * x 0 + b * x 1) ^ 2 := sq_nonneg _
        linarith
    exact (mul_pos_iff_of_pos_left ha).mp hpos

theorem vec2_ne_zero {v : Fin 2 → ℂ} (h : v 0 ≠ 0) : v ≠ 0 :=
  fun h0 => h (by rw [h0]; rfl)

end CtrlVerif.C10Stable
