/-
Helper lemmas for C18: row-major multi-indices, `gather`, and the index maps of the NumPy
operations of `Model/Shape.lean`.
-/
import CtrlVerif.Model.Response
import Mathlib.Tactic.Ring
import Mathlib.Tactic.Linarith

namespace CtrlVerif

open NDArr

variable {α β : Type}

namespace NDArr

/-! ### gather -/

theorem gather_ok {d : List α} {n : Nat} {f : Nat → Nat} (h : ∀ k, k < n → f k < d.length) :
    gather d n f = .ok (List.ofFn fun k : Fin n => d[f k.val]'(h k.val k.isLt)) := by
  unfold gather
  rw [dif_pos h]

theorem gather_spec {d : List α} {n : Nat} {f : Nat → Nat} {l : List α}
    (h : gather d n f = .ok l) :
    l.length = n ∧ ∀ k, k < n → l[k]? = d[f k]? := by
  unfold gather at h
  split at h
  · rename_i hb
    injection h with h
    subst h
    refine ⟨by simp, ?_⟩
    intro k hk
    rw [List.getElem?_ofFn]
    simp [hk, List.getElem?_eq_getElem (hb k hk)]
  · cases h

theorem gather_isOk_iff {d : List α} {n : Nat} {f : Nat → Nat} :
    (∃ l, gather d n f = .ok l) ↔ ∀ k, k < n → f k < d.length := by
  constructor
  · rintro ⟨l, h⟩
    unfold gather at h
    split at h
    · assumption
    · cases h
  · intro h
    exact ⟨_, gather_ok h⟩

theorem gather_map (g : α → β) (d : List α) (n : Nat) (f : Nat → Nat) :
    gather (d.map g) n f = (gather d n f).map (List.map g) := by
  unfold gather
  by_cases h : ∀ k, k < n → f k < d.length
  · have h' : ∀ k, k < n → f k < (d.map g).length := by simpa using h
    rw [dif_pos h, dif_pos h']
    simp only [Except.map]
    congr 1
    apply List.ext_getElem?
    intro i
    simp [List.getElem?_ofFn, List.getElem?_map]
  · have h' : ¬ ∀ k, k < n → f k < (d.map g).length := by simpa using h
    rw [dif_neg h, dif_neg h']
    rfl

/-! ### flat indices -/

theorem flatIdx_lt : ∀ {s idx : List Nat} {k : Nat}, flatIdx s idx = some k → k < s.prod
  | [], [], k, h => by simp [flatIdx] at h; subst h; simp
  | [], _ :: _, k, h => by simp [flatIdx] at h
  | _ :: _, [], k, h => by simp [flatIdx] at h
  | d :: ds, i :: is, k, h => by
    simp only [flatIdx] at h
    split at h
    · rename_i hi
      cases hr : flatIdx ds is with
      | none => simp [hr] at h
      | some r =>
        simp [hr] at h
        subst h
        have hr' := flatIdx_lt hr
        simp only [List.prod_cons]
        calc i * ds.prod + r < i * ds.prod + ds.prod := by omega
          _ = (i + 1) * ds.prod := by ring
          _ ≤ d * ds.prod := Nat.mul_le_mul_right _ hi
    · cases h

theorem flatIdx_length : ∀ {s idx : List Nat} {k : Nat}, flatIdx s idx = some k →
    idx.length = s.length
  | [], [], _, _ => rfl
  | [], _ :: _, k, h => by simp [flatIdx] at h
  | _ :: _, [], k, h => by simp [flatIdx] at h
  | d :: ds, i :: is, k, h => by
    simp only [flatIdx] at h
    split at h
    · cases hr : flatIdx ds is with
      | none => simp [hr] at h
      | some r => simp [flatIdx_length hr]
    · cases h

theorem flatIdx_cons {d i : Nat} {ds is : List Nat} {r : Nat} (hi : i < d)
    (hr : flatIdx ds is = some r) : flatIdx (d :: ds) (i :: is) = some (i * ds.prod + r) := by
  simp [flatIdx, hi, hr]

/-- the last axis: `flat (pre ++ [T]) (is ++ [t]) = flat pre is * T + t`. -/
theorem flatIdx_snoc : ∀ {pre is : List Nat} {T t r : Nat}, flatIdx pre is = some r → t < T →
    flatIdx (pre ++ [T]) (is ++ [t]) = some (r * T + t)
  | [], [], T, t, r, h, ht => by
    simp [flatIdx] at h; subst h; simp [flatIdx, ht]
  | [], _ :: _, _, _, _, h, _ => by simp [flatIdx] at h
  | _ :: _, [], _, _, _, h, _ => by simp [flatIdx] at h
  | d :: ds, i :: is, T, t, r, h, ht => by
    simp only [flatIdx] at h
    split at h
    · rename_i hi
      cases hr : flatIdx ds is with
      | none => simp [hr] at h
      | some r' =>
        simp [hr] at h
        subst h
        have := flatIdx_snoc hr ht
        simp only [List.cons_append, flatIdx, hi, if_true, this, Option.map_some, List.prod_append,
          List.prod_cons, List.prod_nil, mul_one]
        congr 1
        ring
    · cases h

theorem prod_filter_ne_one (s : List Nat) : (s.filter (· ≠ 1)).prod = s.prod := by
  induction s with
  | nil => rfl
  | cons d ds ih =>
    rw [List.filter_cons]
    by_cases h : d = 1
    · subst h; simpa using ih
    · have : decide (d ≠ 1) = true := by simpa using h
      rw [this]; simp only [if_true, List.prod_cons, ih]

/-- re-insert a `0` at every axis of length one. -/
def expand : List Nat → List Nat → List Nat
  | [], _ => []
  | d :: ds, js =>
    if d = 1 then 0 :: expand ds js
    else match js with
      | j :: js' => j :: expand ds js'
      | [] => []

theorem flatIdx_expand : ∀ (s js : List Nat),
    flatIdx s (expand s js) = flatIdx (s.filter (· ≠ 1)) js ∨
      (flatIdx (s.filter (· ≠ 1)) js = none)
  | [], [] => by simp [expand, flatIdx]
  | [], _ :: _ => by simp [flatIdx]
  | d :: ds, js => by
    by_cases h : d = 1
    · subst h
      rcases flatIdx_expand ds js with ih | ih
      · left
        simp [expand, List.filter, flatIdx, ih]
      · right; simpa [List.filter] using ih
    · cases js with
      | nil => right; simp [List.filter, h, flatIdx]
      | cons j js' =>
        rcases flatIdx_expand ds js' with ih | ih
        · left
          have hp := prod_filter_ne_one ds
          simp only [ne_eq, decide_not] at hp
          simp [expand, List.filter, h, flatIdx, ih, hp]
        · right
          simp only [ne_eq, decide_not] at ih
          simp [List.filter, h, flatIdx, ih]

theorem flatIdx_expand_of_some {s js : List Nat} {k : Nat}
    (h : flatIdx (s.filter (· ≠ 1)) js = some k) : flatIdx s (expand s js) = some k := by
  rcases flatIdx_expand s js with h' | h'
  · rw [h', h]
  · rw [h] at h'; cases h'

/-! ### observable meaning of the operations -/

theorem get?_squeeze (a : NDArr α) (js : List Nat) (v : α) (h : a.squeeze.get? js = some v) :
    a.get? (expand a.shape js) = some v := by
  unfold get? at *
  simp only [squeeze] at h
  cases hk : flatIdx (a.shape.filter (· ≠ 1)) js with
  | none => rw [hk] at h; simp at h
  | some k => rw [hk] at h; rw [flatIdx_expand_of_some hk]; exact h

theorem index0_shape_data {a r : NDArr α} (h : a.index0 = .ok r) :
    ∃ d ds, a.shape = d :: ds ∧ 0 < d ∧ r.shape = ds ∧ r.data = a.data.take ds.prod := by
  unfold index0 index at h
  split at h
  · cases h
  · rename_i d ds hs
    split at h
    · rename_i hd
      injection h with h
      subst h
      exact ⟨d, ds, hs, hd, rfl, by simp⟩
    · cases h

theorem get?_index0 {a r : NDArr α} (h : a.index0 = .ok r) (is : List Nat) :
    r.get? is = a.get? (0 :: is) := by
  obtain ⟨d, ds, hs, hd, hrs, hrd⟩ := index0_shape_data h
  unfold get?
  rw [hs, hrs, hrd]
  simp only [flatIdx, hd, if_true, zero_mul, zero_add]
  cases hk : flatIdx ds is with
  | none => simp
  | some k =>
    have := flatIdx_lt hk
    simp [List.getElem?_take, this]

theorem timeFirst_spec {a r : NDArr α} {pre : List Nat} {T : Nat} (hs : a.shape = pre ++ [T])
    (h : a.timeFirst = .ok r) :
    r.shape = T :: pre ∧ r.data.length = T * pre.prod ∧
      ∀ k, k < T * pre.prod → r.data[k]? = a.data[(k % pre.prod) * T + k / pre.prod]? := by
  unfold timeFirst at h
  have h1 : a.shape.getLast? = some T := by simp [hs]
  have h2 : a.shape.dropLast = pre := by simp [hs]
  rw [h1] at h
  simp only [h2] at h
  cases hg : gather a.data (T * pre.prod) (fun k => (k % pre.prod) * T + k / pre.prod) with
  | error e => simp [hg, Except.map] at h
  | ok l =>
    simp [hg, Except.map] at h
    subst h
    obtain ⟨hl, hk⟩ := gather_spec hg
    exact ⟨rfl, hl, hk⟩

/-- `timeFirst` succeeds on every well-formed array. -/
theorem timeFirst_ok {a : NDArr α} (hw : a.WF) : ∃ r, a.timeFirst = .ok r ∧ r.WF := by
  cases hl : a.shape.getLast? with
  | none => exact ⟨a, by simp [timeFirst, hl], hw⟩
  | some T =>
    obtain ⟨pre, hs⟩ := List.getLast?_eq_some_iff.mp hl
    have hd : a.shape.dropLast = pre := by simp [hs]
    have hlen : a.data.length = pre.prod * T := by
      have : a.data.length = a.shape.prod := hw
      rw [this, hs]; simp
    have hb : ∀ k, k < T * pre.prod → (k % pre.prod) * T + k / pre.prod < a.data.length := by
      intro k hk
      have hP : 0 < pre.prod := by
        rcases Nat.eq_zero_or_pos pre.prod with h0 | h0
        · rw [h0] at hk; simp at hk
        · exact h0
      have h1 : k % pre.prod < pre.prod := Nat.mod_lt _ hP
      have h2 : k / pre.prod < T := by
        rw [Nat.div_lt_iff_lt_mul hP]; exact hk
      rw [hlen]
      calc (k % pre.prod) * T + k / pre.prod < (k % pre.prod) * T + T := by omega
        _ = (k % pre.prod + 1) * T := by ring
        _ ≤ pre.prod * T := Nat.mul_le_mul_right _ h1
    have e : a.timeFirst = .ok ⟨T :: pre, List.ofFn fun k : Fin (T * pre.prod) =>
        a.data[(k.val % pre.prod) * T + k.val / pre.prod]'(hb k.val k.isLt)⟩ := by
      simp only [timeFirst, hl, hd, gather_ok hb, Except.map]
    exact ⟨_, e, by simp [WF]⟩

theorem get?_timeFirst {a r : NDArr α} {pre : List Nat} {T : Nat} (hs : a.shape = pre ++ [T])
    (h : a.timeFirst = .ok r) (t : Nat) (is : List Nat) (ht : t < T) {j : Nat}
    (hj : flatIdx pre is = some j) :
    r.get? (t :: is) = a.get? (is ++ [t]) := by
  obtain ⟨hrs, _, hk⟩ := timeFirst_spec hs h
  have hjlt := flatIdx_lt hj
  unfold get?
  rw [hrs, hs, flatIdx_cons ht hj, flatIdx_snoc hj ht]
  simp only [Option.bind_some]
  have hlt : t * pre.prod + j < T * pre.prod := by
    calc t * pre.prod + j < t * pre.prod + pre.prod := by omega
      _ = (t + 1) * pre.prod := by ring
      _ ≤ T * pre.prod := Nat.mul_le_mul_right _ ht
  rw [hk _ hlt]
  have hP : 0 < pre.prod := by omega
  have e1 : (t * pre.prod + j) % pre.prod = j := by
    rw [Nat.mul_comm, Nat.mul_add_mod]; exact Nat.mod_eq_of_lt hjlt
  have e2 : (t * pre.prod + j) / pre.prod = t := by
    rw [Nat.mul_comm, Nat.mul_add_div hP]; simp [Nat.div_eq_of_lt hjlt]
  rw [e1, e2]

theorem dropTrace_spec {a r : NDArr α} {n m T : Nat} (hs : a.shape = [n, m, T])
    (h : a.dropTrace = .ok r) :
    0 < m ∧ r.shape = [n, T] ∧ r.data.length = n * T ∧
      ∀ k, k < n * T → r.data[k]? = a.data[(k / T) * (m * T) + k % T]? := by
  unfold dropTrace at h
  rw [hs] at h
  simp only at h
  split at h
  · cases h
  · rename_i hm
    cases hg : gather a.data (n * T) (fun k => (k / T) * (m * T) + k % T) with
    | error e => simp [hg, Except.map] at h
    | ok l =>
      simp [hg, Except.map] at h
      subst h
      obtain ⟨hl, hk⟩ := gather_spec hg
      exact ⟨Nat.pos_of_ne_zero hm, rfl, hl, hk⟩

theorem get?_dropTrace {a r : NDArr α} {n m T : Nat} (hs : a.shape = [n, m, T])
    (h : a.dropTrace = .ok r) (i t : Nat) (hi : i < n) (ht : t < T) :
    r.get? [i, t] = a.get? [i, 0, t] := by
  obtain ⟨hm, hrs, _, hk⟩ := dropTrace_spec hs h
  unfold get?
  rw [hrs, hs]
  simp only [flatIdx, hi, ht, hm, if_true, List.prod_cons, List.prod_nil, mul_one, Option.map_some,
    add_zero, zero_mul, zero_add, Option.bind_some]
  have hlt : i * T + t < n * T := by
    calc i * T + t < i * T + T := by omega
      _ = (i + 1) * T := by ring
      _ ≤ n * T := Nat.mul_le_mul_right _ hi
  rw [hk _ hlt]
  have hT : 0 < T := by omega
  have e1 : (i * T + t) / T = i := by
    rw [Nat.mul_comm, Nat.mul_add_div hT]; simp [Nat.div_eq_of_lt ht]
  have e2 : (i * T + t) % T = t := by
    rw [Nat.mul_comm, Nat.mul_add_mod]; exact Nat.mod_eq_of_lt ht
  rw [e1, e2]

theorem dropTrace_ok {a : NDArr α} {n m T : Nat} (hs : a.shape = [n, m, T]) (hm : 0 < m)
    (hw : a.WF) : ∃ r, a.dropTrace = .ok r ∧ r.WF ∧ r.shape = [n, T] := by
  have hlen : a.data.length = n * (m * T) := by
    have : a.data.length = a.shape.prod := hw
    rw [this, hs]; simp
  have hb : ∀ k, k < n * T → (k / T) * (m * T) + k % T < a.data.length := by
    intro k hk
    have hT : 0 < T := by
      rcases Nat.eq_zero_or_pos T with h0 | h0
      · rw [h0] at hk; simp at hk
      · exact h0
    have h1 : k % T < T := Nat.mod_lt _ hT
    have h2 : k / T < n := by rw [Nat.div_lt_iff_lt_mul hT]; exact hk
    rw [hlen]
    have h3 : k % T < m * T := lt_of_lt_of_le h1 (Nat.le_mul_of_pos_left _ hm)
    calc (k / T) * (m * T) + k % T < (k / T) * (m * T) + m * T := by omega
      _ = (k / T + 1) * (m * T) := by ring
      _ ≤ n * (m * T) := Nat.mul_le_mul_right _ h2
  unfold dropTrace
  rw [hs]
  simp only [Nat.pos_iff_ne_zero.mp hm, if_false]
  rw [gather_ok hb]
  exact ⟨_, rfl, by simp [WF, Except.map], rfl⟩

/-! ### naturality: the operations commute with an elementwise map -/

theorem squeeze_map (g : α → β) (a : NDArr α) : (a.map g).squeeze = a.squeeze.map g := rfl

theorem index_map (g : α → β) (a : NDArr α) (i : Nat) :
    (a.map g).index i = (a.index i).map (NDArr.map g) := by
  unfold index map
  cases hs : a.shape with
  | nil => simp [Except.map]
  | cons d ds =>
    simp only [Except.map]
    split <;> simp [List.map_take, List.map_drop]

theorem index0_map (g : α → β) (a : NDArr α) :
    (a.map g).index0 = a.index0.map (NDArr.map g) := index_map g a 0

theorem timeFirst_map (g : α → β) (a : NDArr α) :
    (a.map g).timeFirst = a.timeFirst.map (NDArr.map g) := by
  unfold timeFirst
  simp only [map]
  cases a.shape.getLast? with
  | none => rfl
  | some T =>
    simp only [gather_map]
    cases gather a.data _ _ <;> rfl

theorem dropTrace_map (g : α → β) (a : NDArr α) :
    (a.map g).dropTrace = a.dropTrace.map (NDArr.map g) := by
  unfold dropTrace
  simp only [map]
  split
  · split
    · rfl
    · simp only [gather_map]
      cases gather a.data _ _ <;> rfl
  · rfl

theorem squeezeAxis_map (g : α → β) (a : NDArr α) (k : Nat) :
    (a.map g).squeezeAxis k = (a.squeezeAxis k).map (NDArr.map g) := by
  unfold squeezeAxis map
  simp only
  split <;> rfl

end NDArr

end CtrlVerif

namespace CtrlVerif

open NDArr

variable {α β : Type}

/-! ### well-formedness is preserved -/

theorem NDArr.squeeze_wf {a : NDArr α} (hw : a.WF) : a.squeeze.WF := by
  unfold NDArr.WF NDArr.squeeze at *
  simp only
  rw [hw, NDArr.prod_filter_ne_one]

theorem NDArr.index0_wf {a r : NDArr α} (hw : a.WF) (h : a.index0 = .ok r) : r.WF := by
  obtain ⟨d, ds, hs, hd, hrs, hrd⟩ := NDArr.index0_shape_data h
  unfold NDArr.WF at *
  rw [hrs, hrd, List.length_take, hw, hs, List.prod_cons]
  exact Nat.min_eq_left (Nat.le_mul_of_pos_left _ hd)

/-- `a[0]` of an array whose first axis has length one keeps every entry. -/
theorem NDArr.index0_one {a : NDArr α} {ds : List Nat} (hs : a.shape = 1 :: ds) (hw : a.WF) :
    a.index0 = .ok ⟨ds, a.data⟩ := by
  have hl : a.data.length = ds.prod := by
    have : a.data.length = a.shape.prod := hw
    rw [this, hs]; simp
  unfold NDArr.index0 NDArr.index
  rw [hs]
  simp [← hl]

theorem Except.bind_map_comm {ε γ δ : Type} (x : Except ε α) (f : α → β) (g : α → Except ε γ)
    (g' : β → Except ε δ) (h : γ → δ) (hc : ∀ v, g' (f v) = (g v).map h) :
    (x.map f).bind g' = (x.bind g).map h := by
  cases x with
  | error e => rfl
  | ok v => simp [Except.map, Except.bind, hc]

theorem squeezeTime_map (g : α → β) (a : NDArr α) (issiso : Bool) (sq : Sq) :
    squeezeTime (a.map g) issiso sq = (squeezeTime a issiso sq).map (NDArr.map g) := by
  have hnd : (a.map g).ndim = a.ndim := rfl
  cases sq <;> simp only [squeezeTime, hnd]
  · split
    · split
      · rw [NDArr.index0_map]
        exact Except.bind_map_comm _ _ _ _ _ (fun v => NDArr.index0_map g v)
      · exact NDArr.index0_map g a
    · rfl
  · rfl
  · rfl
  · rfl

theorem processTime_map (g : α → β) (a : NDArr α) (issiso tr : Bool) (arg cfg : Sq) :
    processTime (a.map g) issiso tr arg cfg = (processTime a issiso tr arg cfg).map (NDArr.map g) := by
  unfold processTime
  rw [squeezeTime_map]
  apply Except.bind_map_comm
  intro v
  cases tr
  · rfl
  · simp only [if_true]; exact NDArr.timeFirst_map g v

theorem processTime_untransposed (a : NDArr α) (issiso : Bool) (arg cfg : Sq) :
    processTime a issiso true arg cfg =
      (processTime a issiso false arg cfg).bind NDArr.timeFirst := by
  unfold processTime
  cases squeezeTime a issiso (arg.resolve cfg) <;> rfl

theorem squeezeFreq_map (g : α → β) (a : NDArr α) (issiso : Bool) (sq : Sq) :
    squeezeFreq (a.map g) issiso sq = (squeezeFreq a issiso sq).map (NDArr.map g) := by
  cases sq <;> simp only [squeezeFreq]
  · split
    · rw [NDArr.index0_map]
      exact Except.bind_map_comm _ _ _ _ _ (fun v => NDArr.index0_map g v)
    · rfl
  · rfl
  · rfl
  · rfl

theorem processFreq_map (g : α → β) (issiso : Bool) (nd : Nat) (a : NDArr α) (arg cfg : Sq) :
    processFreq issiso nd (a.map g) arg cfg = (processFreq issiso nd a arg cfg).map (NDArr.map g) := by
  unfold processFreq
  split
  · rw [NDArr.squeezeAxis_map]
    exact Except.bind_map_comm _ _ _ _ _ (fun v => squeezeFreq_map g v issiso _)
  · exact squeezeFreq_map g a issiso _

end CtrlVerif
