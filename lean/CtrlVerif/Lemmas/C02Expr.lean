/-
Helper lemmas for the C02 tree theorem: `Except.bind` inversion, the determinant of the `lft`
loop matrix, the direct term of the closed loops built by `SS.feedback` / `SS.lft`.
-/
import CtrlVerif.Model.C02Expr
import Mathlib.LinearAlgebra.Matrix.SchurComplement

namespace CtrlVerif

open Matrix

theorem Except.bind_eq_ok_iff {ε α β : Type*} (x : Except ε α) (f : α → Except ε β) (b : β) :
    x.bind f = .ok b ↔ ∃ a, x = .ok a ∧ f a = .ok b := by
  cases x <;> simp [Except.bind]

theorem Except.bind_eq_error_iff {ε α β : Type*} (x : Except ε α) (f : α → Except ε β) (e : ε) :
    x.bind f = .error e ↔ x = .error e ∨ ∃ a, x = .ok a ∧ f a = .error e := by
  cases x <;> simp [Except.bind]

namespace SS

variable {K : Type*} [Field K]
variable {σ σ' ι₁ ι₂ o₁ o₂ κ μ : Type*}

/-- the loop matrix `[[I, -D22], [-Dbar11, I]]` of `lft` is singular exactly when
`I - D22 Dbar11` is. -/
theorem det_lftF [Fintype o₂] [DecidableEq o₂] [Fintype ι₂] [DecidableEq ι₂]
    (G : SS σ (ι₁ ⊕ ι₂) (o₁ ⊕ o₂) K) (H : SS σ' (o₂ ⊕ κ) (ι₂ ⊕ μ) K) :
    (SS.lftF G H).det = (1 - G.D.toBlocks₂₂ * H.D.toBlocks₁₁).det := by
  unfold SS.lftF
  rw [Matrix.det_fromBlocks_one₁₁, Matrix.neg_mul, Matrix.mul_neg, neg_neg,
    Matrix.det_one_sub_mul_comm]

end SS

end CtrlVerif
