/-
Basis families of control/flatsys as polynomials: `eval_deriv i k` is the evaluation of a
polynomial whose derivative is the polynomial of `eval_deriv i (k+1)`.
-/
import CtrlVerif.Model.Flat
import Mathlib.Algebra.Polynomial.Derivative
import Mathlib.Algebra.Polynomial.Eval.Defs
import Mathlib.Algebra.Polynomial.Eval.Algebra
import Mathlib.Data.Nat.Choose.Sum
import Mathlib.Data.Nat.Factorial.Basic
import Mathlib.Algebra.CharZero.Defs
import Mathlib.Tactic.Ring
import Mathlib.Tactic.FieldSimp

namespace CtrlVerif

open Polynomial Finset

variable {K : Type} [Field K] [DecidableEq K]

namespace Basis

/-- the polynomial of `PolyFamily.eval_deriv(i, k, ·)`: `i (i-1) ⋯ (i-k+1) / T^i · X^(i-k)`. -/
noncomputable def monoPoly (T : K) (i k : Nat) : K[X] :=
  C ((i.descFactorial k : K) / T ^ i) * X ^ (i - k)

theorem derivative_monoPoly (T : K) (i k : Nat) :
    derivative (monoPoly T i k) = monoPoly T i (k + 1) := by
  simp only [monoPoly, derivative_C_mul, derivative_X_pow, Nat.descFactorial_succ]
  rw [← mul_assoc, ← C_mul, Nat.sub_add_eq]
  congr 2
  push_cast
  ring

theorem eval_monoPoly [CharZero K] (T : K) (hT : T ≠ 0) (i k : Nat) (t : K) :
    eval t (monoPoly T i k) = polyDeriv T i k t := by
  simp only [monoPoly, polyDeriv, eval_mul, eval_C, eval_pow, eval_X]
  split
  · rename_i h
    rw [(Nat.descFactorial_eq_zero_iff_lt).mpr h]
    simp
  · rename_i h
    have hk : k ≤ i := Nat.le_of_not_lt h
    have hf : ((i - k).factorial : K) ≠ 0 := Nat.cast_ne_zero.mpr (Nat.factorial_ne_zero _)
    have h1 : (i.factorial : K) = ((i - k).factorial : K) * (i.descFactorial k : K) := by
      rw [← Nat.cast_mul, Nat.factorial_mul_descFactorial hk]
    have h2 : T ^ i = T ^ (i - k) * T ^ k := by rw [← pow_add, Nat.sub_add_cancel hk]
    rw [h1, h2, div_pow]
    field_simp

/-- the polynomial of `BezierFamily.eval_deriv(i, k, ·)` for `N` basis functions. -/
noncomputable def bezPoly (N : Nat) (T : K) (i k : Nat) : K[X] :=
  C ((N - 1).choose i : K) * ∑ l ∈ range (N - 1 - i + 1),
    C ((-1 : K) ^ l * ((N - 1 - i).choose l : K)) * monoPoly T (i + l) k

theorem derivative_bezPoly (N : Nat) (T : K) (i k : Nat) :
    derivative (bezPoly N T i k) = bezPoly N T i (k + 1) := by
  simp only [bezPoly, derivative_C_mul, derivative_sum, derivative_monoPoly]

theorem eval_bezPoly_sum [CharZero K] (N : Nat) (T : K) (hT : T ≠ 0) (i k : Nat) (t : K) :
    eval t (bezPoly N T i k) = ((N - 1).choose i : K) * ∑ l ∈ range (N - 1 - i + 1),
      (-1 : K) ^ l * ((N - 1 - i).choose l : K) * polyDeriv T (i + l) k t := by
  simp only [bezPoly, eval_mul, eval_C, eval_finsetSum, eval_monoPoly T hT]

theorem polyDeriv_zero [CharZero K] (T : K) (m : Nat) (t : K) : polyDeriv T m 0 t = (t / T) ^ m := by
  have hf : ((m.factorial : K)) ≠ 0 := Nat.cast_ne_zero.mpr (Nat.factorial_ne_zero _)
  simp [polyDeriv, div_self hf]

theorem eval_bezPoly [CharZero K] (N : Nat) (T : K) (hT : T ≠ 0) (i k : Nat) (hi : i < N) (t : K) :
    eval t (bezPoly N T i k) = bezierDeriv N T i k t := by
  rw [eval_bezPoly_sum N T hT]
  unfold bezierDeriv
  split
  · rename_i hk
    have hz : ∀ l ∈ range (N - 1 - i + 1),
        (-1 : K) ^ l * ((N - 1 - i).choose l : K) * polyDeriv T (i + l) k t = 0 := by
      intro l hl
      have hlt : i + l < k := by
        have := mem_range.mp hl
        omega
      simp [polyDeriv, hlt]
    rw [sum_eq_zero hz]
    simp
  · rename_i hk
    simp only
    split
    · rename_i h0
      subst h0
      simp only [polyDeriv_zero]
      have hb : (1 - t / T) ^ (N - 1 - i) = ∑ l ∈ range (N - 1 - i + 1),
          (-1 : K) ^ l * ((N - 1 - i).choose l : K) * (t / T) ^ l := by
        have h := add_pow (-(t / T)) 1 (N - 1 - i)
        rw [sub_eq_neg_add, h]
        apply sum_congr rfl
        intro l _
        rw [neg_pow]
        ring
      rw [hb, mul_assoc]
      congr 1
      rw [mul_sum]
      apply sum_congr rfl
      intro l _
      rw [pow_add]
      ring
    · rename_i h0
      congr 1
      -- reindex `j = i + l`
      have hre : ∑ l ∈ range (N - 1 - i + 1),
          (-1 : K) ^ l * ((N - 1 - i).choose l : K) * polyDeriv T (i + l) k t
          = ∑ j ∈ Ico i (N - 1 + 1),
            (-1 : K) ^ (j - i) * ((N - 1 - i).choose (j - i) : K) * polyDeriv T j k t := by
        rw [sum_Ico_eq_sum_range]
        have : N - 1 + 1 - i = N - 1 - i + 1 := by omega
        rw [this]
        apply sum_congr rfl
        intro l _
        simp
      rw [hre]
      symm
      have hsub : Ico (max i k) (N - 1 + 1) ⊆ Ico i (N - 1 + 1) := by
        intro j hj
        simp only [mem_Ico] at hj ⊢
        omega
      rw [← sum_subset hsub]
      · apply sum_congr rfl
        intro j hj
        have hjk : ¬ j < k := by
          simp only [mem_Ico] at hj
          omega
        simp only [polyDeriv, hjk, if_false]
        ring
      · intro j hj hnj
        have hjk : j < k := by
          simp only [mem_Ico] at hj hnj
          omega
        simp [polyDeriv, hjk]

/-- the polynomial of `basis.eval_deriv(j, k, ·)`. -/
noncomputable def toPoly (bs : Basis K) (j : Fin bs.N) (k : Nat) : K[X] :=
  match bs, j with
  | poly _ T, j => monoPoly T j.val k
  | bezier N T, j => bezPoly N T j.val k

theorem eval_toPoly [CharZero K] (bs : Basis K) (hT : bs.T ≠ 0) (j : Fin bs.N) (k : Nat) (t : K) :
    eval t (bs.toPoly j k) = bs.evalD j k t := by
  cases bs with
  | poly N T => exact eval_monoPoly T hT j.val k t
  | bezier N T => exact eval_bezPoly N T hT j.val k j.isLt t

theorem derivative_toPoly (bs : Basis K) (j : Fin bs.N) (k : Nat) :
    derivative (bs.toPoly j k) = bs.toPoly j (k + 1) := by
  cases bs with
  | poly N T => exact derivative_monoPoly T j.val k
  | bezier N T => exact derivative_bezPoly N T j.val k

end Basis

end CtrlVerif
